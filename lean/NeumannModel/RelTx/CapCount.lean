import NeumannModel.RelTx.CapLemmas
/-
  C09 — the engine-wide b-tree key count never exceeds the cap in a capped run (`CapModel.lean`).

  `btree_index_add` is the only step that creates a key, and it consults the count (the keys of the
  table at hand plus `otherKeys`) before it does; every other step of every statement removes entries or
  leaves the trees alone, and a statement only changes the trees of one table at a time.  Hence
  `btCount s ≤ cap` is an invariant of `stepC cap` (`capInv_stepC`, `capInv_runC`), and in an invariant
  state the split `otherKeys s t + keyCount T.btreeE ≤ cap` the statement-level theorems start from holds
  for every table that exists (`capInv_split`).
-/
namespace Neumann.RelTx

/-- invariant of capped runs: the keys of all in-memory b-trees number at most `cap`, and table names beyond
    `ntables` are unused -/
structure CapInv (cap : Nat) (s : State) : Prop where
  count : btCount s ≤ cap
  names : ∀ k, s.ntables ≤ k → s.tables k = none

/-! ### generic -/

theorem foldl_inv {α β : Type} (P : β → Prop) (f : β → α → β) (hf : ∀ b a, P b → P (f b a)) :
    ∀ (l : List α) (b : β), P b → P (l.foldl f b) := by
  intro l
  induction l with
  | nil => intro b h; exact h
  | cons a l ih => intro b h; rw [List.foldl_cons]; exact ih _ (hf b a h)

theorem filter_ne_range_of_le {n t : Nat} (h : n ≤ t) : (List.range n).filter (· ≠ t) = List.range n := by
  apply List.filter_eq_self.mpr
  intro k hk
  have := List.mem_range.mp hk
  simp only [ne_eq, decide_eq_true_eq]
  omega

/-- sum split: the summand of `t` apart -/
theorem sum_range_split (f : Nat → Nat) {n t : Nat} (h : t < n) :
    ((List.range n).map f).sum = (((List.range n).filter (· ≠ t)).map f).sum + f t := by
  induction n with
  | zero => omega
  | succ n ih =>
    rw [List.range_succ, List.filter_append, List.map_append, List.map_append, List.sum_append, List.sum_append]
    by_cases htn : t = n
    · subst htn
      rw [filter_ne_range_of_le (Nat.le_refl _)]
      have : List.filter (· ≠ t) [t] = [] := by simp
      rw [this]
      simp
    · have hlt : t < n := by omega
      rw [ih hlt]
      have : List.filter (· ≠ t) [n] = [n] := by
        simp only [ne_eq, List.filter_cons, List.filter_nil]
        rw [if_pos]
        simp only [decide_eq_true_eq]
        omega
      rw [this]
      simp only [List.map_cons, List.map_nil, List.sum_cons, List.sum_nil]
      omega

/-! ### the count and `setTable` -/

theorem tableKeys_eq {s s' : State} {k : Nat} (h : s'.tables k = s.tables k) : tableKeys s' k = tableKeys s k := by
  unfold tableKeys
  rw [h]

theorem tableKeys_some {s : State} {t : Nat} {T : Table} (h : s.tables t = some T) : tableKeys s t = keyCount T.btreeE := by
  unfold tableKeys
  rw [h]

theorem btCount_congr {s s' : State} (hn : s'.ntables = s.ntables) (ht : s'.tables = s.tables) : btCount s' = btCount s := by
  unfold btCount
  rw [hn]
  congr 1
  apply List.map_congr_left
  intro k _
  exact tableKeys_eq (by rw [ht])

theorem capInv_congr {cap : Nat} {s s' : State} (hn : s'.ntables = s.ntables) (ht : s'.tables = s.tables)
    (h : CapInv cap s) : CapInv cap s' := by
  refine ⟨?_, ?_⟩
  · rw [btCount_congr hn ht]; exact h.count
  · intro k hk
    rw [ht]
    exact h.names k (by omega)

theorem lt_ntables {s : State} (hnames : ∀ k, s.ntables ≤ k → s.tables k = none) {t : Nat} {T : Table}
    (hT : s.tables t = some T) : t < s.ntables := by
  apply Nat.lt_of_not_le
  intro hle
  rw [hnames t hle] at hT
  cases hT

theorem btCount_split {s : State} (hnames : ∀ k, s.ntables ≤ k → s.tables k = none) {t : Nat} {T : Table}
    (hT : s.tables t = some T) : btCount s = otherKeys s t + keyCount T.btreeE := by
  unfold btCount otherKeys
  rw [sum_range_split (tableKeys s) (lt_ntables hnames hT), tableKeys_some hT]

/-- what the statement-level theorems need: in an invariant state, for a table that exists -/
theorem capInv_split {cap : Nat} {s : State} (h : CapInv cap s) {t : Nat} {T : Table} (hT : s.tables t = some T) :
    otherKeys s t + keyCount T.btreeE ≤ cap := by
  rw [← btCount_split h.names hT]
  exact h.count

/-- replacing a table that exists by one that fits next to the others -/
theorem capInv_setTable {cap : Nat} {s s1 : State} {t : Nat} {T T' : Table} (h : CapInv cap s)
    (hn : s1.ntables = s.ntables) (ht : s1.tables = s.tables) (hT : s.tables t = some T)
    (hc : otherKeys s t + keyCount T'.btreeE ≤ cap) : CapInv cap (setTable s1 t T') := by
  have hlt : t < s.ntables := lt_ntables h.names hT
  have hn' : (setTable s1 t T').ntables = s.ntables := hn
  have hT' : (setTable s1 t T').tables t = some T' := by rw [setTable_tables, if_pos rfl]
  have hnames : ∀ k, (setTable s1 t T').ntables ≤ k → (setTable s1 t T').tables k = none := by
    intro k hk
    rw [hn'] at hk
    rw [setTable_tables, if_neg (by omega), ht]
    exact h.names k hk
  refine ⟨?_, hnames⟩
  rw [btCount_split hnames hT']
  have : otherKeys (setTable s1 t T') t = otherKeys s t :=
    otherKeys_congr hn' (fun k hk => by rw [setTable_tables, if_neg hk, ht])
  rw [this]
  exact hc

theorem capInv_init (cap a b : Nat) : CapInv cap (init a b) := by
  refine ⟨?_, fun _ _ => rfl⟩
  show ((List.range 0).map (tableKeys (init a b))).sum ≤ cap
  rw [List.range_zero]
  exact Nat.zero_le _

/-! ### the primitives on the entries of one table (`other` fixed) -/

theorem keyCount_idxRemove_le (e : Entry) (es : List Entry) : keyCount (idxRemove e es) ≤ keyCount es :=
  keyCount_mono fun x hx => ⟨x, (mem_idxRemove.mp hx).1, rfl⟩

theorem keyCount_idxDropCol_le (c : Nat) (es : List Entry) : keyCount (idxDropCol c es) ≤ keyCount es :=
  keyCount_mono fun x hx => ⟨x, (mem_idxDropCol.mp hx).1, rfl⟩

theorem fits_idxRemove {cap other : Nat} (e : Entry) {es : List Entry} (h : other + keyCount es ≤ cap) :
    other + keyCount (idxRemove e es) ≤ cap := by
  have := keyCount_idxRemove_le e es
  omega

/-- an accepted `btree_index_add` stays within the cap -/
theorem btAddC_fits {cap other : Nat} {e : Entry} {es es' : List Entry} (hb : btAddC cap other e es = some es')
    (h : other + keyCount es ≤ cap) : other + keyCount es' ≤ cap := by
  rw [btAddC_some hb]
  by_cases he : e ∈ es
  · rw [idxAdd_of_mem he]; exact h
  · rw [idxAdd_of_not_mem he]
    cases hk : hasKey es (ekey e) with
    | true =>
      obtain ⟨x, hx, hxe⟩ := hasKey_true.mp hk
      have : keyCount (es ++ [e]) ≤ keyCount es := by
        apply keyCount_mono
        intro y hy
        rcases List.mem_append.mp hy with hy | hy
        · exact ⟨y, hy, rfl⟩
        · rw [List.mem_singleton] at hy
          subst hy
          exact ⟨x, hx, hxe⟩
      omega
    | false =>
      rw [keyCount_append_new hk]
      have hnot : ¬ cap ≤ other + keyCount es := by
        intro hc
        unfold btAddC at hb
        rw [hk] at hb
        simp only [Bool.not_false, Bool.true_and, decide_eq_true_eq] at hb
        rw [if_pos hc] at hb
        cases hb
      omega

theorem btMoves_fits {cap other : Nat} {upd : List (Nat × Val)} {vals : List Val} {i : Nat} :
    ∀ (cs : List Nat) (es : List Entry), other + keyCount es ≤ cap →
      other + keyCount (btMoves cap other upd vals i cs es).1 ≤ cap := by
  intro cs
  induction cs with
  | nil => intro es h; rw [btMoves]; exact h
  | cons c cs ih =>
    intro es h
    have hrem := fits_idxRemove (c, val vals c, i) h
    cases hu : updGet upd c with
    | none => rw [btMoves_cons_none hu]; exact ih es h
    | some n =>
      cases hb : btAddC cap other (c, n, i) (idxRemove (c, val vals c, i) es) with
      | none => rw [btMoves_cons_refused hu hb]; exact hrem
      | some es' => rw [btMoves_cons_ok hu hb]; exact ih es' (btAddC_fits hb hrem)

theorem btAdds_fits {cap other : Nat} {vals : List Val} {id : Nat} :
    ∀ (cs : List Nat) (es : List Entry), other + keyCount es ≤ cap →
      other + keyCount (btAdds cap other vals id cs es).1 ≤ cap := by
  intro cs
  induction cs with
  | nil => intro es h; rw [btAdds]; exact h
  | cons c cs ih =>
    intro es h
    rw [btAdds]
    cases hb : btAddC cap other (c, val vals c, id) es with
    | none => exact h
    | some es' => exact ih es' (btAddC_fits hb h)

theorem buildColC_fits {cap other : Nat} {T : Table} {c : Nat} :
    ∀ (is : List Nat) (es : List Entry), other + keyCount es ≤ cap →
      other + keyCount (buildColC cap other T c is es).1 ≤ cap := by
  intro is
  induction is with
  | nil => intro es h; rw [buildColC]; exact h
  | cons i is ih =>
    intro es h
    rw [buildColC]
    cases hr : T.rows[i]? with
    | none => exact ih es h
    | some r =>
      dsimp only
      cases hb : btAddC cap other (c, val r.vals c, i) es with
      | none => exact h
      | some es' => exact ih es' (btAddC_fits hb h)

theorem insertRowC_fits {cap other : Nat} {T : Table} (v : List Val) (h : other + keyCount T.btreeE ≤ cap) :
    other + keyCount (insertRowC cap other T v).1.btreeE ≤ cap :=
  btAdds_fits _ _ h

theorem batchRowsC_fits {cap other : Nat} :
    ∀ (vs : List (List Val)) (T : Table), other + keyCount T.btreeE ≤ cap →
      other + keyCount (batchRowsC cap other vs T).1.btreeE ≤ cap := by
  intro vs
  induction vs with
  | nil => intro T h; rw [batchRowsC]; exact h
  | cons v vs ih =>
    intro T h
    have h1 := insertRowC_fits (cap := cap) (other := other) v h
    rw [batchRowsC]
    cases hp : insertRowC cap other T v with
    | mk T' b =>
      rw [hp] at h1
      cases b with
      | true => exact ih T' h1
      | false => exact h1

theorem undoChangeC_fits {cap other : Nat} {on : List Nat} {i : Nat} (acc : List Entry × Nat) (p : Nat × Val × Val)
    (h : other + keyCount acc.1 ≤ cap) : other + keyCount (undoChangeC cap other on i acc p).1 ≤ cap := by
  have hrem := fits_idxRemove (p.1, p.2.2, i) h
  unfold undoChangeC
  split
  · split
    · rename_i es hb
      exact btAddC_fits hb hrem
    · exact hrem
  · exact h

theorem undoReaddC_fits {cap other : Nat} {on : List Nat} {i : Nat} (acc : List Entry × Nat) (p : Nat × Val)
    (h : other + keyCount acc.1 ≤ cap) : other + keyCount (undoReaddC cap other on i acc p).1 ≤ cap := by
  unfold undoReaddC
  split
  · split
    · rename_i es hb
      exact btAddC_fits hb h
    · exact h
  · exact h

theorem applyUndoTC_fits {cap other : Nat} {T : Table} (u : Undo) (h : other + keyCount T.btreeE ≤ cap) :
    other + keyCount (applyUndoTC cap other T u).1.btreeE ≤ cap := by
  cases u with
  | inserted t i idx =>
    show other + keyCount (idx.foldl (fun es p => idxRemove (p.1, p.2, i) es) T.btreeE) ≤ cap
    exact foldl_inv (fun es => other + keyCount es ≤ cap) _ (fun es p hes => fits_idxRemove _ hes) idx _ h
  | updated t i old chg =>
    show other + keyCount (chg.foldl (undoChangeC cap other T.btreeOn i) (T.btreeE, 0)).1 ≤ cap
    exact foldl_inv (fun acc : List Entry × Nat => other + keyCount acc.1 ≤ cap) (undoChangeC cap other T.btreeOn i)
      (fun acc p => undoChangeC_fits acc p) chg (T.btreeE, 0) h
  | deleted t i old idx =>
    show other + keyCount (idx.foldl (undoReaddC cap other T.btreeOn i) (T.btreeE, 0)).1 ≤ cap
    exact foldl_inv (fun acc : List Entry × Nat => other + keyCount acc.1 ≤ cap) (undoReaddC cap other T.btreeOn i)
      (fun acc p => undoReaddC_fits acc p) idx (T.btreeE, 0) h

theorem updateRowT_fits {cap other : Nat} {upd : List (Nat × Val)} {T : Table} {i : Nat} {r : Row}
    (h : other + keyCount T.btreeE ≤ cap) : other + keyCount (updateRowT cap other upd T i r).1.btreeE ≤ cap := by
  unfold updateRowT
  dsimp only
  split <;> exact btMoves_fits _ _ h

/-! ### state level -/

theorem ite_lock_fields (b : Bool) (s : State) (tx t : Nat) (rows : List Nat) :
    (if b then s else lockAll s tx t rows).ntables = s.ntables ∧
      (if b then s else lockAll s tx t rows).tables = s.tables := by
  cases b <;> exact ⟨rfl, rfl⟩

theorem capInv_begin {cap : Nat} {s : State} (h : CapInv cap s) : CapInv cap (begin s).1 :=
  capInv_congr (s := s) rfl rfl h

theorem capInv_commit {cap : Nat} {s : State} (h : CapInv cap s) (tx : Nat) : CapInv cap (commit s tx).1 := by
  unfold commit
  split
  · exact h
  · exact capInv_congr (s := s) rfl rfl h

theorem capInv_updateRowC {cap : Nat} (tx t : Nat) (upd : List (Nat × Val)) {s : State} (i : Nat)
    (h : CapInv cap s) : CapInv cap (updateRowC cap tx t upd s i).1 := by
  unfold updateRowC
  cases hT : s.tables t with
  | none => exact h
  | some T =>
    dsimp only
    cases hr : T.rows[i]? with
    | none => exact h
    | some r =>
      dsimp only
      exact capInv_setTable h (recordUndo_ntables _ _ _) (recordUndo_tables _ _ _) hT
        (updateRowT_fits (capInv_split h hT))

theorem capInv_foldRowsC {cap : Nat} (f : State → Nat → State × Bool)
    (hf : ∀ s i, CapInv cap s → CapInv cap (f s i).1) :
    ∀ (is : List Nat) (s : State), CapInv cap s → CapInv cap (foldRowsC f is s).1 := by
  intro is
  induction is with
  | nil => intro s h; rw [foldRowsC]; exact h
  | cons i is ih =>
    intro s h
    have h1 := hf s i h
    rw [foldRowsC]
    cases hp : f s i with
    | mk s' b =>
      rw [hp] at h1
      cases b with
      | true => exact ih s' h1
      | false => exact h1

theorem capInv_txUpdateC {cap : Nat} {s : State} (h : CapInv cap s) (tx t : Nat) (cond : Cond) (upd : List (Nat × Val)) :
    CapInv cap (txUpdateC cap s tx t cond upd).1 := by
  unfold txUpdateC
  split
  · exact h
  · split
    · exact h
    · rename_i T hT
      split
      · exact h
      · dsimp only
        split
        · exact h
        · apply capInv_foldRowsC _ (fun s i hs => capInv_updateRowC tx t upd i hs)
          split
          · exact h
          · exact capInv_congr (s := s) rfl rfl h

theorem capInv_deleteRow {cap : Nat} (tx t : Nat) {s : State} (i : Nat) (h : CapInv cap s) :
    CapInv cap (deleteRow tx t s i) := by
  unfold deleteRow
  cases hT : s.tables t with
  | none => exact h
  | some T =>
    dsimp only
    cases hr : T.rows[i]? with
    | none => exact h
    | some r =>
      dsimp only
      apply capInv_setTable h (recordUndo_ntables _ _ _) (recordUndo_tables _ _ _) hT
      exact foldl_inv (fun es => otherKeys s t + keyCount es ≤ cap) _ (fun es c hes => fits_idxRemove _ hes)
        T.btreeOn _ (capInv_split h hT)

theorem capInv_txDelete {cap : Nat} {s : State} (h : CapInv cap s) (tx t : Nat) (cond : Cond) :
    CapInv cap (txDelete s tx t cond).1 := by
  unfold txDelete
  split
  · exact h
  · split
    · exact h
    · dsimp only
      split
      · exact h
      · apply foldl_inv (CapInv cap) _ (fun s i hs => capInv_deleteRow tx t i hs)
        split
        · exact h
        · exact capInv_congr (s := s) rfl rfl h

theorem capInv_txInsertC {cap : Nat} {s : State} (h : CapInv cap s) (tx t : Nat) (vals : List Val) :
    CapInv cap (txInsertC cap s tx t vals).1 := by
  unfold txInsertC
  split
  · exact h
  · split
    · exact h
    · rename_i T hT
      split
      · exact h
      · dsimp only
        obtain ⟨hn, ht⟩ := ite_lock_fields (lockBlocked s tx t [T.rows.length]) s tx t [T.rows.length]
        have hfit := btAdds_fits (cap := cap) (other := otherKeys s t) (vals := vals) (id := T.rows.length)
          T.btreeOn T.btreeE (capInv_split h hT)
        split
        · exact capInv_congr (recordUndo_ntables _ _ _) (recordUndo_tables _ _ _)
            (capInv_setTable h hn ht hT hfit)
        · exact capInv_setTable h hn ht hT hfit

theorem capInv_applyUndoC {cap : Nat} (acc : State × Nat) (u : Undo) (h : CapInv cap acc.1) :
    CapInv cap (applyUndoC cap acc u).1 := by
  unfold applyUndoC
  cases hT : acc.1.tables u.table with
  | none => exact h
  | some T =>
    dsimp only
    exact capInv_setTable h rfl rfl hT (applyUndoTC_fits u (capInv_split h hT))

theorem capInv_rollbackC {cap : Nat} {s : State} (h : CapInv cap s) (tx : Nat) : CapInv cap (rollbackC cap s tx).1 := by
  unfold rollbackC
  split
  · exact h
  · dsimp only
    have hr := foldl_inv (fun acc : State × Nat => CapInv cap acc.1) (applyUndoC cap)
      (fun acc u => capInv_applyUndoC acc u)
      (match s.txs tx with | some x => x.undo | none => []).reverse (s, 0) h
    refine capInv_congr ?_ ?_ hr <;> rfl

theorem capInv_finishAutoC {cap : Nat} {p : State × ResC} (h : CapInv cap p.1) (tx : Nat) :
    CapInv cap (finishAutoC cap p tx).1 := by
  unfold finishAutoC
  split
  · exact capInv_rollbackC h tx
  · exact capInv_rollbackC h tx
  · exact capInv_commit h tx

theorem capInv_insertC {cap : Nat} {s : State} (h : CapInv cap s) (t : Nat) (vals : List Val) :
    CapInv cap (insertC cap s t vals).1 := by
  unfold insertC
  split
  · exact h
  · split
    · exact h
    · exact capInv_finishAutoC (capInv_txInsertC (capInv_begin h) _ _ _) _

theorem capInv_updateC {cap : Nat} {s : State} (h : CapInv cap s) (t : Nat) (cond : Cond) (upd : List (Nat × Val)) :
    CapInv cap (updateC cap s t cond upd).1 := by
  unfold updateC
  split
  · exact h
  · split
    · exact h
    · exact capInv_finishAutoC (capInv_txUpdateC (capInv_begin h) _ _ _ _) _

theorem capInv_txDeleteC {cap : Nat} {s : State} (h : CapInv cap s) (tx t : Nat) (cond : Cond) :
    CapInv cap (txDeleteC s tx t cond).1 :=
  capInv_txDelete h tx t cond

theorem capInv_deleteC {cap : Nat} {s : State} (h : CapInv cap s) (t : Nat) (cond : Cond) :
    CapInv cap (deleteC cap s t cond).1 := by
  unfold deleteC
  split
  · exact h
  · exact capInv_finishAutoC (capInv_txDeleteC (capInv_begin h) _ _ _) _

theorem capInv_createBtreeC {cap : Nat} {s : State} (h : CapInv cap s) (t c : Nat) :
    CapInv cap (createBtreeC cap s t c).1 := by
  unfold createBtreeC
  split
  · exact h
  · rename_i T hT
    split
    · exact h
    · split
      · exact h
      · dsimp only
        exact capInv_setTable h rfl rfl hT (buildColC_fits _ _ (capInv_split h hT))

theorem capInv_batchInsertC {cap : Nat} {s : State} (h : CapInv cap s) (t : Nat) (rows : List (List Val)) :
    CapInv cap (batchInsertC cap s t rows).1 := by
  unfold batchInsertC
  split
  · exact h
  · split
    · exact h
    · rename_i T hT
      split
      · exact h
      · dsimp only
        exact capInv_setTable h rfl rfl hT (batchRowsC_fits _ _ (capInv_split h hT))

/-! ### the statements that never add a b-tree entry -/

theorem capInv_createTable {cap : Nat} {s : State} (h : CapInv cap s) (n : Nat) (nl : List Nat) :
    CapInv cap (createTable s n nl).1 := by
  have hnt : (createTable s n nl).1.ntables = s.ntables + 1 := rfl
  have htab : ∀ k, (createTable s n nl).1.tables k =
      if k = s.ntables then some { ncols := n, nullable := nl, rows := [], hashOn := [], btreeOn := [], hashE := [], btreeE := [] }
      else s.tables k := fun _ => rfl
  refine ⟨?_, ?_⟩
  · have hnew : tableKeys (createTable s n nl).1 s.ntables = 0 := by
      unfold tableKeys
      rw [htab, if_pos rfl]
      rfl
    have hold : (List.range s.ntables).map (tableKeys (createTable s n nl).1) = (List.range s.ntables).map (tableKeys s) := by
      apply List.map_congr_left
      intro k hk
      have := List.mem_range.mp hk
      apply tableKeys_eq
      rw [htab, if_neg (by omega)]
    have : btCount (createTable s n nl).1 = btCount s := by
      unfold btCount
      rw [hnt, List.range_succ, List.map_append, List.sum_append, hold, List.map_singleton, hnew]
      simp
    rw [this]
    exact h.count
  · intro k hk
    rw [hnt] at hk
    rw [htab, if_neg (by omega)]
    exact h.names k (by omega)

theorem capInv_createIndex {cap : Nat} {s : State} (h : CapInv cap s) (t c : Nat) : CapInv cap (createIndex s t c).1 := by
  unfold createIndex
  split
  · exact h
  · rename_i T hT
    split
    · exact h
    · split
      · exact h
      · exact capInv_setTable h rfl rfl hT (capInv_split (T := T) h hT)

theorem capInv_dropIndex {cap : Nat} {s : State} (h : CapInv cap s) (t c : Nat) : CapInv cap (dropIndex s t c).1 := by
  unfold dropIndex
  split
  · exact h
  · rename_i T hT
    split
    · exact capInv_setTable h rfl rfl hT (capInv_split (T := T) h hT)
    · exact h

theorem capInv_dropBtree {cap : Nat} {s : State} (h : CapInv cap s) (t c : Nat) : CapInv cap (dropBtree s t c).1 := by
  unfold dropBtree
  split
  · exact h
  · rename_i T hT
    split
    · apply capInv_setTable h rfl rfl hT
      have h1 := capInv_split h hT
      have h2 := keyCount_idxDropCol_le c T.btreeE
      show otherKeys s t + keyCount (idxDropCol c T.btreeE) ≤ cap
      omega
    · exact h

theorem foldl_release_tables (ids : List Nat) (s : State) :
    (ids.foldl release s).ntables = s.ntables ∧ (ids.foldl release s).tables = s.tables :=
  foldl_inv (fun s' : State => s'.ntables = s.ntables ∧ s'.tables = s.tables) release
    (fun _ _ hb => hb) ids s ⟨rfl, rfl⟩

theorem capInv_cleanupTxs {cap : Nat} {s : State} (h : CapInv cap s) : CapInv cap (cleanupTxs s).1 := by
  obtain ⟨hn, ht⟩ := foldl_release_tables ((List.range s.nextTx).filter (txExpired s)) s
  exact capInv_congr hn ht h

theorem capInv_stepC {cap : Nat} {s : State} (h : CapInv cap s) (op : Op) : CapInv cap (stepC cap s op).1 := by
  cases op with
  | begin => exact capInv_begin h
  | commit tx => exact capInv_commit h tx
  | rollback tx => exact capInv_rollbackC h tx
  | txInsert tx t vals => exact capInv_txInsertC h tx t vals
  | txUpdate tx t cond upd => exact capInv_txUpdateC h tx t cond upd
  | txDelete tx t cond => exact capInv_txDeleteC h tx t cond
  | insert t vals => exact capInv_insertC h t vals
  | update t cond upd => exact capInv_updateC h t cond upd
  | delete t cond => exact capInv_deleteC h t cond
  | batchInsert t rows => exact capInv_batchInsertC h t rows
  | createTable n nl => exact capInv_createTable h n nl
  | createIndex t c => exact capInv_createIndex h t c
  | createBtree t c => exact capInv_createBtreeC h t c
  | dropIndex t c => exact capInv_dropIndex h t c
  | dropBtree t c => exact capInv_dropBtree h t c
  | tick d => exact capInv_congr (s := s) rfl rfl h
  | cleanupLocks => exact capInv_congr (s := s) rfl rfl h
  | cleanupTxs => exact capInv_cleanupTxs h

theorem capInv_runC {cap : Nat} {s : State} (h : CapInv cap s) (ops : List Op) : CapInv cap (runC cap s ops) :=
  foldl_inv (CapInv cap) _ (fun _ op hs => capInv_stepC hs op) ops s h

/-- from the empty engine -/
theorem capInv_runC_init (cap a b : Nat) (ops : List Op) : CapInv cap (runC cap (init a b) ops) :=
  capInv_runC (capInv_init cap a b) ops

theorem btCount_runC_le (cap a b : Nat) (ops : List Op) : btCount (runC cap (init a b) ops) ≤ cap :=
  (capInv_runC_init cap a b ops).count

end Neumann.RelTx
