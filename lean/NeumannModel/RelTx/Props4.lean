import NeumannModel.RelTx.Ddl
/-
  C09 — fourth module of property theorems (ONLY theorems and their non-vacuity examples):
  `drop_table` / `create_table` under a name used before, next to open transactions (`DdlModel.lean`).
  What the repairs 6f865e8a (drop_table is refused while an open transaction has uncommitted changes
  in the table) and 6992261a (drop_table takes the in-memory b-tree maps with it) make true for every
  state / every script, and — as witnesses on the code before them — what was wrong.
-/
namespace Neumann.RelTx.Props4
open Neumann.RelTx Neumann.RelTx.Props

/-! ## the guard -/

/-- EVERY state: while a transaction in the manager's map has an undo entry naming table `t`
    (uncommitted changes in it), `drop_table t` answers `LockConflict` and changes nothing. -/
theorem drop_table_refused_while_open_transaction_wrote_table (s : State) (t A : Nat) (x : Tx) (T : Table)
    (hlt : A < s.nextTx) (hx : s.txs A = some x) (hu : ∃ u ∈ x.undo, u.table = t) (hT : s.tables t = some T) :
    dropTable s t = (s, .err .lockConflict) := by
  cases ho : openTxOnTable s t with
  | none =>
    have := ddl_openTx_isSome hlt hx hu
    rw [ho] at this
    cases this
  | some B => exact dropTable_refused hT ho

/-- EVERY state: a `drop_table t` that is accepted removes exactly table `t` (every other table, every
    transaction record, every lock, the clock are what they were) and no transaction known to the
    manager has an undo entry naming `t` — there is nothing a later rollback could apply to a table
    created under the name afterwards. -/
theorem accepted_drop_table_leaves_no_undo_entry_behind (s : State) (t : Nat) (h : (dropTable s t).2 = .ok) :
    (dropTable s t).1.tables t = none ∧ (∀ k, k ≠ t → (dropTable s t).1.tables k = s.tables k) ∧
    (dropTable s t).1.txs = s.txs ∧ (dropTable s t).1.locks = s.locks ∧ (dropTable s t).1.txLocks = s.txLocks ∧
    (dropTable s t).1.nextTx = s.nextTx ∧ (dropTable s t).1.now = s.now ∧
    ∀ A x, A < s.nextTx → s.txs A = some x → ∀ u ∈ x.undo, u.table ≠ t := by
  obtain ⟨_, ho, hf⟩ := dropTable_ok_form h
  rw [hf]
  refine ⟨?_, ?_, rfl, rfl, rfl, rfl, rfl, ?_⟩
  · show (if t = t then none else s.tables t) = none
    rw [if_pos rfl]
  · intro k hk
    show (if k = t then none else s.tables k) = s.tables k
    rw [if_neg hk]
  · intro A x hlt hx
    exact ddl_openTx_none ho hlt hx

/-- non-vacuity of the two: the directed script of the harness.  Transaction 3 has updated, deleted and
    inserted rows of table 0; `drop_table 0` is refused, the state is unchanged; after the rollback the drop
    is accepted. -/
example :
    let ops : List OpD := [.base (.createTable 2 []), .base (.insert 0 [1, 1]), .base (.insert 0 [2, 2]), .base (.insert 0 [3, 3]),
      .base .begin, .base (.txUpdate 3 0 (.idEq 0) [(0, 4)]), .base (.txDelete 3 0 (.idEq 1)), .base (.txInsert 3 0 [4, 4])]
    (dropTable (runD s0 ops) 0).2 = .err .lockConflict ∧
    ((runD s0 ops).txs 3).map (·.undo.length) = some 3 ∧
    (dropTable (runD s0 (ops ++ [.base (.rollback 3)])) 0).2 = .ok := by
  refine ⟨by decide, by decide, by decide⟩

/-! ## every script -/

/-- EVERY script of statements, `drop_table` and `create_table <name>` from the empty engine — any number of
    transactions, lock expiries, index DDL, sweeps —, every reachable state: every undo entry of every
    transaction known to the manager names a table that EXISTS.  (Before 6f865e8a a table could be dropped
    under a transaction that had written it: its rollback then found no table — `RollbackFailed` — or the
    rows of another table created under the name.) -/
theorem undo_entries_name_existing_tables (a b : Nat) (ops : List OpD) (A : Nat) (x : Tx)
    (hx : (runD (init a b) ops).txs A = some x) :
    ∀ u ∈ x.undo, ((runD (init a b) ops).tables u.table).isSome = true := by
  exact (ddl_di_runD (ddl_di_init a b) ops A x hx).2

/-- A ROLLBACK NEVER TOUCHES A TABLE CREATED AFTER THE TRANSACTION'S OWN WRITES UNDER THAT NAME.
    Every script `pre`, an accepted `create_table t`, every script `post` (statements of any transaction,
    further drops / creates included) in which transaction `A` itself issues no `tx_insert` / `tx_update` /
    `tx_delete` on `t`:
      (1) at the moment the table is created no transaction has an undo entry naming `t` — whatever any
          transaction did to an earlier table of that name is out of reach;
      (2) at the end `A`'s log still has none, and `A`'s rollback leaves table `t` — every row, every hash
          and b-tree index entry — exactly as it is.
    `A` may have begun before the table was created and may have written the EARLIER table of that name
    (then that table was dropped after `A`'s writes had been committed or rolled back — the guard).
    `drop_table_ignores_open_transaction_witness` shows both fail for the code before 6f865e8a. -/
theorem rollback_never_touches_table_created_after_own_writes (a b : Nat) (pre post : List OpD)
    (t n : Nat) (nl : List Nat) (A : Nat)
    (hc : (stepD (runD (init a b) pre) (.createTableAt t n nl)).2 = .ok)
    (hpost : ∀ op ∈ post, op.writesAs A t = false) :
    (∀ B x, (stepD (runD (init a b) pre) (.createTableAt t n nl)).1.txs B = some x → ∀ u ∈ x.undo, u.table ≠ t) ∧
    (∀ x, (runD (init a b) (pre ++ [.createTableAt t n nl] ++ post)).txs A = some x → ∀ u ∈ x.undo, u.table ≠ t) ∧
    (rollback (runD (init a b) (pre ++ [.createTableAt t n nl] ++ post)) A).1.tables t =
      (runD (init a b) (pre ++ [.createTableAt t n nl] ++ post)).tables t := by
  have hdi : ddl_DI (runD (init a b) pre) := ddl_di_runD (ddl_di_init a b) pre
  have hc' : (createTableAt (runD (init a b) pre) t n nl).2 = .ok := hc
  have h1 : ∀ B, ddl_NoName (stepD (runD (init a b) pre) (.createTableAt t n nl)).1 B t :=
    fun B => ddl_noName_of_created hdi hc' B
  have he : runD (init a b) (pre ++ [.createTableAt t n nl] ++ post) =
      runD (stepD (runD (init a b) pre) (.createTableAt t n nl)).1 post := by
    rw [runD_append, runD_append]; rfl
  have h2 : ddl_NoName (runD (init a b) (pre ++ [.createTableAt t n nl] ++ post)) A t := by
    rw [he]; exact ddl_noName_runD (h1 A) post hpost
  exact ⟨fun B x hx => h1 B x hx, h2, ddl_rollback_tables_of_noName h2⟩

/-- the control script of the harness: transaction 2 is open and has written table 1 only; table 0 — committed
    rows, nobody's uncommitted changes — is dropped -/
def recreateOps : List OpD := [.base (.createTable 2 []), .base (.insert 0 [1, 1]), .base (.createTable 2 []), .base (.insert 1 [1, 1]),
  .base .begin, .base (.txUpdate 2 1 .all [(0, 2)]), .dropTable 0]

/-- non-vacuity of `rollback_never_touches_table_created_after_own_writes`: transaction 2 is open and has
    written table 1; table 0 is dropped (accepted: nobody has uncommitted changes in it), created again and
    filled; transaction 2's rollback is `Ok`, restores table 1 and leaves the new table 0 alone -/
example :
    let post : List OpD := [.base (.insert 0 [5, 5]), .base (.txInsert 2 1 [7, 7])]
    (stepD (runD s0 recreateOps) (.createTableAt 0 2 [])).2 = .ok ∧
    (∀ op ∈ post, op.writesAs 2 0 = false) ∧
    gate (runD s0 (recreateOps ++ [.createTableAt 0 2 []] ++ post)) 2 = none ∧
    (rollback (runD s0 (recreateOps ++ [.createTableAt 0 2 []] ++ post)) 2).2 = .ok ∧
    ((rollback (runD s0 (recreateOps ++ [.createTableAt 0 2 []] ++ post)) 2).1.tables 0).map (scanAnswer · .all) = some [(0, [5, 5])] ∧
    ((rollback (runD s0 (recreateOps ++ [.createTableAt 0 2 []] ++ post)) 2).1.tables 1).map (scanAnswer · .all) = some [(0, [1, 1])] := by
  refine ⟨by decide, by decide, by decide, by decide, by decide, by decide⟩

/-! ## the code before 6f865e8a -/

/-- the directed script: transaction 3 updates row 0, deletes row 1 and inserts row 3 of table 0; the table
    is dropped and created again under its name; four rows are inserted and committed; transaction 3 rolls
    back -/
def dropUnderTx : List OpD := [.base (.createTable 2 []), .base (.insert 0 [1, 1]), .base (.insert 0 [2, 2]), .base (.insert 0 [3, 3]),
  .base .begin, .base (.txUpdate 3 0 (.idEq 0) [(0, 4)]), .base (.txDelete 3 0 (.idEq 1)), .base (.txInsert 3 0 [4, 4]),
  .dropTable 0, .createTableAt 0 2 [], .base (.insert 0 [5, 5]), .base (.insert 0 [5, 0]), .base (.insert 0 [0, 5]), .base (.insert 0 [3, 2])]

/-- WITNESS, the code before 6f865e8a (`dropTableOld` / `runDOld`: `drop_table` does not look at open
    transactions).  The drop and the re-creation are accepted; the new table holds the committed rows
    `[5,5] [5,0] [0,5] [3,2]`.  Transaction 3's rollback applies its undo entries — which name the table, not
    an incarnation — to the NEW table: committed row 0 is overwritten with the old table's `[1,1]`, committed
    row 3 is deleted (the undo of 3's insert), the undo of the delete fails on live row 1: `RollbackFailed`.
    Variant without re-creation: the rollback finds no table and fails.
    The code as it is now answers `LockConflict` to the drop, `TableAlreadyExists` to the create, and the
    rollback is `Ok` and restores the table the transaction wrote. -/
theorem drop_table_ignores_open_transaction_witness :
    runResDOld s0 (dropUnderTx ++ [.base (.rollback 3)]) =
      [.okN 0, .okN 0, .okN 1, .okN 2, .okN 3, .okN 1, .okN 1, .okN 3, .ok, .ok, .okN 0, .okN 1, .okN 2, .okN 3, .err .rollbackFailed] ∧
    ((runDOld s0 dropUnderTx).tables 0).map (scanAnswer · .all) = some [(0, [5, 5]), (1, [5, 0]), (2, [0, 5]), (3, [3, 2])] ∧
    ((runDOld s0 (dropUnderTx ++ [.base (.rollback 3)])).tables 0).map (scanAnswer · .all) = some [(0, [1, 1]), (1, [5, 0]), (2, [0, 5])] ∧
    -- the transaction's log names the re-created table when it is created: (1) of the theorem fails
    (((runDOld s0 (dropUnderTx.take 10)).txs 3).map fun x => x.undo.map (·.table)) = some [0, 0, 0] ∧
    -- variant: no re-creation, the rollback finds no table
    runResDOld s0 (dropUnderTx.take 9 ++ [.base (.rollback 3)]) =
      [.okN 0, .okN 0, .okN 1, .okN 2, .okN 3, .okN 1, .okN 1, .okN 3, .ok, .err .rollbackFailed] ∧
    -- the code as it is now
    runResD s0 (dropUnderTx ++ [.base (.rollback 3)]) =
      [.okN 0, .okN 0, .okN 1, .okN 2, .okN 3, .okN 1, .okN 1, .okN 3, .err .lockConflict, .err .tableExists,
       .okN 4, .okN 5, .okN 6, .okN 7, .ok] ∧
    ((runD s0 (dropUnderTx ++ [.base (.rollback 3)])).tables 0).map (scanAnswer · .all) =
      some [(0, [1, 1]), (1, [2, 2]), (2, [3, 3]), (4, [5, 5]), (5, [5, 0]), (6, [0, 5]), (7, [3, 2])] := by
  refine ⟨by decide, by decide, by decide, by decide, by decide, by decide, by decide⟩

/-! ## 6992261a: the in-memory b-tree maps go with the table -/

/-- EVERY state, every schema, every batch of rows, every column and condition: after an accepted `drop_table t`
    and `create_table t`, rows appended to the new table and a b-tree (or hash) index created on it answer every
    index-served query exactly as the full scan does — nothing of the dropped table is left under the name. -/
theorem recreated_table_index_answers_exact (s : State) (t n : Nat) (nl : List Nat) (rows : List (List Val)) (c : Nat)
    (hd : (dropTable s t).2 = .ok) (T : Table) (cond : Cond) :
    ((createTableAt (dropTable s t).1 t n nl).1.tables t = some (emptyTable n nl)) ∧
    ((createBtree (batchInsert (createTableAt (dropTable s t).1 t n nl).1 t rows).1 t c).1.tables t = some T →
      select T cond = scanAnswer T cond) ∧
    ((createIndex (batchInsert (createTableAt (dropTable s t).1 t n nl).1 t rows).1 t c).1.tables t = some T →
      select T cond = scanAnswer T cond) := by
  have h0 := ddl_recreate_tables hd n nl
  refine ⟨h0, ?_, ?_⟩
  · intro hT
    obtain ⟨T1, h1, hI⟩ := ddl_idxExact_batchInsert h0 (ddl_idxExact_emptyTable n nl) rows
    exact select_eq_scan T (ddl_idxExact_createBtree h1 hI c T hT) cond
  · intro hT
    obtain ⟨T1, h1, hI⟩ := ddl_idxExact_batchInsert h0 (ddl_idxExact_emptyTable n nl) rows
    exact select_eq_scan T (ddl_idxExact_createIndex h1 hI c T hT) cond

/-- table 0 with a b-tree index on column 0 and the rows `[1,1]`, `[2,2]` -/
def sBtree : State := run s0 [.createTable 2 [], .createBtree 0 0, .insert 0 [1, 1], .insert 0 [2, 2]]

/-- non-vacuity: the drop is accepted, the new table gets `[5,5]` and a b-tree index on column 0;
    `c0 >= 0` through the index is the one row -/
example :
    (dropTable sBtree 0).2 = .ok ∧
    ((createBtree (batchInsert (createTableAt (dropTable sBtree 0).1 0 2 []).1 0 [[5, 5]]).1 0 0).1.tables 0).map (select · (.ge 0 0)) =
      some [(0, [5, 5])] := by
  refine ⟨by decide, by decide⟩

/-- WITNESS, the code before 6992261a (`dropTableKeepsBtreeOld` / `createTableOver`): the tree of the dropped
    table — keys 1 and 2 for row ids 0 and 1 — is still filed under the table name.  The new table's row 0 =
    `[5,5]` is not indexed when it is inserted (the b-tree META key went with the old table), then
    `create_btree_index` adds its key 5 on top of the stale tree: `c0 >= 0` answered through the index returns
    row 0 TWICE (once for the stale key 1, once for key 5), the full scan once. -/
theorem drop_table_keeps_btree_map_witness :
    (dropTableKeepsBtreeOld sBtree 0).2 = (.ok, [(0, 1, 0), (0, 2, 1)]) ∧
    (let s1 := (createTableOver (dropTableKeepsBtreeOld sBtree 0).1 0 2 [] (dropTableKeepsBtreeOld sBtree 0).2.2).1
     let s2 := (createBtree (insert s1 0 [5, 5]).1 0 0).1
     (s2.tables 0).map (select · (.ge 0 0)) = some [(0, [5, 5]), (0, [5, 5])] ∧
     (s2.tables 0).map (scanAnswer · (.ge 0 0)) = some [(0, [5, 5])]) := by
  refine ⟨by decide, by decide, by decide⟩

end Neumann.RelTx.Props4
