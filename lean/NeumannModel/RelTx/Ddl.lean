import NeumannModel.RelTx.DdlModel
import NeumannModel.RelTx.LockOwner
/-
  C09 — lemmas about `drop_table` / `create_table <name>` next to open transactions (`DdlModel.lean`).

  * the guard: what `openTxOnTable` finds, the shapes of `dropTable` / `createTableAt`;
  * `ddl_Evo P s s'`: what one statement does to the table map (no table vanishes), the id counter
    (only grows) and the records of the transaction manager (a predicate `P` on records that survives
    appending an entry naming the written table survives the statement) — for EVERY state, no calmness
    hypothesis;
  * `ddl_DI`: every record's id has been handed out and every undo entry names an existing table —
    kept by every `OpD` statement;
  * `ddl_noName_*`: a transaction that does not write table `t` never gets an entry naming `t`, and its
    rollback does not touch table `t`;
  * the indexes of a table created under a name used before are exact.
-/
namespace Neumann.RelTx

/-! ## the guard -/

theorem ddl_openTx_isSome {s : State} {t A : Nat} {x : Tx} (hlt : A < s.nextTx) (hx : s.txs A = some x)
    (hu : ∃ u ∈ x.undo, u.table = t) : (openTxOnTable s t).isSome = true := by
  unfold openTxOnTable
  rw [List.find?_isSome]
  refine ⟨A, List.mem_range.2 hlt, ?_⟩
  simp only [hx]
  rw [List.any_eq_true]
  obtain ⟨u, hu, ht⟩ := hu
  exact ⟨u, hu, by simp [ht]⟩

theorem ddl_openTx_none {s : State} {t : Nat} (h : openTxOnTable s t = none) {A : Nat} {x : Tx}
    (hlt : A < s.nextTx) (hx : s.txs A = some x) : ∀ u ∈ x.undo, u.table ≠ t := by
  unfold openTxOnTable at h
  rw [List.find?_eq_none] at h
  have h1 := h A (List.mem_range.2 hlt)
  simp only [hx] at h1
  intro u hu ht
  apply h1
  rw [List.any_eq_true]
  exact ⟨u, hu, by simp [ht]⟩

/-- `drop_table` either leaves the state alone or — nobody has uncommitted changes in the table — removes it -/
theorem dropTable_cases (s : State) (t : Nat) :
    ((dropTable s t).1 = s ∧ (dropTable s t).2 ≠ .ok) ∨
    ((∃ T, s.tables t = some T) ∧ openTxOnTable s t = none ∧ dropTable s t = (removeTable s t, .ok)) := by
  unfold dropTable
  cases hT : s.tables t with
  | none => left; exact ⟨rfl, by simp⟩
  | some T =>
    cases ho : openTxOnTable s t with
    | some B => left; exact ⟨rfl, by simp⟩
    | none => right; exact ⟨⟨T, rfl⟩, rfl, rfl⟩

theorem dropTable_ok_form {s : State} {t : Nat} (h : (dropTable s t).2 = .ok) :
    (∃ T, s.tables t = some T) ∧ openTxOnTable s t = none ∧ dropTable s t = (removeTable s t, .ok) := by
  rcases dropTable_cases s t with h1 | h1
  · exact absurd h h1.2
  · exact h1

theorem dropTable_refused {s : State} {t : Nat} {T : Table} {B : Nat} (hT : s.tables t = some T)
    (ho : openTxOnTable s t = some B) : dropTable s t = (s, .err .lockConflict) := by
  unfold dropTable
  rw [hT, ho]

theorem dropTable_txs (s : State) (t : Nat) : (dropTable s t).1.txs = s.txs := by
  rcases dropTable_cases s t with h1 | h1
  · rw [h1.1]
  · rw [h1.2.2]; rfl

/-- `create_table <name>` either leaves the state alone or — the name is unused — adds the empty table -/
theorem createTableAt_cases (s : State) (t n : Nat) (nl : List Nat) :
    ((createTableAt s t n nl).1 = s ∧ (createTableAt s t n nl).2 ≠ .ok) ∨
    (s.tables t = none ∧
      createTableAt s t n nl = ({ setTable s t (emptyTable n nl) with ntables := max s.ntables (t + 1) }, .ok)) := by
  unfold createTableAt
  cases hT : s.tables t with
  | none => right; exact ⟨rfl, rfl⟩
  | some T => left; exact ⟨rfl, by simp⟩

theorem createTableAt_ok_form {s : State} {t n : Nat} {nl : List Nat} (h : (createTableAt s t n nl).2 = .ok) :
    s.tables t = none ∧
      createTableAt s t n nl = ({ setTable s t (emptyTable n nl) with ntables := max s.ntables (t + 1) }, .ok) := by
  rcases createTableAt_cases s t n nl with h1 | h1
  · exact absurd h h1.2
  · exact h1

theorem createTableAt_txs (s : State) (t n : Nat) (nl : List Nat) : (createTableAt s t n nl).1.txs = s.txs := by
  rcases createTableAt_cases s t n nl with h1 | h1
  · rw [h1.1]
  · rw [h1.2]; rfl

theorem createTableAt_nextTx (s : State) (t n : Nat) (nl : List Nat) : (createTableAt s t n nl).1.nextTx = s.nextTx := by
  rcases createTableAt_cases s t n nl with h1 | h1
  · rw [h1.1]
  · rw [h1.2]; rfl

theorem createTableAt_keeps (s : State) (t n : Nat) (nl : List Nat) (k : Nat) (h : (s.tables k).isSome = true) :
    ((createTableAt s t n nl).1.tables k).isSome = true := by
  rcases createTableAt_cases s t n nl with h1 | h1
  · rw [h1.1]; exact h
  · rw [h1.2]
    show (if k = t then some (emptyTable n nl) else s.tables k).isSome = true
    split
    · rfl
    · exact h

theorem runD_append (s : State) (p q : List OpD) : runD s (p ++ q) = runD (runD s p) q := by
  unfold runD; rw [List.foldl_append]

theorem runD_cons (s : State) (op : OpD) (ops : List OpD) : runD s (op :: ops) = runD (stepD s op).1 ops := rfl

/-! ## what one statement does to the table map, the id counter and the manager's records -/

/-- `P` holds for every record in the manager's map -/
def ddl_Rec (s : State) (P : Nat → Tx → Prop) : Prop := ∀ A x, s.txs A = some x → P A x

/-- `P` survives appending an entry naming table `t` to the log of transaction `tx` -/
def ddl_Stable (P : Nat → Tx → Prop) (tx t : Nat) : Prop :=
  ∀ x u, u.table = t → P tx x → P tx { x with undo := x.undo ++ [u] }

/-- the records of `s'` are records of `s` -/
def ddl_Sub (s s' : State) : Prop := ∀ A x, s'.txs A = some x → s.txs A = some x

theorem ddl_Sub.refl (s : State) : ddl_Sub s s := fun _ _ h => h

theorem ddl_Sub.trans {s s1 s2 : State} (h1 : ddl_Sub s s1) (h2 : ddl_Sub s1 s2) : ddl_Sub s s2 :=
  fun A x h => h1 A x (h2 A x h)

theorem ddl_Sub.of_eq {s s' : State} (h : s'.txs = s.txs) : ddl_Sub s s' := by
  intro A x hx; rw [h] at hx; exact hx

theorem ddl_Rec.sub {s s' : State} {P : Nat → Tx → Prop} (h : ddl_Rec s P) (hs : ddl_Sub s s') : ddl_Rec s' P :=
  fun A x hx => h A x (hs A x hx)

theorem ddl_Rec.mono {s : State} {P Q : Nat → Tx → Prop} (h : ddl_Rec s P) (hpq : ∀ A x, P A x → Q A x) : ddl_Rec s Q :=
  fun A x hx => hpq A x (h A x hx)

/-- no table vanishes, ids only grow, `P` stays true of every record -/
structure ddl_Evo (P : Nat → Tx → Prop) (s s' : State) : Prop where
  tab : ∀ t, (s.tables t).isSome = true → (s'.tables t).isSome = true
  next : s.nextTx ≤ s'.nextTx
  recs : ddl_Rec s P → ddl_Rec s' P

theorem ddl_Evo.refl (P : Nat → Tx → Prop) (s : State) : ddl_Evo P s s := ⟨fun _ h => h, Nat.le_refl _, fun h => h⟩

theorem ddl_Evo.trans {P : Nat → Tx → Prop} {s s1 s2 : State} (h1 : ddl_Evo P s s1) (h2 : ddl_Evo P s1 s2) :
    ddl_Evo P s s2 :=
  ⟨fun t h => h2.tab t (h1.tab t h), Nat.le_trans h1.next h2.next, fun h => h2.recs (h1.recs h)⟩

/-- same tables, same counter, no new record -/
theorem ddl_Evo.of_sub {P : Nat → Tx → Prop} {s s' : State} (ht : s'.tables = s.tables) (hn : s'.nextTx = s.nextTx)
    (hs : ddl_Sub s s') : ddl_Evo P s s' :=
  ⟨fun t h => by rw [ht]; exact h, Nat.le_of_eq hn.symm, fun h => h.sub hs⟩

theorem ddl_Evo.of_eq {P : Nat → Tx → Prop} {s s' : State} (ht : s'.tables = s.tables) (hn : s'.nextTx = s.nextTx)
    (hx : s'.txs = s.txs) : ddl_Evo P s s' := ddl_Evo.of_sub ht hn (ddl_Sub.of_eq hx)

/-- a statement that adds or changes no record keeps every predicate on records -/
theorem ddl_Evo.any {P : Nat → Tx → Prop} {s s' : State} (h : ddl_Evo (fun _ _ => True) s s') (hs : ddl_Sub s s') :
    ddl_Evo P s s' := ⟨h.tab, h.next, fun hr => hr.sub hs⟩

theorem ddl_evo_setTable (P : Nat → Tx → Prop) (s : State) (t : Nat) (T : Table) : ddl_Evo P s (setTable s t T) where
  tab := by
    intro k h
    rw [setTable_tables]
    split
    · rfl
    · exact h
  next := Nat.le_refl _
  recs := fun h => h

theorem ddl_sub_setTx_none (s : State) (a : Nat) : ddl_Sub s (setTx s a none) := by
  intro A x hx
  rw [setTx_txs] at hx
  split at hx
  · cases hx
  · exact hx

theorem ddl_evo_recordUndo {P : Nat → Tx → Prop} (s : State) (tx : Nat) (u : Undo) (hs : ddl_Stable P tx u.table) :
    ddl_Evo P s (recordUndo s tx u) where
  tab := by intro k h; rw [recordUndo_tables]; exact h
  next := by rw [recordUndo_nextTx]; exact Nat.le_refl _
  recs := by
    intro h
    unfold recordUndo
    split
    · rename_i x hx
      intro A y hy
      rw [setTx_txs] at hy
      split at hy
      · rename_i he
        cases hy
        rw [he]
        exact hs x u rfl (h tx x hx)
      · exact h A y hy
    · exact h

theorem ddl_evo_begin {P : Nat → Tx → Prop} (s : State)
    (hp : P s.nextTx { phase := .active, startedAt := s.now, undo := [] }) : ddl_Evo P s (begin s).1 where
  tab := fun _ h => h
  next := Nat.le_succ _
  recs := by
    intro h A x hx
    rw [begin_txs] at hx
    split at hx
    · rename_i he
      cases hx
      rw [he]; exact hp
    · exact h A x hx

theorem ddl_evo_commit (P : Nat → Tx → Prop) (s : State) (a : Nat) : ddl_Evo P s (commit s a).1 := by
  unfold commit
  split
  · exact ddl_Evo.refl P s
  · exact ddl_Evo.of_sub rfl rfl (ddl_sub_setTx_none (release s a) a)

theorem ddl_evo_applyUndo (P : Nat → Tx → Prop) (acc : State × Nat) (u : Undo) : ddl_Evo P acc.1 (applyUndo acc u).1 := by
  unfold applyUndo
  split
  · exact ddl_Evo.refl P _
  · exact ddl_evo_setTable P _ _ _

theorem ddl_evo_foldl_applyUndo (P : Nat → Tx → Prop) (M : List Undo) (acc : State × Nat) :
    ddl_Evo P acc.1 (M.foldl applyUndo acc).1 := by
  induction M generalizing acc with
  | nil => exact ddl_Evo.refl P _
  | cons u rest ih => exact (ddl_evo_applyUndo P acc u).trans (ih (applyUndo acc u))

theorem ddl_evo_rollback (P : Nat → Tx → Prop) (s : State) (a : Nat) : ddl_Evo P s (rollback s a).1 := by
  unfold rollback
  split
  · exact ddl_Evo.refl P s
  · exact (ddl_evo_foldl_applyUndo P _ (s, 0)).trans (ddl_Evo.of_sub rfl rfl (ddl_sub_setTx_none (release _ a) a))

theorem ddl_evo_finishAuto (P : Nat → Tx → Prop) (p : State × Res) (a : Nat) : ddl_Evo P p.1 (finishAuto p a).1 := by
  unfold finishAuto
  split
  · exact ddl_evo_rollback P _ a
  · exact ddl_evo_commit P _ a

theorem ddl_evo_updateRow {P : Nat → Tx → Prop} (tx t : Nat) (upd : List (Nat × Val)) (hs : ddl_Stable P tx t)
    (s : State) (i : Nat) : ddl_Evo P s (updateRow tx t upd s i) := by
  unfold updateRow
  split
  · exact ddl_Evo.refl P s
  · split
    · exact ddl_Evo.refl P s
    · exact (ddl_evo_recordUndo s tx _ hs).trans (ddl_evo_setTable P _ _ _)

theorem ddl_evo_deleteRow {P : Nat → Tx → Prop} (tx t : Nat) (hs : ddl_Stable P tx t)
    (s : State) (i : Nat) : ddl_Evo P s (deleteRow tx t s i) := by
  unfold deleteRow
  split
  · exact ddl_Evo.refl P s
  · split
    · exact ddl_Evo.refl P s
    · exact (ddl_evo_recordUndo s tx _ hs).trans (ddl_evo_setTable P _ _ _)

theorem ddl_evo_foldl {P : Nat → Tx → Prop} {f : State → Nat → State} (hf : ∀ s i, ddl_Evo P s (f s i))
    (rows : List Nat) (s : State) : ddl_Evo P s (rows.foldl f s) := by
  induction rows generalizing s with
  | nil => exact ddl_Evo.refl P s
  | cons i rest ih => exact (hf s i).trans (ih (f s i))

theorem ddl_evo_lockAll (P : Nat → Tx → Prop) (s : State) (a t : Nat) (rows : List Nat) :
    ddl_Evo P s (lockAll s a t rows) := ddl_Evo.of_eq rfl rfl rfl

theorem ddl_evo_txInsert {P : Nat → Tx → Prop} (s : State) (tx t : Nat) (vals : List Val)
    (hs : (s.tables t).isSome = true → ddl_Stable P tx t) : ddl_Evo P s (txInsert s tx t vals).1 := by
  unfold txInsert
  split
  · exact ddl_Evo.refl P s
  · split
    · exact ddl_Evo.refl P s
    · rename_i T hT
      have hs' : ddl_Stable P tx t := hs (by rw [hT]; rfl)
      split
      · exact ddl_Evo.refl P s
      · dsimp only
        split
        · exact (ddl_evo_setTable P s t _).trans (ddl_evo_recordUndo _ tx _ hs')
        · exact (ddl_evo_lockAll P s tx t _).trans ((ddl_evo_setTable P _ t _).trans (ddl_evo_recordUndo _ tx _ hs'))

theorem ddl_evo_txUpdate {P : Nat → Tx → Prop} (s : State) (tx t : Nat) (c : Cond) (upd : List (Nat × Val))
    (hs : (s.tables t).isSome = true → ddl_Stable P tx t) : ddl_Evo P s (txUpdate s tx t c upd).1 := by
  unfold txUpdate
  split
  · exact ddl_Evo.refl P s
  · split
    · exact ddl_Evo.refl P s
    · rename_i T hT
      have hs' : ddl_Stable P tx t := hs (by rw [hT]; rfl)
      dsimp only
      repeat' split
      all_goals first
        | exact ddl_Evo.refl P s
        | exact ddl_evo_foldl (ddl_evo_updateRow tx t upd hs') _ s
        | exact (ddl_evo_lockAll P s tx t _).trans (ddl_evo_foldl (ddl_evo_updateRow tx t upd hs') _ _)

theorem ddl_evo_txDelete {P : Nat → Tx → Prop} (s : State) (tx t : Nat) (c : Cond)
    (hs : (s.tables t).isSome = true → ddl_Stable P tx t) : ddl_Evo P s (txDelete s tx t c).1 := by
  unfold txDelete
  split
  · exact ddl_Evo.refl P s
  · split
    · exact ddl_Evo.refl P s
    · rename_i T hT
      have hs' : ddl_Stable P tx t := hs (by rw [hT]; rfl)
      dsimp only
      repeat' split
      all_goals first
        | exact ddl_Evo.refl P s
        | exact ddl_evo_foldl (ddl_evo_deleteRow tx t hs') _ s
        | exact (ddl_evo_lockAll P s tx t _).trans (ddl_evo_foldl (ddl_evo_deleteRow tx t hs') _ _)

theorem ddl_evo_cleanupTxs (P : Nat → Tx → Prop) (s : State) : ddl_Evo P s (cleanupTxs s).1 := by
  have f1 := foldl_release_fields ((List.range s.nextTx).filter (txExpired s)) s
  have f2 := foldl_release_rest ((List.range s.nextTx).filter (txExpired s)) s
  refine ddl_Evo.of_sub f2.1 f1.2 ?_
  intro A x hx
  simp only [cleanupTxs] at hx
  split at hx
  · cases hx
  · rw [f1.1] at hx; exact hx


/-! ## non-transactional statements add no record and change none

  `begin; tx_op; commit | rollback` under the internal id `k = nextTx`: `tx_op` leaves every other record
  alone and `k` active, so `finishAuto` removes `k` again. -/

theorem ddl_gate_of_txs {s s' : State} (h : s'.txs = s.txs) (k : Nat) : gate s' k = gate s k := by
  unfold gate; rw [h]

theorem ddl_gate_recordUndo (s : State) (a : Nat) (u : Undo) (k : Nat) : gate (recordUndo s a u) k = gate s k := by
  unfold recordUndo
  split
  · rename_i x hx
    by_cases he : k = a
    · subst he; simp [gate, setTx_txs, hx]
    · simp [gate, setTx_txs, he]
  · rfl

theorem ddl_gate_updateRow (a t : Nat) (upd : List (Nat × Val)) (k : Nat) (s : State) (i : Nat) :
    gate (updateRow a t upd s i) k = gate s k := by
  unfold updateRow
  split
  · rfl
  · split
    · rfl
    · exact (ddl_gate_of_txs rfl k).trans (ddl_gate_recordUndo s a _ k)

theorem ddl_gate_deleteRow (a t : Nat) (k : Nat) (s : State) (i : Nat) :
    gate (deleteRow a t s i) k = gate s k := by
  unfold deleteRow
  split
  · rfl
  · split
    · rfl
    · exact (ddl_gate_of_txs rfl k).trans (ddl_gate_recordUndo s a _ k)

theorem ddl_gate_foldl {f : State → Nat → State} {k : Nat} (hf : ∀ s i, gate (f s i) k = gate s k)
    (rows : List Nat) (s : State) : gate (rows.foldl f s) k = gate s k := by
  induction rows generalizing s with
  | nil => rfl
  | cons i rest ih => exact (ih (f s i)).trans (hf s i)

theorem ddl_gate_txInsert (s : State) (a t : Nat) (vals : List Val) (k : Nat) :
    gate (txInsert s a t vals).1 k = gate s k := by
  unfold txInsert
  repeat' split
  all_goals first
    | rfl
    | exact (ddl_gate_recordUndo _ a _ k).trans (ddl_gate_of_txs (by dsimp only [setTable_txs]; split <;> rfl) k)

theorem ddl_gate_txUpdate (s : State) (a t : Nat) (c : Cond) (upd : List (Nat × Val)) (k : Nat) :
    gate (txUpdate s a t c upd).1 k = gate s k := by
  unfold txUpdate
  dsimp only
  repeat' split
  all_goals first
    | rfl
    | exact ddl_gate_foldl (ddl_gate_updateRow a t upd k) _ s
    | exact (ddl_gate_foldl (ddl_gate_updateRow a t upd k) _ _).trans (ddl_gate_of_txs rfl k)

theorem ddl_gate_txDelete (s : State) (a t : Nat) (c : Cond) (k : Nat) :
    gate (txDelete s a t c).1 k = gate s k := by
  unfold txDelete
  dsimp only
  repeat' split
  all_goals first
    | rfl
    | exact ddl_gate_foldl (ddl_gate_deleteRow a t k) _ s
    | exact (ddl_gate_foldl (ddl_gate_deleteRow a t k) _ _).trans (ddl_gate_of_txs rfl k)

theorem ddl_gate_begin (s : State) : gate (begin s).1 (begin s).2 = none := by
  unfold gate
  rw [begin_txs]
  simp [begin]

theorem ddl_finishAuto_txs_self {p : State × Res} {k : Nat} (hg : gate p.1 k = none) :
    (finishAuto p k).1.txs k = none := by
  unfold finishAuto
  split
  · unfold rollback; rw [hg]; simp
  · unfold commit; rw [hg]; simp

/-- the shape shared by `insert` / `update` / `delete_rows`: if the transactional statement `f` leaves the
    other records and the phase of its own alone, the whole leaves every record of the manager as it was -/
theorem ddl_sub_auto (s : State) (f : State → Nat → State × Res)
    (hg : ∀ s1 k, gate (f s1 k).1 k = gate s1 k)
    (he : ∀ (P : Nat → Tx → Prop) s1 k, (∀ t, ddl_Stable P k t) → ddl_Evo P s1 (f s1 k).1) :
    ddl_Sub s (finishAuto (f (begin s).1 (begin s).2) (begin s).2).1 := by
  let P : Nat → Tx → Prop := fun B x => B ≠ s.nextTx → s.txs B = some x
  have h0 : ddl_Rec (begin s).1 P := by
    intro B x hx hne
    rw [begin_txs, if_neg hne] at hx
    exact hx
  have h1 : ddl_Rec (f (begin s).1 (begin s).2).1 P :=
    (he P (begin s).1 (begin s).2 (fun t x u _ _ hne => absurd rfl hne)).recs h0
  have h2 : ddl_Rec (finishAuto (f (begin s).1 (begin s).2) (begin s).2).1 P :=
    (ddl_evo_finishAuto P _ _).recs h1
  have hk : (finishAuto (f (begin s).1 (begin s).2) (begin s).2).1.txs s.nextTx = none :=
    ddl_finishAuto_txs_self ((hg _ _).trans (ddl_gate_begin s))
  intro A x hx
  refine h2 A x hx ?_
  intro hA
  rw [hA, hk] at hx
  cases hx

theorem ddl_evo_auto (P : Nat → Tx → Prop) (s : State) (f : State → Nat → State × Res)
    (hg : ∀ s1 k, gate (f s1 k).1 k = gate s1 k)
    (he : ∀ (P : Nat → Tx → Prop) s1 k, (∀ t, ddl_Stable P k t) → ddl_Evo P s1 (f s1 k).1) :
    ddl_Evo P s (finishAuto (f (begin s).1 (begin s).2) (begin s).2).1 := by
  refine ddl_Evo.any ?_ (ddl_sub_auto s f hg he)
  exact (ddl_evo_begin s trivial).trans ((he _ _ _ (fun _ _ _ _ _ => trivial)).trans (ddl_evo_finishAuto _ _ _))

theorem ddl_evo_insert (P : Nat → Tx → Prop) (s : State) (t : Nat) (vals : List Val) : ddl_Evo P s (insert s t vals).1 := by
  unfold insert
  repeat' split
  all_goals first
    | exact ddl_Evo.refl P s
    | exact ddl_evo_auto P s (fun s1 k => txInsert s1 k t vals) (fun s1 k => ddl_gate_txInsert s1 k t vals k)
        (fun P s1 k hs => ddl_evo_txInsert s1 k t vals (fun _ => hs t))

theorem ddl_evo_update (P : Nat → Tx → Prop) (s : State) (t : Nat) (c : Cond) (upd : List (Nat × Val)) :
    ddl_Evo P s (update s t c upd).1 := by
  unfold update
  repeat' split
  all_goals first
    | exact ddl_Evo.refl P s
    | exact ddl_evo_auto P s (fun s1 k => txUpdate s1 k t c upd) (fun s1 k => ddl_gate_txUpdate s1 k t c upd k)
        (fun P s1 k hs => ddl_evo_txUpdate s1 k t c upd (fun _ => hs t))

theorem ddl_evo_delete (P : Nat → Tx → Prop) (s : State) (t : Nat) (c : Cond) : ddl_Evo P s (delete s t c).1 := by
  unfold delete
  repeat' split
  all_goals first
    | exact ddl_Evo.refl P s
    | exact ddl_evo_auto P s (fun s1 k => txDelete s1 k t c) (fun s1 k => ddl_gate_txDelete s1 k t c k)
        (fun P s1 k hs => ddl_evo_txDelete s1 k t c (fun _ => hs t))

/-! ## one statement -/

/-- what `P` must survive for the statement to keep it: the new record of `begin`, an entry naming the
    written (existing) table in the log of the writing transaction -/
def ddl_StepHyp (P : Nat → Tx → Prop) (s : State) : Op → Prop
  | .begin => P s.nextTx { phase := .active, startedAt := s.now, undo := [] }
  | .txInsert B t _ => (s.tables t).isSome = true → ddl_Stable P B t
  | .txUpdate B t _ _ => (s.tables t).isSome = true → ddl_Stable P B t
  | .txDelete B t _ => (s.tables t).isSome = true → ddl_Stable P B t
  | _ => True

theorem ddl_evo_step {P : Nat → Tx → Prop} (s : State) (op : Op) (hp : ddl_StepHyp P s op) :
    ddl_Evo P s (step s op).1 := by
  cases op with
  | begin => exact ddl_evo_begin s hp
  | commit a => exact ddl_evo_commit P s a
  | rollback a => exact ddl_evo_rollback P s a
  | txInsert a t v => exact ddl_evo_txInsert s a t v hp
  | txUpdate a t c u => exact ddl_evo_txUpdate s a t c u hp
  | txDelete a t c => exact ddl_evo_txDelete s a t c hp
  | insert t v => exact ddl_evo_insert P s t v
  | update t c u => exact ddl_evo_update P s t c u
  | delete t c => exact ddl_evo_delete P s t c
  | batchInsert t rows =>
    rcases batchInsert_form s t rows with hf | ⟨T, _, _, hf⟩
    · show ddl_Evo P s (batchInsert s t rows).1; rw [hf]; exact ddl_Evo.refl P s
    · show ddl_Evo P s (batchInsert s t rows).1; rw [hf]; exact ddl_evo_setTable P s t _
  | createTable n nl =>
    exact (ddl_evo_setTable P s s.ntables _).trans (ddl_Evo.of_eq rfl rfl rfl)
  | createIndex t c =>
    simp only [step]; unfold createIndex
    repeat' split
    all_goals first
      | exact ddl_Evo.refl P s
      | exact ddl_evo_setTable P s t _
  | createBtree t c =>
    simp only [step]; unfold createBtree
    repeat' split
    all_goals first
      | exact ddl_Evo.refl P s
      | exact ddl_evo_setTable P s t _
  | dropIndex t c =>
    simp only [step]; unfold dropIndex
    repeat' split
    all_goals first
      | exact ddl_Evo.refl P s
      | exact ddl_evo_setTable P s t _
  | dropBtree t c =>
    simp only [step]; unfold dropBtree
    repeat' split
    all_goals first
      | exact ddl_Evo.refl P s
      | exact ddl_evo_setTable P s t _
  | tick d => exact ddl_Evo.of_eq rfl rfl rfl
  | cleanupLocks => exact ddl_Evo.of_eq rfl rfl rfl
  | cleanupTxs => exact ddl_evo_cleanupTxs P s

/-- every statement: no table vanishes, ids only grow -/
theorem ddl_evo_step_true (s : State) (op : Op) : ddl_Evo (fun _ _ => True) s (step s op).1 := by
  apply ddl_evo_step
  cases op <;> first | trivial | exact fun _ _ _ _ _ => trivial


/-! ## every script: ids handed out, undo entries name existing tables -/

/-- every record's id has been handed out, every undo entry names a table that exists -/
def ddl_DI (s : State) : Prop :=
  ddl_Rec s fun A x => A < s.nextTx ∧ ∀ u ∈ x.undo, (s.tables u.table).isSome = true

theorem ddl_di_init (a b : Nat) : ddl_DI (init a b) := by
  intro A x hx
  simp [init] at hx

theorem ddl_di_step {s : State} (h : ddl_DI s) (op : Op) : ddl_DI (step s op).1 := by
  have h0 := ddl_evo_step_true s op
  let P : Nat → Tx → Prop := fun A x => A < (step s op).1.nextTx ∧ ∀ u ∈ x.undo, (s.tables u.table).isSome = true
  have hst : ∀ B t, (s.tables t).isSome = true → ddl_Stable P B t := by
    intro B t ht x u hu hp
    refine ⟨hp.1, ?_⟩
    intro u' hu'
    rcases List.mem_append.1 hu' with h1 | h1
    · exact hp.2 u' h1
    · rw [List.mem_singleton] at h1
      rw [h1, hu]; exact ht
  have hp : ddl_StepHyp P s op := by
    cases op with
    | begin => exact ⟨Nat.lt_succ_self _, fun u hu => by cases hu⟩
    | txInsert B t v => exact hst B t
    | txUpdate B t c u => exact hst B t
    | txDelete B t c => exact hst B t
    | _ => trivial
  have h1 : ddl_Rec (step s op).1 P :=
    (ddl_evo_step s op hp).recs (h.mono fun A x hx => ⟨Nat.lt_of_lt_of_le hx.1 h0.next, hx.2⟩)
  exact h1.mono fun A x hx => ⟨hx.1, fun u hu => h0.tab _ (hx.2 u hu)⟩

theorem ddl_di_stepD {s : State} (h : ddl_DI s) (op : OpD) : ddl_DI (stepD s op).1 := by
  cases op with
  | base op => exact ddl_di_step h op
  | dropTable t =>
    show ddl_DI (dropTable s t).1
    rcases dropTable_cases s t with h1 | ⟨_, ho, hf⟩
    · rw [h1.1]; exact h
    · rw [hf]
      intro A x hx
      have hx' : s.txs A = some x := hx
      refine ⟨(h A x hx').1, ?_⟩
      intro u hu
      have hne : u.table ≠ t := ddl_openTx_none ho (h A x hx').1 hx' u hu
      show (if u.table = t then none else s.tables u.table).isSome = true
      rw [if_neg hne]
      exact (h A x hx').2 u hu
  | createTableAt t n nl =>
    show ddl_DI (createTableAt s t n nl).1
    intro A x hx
    rw [createTableAt_txs] at hx
    rw [createTableAt_nextTx]
    exact ⟨(h A x hx).1, fun u hu => createTableAt_keeps s t n nl _ ((h A x hx).2 u hu)⟩

theorem ddl_di_runD {s : State} (h : ddl_DI s) (ops : List OpD) : ddl_DI (runD s ops) := by
  induction ops generalizing s with
  | nil => exact h
  | cons op rest ih => exact ih (ddl_di_stepD h op)

/-! ## a transaction that does not write table `t` gets no entry naming `t`; its rollback leaves `t` alone -/

/-- no entry of `A`'s log names table `t` -/
def ddl_NoName (s : State) (A t : Nat) : Prop := ∀ x, s.txs A = some x → ∀ u ∈ x.undo, u.table ≠ t

theorem ddl_noName_iff {s : State} {A t : Nat} :
    ddl_NoName s A t ↔ ddl_Rec s (fun B x => B = A → ∀ u ∈ x.undo, u.table ≠ t) := by
  constructor
  · intro h B x hx hB; subst hB; exact h x hx
  · intro h x hx; exact h A x hx rfl

theorem ddl_noName_stepD {s : State} {A t : Nat} (h : ddl_NoName s A t) (op : OpD) (hw : op.writesAs A t = false) :
    ddl_NoName (stepD s op).1 A t := by
  cases op with
  | dropTable t' =>
    intro x hx
    have hx' : (dropTable s t').1.txs A = some x := hx
    rw [dropTable_txs] at hx'
    exact h x hx'
  | createTableAt t' n nl =>
    intro x hx
    have hx' : (createTableAt s t' n nl).1.txs A = some x := hx
    rw [createTableAt_txs] at hx'
    exact h x hx'
  | base op =>
    rw [ddl_noName_iff] at h ⊢
    have hst : ∀ B t', (B == A && t' == t) = false → ddl_Stable (fun B x => B = A → ∀ u ∈ x.undo, u.table ≠ t) B t' := by
      intro B t' hb x u hu hp hB u' hu'
      rcases List.mem_append.1 hu' with h1 | h1
      · exact hp hB u' h1
      · rw [List.mem_singleton] at h1
        rw [h1, hu]
        intro ht
        simp [hB, ht] at hb
    refine (ddl_evo_step s op ?_).recs h
    cases op with
    | begin => exact fun _ u hu => by cases hu
    | txInsert B t' v => exact fun _ => hst B t' hw
    | txUpdate B t' c u => exact fun _ => hst B t' hw
    | txDelete B t' c => exact fun _ => hst B t' hw
    | _ => trivial

theorem ddl_noName_runD {s : State} {A t : Nat} (h : ddl_NoName s A t) (ops : List OpD)
    (hw : ∀ op ∈ ops, op.writesAs A t = false) : ddl_NoName (runD s ops) A t := by
  induction ops generalizing s with
  | nil => exact h
  | cons op rest ih =>
    exact ih (ddl_noName_stepD h op (hw op List.mem_cons_self)) (fun o ho => hw o (List.mem_cons_of_mem _ ho))

theorem ddl_foldl_applyUndo_tables_other (M : List Undo) (acc : State × Nat) (t : Nat) (h : ∀ u ∈ M, u.table ≠ t) :
    (M.foldl applyUndo acc).1.tables t = acc.1.tables t := by
  induction M generalizing acc with
  | nil => rfl
  | cons u rest ih =>
    rw [List.foldl_cons, ih (applyUndo acc u) (fun v hv => h v (List.mem_cons_of_mem _ hv))]
    have hne : t ≠ u.table := fun e => h u List.mem_cons_self e.symm
    unfold applyUndo
    split
    · rfl
    · rw [setTable_tables, if_neg hne]

/-- the rollback of a transaction whose log has no entry naming `t` leaves table `t` exactly as it is -/
theorem ddl_rollback_tables_of_noName {s : State} {A t : Nat} (h : ddl_NoName s A t) :
    (rollback s A).1.tables t = s.tables t := by
  unfold rollback
  split
  · rfl
  · simp only [setTx_tables, release_tables]
    apply ddl_foldl_applyUndo_tables_other
    intro u hu
    cases hx : s.txs A with
    | none => rw [hx] at hu; simp at hu
    | some x =>
      rw [hx] at hu
      exact h x hx u (List.mem_reverse.1 hu)

/-- an accepted `create_table t`: at that moment no record has an entry naming `t` -/
theorem ddl_noName_of_created {s : State} (h : ddl_DI s) {t n : Nat} {nl : List Nat}
    (hc : (createTableAt s t n nl).2 = .ok) (B : Nat) : ddl_NoName (createTableAt s t n nl).1 B t := by
  intro x hx u hu ht
  rw [createTableAt_txs] at hx
  have h1 := (h B x hx).2 u hu
  rw [ht, (createTableAt_ok_form hc).1] at h1
  cases h1

/-! ## a table created under a name used before: its indexes are exact -/

theorem ddl_idxExact_emptyTable (n : Nat) (nl : List Nat) : IdxExact (emptyTable n nl) := idxExact_empty n nl

theorem ddl_recreate_tables {s : State} {t : Nat} (hd : (dropTable s t).2 = .ok) (n : Nat) (nl : List Nat) :
    (createTableAt (dropTable s t).1 t n nl).1.tables t = some (emptyTable n nl) := by
  rw [(dropTable_ok_form hd).2.2]
  have hn : (removeTable s t).tables t = none := by simp [removeTable]
  unfold createTableAt
  rw [hn]
  simp [setTable]

theorem ddl_idxExact_batchInsert {s : State} {t : Nat} {T0 : Table} (h0 : s.tables t = some T0) (hI : IdxExact T0)
    (rows : List (List Val)) : ∃ T1, (batchInsert s t rows).1.tables t = some T1 ∧ IdxExact T1 := by
  rcases batchInsert_form s t rows with hf | ⟨T, hT, _, hf⟩
  · rw [hf]; exact ⟨T0, h0, hI⟩
  · rw [hf]
    rw [h0] at hT; cases hT
    exact ⟨_, by simp, idxExact_foldl_insertRow rows T0 hI⟩

theorem ddl_idxExact_createBtree {s : State} {t : Nat} {T1 : Table} (h1 : s.tables t = some T1) (hI : IdxExact T1)
    (c : Nat) (T : Table) (h : (createBtree s t c).1.tables t = some T) : IdxExact T := by
  unfold createBtree at h
  rw [h1] at h
  dsimp only at h
  split at h
  · rw [h1] at h; cases h; exact hI
  · split at h
    · rw [h1] at h; cases h; exact hI
    · rename_i hc
      simp only [setTable_tables, if_true, Option.some.injEq] at h
      subst h
      exact idxExact_createBtree T1 c hI hc

theorem ddl_idxExact_createIndex {s : State} {t : Nat} {T1 : Table} (h1 : s.tables t = some T1) (hI : IdxExact T1)
    (c : Nat) (T : Table) (h : (createIndex s t c).1.tables t = some T) : IdxExact T := by
  unfold createIndex at h
  rw [h1] at h
  dsimp only at h
  split at h
  · rw [h1] at h; cases h; exact hI
  · split at h
    · rw [h1] at h; cases h; exact hI
    · rename_i hc
      simp only [setTable_tables, if_true, Option.some.injEq] at h
      subst h
      exact idxExact_createIndex T1 c hI hc


end Neumann.RelTx
