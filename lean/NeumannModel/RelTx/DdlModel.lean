import NeumannModel.RelTx.Model
/-
  C09 — `drop_table` and `create_table` under a name that was used before, next to open transactions
  (/repo/relational_engine/src/lib.rs: drop_table, create_table;
   /repo/relational_engine/src/transaction.rs: open_transaction_on_table, Transaction::record_undo).

  A table is known to the engine by its NAME — undo entries, row locks, hash index entries and the
  in-memory b-tree maps all carry the name, never an incarnation.  In the model the name is the table
  number (`State.tables : Nat → Option Table`), `Model.createTable` is `create_table` under the next
  unused name.  This file adds, as the code is NOW:

    * `dropTable` — `TableNotFound` for an unknown name; refused with `LockConflict` while some
      transaction in the manager's map has an undo entry naming the table (6f865e8a:
      `open_transaction_on_table` looks for a transaction whose `affected_tables` contains the name,
      and `record_undo` puts the table name of every entry it pushes into that set, so the set IS the
      set of names in the undo log); otherwise the table goes with everything filed under its name:
      slab rows, hash index entries, b-tree meta keys AND the in-memory b-tree maps (6992261a).
      The row-lock table is not told (a lock left on a row of the dropped table stays until its
      holder ends or it expires);
    * `createTableAt` — `create_table(name)`: `TableAlreadyExists` when the name is in use, otherwise
      an empty table without indexes whose row ids start again at the beginning;
    * `OpD` / `stepD` / `runD` — scripts of ordinary statements (`Model.Op`) with these two in between.

  The code BEFORE the fixes is kept for the regression witnesses only:
    * `dropTableOld` / `stepDOld` / `runDOld` — before 6f865e8a: `drop_table` did not look at open
      transactions;
    * `dropTableKeepsBtreeOld` / `createTableOver` — before 6992261a: the in-memory b-tree maps stayed
      behind under the table name, and a table created under that name later started with them.

  Import-free (only the model), total, computable.
-/
namespace Neumann.RelTx

/-- `TransactionManager::open_transaction_on_table`: a transaction in the manager's map whose
    `affected_tables` contains the table — i.e. whose undo log has an entry naming it.  Which of
    several the map iteration finds first is not observable (only the error class is compared). -/
def openTxOnTable (s : State) (t : Nat) : Option Nat :=
  (List.range s.nextTx).find? fun A =>
    match s.txs A with
    | some x => x.undo.any (fun u => u.table == t)
    | none => false

/-- the table and everything filed under its name is gone -/
def removeTable (s : State) (t : Nat) : State :=
  { s with tables := fun k => if k = t then none else s.tables k }

/-- `drop_table(name)` as the code is now (6f865e8a, 6992261a) -/
def dropTable (s : State) (t : Nat) : State × Res :=
  match s.tables t with
  | none => (s, .err .tableNotFound)
  | some _ =>
    match openTxOnTable s t with
    | some _ => (s, .err .lockConflict)
    | none => (removeTable s t, .ok)

/-- what `create_table` creates -/
def emptyTable (ncols : Nat) (nullable : List Nat) : Table :=
  { ncols := ncols, nullable := nullable, rows := [], hashOn := [], btreeOn := [], hashE := [], btreeE := [] }

/-- `create_table(name, schema)` under a given name (`Model.createTable` is this under the next unused
    name; `ntables` only bounds the names in use) -/
def createTableAt (s : State) (t ncols : Nat) (nullable : List Nat) : State × Res :=
  match s.tables t with
  | some _ => (s, .err .tableExists)
  | none => ({ setTable s t (emptyTable ncols nullable) with ntables := max s.ntables (t + 1) }, .ok)

/-- scripts: ordinary statements with `drop_table` / `create_table <name>` in between -/
inductive OpD where
  | base (op : Op)
  | dropTable (t : Nat)
  | createTableAt (t ncols : Nat) (nullable : List Nat)
deriving DecidableEq, Repr

def stepD (s : State) (op : OpD) : State × Res :=
  match op with
  | .base op => step s op
  | .dropTable t => dropTable s t
  | .createTableAt t n nl => createTableAt s t n nl

def runD (s : State) (ops : List OpD) : State := ops.foldl (fun s op => (stepD s op).1) s

def runResD (s : State) : List OpD → List Res
  | [] => []
  | op :: ops => (stepD s op).2 :: runResD (stepD s op).1 ops

/-- the statement is a transactional write of transaction `A` to table `t` -/
def OpD.writesAs (A t : Nat) : OpD → Bool
  | .base (.txInsert B t' _) => B == A && t' == t
  | .base (.txUpdate B t' _ _) => B == A && t' == t
  | .base (.txDelete B t' _) => B == A && t' == t
  | _ => false

/-! ## the code before 6f865e8a (regression witness only): `drop_table` ignored open transactions -/

def dropTableOld (s : State) (t : Nat) : State × Res :=
  match s.tables t with
  | none => (s, .err .tableNotFound)
  | some _ => (removeTable s t, .ok)

def stepDOld (s : State) (op : OpD) : State × Res :=
  match op with
  | .dropTable t => dropTableOld s t
  | op => stepD s op

def runDOld (s : State) (ops : List OpD) : State := ops.foldl (fun s op => (stepDOld s op).1) s

def runResDOld (s : State) : List OpD → List Res
  | [] => []
  | op :: ops => (stepDOld s op).2 :: runResDOld (stepDOld s op).1 ops

/-! ## the code before 6992261a (regression witness only): the in-memory b-tree maps outlived the table

  `btree_indexes: (table name, column) ↦ tree` was not touched by `drop_table`.  The b-tree META keys went
  with the table, so a table created under the name later has no b-tree index (`btreeOn = []`, inserts
  add nothing) — until `create_btree_index` builds one ON TOP of the tree it finds under the name. -/

/-- `drop_table` before 6992261a; third component: the b-tree entries left behind under the name -/
def dropTableKeepsBtreeOld (s : State) (t : Nat) : State × Res × List Entry :=
  match s.tables t with
  | none => (s, .err .tableNotFound, [])
  | some T =>
    match openTxOnTable s t with
    | some _ => (s, .err .lockConflict, [])
    | none => (removeTable s t, .ok, T.btreeE)

/-- `create_table` under a name whose in-memory b-tree maps still hold `leftover` -/
def createTableOver (s : State) (t ncols : Nat) (nullable : List Nat) (leftover : List Entry) : State × Res :=
  match s.tables t with
  | some _ => (s, .err .tableExists)
  | none => ({ setTable s t { emptyTable ncols nullable with btreeE := leftover } with ntables := max s.ntables (t + 1) }, .ok)

end Neumann.RelTx
