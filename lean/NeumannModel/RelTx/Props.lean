import NeumannModel.RelTx.Lemmas
/-
  C09 — relational transactions are all-or-nothing and writers exclude each other.
  ONLY property theorems and their non-vacuity examples.  Statements are at statement
  granularity (one `Op` = one atomic step) and quantify over every state / every
  sequence of statements of any number of transactions.
-/
namespace Neumann.RelTx.Props
open Neumann.RelTx

/-! ### scripts used by the witnesses and the non-vacuity examples
    (`insert` is `begin; tx_insert; commit`, so it consumes transaction id 0) -/

def s0 : State := init 30000 60000
/-- table 0 with a hash and a b-tree index on column 0, one committed row `[1,1]` (slab id 0) -/
def setupIdx : List Op := [.createTable 2, .createIndex 0 0, .createBtree 0 0, .insert 0 [1, 1]]
def setupPlain : List Op := [.createTable 2, .insert 0 [1, 1]]

/-! ## finished transactions cannot be used again -/

/-- After `commit` or `rollback` of an open transaction, and after ANY further sequence of
    statements (including later `begin`s), every call that names the transaction answers
    `TransactionNotFound` and leaves the state untouched. -/
theorem finished_tx_unusable (s : State) (tx : Nat) (hlt : tx < s.nextTx) (hopen : gate s tx = none)
    (s' : State) (hfin : s' = (commit s tx).1 ∨ s' = (rollback s tx).1) (ops : List Op) :
    let sf := run s' ops
    commit sf tx = (sf, .err .txNotFound) ∧ rollback sf tx = (sf, .err .txNotFound) ∧
    (∀ t vals, txInsert sf tx t vals = (sf, .err .txNotFound)) ∧
    (∀ t c upd, txUpdate sf tx t c upd = (sf, .err .txNotFound)) ∧
    (∀ t c, txDelete sf tx t c = (sf, .err .txNotFound)) := by
  have hg : Gone s' tx := by
    rcases hfin with h | h
    · subst h
      unfold commit; rw [hopen]
      exact ⟨by simp, hlt⟩
    · subst h
      unfold rollback; rw [hopen]
      simp only
      refine ⟨by simp, ?_⟩
      simp only [setTx_nextTx, release_nextTx]
      rw [(foldl_applyUndo_fields _ (s, 0)).2.2.2.2.1]; exact hlt
  intro sf
  have hgate : gate sf tx = some .txNotFound := gate_of_gone (gone_run hg ops)
  refine ⟨?_, ?_, ?_, ?_, ?_⟩
  · unfold commit; rw [hgate]
  · unfold rollback; rw [hgate]
  · intro t vals; unfold txInsert; rw [hgate]
  · intro t c upd; unfold txUpdate; rw [hgate]
  · intro t c; unfold txDelete; rw [hgate]

/-- non-vacuity: an open transaction exists, and after its commit its id is refused -/
example : let s := run s0 (setupIdx ++ [.begin])
    1 < s.nextTx ∧ gate s 1 = none ∧ (step (step s (.commit 1)).1 (.txInsert 1 0 [2, 2])).2 = .err .txNotFound := by decide

/-- a transaction id that was never handed out is refused as well -/
theorem unknown_tx_refused (s : State) (tx : Nat) (h : s.txs tx = none) :
    commit s tx = (s, .err .txNotFound) ∧ rollback s tx = (s, .err .txNotFound) ∧
    (∀ t vals, txInsert s tx t vals = (s, .err .txNotFound)) := by
  have hg : gate s tx = some .txNotFound := by unfold gate; rw [h]
  refine ⟨?_, ?_, ?_⟩
  · unfold commit; rw [hg]
  · unfold rollback; rw [hg]
  · intro t vals; unfold txInsert; rw [hg]

/-! ## commit -/

/-- Committing an open transaction succeeds, changes no table, no row and no index entry
    (the statements' effects are already in place and simply stay), drops the transaction
    together with its undo log — so by `finished_tx_unusable` no later `rollback` of it can
    take anything back. -/
theorem commit_permanent (s : State) (tx : Nat) (hopen : gate s tx = none) :
    (commit s tx).2 = .ok ∧ (commit s tx).1.tables = s.tables ∧ (commit s tx).1.txs tx = none ∧
    rollback (commit s tx).1 tx = ((commit s tx).1, .err .txNotFound) := by
  have h1 : (commit s tx).1.txs tx = none := by unfold commit; rw [hopen]; simp
  refine ⟨by unfold commit; rw [hopen], by unfold commit; rw [hopen]; rfl, h1, ?_⟩
  unfold rollback gate; rw [h1]

/-- The stronger reading — "once committed, no other transaction's rollback can undo the
    committed values" — is FALSE of the code: A updates row 1 (lock taken), A's lock times out
    while A stays open, B updates the same row and COMMITS, then A rolls back: the row is back
    at its pre-A value and B's committed update is gone. -/
theorem commit_permanent_vs_later_rollback_witness :
    let ops : List Op := setupIdx ++ [.begin, .begin,
      .txUpdate 1 0 (.idEq 0) [(0, 4)], .tick 30001, .txUpdate 2 0 (.idEq 0) [(0, 5)], .commit 2]
    let sB := run s0 ops
    (runRes s0 ops).getLast? = some .ok ∧
    (sB.tables 0).map (·.rows) = some [⟨true, [5, 1]⟩] ∧
    (step sB (.rollback 1)).2 = .ok ∧
    ((step sB (.rollback 1)).1.tables 0).map (·.rows) = some [⟨true, [1, 1]⟩] := by decide

/-! ## writers exclude each other -/

/-- While transaction A holds an unexpired lock on a row, an update or delete by any other
    transaction B whose condition matches that row changes NOTHING and returns an error;
    when B is open (and the update names existing columns) the error is `LockConflict`. -/
theorem row_lock_exclusive (s : State) (A B t i : Nat) (T : Table) (cond : Cond)
    (hAB : A ≠ B) (hh : holder s t i = some A) (hT : s.tables t = some T) (hi : i ∈ matching T cond) :
    (∀ upd, ∃ e, txUpdate s B t cond upd = (s, .err e)) ∧ (∃ e, txDelete s B t cond = (s, .err e)) ∧
    (gate s B = none →
      (∀ upd, upd.any (fun p => decide (p.1 ≥ T.ncols)) = false → txUpdate s B t cond upd = (s, .err .lockConflict)) ∧
      txDelete s B t cond = (s, .err .lockConflict)) := by
  have hb : lockBlocked s B t (matching T cond) = true := lockBlocked_of_holder hh hAB hi
  refine ⟨?_, ?_, ?_⟩
  · intro upd
    unfold txUpdate
    cases hg : gate s B with
    | some e => exact ⟨e, rfl⟩
    | none =>
      simp only [hT]
      by_cases hc : upd.any (fun p => decide (p.1 ≥ T.ncols)) = true
      · exact ⟨.columnNotFound, by simp [hc]⟩
      · exact ⟨.lockConflict, by simp [hc, hb]⟩
  · unfold txDelete
    cases hg : gate s B with
    | some e => exact ⟨e, rfl⟩
    | none => exact ⟨.lockConflict, by simp [hT, hb]⟩
  · intro hg
    refine ⟨?_, ?_⟩
    · intro upd hc
      unfold txUpdate
      simp [hg, hT, hc, hb]
    · unfold txDelete
      simp [hg, hT, hb]

/-- the same for NON-transactional `update` / `delete_rows` (they run inside an internal
    transaction): lock conflict, and no table is touched -/
theorem row_lock_exclusive_nontx (s : State) (A t i : Nat) (T : Table) (cond : Cond)
    (hA : A < s.nextTx) (hh : holder s t i = some A) (hT : s.tables t = some T) (hi : i ∈ matching T cond) :
    (∀ upd, upd.any (fun p => decide (p.1 ≥ T.ncols)) = false →
      (update s t cond upd).2 = .err .lockConflict ∧ (update s t cond upd).1.tables = s.tables) ∧
    (delete s t cond).2 = .err .lockConflict ∧ (delete s t cond).1.tables = s.tables := by
  -- the internal transaction is `s.nextTx ≠ A`, begun in a state with the same locks
  have hne : A ≠ (begin s).2 := by simp only [begin]; omega
  have hh' : holder (begin s).1 t i = some A := hh
  have hT' : (begin s).1.tables t = some T := by simpa [begin] using hT
  have hgate : gate (begin s).1 (begin s).2 = none := by simp [gate, begin]
  have key := row_lock_exclusive (begin s).1 A (begin s).2 t i T cond hne hh' hT' hi
  have hlog : (begin s).1.txs (begin s).2 = some { phase := .active, startedAt := s.now, undo := [] } := by
    simp [begin]
  -- rollback of the fresh internal transaction: empty undo log
  have hrb : (rollback (begin s).1 (begin s).2).1.tables = s.tables := by
    unfold rollback
    rw [hgate]
    simp only [hlog, List.reverse_nil, List.foldl_nil, setTx_tables, release_tables]
    simp [begin]
  refine ⟨?_, ?_⟩
  · intro upd hc
    have h1 := (key.2.2 hgate).1 upd hc
    unfold update
    simp only [hT, hc]
    unfold finishAuto
    rw [h1]
    exact ⟨rfl, hrb⟩
  · have h1 := (key.2.2 hgate).2
    unfold delete
    simp only [hT]
    unfold finishAuto
    rw [h1]
    exact ⟨rfl, hrb⟩

end Neumann.RelTx.Props
