import NeumannModel.RelTx.LockOwner
/-
  C09 — relational transactions are all-or-nothing and writers exclude each other.
  ONLY property theorems and their non-vacuity examples.  Statements are at statement
  granularity (one `Op` = one atomic step) and quantify over every state / every
  sequence of statements of any number of transactions.
-/
namespace Neumann.RelTx.Props
open Neumann.RelTx

/-! The scripts used by the witnesses and the non-vacuity examples (`s0`, `setupIdx`, `setupPlain`,
    `sThree`, `calmOps`) are defined at the end of `Restore.lean`, those of the lock-takeover
    theorems (`s1`, `takeover`, `afterEnd`) at the end of `LockOwner.lean`
    (`insert` is `begin; tx_insert; commit`, so it consumes a transaction id). -/


/-! ## finished transactions cannot be used again -/

/-- After `commit` or `rollback` of an open transaction, and after ANY further sequence of
    statements (including later `begin`s), every call that names the transaction — the three
    writing statements, `tx_select`, `commit`, `rollback` — answers `TransactionNotFound` and
    leaves the state untouched. -/
theorem finished_tx_unusable (s : State) (tx : Nat) (hlt : tx < s.nextTx) (hopen : gate s tx = none)
    (s' : State) (hfin : s' = (commit s tx).1 ∨ s' = (rollback s tx).1) (ops : List Op) :
    let sf := run s' ops
    commit sf tx = (sf, .err .txNotFound) ∧ rollback sf tx = (sf, .err .txNotFound) ∧
    (∀ t vals, txInsert sf tx t vals = (sf, .err .txNotFound)) ∧
    (∀ t c upd, txUpdate sf tx t c upd = (sf, .err .txNotFound)) ∧
    (∀ t c, txDelete sf tx t c = (sf, .err .txNotFound)) ∧
    (∀ t c, txSelect sf tx t c = .err .txNotFound) := by
  have hg : Gone s' tx := by
    rcases hfin with h | h
    · subst h
      unfold commit; rw [hopen]
      exact ⟨by simp, hlt⟩
    · subst h
      unfold rollback; rw [hopen]
      simp only
      refine ⟨by simp, ?_⟩
      simp only [setTx_nextTx, release_nextTx]
      rw [(foldl_applyUndo_fields _ (s, 0)).2.2.2.2.1]; exact hlt
  intro sf
  have hgate : gate sf tx = some .txNotFound := gate_of_gone (gone_run hg ops)
  refine ⟨?_, ?_, ?_, ?_, ?_, ?_⟩
  · unfold commit; rw [hgate]
  · unfold rollback; rw [hgate]
  · intro t vals; unfold txInsert; rw [hgate]
  · intro t c upd; unfold txUpdate; rw [hgate]
  · intro t c; unfold txDelete; rw [hgate]
  · intro t c; unfold txSelect; rw [hgate]

/-- non-vacuity: an open transaction exists (and can read), and after its commit its id is refused -/
example : let s := run s0 (setupIdx ++ [.begin])
    1 < s.nextTx ∧ gate s 1 = none ∧ txSelect s 1 0 (.ge 0 0) = .rows [(0, [1, 1])] ∧
    (step (step s (.commit 1)).1 (.txInsert 1 0 [2, 2])).2 = .err .txNotFound ∧
    txSelect (step s (.commit 1)).1 1 0 .all = .err .txNotFound ∧
    txSelect (step s (.rollback 1)).1 1 0 .all = .err .txNotFound := by decide

/-- a transaction id that was never handed out is refused as well -/
theorem unknown_tx_refused (s : State) (tx : Nat) (h : s.txs tx = none) :
    commit s tx = (s, .err .txNotFound) ∧ rollback s tx = (s, .err .txNotFound) ∧
    (∀ t vals, txInsert s tx t vals = (s, .err .txNotFound)) ∧
    (∀ t c upd, txUpdate s tx t c upd = (s, .err .txNotFound)) ∧
    (∀ t c, txDelete s tx t c = (s, .err .txNotFound)) ∧
    (∀ t c, txSelect s tx t c = .err .txNotFound) := by
  have hg : gate s tx = some .txNotFound := by unfold gate; rw [h]
  refine ⟨?_, ?_, ?_, ?_, ?_, ?_⟩
  · unfold commit; rw [hg]
  · unfold rollback; rw [hg]
  · intro t vals; unfold txInsert; rw [hg]
  · intro t c upd; unfold txUpdate; rw [hg]
  · intro t c; unfold txDelete; rw [hg]
  · intro t c; unfold txSelect; rw [hg]

/-! ## commit -/

/-- Committing an open transaction succeeds, changes no table, no row and no index entry
    (the statements' effects are already in place and simply stay), drops the transaction
    together with its undo log — so by `finished_tx_unusable` no later `rollback` of it can
    take anything back. -/
theorem commit_permanent (s : State) (tx : Nat) (hopen : gate s tx = none) :
    (commit s tx).2 = .ok ∧ (commit s tx).1.tables = s.tables ∧ (commit s tx).1.txs tx = none ∧
    rollback (commit s tx).1 tx = ((commit s tx).1, .err .txNotFound) := by
  have h1 : (commit s tx).1.txs tx = none := by unfold commit; rw [hopen]; simp
  refine ⟨by unfold commit; rw [hopen], by unfold commit; rw [hopen]; rfl, h1, ?_⟩
  unfold rollback gate; rw [h1]

/-- The stronger reading — "once committed, no other transaction's rollback can undo the
    committed values" — is FALSE of the code: A updates row 1 (lock taken), A's lock times out
    while A stays open, B updates the same row and COMMITS, then A rolls back: the row is back
    at its pre-A value and B's committed update is gone. -/
theorem commit_permanent_vs_later_rollback_witness :
    let ops : List Op := setupIdx ++ [.begin, .begin,
      .txUpdate 1 0 (.idEq 0) [(0, 4)], .tick 30001, .txUpdate 2 0 (.idEq 0) [(0, 5)], .commit 2]
    let sB := run s0 ops
    (runRes s0 ops).getLast? = some .ok ∧
    (sB.tables 0).map (·.rows) = some [⟨true, [5, 1]⟩] ∧
    (step sB (.rollback 1)).2 = .ok ∧
    ((step sB (.rollback 1)).1.tables 0).map (·.rows) = some [⟨true, [1, 1]⟩] ∧
    calm s0 ops = false := by decide

/-- the index side of the same situation (known finding `duplicate_row_in_index_answer`): after A's
    rollback the hash and b-tree entries of B's committed value AND of A's restored value are
    both present — a range query returns the row twice, the equality query on the committed
    value finds nothing although B committed it. -/
theorem lock_expiry_rollback_index_witness :
    let ops : List Op := setupIdx ++ [.begin, .begin,
      .txUpdate 1 0 (.idEq 0) [(0, 4)], .tick 30001, .txUpdate 2 0 (.idEq 0) [(0, 5)], .commit 2, .rollback 1]
    let fin := run s0 ops
    (fin.tables 0).map (scanAnswer · (.ge 0 0)) = some [(0, [1, 1])] ∧
    (fin.tables 0).map (select · (.ge 0 0)) = some [(0, [1, 1]), (0, [1, 1])] ∧
    (fin.tables 0).map (·.hashE) = some [(0, 5, 0), (0, 1, 0)] ∧
    calm s0 ops = false := by decide

/-! ## writers exclude each other -/

/-- While transaction A holds an unexpired lock on a row, an update or delete by any other
    transaction B whose condition matches that row changes NOTHING and returns an error;
    when B is open (and the SET list is valid: existing columns, NULL only for nullable columns —
    `updBad = false`) the error is `LockConflict`. -/
theorem row_lock_exclusive (s : State) (A B t i : Nat) (T : Table) (cond : Cond)
    (hAB : A ≠ B) (hh : holder s t i = some A) (hT : s.tables t = some T) (hi : i ∈ matching T cond) :
    (∀ upd, ∃ e, txUpdate s B t cond upd = (s, .err e)) ∧ (∃ e, txDelete s B t cond = (s, .err e)) ∧
    (gate s B = none →
      (∀ upd, updBad T upd = false → txUpdate s B t cond upd = (s, .err .lockConflict)) ∧
      txDelete s B t cond = (s, .err .lockConflict)) := by
  have hb : lockBlocked s B t (matching T cond) = true := lockBlocked_of_holder hh hAB hi
  refine ⟨?_, ?_, ?_⟩
  · intro upd
    unfold txUpdate
    cases hg : gate s B with
    | some e => exact ⟨e, rfl⟩
    | none =>
      simp only [hT]
      by_cases hc : updBad T upd = true
      · exact ⟨updErr T upd, by simp [hc]⟩
      · exact ⟨.lockConflict, by simp [hc, hb]⟩
  · unfold txDelete
    cases hg : gate s B with
    | some e => exact ⟨e, rfl⟩
    | none => exact ⟨.lockConflict, by simp [hT, hb]⟩
  · intro hg
    refine ⟨?_, ?_⟩
    · intro upd hc
      unfold txUpdate
      simp [hg, hT, hc, hb]
    · unfold txDelete
      simp [hg, hT, hb]

/-- the same for NON-transactional `update` / `delete_rows` (they run inside an internal
    transaction): lock conflict, and no table is touched -/
theorem row_lock_exclusive_nontx (s : State) (A t i : Nat) (T : Table) (cond : Cond)
    (hA : A < s.nextTx) (hh : holder s t i = some A) (hT : s.tables t = some T) (hi : i ∈ matching T cond) :
    (∀ upd, updBad T upd = false →
      (update s t cond upd).2 = .err .lockConflict ∧ (update s t cond upd).1.tables = s.tables) ∧
    (delete s t cond).2 = .err .lockConflict ∧ (delete s t cond).1.tables = s.tables := by
  -- the internal transaction is `s.nextTx ≠ A`, begun in a state with the same locks
  have hne : A ≠ (begin s).2 := by simp only [begin]; omega
  have hh' : holder (begin s).1 t i = some A := hh
  have hT' : (begin s).1.tables t = some T := by simpa [begin] using hT
  have hgate : gate (begin s).1 (begin s).2 = none := by simp [gate, begin]
  have key := row_lock_exclusive (begin s).1 A (begin s).2 t i T cond hne hh' hT' hi
  have hlog : (begin s).1.txs (begin s).2 = some { phase := .active, startedAt := s.now, undo := [] } := by
    simp [begin]
  -- rollback of the fresh internal transaction: empty undo log
  have hrb : (rollback (begin s).1 (begin s).2).1.tables = s.tables := by
    unfold rollback
    rw [hgate]
    simp only [hlog, List.reverse_nil, List.foldl_nil, setTx_tables, release_tables]
    simp [begin]
  refine ⟨?_, ?_⟩
  · intro upd hc
    have h1 := (key.2.2 hgate).1 upd hc
    unfold update
    simp only [hT, hc]
    unfold finishAuto
    rw [h1]
    exact ⟨rfl, hrb⟩
  · have h1 := (key.2.2 hgate).2
    unfold delete
    simp only [hT]
    unfold finishAuto
    rw [h1]
    exact ⟨rfl, hrb⟩

/-- "has modified a row" ⇒ holds its lock, update / delete part, for ANY state: after a successful
    `tx_update` / `tx_delete` by A every row its condition matched is locked by A (from that
    statement's time on). -/
theorem updated_deleted_row_locked (s : State) (A t n : Nat) (T : Table) (cond : Cond) (hT : s.tables t = some T) :
    (∀ upd, (txUpdate s A t cond upd).2 = .okN n →
      ∀ i ∈ matching T cond, holder (txUpdate s A t cond upd).1 t i = some A) ∧
    ((txDelete s A t cond).2 = .okN n → ∀ i ∈ matching T cond, holder (txDelete s A t cond).1 t i = some A) := by
  refine ⟨?_, ?_⟩
  · intro upd hok i hi
    obtain ⟨_, hform⟩ := txUpdate_ok_form hT hok
    rw [hform]
    have hne : (matching T cond).isEmpty = false := by
      cases h : matching T cond with
      | nil => rw [h] at hi; cases hi
      | cons _ _ => rfl
    simp only [hne, Bool.false_eq_true, ↓reduceIte]
    have f := foldl_updateRow_locks A t upd (matching T cond) (lockAll s A t (matching T cond))
    rw [holder_congr f.1 f.2.2.1 f.2.2.2.1]
    exact holder_lockAll s A t i _ hi
  · intro hok i hi
    obtain ⟨_, hform⟩ := txDelete_ok_form hT hok
    rw [hform]
    have hne : (matching T cond).isEmpty = false := by
      cases h : matching T cond with
      | nil => rw [h] at hi; cases hi
      | cons _ _ => rfl
    simp only [hne, Bool.false_eq_true, ↓reduceIte]
    have f := foldl_deleteRow_locks A t (matching T cond) (lockAll s A t (matching T cond))
    rw [holder_congr f.1 f.2.2.1 f.2.2.2.1]
    exact holder_lockAll s A t i _ hi

/-- "has modified a row" ⇒ holds its lock, in every state reachable from the empty engine by ANY
    sequence of statements: after a successful `tx_update` / `tx_delete` by A every row the
    condition matched is locked by A, and after a successful `tx_insert` by A the row it created
    (slab id = old table length) is locked by A — the `try_lock` whose result the code discards can
    never fail, because locks only ever sit on rows that exist (`lr_run`) and the new id is fresh. -/
theorem modified_row_locked (a b : Nat) (ops : List Op) (A t n : Nat) (T : Table) (cond : Cond)
    (hT : (run (init a b) ops).tables t = some T) :
    let s := run (init a b) ops
    (∀ upd, (txUpdate s A t cond upd).2 = .okN n →
      ∀ i ∈ matching T cond, holder (txUpdate s A t cond upd).1 t i = some A) ∧
    ((txDelete s A t cond).2 = .okN n → ∀ i ∈ matching T cond, holder (txDelete s A t cond).1 t i = some A) ∧
    (∀ vals, (txInsert s A t vals).2 = .okN n → n = T.rows.length ∧ holder (txInsert s A t vals).1 t n = some A) := by
  intro s
  have h := updated_deleted_row_locked s A t n T cond hT
  exact ⟨h.1, h.2, fun vals hok => txInsert_locks_row (lr_run (lr_init a b) ops) hT hok⟩

/-- non-vacuity of `row_lock_exclusive` / `modified_row_locked`: A updates row 0 and inserts row 1;
    B's update and delete of either, and non-transactional statements, all get `LockConflict` -/
example : let s := run s0 (setupIdx ++ [.begin, .begin, .txUpdate 1 0 (.idEq 0) [(0, 4)], .txInsert 1 0 [6, 6]])
    holder s 0 0 = some 1 ∧ holder s 0 1 = some 1 ∧ (step s (.txUpdate 2 0 .all [(1, 0)])).2 = .err .lockConflict ∧
    (step s (.txDelete 2 0 (.idEq 0))).2 = .err .lockConflict ∧ (step s (.txDelete 2 0 (.idEq 1))).2 = .err .lockConflict ∧
    (step s (.txUpdate 2 0 (.eq 0 6) [(1, 0)])).2 = .err .lockConflict ∧
    (step s (.update 0 (.eq 0 4) [(1, 0)])).2 = .err .lockConflict ∧ (step s (.delete 0 .all)).2 = .err .lockConflict := by
  decide

/-- REGRESSION WITNESS on the code before dcf916e8 (`stepOld`): `tx_insert` took NO row lock, so
    another transaction could delete (or update) the uncommitted row.  On the current code the
    same statements answer `LockConflict` (second half). -/
theorem inserted_row_not_locked_witness :
    let sOld := runOld s0 (setupIdx ++ [.begin, .begin, .txInsert 1 0 [4, 4]])
    let s := run s0 (setupIdx ++ [.begin, .begin, .txInsert 1 0 [4, 4]])
    (holder sOld 0 1 = none ∧ (stepOld sOld (.txDelete 2 0 (.idEq 1))).2 = .okN 1 ∧
      (stepOld sOld (.txUpdate 2 0 (.idEq 1) [(0, 5)])).2 = .okN 1) ∧
    (holder s 0 1 = some 1 ∧ (step s (.txDelete 2 0 (.idEq 1))).2 = .err .lockConflict ∧
      (step s (.txUpdate 2 0 (.idEq 1) [(0, 5)])).2 = .err .lockConflict) := by decide

/-! ## locks disappear when the transaction ends or the lock times out -/

/-- In every state reachable from the empty engine by ANY sequence of statements: when an open
    transaction A commits or rolls back, no lock names A afterwards (`row_lock_holder` never
    answers A, `locks_held_by(A) = 0`); and a lock older than the timeout has no holder and
    blocks nobody. -/
theorem locks_released_on_end_or_expiry (a b : Nat) (ops : List Op) (A : Nat) :
    let s := run (init a b) ops
    (gate s A = none → ∀ s', (s' = (commit s A).1 ∨ s' = (rollback s A).1) →
      (∀ t i l, s'.locks t i = some l → l.tx ≠ A) ∧ (∀ t i, holder s' t i ≠ some A) ∧ s'.txLocks A = []) ∧
    (∀ t i l d, s.locks t i = some l → s.now + d - l.acquiredAt > s.lockTimeout →
      holder (tick s d) t i = none ∧ ∀ B, lockBlocked (tick s d) B t [i] = false) := by
  intro s
  have hinv : LockIdx s := lockIdx_run (lockIdx_init a b) ops
  refine ⟨?_, ?_⟩
  · intro hopen s' hs'
    have hrel := release_clears hinv A
    have key : s'.locks = (release s A).locks ∧ s'.txLocks = (release s A).txLocks ∧
        s'.now = s.now ∧ s'.lockTimeout = s.lockTimeout := by
      rcases hs' with h | h
      · subst h; unfold commit; rw [hopen]; exact ⟨rfl, rfl, rfl, rfl⟩
      · subst h; unfold rollback; rw [hopen]
        simp only
        have f := foldl_applyUndo_fields ((match s.txs A with | some x => x.undo | none => []).reverse) (s, 0)
        have r := release_congr f.1 f.2.1 A
        exact ⟨r.1, r.2, f.2.2.1, f.2.2.2.1⟩
    have h1 : ∀ t i l, s'.locks t i = some l → l.tx ≠ A := by
      intro t i l hl; rw [key.1] at hl; exact hrel.1 t i l hl
    refine ⟨h1, ?_, by rw [key.2.1]; exact hrel.2⟩
    intro t i hh
    obtain ⟨l, hl, hA, _⟩ := holder_some hh
    exact h1 t i l hl hA
  · intro t i l d hl hd
    have he : l.expired (s.now + d) s.lockTimeout = true := by simp [Lock.expired, hd]
    refine ⟨by simp [holder, tick, hl, he], ?_⟩
    intro B
    simp [lockBlocked, tick, hl, he]

/-- non-vacuity: A's lock is there, is gone after commit, and is gone after the timeout -/
example : let s := run s0 (setupIdx ++ [.begin, .begin, .txUpdate 1 0 (.idEq 0) [(0, 4)]])
    gate s 1 = none ∧ holder s 0 0 = some 1 ∧ holder (step s (.commit 1)).1 0 0 = none ∧
    holder (step s (.rollback 1)).1 0 0 = none ∧ holder (step s (.tick 30001)).1 0 0 = none ∧
    holder (step s (.tick 30000)).1 0 0 = some 1 ∧
    (step (step s (.tick 30001)).1 (.txUpdate 2 0 (.idEq 0) [(0, 5)])).2 = .okN 1 := by decide

/-! ## the end of a transaction removes only its OWN locks -/

/-- `release` looks at the owner.  In EVERY state — reachable or not, so in particular in every state
    reached by any statement sequence with lock expiries and takeovers, where the key of a taken-over
    lock is still listed under its OLD holder (`try_lock` does not clean `tx_locks`) — the end of
    transaction A by `commit`, by `rollback`, or by `cleanup_expired` (which ends every timed-out
    transaction) leaves every row lock whose current holder is somebody else exactly as it is: same
    holder, same acquisition time, hence the same `row_lock_holder` answer; and the other
    transaction's key list is untouched. -/
theorem release_keeps_foreign_locks (s : State) (A t i : Nat) (l : Lock)
    (hl : s.locks t i = some l) (hne : l.tx ≠ A) :
    ((commit s A).1.locks t i = some l ∧ holder (commit s A).1 t i = holder s t i ∧
      (commit s A).1.txLocks l.tx = s.txLocks l.tx) ∧
    ((rollback s A).1.locks t i = some l ∧ holder (rollback s A).1 t i = holder s t i ∧
      (rollback s A).1.txLocks l.tx = s.txLocks l.tx) ∧
    (txExpired s l.tx = false →
      (cleanupTxs s).1.locks t i = some l ∧ holder (cleanupTxs s).1 t i = holder s t i ∧
      (cleanupTxs s).1.txLocks l.tx = s.txLocks l.tx) := by
  refine ⟨?_, ?_, ?_⟩
  · have h := commit_locks_foreign hl hne
    exact ⟨h, holder_eq_of_lock hl h (commit_clock s A).1 (commit_clock s A).2.1, commit_txLocks_other s hne⟩
  · have h := rollback_locks_foreign hl hne
    exact ⟨h, holder_eq_of_lock hl h (rollback_clock s A).1 (rollback_clock s A).2.1, rollback_txLocks_other s hne⟩
  · intro hx
    have h := cleanupTxs_locks_foreign hl hx
    exact ⟨h, holder_eq_of_lock hl h (cleanupTxs_clock s).1 (cleanupTxs_clock s).2.1, cleanupTxs_txLocks_other s hx⟩

/-- non-vacuity: after the takeover B = 2 holds row 0, the key is STILL in the list of the old holder
    A = 1 (and in B's), A is open; A's commit and rollback leave B's lock; 10 s later A has timed
    out, B has not, and `cleanup_expired` leaves B's lock -/
example : let s := run s1 takeover
    s.locks 0 0 = some ⟨2, 30001⟩ ∧ (0, 0) ∈ s.txLocks 1 ∧ (0, 0) ∈ s.txLocks 2 ∧ gate s 1 = none ∧ gate s 2 = none ∧
    holder s 0 0 = some 2 ∧ holder (commit s 1).1 0 0 = some 2 ∧ holder (rollback s 1).1 0 0 = some 2 ∧
    txExpired (tick s 10000) 1 = true ∧ txExpired (tick s 10000) 2 = false ∧
    (cleanupTxs (tick s 10000)).2 = .okN 1 ∧ holder (cleanupTxs (tick s 10000)).1 0 0 = some 2 := by decide

/-- Run level, every statement: B holds an unexpired lock on a row (B an id that has been handed out).
    Then after ANY script that does not end B (no `commit B` / `rollback B`, no `cleanup_expired` while B
    is timed out) and during which B's lock does not time out (computable predicate `spares`) —
    statements, commits, rollbacks and timeout cleanup of any other transactions, non-transactional
    statements (whose internal transaction ends inside them), DDL, lock sweeps, ticks — B still holds
    the row, and every update / delete by anybody else whose condition matches the row fails and
    changes nothing.  No reachability hypothesis. -/
theorem held_lock_survives_others (s : State) (B t i : Nat) (hh : holder s t i = some B) (hB : B < s.nextTx)
    (ops : List Op) (hsp : spares s B t i ops = true) :
    holder (run s ops) t i = some B ∧
    (∀ C cond T, C ≠ B → (run s ops).tables t = some T → i ∈ matching T cond →
      (∀ upd, ∃ e, txUpdate (run s ops) C t cond upd = (run s ops, .err e)) ∧
      (∃ e, txDelete (run s ops) C t cond = (run s ops, .err e))) := by
  have h := holder_run_of_spares hh hB ops hsp
  refine ⟨h, ?_⟩
  intro C cond T hC hT hi
  have k := row_lock_exclusive (run s ops) B C t i T cond (fun e => hC e.symm) h hT hi
  exact ⟨k.1, k.2.1⟩

/-- THE TAKEOVER CASE.  Row `(t,i)` carries a lock of A that is listed under A; another transaction B
    writes the row successfully (update or delete whose condition matches it).  Then
      * A's lock had timed out (the only way B can get past it),
      * B now holds the row — and the key is STILL in A's key list,
      * A's end — commit, rollback, or `cleanup_expired` while B has not timed out — leaves B the holder,
      * more generally after ANY script that spares B (see `held_lock_survives_others`; e.g.
        `[commit A, begin, tx_update C …]`) B holds the row and every third transaction's update /
        delete matching the row fails with the state unchanged.
    Any state, any statement sequence afterwards. -/
theorem taken_over_lock_survives_old_holder_end (s : State) (A B t i n : Nat) (T : Table) (cond : Cond) (lA : Lock)
    (hT : s.tables t = some T) (hi : i ∈ matching T cond)
    (hlA : s.locks t i = some lA) (hA : lA.tx = A) (hlist : (t, i) ∈ s.txLocks A) (hAB : A ≠ B) (hB : B < s.nextTx)
    (sB : State)
    (hw : (∃ upd, sB = (txUpdate s B t cond upd).1 ∧ (txUpdate s B t cond upd).2 = .okN n) ∨
          (sB = (txDelete s B t cond).1 ∧ (txDelete s B t cond).2 = .okN n)) :
    lA.expired s.now s.lockTimeout = true ∧
    holder sB t i = some B ∧ (t, i) ∈ sB.txLocks A ∧
    holder (commit sB A).1 t i = some B ∧ holder (rollback sB A).1 t i = some B ∧
    (txExpired sB B = false → holder (cleanupTxs sB).1 t i = some B) ∧
    (∀ ops, spares sB B t i ops = true →
      holder (run sB ops) t i = some B ∧
      (∀ C cond' T', C ≠ B → (run sB ops).tables t = some T' → i ∈ matching T' cond' →
        (∀ upd, ∃ e, txUpdate (run sB ops) C t cond' upd = (run sB ops, .err e)) ∧
        (∃ e, txDelete (run sB ops) C t cond' = (run sB ops, .err e)))) := by
  have hexp : lockBlocked s B t (matching T cond) = false → lA.expired s.now s.lockTimeout = true := by
    intro hb
    unfold lockBlocked at hb
    rw [List.any_eq_false] at hb
    have := hb i hi
    simp only [hlA, hA] at this
    have hne : (A != B) = true := by simpa using hAB
    simpa [hne] using this
  have hlistA : ∀ rows : List Nat, (t, i) ∈ (if rows.isEmpty then s else lockAll s B t rows).txLocks A := by
    intro rows
    split
    · exact hlist
    · simp only [lockAll, hAB, ↓reduceIte]; exact hlist
  -- the three facts about `sB` that the rest needs
  have key : lA.expired s.now s.lockTimeout = true ∧ holder sB t i = some B ∧ (t, i) ∈ sB.txLocks A ∧ B < sB.nextTx := by
    rcases hw with ⟨upd, rfl, hok⟩ | ⟨rfl, hok⟩
    · obtain ⟨hb, hform⟩ := txUpdate_ok_form hT hok
      refine ⟨hexp hb, (updated_deleted_row_locked s B t n T cond hT).1 upd hok i hi, ?_,
        Nat.lt_of_lt_of_le hB (clk_txUpdate s B t cond upd).next⟩
      rw [hform, (foldl_updateRow_locks B t upd _ _).2.1]
      exact hlistA _
    · obtain ⟨hb, hform⟩ := txDelete_ok_form hT hok
      refine ⟨hexp hb, (updated_deleted_row_locked s B t n T cond hT).2 hok i hi, ?_,
        Nat.lt_of_lt_of_le hB (clk_txDelete s B t cond).next⟩
      rw [hform, (foldl_deleteRow_locks B t _ _).2.1]
      exact hlistA _
  obtain ⟨h1, h2, h3, h4⟩ := key
  obtain ⟨l, hl, hlB, _⟩ := holder_some h2
  have hne : l.tx ≠ A := by rw [hlB]; exact fun e => hAB e.symm
  have r := release_keeps_foreign_locks sB A t i l hl hne
  refine ⟨h1, h2, h3, by rw [r.1.2.1]; exact h2, by rw [r.2.1.2.1]; exact h2, ?_, ?_⟩
  · intro hx
    rw [(r.2.2 (by rw [hlB]; exact hx)).2.1]; exact h2
  · intro ops hsp
    exact held_lock_survives_others sB B t i h2 h4 ops hsp

/-- non-vacuity of `taken_over_lock_survives_old_holder_end` / `held_lock_survives_others`: the state
    before B's write has A's expired lock on row 0, listed under A; B's update answers `Ok(1)`; the
    three ends of A followed by C's attempts spare B; C gets `LockConflict` twice; B's rollback then
    restores exactly the pre-image B recorded, `[4,1]` (A's value — when A rolled back in between, A's
    undo had overwritten B's write: that is the known lock-expiry finding
    `commit_permanent_vs_later_rollback_witness`, not a lock-table matter) -/
example : let s := run s1 (takeover.take 8)
    s.locks 0 0 = some ⟨1, 0⟩ ∧ (0, 0) ∈ s.txLocks 1 ∧ 2 < s.nextTx ∧ 0 ∈ matching ((s.tables 0).getD default) (.idEq 0) ∧
    (s.locks 0 0).map (·.expired s.now s.lockTimeout) = some true ∧
    (txUpdate s 2 0 (.idEq 0) [(0, 5)]).2 = .okN 1 ∧ holder (txUpdate s 2 0 (.idEq 0) [(0, 5)]).1 0 0 = some 2 ∧
    (takeover.drop 8 = [.txUpdate 2 0 (.idEq 0) [(0, 5)]]) := by decide

example : let sB := run s1 takeover
    spares sB 2 0 0 ([.commit 1] ++ afterEnd.take 3) = true ∧ spares sB 2 0 0 ([.rollback 1] ++ afterEnd.take 3) = true ∧
    spares sB 2 0 0 ([.tick 10000, .cleanupTxs] ++ afterEnd.take 3) = true ∧
    spares sB 2 0 0 [.tick 30001] = false ∧ spares sB 2 0 0 [.commit 2] = false ∧
    (runRes sB ([.commit 1] ++ afterEnd)).drop 2 = [.err .lockConflict, .err .lockConflict, .ok] ∧
    (runRes sB ([.rollback 1] ++ afterEnd)).drop 2 = [.err .lockConflict, .err .lockConflict, .ok] ∧
    (runRes sB ([.tick 10000, .cleanupTxs] ++ afterEnd)).drop 3 = [.err .lockConflict, .err .lockConflict, .ok] ∧
    ((run sB ([.commit 1] ++ afterEnd)).tables 0).map (scanAnswer · .all) = some [(0, [4, 1])] ∧
    ((run sB ([.rollback 1] ++ afterEnd)).tables 0).map (scanAnswer · .all) = some [(0, [4, 1])] ∧
    ((run sB ([.tick 10000, .cleanupTxs] ++ afterEnd)).tables 0).map (scanAnswer · .all) = some [(0, [4, 1])] := by decide

/-- WITNESS that the theorems above tell the code from its "simplified" variant: with a `release` that
    drops every key recorded for the ending transaction WITHOUT looking at the current owner
    (`releaseNoOwnerCheck`, `stepNoOwnerCheck`), on the 3-transaction script — A updates row 0, A's
    lock times out, B updates the row, A ends (commit | rollback | timeout cleanup), C updates the row —
    B's live lock is deleted by A's end (`row_lock_holder` = none although B is open and wrote the
    row), C's update is accepted (`Ok(1)`, no `LockConflict`), and B's rollback then overwrites C's
    value.  The current code (`run` / `runRes`, second half) keeps B the holder and refuses C. -/
theorem release_no_owner_check_witness :
    let sB := run s1 takeover
    let cU : Op := .txUpdate 3 0 (.idEq 0) [(0, 6)]
    -- the variant
    (holder sB 0 0 = some 2 ∧ gate sB 2 = none ∧ (sB.locks 0 0).map (·.tx) ≠ some 1 ∧
      holder (commitNoOwnerCheck sB 1).1 0 0 = none ∧ holder (rollbackNoOwnerCheck sB 1).1 0 0 = none ∧
      holder (cleanupTxsNoOwnerCheck (tick sB 10000)).1 0 0 = none ∧
      runResNoOwnerCheck sB [.commit 1, .begin, cU, .rollback 2] = [.ok, .okN 3, .okN 1, .ok] ∧
      runResNoOwnerCheck sB [.rollback 1, .begin, cU, .rollback 2] = [.ok, .okN 3, .okN 1, .ok] ∧
      runResNoOwnerCheck sB [.tick 10000, .cleanupTxs, .begin, cU, .rollback 2] = [.ok, .okN 1, .okN 3, .okN 1, .ok] ∧
      ((runNoOwnerCheck sB [.commit 1, .begin, cU]).tables 0).map (scanAnswer · .all) = some [(0, [6, 1])] ∧
      gate (runNoOwnerCheck sB [.commit 1, .begin, cU]) 3 = none ∧
      ((runNoOwnerCheck sB [.commit 1, .begin, cU, .rollback 2]).tables 0).map (scanAnswer · .all) = some [(0, [4, 1])]) ∧
    -- the code
    (holder (commit sB 1).1 0 0 = some 2 ∧ holder (rollback sB 1).1 0 0 = some 2 ∧
      holder (cleanupTxs (tick sB 10000)).1 0 0 = some 2 ∧
      runRes sB [.commit 1, .begin, cU, .rollback 2] = [.ok, .okN 3, .err .lockConflict, .ok] ∧
      runRes sB [.rollback 1, .begin, cU, .rollback 2] = [.ok, .okN 3, .err .lockConflict, .ok] ∧
      runRes sB [.tick 10000, .cleanupTxs, .begin, cU, .rollback 2] = [.ok, .okN 1, .okN 3, .err .lockConflict, .ok]) := by
  decide

/-! ## rollback -/

/-- FRAME (every state, every undo log): rolling back touches only rows named in the
    transaction's undo log — every other row of every table, alive or dead, keeps its exact
    content, and the result is `Ok` or `RollbackFailed`, after which the transaction is gone. -/
theorem rollback_changes_only_own_rows (s : State) (A : Nat) (x : Tx) (hx : s.txs A = some x)
    (hact : x.phase = .active) (t i : Nat) (hfree : ∀ u ∈ x.undo, ¬(u.table = t ∧ u.row = i)) :
    rowAt (rollback s A).1 t i = rowAt s t i ∧ (rollback s A).1.txs A = none := by
  have hg : gate s A = none := by simp [gate, hx, hact]
  unfold rollback
  rw [hg]
  simp only [hx]
  refine ⟨?_, by simp⟩
  have := foldl_applyUndo_rowAt_other x.undo.reverse (s, 0) t i
    (fun u hu => hfree u (List.mem_reverse.1 hu))
  simpa [rowAt] using this


/-- what `tx_update` / `tx_delete` / `tx_insert` record: the undo entry of a row holds exactly the
    row's values just before the statement (checked here on the per-row bodies) -/
theorem undo_records_preimage (s : State) (A t i : Nat) (T : Table) (r : Row) (x : Tx)
    (hT : s.tables t = some T) (hr : T.rows[i]? = some r) (hx : s.txs A = some x) :
    (∀ upd, ∃ chg, ((updateRow A t upd s i).txs A).map (·.undo) = some (x.undo ++ [.updated t i r.vals chg]) ∧
        rowAt (updateRow A t upd s i) t i = some { r with vals := applyUpd upd r.vals }) ∧
    (∃ idx, ((deleteRow A t s i).txs A).map (·.undo) = some (x.undo ++ [.deleted t i r.vals idx]) ∧
        rowAt (deleteRow A t s i) t i = some { r with alive := false }) := by
  have hlt : i < T.rows.length := (List.getElem?_eq_some_iff.1 hr).1
  have hget : T.rows[i] = r := (List.getElem?_eq_some_iff.1 hr).2
  refine ⟨?_, ?_⟩
  · intro upd
    refine ⟨?w, ?h1, ?h2⟩
    case h1 =>
      simp only [updateRow, hT, hr, setTable_txs, recordUndo, hx, setTx_txs, ↓reduceIte, Option.map_some]
      rfl
    case h2 => simp [updateRow, hT, rowAt, hlt, hget]
  · refine ⟨?w2, ?h3, ?h4⟩
    case h3 =>
      simp only [deleteRow, hT, hr, setTable_txs, recordUndo, hx, setTx_txs, ↓reduceIte, Option.map_some]
      rfl
    case h4 => simp [deleteRow, hT, rowAt, hlt, hget]

/-- `rollback_restores` for ANY state, reachable or not, calm or not (PARTIAL: one undo entry).
    For any open transaction A whose undo log names row `(t,i)` exactly once (entry `u`; the other
    entries, before and after, are about other rows): after `rollback A` the row is exactly
    `undoRow u` of its current content — i.e.
      * `UpdatedRow old`  and the row is alive   ⇒ alive with values `old`,
      * `DeletedRow old`  and the row is dead    ⇒ alive again with values `old`,
      * `InsertedRow`                            ⇒ dead.
    MISSING here (and supplied, for the states reachable under the two side conditions, by
    `rollback_restores` below): rows written several times by the same transaction, the fact that
    nobody else changed the row since, and the index entries. -/
theorem rollback_restores_partial (s : State) (A t i : Nat) (x : Tx) (T : Table) (r : Row)
    (hx : s.txs A = some x) (hact : x.phase = .active)
    (pre post : List Undo) (u : Undo) (hlog : x.undo = pre ++ [u] ++ post)
    (hu : u.table = t ∧ u.row = i) (hothers : ∀ v ∈ pre ++ post, ¬(v.table = t ∧ v.row = i))
    (hT : s.tables t = some T) (hr : T.rows[i]? = some r) :
    rowAt (rollback s A).1 t i = some (undoRow T.ncols u r) := by
  have hg : gate s A = none := by simp [gate, hx, hact]
  obtain ⟨ht, hi⟩ := hu
  subst ht; subst hi
  unfold rollback
  rw [hg]
  simp only [hx, hlog, List.reverse_append, List.reverse_cons, List.reverse_nil, List.nil_append,
    List.foldl_append, List.foldl_cons, List.foldl_nil]
  have hrow0 : rowAt s u.table u.row = some r := by simp [rowAt, hT, hr]
  have hn0 : ncolsAt s u.table = some T.ncols := by simp [ncolsAt, hT]
  -- entries recorded after `u` are undone first and do not touch the row
  have h1 := foldl_applyUndo_rowAt_other post.reverse (s, 0) u.table u.row
    (fun v hv => hothers v (List.mem_append_right _ (List.mem_reverse.1 hv)))
  have h1n := foldl_applyUndo_ncolsAt post.reverse (s, 0) u.table
  have h2 := applyUndo_rowAt_self (post.reverse.foldl applyUndo (s, 0)) u T.ncols r
    (by rw [h1n]; exact hn0) (by rw [h1]; exact hrow0)
  -- entries recorded before `u` are undone last and do not touch it either
  have h3 := foldl_applyUndo_rowAt_other pre.reverse (applyUndo (post.reverse.foldl applyUndo (s, 0)) u) u.table u.row
    (fun v hv => hothers v (List.mem_append_left _ (List.mem_reverse.1 hv)))
  simp only [rowAt, setTx_tables, release_tables] at h2 h3 ⊢
  rw [h3, h2]

/-- non-vacuity of `rollback_restores_partial`: the three cases of `undoRow`, and the index-served
    queries after the rollback -/
example :
    (sThree.txs 2).map (·.undo) = some [.updated 0 0 [1, 1] [(0, 1, 4), (0, 1, 4)], .deleted 0 1 [2, 2] [(0, 2), (0, 2)],
                                        .inserted 0 2 [(0, 3), (0, 3)]] ∧
    (sThree.tables 0).map (·.rows) = some [⟨true, [4, 1]⟩, ⟨false, [2, 2]⟩, ⟨true, [3, 3]⟩] ∧
    ((rollback sThree 2).1.tables 0).map (·.rows) = some [⟨true, [1, 1]⟩, ⟨true, [2, 2]⟩, ⟨false, [3, 3]⟩] := by decide

example :
    ((rollback sThree 2).1.tables 0).map (fun T => (select T (.ge 0 0), select T (.eq 0 1), select T (.eq 0 4))) =
      some ([(0, [1, 1]), (1, [2, 2])], [(0, [1, 1])], []) := by decide

/-- `rollback_restores`, run level.  Take ANY sequence `ops` of statements of any number of
    interleaved transactions, non-transactional statements, index DDL, clock ticks and sweeps,
    starting from the empty engine, that is `calm`: (a) no lock expires (after every `tick` every
    lock in the table is still within its timeout) and (b) no index is created or dropped on a
    table while a transaction that has written that table is open.  Let A be open at the end.
    Then `rollback A`
      (0) answers `Ok` (no undo entry fails);
      (1) leaves every row A ever wrote with exactly the live content it had just BEFORE A's first
          write to it (`p` = the statements before that write; a row A inserted is dead again) —
          whatever chain of inserts / updates / deletes A applied to it since;
      (2) leaves every other row of every table — committed or uncommitted work of anybody else —
          exactly as it is;
      (3) leaves every index exact: every index-answered `select` equals the full-scan answer of
          the restored tables;
      (4) touches no other transaction's undo log and no other transaction's locks.
    Together with `written_row_untouched_by_others` (between A's first write and the rollback no
    statement of anybody else changes the row) this is: "as if none of A's statements had run".
    The two excluded situations are exactly the known findings: `commit_permanent_vs_later_rollback_witness`
    / `lock_expiry_rollback_index_witness` (a lock expired) and `rollback_index_restore_witness`
    (index created while the writer was open). -/
theorem rollback_restores (a b : Nat) (ops : List Op) (A : Nat)
    (hcalm : calm (init a b) ops = true) (hopen : gate (run (init a b) ops) A = none) :
    let sf := run (init a b) ops
    let s' := (rollback sf A).1
    (rollback sf A).2 = .ok ∧
    (∀ p op q t i, ops = p ++ op :: q → gate (run (init a b) p) A = none →
        ¬Names (run (init a b) p) A t i → Names (run (init a b) (p ++ [op])) A t i →
        liveAt s' t i = liveAt (run (init a b) p) t i) ∧
    (∀ t i, ¬Names sf A t i → rowAt s' t i = rowAt sf t i) ∧
    (∀ t T, s'.tables t = some T → ∀ cond, select T cond = scanAnswer T cond) ∧
    (∀ B, B ≠ A → s'.txs B = sf.txs B) ∧
    (∀ t i l, sf.locks t i = some l → l.tx ≠ A → s'.locks t i = some l) := by
  intro sf s'
  have hinv : Inv sf := inv_run (inv_init a b) ops hcalm
  obtain ⟨xf, hxf⟩ := gate_none hopen
  have hunnamed : ∀ (s : State) (x : Tx) t i, s.txs A = some x → ¬Names s A t i →
      restoredRow s x.undo t i = rowAt s t i := by
    intro s x t i hx hn
    unfold restoredRow
    rw [not_names_filter hx hn]
    cases hT : s.tables t with
    | none => simp [ncolsAt, rowAt, hT]
    | some T =>
      simp only [ncolsAt, hT, Option.map_some, rowAt, Option.bind_some]
      cases T.rows[i]? <;> rfl
  refine ⟨rollback_ok hinv hopen, ?_, ?_, ?_, ?_, ?_⟩
  · intro p op q t i hops hgp hnp hn1
    have hsplit : p ++ op :: q = (p ++ [op]) ++ q := by simp
    have hsf : sf = run (run (init a b) (p ++ [op])) q := by
      show run (init a b) ops = _
      rw [hops, hsplit, run_append]
    have hc := hcalm
    rw [hops] at hc
    obtain ⟨hcp, hcq⟩ := calm_append hc
    simp only [calm, Bool.and_eq_true] at hcq
    have hs1 : run (init a b) (p ++ [op]) = (step (run (init a b) p) op).1 := by
      rw [run_append]; rfl
    have hip : Inv (run (init a b) p) := inv_run (inv_init a b) p hcp
    have hi1 : Inv (run (init a b) (p ++ [op])) := by rw [hs1]; exact (step_ok hip op hcq.1).inv
    obtain ⟨xp, hxp⟩ := gate_none hgp
    obtain ⟨x1, hx1, _⟩ := id hn1
    have k1 := (step_keeps hip hcq.1 hxp (by rw [← hs1]; exact hx1)).2 t i (by rw [← hs1]; exact hn1)
    rw [← hs1, hunnamed _ _ t i hxp hnp] at k1
    have hxf' : (run (run (init a b) (p ++ [op])) q).txs A = some xf := by rw [← hsf]; exact hxf
    have k2 := run_keeps hi1 (by rw [hs1]; exact hcq.2) hx1 hn1 hxf'
    rw [← hsf] at k2
    show liveOf (rowAt (rollback sf A).1 t i) = _
    rw [rowAt_rollback hopen hxf, k2, k1]
    rfl
  · intro t i hn
    show rowAt (rollback sf A).1 t i = _
    rw [rowAt_rollback hopen hxf, hunnamed _ _ t i hxf hn]
  · intro t T hT cond
    exact select_eq_scan T ((stepOK_rollback hinv A).inv.idx t T hT) cond
  · intro B hB
    show (rollback sf A).1.txs B = _
    rw [rollback_form hopen hxf]
    simp only [setTx_txs, hB, ↓reduceIte, release_txs]
    rw [(foldl_applyUndo_fields _ (sf, 0)).2.2.2.2.2]
  · intro t i l hl hne
    show (rollback sf A).1.locks t i = _
    rw [rollback_form hopen hxf]
    simp only [setTx_locks]
    exact release_keeps (by rw [(foldl_applyUndo_fields _ (sf, 0)).1]; exact hl) hne

/-- Between A's first write of a row and the end of A, nobody else changes that row: in a calm
    run, a statement that is not A's own (another transaction's statement, commit or rollback, a
    non-transactional statement, DDL, a sweep) leaves every row named in open A's undo log
    exactly as it is — as long as A is still open afterwards. -/
theorem written_row_untouched_by_others (a b : Nat) (ops : List Op) (op : Op) (A t i : Nat)
    (hcalm : calm (init a b) (ops ++ [op]) = true) (hn : Names (run (init a b) ops) A t i)
    (ha : actor op ≠ some A) (hopen : gate (step (run (init a b) ops) op).1 A = none) :
    rowAt (step (run (init a b) ops) op).1 t i = rowAt (run (init a b) ops) t i := by
  obtain ⟨hc1, hc2⟩ := calm_append hcalm
  simp only [calm, Bool.and_eq_true] at hc2
  obtain ⟨x, hx⟩ := gate_none hopen
  exact step_named_row_untouched (inv_run (inv_init a b) ops hc1) hc2.1 hn ha (by rw [hx]; simp)

set_option maxRecDepth 8000 in
/-- non-vacuity of `rollback_restores` / `written_row_untouched_by_others`: `calmOps` is a calm
    script with DDL, a tick, three interleaved transactions (A = 3 open with a chain
    update-update-delete on row 0 and insert-update on row 4; B = 4 open with an uncommitted insert
    and update; C = 6 committed), non-transactional statements and a lock conflict.  `p` = its
    first 9 statements, `op` = A's first update of row 0. -/
example : calm s0 calmOps = true ∧ gate (run s0 calmOps) 3 = none ∧ gate (run s0 (calmOps.take 9)) 3 = none ∧
    calmOps = calmOps.take 9 ++ .txUpdate 3 0 (.idEq 0) [(0, 4)] :: calmOps.drop 10 := by decide

set_option maxRecDepth 8000 in
example : ¬Names (run s0 (calmOps.take 9)) 3 0 0 ∧
    Names (run s0 (calmOps.take 9 ++ [.txUpdate 3 0 (.idEq 0) [(0, 4)]])) 3 0 0 ∧
    ((run s0 calmOps).txs 3).map (·.undo.length) = some 5 ∧
    (runRes s0 calmOps)[18]? = some (.err .lockConflict) := by decide

set_option maxRecDepth 8000 in
example : liveAt (run s0 (calmOps.take 9)) 0 0 = some [1, 1] ∧ liveAt (run s0 calmOps) 0 0 = none ∧
    liveAt (rollback (run s0 calmOps) 3).1 0 0 = some [1, 1] := by decide

set_option maxRecDepth 8000 in
example :
    ((run s0 calmOps).tables 0).map (scanAnswer · .all) = some [(1, [2, 9]), (2, [8, 1]), (3, [7, 7]), (4, [5, 0])] ∧
    ((rollback (run s0 calmOps) 3).1.tables 0).map (scanAnswer · .all) = some [(0, [1, 1]), (1, [2, 9]), (2, [8, 1]), (3, [7, 7])] ∧
    ((rollback (run s0 calmOps) 3).1.tables 0).map (select · (.ge 0 0)) = some [(0, [1, 1]), (1, [2, 9]), (2, [8, 1]), (3, [7, 7])] := by
  decide

/-! ## the undo of an update: remove the new index entry, THEN add the old one -/

/-- `undo_update_keeps_index_exact`.  Take ANY table whose indexes are exact, any live row `i` and the
    undo entry `tx_update` recorded for it: `old` = the row's values before the statement, the
    change list `mkChg` = one `(column, old value, new value)` for EVERY indexed column named in the
    SET list `upd` — no assumption that the new value differs from the old one, so an UPDATE that
    writes an indexed column back with the value the row already holds (`old value = new value`) is
    included, as is a SET list mixing changed and unchanged columns.  Then `apply_undo_entry`
    (remove new, then add old — `undoChange`)
      * reports no error and puts the row back to `old`,
      * leaves both indexes exact, so every index-served `select` equals the full scan,
      * and the row's slot in every hash / b-tree index holds exactly its old value (in particular
        the row is still there when old = new).
    `rollback_restores` uses this for every entry of a log; the swapped order fails it
    (`undo_add_before_remove_loses_entry_witness`). -/
theorem undo_update_keeps_index_exact (T : Table) (t i : Nat) (r : Row) (old : List Val) (upd : List (Nat × Val))
    (h : IdxExact T) (hr : T.rows[i]? = some r) (ha : r.alive = true) (hl : old.length = T.ncols)
    (hupd : ∀ p ∈ upd, p.1 < T.ncols) (hvals : r.vals = applyUpd upd old) :
    let u := Undo.updated t i old (mkChg (T.hashOn ++ T.btreeOn) upd old)
    let T' := (applyUndoT T u).1
    (applyUndoT T u).2 = 0 ∧ T'.rows[i]? = some { r with vals := old } ∧ IdxExact T' ∧
    (∀ cond, select T' cond = scanAnswer T' cond) ∧
    (∀ c ∈ T.hashOn, ∀ v, (c, v, i) ∈ T'.hashE ↔ v = val old c) ∧
    (∀ c ∈ T.btreeOn, ∀ v, (c, v, i) ∈ T'.btreeE ↔ v = val old c) := by
  intro u T'
  have hp : undoPre T.ncols (T.hashOn ++ T.btreeOn) u r := ⟨ha, hl, upd, hupd, rfl, hvals⟩
  obtain ⟨hex, herr⟩ := idxExact_applyUndoT T u r h hr hp
  have hrr : restoreRow T i old = some (T.rows.set i { r with vals := old }) := by
    unfold restoreRow
    rw [hr]
    exact if_pos ⟨ha, hl⟩
  have hrow : T'.rows[i]? = some { r with vals := old } := by
    show ((restoreRow T i old).getD T.rows)[i]? = _
    rw [hrr]
    exact set_self hr
  have hslot : ∀ (on : List Nat) (es : List Entry), ExactOn T'.rows on es → ∀ c ∈ on, ∀ v,
      (c, v, i) ∈ es ↔ v = val old c := by
    intro on es hE c hc v
    rw [hE.2 c i v, want_of_row hrow, if_pos hc, if_pos (show ({ r with vals := old } : Row).alive = true from ha)]
    constructor
    · intro e; cases e; rfl
    · intro e; rw [e]
  exact ⟨herr, hrow, hex, fun cond => select_eq_scan T' hex cond,
    hslot T.hashOn T'.hashE hex.1, hslot T.btreeOn T'.btreeE hex.2⟩

set_option maxRecDepth 8000 in
/-- non-vacuity: `sameValueOps` ends in the state the seeded regression needs — a reachable (calm)
    state, hence exact indexes; row 1 is alive and holds `applyUpd upd old` where the SET list
    writes the hash-indexed column 0 and the b-tree-indexed column 1 back with their OLD values
    (recorded changes `(0, 1, 1)` and `(1, 5, 5)`: old value = new value) and changes column 2. -/
example : ∃ T r, (run s0 sameValueOps).tables 0 = some T ∧ IdxExact T ∧ T.rows[1]? = some r ∧ r.alive = true ∧
    [1, 5, 200].length = T.ncols ∧ (∀ p ∈ sameValueUpd, p.1 < T.ncols) ∧ r.vals = applyUpd sameValueUpd [1, 5, 200] ∧
    mkChg (T.hashOn ++ T.btreeOn) sameValueUpd [1, 5, 200] = [(0, 1, 1), (1, 5, 5)] ∧
    ((run s0 sameValueOps).txs 3).map (·.undo) = some [.updated 0 1 [1, 5, 200] [(0, 1, 1), (1, 5, 5)]] := by
  have hinv : Inv (run s0 sameValueOps) := inv_run (inv_init 30000 60000) sameValueOps (by decide)
  have hfacts : ((run s0 sameValueOps).tables 0).map (fun T =>
      decide (T.rows[1]? = some ⟨true, [1, 5, 150]⟩ ∧ T.ncols = 3 ∧ T.hashOn = [0] ∧ T.btreeOn = [1])) = some true := by decide
  have hundo : ((run s0 sameValueOps).txs 3).map (·.undo) = some [.updated 0 1 [1, 5, 200] [(0, 1, 1), (1, 5, 5)]] := by decide
  cases hT : (run s0 sameValueOps).tables 0 with
  | none => rw [hT] at hfacts; cases hfacts
  | some T =>
    rw [hT] at hfacts
    simp only [Option.map_some, Option.some.injEq, decide_eq_true_eq] at hfacts
    obtain ⟨h1, h2, h3, h4⟩ := hfacts
    refine ⟨T, ⟨true, [1, 5, 150]⟩, rfl, hinv.idx 0 T hT, h1, rfl, by rw [h2]; rfl, ?_, by decide, ?_, hundo⟩
    · rw [h2]; decide
    · rw [h3, h4]; decide

set_option maxRecDepth 8000 in
/-- the conclusion on that state, computed: after the rollback row 1 is `[1, 5, 200]` again and is
    found through the hash index on column 0 and the b-tree index on column 1 exactly as by the scan -/
example :
    ((rollback (run s0 sameValueOps) 3).1.tables 0).map (fun T =>
      [select T (.eq 0 1), select T (.ge 1 4), select T (.le 1 5), scanAnswer T (.eq 0 1)]) =
      some [[(0, [1, 3, 100]), (1, [1, 5, 200])], [(1, [1, 5, 200]), (2, [2, 7, 300])],
            [(0, [1, 3, 100]), (1, [1, 5, 200])], [(0, [1, 3, 100]), (1, [1, 5, 200])]] := by decide

set_option maxRecDepth 8000 in
/-- WITNESS that the order matters (`runAddBeforeRemove` = the model with the two index steps of the
    update undo swapped to add-old-then-remove-new; NOT the code): on the same-value script every
    statement still answers `Ok` and the full scan shows all three rows restored, but row 1 has lost
    its only entry in the hash index (Eq lookup) and in the b-tree index (range lookups) — the
    rolled-back transaction left a visible difference.  The model of the code answers every one of
    these queries like the scan.  Controls: with the swapped order a value-CHANGING update, a→b
    followed by b→a in one transaction, and a same-value update that is COMMITTED are all still
    answered correctly — only same-value update + rollback tells the two orders apart. -/
theorem undo_add_before_remove_loses_entry_witness :
    let ops : List Op := sameValueOps ++ [.rollback 3]
    let bad := runAddBeforeRemove s0 ops
    let good := run s0 ops
    let q := fun (s : State) => (s.tables 0).map fun T =>
        ([scanAnswer T .all, select T (.eq 0 1), select T (.eq 0 2), select T (.ge 1 4), select T (.le 1 5)], T.hashE.length, T.btreeE.length)
    let c1 : List Op := sameValueSetup ++ [.txUpdate 3 0 (.idEq 1) [(0, 2), (1, 6)], .rollback 3]
    let c2 : List Op := sameValueSetup ++ [.txUpdate 3 0 (.idEq 1) [(0, 2)], .txUpdate 3 0 (.idEq 1) [(0, 1)], .rollback 3]
    let c3 : List Op := sameValueOps ++ [.commit 3]
    runResAddBeforeRemove s0 ops = runRes s0 ops ∧ (runRes s0 ops).getLast? = some .ok ∧
    (bad.tables 0).map (scanAnswer · .all) = some [(0, [1, 3, 100]), (1, [1, 5, 200]), (2, [2, 7, 300])] ∧
    (bad.tables 0).map (scanAnswer · (.eq 0 1)) = some [(0, [1, 3, 100]), (1, [1, 5, 200])] ∧
    (bad.tables 0).map (select · (.eq 0 1)) = some [(0, [1, 3, 100])] ∧
    (bad.tables 0).map (scanAnswer · (.ge 1 4)) = some [(1, [1, 5, 200]), (2, [2, 7, 300])] ∧
    (bad.tables 0).map (select · (.ge 1 4)) = some [(2, [2, 7, 300])] ∧
    (bad.tables 0).map (select · (.le 1 5)) = some [(0, [1, 3, 100])] ∧
    (good.tables 0).map (select · (.eq 0 1)) = some [(0, [1, 3, 100]), (1, [1, 5, 200])] ∧
    (good.tables 0).map (select · (.ge 1 4)) = some [(1, [1, 5, 200]), (2, [2, 7, 300])] ∧
    (good.tables 0).map (select · (.le 1 5)) = some [(0, [1, 3, 100]), (1, [1, 5, 200])] ∧
    -- controls, swapped order: value-changing update; a→b then b→a; same-value update then commit
    q (runAddBeforeRemove s0 c1) = q (run s0 c1) ∧ q (runAddBeforeRemove s0 c2) = q (run s0 c2) ∧
    q (runAddBeforeRemove s0 c3) = q (run s0 c3) ∧
    q (run s0 c1) = some ([[(0, [1, 3, 100]), (1, [1, 5, 200]), (2, [2, 7, 300])], [(0, [1, 3, 100]), (1, [1, 5, 200])],
                            [(2, [2, 7, 300])], [(1, [1, 5, 200]), (2, [2, 7, 300])], [(0, [1, 3, 100]), (1, [1, 5, 200])]], 3, 3) := by
  intro ops bad good q c1 c2 c3
  and_intros <;> decide

/-- REGRESSION WITNESS on the code before dcf916e8 (`runOld`): `rollback_restores` was false even
    without timeouts and DDL.  A inserts a row (no lock was taken), B deletes that uncommitted
    row, A rolls back (`slab.delete` on the already dead row reports nothing), B rolls back
    (`restore_deleted_row` revives it).  Both transactions rolled back — and the table has a row
    it did not have before either of them started; every statement answered `Ok`.  On the
    current code B's delete answers `LockConflict` and the table ends as it began. -/
theorem rollback_restores_witness :
    let ops : List Op := setupIdx ++ [.begin, .begin, .txInsert 1 0 [4, 4], .txDelete 2 0 (.idEq 1), .rollback 1, .rollback 2]
    let pre := runOld s0 setupIdx
    let fin := runOld s0 ops
    runResOld s0 ops = [.okN 0, .ok, .ok, .okN 0, .okN 1, .okN 2, .okN 1, .okN 1, .ok, .ok] ∧
    (pre.tables 0).map (scanAnswer · .all) = some [(0, [1, 1])] ∧
    (fin.tables 0).map (scanAnswer · .all) = some [(0, [1, 1]), (1, [4, 4])] ∧
    (fin.tables 0).map (select · (.eq 0 4)) = some [(1, [4, 4])] ∧
    fin.txs 1 = none ∧ fin.txs 2 = none ∧
    runRes s0 ops = [.okN 0, .ok, .ok, .okN 0, .okN 1, .okN 2, .okN 1, .err .lockConflict, .ok, .ok] ∧
    ((run s0 ops).tables 0).map (scanAnswer · .all) = some [(0, [1, 1])] := by decide

/-- Second hole, index side: an index created between a transaction's statement and its
    rollback is not maintained by the undo (the undo entry lists only the indexes that existed
    when the statement ran).  After the rollback the row is back, but the queries answered
    through the new hash / b-tree index do not find it. -/
theorem rollback_index_restore_witness :
    let ops : List Op := setupPlain ++ [.begin, .txUpdate 1 0 (.idEq 0) [(0, 4)], .createBtree 0 0, .createIndex 0 0, .rollback 1]
    let fin := run s0 ops
    (fin.tables 0).map (scanAnswer · (.le 0 1)) = some [(0, [1, 1])] ∧
    (fin.tables 0).map (select · (.le 0 1)) = some [] ∧
    (fin.tables 0).map (scanAnswer · (.eq 0 1)) = some [(0, [1, 1])] ∧
    (fin.tables 0).map (select · (.eq 0 1)) = some [] ∧
    calm s0 ops = false := by decide

/-- REGRESSION WITNESS on the code before c322e794 (`runOld`): the undo of an update / delete
    re-applied hash AND b-tree entry changes for every listed column whether or not that index
    existed; `btree_index_add` creates the in-memory map for a b-tree that was never created, and
    a later `create_btree_index` kept the ghost entry: a purely sequential script after which a
    range query returned the same row twice.  On the current code the answer is exact. -/
theorem undo_ghost_btree_entry_witness :
    let ops : List Op := [.createTable 2 [], .createIndex 0 0, .insert 0 [1, 1], .begin,
        .txUpdate 1 0 (.idEq 0) [(0, 2)], .rollback 1, .update 0 (.idEq 0) [(0, 3)], .createBtree 0 0]
    let fin := runOld s0 ops
    (fin.tables 0).map (scanAnswer · (.ge 0 0)) = some [(0, [3, 1])] ∧
    (fin.tables 0).map (select · (.ge 0 0)) = some [(0, [3, 1]), (0, [3, 1])] ∧
    ((run s0 ops).tables 0).map (select · (.ge 0 0)) = some [(0, [3, 1])] := by decide

/-- `TransactionManager::cleanup_expired` drops a timed-out transaction WITHOUT applying its undo
    log: its statements stay in the tables although it never committed (and `commit` then
    answers `TransactionNotFound`). -/
theorem tx_timeout_keeps_changes_witness :
    let ops : List Op := setupIdx ++ [.begin, .txUpdate 1 0 (.idEq 0) [(0, 4)], .tick 60001, .cleanupTxs]
    let fin := run s0 ops
    (runRes s0 ops).getLast? = some (.okN 1) ∧ fin.txs 1 = none ∧
    (fin.tables 0).map (scanAnswer · .all) = some [(0, [4, 1])] ∧ (commit fin 1).2 = .err .txNotFound := by decide


end Neumann.RelTx.Props
