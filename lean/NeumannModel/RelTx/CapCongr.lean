import NeumannModel.RelTx.CapLemmas
/-
  C09 — the undo machinery under the b-tree entry cap (`CapModel.lean`) and `select` cannot tell two tables
  apart that differ only in the ORDER of their index entry lists.

  `TabEq T T'`: same columns, rows, index columns; hash and b-tree entry lists permutations of each other.
  `TablesEq s s'`: same table names, tables `TabEq`.

  * `keyCount`, `hasKey`, hence the refusal condition of `btAddC`, only depend on the entries up to order;
    `idxAdd` / `idxRemove` map permutations to permutations;
  * one undo entry (`applyUndoTC`, `applyUndoC`) and a whole log (`foldl_applyUndoC_congr`) collect the same
    number of errors and leave tables that agree up to entry order;
  * `select` answers alike on both (`select_tabEq`): the index path only uses the multiplicity of an id
    among the candidates, the scan path only the rows.
-/
namespace Neumann.RelTx

/-- the same table up to the order of the index entries -/
structure TabEq (T T' : Table) : Prop where
  ncols : T'.ncols = T.ncols
  nullable : T'.nullable = T.nullable
  rows : T'.rows = T.rows
  hashOn : T'.hashOn = T.hashOn
  btreeOn : T'.btreeOn = T.btreeOn
  hashE : T'.hashE.Perm T.hashE
  btreeE : T'.btreeE.Perm T.btreeE

/-- two states with the same table names whose tables agree up to entry order -/
structure TablesEq (s s' : State) : Prop where
  ntables : s'.ntables = s.ntables
  tabs : ∀ k, (s.tables k = none ∧ s'.tables k = none) ∨
    ∃ T T', s.tables k = some T ∧ s'.tables k = some T' ∧ TabEq T T'

theorem tabEq_refl (T : Table) : TabEq T T :=
  ⟨rfl, rfl, rfl, rfl, rfl, List.Perm.refl _, List.Perm.refl _⟩

/-! ### the cap only sees the entries up to order -/

theorem keyCount_perm {es es' : List Entry} (h : es'.Perm es) : keyCount es' = keyCount es := by
  apply Nat.le_antisymm
  · apply keyCount_mono
    intro e he
    exact ⟨e, h.mem_iff.mp he, rfl⟩
  · apply keyCount_mono
    intro e he
    exact ⟨e, h.mem_iff.mpr he, rfl⟩

theorem hasKey_perm {es es' : List Entry} (h : es'.Perm es) (k : Nat × Val) : hasKey es' k = hasKey es k := by
  cases hk : hasKey es k with
  | true =>
    obtain ⟨e, he, hke⟩ := hasKey_true.mp hk
    exact hasKey_true.mpr ⟨e, h.mem_iff.mpr he, hke⟩
  | false =>
    rw [hasKey_false] at hk ⊢
    intro e he
    exact hk e (h.mem_iff.mp he)

theorem idxAdd_perm {es es' : List Entry} (e : Entry) (h : es'.Perm es) : (idxAdd e es').Perm (idxAdd e es) := by
  unfold idxAdd
  by_cases he : e ∈ es
  · rw [if_pos he, if_pos (h.mem_iff.mpr he)]
    exact h
  · have he' : e ∉ es' := fun x => he (h.mem_iff.mp x)
    rw [if_neg he, if_neg he']
    exact h.append_right [e]

theorem idxRemove_perm {es es' : List Entry} (e : Entry) (h : es'.Perm es) :
    (idxRemove e es').Perm (idxRemove e es) := by
  unfold idxRemove
  exact h.filter _

/-- `btree_index_add` refuses on both or on neither -/
theorem btAddC_perm {cap other : Nat} {es es' : List Entry} (e : Entry) (h : es'.Perm es) :
    (btAddC cap other e es' = none ∧ btAddC cap other e es = none) ∨
    (btAddC cap other e es' = some (idxAdd e es') ∧ btAddC cap other e es = some (idxAdd e es)) := by
  unfold btAddC
  rw [hasKey_perm h, keyCount_perm h]
  by_cases hc : (!hasKey es (ekey e) && decide (cap ≤ other + keyCount es)) = true
  · left
    rw [if_pos hc, if_pos hc]
    exact ⟨rfl, rfl⟩
  · right
    rw [if_neg hc, if_neg hc]
    exact ⟨rfl, rfl⟩

/-! ### folds over a recorded list -/

theorem foldl_perm {β : Type} (f : List Entry → β → List Entry)
    (hf : ∀ (es es' : List Entry) (b : β), es'.Perm es → (f es' b).Perm (f es b)) (l : List β) :
    ∀ (es es' : List Entry), es'.Perm es → (l.foldl f es').Perm (l.foldl f es) := by
  induction l with
  | nil => intro es es' h; exact h
  | cons b l ih =>
    intro es es' h
    rw [List.foldl_cons, List.foldl_cons]
    exact ih _ _ (hf es es' b h)

theorem foldl_permC {β : Type} (f : List Entry × Nat → β → List Entry × Nat)
    (hf : ∀ (a a' : List Entry × Nat) (b : β), a'.2 = a.2 → a'.1.Perm a.1 →
      (f a' b).2 = (f a b).2 ∧ (f a' b).1.Perm (f a b).1) (l : List β) :
    ∀ (a a' : List Entry × Nat), a'.2 = a.2 → a'.1.Perm a.1 →
      (l.foldl f a').2 = (l.foldl f a).2 ∧ (l.foldl f a').1.Perm (l.foldl f a).1 := by
  induction l with
  | nil => intro a a' h2 h1; exact ⟨h2, h1⟩
  | cons b l ih =>
    intro a a' h2 h1
    rw [List.foldl_cons, List.foldl_cons]
    obtain ⟨g2, g1⟩ := hf a a' b h2 h1
    exact ih _ _ g2 g1

theorem undoChange_perm (on : List Nat) (i : Nat) (es es' : List Entry) (p : Nat × Val × Val)
    (h : es'.Perm es) : (undoChange on i es' p).Perm (undoChange on i es p) := by
  unfold undoChange
  split
  · exact idxAdd_perm _ (idxRemove_perm _ h)
  · exact h

theorem undoReadd_perm (on : List Nat) (i : Nat) (es es' : List Entry) (p : Nat × Val)
    (h : es'.Perm es) : (undoReadd on i es' p).Perm (undoReadd on i es p) := by
  unfold undoReadd
  split
  · exact idxAdd_perm _ h
  · exact h

theorem undoChangeC_perm (cap other : Nat) (on : List Nat) (i : Nat) (a a' : List Entry × Nat)
    (p : Nat × Val × Val) (h2 : a'.2 = a.2) (h1 : a'.1.Perm a.1) :
    (undoChangeC cap other on i a' p).2 = (undoChangeC cap other on i a p).2 ∧
    (undoChangeC cap other on i a' p).1.Perm (undoChangeC cap other on i a p).1 := by
  unfold undoChangeC
  by_cases hp : p.1 ∈ on
  · rw [if_pos hp, if_pos hp]
    have hr := idxRemove_perm (p.1, p.2.2, i) h1
    rcases btAddC_perm (cap := cap) (other := other) (p.1, p.2.1, i) hr with ⟨e1, e2⟩ | ⟨e1, e2⟩
    · rw [e1, e2]
      dsimp only
      exact ⟨by rw [h2], hr⟩
    · rw [e1, e2]
      dsimp only
      exact ⟨h2, idxAdd_perm _ hr⟩
  · rw [if_neg hp, if_neg hp]
    exact ⟨h2, h1⟩

theorem undoReaddC_perm (cap other : Nat) (on : List Nat) (i : Nat) (a a' : List Entry × Nat)
    (p : Nat × Val) (h2 : a'.2 = a.2) (h1 : a'.1.Perm a.1) :
    (undoReaddC cap other on i a' p).2 = (undoReaddC cap other on i a p).2 ∧
    (undoReaddC cap other on i a' p).1.Perm (undoReaddC cap other on i a p).1 := by
  unfold undoReaddC
  by_cases hp : p.1 ∈ on
  · rw [if_pos hp, if_pos hp]
    rcases btAddC_perm (cap := cap) (other := other) (p.1, p.2, i) h1 with ⟨e1, e2⟩ | ⟨e1, e2⟩
    · rw [e1, e2]
      dsimp only
      exact ⟨by rw [h2], h1⟩
    · rw [e1, e2]
      dsimp only
      exact ⟨h2, idxAdd_perm _ h1⟩
  · rw [if_neg hp, if_neg hp]
    exact ⟨h2, h1⟩

/-! ### one undo entry on one table -/

theorem slabDelete_tabEq {T T' : Table} (h : TabEq T T') (i : Nat) : slabDelete T' i = slabDelete T i := by
  unfold slabDelete
  rw [h.rows]

theorem restoreRow_tabEq {T T' : Table} (h : TabEq T T') (i : Nat) (old : List Val) :
    restoreRow T' i old = restoreRow T i old := by
  unfold restoreRow
  rw [h.rows, h.ncols]

theorem restoreDeletedRow_tabEq {T T' : Table} (h : TabEq T T') (i : Nat) (old : List Val) :
    restoreDeletedRow T' i old = restoreDeletedRow T i old := by
  unfold restoreDeletedRow
  rw [h.rows, h.ncols]

/-- one undo entry on two tables that agree up to entry order: same error count, results agree up to entry order -/
theorem applyUndoTC_congr {cap other : Nat} {T T' : Table} (h : TabEq T T') (u : Undo) :
    (applyUndoTC cap other T' u).2 = (applyUndoTC cap other T u).2 ∧
    TabEq (applyUndoTC cap other T u).1 (applyUndoTC cap other T' u).1 := by
  cases u with
  | inserted t i idx =>
    simp only [applyUndoTC, applyUndoT]
    refine ⟨trivial, ⟨h.ncols, h.nullable, slabDelete_tabEq h i, h.hashOn, h.btreeOn, ?_, ?_⟩⟩
    · exact foldl_perm (fun es (p : Nat × Val) => idxRemove (p.1, p.2, i) es)
        (fun es es' b hp => idxRemove_perm _ hp) idx _ _ h.hashE
    · exact foldl_perm (fun es (p : Nat × Val) => idxRemove (p.1, p.2, i) es)
        (fun es es' b hp => idxRemove_perm _ hp) idx _ _ h.btreeE
  | updated t i old chg =>
    simp only [applyUndoTC]
    rw [restoreRow_tabEq h i old, h.rows, h.hashOn, h.btreeOn]
    obtain ⟨g2, g1⟩ := foldl_permC _ (undoChangeC_perm cap other T.btreeOn i) chg
      (T.btreeE, 0) (T'.btreeE, 0) rfl h.btreeE
    refine ⟨by rw [g2], ⟨h.ncols, h.nullable, rfl, rfl, rfl, ?_, g1⟩⟩
    exact foldl_perm _ (fun es es' b hp => undoChange_perm T.hashOn i es es' b hp) chg _ _ h.hashE
  | deleted t i old idx =>
    simp only [applyUndoTC]
    rw [restoreDeletedRow_tabEq h i old, h.rows, h.hashOn, h.btreeOn]
    obtain ⟨g2, g1⟩ := foldl_permC _ (undoReaddC_perm cap other T.btreeOn i) idx
      (T.btreeE, 0) (T'.btreeE, 0) rfl h.btreeE
    refine ⟨by rw [g2], ⟨h.ncols, h.nullable, rfl, rfl, rfl, ?_, g1⟩⟩
    exact foldl_perm _ (fun es es' b hp => undoReadd_perm T.hashOn i es es' b hp) idx _ _ h.hashE

/-! ### states -/

theorem tableKeys_tablesEq {s s' : State} (h : TablesEq s s') (k : Nat) : tableKeys s' k = tableKeys s k := by
  unfold tableKeys
  rcases h.tabs k with ⟨h1, h2⟩ | ⟨T, T', h1, h2, hT⟩
  · rw [h1, h2]
  · rw [h1, h2]
    exact keyCount_perm hT.btreeE

theorem otherKeys_tablesEq {s s' : State} (h : TablesEq s s') (t : Nat) : otherKeys s' t = otherKeys s t := by
  unfold otherKeys
  rw [h.ntables]
  congr 1
  apply List.map_congr_left
  intro k _
  exact tableKeys_tablesEq h k

theorem setTable_tablesEq {s s' : State} (h : TablesEq s s') (t : Nat) {X X' : Table} (hX : TabEq X X') :
    TablesEq (setTable s t X) (setTable s' t X') := by
  refine ⟨h.ntables, ?_⟩
  intro k
  rw [setTable_tables, setTable_tables]
  by_cases hk : k = t
  · rw [if_pos hk, if_pos hk]
    exact Or.inr ⟨X, X', rfl, rfl, hX⟩
  · rw [if_neg hk, if_neg hk]
    exact h.tabs k

theorem applyUndoC_congr {cap : Nat} {s s' : State} {n : Nat} (h : TablesEq s s') (u : Undo) :
    (applyUndoC cap (s', n) u).2 = (applyUndoC cap (s, n) u).2 ∧
    TablesEq (applyUndoC cap (s, n) u).1 (applyUndoC cap (s', n) u).1 := by
  unfold applyUndoC
  dsimp only
  rcases h.tabs u.table with ⟨h1, h2⟩ | ⟨T, T', h1, h2, hT⟩
  · rw [h1, h2]
    exact ⟨rfl, h⟩
  · rw [h1, h2]
    dsimp only
    rw [otherKeys_tablesEq h u.table]
    obtain ⟨g2, g1⟩ := applyUndoTC_congr (cap := cap) (other := otherKeys s u.table) hT u
    exact ⟨by rw [g2], setTable_tablesEq h u.table g1⟩

/-- a whole undo log -/
theorem foldl_applyUndoC_congr {cap : Nat} (log : List Undo) {s s' : State} {n : Nat} (h : TablesEq s s') :
    (log.foldl (applyUndoC cap) (s', n)).2 = (log.foldl (applyUndoC cap) (s, n)).2 ∧
    TablesEq (log.foldl (applyUndoC cap) (s, n)).1 (log.foldl (applyUndoC cap) (s', n)).1 := by
  induction log generalizing s s' n with
  | nil => exact ⟨rfl, h⟩
  | cons u log ih =>
    rw [List.foldl_cons, List.foldl_cons]
    obtain ⟨g2, g1⟩ := applyUndoC_congr (cap := cap) (n := n) h u
    have e' : applyUndoC cap (s', n) u = ((applyUndoC cap (s', n) u).1, (applyUndoC cap (s, n) u).2) := by
      rw [← g2]
    rw [e']
    exact ih (s := (applyUndoC cap (s, n) u).1) (s' := (applyUndoC cap (s', n) u).1)
      (n := (applyUndoC cap (s, n) u).2) g1

/-! ### queries -/

/-- two candidate lists: both absent, or present and equal up to order -/
def CandEq (o o' : Option (List Nat)) : Prop :=
  (o = none ∧ o' = none) ∨ ∃ l l', o = some l ∧ o' = some l' ∧ l'.Perm l

theorem hashCands_tabEq {T T' : Table} (h : TabEq T T') (c : Nat) (v : Val) :
    CandEq (hashCands T c v) (hashCands T' c v) := by
  unfold hashCands
  rw [h.hashOn]
  by_cases hc : c ∈ T.hashOn
  · rw [if_pos hc, if_pos hc]
    exact Or.inr ⟨_, _, rfl, rfl, (h.hashE.filter _).map _⟩
  · rw [if_neg hc, if_neg hc]
    exact Or.inl ⟨rfl, rfl⟩

theorem btCands_tabEq {T T' : Table} (h : TabEq T T') (c : Nat) (p : Val → Bool) :
    CandEq (btCands T c p) (btCands T' c p) := by
  unfold btCands
  rw [h.btreeOn]
  by_cases hc : c ∈ T.btreeOn
  · rw [if_pos hc, if_pos hc]
    exact Or.inr ⟨_, _, rfl, rfl, (h.btreeE.filter _).map _⟩
  · rw [if_neg hc, if_neg hc]
    exact Or.inl ⟨rfl, rfl⟩

theorem candidates_tabEq {T T' : Table} (h : TabEq T T') (c : Cond) :
    CandEq (candidates T c) (candidates T' c) := by
  induction c with
  | all => simp only [candidates]; exact Or.inl ⟨rfl, rfl⟩
  | idEq j => simp only [candidates]; exact Or.inl ⟨rfl, rfl⟩
  | eq c v => simp only [candidates]; exact hashCands_tabEq h c v
  | ne c v => simp only [candidates]; exact Or.inl ⟨rfl, rfl⟩
  | lt c v => simp only [candidates]; exact btCands_tabEq h c _
  | le c v => simp only [candidates]; exact btCands_tabEq h c _
  | gt c v => simp only [candidates]; exact btCands_tabEq h c _
  | ge c v => simp only [candidates]; exact btCands_tabEq h c _
  | and a b iha ihb =>
    rcases iha with ⟨h1, h2⟩ | ⟨l, l', h1, h2, hp⟩
    · simp only [candidates, h1, h2]
      exact ihb
    · simp only [candidates, h1, h2]
      exact Or.inr ⟨l, l', rfl, rfl, hp⟩
  | or a b _ _ => simp only [candidates]; exact Or.inl ⟨rfl, rfl⟩

theorem matching_tabEq {T T' : Table} (h : TabEq T T') (c : Cond) : matching T' c = matching T c := by
  unfold matching
  rw [h.rows]

theorem indexAnswer_tabEq {T T' : Table} (h : TabEq T T') (c : Cond) {l l' : List Nat} (hp : l'.Perm l) :
    indexAnswer T' c l' = indexAnswer T c l := by
  unfold indexAnswer
  rw [matching_tabEq h c, h.rows]
  congr 1
  funext i
  rw [hp.count_eq i]

/-- every query, through an index or by scan, answers alike -/
theorem select_tabEq {T T' : Table} (h : TabEq T T') (c : Cond) : select T' c = select T c := by
  unfold select
  rcases candidates_tabEq h c with ⟨h1, h2⟩ | ⟨l, l', h1, h2, hp⟩
  · rw [h1, h2]
    exact scanAnswer_congr h.rows c
  · rw [h1, h2]
    exact indexAnswer_tabEq h c hp

end Neumann.RelTx
