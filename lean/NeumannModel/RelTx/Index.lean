import NeumannModel.RelTx.Lemmas
/-
  C09 — the index invariant of the relational model.

  `IdxExact T`: the hash entries (resp. b-tree entries) of table `T` are duplicate free and are
  EXACTLY one entry `(c, value of column c, i)` for every indexed column `c` and every live row `i`
  — nothing for dead rows, nothing for columns whose index does not exist.  Every table-level
  effect of a statement (insert / update / delete of one row, the undo of one entry whose
  precondition holds, index creation and drop) preserves it, and under it every index-served
  `select` equals the full-scan answer.

  Proof device: an index is viewed slot-wise.  The slot `(c, i)` of an entry list is the set of keys
  `v` with `(c, v, i)` in the list; `idxAdd` / `idxRemove` of `(c, v, i)` touch the slot `(c, i)` only.
-/
namespace Neumann.RelTx

/-- the slot `(c, i)` of `es` holds exactly the key `o` (or nothing) -/
def slotIs (es : List Entry) (c i : Nat) (o : Option Val) : Prop := ∀ v, (c, v, i) ∈ es ↔ o = some v

/-- what the slot `(c, i)` of an index over the columns `on` must hold -/
def want (rows : List Row) (on : List Nat) (c i : Nat) : Option Val :=
  if c ∈ on then
    match rows[i]? with
    | some r => if r.alive then some (val r.vals c) else none
    | none => none
  else none

def ExactOn (rows : List Row) (on : List Nat) (es : List Entry) : Prop :=
  es.Nodup ∧ ∀ c i, slotIs es c i (want rows on c i)

def IdxExact (T : Table) : Prop :=
  ExactOn T.rows T.hashOn T.hashE ∧ ExactOn T.rows T.btreeOn T.btreeE

/-- the `index_changes` list `tx_update` records for a row with values `old` -/
def mkChg (on : List Nat) (upd : List (Nat × Val)) (old : List Val) : List (Nat × Val × Val) :=
  on.filterMap fun c => match updGet upd c with | some n => some (c, val old c, n) | none => none

/-- what the undo of entry `u` expects of the row `r` it names (`on` = the indexed columns, hash
    then b-tree, as recorded by the statement) -/
def undoPre (ncols : Nat) (on : List Nat) (u : Undo) (r : Row) : Prop :=
  match u with
  | .inserted _ _ idx => idx = on.map (fun c => (c, val r.vals c))
  | .updated _ _ old chg => r.alive = true ∧ old.length = ncols ∧
      ∃ upd, (∀ p ∈ upd, p.1 < ncols) ∧ chg = mkChg on upd old ∧ r.vals = applyUpd upd old
  | .deleted _ _ old idx => r.alive = false ∧ old.length = ncols ∧ idx = on.map (fun c => (c, val old c))

/-- the table `tx_insert` leaves -/
def insertT (T : Table) (vals : List Val) : Table :=
  { T with rows := T.rows ++ [{ alive := true, vals := vals }]
           hashE := T.hashOn.foldl (fun es c => idxAdd (c, val vals c, T.rows.length) es) T.hashE
           btreeE := T.btreeOn.foldl (fun es c => idxAdd (c, val vals c, T.rows.length) es) T.btreeE }

/-- the table the per-row body of `tx_update` leaves -/
def updateT (T : Table) (i : Nat) (r : Row) (upd : List (Nat × Val)) : Table :=
  let step := fun (es : List Entry) (c : Nat) =>
    match updGet upd c with
    | some n => idxAdd (c, n, i) (idxRemove (c, val r.vals c, i) es)
    | none => es
  { T with
    hashE := T.hashOn.foldl step T.hashE
    btreeE := T.btreeOn.foldl step T.btreeE
    rows := T.rows.set i { r with vals := applyUpd upd r.vals } }

/-- the table the per-row body of `tx_delete` leaves -/
def deleteT (T : Table) (i : Nat) (r : Row) : Table :=
  { T with
    hashE := T.hashOn.foldl (fun es c => idxRemove (c, val r.vals c, i) es) T.hashE
    btreeE := T.btreeOn.foldl (fun es c => idxRemove (c, val r.vals c, i) es) T.btreeE
    rows := T.rows.set i { r with alive := false } }

/-! ## helper lemmas -/

/-! ### entry-list primitives -/

theorem mem_idxAdd {x e : Entry} {es : List Entry} : x ∈ idxAdd e es ↔ x = e ∨ x ∈ es := by
  unfold idxAdd
  split
  · constructor
    · intro h; exact Or.inr h
    · rintro (h | h)
      · subst h; assumption
      · exact h
  · simp only [List.mem_append, List.mem_singleton]
    constructor
    · rintro (h | h)
      · exact Or.inr h
      · exact Or.inl h
    · rintro (h | h)
      · exact Or.inr h
      · exact Or.inl h

theorem nodup_idxAdd {e : Entry} {es : List Entry} (h : es.Nodup) : (idxAdd e es).Nodup := by
  unfold idxAdd
  split
  · exact h
  · rename_i hne
    rw [List.nodup_append]
    refine ⟨h, List.nodup_cons.mpr ⟨List.not_mem_nil, List.nodup_nil⟩, ?_⟩
    intro a ha b hb
    rw [List.mem_singleton] at hb
    subst hb
    intro hab
    subst hab
    exact hne ha

theorem mem_idxRemove {x e : Entry} {es : List Entry} : x ∈ idxRemove e es ↔ x ∈ es ∧ x ≠ e := by
  unfold idxRemove
  simp only [List.mem_filter, decide_eq_true_eq]

theorem nodup_idxRemove {e : Entry} {es : List Entry} (h : es.Nodup) : (idxRemove e es).Nodup :=
  List.Nodup.sublist List.filter_sublist h

theorem mem_idxDropCol {x : Entry} {c : Nat} {es : List Entry} : x ∈ idxDropCol c es ↔ x ∈ es ∧ x.1 ≠ c := by
  unfold idxDropCol
  simp only [List.mem_filter, decide_eq_true_eq]

/-! ### slots -/

theorem slot_add {es : List Entry} {c i : Nat} {o : Option Val} {v : Val}
    (h : slotIs es c i o) (ho : o = none ∨ o = some v) : slotIs (idxAdd (c, v, i) es) c i (some v) := by
  intro w
  rw [mem_idxAdd, h w]
  constructor
  · rintro (h1 | h1)
    · simp only [Prod.mk.injEq, true_and, and_true] at h1
      rw [h1]
    · rcases ho with ho | ho
      · rw [ho] at h1; cases h1
      · rw [← ho]; exact h1
  · intro h1
    left
    simp only [Option.some.injEq] at h1
    rw [h1]

theorem slot_remove_self {es : List Entry} {c i : Nat} {o : Option Val} {v : Val}
    (h : slotIs es c i o) (ho : o = none ∨ o = some v) : slotIs (idxRemove (c, v, i) es) c i none := by
  intro w
  rw [mem_idxRemove, h w]
  constructor
  · rintro ⟨h1, h2⟩
    rcases ho with ho | ho
    · rw [ho] at h1; cases h1
    · rw [ho] at h1
      simp only [Option.some.injEq] at h1
      subst h1
      exact absurd rfl h2
  · intro h1; cases h1

theorem slot_remove_ne {es : List Entry} {c i : Nat} {v w : Val}
    (h : slotIs es c i (some w)) (hne : w ≠ v) : slotIs (idxRemove (c, v, i) es) c i (some w) := by
  intro u
  rw [mem_idxRemove, h u]
  constructor
  · rintro ⟨h1, _⟩; exact h1
  · intro h1
    refine ⟨h1, ?_⟩
    simp only [Option.some.injEq] at h1
    subst h1
    intro h2
    simp only [Prod.mk.injEq, true_and, and_true] at h2
    exact hne h2

/-- `index_remove old; index_add new` on a slot that holds `old` or `new` -/
theorem slot_swap {es : List Entry} {c i : Nat} {o : Option Val} {a b : Val}
    (h : slotIs es c i o) (ho : o = some a ∨ o = some b) :
    slotIs (idxAdd (c, b, i) (idxRemove (c, a, i) es)) c i (some b) := by
  rcases ho with ho | ho
  · subst ho
    exact slot_add (slot_remove_self h (Or.inr rfl)) (Or.inl rfl)
  · subst ho
    by_cases hab : b = a
    · subst hab
      exact slot_add (slot_remove_self h (Or.inr rfl)) (Or.inl rfl)
    · exact slot_add (slot_remove_ne h hab) (Or.inr rfl)

theorem add_other {es : List Entry} {c c' i i' : Nat} {v v' : Val} (hne : ¬(c' = c ∧ i' = i)) :
    (c', v', i') ∈ idxAdd (c, v, i) es ↔ (c', v', i') ∈ es := by
  rw [mem_idxAdd]
  constructor
  · rintro (h | h)
    · simp only [Prod.mk.injEq] at h
      exact absurd ⟨h.1, h.2.2⟩ hne
    · exact h
  · intro h; exact Or.inr h

theorem remove_other {es : List Entry} {c c' i i' : Nat} {v v' : Val} (hne : ¬(c' = c ∧ i' = i)) :
    (c', v', i') ∈ idxRemove (c, v, i) es ↔ (c', v', i') ∈ es := by
  rw [mem_idxRemove]
  constructor
  · rintro ⟨h, _⟩; exact h
  · intro h
    refine ⟨h, ?_⟩
    intro h2
    simp only [Prod.mk.injEq] at h2
    exact hne ⟨h2.1, h2.2.2⟩

/-! ### folds -/

theorem fold_nodup {α : Type} (g : List Entry → α → List Entry) (items : List α) (es : List Entry)
    (hN : ∀ a ∈ items, ∀ es, es.Nodup → (g es a).Nodup) (h : es.Nodup) : (items.foldl g es).Nodup := by
  induction items generalizing es with
  | nil => exact h
  | cons a rest ih =>
    rw [List.foldl_cons]
    apply ih
    · intro b hb; exact hN b (List.mem_cons_of_mem _ hb)
    · exact hN a List.mem_cons_self es h

theorem fold_untouched {α : Type} (g : List Entry → α → List Entry) (items : List α) (es : List Entry)
    (x : Entry) (hO : ∀ a ∈ items, ∀ es, x ∈ g es a ↔ x ∈ es) : x ∈ items.foldl g es ↔ x ∈ es := by
  induction items generalizing es with
  | nil => exact Iff.rfl
  | cons a rest ih =>
    rw [List.foldl_cons, ih _ (fun b hb => hO b (List.mem_cons_of_mem _ hb))]
    exact hO a List.mem_cons_self es

theorem fold_slot {α : Type} (g : List Entry → α → List Entry) (c i : Nat) (hits : α → Prop)
    (s d : Option Val) (items : List α) (es : List Entry) (o : Option Val)
    (hO : ∀ a ∈ items, ¬ hits a → ∀ es v, (c, v, i) ∈ g es a ↔ (c, v, i) ∈ es)
    (hS : ∀ a ∈ items, hits a → ∀ es o, slotIs es c i o → (o = s ∨ o = d) → slotIs (g es a) c i d)
    (h : slotIs es c i o) (ho : o = d ∨ (o = s ∧ ∃ a ∈ items, hits a)) :
    slotIs (items.foldl g es) c i d := by
  induction items generalizing es o with
  | nil =>
    rcases ho with ho | ⟨_, a, ha, _⟩
    · subst ho; exact h
    · cases ha
  | cons a rest ih =>
    rw [List.foldl_cons]
    have hO' : ∀ b ∈ rest, ¬ hits b → ∀ es v, (c, v, i) ∈ g es b ↔ (c, v, i) ∈ es :=
      fun b hb => hO b (List.mem_cons_of_mem _ hb)
    have hS' : ∀ b ∈ rest, hits b → ∀ es o, slotIs es c i o → (o = s ∨ o = d) → slotIs (g es b) c i d :=
      fun b hb => hS b (List.mem_cons_of_mem _ hb)
    by_cases hh : hits a
    · have h1 : slotIs (g es a) c i d := by
        apply hS a List.mem_cons_self hh es o h
        rcases ho with ho | ⟨ho, _⟩
        · exact Or.inr ho
        · exact Or.inl ho
      exact ih (g es a) d hO' hS' h1 (Or.inl rfl)
    · have h1 : slotIs (g es a) c i o := by
        intro v
        rw [hO a List.mem_cons_self hh es v]
        exact h v
      apply ih (g es a) o hO' hS' h1
      rcases ho with ho | ⟨ho, b, hb, hhb⟩
      · exact Or.inl ho
      · right
        refine ⟨ho, ?_⟩
        rcases List.mem_cons.mp hb with hb | hb
        · subst hb; exact absurd hhb hh
        · exact ⟨b, hb, hhb⟩

/-- the general preservation scheme: a fold of slot-local steps takes an exact index to an exact index -/
theorem exactOn_fold {α : Type} (g : List Entry → α → List Entry) (hits : α → Nat → Nat → Prop)
    (src dst : Nat → Nat → Option Val) (items : List α)
    (rows rows' : List Row) (on on' : List Nat) (es : List Entry)
    (hN : ∀ a ∈ items, ∀ es, es.Nodup → (g es a).Nodup)
    (hO : ∀ a ∈ items, ∀ c i, ¬ hits a c i → ∀ es v, (c, v, i) ∈ g es a ↔ (c, v, i) ∈ es)
    (hS : ∀ a ∈ items, ∀ c i, hits a c i → ∀ es o, slotIs es c i o → (o = src c i ∨ o = dst c i) →
      slotIs (g es a) c i (dst c i))
    (hW1 : ∀ c i, (∃ a ∈ items, hits a c i) →
      (want rows on c i = src c i ∨ want rows on c i = dst c i) ∧ want rows' on' c i = dst c i)
    (hW2 : ∀ c i, (¬ ∃ a ∈ items, hits a c i) → want rows' on' c i = want rows on c i)
    (h : ExactOn rows on es) : ExactOn rows' on' (items.foldl g es) := by
  refine ⟨fold_nodup g items es hN h.1, ?_⟩
  intro c i
  by_cases hh : ∃ a ∈ items, hits a c i
  · obtain ⟨hw, hw'⟩ := hW1 c i hh
    rw [hw']
    apply fold_slot g c i (fun a => hits a c i) (src c i) (dst c i) items es (want rows on c i)
      (fun a ha => hO a ha c i) (fun a ha => hS a ha c i) (h.2 c i)
    rcases hw with hw | hw
    · exact Or.inr ⟨hw, hh⟩
    · exact Or.inl hw
  · rw [hW2 c i hh]
    intro v
    rw [fold_untouched g items es (c, v, i)]
    · exact h.2 c i v
    · intro a ha es
      apply hO a ha c i
      intro hc
      exact hh ⟨a, ha, hc⟩

/-! ### `want` under row changes -/

theorem want_notin {rows : List Row} {on : List Nat} {c i : Nat} (hc : c ∉ on) : want rows on c i = none := by
  unfold want; rw [if_neg hc]

theorem want_of_row {rows : List Row} {on : List Nat} {c i : Nat} {r : Row} (hr : rows[i]? = some r) :
    want rows on c i = if c ∈ on then (if r.alive then some (val r.vals c) else none) else none := by
  unfold want; rw [hr]

theorem want_of_none {rows : List Row} {on : List Nat} {c i : Nat} (hr : rows[i]? = none) :
    want rows on c i = none := by
  unfold want; rw [hr]; split <;> rfl

theorem want_congr {rows rows' : List Row} {on : List Nat} {c i : Nat} (hr : rows'[i]? = rows[i]?) :
    want rows' on c i = want rows on c i := by
  unfold want; rw [hr]

theorem set_self {rows : List Row} {i : Nat} {r x : Row} (hr : rows[i]? = some r) : (rows.set i x)[i]? = some x := by
  have hlt : i < rows.length := by
    rcases Nat.lt_or_ge i rows.length with h | h
    · exact h
    · rw [List.getElem?_eq_none h] at hr; cases hr
  rw [List.getElem?_set, if_pos rfl, if_pos hlt]

theorem set_ne {rows : List Row} {i j : Nat} {x : Row} (hne : j ≠ i) : (rows.set i x)[j]? = rows[j]? := by
  rw [List.getElem?_set, if_neg (fun e => hne e.symm)]

/-! ### `applyUpd` -/

theorem getElem?_applyUpdFrom (upd : List (Nat × Val)) (k : Nat) (vals : List Val) (j : Nat) :
    (applyUpdFrom upd k vals)[j]? =
      vals[j]?.map (fun v => match updGet upd (k + j) with | some n => n | none => v) := by
  induction vals generalizing k j with
  | nil => rw [applyUpdFrom]; rfl
  | cons v vs ih =>
    rw [applyUpdFrom]
    cases j with
    | zero => rfl
    | succ j =>
      rw [List.getElem?_cons_succ, List.getElem?_cons_succ, ih (k + 1) j]
      have : k + 1 + j = k + (j + 1) := by omega
      rw [this]

theorem val_applyUpd_some {upd : List (Nat × Val)} {vals : List Val} {c : Nat} {n : Val}
    (h : updGet upd c = some n) (hc : c < vals.length) : val (applyUpd upd vals) c = n := by
  unfold val applyUpd
  rw [List.getD_eq_getElem?_getD, getElem?_applyUpdFrom, Nat.zero_add, h, List.getElem?_eq_getElem hc]
  rfl

theorem val_applyUpd_none {upd : List (Nat × Val)} {vals : List Val} {c : Nat}
    (h : updGet upd c = none) : val (applyUpd upd vals) c = val vals c := by
  unfold val applyUpd
  rw [List.getD_eq_getElem?_getD, List.getD_eq_getElem?_getD, getElem?_applyUpdFrom, Nat.zero_add, h]
  cases vals[c]? <;> rfl

theorem updGet_some_mem {upd : List (Nat × Val)} {c : Nat} {n : Val} (h : updGet upd c = some n) :
    (c, n) ∈ upd := by
  induction upd with
  | nil => rw [updGet] at h; cases h
  | cons p rest ih =>
    obtain ⟨c', v⟩ := p
    rw [updGet] at h
    split at h
    · rename_i hc
      cases h
      subst hc
      exact List.mem_cons_self
    · exact List.mem_cons_of_mem _ (ih h)

/-! ### the statements, one index at a time -/

theorem exactOn_insert {rows : List Row} {on : List Nat} {es : List Entry} (vals : List Val)
    (h : ExactOn rows on es) :
    ExactOn (rows ++ [{ alive := true, vals := vals }]) on
      (on.foldl (fun es c => idxAdd (c, val vals c, rows.length) es) es) := by
  apply exactOn_fold (fun es c => idxAdd (c, val vals c, rows.length) es)
    (fun a c i => a = c ∧ i = rows.length) (fun _ _ => none) (fun c _ => some (val vals c)) on rows _ on on es
    _ _ _ _ _ h
  · intro a _ es hes; exact nodup_idxAdd hes
  · intro a _ c i hh es v; exact add_other (fun ⟨h1, h2⟩ => hh ⟨h1.symm, h2⟩)
  · rintro a _ c i ⟨rfl, rfl⟩ es o ho hoo
    exact slot_add ho hoo
  · rintro c i ⟨a, ha, rfl, rfl⟩
    constructor
    · left; exact want_of_none (List.getElem?_eq_none (Nat.le_refl _))
    · rw [want_of_row (r := { alive := true, vals := vals }), if_pos ha]
      · rfl
      · rw [List.getElem?_append, if_neg (Nat.lt_irrefl _), Nat.sub_self]; rfl
  · intro c i hh
    by_cases hc : c ∈ on
    · have hi : i ≠ rows.length := fun e => hh ⟨c, hc, rfl, e⟩
      apply want_congr
      rw [List.getElem?_append]
      split
      · rfl
      · rename_i hlt
        have h1 : rows.length ≤ i := Nat.le_of_not_lt hlt
        rw [List.getElem?_eq_none h1]
        apply List.getElem?_eq_none
        simp only [List.length_cons, List.length_nil]
        omega
    · rw [want_notin hc, want_notin hc]

theorem exactOn_delete {rows : List Row} {on : List Nat} {es : List Entry} {i0 : Nat} {r : Row}
    (hr : rows[i0]? = some r) (h : ExactOn rows on es) :
    ExactOn (rows.set i0 { r with alive := false }) on
      (on.foldl (fun es c => idxRemove (c, val r.vals c, i0) es) es) := by
  apply exactOn_fold (fun es c => idxRemove (c, val r.vals c, i0) es)
    (fun a c i => a = c ∧ i = i0) (fun c _ => some (val r.vals c)) (fun _ _ => none) on rows _ on on es
    _ _ _ _ _ h
  · intro a _ es hes; exact nodup_idxRemove hes
  · intro a _ c i hh es v; exact remove_other (fun ⟨h1, h2⟩ => hh ⟨h1.symm, h2⟩)
  · rintro a _ c i ⟨rfl, rfl⟩ es o ho hoo
    exact slot_remove_self ho (hoo.symm)
  · rintro c i ⟨a, ha, rfl, rfl⟩
    constructor
    · rw [want_of_row hr, if_pos ha]
      cases r.alive
      · right; rfl
      · left; rfl
    · rw [want_of_row (set_self hr), if_pos ha]; rfl
  · intro c i hh
    by_cases hc : c ∈ on
    · have hi : i ≠ i0 := fun e => hh ⟨c, hc, rfl, e⟩
      exact want_congr (set_ne hi)
    · rw [want_notin hc, want_notin hc]

theorem exactOn_update {rows : List Row} {on : List Nat} {es : List Entry} {i0 : Nat} {r : Row}
    (upd : List (Nat × Val)) (hr : rows[i0]? = some r) (ha : r.alive = true)
    (hupd : ∀ p ∈ upd, p.1 < r.vals.length) (h : ExactOn rows on es) :
    ExactOn (rows.set i0 { r with vals := applyUpd upd r.vals }) on
      (on.foldl (fun (es : List Entry) (c : Nat) =>
        match updGet upd c with
        | some n => idxAdd (c, n, i0) (idxRemove (c, val r.vals c, i0) es)
        | none => es) es) := by
  apply exactOn_fold _
    (fun a c i => a = c ∧ i = i0 ∧ (updGet upd c).isSome) (fun c _ => some (val r.vals c))
    (fun c _ => updGet upd c) on rows _ on on es
    _ _ _ _ _ h
  · intro a _ es hes
    split
    · exact nodup_idxAdd (nodup_idxRemove hes)
    · exact hes
  · intro a _ c i hh es v
    split
    · rename_i n hn
      have hne : ¬(c = a ∧ i = i0) := by
        rintro ⟨h1, h2⟩
        subst h1
        exact hh ⟨rfl, h2, by rw [hn]; rfl⟩
      rw [add_other hne, remove_other hne]
    · exact Iff.rfl
  · rintro a _ c i ⟨rfl, rfl, hs⟩ es o ho hoo
    split
    · rename_i n hn
      rw [hn] at hoo ⊢
      exact slot_swap ho hoo
    · rename_i hn
      rw [hn] at hs; cases hs
  · rintro c i ⟨a, hmem, rfl, rfl, hs⟩
    constructor
    · left
      rw [want_of_row hr, if_pos hmem, if_pos ha]
    · rw [want_of_row (set_self hr), if_pos hmem, if_pos ha]
      cases hn : updGet upd a with
      | none => rw [hn] at hs; cases hs
      | some n =>
        dsimp only
        rw [val_applyUpd_some hn (hupd _ (updGet_some_mem hn))]
  · intro c i hh
    by_cases hc : c ∈ on
    · by_cases hi : i = i0
      · subst hi
        have hn : updGet upd c = none := by
          cases hn : updGet upd c with
          | none => rfl
          | some n => exact absurd ⟨c, hc, rfl, rfl, by rw [hn]; rfl⟩ hh
        rw [want_of_row hr, want_of_row (set_self hr)]
        dsimp only
        rw [val_applyUpd_none hn]
      · exact want_congr (set_ne hi)
    · rw [want_notin hc, want_notin hc]

theorem mem_mkChg {on : List Nat} {upd : List (Nat × Val)} {old : List Val} {p : Nat × Val × Val} :
    p ∈ mkChg on upd old ↔ ∃ c ∈ on, ∃ n, updGet upd c = some n ∧ p = (c, val old c, n) := by
  unfold mkChg
  rw [List.mem_filterMap]
  constructor
  · rintro ⟨c, hc, h⟩
    split at h
    · rename_i n hn
      cases h
      exact ⟨c, hc, n, hn, rfl⟩
    · cases h
  · rintro ⟨c, hc, n, hn, rfl⟩
    refine ⟨c, hc, ?_⟩
    rw [hn]

theorem exactOn_undoInserted {rows rows' : List Row} {on all : List Nat} {es : List Entry} {i0 : Nat} {r : Row}
    (hr : rows[i0]? = some r) (hself : rows'[i0]? = some { r with alive := false })
    (hother : ∀ i, i ≠ i0 → rows'[i]? = rows[i]?) (hsub : ∀ c ∈ on, c ∈ all) (h : ExactOn rows on es) :
    ExactOn rows' on
      ((all.map fun c => (c, val r.vals c)).foldl (fun es (p : Nat × Val) => idxRemove (p.1, p.2, i0) es) es) := by
  apply exactOn_fold _
    (fun (p : Nat × Val) c i => p.1 = c ∧ i = i0) (fun c _ => some (val r.vals c)) (fun _ _ => none)
    _ rows rows' on on es _ _ _ _ _ h
  · intro a _ es hes; exact nodup_idxRemove hes
  · intro a _ c i hh es v; exact remove_other (fun ⟨h1, h2⟩ => hh ⟨h1.symm, h2⟩)
  · rintro p hp c i ⟨rfl, rfl⟩ es o ho hoo
    obtain ⟨a, _, rfl⟩ := List.mem_map.mp hp
    exact slot_remove_self ho hoo.symm
  · rintro c i ⟨p, _, rfl, rfl⟩
    constructor
    · rw [want_of_row hr]
      split
      · cases r.alive
        · right; rfl
        · left; rfl
      · right; rfl
    · rw [want_of_row hself]
      split <;> rfl
  · intro c i hh
    by_cases hc : c ∈ on
    · have hi : i ≠ i0 := fun e =>
        hh ⟨(c, val r.vals c), List.mem_map.mpr ⟨c, hsub c hc, rfl⟩, rfl, e⟩
      exact want_congr (hother i hi)
    · rw [want_notin hc, want_notin hc]

theorem exactOn_undoUpdated {rows rows' : List Row} {on all : List Nat} {es : List Entry} {i0 : Nat} {r : Row}
    {old : List Val} (upd : List (Nat × Val))
    (hr : rows[i0]? = some r) (ha : r.alive = true) (hself : rows'[i0]? = some { r with vals := old })
    (hother : ∀ i, i ≠ i0 → rows'[i]? = rows[i]?) (hsub : ∀ c ∈ on, c ∈ all)
    (hupd : ∀ p ∈ upd, p.1 < old.length) (hvals : r.vals = applyUpd upd old) (h : ExactOn rows on es) :
    ExactOn rows' on ((mkChg all upd old).foldl (undoChange on i0) es) := by
  apply exactOn_fold _
    (fun (p : Nat × Val × Val) c i => p.1 = c ∧ i = i0 ∧ c ∈ on) (fun c _ => some (val r.vals c))
    (fun c _ => some (val old c))
    _ rows rows' on on es _ _ _ _ _ h
  · intro p _ es hes
    unfold undoChange
    split
    · exact nodup_idxAdd (nodup_idxRemove hes)
    · exact hes
  · intro p _ c i hh es v
    unfold undoChange
    split
    · rename_i hon
      have hne : ¬(c = p.1 ∧ i = i0) := by
        rintro ⟨h1, h2⟩
        exact hh ⟨h1.symm, h2, h1 ▸ hon⟩
      rw [add_other hne, remove_other hne]
    · exact Iff.rfl
  · rintro p hp c i ⟨rfl, rfl, hon⟩ es o ho hoo
    obtain ⟨a, _, n, hn, rfl⟩ := mem_mkChg.mp hp
    unfold undoChange
    rw [if_pos hon]
    have hv : val r.vals a = n := by
      rw [hvals]; exact val_applyUpd_some hn (hupd _ (updGet_some_mem hn))
    dsimp only at hoo ⊢
    rw [hv] at hoo
    exact slot_swap ho hoo
  · rintro c i ⟨p, _, rfl, rfl, hon⟩
    constructor
    · left
      rw [want_of_row hr, if_pos hon, if_pos ha]
    · rw [want_of_row hself, if_pos hon, if_pos ha]
  · intro c i hh
    by_cases hc : c ∈ on
    · by_cases hi : i = i0
      · subst hi
        have hn : updGet upd c = none := by
          cases hn : updGet upd c with
          | none => rfl
          | some n =>
            exact absurd ⟨(c, val old c, n), mem_mkChg.mpr ⟨c, hsub c hc, n, hn, rfl⟩, rfl, rfl, hc⟩ hh
        rw [want_of_row hr, want_of_row hself]
        dsimp only
        rw [hvals, val_applyUpd_none hn]
      · exact want_congr (hother i hi)
    · rw [want_notin hc, want_notin hc]

theorem exactOn_undoDeleted {rows rows' : List Row} {on all : List Nat} {es : List Entry} {i0 : Nat} {r : Row}
    {old : List Val}
    (hr : rows[i0]? = some r) (ha : r.alive = false) (hself : rows'[i0]? = some { alive := true, vals := old })
    (hother : ∀ i, i ≠ i0 → rows'[i]? = rows[i]?) (hsub : ∀ c ∈ on, c ∈ all) (h : ExactOn rows on es) :
    ExactOn rows' on ((all.map fun c => (c, val old c)).foldl (undoReadd on i0) es) := by
  apply exactOn_fold _
    (fun (p : Nat × Val) c i => p.1 = c ∧ i = i0 ∧ c ∈ on) (fun _ _ => none)
    (fun c _ => some (val old c))
    _ rows rows' on on es _ _ _ _ _ h
  · intro p _ es hes
    unfold undoReadd
    split
    · exact nodup_idxAdd hes
    · exact hes
  · intro p _ c i hh es v
    unfold undoReadd
    split
    · rename_i hon
      have hne : ¬(c = p.1 ∧ i = i0) := by
        rintro ⟨h1, h2⟩
        exact hh ⟨h1.symm, h2, h1 ▸ hon⟩
      rw [add_other hne]
    · exact Iff.rfl
  · rintro p hp c i ⟨rfl, rfl, hon⟩ es o ho hoo
    obtain ⟨a, _, rfl⟩ := List.mem_map.mp hp
    unfold undoReadd
    rw [if_pos hon]
    exact slot_add ho hoo
  · rintro c i ⟨p, _, rfl, rfl, hon⟩
    constructor
    · left
      rw [want_of_row hr, if_pos hon, ha]; rfl
    · rw [want_of_row hself, if_pos hon]; rfl
  · intro c i hh
    by_cases hc : c ∈ on
    · have hi : i ≠ i0 := fun e =>
        hh ⟨(c, val old c), List.mem_map.mpr ⟨c, hsub c hc, rfl⟩, rfl, e, hc⟩
      exact want_congr (hother i hi)
    · rw [want_notin hc, want_notin hc]

theorem mem_matching {T : Table} {cond : Cond} {i : Nat} :
    i ∈ matching T cond ↔ ∃ r, T.rows[i]? = some r ∧ r.alive = true ∧ evalCond cond i r.vals = true := by
  unfold matching
  rw [List.mem_filter, List.mem_range]
  constructor
  · rintro ⟨_, h⟩
    split at h
    · rename_i r hr
      rw [Bool.and_eq_true] at h
      exact ⟨r, hr, h.1, h.2⟩
    · cases h
  · rintro ⟨r, hr, ha, he⟩
    constructor
    · rcases Nat.lt_or_ge i T.rows.length with h | h
      · exact h
      · rw [List.getElem?_eq_none h] at hr; cases hr
    · rw [hr]
      dsimp only
      rw [ha, he]; rfl

theorem exactOn_buildCol {T : Table} {on : List Nat} {es : List Entry} {c0 : Nat} (hc0 : c0 ∉ on)
    (h : ExactOn T.rows on es) : ExactOn T.rows (on ++ [c0]) (buildCol T c0 es) := by
  unfold buildCol
  apply exactOn_fold _
    (fun (a : Nat) c i => a = i ∧ c = c0) (fun _ _ => none) (fun c i => want T.rows (on ++ [c0]) c i)
    _ T.rows T.rows on (on ++ [c0]) es _ _ _ _ _ h
  · intro a _ es hes
    split
    · exact nodup_idxAdd hes
    · exact hes
  · intro a _ c i hh es v
    split
    · exact add_other (fun ⟨h1, h2⟩ => hh ⟨h2.symm, h1⟩)
    · exact Iff.rfl
  · rintro a hmem c i ⟨rfl, rfl⟩ es o ho hoo
    obtain ⟨r, hr, ha, _⟩ := mem_matching.mp hmem
    have hw : want T.rows (on ++ [c]) c a = some (val r.vals c) := by
      rw [want_of_row hr, if_pos (List.mem_append_right _ List.mem_cons_self), if_pos ha]
    rw [hw] at hoo ⊢
    rw [hr]
    exact slot_add ho hoo
  · rintro c i ⟨a, _, rfl, rfl⟩
    exact ⟨Or.inl (want_notin hc0), rfl⟩
  · intro c i hh
    by_cases hc : c = c0
    · subst hc
      rw [want_notin hc0]
      cases hr : T.rows[i]? with
      | none => exact want_of_none hr
      | some r =>
        rw [want_of_row hr]
        have ha : r.alive = false := by
          cases ha : r.alive with
          | false => rfl
          | true => exact absurd ⟨i, mem_matching.mpr ⟨r, hr, ha, rfl⟩, rfl, rfl⟩ hh
        rw [ha]
        split <;> rfl
    · unfold want
      simp only [List.mem_append, List.mem_singleton, hc, or_false]

theorem exactOn_dropCol {rows : List Row} {on : List Nat} {es : List Entry} (c0 : Nat)
    (h : ExactOn rows on es) : ExactOn rows (on.filter (· ≠ c0)) (idxDropCol c0 es) := by
  refine ⟨List.Nodup.sublist List.filter_sublist h.1, ?_⟩
  intro c i v
  rw [mem_idxDropCol]
  by_cases hc : c = c0
  · subst hc
    have : c ∉ on.filter (· ≠ c) := by
      intro hm
      rw [List.mem_filter, decide_eq_true_eq] at hm
      exact hm.2 rfl
    rw [want_notin this]
    constructor
    · rintro ⟨_, h2⟩; exact absurd rfl h2
    · intro h1; cases h1
  · have hw : want rows (on.filter (· ≠ c0)) c i = want rows on c i := by
      unfold want
      simp only [List.mem_filter, decide_eq_true_eq, ne_eq, hc, not_false_eq_true, and_true]
    rw [hw, ← h.2 c i v]
    constructor
    · rintro ⟨h1, _⟩; exact h1
    · intro h1; exact ⟨h1, hc⟩

/-! ### select -/

theorem flatMap_eq_filterMap (T : Table) (cands : List Nat) (l : List Nat)
    (h : ∀ i ∈ l, cands.count i = 1) :
    (l.flatMap fun i =>
      match T.rows[i]? with
      | some r => List.replicate (cands.count i) (i, r.vals)
      | none => []) = l.filterMap fun i => (T.rows[i]?).map fun r => (i, r.vals) := by
  induction l with
  | nil => rfl
  | cons a rest ih =>
    rw [List.flatMap_cons, List.filterMap_cons, ih (fun i hi => h i (List.mem_cons_of_mem _ hi)),
      h a List.mem_cons_self]
    cases T.rows[a]? with
    | none => rfl
    | some r => rfl

theorem indexAnswer_eq_scan (T : Table) (cond : Cond) (cands : List Nat)
    (h : ∀ i ∈ matching T cond, cands.count i = 1) : indexAnswer T cond cands = scanAnswer T cond := by
  unfold indexAnswer scanAnswer
  exact flatMap_eq_filterMap T cands _ h

theorem count_cands {rows : List Row} {on : List Nat} {es : List Entry} (h : ExactOn rows on es)
    {c i : Nat} {r : Row} {x : Val} (p : Val → Bool) (hc : c ∈ on) (hr : rows[i]? = some r)
    (ha : r.alive = true) (hx : r.vals[c]? = some x) (hp : p x = true) :
    ((es.filter fun e => e.1 == c && p e.2.1).map (·.2.2)).count i = 1 := by
  have hval : val r.vals c = x := by
    unfold val; rw [List.getD_eq_getElem?_getD, hx]; rfl
  have hw : want rows on c i = some x := by
    rw [want_of_row hr, if_pos hc, if_pos ha, hval]
  have hmem : (c, x, i) ∈ es := (h.2 c i x).mpr hw
  rw [List.count_eq_countP, List.countP_map, List.countP_filter]
  have : List.countP (fun a => ((fun x => x == i) ∘ fun (x : Entry) => x.2.2) a && (a.1 == c && p a.2.1)) es
      = List.countP (fun e => e == (c, x, i)) es := by
    apply List.countP_congr
    rintro ⟨c', v', i'⟩ he
    simp only [Function.comp, Bool.and_eq_true, beq_iff_eq, Prod.mk.injEq]
    constructor
    · rintro ⟨h1, h2, _⟩
      subst h1 h2
      have := (h.2 c' i' v').mp he
      rw [hw] at this
      cases this
      exact ⟨rfl, rfl, rfl⟩
    · rintro ⟨h1, h2, h3⟩
      subst h1 h2 h3
      exact ⟨rfl, rfl, hp⟩
  rw [this, ← List.count_eq_countP, List.Nodup.count h.1, if_pos hmem]

/-! ### the undo primitives on rows; conditions -/

theorem slabDelete_self {T : Table} {i : Nat} {r : Row} (hr : T.rows[i]? = some r) :
    (slabDelete T i)[i]? = some { r with alive := false } := by
  unfold slabDelete
  rw [hr]
  dsimp only
  split
  · exact set_self hr
  · rename_i hd
    rw [hr]
    cases r with
    | mk a v =>
      cases a with
      | false => rfl
      | true => exact absurd rfl hd

theorem slabDelete_other {T : Table} {i j : Nat} (hne : j ≠ i) : (slabDelete T i)[j]? = T.rows[j]? := by
  unfold slabDelete
  split
  · split
    · exact set_ne hne
    · rfl
  · rfl

theorem evalCond_pred {c : Nat} {vals : List Val} {p : Val → Bool}
    (h : (match vals[c]? with | some x => p x | none => false) = true) :
    ∃ x, vals[c]? = some x ∧ p x = true := by
  cases hx : vals[c]? with
  | none => rw [hx] at h; cases h
  | some x => rw [hx] at h; exact ⟨x, rfl, h⟩

/-! ## the theorems -/

theorem idxExact_empty (n : Nat) (nl : List Nat) :
    IdxExact { ncols := n, nullable := nl, rows := [], hashOn := [], btreeOn := [], hashE := [], btreeE := [] } := by
  have h : ExactOn [] [] [] := by
    refine ⟨List.nodup_nil, ?_⟩
    intro c i v
    rw [want_notin List.not_mem_nil]
    constructor
    · intro h; cases h
    · intro h; cases h
  exact ⟨h, h⟩

theorem idxExact_insertT (T : Table) (vals : List Val) (h : IdxExact T) : IdxExact (insertT T vals) :=
  ⟨exactOn_insert vals h.1, exactOn_insert vals h.2⟩

/-- `batch_insert` appends rows: the shape of the table after the fold -/
theorem foldl_insertRow (rows : List (List Val)) (T : Table) :
    (rows.foldl insertRow T).rows = T.rows ++ rows.map (fun v => { alive := true, vals := v }) ∧
    (rows.foldl insertRow T).ncols = T.ncols ∧ (rows.foldl insertRow T).hashOn = T.hashOn ∧
    (rows.foldl insertRow T).btreeOn = T.btreeOn ∧ (rows.foldl insertRow T).nullable = T.nullable := by
  induction rows generalizing T with
  | nil => simp
  | cons v rest ih =>
    have h := ih (insertRow T v)
    simp only [List.foldl_cons, List.map_cons]
    refine ⟨?_, h.2.1, h.2.2.1, h.2.2.2.1, h.2.2.2.2⟩
    rw [h.1]
    simp [insertRow]

theorem idxExact_foldl_insertRow (rows : List (List Val)) (T : Table) (h : IdxExact T) :
    IdxExact (rows.foldl insertRow T) := by
  induction rows generalizing T with
  | nil => exact h
  | cons v rest ih => exact ih (insertRow T v) (idxExact_insertT T v h)

theorem idxExact_updateT (T : Table) (i : Nat) (r : Row) (upd : List (Nat × Val)) (h : IdxExact T)
    (hr : T.rows[i]? = some r) (ha : r.alive = true) (hlen : r.vals.length = T.ncols)
    (hupd : ∀ p ∈ upd, p.1 < T.ncols) : IdxExact (updateT T i r upd) := by
  have hupd' : ∀ p ∈ upd, p.1 < r.vals.length := by rw [hlen]; exact hupd
  exact ⟨exactOn_update upd hr ha hupd' h.1, exactOn_update upd hr ha hupd' h.2⟩

theorem idxExact_deleteT (T : Table) (i : Nat) (r : Row) (h : IdxExact T) (hr : T.rows[i]? = some r) :
    IdxExact (deleteT T i r) :=
  ⟨exactOn_delete hr h.1, exactOn_delete hr h.2⟩

/-- undoing one entry whose precondition holds keeps the indexes exact and reports no error -/
theorem idxExact_applyUndoT (T : Table) (u : Undo) (r : Row) (h : IdxExact T)
    (hr : T.rows[u.row]? = some r) (hp : undoPre T.ncols (T.hashOn ++ T.btreeOn) u r) :
    IdxExact (applyUndoT T u).1 ∧ (applyUndoT T u).2 = 0 := by
  have hsubH : ∀ c ∈ T.hashOn, c ∈ T.hashOn ++ T.btreeOn := fun c hc => List.mem_append_left _ hc
  have hsubB : ∀ c ∈ T.btreeOn, c ∈ T.hashOn ++ T.btreeOn := fun c hc => List.mem_append_right _ hc
  cases u with
  | inserted t i idx =>
    change T.rows[i]? = some r at hr
    change idx = _ at hp
    subst hp
    refine ⟨⟨?_, ?_⟩, rfl⟩
    · exact exactOn_undoInserted hr (slabDelete_self hr) (fun j hj => slabDelete_other hj) hsubH h.1
    · exact exactOn_undoInserted hr (slabDelete_self hr) (fun j hj => slabDelete_other hj) hsubB h.2
  | updated t i old chg =>
    change T.rows[i]? = some r at hr
    obtain ⟨ha, hl, upd, hupd, hchg, hvals⟩ := hp
    subst hchg
    have hrr : restoreRow T i old = some (T.rows.set i { r with vals := old }) := by
      unfold restoreRow
      rw [hr]
      exact if_pos ⟨ha, hl⟩
    have hupd' : ∀ p ∈ upd, p.1 < old.length := by rw [hl]; exact hupd
    unfold applyUndoT
    simp only [hrr, Option.getD_some, Option.isSome_some, if_true]
    refine ⟨⟨?_, ?_⟩, trivial⟩
    · exact exactOn_undoUpdated upd hr ha (set_self hr) (fun j hj => set_ne hj) hsubH hupd' hvals h.1
    · exact exactOn_undoUpdated upd hr ha (set_self hr) (fun j hj => set_ne hj) hsubB hupd' hvals h.2
  | deleted t i old idx =>
    change T.rows[i]? = some r at hr
    obtain ⟨ha, hl, hidx⟩ := hp
    subst hidx
    have hrr : restoreDeletedRow T i old = some (T.rows.set i { alive := true, vals := old }) := by
      unfold restoreDeletedRow
      rw [hr]
      refine if_pos ⟨?_, hl⟩
      rw [ha]; rfl
    unfold applyUndoT
    simp only [hrr, Option.getD_some, Option.isSome_some, if_true]
    refine ⟨⟨?_, ?_⟩, trivial⟩
    · exact exactOn_undoDeleted hr ha (set_self hr) (fun j hj => set_ne hj) hsubH h.1
    · exact exactOn_undoDeleted hr ha (set_self hr) (fun j hj => set_ne hj) hsubB h.2

theorem idxExact_createIndex (T : Table) (c : Nat) (h : IdxExact T) (hc : c ∉ T.hashOn) :
    IdxExact { T with hashOn := T.hashOn ++ [c], hashE := buildCol T c T.hashE } :=
  ⟨exactOn_buildCol hc h.1, h.2⟩

theorem idxExact_createBtree (T : Table) (c : Nat) (h : IdxExact T) (hc : c ∉ T.btreeOn) :
    IdxExact { T with btreeOn := T.btreeOn ++ [c], btreeE := buildCol T c T.btreeE } :=
  ⟨h.1, exactOn_buildCol hc h.2⟩

theorem idxExact_dropIndex (T : Table) (c : Nat) (h : IdxExact T) :
    IdxExact { T with hashOn := T.hashOn.filter (· ≠ c), hashE := idxDropCol c T.hashE } :=
  ⟨exactOn_dropCol c h.1, h.2⟩

theorem idxExact_dropBtree (T : Table) (c : Nat) (h : IdxExact T) :
    IdxExact { T with btreeOn := T.btreeOn.filter (· ≠ c), btreeE := idxDropCol c T.btreeE } :=
  ⟨h.1, exactOn_dropCol c h.2⟩

/-- a comparison that holds (both sides non-null) holds in the order of the b-tree keys, so the row's
    key lies in the range the lookup scans -/
theorem Val.keyLt_of_lt {a b : Val} (h : Val.lt a b = true) : Val.keyLt a b = true := by
  cases a <;> cases b <;> simp_all [Val.lt, Val.keyLt]

theorem Val.keyLe_of_le {a b : Val} (h : Val.le a b = true) : Val.keyLe a b = true := by
  cases a <;> cases b <;> simp_all [Val.le, Val.keyLe, Val.keyLt]

/-- with exact indexes, every live row satisfying a condition that an index serves occurs exactly
    once among the candidates `try_index_lookup` returns — also for `And(a, b)`, whose candidates are
    those of whichever side is served first -/
theorem candidates_count (T : Table) (h : IdxExact T) (cond : Cond) :
    ∀ cands, candidates T cond = some cands → ∀ i r, T.rows[i]? = some r → r.alive = true →
      evalCond cond i r.vals = true → cands.count i = 1 := by
  have bt : ∀ (c : Nat) (q p : Val → Bool) (cands : List Nat), (∀ x, q x = true → p x = true) →
      btCands T c p = some cands → ∀ i r, T.rows[i]? = some r → r.alive = true →
      (match r.vals[c]? with | some x => q x | none => false) = true → cands.count i = 1 := by
    intro c q p cands hqp hc i r hr ha he
    unfold btCands at hc
    split at hc
    · rename_i hon
      cases hc
      obtain ⟨x, hx, hq⟩ := evalCond_pred he
      exact count_cands h.2 p hon hr ha hx (hqp x hq)
    · cases hc
  induction cond with
  | all => intro cands hc; cases hc
  | idEq j => intro cands hc; cases hc
  | ne c v => intro cands hc; cases hc
  | or a b _ _ => intro cands hc; cases hc
  | eq c v =>
    intro cands hc i r hr ha he
    unfold candidates hashCands at hc
    split at hc
    · rename_i hon
      cases hc
      obtain ⟨x, hx, hp⟩ := evalCond_pred (p := fun k => k == v) he
      exact count_cands h.1 (fun k => k == v) hon hr ha hx hp
    · cases hc
  | lt c v => intro cands hc i r hr ha he; exact bt c (fun x => Val.lt x v) _ cands (fun x => Val.keyLt_of_lt) hc i r hr ha he
  | le c v => intro cands hc i r hr ha he; exact bt c (fun x => Val.le x v) _ cands (fun x => Val.keyLe_of_le) hc i r hr ha he
  | gt c v => intro cands hc i r hr ha he; exact bt c (fun x => Val.lt v x) _ cands (fun x => Val.keyLt_of_lt) hc i r hr ha he
  | ge c v => intro cands hc i r hr ha he; exact bt c (fun x => Val.le v x) _ cands (fun x => Val.keyLe_of_le) hc i r hr ha he
  | and a b iha ihb =>
    intro cands hc i r hr ha he
    have he' : evalCond a i r.vals = true ∧ evalCond b i r.vals = true := by
      have : (evalCond a i r.vals && evalCond b i r.vals) = true := he
      rwa [Bool.and_eq_true] at this
    have hc' : (match candidates T a with | some cands => some cands | none => candidates T b) = some cands := hc
    cases hca : candidates T a with
    | some ca =>
      rw [hca] at hc'
      have hcc : ca = cands := Option.some.inj hc'
      subst hcc
      exact iha ca hca i r hr ha he'.1
    | none =>
      rw [hca] at hc'
      exact ihb cands hc' i r hr ha he'.2

/-- with exact indexes every index-served answer is the full-scan answer — every condition,
    including `Ne`, `And` (served by the index of either side) and `Or` -/
theorem select_eq_scan (T : Table) (h : IdxExact T) (cond : Cond) : select T cond = scanAnswer T cond := by
  unfold select
  cases hc : candidates T cond with
  | none => rfl
  | some cands =>
    apply indexAnswer_eq_scan
    intro i hi
    obtain ⟨r, hr, ha, he⟩ := mem_matching.mp hi
    exact candidates_count T h cond cands hc i r hr ha he

end Neumann.RelTx
