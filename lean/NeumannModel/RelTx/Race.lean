import NeumannModel.RelTx.RaceModel
import NeumannModel.RelTx.LockOwner
/-
  C09 — lemmas about the two halves of `tx_update` / `tx_delete` (`RaceModel.lean`): the
  second half as the code is since fcb86137 (rows read again under the locks) is, for ANY list of scanned ids, a step that preserves the rollback invariant `Inv`
  and is the atomic statement when it runs right after its own scan.
-/
namespace Neumann.RelTx

theorem stillMatches_iff {T : Table} {cond : Cond} {i : Nat} :
    stillMatches T cond i = true ↔ i ∈ matching T cond := by
  rw [mem_matching]
  unfold stillMatches
  constructor
  · intro h
    split at h
    · rename_i r hr
      rw [Bool.and_eq_true] at h
      exact ⟨r, hr, h.1, h.2⟩
    · cases h
  · rintro ⟨r, hr, ha, he⟩
    rw [hr]
    simp [ha, he]

theorem filter_stillMatches_matching (T : Table) (cond : Cond) :
    (matching T cond).filter (stillMatches T cond) = matching T cond := by
  rw [List.filter_eq_self]
  intro i hi
  exact stillMatches_iff.2 hi

/-- the ids of a scan result are the matching rows -/
theorem txScan_ids (T : Table) (cond : Cond) : (txScan T cond).map (·.1) = matching T cond := by
  unfold txScan scanAnswer
  have key : ∀ l : List Nat, (∀ i ∈ l, ∃ r, T.rows[i]? = some r) →
      (l.filterMap fun i => (T.rows[i]?).map fun r => (i, r.vals)).map (·.1) = l := by
    intro l
    induction l with
    | nil => intro _; rfl
    | cons i rest ih =>
      intro h
      obtain ⟨r, hr⟩ := h i List.mem_cons_self
      rw [List.filterMap_cons, hr]
      simp only [Option.map_some, List.map_cons]
      rw [ih (fun j hj => h j (List.mem_cons_of_mem _ hj))]
  apply key
  intro i hi
  obtain ⟨r, hr, _⟩ := mem_matching.1 hi
  exact ⟨r, hr⟩

/-- run right after its own scan, the second half IS the atomic statement -/
theorem txUpdateApply_after_own_scan {s : State} {A t : Nat} {cond : Cond} {upd : List (Nat × Val)} {T : Table}
    (hg : gate s A = none) (hT : s.tables t = some T) (hu : updBad T upd = false) :
    txUpdateApply s A t cond (matching T cond) upd = txUpdate s A t cond upd := by
  unfold txUpdateApply txUpdate
  rw [hg]
  simp only [hT, hu, Bool.false_eq_true, ↓reduceIte, filter_stillMatches_matching]

theorem txDeleteApply_after_own_scan {s : State} {A t : Nat} {cond : Cond} {T : Table}
    (hg : gate s A = none) (hT : s.tables t = some T) :
    txDeleteApply s A t cond (matching T cond) = txDelete s A t cond := by
  unfold txDeleteApply txDelete
  rw [hg]
  simp only [hT, filter_stillMatches_matching]

/-- the second half of `tx_update`, for ANY id list of existing rows (a stale scan, a scan of
    another condition, anything): a step under which the rollback invariant is preserved, the acting
    transaction's rollback image is unchanged and every other transaction is a bystander -/
theorem stepOK_txUpdateApply {s : State} (h : Inv s) {A t : Nat} {x : Tx} {T : Table} (hx : s.txs A = some x)
    (hT : s.tables t = some T) (cond : Cond) (ids : List Nat) (hex : ∀ i ∈ ids, i < T.rows.length)
    (upd : List (Nat × Val)) (hu : updBad T upd = false) :
    StepOK s (txUpdateApply s A t cond ids upd).1 (some A) := by
  unfold txUpdateApply
  simp only [hT]
  by_cases hb : lockBlocked s A t ids = true
  · simp only [hb, ↓reduceIte]; exact StepOK.refl h _
  · simp only [hb, Bool.false_eq_true, ↓reduceIte]
    have hupd : ∀ p ∈ upd, p.1 < T.ncols := updBad_false_cols hu
    cases hm : ids with
    | nil => simp only [List.isEmpty_nil, ↓reduceIte, List.filter_nil, List.foldl_nil]; exact StepOK.refl h _
    | cons i0 rest =>
      simp only [List.isEmpty_cons, Bool.false_eq_true, ↓reduceIte]
      rw [← hm]
      have hnb : lockBlocked s A t ids = false := by simpa using hb
      have h1 := inv_lockAll h hT hex hnb
      have hsub : ∀ i ∈ ids.filter (stillMatches T cond), i ∈ ids := fun i hi => (List.mem_filter.1 hi).1
      have hf := foldl_updateRow_ok (upd := upd) (ids.filter (stillMatches T cond)) (lockAll s A t ids) h1 (x := x) hx
        (by
          intro i hi
          obtain ⟨r, hr, ha, _⟩ := mem_matching.1 (stillMatches_iff.1 (List.mem_filter.1 hi).2)
          exact ⟨T, r, hT, hr, ha⟩)
        (fun i hi => holds_lockAll s A t ids i (hsub i hi))
        (by intro T0 hT0; rw [show (lockAll s A t ids).tables t = s.tables t from rfl, hT] at hT0; cases hT0; exact hupd)
      refine stepOK_of_fold h hx rfl rfl (foldl_updateRow_locks A t upd _ _).2.2.2.2 ?_ hf
      intro B hB
      exact gone_foldl (fun s i tx hg => gone_updateRow hg A t upd i) _ (gone_lockAll hB A t ids)

/-- the same for `tx_delete` -/
theorem stepOK_txDeleteApply {s : State} (h : Inv s) {A t : Nat} {x : Tx} {T : Table} (hx : s.txs A = some x)
    (hT : s.tables t = some T) (cond : Cond) (ids : List Nat) (hex : ∀ i ∈ ids, i < T.rows.length) (hnd : ids.Nodup) :
    StepOK s (txDeleteApply s A t cond ids).1 (some A) := by
  unfold txDeleteApply
  simp only [hT]
  by_cases hb : lockBlocked s A t ids = true
  · simp only [hb, ↓reduceIte]; exact StepOK.refl h _
  · simp only [hb, Bool.false_eq_true, ↓reduceIte]
    cases hm : ids with
    | nil => simp only [List.isEmpty_nil, ↓reduceIte, List.filter_nil, List.foldl_nil]; exact StepOK.refl h _
    | cons i0 rest =>
      simp only [List.isEmpty_cons, Bool.false_eq_true, ↓reduceIte]
      rw [← hm]
      have hnb : lockBlocked s A t ids = false := by simpa using hb
      have h1 := inv_lockAll h hT hex hnb
      have hsub : ∀ i ∈ ids.filter (stillMatches T cond), i ∈ ids := fun i hi => (List.mem_filter.1 hi).1
      have hf := foldl_deleteRow_ok (ids.filter (stillMatches T cond)) (lockAll s A t ids) h1 (x := x) hx
        (List.Nodup.sublist List.filter_sublist hnd)
        (by
          intro i hi
          obtain ⟨r, hr, ha, _⟩ := mem_matching.1 (stillMatches_iff.1 (List.mem_filter.1 hi).2)
          exact ⟨T, r, hT, hr, ha⟩)
        (fun i hi => holds_lockAll s A t ids i (hsub i hi))
      refine stepOK_of_fold h hx rfl rfl (foldl_deleteRow_locks A t _ _).2.2.2.2 ?_ hf
      intro B hB
      exact gone_foldl (fun s i tx hg => gone_deleteRow hg A t i) _ (gone_lockAll hB A t ids)

/-! ## the transaction records under the per-row bodies -/

theorem recordUndo_txs_other (s : State) {tx B : Nat} (u : Undo) (hne : B ≠ tx) : (recordUndo s tx u).txs B = s.txs B := by
  unfold recordUndo
  split
  · simp [hne]
  · rfl

theorem recordUndo_txs_self (s : State) {tx : Nat} {x : Tx} (u : Undo) (hx : s.txs tx = some x) :
    (recordUndo s tx u).txs tx = some { x with undo := x.undo ++ [u] } := by
  unfold recordUndo
  rw [hx]
  simp

/-- a fold of a per-row body that only ever calls `recordUndo tx` and `setTable`: every other record is
    untouched, the actor's record keeps its phase and start time and its log only grows -/
theorem foldl_rows_txs {f : State → Nat → State} {A : Nat}
    (hf : ∀ s i, (∀ B, B ≠ A → (f s i).txs B = s.txs B) ∧
      (∀ x, s.txs A = some x → ∃ more, (f s i).txs A = some { x with undo := x.undo ++ more }))
    (rows : List Nat) (s : State) :
    (∀ B, B ≠ A → (rows.foldl f s).txs B = s.txs B) ∧
    (∀ x, s.txs A = some x → ∃ more, (rows.foldl f s).txs A = some { x with undo := x.undo ++ more }) := by
  induction rows generalizing s with
  | nil => exact ⟨fun _ _ => rfl, fun x hx => ⟨[], by simpa using hx⟩⟩
  | cons i rest ih =>
    simp only [List.foldl_cons]
    have h1 := hf s i
    have h2 := ih (f s i)
    refine ⟨fun B hB => (h2.1 B hB).trans (h1.1 B hB), ?_⟩
    intro x hx
    obtain ⟨m1, hm1⟩ := h1.2 x hx
    obtain ⟨m2, hm2⟩ := h2.2 _ hm1
    exact ⟨m1 ++ m2, by rw [hm2]; simp [List.append_assoc]⟩

theorem updateRow_txs (A t : Nat) (upd : List (Nat × Val)) (s : State) (i : Nat) :
    (∀ B, B ≠ A → (updateRow A t upd s i).txs B = s.txs B) ∧
    (∀ x, s.txs A = some x → ∃ more, (updateRow A t upd s i).txs A = some { x with undo := x.undo ++ more }) := by
  unfold updateRow
  split
  · exact ⟨fun _ _ => rfl, fun x hx => ⟨[], by simpa using hx⟩⟩
  · split
    · exact ⟨fun _ _ => rfl, fun x hx => ⟨[], by simpa using hx⟩⟩
    · refine ⟨fun B hB => by simp only [setTable_txs]; exact recordUndo_txs_other s _ hB, ?_⟩
      intro x hx
      exact ⟨[_], by simp only [setTable_txs]; exact recordUndo_txs_self s _ hx⟩

theorem deleteRow_txs (A t : Nat) (s : State) (i : Nat) :
    (∀ B, B ≠ A → (deleteRow A t s i).txs B = s.txs B) ∧
    (∀ x, s.txs A = some x → ∃ more, (deleteRow A t s i).txs A = some { x with undo := x.undo ++ more }) := by
  unfold deleteRow
  split
  · exact ⟨fun _ _ => rfl, fun x hx => ⟨[], by simpa using hx⟩⟩
  · split
    · exact ⟨fun _ _ => rfl, fun x hx => ⟨[], by simpa using hx⟩⟩
    · refine ⟨fun B hB => by simp only [setTable_txs]; exact recordUndo_txs_other s _ hB, ?_⟩
      intro x hx
      exact ⟨[_], by simp only [setTable_txs]; exact recordUndo_txs_self s _ hx⟩

/-- the second halves never touch another transaction's record, and the actor's record keeps its
    phase (so it stays usable) while its log grows -/
theorem apply_txs (s : State) (A t : Nat) (cond : Cond) (ids : List Nat) :
    (∀ upd, (∀ B, B ≠ A → (txUpdateApply s A t cond ids upd).1.txs B = s.txs B) ∧
      (∀ x, s.txs A = some x → ∃ more, (txUpdateApply s A t cond ids upd).1.txs A = some { x with undo := x.undo ++ more })) ∧
    ((∀ B, B ≠ A → (txDeleteApply s A t cond ids).1.txs B = s.txs B) ∧
      (∀ x, s.txs A = some x → ∃ more, (txDeleteApply s A t cond ids).1.txs A = some { x with undo := x.undo ++ more })) := by
  have base : ∀ (s1 : State), s1.txs = s.txs → ∀ (f : State → Nat → State),
      (∀ s i, (∀ B, B ≠ A → (f s i).txs B = s.txs B) ∧
        (∀ x, s.txs A = some x → ∃ more, (f s i).txs A = some { x with undo := x.undo ++ more })) →
      ∀ rows : List Nat, (∀ B, B ≠ A → (rows.foldl f s1).txs B = s.txs B) ∧
        (∀ x, s.txs A = some x → ∃ more, (rows.foldl f s1).txs A = some { x with undo := x.undo ++ more }) := by
    intro s1 h1 f hf rows
    have := foldl_rows_txs hf rows s1
    rw [h1] at this
    exact this
  have same : (∀ B, B ≠ A → s.txs B = s.txs B) ∧
      (∀ x, s.txs A = some x → ∃ more, s.txs A = some { x with undo := x.undo ++ more }) :=
    ⟨fun _ _ => rfl, fun x hx => ⟨[], by simpa using hx⟩⟩
  refine ⟨?_, ?_⟩
  · intro upd
    unfold txUpdateApply
    split
    · exact same
    · split
      · exact same
      · exact base _ (by split <;> rfl) _ (updateRow_txs A t upd) _
  · unfold txDeleteApply
    split
    · exact same
    · split
      · exact same
      · exact base _ (by split <;> rfl) _ (deleteRow_txs A t) _

/-- what `StepOK` by `A` means for rollbacks: `A`'s rollback after the step restores, row by row, the
    live image `A`'s rollback before the step would have restored -/
theorem rollback_image_of_own {s s' : State} {A : Nat} (hg : gate s A = none) (hg' : gate s' A = none)
    (ho : Own s s' A) (t i : Nat) :
    liveOf (rowAt (rollback s' A).1 t i) = liveOf (rowAt (rollback s A).1 t i) := by
  obtain ⟨x, x', more, hx, hx', _, hl⟩ := ho
  rw [rowAt_rollback hg' hx', rowAt_rollback hg hx]
  exact hl t i

end Neumann.RelTx
