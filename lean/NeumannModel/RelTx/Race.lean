import NeumannModel.RelTx.RaceModel
import NeumannModel.RelTx.LockOwner
/-
  C09 — lemmas about the two halves of `tx_update` / `tx_delete` (`RaceModel.lean`): the repaired
  second half is, for ANY list of scanned ids, a step that preserves the rollback invariant `Inv`
  and is the atomic statement when it runs right after its own scan.
-/
namespace Neumann.RelTx

theorem stillMatches_iff {T : Table} {cond : Cond} {i : Nat} :
    stillMatches T cond i = true ↔ i ∈ matching T cond := by
  rw [mem_matching]
  unfold stillMatches
  constructor
  · intro h
    split at h
    · rename_i r hr
      rw [Bool.and_eq_true] at h
      exact ⟨r, hr, h.1, h.2⟩
    · cases h
  · rintro ⟨r, hr, ha, he⟩
    rw [hr]
    simp [ha, he]

theorem filter_stillMatches_matching (T : Table) (cond : Cond) :
    (matching T cond).filter (stillMatches T cond) = matching T cond := by
  rw [List.filter_eq_self]
  intro i hi
  exact stillMatches_iff.2 hi

/-- run right after its own scan, the repaired second half IS the atomic statement -/
theorem txUpdateApplyFixed_after_own_scan {s : State} {A t : Nat} {cond : Cond} {upd : List (Nat × Val)} {T : Table}
    (hg : gate s A = none) (hT : s.tables t = some T) (hu : updBad T upd = false) :
    txUpdateApplyFixed s A t cond (matching T cond) upd = txUpdate s A t cond upd := by
  unfold txUpdateApplyFixed txUpdate
  rw [hg]
  simp only [hT, hu, Bool.false_eq_true, ↓reduceIte, filter_stillMatches_matching]

theorem txDeleteApplyFixed_after_own_scan {s : State} {A t : Nat} {cond : Cond} {T : Table}
    (hg : gate s A = none) (hT : s.tables t = some T) :
    txDeleteApplyFixed s A t cond (matching T cond) = txDelete s A t cond := by
  unfold txDeleteApplyFixed txDelete
  rw [hg]
  simp only [hT, filter_stillMatches_matching]

/-- the repaired second half of `tx_update`, for ANY id list of existing rows (a stale scan, a scan of
    another condition, anything): a step under which the rollback invariant is preserved, the acting
    transaction's rollback image is unchanged and every other transaction is a bystander -/
theorem stepOK_txUpdateApplyFixed {s : State} (h : Inv s) {A t : Nat} {x : Tx} {T : Table} (hx : s.txs A = some x)
    (hT : s.tables t = some T) (cond : Cond) (ids : List Nat) (hex : ∀ i ∈ ids, i < T.rows.length)
    (upd : List (Nat × Val)) (hu : updBad T upd = false) :
    StepOK s (txUpdateApplyFixed s A t cond ids upd).1 (some A) := by
  unfold txUpdateApplyFixed
  simp only [hT]
  by_cases hb : lockBlocked s A t ids = true
  · simp only [hb, ↓reduceIte]; exact StepOK.refl h _
  · simp only [hb, Bool.false_eq_true, ↓reduceIte]
    have hupd : ∀ p ∈ upd, p.1 < T.ncols := updBad_false_cols hu
    cases hm : ids with
    | nil => simp only [List.isEmpty_nil, ↓reduceIte, List.filter_nil, List.foldl_nil]; exact StepOK.refl h _
    | cons i0 rest =>
      simp only [List.isEmpty_cons, Bool.false_eq_true, ↓reduceIte]
      rw [← hm]
      have hnb : lockBlocked s A t ids = false := by simpa using hb
      have h1 := inv_lockAll h hT hex hnb
      have hsub : ∀ i ∈ ids.filter (stillMatches T cond), i ∈ ids := fun i hi => (List.mem_filter.1 hi).1
      have hf := foldl_updateRow_ok (upd := upd) (ids.filter (stillMatches T cond)) (lockAll s A t ids) h1 (x := x) hx
        (by
          intro i hi
          obtain ⟨r, hr, ha, _⟩ := mem_matching.1 (stillMatches_iff.1 (List.mem_filter.1 hi).2)
          exact ⟨T, r, hT, hr, ha⟩)
        (fun i hi => holds_lockAll s A t ids i (hsub i hi))
        (by intro T0 hT0; rw [show (lockAll s A t ids).tables t = s.tables t from rfl, hT] at hT0; cases hT0; exact hupd)
      refine stepOK_of_fold h hx rfl rfl (foldl_updateRow_locks A t upd _ _).2.2.2.2 ?_ hf
      intro B hB
      exact gone_foldl (fun s i tx hg => gone_updateRow hg A t upd i) _ (gone_lockAll hB A t ids)

/-- the same for `tx_delete` -/
theorem stepOK_txDeleteApplyFixed {s : State} (h : Inv s) {A t : Nat} {x : Tx} {T : Table} (hx : s.txs A = some x)
    (hT : s.tables t = some T) (cond : Cond) (ids : List Nat) (hex : ∀ i ∈ ids, i < T.rows.length) (hnd : ids.Nodup) :
    StepOK s (txDeleteApplyFixed s A t cond ids).1 (some A) := by
  unfold txDeleteApplyFixed
  simp only [hT]
  by_cases hb : lockBlocked s A t ids = true
  · simp only [hb, ↓reduceIte]; exact StepOK.refl h _
  · simp only [hb, Bool.false_eq_true, ↓reduceIte]
    cases hm : ids with
    | nil => simp only [List.isEmpty_nil, ↓reduceIte, List.filter_nil, List.foldl_nil]; exact StepOK.refl h _
    | cons i0 rest =>
      simp only [List.isEmpty_cons, Bool.false_eq_true, ↓reduceIte]
      rw [← hm]
      have hnb : lockBlocked s A t ids = false := by simpa using hb
      have h1 := inv_lockAll h hT hex hnb
      have hsub : ∀ i ∈ ids.filter (stillMatches T cond), i ∈ ids := fun i hi => (List.mem_filter.1 hi).1
      have hf := foldl_deleteRow_ok (ids.filter (stillMatches T cond)) (lockAll s A t ids) h1 (x := x) hx
        (List.Nodup.sublist List.filter_sublist hnd)
        (by
          intro i hi
          obtain ⟨r, hr, ha, _⟩ := mem_matching.1 (stillMatches_iff.1 (List.mem_filter.1 hi).2)
          exact ⟨T, r, hT, hr, ha⟩)
        (fun i hi => holds_lockAll s A t ids i (hsub i hi))
      refine stepOK_of_fold h hx rfl rfl (foldl_deleteRow_locks A t _ _).2.2.2.2 ?_ hf
      intro B hB
      exact gone_foldl (fun s i tx hg => gone_deleteRow hg A t i) _ (gone_lockAll hB A t ids)

/-- what `StepOK` by `A` means for rollbacks: `A`'s rollback after the step restores, row by row, the
    live image `A`'s rollback before the step would have restored -/
theorem rollback_image_of_own {s s' : State} {A : Nat} (hg : gate s A = none) (hg' : gate s' A = none)
    (ho : Own s s' A) (t i : Nat) :
    liveOf (rowAt (rollback s' A).1 t i) = liveOf (rowAt (rollback s A).1 t i) := by
  obtain ⟨x, x', more, hx, hx', _, hl⟩ := ho
  rw [rowAt_rollback hg' hx', rowAt_rollback hg hx]
  exact hl t i

end Neumann.RelTx
