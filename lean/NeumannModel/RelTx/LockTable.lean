import NeumannModel.RelTx.Lemmas
/-
  C09 — the bookkeeping invariant of the row-lock table over ALL statement sequences (no calm
  hypothesis: lock expiries, takeovers, lock sweeps and transaction sweeps anywhere):

    * `idx`   every lock in the table is listed in the key list of its owner (`LockIdx`),
    * `live`  the owner of every lock in the table is a transaction the manager still has
              (commit / rollback / cleanup_expired take a transaction out of the map only after
              `release` has walked its key list — which finds every lock of it because of `idx`),
    * `bound` every transaction in the map was handed out by `begin` (id below the counter), so the
              transaction sweep, which walks the ids below the counter, sees every timed-out one,
    * `listed` a transaction that is not in the map has an empty key list (`locks_held_by` = 0).

  `lockInv_step`: preserved by every statement, in particular by `cleanup_expired_locks`, which must
  take out of an owner's key list exactly the keys of the locks it removes.
-/
namespace Neumann.RelTx

structure LockInv (s : State) : Prop where
  idx : LockIdx s
  live : ∀ t i l, s.locks t i = some l → s.txs l.tx ≠ none
  bound : ∀ k, s.txs k ≠ none → k < s.nextTx
  listed : ∀ k, s.txs k = none → s.txLocks k = []

theorem lockInv_init (a b : Nat) : LockInv (init a b) :=
  ⟨lockIdx_init a b, by intro t i l h; simp [init] at h, by intro k h; simp [init] at h, fun _ _ => rfl⟩

/-- a statement part that leaves lock table, key lists, the SET of known transactions and the id
    counter alone -/
theorem lockInv_frame {s s' : State} (hl : s'.locks = s.locks) (ht : s'.txLocks = s.txLocks)
    (hx : ∀ k, s'.txs k = none ↔ s.txs k = none) (hn : s'.nextTx = s.nextTx) (h : LockInv s) : LockInv s' := by
  refine ⟨lockIdx_congr hl ht h.idx, ?_, ?_, ?_⟩
  · intro t i l hl' hnone
    rw [hl] at hl'
    exact h.live t i l hl' ((hx _).1 hnone)
  · intro k hk
    rw [hn]
    exact h.bound k (fun hnone => hk ((hx k).2 hnone))
  · intro k hk
    rw [ht]
    exact h.listed k ((hx k).1 hk)

theorem txs_of_gate {s : State} {tx : Nat} (h : gate s tx = none) : s.txs tx ≠ none := by
  intro hn
  simp [gate, hn] at h

theorem lockInv_lockAll {s : State} (h : LockInv s) {tx : Nat} (htx : s.txs tx ≠ none) (t : Nat) (rows : List Nat) :
    LockInv (lockAll s tx t rows) := by
  refine ⟨lockIdx_lockAll h.idx tx t rows, ?_, fun k hk => h.bound k hk, ?_⟩
  · intro t' i l hl
    simp only [lockAll] at hl
    split at hl
    · injection hl with hl
      subst hl
      exact htx
    · exact h.live t' i l hl
  · intro k hk
    have hk' : s.txs k = none := hk
    have hne : k ≠ tx := fun e => htx (e ▸ hk')
    show (if k = tx then s.txLocks tx ++ rows.map (fun i => (t, i)) else s.txLocks k) = []
    rw [if_neg hne]
    exact h.listed k hk'

/-- the end of a transaction: `release`, then the transaction leaves the map -/
theorem lockInv_endTx {s : State} (h : LockInv s) (A : Nat) : LockInv (setTx (release s A) A none) := by
  have hc := release_clears h.idx A
  refine ⟨lockIdx_congr rfl rfl (lockIdx_release h.idx A), ?_, ?_, ?_⟩
  · intro t i l hl
    have hl' : (release s A).locks t i = some l := hl
    have hne : l.tx ≠ A := hc.1 t i l hl'
    have h0 := (release_locks_some hl').1
    simp only [setTx_txs, release_txs, if_neg hne]
    exact h.live t i l h0
  · intro k hk
    show k < s.nextTx
    apply h.bound k
    intro hnone
    apply hk
    simp only [setTx_txs, release_txs]
    split
    · rfl
    · exact hnone
  · intro k hk
    show (if k = A then [] else s.txLocks k) = []
    split
    · rfl
    · rename_i hne
      simp only [setTx_txs, release_txs, if_neg hne] at hk
      exact h.listed k hk

theorem begin_txs_eq (s : State) (k : Nat) :
    (begin s).1.txs k = if k = s.nextTx then some { phase := .active, startedAt := s.now, undo := [] } else s.txs k := rfl

theorem lockInv_begin {s : State} (h : LockInv s) : LockInv (begin s).1 := by
  refine ⟨lockIdx_begin h.idx, ?_, ?_, ?_⟩
  · intro t i l hl
    have hlive : s.txs l.tx ≠ none := h.live t i l hl
    rw [begin_txs_eq]
    split
    · simp
    · exact hlive
  · intro k hk
    show k < s.nextTx + 1
    rw [begin_txs_eq] at hk
    by_cases e : k = s.nextTx
    · omega
    · rw [if_neg e] at hk
      exact Nat.lt_succ_of_lt (h.bound k hk)
  · intro k hk
    rw [begin_txs_eq] at hk
    show s.txLocks k = []
    by_cases e : k = s.nextTx
    · rw [if_pos e] at hk; cases hk
    · rw [if_neg e] at hk; exact h.listed k hk

theorem lockInv_commit {s : State} (h : LockInv s) (a : Nat) : LockInv (commit s a).1 := by
  unfold commit
  split
  · exact h
  · exact lockInv_endTx h a

theorem lockInv_rollback {s : State} (h : LockInv s) (a : Nat) : LockInv (rollback s a).1 := by
  unfold rollback
  split
  · exact h
  · simp only
    have f := foldl_applyUndo_fields ((match s.txs a with | some x => x.undo | none => []).reverse) (s, 0)
    exact lockInv_endTx (lockInv_frame f.1 f.2.1 (fun k => by rw [f.2.2.2.2.2]) f.2.2.2.2.1 h) a

theorem lockInv_finishAuto {p : State × Res} (h : LockInv p.1) (a : Nat) : LockInv (finishAuto p a).1 := by
  unfold finishAuto
  split
  · exact lockInv_rollback h a
  · exact lockInv_commit h a

theorem lockInv_txInsert {s : State} (h : LockInv s) (a t : Nat) (v : List Val) : LockInv (txInsert s a t v).1 := by
  unfold txInsert
  split
  · exact h
  · rename_i hg
    split
    · exact h
    · split
      · exact h
      · dsimp only
        split
        · exact lockInv_frame (by simp) (by simp) (fun k => by simp [recordUndo_txs_none]) (by simp) h
        · rename_i T _ _ _
          exact lockInv_frame (s := lockAll s a t [T.rows.length]) (by simp) (by simp)
            (fun k => by simp [recordUndo_txs_none]) (by simp) (lockInv_lockAll h (txs_of_gate hg) _ _)

theorem updateRow_txs_none (tx t : Nat) (upd : List (Nat × Val)) (s : State) (i k : Nat) :
    (updateRow tx t upd s i).txs k = none ↔ s.txs k = none := by
  unfold updateRow
  split
  · rfl
  · split
    · rfl
    · simp [recordUndo_txs_none]

theorem deleteRow_txs_none (tx t : Nat) (s : State) (i k : Nat) :
    (deleteRow tx t s i).txs k = none ↔ s.txs k = none := by
  unfold deleteRow
  split
  · rfl
  · split
    · rfl
    · simp [recordUndo_txs_none]

theorem foldl_updateRow_txs_none (tx t : Nat) (upd : List (Nat × Val)) (rows : List Nat) (s : State) (k : Nat) :
    (rows.foldl (updateRow tx t upd) s).txs k = none ↔ s.txs k = none := by
  induction rows generalizing s with
  | nil => rfl
  | cons i rest ih =>
    simp only [List.foldl_cons]
    rw [ih, updateRow_txs_none]

theorem foldl_deleteRow_txs_none (tx t : Nat) (rows : List Nat) (s : State) (k : Nat) :
    (rows.foldl (deleteRow tx t) s).txs k = none ↔ s.txs k = none := by
  induction rows generalizing s with
  | nil => rfl
  | cons i rest ih =>
    simp only [List.foldl_cons]
    rw [ih, deleteRow_txs_none]

theorem lockInv_txUpdate {s : State} (h : LockInv s) (a t : Nat) (c : Cond) (u : List (Nat × Val)) :
    LockInv (txUpdate s a t c u).1 := by
  unfold txUpdate
  dsimp only
  split
  · exact h
  · rename_i hg
    repeat' split
    all_goals first
      | exact h
      | exact lockInv_frame (foldl_updateRow_locks a t u _ _).1 (foldl_updateRow_locks a t u _ _).2.1
          (foldl_updateRow_txs_none a t u _ _) (foldl_updateRow_locks a t u _ _).2.2.2.2 h
      | exact lockInv_frame (foldl_updateRow_locks a t u _ _).1 (foldl_updateRow_locks a t u _ _).2.1
          (foldl_updateRow_txs_none a t u _ _) (foldl_updateRow_locks a t u _ _).2.2.2.2
          (lockInv_lockAll h (txs_of_gate hg) _ _)

theorem lockInv_txDelete {s : State} (h : LockInv s) (a t : Nat) (c : Cond) : LockInv (txDelete s a t c).1 := by
  unfold txDelete
  dsimp only
  split
  · exact h
  · rename_i hg
    repeat' split
    all_goals first
      | exact h
      | exact lockInv_frame (foldl_deleteRow_locks a t _ _).1 (foldl_deleteRow_locks a t _ _).2.1
          (foldl_deleteRow_txs_none a t _ _) (foldl_deleteRow_locks a t _ _).2.2.2.2 h
      | exact lockInv_frame (foldl_deleteRow_locks a t _ _).1 (foldl_deleteRow_locks a t _ _).2.1
          (foldl_deleteRow_txs_none a t _ _) (foldl_deleteRow_locks a t _ _).2.2.2.2
          (lockInv_lockAll h (txs_of_gate hg) _ _)

/-- the lock sweep: a lock that stays was there before, and `lockIdx_cleanupLocks` — the sweep takes
    out of an owner's list only the keys of the locks it removes — keeps it listed -/
theorem lockInv_cleanupLocks {s : State} (h : LockInv s) : LockInv (cleanupLocks s).1 := by
  refine ⟨lockIdx_cleanupLocks h.idx, ?_, fun k hk => h.bound k hk, ?_⟩
  · intro t i l hl
    simp only [cleanupLocks] at hl
    split at hl
    · cases hl
    · exact h.live t i l hl
  · intro k hk
    have hk' : s.txs k = none := hk
    simp only [cleanupLocks, h.listed k hk', List.filter_nil]

theorem foldl_release_locks_sub (ids : List Nat) (s : State) {t i : Nat} {l : Lock}
    (h : (ids.foldl release s).locks t i = some l) : s.locks t i = some l := by
  induction ids generalizing s with
  | nil => exact h
  | cons j rest ih => exact (release_locks_some (ih (release s j) h)).1

theorem foldl_release_clears {s : State} (h : LockIdx s) {k : Nat} {ids : List Nat} (hk : k ∈ ids) :
    ∀ t i l, (ids.foldl release s).locks t i = some l → l.tx ≠ k := by
  induction ids generalizing s with
  | nil => cases hk
  | cons j rest ih =>
    intro t i l hl
    rcases List.mem_cons.1 hk with e | hin
    · subst e
      exact (release_clears h k).1 t i l (foldl_release_locks_sub rest (release s k) hl)
    · exact ih (lockIdx_release h j) hin t i l hl

theorem foldl_release_txLocks_nil (ids : List Nat) (s : State) {k : Nat} (h : s.txLocks k = []) :
    (ids.foldl release s).txLocks k = [] := by
  induction ids generalizing s with
  | nil => exact h
  | cons j rest ih =>
    apply ih (release s j)
    show (if k = j then [] else s.txLocks k) = []
    split
    · rfl
    · exact h

theorem foldl_release_txLocks_mem {ids : List Nat} (s : State) {k : Nat} (hk : k ∈ ids) :
    (ids.foldl release s).txLocks k = [] := by
  induction ids generalizing s with
  | nil => cases hk
  | cons j rest ih =>
    rcases List.mem_cons.1 hk with e | hin
    · subst e
      exact foldl_release_txLocks_nil rest (release s k) (by simp [release])
    · exact ih (release s j) hin

/-- the transaction sweep: every timed-out transaction is below the counter (`bound`), so it is
    released before it leaves the map -/
theorem lockInv_cleanupTxs {s : State} (h : LockInv s) : LockInv (cleanupTxs s).1 := by
  have f := foldl_release_fields ((List.range s.nextTx).filter (txExpired s)) s
  refine ⟨lockIdx_congr rfl rfl (lockIdx_foldl_release h.idx _), ?_, ?_, ?_⟩
  · intro t i l hl
    have hl' : (((List.range s.nextTx).filter (txExpired s)).foldl release s).locks t i = some l := hl
    have h0 := foldl_release_locks_sub _ s hl'
    have hlive := h.live t i l h0
    show (if txExpired s l.tx then none else (((List.range s.nextTx).filter (txExpired s)).foldl release s).txs l.tx) ≠ none
    by_cases he : txExpired s l.tx = true
    · exfalso
      have hmem : l.tx ∈ (List.range s.nextTx).filter (txExpired s) :=
        List.mem_filter.2 ⟨List.mem_range.2 (h.bound _ hlive), he⟩
      exact foldl_release_clears h.idx hmem t i l hl' rfl
    · rw [if_neg he, f.1]
      exact hlive
  · intro k hk
    show k < (((List.range s.nextTx).filter (txExpired s)).foldl release s).nextTx
    rw [f.2]
    apply h.bound k
    intro hnone
    apply hk
    show (if txExpired s k then none else (((List.range s.nextTx).filter (txExpired s)).foldl release s).txs k) = none
    split
    · rfl
    · rw [f.1]; exact hnone
  · intro k hk
    have hk' : (if txExpired s k then none else (((List.range s.nextTx).filter (txExpired s)).foldl release s).txs k) = none := hk
    show (((List.range s.nextTx).filter (txExpired s)).foldl release s).txLocks k = []
    by_cases he : txExpired s k = true
    · have hsome : s.txs k ≠ none := by
        intro hn
        simp [txExpired, hn] at he
      exact foldl_release_txLocks_mem s (List.mem_filter.2 ⟨List.mem_range.2 (h.bound k hsome), he⟩)
    · rw [if_neg he, f.1] at hk'
      exact foldl_release_txLocks_nil _ s (h.listed k hk')

theorem lockInv_step {s : State} (h : LockInv s) (op : Op) : LockInv (step s op).1 := by
  cases op with
  | begin => exact lockInv_begin h
  | commit a => exact lockInv_commit h a
  | rollback a => exact lockInv_rollback h a
  | txInsert a t v => exact lockInv_txInsert h a t v
  | txUpdate a t c u => exact lockInv_txUpdate h a t c u
  | txDelete a t c => exact lockInv_txDelete h a t c
  | insert t v =>
    simp only [step]; unfold insert
    repeat' split
    all_goals first
      | exact h
      | exact lockInv_finishAuto (lockInv_txInsert (lockInv_begin h) _ _ _) _
  | update t c u =>
    simp only [step]; unfold update
    repeat' split
    all_goals first
      | exact h
      | exact lockInv_finishAuto (lockInv_txUpdate (lockInv_begin h) _ _ _ _) _
  | delete t c =>
    simp only [step]; unfold delete
    repeat' split
    all_goals first
      | exact h
      | exact lockInv_finishAuto (lockInv_txDelete (lockInv_begin h) _ _ _) _
  | batchInsert t rows =>
    rcases batchInsert_form s t rows with hf | ⟨T, _, _, hf⟩
    · show LockInv (batchInsert s t rows).1; rw [hf]; exact h
    · show LockInv (batchInsert s t rows).1; rw [hf]; exact lockInv_frame (s := s) rfl rfl (fun _ => Iff.rfl) rfl h
  | createTable n nl => exact lockInv_frame (s := s) rfl rfl (fun _ => Iff.rfl) rfl h
  | createIndex t c =>
    simp only [step]; unfold createIndex
    repeat' split
    all_goals first | exact h | exact lockInv_frame (s := s) rfl rfl (fun _ => Iff.rfl) rfl h
  | createBtree t c =>
    simp only [step]; unfold createBtree
    repeat' split
    all_goals first | exact h | exact lockInv_frame (s := s) rfl rfl (fun _ => Iff.rfl) rfl h
  | dropIndex t c =>
    simp only [step]; unfold dropIndex
    repeat' split
    all_goals first | exact h | exact lockInv_frame (s := s) rfl rfl (fun _ => Iff.rfl) rfl h
  | dropBtree t c =>
    simp only [step]; unfold dropBtree
    repeat' split
    all_goals first | exact h | exact lockInv_frame (s := s) rfl rfl (fun _ => Iff.rfl) rfl h
  | tick d => exact lockInv_frame (s := s) rfl rfl (fun _ => Iff.rfl) rfl h
  | cleanupLocks => exact lockInv_cleanupLocks h
  | cleanupTxs => exact lockInv_cleanupTxs h

theorem lockInv_run {s : State} (h : LockInv s) (ops : List Op) : LockInv (run s ops) := by
  induction ops generalizing s with
  | nil => exact h
  | cons op rest ih => exact ih (lockInv_step h op)

end Neumann.RelTx
