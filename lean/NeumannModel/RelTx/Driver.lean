import NeumannModel.Common.Proto
import NeumannModel.RelTx.Model
import NeumannModel.RelTx.RaceModel
import NeumannModel.RelTx.DdlModel
import NeumannModel.RelTx.CapModel
/-
  Line-protocol driver for the relational transaction model (C09).  Stateful.
  Row ids on the wire are ENGINE ids (slab id + 1); transaction ids are the model's own
  (the harness keeps the model-id ↔ real-id table).

    init <lockTimeoutMs> <txTimeoutMs>          ok                                  (also: no b-tree entry cap)
    cap <n> | cap -                             ok      `max_btree_entries = n` from here on (`CapModel.lean`): tx_insert /
                                                        tx_update / tx_delete / insert / update / delete / rollback /
                                                        batch_insert / create_btree run step by step and may answer
                                                        `err too_large` (the state keeps what the steps before did)
    nkeys                                       n <k>   (`btree_entry_count`: keys of all in-memory b-trees)
    create_table <ncols> [<nullable cols c,c|->] ok <t>                          (under the next unused name)
    drop_table <t>                              ok | err table_not_found | err lock_conflict
    recreate_table <t> <ncols>                  ok | err table_exists               (create_table under the name <t>)
    values: a decimal number or N (NULL; also what an omitted nullable column is stored as)
    begin                                       ok <tx>
    commit <tx> | rollback <tx>                 ok | err <class>
    tx_insert <tx> <t> <v,v>                    ok <rowid> | err <class>
    tx_update <tx> <t> <cond> <c=v,c=v>         ok <n> | err <class>
    tx_delete <tx> <t> <cond>                   ok <n> | err <class>
    insert <t> <v,v> | update <t> <cond> <upd> | delete <t> <cond>
    batch_insert <t> <v,v;v,v|->                ok <n> <first rowid> | err <class>
    create_index|create_btree|drop_index|drop_btree <t> <c>
    tick <ms> | cleanup_locks | cleanup_txs
    select <t> <cond>                           rows <id:v.v;...> | err table_not_found
    tx_select <tx> <t> <cond>                   rows <id:v.v;...> | err <class>
    nactive                                     n <k>        (active_transaction_count)
    image <t>                                   img <rows>|H:<cols>|B:<cols>
    holder <t> <rowid>                          h <tx>|h -
    held <tx>                                   n <k>
    active <tx>                                 true|false
    nlocks                                      n <k>
  cond: T | I:<rowid> | E:<c>:<v> | N:<c>:<v> | L:<c>:<v> | LE:<c>:<v> | G:<c>:<v> | GE:<c>:<v>
        | A/<cond>/<cond> | O/<cond>/<cond>      (prefix notation, no parentheses)
-/
open Neumann Neumann.Proto Neumann.RelTx

def showErr : Err → String
  | .txNotFound => "tx_not_found" | .txInactive => "tx_inactive"
  | .tableNotFound => "table_not_found" | .columnNotFound => "column_not_found"
  | .badInput => "bad_input" | .lockConflict => "lock_conflict"
  | .indexExists => "index_exists" | .indexNotFound => "index_not_found"
  | .rollbackFailed => "rollback_failed" | .tableExists => "table_exists"

def showRes (bump : Nat) : Res → String
  | .ok => "ok"
  | .okN n => s!"ok {n + bump}"
  | .err e => "err " ++ showErr e

/-- a value on the wire: a decimal number or `N` (NULL) -/
def parseVal (s : String) : Option Val :=
  if s = "N" then some .null else s.toInt?.map .int

def showVal : Val → String
  | .null => "N"
  | .int v => toString v

def parseVals (s : String) : Option (List Val) :=
  if s = "-" then some [] else (s.splitOn ",").mapM parseVal

def parseAtom (s : String) : Option Cond :=
  match s.splitOn ":" with
  | ["T"] => some .all
  | ["I", i] => match i.toNat? with
    | some (n + 1) => some (.idEq n)
    | _ => none
  | [k, c, v] => match c.toNat?, parseVal v with
    | some c, some v =>
      if k = "E" then some (.eq c v) else if k = "N" then some (.ne c v) else if k = "L" then some (.lt c v)
      else if k = "LE" then some (.le c v) else if k = "G" then some (.gt c v)
      else if k = "GE" then some (.ge c v) else none
    | _, _ => none
  | _ => none

/-- compound conditions in prefix notation, `/`-separated: `A/<cond>/<cond>` = And, `O/<cond>/<cond>` = Or -/
def parseCondToks : Nat → List String → Option (Cond × List String)
  | 0, _ => none
  | _ + 1, [] => none
  | fuel + 1, tok :: rest =>
    if tok = "A" ∨ tok = "O" then
      match parseCondToks fuel rest with
      | some (a, r1) =>
        match parseCondToks fuel r1 with
        | some (b, r2) => some (if tok = "A" then .and a b else .or a b, r2)
        | none => none
      | none => none
    else (parseAtom tok).map fun c => (c, rest)

def parseCond (s : String) : Option Cond :=
  match parseCondToks 64 (s.splitOn "/") with
  | some (c, []) => some c
  | _ => none

def parseUpd (s : String) : Option (List (Nat × Val)) :=
  if s = "-" then some [] else
  (s.splitOn ",").mapM fun e =>
    match e.splitOn "=" with
    | [c, v] => match c.toNat?, parseVal v with
      | some c, some v => some (c, v)
      | _, _ => none
    | _ => none

def showRows (rs : List (Nat × List Val)) : String :=
  if rs.isEmpty then "-" else
  ";".intercalate (rs.map fun p => s!"{p.1 + 1}:" ++ ".".intercalate (p.2.map showVal))

def sortNats (xs : List Nat) : List Nat := xs.mergeSort (fun a b => a ≤ b)

/-- driver state: the model state plus, per transaction, the scan its pending `tx_update` / `tx_delete`
    has made (the first half of a statement whose second half has not run yet) -/
structure DState where
  s : State
  scans : Nat → List (Nat × List Val)
  /-- `max_btree_entries` when the engine was configured with a small one -/
  cap : Option Nat := none

def relStep (s : State) (line : String) : State × String :=
  let bad := (s, "bad-op")
  let fin := fun (bump : Nat) (r : State × Res) => (r.1, showRes bump r.2)
  match words line with
  | ["init", a, b] => match a.toNat?, b.toNat? with
    | some a, some b => (init a b, "ok") | _, _ => bad
  | ["create_table", n] => match n.toNat? with
    | some n => fin 0 (step s (.createTable n [])) | none => bad
  | ["create_table", n, nl] => match n.toNat?, parseNats nl with
    | some n, some nl => fin 0 (step s (.createTable n nl)) | _, _ => bad
  | ["drop_table", t] => match t.toNat? with
    | some t => fin 0 (dropTable s t) | none => bad
  | ["recreate_table", t, n] => match t.toNat?, n.toNat? with
    | some t, some n => fin 0 (createTableAt s t n []) | _, _ => bad
  | ["begin"] => fin 0 (step s .begin)
  | ["commit", tx] => match tx.toNat? with
    | some tx => fin 0 (step s (.commit tx)) | none => bad
  | ["rollback", tx] => match tx.toNat? with
    | some tx => fin 0 (step s (.rollback tx)) | none => bad
  | ["tx_insert", tx, t, vs] => match tx.toNat?, t.toNat?, parseVals vs with
    | some tx, some t, some vs => fin 1 (step s (.txInsert tx t vs)) | _, _, _ => bad
  | ["tx_update", tx, t, c, u] => match tx.toNat?, t.toNat?, parseCond c, parseUpd u with
    | some tx, some t, some c, some u => fin 0 (step s (.txUpdate tx t c u)) | _, _, _, _ => bad
  | ["tx_delete", tx, t, c] => match tx.toNat?, t.toNat?, parseCond c with
    | some tx, some t, some c => fin 0 (step s (.txDelete tx t c)) | _, _, _ => bad
  | ["insert", t, vs] => match t.toNat?, parseVals vs with
    | some t, some vs => fin 1 (step s (.insert t vs)) | _, _ => bad
  | ["batch_insert", t, rs] => match t.toNat?, (if rs = "-" then some [] else (rs.splitOn ";").mapM parseVals) with
    | some t, some rows =>
      -- answer: number of rows and the engine id of the first one (0 for an empty batch)
      let first := match s.tables t with | some T => T.rows.length + 1 | none => 0
      (match batchInsert s t rows with
        | (s', .okN n) => (s', s!"ok {n} {if n = 0 then 0 else first}")
        | (s', r) => (s', showRes 0 r))
    | _, _ => bad
  | ["update", t, c, u] => match t.toNat?, parseCond c, parseUpd u with
    | some t, some c, some u => fin 0 (step s (.update t c u)) | _, _, _ => bad
  | ["delete", t, c] => match t.toNat?, parseCond c with
    | some t, some c => fin 0 (step s (.delete t c)) | _, _ => bad
  | ["create_index", t, c] => match t.toNat?, c.toNat? with
    | some t, some c => fin 0 (step s (.createIndex t c)) | _, _ => bad
  | ["create_btree", t, c] => match t.toNat?, c.toNat? with
    | some t, some c => fin 0 (step s (.createBtree t c)) | _, _ => bad
  | ["drop_index", t, c] => match t.toNat?, c.toNat? with
    | some t, some c => fin 0 (step s (.dropIndex t c)) | _, _ => bad
  | ["drop_btree", t, c] => match t.toNat?, c.toNat? with
    | some t, some c => fin 0 (step s (.dropBtree t c)) | _, _ => bad
  | ["tick", d] => match d.toNat? with
    | some d => fin 0 (step s (.tick d)) | none => bad
  | ["cleanup_locks"] => fin 0 (step s .cleanupLocks)
  | ["cleanup_txs"] => fin 0 (step s .cleanupTxs)
  | ["select", t, c] => match t.toNat?, parseCond c with
    | some t, some c => (match s.tables t with
        | some T => (s, "rows " ++ showRows (select T c))
        | none => (s, "err table_not_found"))
    | _, _ => bad
  | ["tx_select", tx, t, c] => match tx.toNat?, t.toNat?, parseCond c with
    | some tx, some t, some c => (match txSelect s tx t c with
        | .rows r => (s, "rows " ++ showRows r)
        | .err e => (s, "err " ++ showErr e))
    | _, _, _ => bad
  | ["nactive"] => (s, s!"n {activeCount s}")
  | ["image", t] => match t.toNat? with
    | some t => (match s.tables t with
        | some T => (s, "img " ++ showRows (scanAnswer T .all) ++ "|H:" ++ showNats (sortNats T.hashOn)
                        ++ "|B:" ++ showNats (sortNats T.btreeOn))
        | none => (s, "err table_not_found"))
    | none => bad
  | ["holder", t, r] => match t.toNat?, r.toNat? with
    | some t, some (r + 1) => (s, match holder s t r with | some tx => s!"h {tx}" | none => "h -")
    | _, _ => bad
  | ["held", tx] => match tx.toNat? with
    | some tx => (s, s!"n {(s.txLocks tx).length}") | none => bad
  | ["active", tx] => match tx.toNat? with
    | some tx => (s, if gate s tx = none then "true" else "false") | none => bad
  | ["nlocks"] => (s, s!"n {((allKeys s).filter fun k => (s.locks k.1 k.2).isSome).length}")
  | _ => bad

def showResC (bump : Nat) : ResC → String
  | .res r => showRes bump r
  | .tooLarge => "err too_large"

/-- the statements that run step by step under a b-tree entry cap (`CapModel.lean`); `none`: not one of them -/
def capStep (cap : Nat) (s : State) (line : String) : Option (State × String) :=
  let fin := fun (bump : Nat) (r : State × ResC) => some (r.1, showResC bump r.2)
  match words line with
  | ["rollback", tx] => match tx.toNat? with
    | some tx => fin 0 (stepC cap s (.rollback tx)) | none => none
  | ["tx_insert", tx, t, vs] => match tx.toNat?, t.toNat?, parseVals vs with
    | some tx, some t, some vs => fin 1 (stepC cap s (.txInsert tx t vs)) | _, _, _ => none
  | ["tx_update", tx, t, c, u] => match tx.toNat?, t.toNat?, parseCond c, parseUpd u with
    | some tx, some t, some c, some u => fin 0 (stepC cap s (.txUpdate tx t c u)) | _, _, _, _ => none
  | ["tx_delete", tx, t, c] => match tx.toNat?, t.toNat?, parseCond c with
    | some tx, some t, some c => fin 0 (stepC cap s (.txDelete tx t c)) | _, _, _ => none
  | ["insert", t, vs] => match t.toNat?, parseVals vs with
    | some t, some vs => fin 1 (stepC cap s (.insert t vs)) | _, _ => none
  | ["update", t, c, u] => match t.toNat?, parseCond c, parseUpd u with
    | some t, some c, some u => fin 0 (stepC cap s (.update t c u)) | _, _, _ => none
  | ["delete", t, c] => match t.toNat?, parseCond c with
    | some t, some c => fin 0 (stepC cap s (.delete t c)) | _, _ => none
  | ["create_btree", t, c] => match t.toNat?, c.toNat? with
    | some t, some c => fin 0 (stepC cap s (.createBtree t c)) | _, _ => none
  | ["batch_insert", t, rs] => match t.toNat?, (if rs = "-" then some [] else (rs.splitOn ";").mapM parseVals) with
    | some t, some rows =>
      let first := match s.tables t with | some T => T.rows.length + 1 | none => 0
      (match batchInsertC cap s t rows with
        | (s', .res (.okN n)) => some (s', s!"ok {n} {if n = 0 then 0 else first}")
        | (s', r) => some (s', showResC 0 r))
    | _, _ => none
  | _ => none

/-- the split statements (two halves with other statements in between; `RaceModel.lean`):
      scan_update <tx> <t> <cond> <upd>     scan <id:v.v;...> | err <class>     first half of tx_update
      apply_update <tx> <t> <cond> <upd>    ok <n> | err <class>                second half, AS THE CODE IS
      scan_delete <tx> <t> <cond>           scan <rows> | err <class>             (fcb86137: rows re-read under the locks)
      apply_delete <tx> <t> <cond>          ok <n> | err <class>
      apply_update_old <tx> <t> <upd>       ok <n> | err lock_conflict | err storage     second half BEFORE fcb86137
      apply_delete_old <tx> <t>             ok <n> | err lock_conflict                   (not used by the harness)
    every other line goes to `relStep` -/
def raceStep (d : DState) (line : String) : DState × String :=
  let bad := (d, "bad-op")
  let firstHalf := fun (tx t : Nat) (c : Cond) (u : Option (List (Nat × Val))) =>
    match gate d.s tx with
    | some e => (d, "err " ++ showErr e)
    | none =>
      match d.s.tables t with
      | none => (d, "err table_not_found")
      | some T =>
        match u with
        | some upd =>
          if updBad T upd then (d, "err " ++ showErr (updErr T upd))
          else ({ d with scans := fun k => if k = tx then txScan T c else d.scans k }, "scan " ++ showRows (txScan T c))
        | none => ({ d with scans := fun k => if k = tx then txScan T c else d.scans k }, "scan " ++ showRows (txScan T c))
  match words line with
  | ["cap", n] =>
    if n = "-" then ({ d with cap := none }, "ok")
    else match n.toNat? with
      | some n => ({ d with cap := some n }, "ok")
      | none => bad
  | ["nkeys"] => (d, s!"n {btCount d.s}")
  | ["init", _, _] => let r := relStep d.s line; ({ d with s := r.1, cap := none }, r.2)
  | ["scan_update", tx, t, c, u] => match tx.toNat?, t.toNat?, parseCond c, parseUpd u with
    | some tx, some t, some c, some u => firstHalf tx t c (some u) | _, _, _, _ => bad
  | ["scan_delete", tx, t, c] => match tx.toNat?, t.toNat?, parseCond c with
    | some tx, some t, some c => firstHalf tx t c none | _, _, _ => bad
  | ["apply_update_old", tx, t, u] => match tx.toNat?, t.toNat?, parseUpd u with
    | some tx, some t, some u =>
      (match txUpdateApplyOld d.s tx t (d.scans tx) u with
        | (s', none) => ({ d with s := s' }, "err lock_conflict")
        | (s', some none) => ({ d with s := s' }, "err storage")
        | (s', some (some n)) => ({ d with s := s' }, s!"ok {n}"))
    | _, _, _ => bad
  | ["apply_update", tx, t, c, u] => match tx.toNat?, t.toNat?, parseCond c, parseUpd u with
    | some tx, some t, some c, some u =>
      let r := txUpdateApply d.s tx t c ((d.scans tx).map (·.1)) u
      ({ d with s := r.1 }, showRes 0 r.2)
    | _, _, _, _ => bad
  | ["apply_delete", tx, t, c] => match tx.toNat?, t.toNat?, parseCond c with
    | some tx, some t, some c =>
      let r := txDeleteApply d.s tx t c ((d.scans tx).map (·.1))
      ({ d with s := r.1 }, showRes 0 r.2)
    | _, _, _ => bad
  | ["apply_delete_old", tx, t] => match tx.toNat?, t.toNat? with
    | some tx, some t =>
      (match txDeleteApplyOld d.s tx t (d.scans tx) with
        | (s', none) => ({ d with s := s' }, "err lock_conflict")
        | (s', some n) => ({ d with s := s' }, s!"ok {n}"))
    | _, _ => bad
  | _ =>
    match d.cap.bind (fun cap => capStep cap d.s line) with
    | some r => ({ d with s := r.1 }, r.2)
    | none => let r := relStep d.s line; ({ d with s := r.1 }, r.2)

def main : IO Unit := run raceStep { s := init 30000 60000, scans := fun _ => [] }
