import NeumannModel.RelTx.LockTable
import NeumannModel.RelTx.Restore
/-
  C09 — fifth module of property theorems (ONLY theorems and their non-vacuity examples):
  the bookkeeping of the row-lock table — lock table `(table,row) ↦ {owner, acquired at}` and the
  per-transaction key lists `tx_locks` — over ALL statement sequences, with lock sweeps
  (`cleanup_expired_locks`) and transaction sweeps (`cleanup_expired`) anywhere in them, and with locks
  of ONE transaction of different ages (a transaction takes its locks statement by statement, so a
  sweep may find its older locks expired and its younger ones alive).  "The locks disappear when the
  transaction ends or times out" rests on it: `release` walks the owner's key list, so a lock that is in
  the table but not in its owner's list survives the owner's end.
-/
namespace Neumann.RelTx.Props5
open Neumann.RelTx Neumann.RelTx.Props

/-! ## every lock is listed by its owner, whatever ran before -/

/-- EVERY script from the empty engine — any number of transactions, non-transactional statements,
    index DDL, ticks of any length, lock sweeps and transaction sweeps at any point: every lock in the
    lock table is listed in the key list of its owner (so the owner's `release` finds it). -/
theorem every_lock_is_listed_under_its_owner (a b : Nat) (ops : List Op) :
    let s := run (init a b) ops
    ∀ t i l, s.locks t i = some l → (t, i) ∈ s.txLocks l.tx := by
  intro s
  exact (lockInv_run (lockInv_init a b) ops).idx

/-- EVERY script from the empty engine (sweeps anywhere in it): the owner of every lock in the table
    is a transaction the manager still has; and a transaction that is not in the map — ended by
    commit, by rollback, by `cleanup_expired`, as the internal transaction of a non-transactional
    statement, or never begun — owns no lock, is the `row_lock_holder` of no row, has an empty key
    list (`locks_held_by` = 0) and blocks no statement of anybody.  Not only right after its end: in
    every later state of the run. -/
theorem no_lock_outlives_its_transaction (a b : Nat) (ops : List Op) :
    let s := run (init a b) ops
    (∀ t i l, s.locks t i = some l → s.txs l.tx ≠ none) ∧
    (∀ A, s.txs A = none →
      (∀ t i l, s.locks t i = some l → l.tx ≠ A) ∧ (∀ t i, holder s t i ≠ some A) ∧ s.txLocks A = []) := by
  intro s
  have hinv : LockInv s := lockInv_run (lockInv_init a b) ops
  refine ⟨hinv.live, ?_⟩
  intro A hA
  have h1 : ∀ t i l, s.locks t i = some l → l.tx ≠ A := by
    intro t i l hl he
    exact hinv.live t i l hl (he ▸ hA)
  refine ⟨h1, ?_, hinv.listed A hA⟩
  intro t i hh
  obtain ⟨l, hl, he, _⟩ := holder_some hh
  exact h1 t i l hl he

/-- EVERY script from the empty engine: a lock conflict always comes from a LIVE transaction — when
    `try_lock` refuses the rows of a statement of `B`, one of those rows is held, unexpired, by another
    transaction that is still in the manager's map (never by one that has ended). -/
theorem lock_conflict_names_a_live_transaction (a b : Nat) (ops : List Op) (B t : Nat) (rows : List Nat) :
    let s := run (init a b) ops
    lockBlocked s B t rows = true → ∃ i ∈ rows, ∃ A, A ≠ B ∧ holder s t i = some A ∧ s.txs A ≠ none := by
  intro s hb
  have hinv : LockInv s := lockInv_run (lockInv_init a b) ops
  unfold lockBlocked at hb
  rw [List.any_eq_true] at hb
  obtain ⟨i, hi, hc⟩ := hb
  cases hl : s.locks t i with
  | none => simp [hl] at hc
  | some l =>
    simp only [hl, Bool.and_eq_true, Bool.not_eq_true', bne_iff_ne, ne_eq] at hc
    refine ⟨i, hi, l.tx, hc.2, ?_, hinv.live t i l hl⟩
    simp [holder, hl, hc.1]

/-- non-vacuity: an open transaction (id 2) holds row 0 and blocks transaction 3; after its commit
    nothing is left of it -/
example : let s := run s0 (setupIdx ++ [.insert 0 [2, 2], .begin, .begin, .txUpdate 2 0 (.idEq 0) [(0, 4)]])
    (s.locks 0 0).isSome ∧ holder s 0 0 = some 2 ∧ (s.txs 2).isSome ∧ s.txLocks 2 = [(0, 0)] ∧
    lockBlocked s 3 0 [0, 1] = true ∧
    (s.txs 1).isNone ∧ s.txLocks 1 = [] ∧
    ((step s (.commit 2)).1.txs 2).isNone ∧ ((step s (.commit 2)).1.locks 0 0).isNone ∧
    lockBlocked (step s (.commit 2)).1 3 0 [0, 1] = false := by decide

/-! ## the lock sweep takes out of the key lists exactly the locks it removes -/

/-- EVERY state (reachable or not).  `cleanup_expired_locks` removes exactly the expired locks from the
    lock table; a key leaves the key list of transaction `tx` exactly when the lock on it was expired
    AND owned by `tx` (a key of a lock taken over by somebody else stays listed under the old holder,
    as `try_lock` left it); so every lock that is not expired stays in the table unchanged and, if it
    was listed under its owner, stays listed under its owner — whatever happened to OTHER locks of the
    same owner in the same sweep. -/
theorem lock_sweep_unlists_exactly_the_locks_it_removes (s : State) :
    (∀ t i, (cleanupLocks s).1.locks t i = if lockExpiredAt s t i then none else s.locks t i) ∧
    (∀ tx k, k ∈ (cleanupLocks s).1.txLocks tx ↔
      (k ∈ s.txLocks tx ∧ ¬ ∃ l, s.locks k.1 k.2 = some l ∧ l.expired s.now s.lockTimeout = true ∧ l.tx = tx)) ∧
    (∀ t i l, s.locks t i = some l → l.expired s.now s.lockTimeout = false → (t, i) ∈ s.txLocks l.tx →
      (cleanupLocks s).1.locks t i = some l ∧ (t, i) ∈ (cleanupLocks s).1.txLocks l.tx) := by
  have hk : ∀ tx k, k ∈ (cleanupLocks s).1.txLocks tx ↔
      (k ∈ s.txLocks tx ∧ ¬ ∃ l, s.locks k.1 k.2 = some l ∧ l.expired s.now s.lockTimeout = true ∧ l.tx = tx) := by
    intro tx k
    simp only [cleanupLocks, List.mem_filter]
    constructor
    · rintro ⟨hm, hf⟩
      refine ⟨hm, ?_⟩
      rintro ⟨l, hl, he, ht⟩
      simp [hl, he, ht] at hf
    · rintro ⟨hm, hn⟩
      refine ⟨hm, ?_⟩
      cases hl : s.locks k.1 k.2 with
      | none => simp
      | some l =>
        simp only [Bool.not_eq_true', Bool.and_eq_false_iff, beq_eq_false_iff_ne, ne_eq]
        by_cases he : l.expired s.now s.lockTimeout = true
        · right
          intro ht
          exact hn ⟨l, hl, he, ht⟩
        · left
          simpa using he
  refine ⟨fun _ _ => rfl, hk, ?_⟩
  intro t i l hl he hm
  refine ⟨?_, ?_⟩
  · show (if lockExpiredAt s t i then none else s.locks t i) = some l
    simp [lockExpiredAt, hl, he]
  · rw [hk]
    refine ⟨hm, ?_⟩
    rintro ⟨l', hl', he', _⟩
    have hl'' : s.locks t i = some l' := hl'
    rw [hl] at hl''
    cases hl''
    rw [he] at he'
    cases he'

/-- the partly expired transaction: 2 locks row 0 at time 0 and row 1 at time 20000 (timeout 30000);
    at 30001 the older lock has expired, the younger has not -/
def partlyExpired : List Op :=
  setupIdx ++ [.insert 0 [2, 2], .begin, .txUpdate 2 0 (.idEq 0) [(0, 4)], .tick 20000, .txUpdate 2 0 (.idEq 1) [(0, 5)], .tick 10001]

/-- non-vacuity: the sweep removes one lock (row 0), and exactly that key leaves the list of
    transaction 2; the younger lock on row 1 stays in the table and in the list -/
example : let s := run s0 partlyExpired
    s.txLocks 2 = [(0, 0), (0, 1)] ∧ lockExpiredAt s 0 0 = true ∧ lockExpiredAt s 0 1 = false ∧
    (cleanupLocks s).2 = .okN 1 ∧ ((cleanupLocks s).1.locks 0 0).isNone ∧
    (cleanupLocks s).1.locks 0 1 = some { tx := 2, acquiredAt := 20000 } ∧
    (cleanupLocks s).1.txLocks 2 = [(0, 1)] ∧ holder (cleanupLocks s).1 0 1 = some 2 := by decide

/-! ## sweep in the middle of a transaction's life, then its end -/

/-- EVERY script from the empty engine, then a lock sweep (which may find SOME of A's locks expired
    and others alive), then the end of the open transaction A by commit or by rollback: no lock names
    A, A holds no row, A's key list is empty — and every set of rows each of which was held by A or by
    nobody before the sweep is free for every transaction: `try_lock` refuses none of them. -/
theorem sweep_then_end_frees_every_row_of_the_transaction (a b : Nat) (ops : List Op) (A : Nat) :
    let s := run (init a b) ops
    let s1 := (cleanupLocks s).1
    gate s1 A = none → ∀ s', (s' = (commit s1 A).1 ∨ s' = (rollback s1 A).1) →
      (∀ t i l, s'.locks t i = some l → l.tx ≠ A) ∧ (∀ t i, holder s' t i ≠ some A) ∧ s'.txLocks A = [] ∧
      (∀ B t rows, (∀ i ∈ rows, holder s t i = some A ∨ holder s t i = none) → lockBlocked s' B t rows = false) := by
  intro s s1 hopen s' hs'
  have hinv1 : LockInv s1 := lockInv_cleanupLocks (lockInv_run (lockInv_init a b) ops)
  have hrel := release_clears hinv1.idx A
  have key : s'.locks = (release s1 A).locks ∧ s'.txLocks = (release s1 A).txLocks ∧
      s'.now = s.now ∧ s'.lockTimeout = s.lockTimeout := by
    rcases hs' with h | h
    · subst h; unfold commit; rw [hopen]; exact ⟨rfl, rfl, rfl, rfl⟩
    · subst h; unfold rollback; rw [hopen]
      simp only
      have f := foldl_applyUndo_fields ((match s1.txs A with | some x => x.undo | none => []).reverse) (s1, 0)
      have r := release_congr f.1 f.2.1 A
      exact ⟨r.1, r.2, f.2.2.1, f.2.2.2.1⟩
  have h1 : ∀ t i l, s'.locks t i = some l → l.tx ≠ A := by
    intro t i l hl; rw [key.1] at hl; exact hrel.1 t i l hl
  have h2 : ∀ t i, holder s' t i ≠ some A := by
    intro t i hh
    obtain ⟨l, hl, hA, _⟩ := holder_some hh
    exact h1 t i l hl hA
  refine ⟨h1, h2, by rw [key.2.1]; exact hrel.2, ?_⟩
  intro B t rows hrows
  unfold lockBlocked
  rw [List.any_eq_false]
  intro i hi
  cases hl : s'.locks t i with
  | none => simp
  | some l =>
    -- the lock was there, unchanged, before the end of A and before the sweep
    have hl1 : s1.locks t i = some l := by
      have := hl; rw [key.1] at this; exact (release_locks_some this).1
    have hl0 : s.locks t i = some l ∧ l.expired s.now s.lockTimeout = false := by
      have h : (if lockExpiredAt s t i then none else s.locks t i) = some l := hl1
      by_cases he : lockExpiredAt s t i = true
      · rw [if_pos he] at h; cases h
      · rw [if_neg he] at h
        refine ⟨h, ?_⟩
        simpa [lockExpiredAt, h] using he
    have hh : holder s t i = some l.tx := by simp [holder, hl0.1, hl0.2]
    have hne : l.tx ≠ A := h1 t i l hl
    rcases hrows i hi with hA | hN
    · rw [hh] at hA; injection hA with hA; exact absurd hA hne
    · rw [hh] at hN; cases hN

/-- non-vacuity: after sweep + commit of the partly expired transaction 2, both of its rows are free
    and transaction 3 updates the row whose lock had NOT expired at once -/
example : let s := run s0 (partlyExpired ++ [.begin])
    gate (cleanupLocks s).1 2 = none ∧ holder s 0 0 = none ∧ holder s 0 1 = some 2 ∧
    lockBlocked s 3 0 [0, 1] = true ∧
    lockBlocked (commit (cleanupLocks s).1 2).1 3 0 [0, 1] = false ∧
    (step (commit (cleanupLocks s).1 2).1 (.txUpdate 3 0 (.idEq 1) [(0, 3)])).2 = .okN 1 ∧
    (step (rollback (cleanupLocks s).1 2).1 (.txUpdate 3 0 (.idEq 1) [(0, 3)])).2 = .okN 1 := by decide

/-! ## witness: a sweep that forgets the owner's whole key list -/

/-- the partly expired transaction 2, a lock sweep, a second transaction 3 -/
def sweepOps : List Op := partlyExpired ++ [.cleanupLocks, .begin]

/-- `cleanupLocksDropList` (NOT the code: the sweep drops the owner's WHOLE key list as soon as one of
    its locks has expired) on the partly expired transaction: the sweep answers alike and every
    `row_lock_holder` answer is the same, but the younger lock on row 1 is now in the table and in no
    list — `every_lock_is_listed_under_its_owner` fails — and it survives the owner's end, whichever
    way the owner ends (commit, rollback): transaction 2 is gone from the manager's map and still is
    the holder of row 1, transaction 3's update and delete of that row and a non-transactional update
    are refused with a lock conflict by a transaction that no longer exists, until the lock times out.
    The model of the code frees the row at the owner's end and accepts all three. -/
theorem sweep_forgetting_owner_list_leaks_lock_witness :
    let sBad := runDropList s0 sweepOps
    let sGood := run s0 sweepOps
    runResDropList s0 sweepOps = runRes s0 sweepOps ∧
    (∀ i ∈ [0, 1], holder sBad 0 i = holder sGood 0 i) ∧ holder sBad 0 1 = some 2 ∧
    sGood.txLocks 2 = [(0, 1)] ∧ sBad.txLocks 2 = [] ∧
    sBad.locks 0 1 = some { tx := 2, acquiredAt := 20000 } ∧
    (∀ e ∈ [Op.commit 2, Op.rollback 2],
      (stepDropList sBad e).2 = .ok ∧ (step sGood e).2 = .ok ∧
      ((stepDropList sBad e).1.txs 2).isNone ∧ ((step sGood e).1.txs 2).isNone ∧
      holder (stepDropList sBad e).1 0 1 = some 2 ∧ holder (step sGood e).1 0 1 = none ∧
      (stepDropList (stepDropList sBad e).1 (.txUpdate 3 0 (.idEq 1) [(0, 3)])).2 = .err .lockConflict ∧
      (stepDropList (stepDropList sBad e).1 (.txDelete 3 0 (.idEq 1))).2 = .err .lockConflict ∧
      (stepDropList (stepDropList sBad e).1 (.update 0 (.idEq 1) [(0, 3)])).2 = .err .lockConflict ∧
      (step (step sGood e).1 (.txUpdate 3 0 (.idEq 1) [(0, 3)])).2 = .okN 1 ∧
      (step (step sGood e).1 (.txDelete 3 0 (.idEq 1))).2 = .okN 1 ∧
      (step (step sGood e).1 (.update 0 (.idEq 1) [(0, 3)])).2 = .okN 1 ∧
      -- the leaked lock dies only with its timeout
      (stepDropList (stepDropList (stepDropList sBad e).1 (.tick 20000)).1 (.txUpdate 3 0 (.idEq 1) [(0, 3)])).2 = .okN 1) := by
  decide

end Neumann.RelTx.Props5
