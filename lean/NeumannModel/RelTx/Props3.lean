import NeumannModel.RelTx.Race
/-
  C09 — third module of property theorems (ONLY theorems and their non-vacuity examples):
  the property BELOW statement granularity.  `tx_update` / `tx_delete` collect their rows by a scan
  and only afterwards take the row locks; other transactions' statements can run in between
  (`RaceModel.lean`).  What was FALSE of the code before fcb86137 (witnesses on `txUpdateApplyOld` /
  `txDeleteApplyOld`), and what the repair — the locked rows are read again — makes true of the code
  as it is for every interleaving.
-/
namespace Neumann.RelTx.Props3
open Neumann.RelTx Neumann.RelTx.Props

/-- state in which transaction 2 is open: table 0 (hash index on column 0) holds the committed rows
    `[1,1]` and `[2,2]` -/
def sOpen : State := run s0 [.createTable 2 [], .createIndex 0 0, .insert 0 [1, 1], .insert 0 [2, 2], .begin]

/-- what transaction 2's `tx_update … WHERE c0 >= 0` reads in its first half -/
def scanned : List (Nat × List Val) := ((sOpen.tables 0).map (txScan · (.ge 0 0))).getD []

/-- … and what somebody else COMMITS before transaction 2 has taken its locks: row 0 gets `c0 = 7`,
    row 1 is deleted (two non-transactional statements) -/
def sGap : State := run sOpen [.update 0 (.idEq 0) [(0, 7)], .delete 0 (.idEq 1)]

/-- WITNESS, the code BEFORE fcb86137 (`txUpdateApplyOld`: undo image, index changes and overwrite
    computed from the values the scan read before the lock).  Transaction A = 2 has scanned rows `[1,1]`, `[2,2]`; before it takes its
    locks another writer commits `c0 = 7` on row 0.  A's second half (SET c1 = 9 on row 0) takes the
    lock, records the STALE values `[1,1]` as the row's pre-image and answers `Ok(1)`.  A rolls back,
    `Ok`: row 0 is `[1,1]` again — the committed `c0 = 7` is gone although its writer never conflicted
    with anybody — and the hash index still files the row under 7, so `c0 = 1` answered through the
    index finds nothing while the scan shows the row.  With the full stale scan (row 1 was deleted in
    the gap) the statement stops with a storage error after it has changed row 0, and the rollback
    reports `RollbackFailed`.  None of this is reachable by statement-level interleavings
    (`rollback_restores`); the script before A's second half is calm. -/
theorem scan_before_lock_loses_committed_write_witness :
    scanned = [(0, [1, 1]), (1, [2, 2])] ∧
    (sGap.tables 0).map (scanAnswer · .all) = some [(0, [7, 1])] ∧
    calm s0 [.createTable 2 [], .createIndex 0 0, .insert 0 [1, 1], .insert 0 [2, 2], .begin,
             .update 0 (.idEq 0) [(0, 7)], .delete 0 (.idEq 1)] = true ∧
    -- A's second half on the row it scanned first
    (let r := txUpdateApplyOld sGap 2 0 [(0, [1, 1])] [(1, 9)]
     r.2 = some (some 1) ∧
     (r.1.tables 0).map (scanAnswer · .all) = some [(0, [7, 9])] ∧
     (r.1.txs 2).map (·.undo) = some [.updated 0 0 [1, 1] []] ∧
     (rollback r.1 2).2 = .ok ∧
     ((rollback r.1 2).1.tables 0).map (scanAnswer · .all) = some [(0, [1, 1])] ∧
     ((rollback r.1 2).1.tables 0).map (select · (.eq 0 1)) = some [] ∧
     ((rollback r.1 2).1.tables 0).map (select · (.eq 0 7)) = some []) ∧
    -- the whole stale scan: the row deleted in the gap stops the statement half way
    (let r := txUpdateApplyOld sGap 2 0 scanned [(0, 5)]
     r.2 = some none ∧ (r.1.tables 0).map (scanAnswer · .all) = some [(0, [5, 1])] ∧
     (rollback r.1 2).2 = .err .rollbackFailed) := by decide

/-- WITNESS for `tx_delete` before fcb86137 (`txDeleteApplyOld`): a row deleted — and committed — by somebody else between A's scan and A's
    locks is deleted "again" by A's second half (`slab.delete` answers `Ok(false)`, no error), and A's
    rollback RESURRECTS it. -/
theorem scan_before_lock_resurrects_deleted_row_witness :
    let r := txDeleteApplyOld sGap 2 0 scanned
    r.2 = some 2 ∧ (r.1.tables 0).map (scanAnswer · .all) = some [] ∧
    (rollback r.1 2).2 = .ok ∧
    ((rollback r.1 2).1.tables 0).map (scanAnswer · .all) = some [(0, [1, 1]), (1, [2, 2])] := by decide

/-- THE RE-READ IS INVISIBLE SEQUENTIALLY.  Run right after its own scan (nothing in between), the
    second half as the code is (fcb86137) — lock the scanned ids, read those rows again, keep the ones
    that still match — is exactly the atomic statement of the model, for every state, condition and SET
    list.  So every statement-level theorem and the whole statement-level correspondence carry over. -/
theorem second_half_after_own_scan_is_the_statement (s : State) (A t : Nat) (cond : Cond) (T : Table)
    (hg : gate s A = none) (hT : s.tables t = some T) :
    (∀ upd, updBad T upd = false →
      txUpdateApply s A t cond ((txScan T cond).map (·.1)) upd = txUpdate s A t cond upd) ∧
    txDeleteApply s A t cond ((txScan T cond).map (·.1)) = txDelete s A t cond := by
  have hids : (txScan T cond).map (·.1) = matching T cond := txScan_ids T cond
  rw [hids]
  exact ⟨fun upd hu => txUpdateApply_after_own_scan hg hT hu, txDeleteApply_after_own_scan hg hT⟩

/-- THE CODE AS IT IS UNDER EVERY INTERLEAVING (what fcb86137 makes true).  Take any calm script (interleaved transactions, commits,
    rollbacks, non-transactional statements, batch inserts, DDL — in particular whatever other
    transactions did since A's scan), an open transaction A, and ANY list `ids` of existing rows of
    table `t` as "the rows A scanned earlier" — stale, incomplete, or matching a condition the rows no
    longer satisfy.  The second half of `tx_update` / `tx_delete` on those ids
      (0) when it answers an error (a scanned row is locked by somebody else) has changed nothing;
      (1) leaves every index exact (every index-served `select` = the full scan) and reaches a state in
          which the whole rollback invariant holds again, so every later statement is covered by
          `rollback_restores` & co.;
      (2) is undone exactly by A's rollback: `Ok`, and every row of every table has the live content
          A's rollback BEFORE the statement would have given it — "as if the statement had not run",
          committed work of others since A's scan included;
      (3) leaves every other open transaction a bystander: its undo log and every row it has written
          are untouched.
    `scan_before_lock_loses_committed_write_witness` shows (1)–(2) fail for the code before fcb86137. -/
theorem second_half_is_safe_for_any_scan (a b : Nat) (ops : List Op) (hcalm : calm (init a b) ops = true)
    (A t : Nat) (T : Table) (hopen : gate (run (init a b) ops) A = none)
    (hT : (run (init a b) ops).tables t = some T) (cond : Cond) (ids : List Nat)
    (hex : ∀ i ∈ ids, i < T.rows.length) (hnd : ids.Nodup)
    (s' : State)
    (hs' : (∃ upd, updBad T upd = false ∧ s' = (txUpdateApply (run (init a b) ops) A t cond ids upd).1) ∨
           s' = (txDeleteApply (run (init a b) ops) A t cond ids).1) :
    let s := run (init a b) ops
    (lockBlocked s A t ids = true → s' = s) ∧
    (∀ t' T' c, s'.tables t' = some T' → select T' c = scanAnswer T' c) ∧
    (gate s' A = none ∧ (rollback s' A).2 = .ok ∧
      ∀ t' i, liveAt (rollback s' A).1 t' i = liveAt (rollback s A).1 t' i) ∧
    (∀ B, B ≠ A → s'.txs B = s.txs B ∧ ∀ t' i, Names s B t' i → rowAt s' t' i = rowAt s t' i) := by
  intro s
  have hinv : Inv s := inv_run (inv_init a b) ops hcalm
  obtain ⟨x, hx⟩ := gate_none hopen
  have hact : x.phase = .active := by
    unfold gate at hopen
    rw [hx] at hopen
    by_cases hp : x.phase = .active
    · exact hp
    · simp [hp] at hopen
  have hstep : StepOK s s' (some A) := by
    rcases hs' with ⟨upd, hu, rfl⟩ | rfl
    · exact stepOK_txUpdateApply hinv hx hT cond ids hex upd hu
    · exact stepOK_txDeleteApply hinv hx hT cond ids hex hnd
  -- the transaction records: others untouched, A's log grown, phase kept
  have htxs : (∀ B, B ≠ A → s'.txs B = s.txs B) ∧ (∃ more, s'.txs A = some { x with undo := x.undo ++ more }) := by
    have k := apply_txs s A t cond ids
    rcases hs' with ⟨upd, _, rfl⟩ | rfl
    · exact ⟨(k.1 upd).1, (k.1 upd).2 x hx⟩
    · exact ⟨k.2.1, k.2.2 x hx⟩
  obtain ⟨more, hx'⟩ := htxs.2
  have hg' : gate s' A = none := by
    unfold gate
    rw [hx']
    simp [hact]
  have hown : Own s s' A := by
    rcases hstep.own A x rfl hx with hnone | ho
    · rw [hx'] at hnone; cases hnone
    · exact ho
  refine ⟨?_, ?_, ⟨hg', rollback_ok hstep.inv hg', ?_⟩, ?_⟩
  · intro hb
    have hb' : lockBlocked (run (init a b) ops) A t ids = true := hb
    rcases hs' with ⟨upd, _, rfl⟩ | rfl
    · unfold txUpdateApply; simp only [hT, hb', ↓reduceIte]; rfl
    · unfold txDeleteApply; simp only [hT, hb', ↓reduceIte]; rfl
  · intro t' T' c hT'
    exact select_eq_scan T' (hstep.inv.idx t' T' hT') c
  · intro t' i
    exact rollback_image_of_own hopen hg' hown t' i
  · intro B hB
    refine ⟨htxs.1 B hB, ?_⟩
    intro t' i hn
    obtain ⟨xB, hxB, _⟩ := id hn
    rcases hstep.other B xB (fun e => hB (Option.some.inj e)) hxB with h | h
    · rw [htxs.1 B hB, hxB] at h; cases h
    · exact (h.2 t' i hn).1

/-- non-vacuity of `second_half_is_safe_for_any_scan`, on the interleaving of the witness: the
    script up to the end of the gap is calm, A = 2 is open, the stale ids `[0, 1]` are rows of the table;
    the second half updates only row 0 (row 1 is gone), on its CURRENT values; A's rollback gives
    back `[7,1]` — the other writer's committed value — and the index answers agree with the scan -/
example :
    let ops : List Op := [.createTable 2 [], .createIndex 0 0, .insert 0 [1, 1], .insert 0 [2, 2], .begin,
                          .update 0 (.idEq 0) [(0, 7)], .delete 0 (.idEq 1)]
    calm s0 ops = true ∧ run s0 ops = sGap ∧ gate sGap 2 = none ∧ scanned.map (·.1) = [0, 1] ∧
    ((sGap.tables 0).map (·.rows.length)) = some 2 ∧ updBad ((sGap.tables 0).getD default) [(1, 9)] = false ∧
    (let r := txUpdateApply sGap 2 0 (.ge 0 0) [0, 1] [(1, 9)]
     r.2 = .okN 1 ∧ (r.1.tables 0).map (scanAnswer · .all) = some [(0, [7, 9])] ∧
     (r.1.txs 2).map (·.undo) = some [.updated 0 0 [7, 1] []] ∧ (rollback r.1 2).2 = .ok ∧
     ((rollback r.1 2).1.tables 0).map (scanAnswer · .all) = some [(0, [7, 1])] ∧
     ((rollback r.1 2).1.tables 0).map (select · (.eq 0 7)) = some [(0, [7, 1])]) ∧
    (let r := txDeleteApply sGap 2 0 (.ge 0 0) [0, 1]
     r.2 = .okN 1 ∧ ((rollback r.1 2).1.tables 0).map (scanAnswer · .all) = some [(0, [7, 1])]) := by
  refine ⟨by decide, rfl, by decide, by decide, by decide, by decide, by decide, by decide⟩

end Neumann.RelTx.Props3
