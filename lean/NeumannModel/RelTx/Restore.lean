import NeumannModel.RelTx.Index
/-
  C09 — rollback restores: the invariant `Inv` of every state reachable under the two side
  conditions (no lock expires, no index DDL on a table an open transaction has written), its
  preservation by every statement, and what a statement does to the image a transaction's
  rollback would restore.
-/
namespace Neumann.RelTx

/-! ## the row a rollback leaves, as a function of the row's own undo chain -/

def onKey (t i : Nat) (u : Undo) : Bool := u.table == t && u.row == i

theorem onKey_iff {t i : Nat} {u : Undo} : onKey t i u = true ↔ u.table = t ∧ u.row = i := by
  simp [onKey]

/-- undo entries of one row, applied in the given order -/
def undoRows (n : Nat) (us : List Undo) (r : Row) : Row := us.foldl (fun r u => undoRow n u r) r

@[simp] theorem undoRows_nil (n : Nat) (r : Row) : undoRows n [] r = r := rfl
@[simp] theorem undoRows_cons (n : Nat) (u : Undo) (us : List Undo) (r : Row) :
    undoRows n (u :: us) r = undoRows n us (undoRow n u r) := rfl

theorem applyUndoT_static (T : Table) (u : Undo) :
    (applyUndoT T u).1.ncols = T.ncols ∧ (applyUndoT T u).1.hashOn = T.hashOn ∧
    (applyUndoT T u).1.btreeOn = T.btreeOn ∧ (applyUndoT T u).1.rows.length = T.rows.length := by
  cases u with
  | inserted t i idx =>
    refine ⟨rfl, rfl, rfl, ?_⟩
    simp only [applyUndoT, slabDelete]
    split
    · split <;> simp
    · rfl
  | updated t i old chg =>
    refine ⟨rfl, rfl, rfl, ?_⟩
    simp only [applyUndoT, restoreRow]
    split
    · split <;> simp
    · rfl
  | deleted t i old idx =>
    refine ⟨rfl, rfl, rfl, ?_⟩
    simp only [applyUndoT, restoreDeletedRow]
    split
    · split <;> simp
    · rfl

/-- the row `(t,i)` after an undo fold: only the entries naming it matter -/
theorem foldl_applyUndo_rowAt (M : List Undo) (acc : State × Nat) (t i n : Nat)
    (hn : ncolsAt acc.1 t = some n) :
    rowAt (M.foldl applyUndo acc).1 t i = (rowAt acc.1 t i).map (undoRows n (M.filter (onKey t i))) := by
  induction M generalizing acc with
  | nil =>
    cases h : rowAt acc.1 t i <;> simp [undoRows, h]
  | cons u M ih =>
    simp only [List.foldl_cons]
    rw [ih (applyUndo acc u) (by rw [applyUndo_ncolsAt]; exact hn)]
    by_cases hk : onKey t i u = true
    · obtain ⟨ht, hi⟩ := onKey_iff.1 hk
      subst ht; subst hi
      simp only [List.filter_cons, hk, ↓reduceIte]
      cases hr : rowAt acc.1 u.table u.row with
      | none =>
        -- the row does not exist: it does not exist afterwards either
        have : rowAt (applyUndo acc u).1 u.table u.row = none := by
          unfold applyUndo
          cases hT : acc.1.tables u.table with
          | none => simpa [hT] using hr
          | some T =>
            simp only [rowAt, hT, Option.bind_some] at hr
            simp only [rowAt, setTable_tables, ↓reduceIte, Option.bind_some]
            rw [List.getElem?_eq_none_iff] at hr ⊢
            rw [(applyUndoT_static T u).2.2.2]; exact hr
        rw [this]; rfl
      | some r =>
        rw [applyUndo_rowAt_self acc u n r hn hr]
        rfl
    · have hk' : onKey t i u = false := by simpa using hk
      simp only [List.filter_cons, hk', Bool.false_eq_true, ↓reduceIte]
      rw [applyUndo_rowAt_other acc u t i (fun h => hk (onKey_iff.2 h))]

/-- every undo entry of the chain finds the row as its statement left it -/
def GoodSeq (n : Nat) (on : List Nat) : List Undo → Row → Prop
  | [], _ => True
  | u :: rest, r => undoPre n on u r ∧ GoodSeq n on rest (undoRow n u r)

def liveOf (r : Option Row) : Option (List Val) :=
  match r with
  | some r => if r.alive then some r.vals else none
  | none => none

/-- the live content of row `(t,i)`: `some vals` when the row exists and is alive -/
def liveAt (s : State) (t i : Nat) : Option (List Val) := liveOf (rowAt s t i)

/-- the row `(t,i)` after undoing the log `L` (chronological) on the tables of `s` -/
def restoredRow (s : State) (L : List Undo) (t i : Nat) : Option Row :=
  match ncolsAt s t with
  | some n => (rowAt s t i).map (undoRows n (L.reverse.filter (onKey t i)))
  | none => none

theorem foldl_applyUndo_tables_none (M : List Undo) (acc : State × Nat) (t : Nat) (h : acc.1.tables t = none) :
    (M.foldl applyUndo acc).1.tables t = none := by
  induction M generalizing acc with
  | nil => exact h
  | cons u M ih =>
    simp only [List.foldl_cons]
    apply ih
    unfold applyUndo
    split
    · exact h
    · rename_i T hT'
      simp only [setTable_tables]
      split
      · rename_i he; subst he; rw [h] at hT'; cases hT'
      · exact h

theorem rowAt_rollback {s : State} {A : Nat} {x : Tx} (hg : gate s A = none) (hx : s.txs A = some x) (t i : Nat) :
    rowAt (rollback s A).1 t i = restoredRow s x.undo t i := by
  unfold rollback
  rw [hg]
  simp only [hx]
  show rowAt (x.undo.reverse.foldl applyUndo (s, 0)).1 t i = _
  unfold restoredRow
  cases hT : s.tables t with
  | none =>
    have h1 := foldl_applyUndo_tables_none x.undo.reverse (s, 0) t hT
    simp only [rowAt, h1, Option.bind_none, ncolsAt, hT, Option.map_none]
  | some T =>
    rw [foldl_applyUndo_rowAt _ (s, 0) t i T.ncols (by simp [ncolsAt, hT])]
    simp [ncolsAt, hT]

/-! ## the invariant -/

/-- transaction `A` is open and its undo log names row `(t,i)` -/
def Names (s : State) (A t i : Nat) : Prop := ∃ x, s.txs A = some x ∧ ∃ u ∈ x.undo, u.table = t ∧ u.row = i

structure Inv (s : State) : Prop where
  txLt : ∀ A x, s.txs A = some x → A < s.nextTx
  tabLt : ∀ t T, s.tables t = some T → t < s.ntables
  fresh : ∀ t i l, s.locks t i = some l → l.expired s.now s.lockTimeout = false
  lockRow : ∀ t i l, s.locks t i = some l → ∃ T, s.tables t = some T ∧ i < T.rows.length
  named : ∀ A x, s.txs A = some x → ∀ u ∈ x.undo, ∃ l, s.locks u.table u.row = some l ∧ l.tx = A
  rowLen : ∀ t T, s.tables t = some T → ∀ r ∈ T.rows, r.vals.length = T.ncols
  idx : ∀ t T, s.tables t = some T → IdxExact T
  chain : ∀ A x, s.txs A = some x → ∀ t T i r, s.tables t = some T → T.rows[i]? = some r →
    GoodSeq T.ncols (T.hashOn ++ T.btreeOn) (x.undo.reverse.filter (onKey t i)) r

theorem inv_init (a b : Nat) : Inv (init a b) where
  txLt := by intro A x h; simp [init] at h
  tabLt := by intro t T h; simp [init] at h
  fresh := by intro t i l h; simp [init] at h
  lockRow := by intro t i l h; simp [init] at h
  named := by intro A x h; simp [init] at h
  rowLen := by intro t T h; simp [init] at h
  idx := by intro t T h; simp [init] at h
  chain := by intro A x h; simp [init] at h

/-- a row named by an open transaction's log exists and is locked by that transaction -/
theorem Inv.named_row {s : State} (h : Inv s) {A t i : Nat} (hn : Names s A t i) :
    ∃ l T, s.locks t i = some l ∧ l.tx = A ∧ s.tables t = some T ∧ i < T.rows.length := by
  obtain ⟨x, hx, u, hu, ht, hi⟩ := hn
  obtain ⟨l, hl, hA⟩ := h.named A x hx u hu
  rw [ht, hi] at hl
  obtain ⟨T, hT, hlt⟩ := h.lockRow t i l hl
  exact ⟨l, T, hl, hA, hT, hlt⟩

/-- two different open transactions never name the same row -/
theorem Inv.names_excl {s : State} (h : Inv s) {A B t i : Nat} (ha : Names s A t i) (hb : Names s B t i) : A = B := by
  obtain ⟨l, _, hl, hA, _⟩ := h.named_row ha
  obtain ⟨l', _, hl', hB, _⟩ := h.named_row hb
  rw [hl] at hl'
  cases hl'
  rw [← hA, ← hB]

theorem filter_onKey_eq_nil {L : List Undo} {t i : Nat} (h : ∀ u ∈ L, ¬(u.table = t ∧ u.row = i)) :
    L.filter (onKey t i) = [] := by
  rw [List.filter_eq_nil_iff]
  intro u hu hk
  exact h u hu (onKey_iff.1 hk)

theorem not_names_filter {s : State} {A t i : Nat} {x : Tx} (hx : s.txs A = some x) (hn : ¬Names s A t i) :
    x.undo.reverse.filter (onKey t i) = [] := by
  apply filter_onKey_eq_nil
  intro u hu hk
  exact hn ⟨x, hx, u, List.mem_reverse.1 hu, hk⟩

/-! ## undo folds under the invariant -/

theorem applyUndoT_rowLen (T : Table) (u : Undo) (h : ∀ r ∈ T.rows, r.vals.length = T.ncols) :
    ∀ r ∈ (applyUndoT T u).1.rows, r.vals.length = (applyUndoT T u).1.ncols := by
  rw [(applyUndoT_static T u).1]
  cases u with
  | inserted t i idx =>
    simp only [applyUndoT, slabDelete]
    split
    · rename_i r hr
      split
      · intro r' hr'
        rcases List.mem_or_eq_of_mem_set hr' with h1 | h1
        · exact h r' h1
        · subst h1; exact h r (List.mem_of_getElem? hr)
      · exact h
    · exact h
  | updated t i old chg =>
    simp only [applyUndoT, restoreRow]
    split
    · rename_i r hr
      split
      · rename_i hc
        simp only [Option.getD_some]
        intro r' hr'
        rcases List.mem_or_eq_of_mem_set hr' with h1 | h1
        · exact h r' h1
        · subst h1; exact hc.2
      · exact h
    · exact h
  | deleted t i old idx =>
    simp only [applyUndoT, restoreDeletedRow]
    split
    · rename_i r hr
      split
      · rename_i hc
        simp only [Option.getD_some]
        intro r' hr'
        rcases List.mem_or_eq_of_mem_set hr' with h1 | h1
        · exact h r' h1
        · subst h1; exact hc.2
      · exact h
    · exact h

/-- shape of a table that no undo changes -/
def shape (T : Table) : Nat × List Nat × List Nat × Nat := (T.ncols, T.hashOn, T.btreeOn, T.rows.length)

theorem applyUndo_shape (acc : State × Nat) (u : Undo) (t : Nat) :
    ((applyUndo acc u).1.tables t).map shape = (acc.1.tables t).map shape := by
  unfold applyUndo
  cases hT : acc.1.tables u.table with
  | none => rfl
  | some T =>
    simp only [setTable_tables]
    split
    · rename_i he; subst he
      have := applyUndoT_static T u
      simp [hT, shape, this.1, this.2.1, this.2.2.1, this.2.2.2]
    · rfl

theorem foldl_applyUndo_shape (M : List Undo) (acc : State × Nat) (t : Nat) :
    ((M.foldl applyUndo acc).1.tables t).map shape = (acc.1.tables t).map shape := by
  induction M generalizing acc with
  | nil => rfl
  | cons u M ih => simp only [List.foldl_cons]; rw [ih, applyUndo_shape]

theorem applyUndo_ntables (acc : State × Nat) (u : Undo) : (applyUndo acc u).1.ntables = acc.1.ntables := by
  unfold applyUndo; split <;> rfl

theorem foldl_applyUndo_ntables (M : List Undo) (acc : State × Nat) :
    (M.foldl applyUndo acc).1.ntables = acc.1.ntables := by
  induction M generalizing acc with
  | nil => rfl
  | cons u M ih => simp only [List.foldl_cons]; rw [ih, applyUndo_ntables]

/-- the table-level facts an undo fold needs and keeps -/
structure TabOK (tb : Nat → Option Table) (M : List Undo) : Prop where
  rowLen : ∀ t T, tb t = some T → ∀ r ∈ T.rows, r.vals.length = T.ncols
  idx : ∀ t T, tb t = some T → IdxExact T
  seq : ∀ t T i r, tb t = some T → T.rows[i]? = some r →
    GoodSeq T.ncols (T.hashOn ++ T.btreeOn) (M.filter (onKey t i)) r
  ex : ∀ u ∈ M, ∃ T r, tb u.table = some T ∧ T.rows[u.row]? = some r

theorem applyUndo_tabOK (acc : State × Nat) (u : Undo) (M : List Undo) (h : TabOK acc.1.tables (u :: M)) :
    TabOK (applyUndo acc u).1.tables M ∧ (applyUndo acc u).2 = acc.2 := by
  obtain ⟨T, r, hT, hr⟩ := h.ex u List.mem_cons_self
  have hseq := h.seq u.table T u.row r hT hr
  have hk : onKey u.table u.row u = true := onKey_iff.2 ⟨rfl, rfl⟩
  simp only [List.filter_cons, hk, ↓reduceIte, GoodSeq] at hseq
  have hX := idxExact_applyUndoT T u r (h.idx _ _ hT) hr hseq.1
  have hst := applyUndoT_static T u
  have htab : ∀ t, (applyUndo acc u).1.tables t = if t = u.table then some (applyUndoT T u).1 else acc.1.tables t := by
    intro t; unfold applyUndo; simp only [hT, setTable_tables]
  refine ⟨⟨?_, ?_, ?_, ?_⟩, ?_⟩
  · intro t T' hT'
    rw [htab] at hT'
    split at hT'
    · cases hT'; exact applyUndoT_rowLen T u (h.rowLen _ _ hT)
    · exact h.rowLen t T' hT'
  · intro t T' hT'
    rw [htab] at hT'
    split at hT'
    · cases hT'; exact hX.1
    · exact h.idx t T' hT'
  · intro t T' i r' hT' hr'
    rw [htab] at hT'
    split at hT'
    · rename_i he
      cases hT'
      subst he
      rw [hst.1, hst.2.1, hst.2.2.1]
      by_cases hi : i = u.row
      · subst hi
        rw [applyUndoT_row_self T u r hr] at hr'
        cases hr'
        exact hseq.2
      · rw [applyUndoT_rows_other T u i hi] at hr'
        have := h.seq u.table T i r' hT hr'
        have hk' : onKey u.table i u = false := by
          simp only [onKey, beq_self_eq_true, Bool.true_and, beq_eq_false_iff_ne, ne_eq]
          exact fun e => hi e.symm
        simpa only [List.filter_cons, hk', Bool.false_eq_true, ↓reduceIte] using this
    · rename_i hne
      have := h.seq t T' i r' hT' hr'
      have hk' : onKey t i u = false := by
        simp only [onKey, Bool.and_eq_false_imp, beq_iff_eq]
        intro e; exact absurd e.symm hne
      simpa only [List.filter_cons, hk', Bool.false_eq_true, ↓reduceIte] using this
  · intro v hv
    obtain ⟨T', r', hT', hr'⟩ := h.ex v (List.mem_cons_of_mem _ hv)
    rw [htab]
    split
    · rename_i he
      rw [he, hT] at hT'
      cases hT'
      have hlt : v.row < (applyUndoT T u).1.rows.length := by
        rw [hst.2.2.2]; exact (List.getElem?_eq_some_iff.1 hr').1
      exact ⟨_, _, rfl, List.getElem?_eq_getElem hlt⟩
    · exact ⟨T', r', hT', hr'⟩
  · unfold applyUndo
    simp only [hT, hX.2, Nat.add_zero]

theorem foldl_applyUndo_tabOK (M : List Undo) (acc : State × Nat) (h : TabOK acc.1.tables M) :
    TabOK (M.foldl applyUndo acc).1.tables [] ∧ (M.foldl applyUndo acc).2 = acc.2 := by
  induction M generalizing acc with
  | nil => exact ⟨h, rfl⟩
  | cons u M ih =>
    simp only [List.foldl_cons]
    have h1 := applyUndo_tabOK acc u M h
    have h2 := ih (applyUndo acc u) h1.1
    exact ⟨h2.1, by rw [h2.2, h1.2]⟩

/-! ## what one transition does to the image another transaction's rollback would restore -/

/-- a transition in which `B` is a bystander: its log and the rows it names are untouched -/
def Other (s s' : State) (B : Nat) : Prop :=
  s'.txs B = s.txs B ∧ ∀ t i, Names s B t i → rowAt s' t i = rowAt s t i ∧ ncolsAt s' t = ncolsAt s t

/-- a transition made by `A` itself: its log grows, and undoing the longer log on the new tables
    gives the same live image — of EVERY row — as undoing the old log on the old tables -/
def Own (s s' : State) (A : Nat) : Prop :=
  ∃ x x' more, s.txs A = some x ∧ s'.txs A = some x' ∧ x'.undo = x.undo ++ more ∧
    ∀ t i, liveOf (restoredRow s' x'.undo t i) = liveOf (restoredRow s x.undo t i)

structure StepOK (s s' : State) (a : Option Nat) : Prop where
  inv : Inv s'
  next : s.nextTx ≤ s'.nextTx
  gone : ∀ B, s.txs B = none → B < s.nextTx → s'.txs B = none
  other : ∀ B x, some B ≠ a → s.txs B = some x → s'.txs B = none ∨ Other s s' B
  own : ∀ A x, a = some A → s.txs A = some x → s'.txs A = none ∨ Own s s' A

theorem Other.refl (s : State) (B : Nat) : Other s s B := ⟨rfl, fun _ _ _ => ⟨rfl, rfl⟩⟩

theorem Other.trans {s s1 s2 : State} {B : Nat} (h1 : Other s s1 B) (h2 : Other s1 s2 B) : Other s s2 B := by
  refine ⟨h2.1.trans h1.1, ?_⟩
  intro t i hn
  have hn1 : Names s1 B t i := by
    obtain ⟨x, hx, rest⟩ := hn
    exact ⟨x, by rw [h1.1]; exact hx, rest⟩
  have a := h1.2 t i hn
  have b := h2.2 t i hn1
  exact ⟨b.1.trans a.1, b.2.trans a.2⟩

theorem Own.refl {s : State} {A : Nat} {x : Tx} (hx : s.txs A = some x) : Own s s A :=
  ⟨x, x, [], hx, hx, by simp, fun _ _ => rfl⟩

theorem StepOK.refl {s : State} (h : Inv s) (a : Option Nat) : StepOK s s a where
  inv := h
  next := Nat.le_refl _
  gone := fun _ h _ => h
  other := fun B _ _ _ => Or.inr (Other.refl s B)
  own := fun _ _ _ hx => Or.inr (Own.refl hx)

/-- `Other` from equal tables and equal transaction entry -/
theorem Other.of_tables {s s' : State} {B : Nat} (ht : s'.tables = s.tables) (hx : s'.txs B = s.txs B) : Other s s' B :=
  ⟨hx, fun t i _ => ⟨by simp [rowAt, ht], by simp [ncolsAt, ht]⟩⟩

/-- sequential composition when the actors of the parts are not open at the start (the internal
    transaction of a non-transactional statement) -/
theorem StepOK.comp {s s1 s2 : State} {a a' : Option Nat} (hs : Inv s) (h1 : StepOK s s1 a) (h2 : StepOK s1 s2 a')
    (hI : ∀ I, (a = some I ∨ a' = some I) → s.txs I = none) : StepOK s s2 none where
  inv := h2.inv
  next := Nat.le_trans h1.next h2.next
  gone := fun B hB hlt => h2.gone B (h1.gone B hB hlt) (Nat.lt_of_lt_of_le hlt h1.next)
  other := by
    intro B x _ hx
    have hBa : some B ≠ a := fun e => by rw [hI B (Or.inl e.symm)] at hx; cases hx
    have hBa' : some B ≠ a' := fun e => by rw [hI B (Or.inr e.symm)] at hx; cases hx
    rcases h1.other B x hBa hx with h | h
    · exact Or.inl (h2.gone B h (Nat.lt_of_lt_of_le (hs.txLt B x hx) h1.next))
    · have hx1 : s1.txs B = some x := by rw [h.1]; exact hx
      rcases h2.other B x hBa' hx1 with h' | h'
      · exact Or.inl h'
      · exact Or.inr (h.trans h')
  own := by intro A x h; cases h

/-! ## begin, commit -/

theorem begin_txs (s : State) (k : Nat) :
    (begin s).1.txs k = if k = s.nextTx then some { phase := .active, startedAt := s.now, undo := [] } else s.txs k := rfl

theorem Inv.nextTx_none {s : State} (h : Inv s) : s.txs s.nextTx = none := by
  cases hx : s.txs s.nextTx with
  | none => rfl
  | some x => exact absurd (h.txLt _ x hx) (Nat.lt_irrefl _)

theorem stepOK_begin {s : State} (h : Inv s) : StepOK s (begin s).1 none where
  inv := {
    txLt := by
      intro A x hx
      rw [begin_txs] at hx
      show A < s.nextTx + 1
      split at hx
      · omega
      · exact Nat.lt_succ_of_lt (h.txLt A x hx)
    tabLt := h.tabLt
    fresh := h.fresh
    lockRow := h.lockRow
    named := by
      intro A x hx u hu
      rw [begin_txs] at hx
      split at hx
      · cases hx; cases hu
      · exact h.named A x hx u hu
    rowLen := h.rowLen
    idx := h.idx
    chain := by
      intro A x hx t T i r hT hr
      rw [begin_txs] at hx
      split at hx
      · cases hx; trivial
      · exact h.chain A x hx t T i r hT hr }
  next := Nat.le_succ _
  gone := by
    intro B hB hlt
    rw [begin_txs]
    split
    · omega
    · exact hB
  other := by
    intro B x _ hx
    right
    refine Other.of_tables rfl ?_
    rw [begin_txs]
    split
    · rename_i he; subst he; rw [h.nextTx_none] at hx; cases hx
    · rfl
  own := by intro A x h; cases h

theorem release_keeps {s : State} {t i A : Nat} {l : Lock} (hl : s.locks t i = some l) (hne : l.tx ≠ A) :
    (release s A).locks t i = some l := by
  simp only [release, hl]
  split
  · rename_i hc; exact absurd hc.1 hne
  · rfl

theorem stepOK_commit {s : State} (h : Inv s) (A : Nat) : StepOK s (commit s A).1 (some A) := by
  unfold commit
  split
  · exact StepOK.refl h _
  · exact {
      inv := {
        txLt := by
          intro B x hx
          simp only [setTx_txs] at hx
          split at hx
          · cases hx
          · exact h.txLt B x hx
        tabLt := h.tabLt
        fresh := by
          intro t i l hl
          exact h.fresh t i l (release_locks_some hl).1
        lockRow := by
          intro t i l hl
          exact h.lockRow t i l (release_locks_some hl).1
        named := by
          intro B x hx u hu
          simp only [setTx_txs] at hx
          split at hx
          · cases hx
          · rename_i hne
            obtain ⟨l, hl, hB⟩ := h.named B x hx u hu
            exact ⟨l, release_keeps hl (by rw [hB]; exact hne), hB⟩
        rowLen := h.rowLen
        idx := h.idx
        chain := by
          intro B x hx
          simp only [setTx_txs] at hx
          split at hx
          · cases hx
          · exact h.chain B x hx }
      next := Nat.le_refl _
      gone := by
        intro B hB _
        simp only [setTx_txs]
        split
        · rfl
        · exact hB
      other := by
        intro B x hne _
        right
        refine Other.of_tables rfl ?_
        simp only [setTx_txs]
        split
        · rename_i he; subst he; exact absurd rfl hne
        · rfl
      own := by
        intro A' x he _
        cases he
        left
        simp }

/-! ## rollback -/

theorem gate_none {s : State} {A : Nat} (hg : gate s A = none) : ∃ x, s.txs A = some x := by
  unfold gate at hg
  cases hx : s.txs A with
  | none => simp [hx] at hg
  | some x => exact ⟨x, rfl⟩

theorem tabOK_of_inv {s : State} (h : Inv s) {A : Nat} {x : Tx} (hx : s.txs A = some x) :
    TabOK s.tables x.undo.reverse where
  rowLen := h.rowLen
  idx := h.idx
  seq := h.chain A x hx
  ex := by
    intro u hu
    obtain ⟨l, T, _, _, hT, hlt⟩ := h.named_row ⟨x, hx, u, List.mem_reverse.1 hu, rfl, rfl⟩
    exact ⟨T, _, hT, List.getElem?_eq_getElem hlt⟩

theorem shape_of_fold {M : List Undo} {acc : State × Nat} {t : Nat} {T' : Table}
    (h : (M.foldl applyUndo acc).1.tables t = some T') : ∃ T, acc.1.tables t = some T ∧ shape T' = shape T := by
  have := foldl_applyUndo_shape M acc t
  rw [h] at this
  cases hT : acc.1.tables t with
  | none => rw [hT] at this; cases this
  | some T => rw [hT] at this; exact ⟨T, rfl, by simpa using this⟩

theorem shape_to_fold {M : List Undo} {acc : State × Nat} {t : Nat} {T : Table}
    (h : acc.1.tables t = some T) : ∃ T', (M.foldl applyUndo acc).1.tables t = some T' ∧ shape T' = shape T := by
  have := foldl_applyUndo_shape M acc t
  rw [h] at this
  cases hT : (M.foldl applyUndo acc).1.tables t with
  | none => rw [hT] at this; cases this
  | some T' => rw [hT] at this; exact ⟨T', rfl, by simpa using this⟩

theorem rollback_form {s : State} {A : Nat} {x : Tx} (hg : gate s A = none) (hx : s.txs A = some x) :
    rollback s A = (setTx (release (x.undo.reverse.foldl applyUndo (s, 0)).1 A) A none,
      if (x.undo.reverse.foldl applyUndo (s, 0)).2 = 0 then .ok else .err .rollbackFailed) := by
  unfold rollback
  rw [hg]
  simp only [hx]

/-- under the invariant a rollback reports no error and leaves exact indexes -/
theorem rollback_ok {s : State} (h : Inv s) {A : Nat} (hg : gate s A = none) : (rollback s A).2 = .ok := by
  obtain ⟨x, hx⟩ := gate_none hg
  rw [rollback_form hg hx]
  have := (foldl_applyUndo_tabOK x.undo.reverse (s, 0) (tabOK_of_inv h hx)).2
  show (if _ = 0 then _ else _) = _
  rw [this]; rfl

theorem stepOK_rollback {s : State} (h : Inv s) (A : Nat) : StepOK s (rollback s A).1 (some A) := by
  cases hg : gate s A with
  | some e =>
    have : (rollback s A).1 = s := by unfold rollback; rw [hg]
    rw [this]; exact StepOK.refl h _
  | none =>
    obtain ⟨x, hx⟩ := gate_none hg
    rw [rollback_form hg hx]
    have hU := foldl_applyUndo_tabOK x.undo.reverse (s, 0) (tabOK_of_inv h hx)
    have f := foldl_applyUndo_fields x.undo.reverse (s, 0)
    generalize hUdef : x.undo.reverse.foldl applyUndo (s, 0) = U at hU f
    have hnt : U.1.ntables = s.ntables := by rw [← hUdef]; exact foldl_applyUndo_ntables _ _
    -- rows named by another transaction are not touched by the fold
    have hkeep : ∀ B t i, B ≠ A → Names s B t i → rowAt U.1 t i = rowAt s t i := by
      intro B t i hne hn
      rw [← hUdef]
      apply foldl_applyUndo_rowAt_other
      intro u hu hk
      exact hne (h.names_excl hn ⟨x, hx, u, List.mem_reverse.1 hu, hk⟩)
    have hnc : ∀ t, ncolsAt U.1 t = ncolsAt s t := by
      intro t; rw [← hUdef]; exact foldl_applyUndo_ncolsAt _ _ _
    exact {
      inv := {
        txLt := by
          intro B x' hx'
          simp only [setTx_txs, release_txs] at hx'
          show B < U.1.nextTx
          rw [f.2.2.2.2.1]
          split at hx'
          · cases hx'
          · rw [f.2.2.2.2.2] at hx'; exact h.txLt B x' hx'
        tabLt := by
          intro t T' hT'
          show t < U.1.ntables
          rw [hnt]
          obtain ⟨T, hT, _⟩ := shape_of_fold (hUdef ▸ hT' : (x.undo.reverse.foldl applyUndo (s, 0)).1.tables t = some T')
          exact h.tabLt t T hT
        fresh := by
          intro t i l hl
          have := (release_locks_some hl).1
          rw [f.1] at this
          show l.expired U.1.now U.1.lockTimeout = false
          rw [f.2.2.1, f.2.2.2.1]
          exact h.fresh t i l this
        lockRow := by
          intro t i l hl
          have := (release_locks_some hl).1
          rw [f.1] at this
          obtain ⟨T, hT, hlt⟩ := h.lockRow t i l this
          obtain ⟨T', hT', hsh⟩ := shape_to_fold (M := x.undo.reverse) (acc := (s, 0)) hT
          rw [hUdef] at hT'
          refine ⟨T', hT', ?_⟩
          simp only [shape, Prod.mk.injEq] at hsh
          rw [hsh.2.2.2]; exact hlt
        named := by
          intro B x' hx' u hu
          simp only [setTx_txs, release_txs] at hx'
          split at hx'
          · cases hx'
          · rename_i hne
            rw [f.2.2.2.2.2] at hx'
            obtain ⟨l, hl, hB⟩ := h.named B x' hx' u hu
            refine ⟨l, ?_, hB⟩
            apply release_keeps
            · rw [f.1]; exact hl
            · rw [hB]; exact hne
        rowLen := hU.1.rowLen
        idx := hU.1.idx
        chain := by
          intro B x' hx' t T' i r' hT' hr'
          simp only [setTx_txs, release_txs] at hx'
          split at hx'
          · cases hx'
          · rename_i hne
            rw [f.2.2.2.2.2] at hx'
            by_cases hn : Names s B t i
            · have hk := hkeep B t i hne hn
              obtain ⟨T, hT, hsh⟩ := shape_of_fold (hUdef ▸ hT' : (x.undo.reverse.foldl applyUndo (s, 0)).1.tables t = some T')
              simp only [shape, Prod.mk.injEq] at hsh
              have hT'' : U.1.tables t = some T' := hT'
              have hT : s.tables t = some T := hT
              simp only [rowAt, hT'', hT, Option.bind_some] at hk
              rw [hsh.1, hsh.2.1, hsh.2.2.1]
              exact h.chain B x' hx' t T i r' hT (by rw [← hk]; exact hr')
            · rw [not_names_filter hx' hn]; trivial }
      next := by show s.nextTx ≤ U.1.nextTx; rw [f.2.2.2.2.1]; exact Nat.le_refl _
      gone := by
        intro B hB _
        simp only [setTx_txs, release_txs]
        split
        · rfl
        · rw [f.2.2.2.2.2]; exact hB
      other := by
        intro B x' hne hx'
        right
        have hBA : B ≠ A := fun e => hne (by rw [e])
        refine ⟨?_, ?_⟩
        · simp only [setTx_txs, release_txs, hBA, ↓reduceIte]
          rw [f.2.2.2.2.2]
        · intro t i hn
          exact ⟨hkeep B t i hBA hn, hnc t⟩
      own := by
        intro A' x' he _
        cases he
        left
        simp }

/-! ## one transactional write of one row (shared by insert / update / delete) -/

theorem onKey_false_of_row {t i j : Nat} {u : Undo} (hur : u.row = j) (hi : i ≠ j) : onKey t i u = false := by
  simp only [onKey, Bool.and_eq_false_imp, beq_iff_eq, beq_eq_false_iff_ne, ne_eq]
  intro _ e; exact hi (by rw [← e, hur])

theorem onKey_false_of_table {t t' i : Nat} {u : Undo} (hut : u.table = t) (ht : t' ≠ t) : onKey t' i u = false := by
  simp only [onKey, Bool.and_eq_false_imp, beq_iff_eq]
  intro e; exact absurd (by rw [← e, hut]) ht

theorem restoredRow_eq {s : State} {L : List Undo} {t i : Nat} {T : Table} (hT : s.tables t = some T) :
    restoredRow s L t i = (T.rows[i]?).map (undoRows T.ncols (L.reverse.filter (onKey t i))) := by
  simp [restoredRow, ncolsAt, rowAt, hT]

theorem restoredRow_none {s : State} {L : List Undo} {t i : Nat} (hT : s.tables t = none) :
    restoredRow s L t i = none := by
  simp [restoredRow, ncolsAt, hT]

theorem write_row {s s' : State} (h : Inv s) {A t j : Nat} {x : Tx} {T T' : Table} {u : Undo} {r' : Row}
    (hx : s.txs A = some x) (hT : s.tables t = some T)
    (htab : ∀ k, s'.tables k = if k = t then some T' else s.tables k)
    (htx : ∀ k, s'.txs k = if k = A then some { x with undo := x.undo ++ [u] } else s.txs k)
    (hut : u.table = t) (hur : u.row = j)
    (hnc : T'.ncols = T.ncols) (hho : T'.hashOn = T.hashOn) (hbo : T'.btreeOn = T.btreeOn)
    (hrows : ∀ i, i ≠ j → T'.rows[i]? = T.rows[i]?) (hrj : T'.rows[j]? = some r')
    (hlenr : r'.vals.length = T.ncols) (hidx : IdxExact T')
    (hpre : undoPre T.ncols (T.hashOn ++ T.btreeOn) u r')
    (hback : match T.rows[j]? with
      | some r => undoRow T.ncols u r' = r
      | none => (undoRow T.ncols u r').alive = false ∧ ¬Names s A t j)
    (hexcl : ∀ B, B ≠ A → ¬Names s B t j) :
    (∀ k T'', s'.tables k = some T'' → ∀ r ∈ T''.rows, r.vals.length = T''.ncols) ∧
    (∀ k T'', s'.tables k = some T'' → IdxExact T'') ∧
    (∀ B xB, s'.txs B = some xB → ∀ k T'' i r, s'.tables k = some T'' → T''.rows[i]? = some r →
      GoodSeq T''.ncols (T''.hashOn ++ T''.btreeOn) (xB.undo.reverse.filter (onKey k i)) r) ∧
    (∀ B xB, B ≠ A → s.txs B = some xB → Other s s' B) ∧ Own s s' A := by
  have hrev : (x.undo ++ [u]).reverse = u :: x.undo.reverse := by simp
  have hkj : onKey t j u = true := onKey_iff.2 ⟨hut, hur⟩
  refine ⟨?_, ?_, ?_, ?_, ?_⟩
  · intro k T'' hT'' r hr
    rw [htab] at hT''
    split at hT''
    · cases hT''
      rw [hnc]
      obtain ⟨i, hi⟩ := List.getElem?_of_mem hr
      by_cases hij : i = j
      · subst hij; rw [hrj] at hi; cases hi; exact hlenr
      · rw [hrows i hij] at hi
        exact h.rowLen t T hT r (List.mem_of_getElem? hi)
    · exact h.rowLen k T'' hT'' r hr
  · intro k T'' hT''
    rw [htab] at hT''
    split at hT''
    · cases hT''; exact hidx
    · exact h.idx k T'' hT''
  · intro B xB hxB k T'' i r hT'' hr
    rw [htab] at hT''
    rw [htx] at hxB
    by_cases hk : k = t
    · subst hk
      simp only [↓reduceIte, Option.some.injEq] at hT''
      subst hT''
      rw [hnc, hho, hbo]
      by_cases hB : B = A
      · subst hB
        simp only [↓reduceIte, Option.some.injEq] at hxB
        subst hxB
        simp only [hrev]
        by_cases hi : i = j
        · subst hi
          rw [hrj] at hr; cases hr
          simp only [List.filter_cons, hkj, ↓reduceIte, GoodSeq]
          refine ⟨hpre, ?_⟩
          cases hTj : T.rows[i]? with
          | none =>
            rw [hTj] at hback
            rw [not_names_filter hx hback.2]; trivial
          | some r0 =>
            rw [hTj] at hback
            simp only at hback
            rw [hback]
            exact h.chain B x hx k T i r0 hT hTj
        · simp only [List.filter_cons, onKey_false_of_row hur hi, Bool.false_eq_true, ↓reduceIte]
          rw [hrows i hi] at hr
          exact h.chain B x hx k T i r hT hr
      · simp only [hB, ↓reduceIte] at hxB
        by_cases hi : i = j
        · subst hi
          rw [not_names_filter hxB (hexcl B hB)]; trivial
        · rw [hrows i hi] at hr
          exact h.chain B xB hxB k T i r hT hr
    · simp only [hk, ↓reduceIte] at hT''
      by_cases hB : B = A
      · subst hB
        simp only [↓reduceIte, Option.some.injEq] at hxB
        subst hxB
        simp only [hrev, List.filter_cons, onKey_false_of_table hut hk, Bool.false_eq_true, ↓reduceIte]
        exact h.chain B x hx k T'' i r hT'' hr
      · simp only [hB, ↓reduceIte] at hxB
        exact h.chain B xB hxB k T'' i r hT'' hr
  · intro B xB hB hxB
    refine ⟨by rw [htx]; simp [hB], ?_⟩
    intro k i hn
    have hkt : ¬(k = t ∧ i = j) := fun e => hexcl B hB (e.1 ▸ e.2 ▸ hn)
    refine ⟨?_, ?_⟩
    · simp only [rowAt, htab]
      by_cases hk : k = t
      · subst hk
        simp only [↓reduceIte, Option.bind_some, hT]
        exact hrows i (fun e => hkt ⟨rfl, e⟩)
      · simp [hk]
    · simp only [ncolsAt, htab]
      by_cases hk : k = t
      · subst hk; simp [hT, hnc]
      · simp [hk]
  · refine ⟨x, { x with undo := x.undo ++ [u] }, [u], hx, by rw [htx]; simp, rfl, ?_⟩
    intro k i
    by_cases hk : k = t
    · subst hk
      rw [restoredRow_eq (htab k ▸ by simp : s'.tables k = some T'), restoredRow_eq hT, hnc]
      simp only [hrev]
      by_cases hi : i = j
      · subst hi
        simp only [List.filter_cons, hkj, ↓reduceIte, hrj, Option.map_some, undoRows_cons]
        cases hTj : T.rows[i]? with
        | none =>
          rw [hTj] at hback
          rw [not_names_filter hx hback.2]
          simp [liveOf, hback.1]
        | some r0 =>
          rw [hTj] at hback
          simp only at hback
          rw [hback]; rfl
      · simp only [List.filter_cons, onKey_false_of_row hur hi, Bool.false_eq_true, ↓reduceIte]
        rw [hrows i hi]
    · have hs' : s'.tables k = s.tables k := by rw [htab]; simp [hk]
      cases hTk : s.tables k with
      | none => rw [restoredRow_none hTk, restoredRow_none (hs'.trans hTk)]
      | some Tk =>
        rw [restoredRow_eq hTk, restoredRow_eq (hs'.trans hTk)]
        simp only [hrev, List.filter_cons, onKey_false_of_table hut hk, Bool.false_eq_true, ↓reduceIte]

/-! ## tx_insert -/

theorem Inv.not_names_new {s : State} (h : Inv s) {t : Nat} {T : Table} (hT : s.tables t = some T) (B : Nat) :
    ¬Names s B t T.rows.length := by
  intro hn
  obtain ⟨_, T0, _, _, hT0, hlt⟩ := h.named_row hn
  rw [hT] at hT0; cases hT0
  exact Nat.lt_irrefl _ hlt

theorem Inv.no_lock_new {s : State} (h : Inv s) {t : Nat} {T : Table} (hT : s.tables t = some T) :
    s.locks t T.rows.length = none := by
  cases hl : s.locks t T.rows.length with
  | none => rfl
  | some l =>
    obtain ⟨T0, hT0, hlt⟩ := h.lockRow _ _ l hl
    rw [hT] at hT0; cases hT0
    exact absurd hlt (Nat.lt_irrefl _)

theorem txInsert_ok_form {s : State} {A t : Nat} {vals : List Val} {T : Table} {x : Tx}
    (hg : gate s A = none) (hx : s.txs A = some x) (hT : s.tables t = some T) (hlen : rowBad T vals = false)
    (hnl : s.locks t T.rows.length = none) :
    txInsert s A t vals =
      (setTx (setTable (lockAll s A t [T.rows.length]) t (insertT T vals)) A
        (some { x with undo := x.undo ++ [.inserted t T.rows.length ((T.hashOn ++ T.btreeOn).map fun c => (c, val vals c))] }),
       .okN T.rows.length) := by
  have hb : lockBlocked s A t [T.rows.length] = false := by simp [lockBlocked, hnl]
  unfold txInsert
  rw [hg]
  simp only [hT, hlen, ne_eq, not_true_eq_false, ↓reduceIte, hb, Bool.false_eq_true]
  unfold recordUndo
  simp only [setTable_txs, lockAll_txs, hx]
  rfl

theorem getElem?_append_single_ne {α : Type} (l : List α) (a : α) (i : Nat) (hi : i ≠ l.length) :
    (l ++ [a])[i]? = l[i]? := by
  by_cases hlt : i < l.length
  · exact List.getElem?_append_left hlt
  · have h1 : l.length < i := by omega
    rw [List.getElem?_eq_none_iff.2 (by simp; omega), List.getElem?_eq_none_iff.2 (by omega)]

theorem stepOK_txInsert {s : State} (h : Inv s) (A t : Nat) (vals : List Val) :
    StepOK s (txInsert s A t vals).1 (some A) := by
  cases hg : gate s A with
  | some e =>
    have : (txInsert s A t vals).1 = s := by unfold txInsert; rw [hg]
    rw [this]; exact StepOK.refl h _
  | none =>
    obtain ⟨x, hx⟩ := gate_none hg
    cases hT : s.tables t with
    | none =>
      have : (txInsert s A t vals).1 = s := by unfold txInsert; rw [hg]; simp only [hT]
      rw [this]; exact StepOK.refl h _
    | some T =>
      by_cases hbad : rowBad T vals = false
      · have hnl := h.no_lock_new hT
        have hlen : vals.length = T.ncols := rowBad_false_len hbad
        rw [txInsert_ok_form hg hx hT hbad hnl]
        generalize hu : Undo.inserted t T.rows.length ((T.hashOn ++ T.btreeOn).map fun c => (c, val vals c)) = u
        have hut : u.table = t := by rw [← hu]; rfl
        have hur : u.row = T.rows.length := by rw [← hu]; rfl
        have hW := write_row (s' := setTx (setTable (lockAll s A t [T.rows.length]) t (insertT T vals)) A
            (some { x with undo := x.undo ++ [u] })) h (T' := insertT T vals) (r' := { alive := true, vals := vals })
          hx hT (fun k => rfl) (fun k => rfl) hut hur rfl rfl rfl
          (fun i hi => getElem?_append_single_ne _ _ i hi) (by simp [insertT]) hlen (idxExact_insertT T vals (h.idx t T hT))
          (by rw [← hu]; rfl)
          (by
            have : T.rows[T.rows.length]? = none := List.getElem?_eq_none_iff.2 (Nat.le_refl _)
            rw [this]
            exact ⟨by rw [← hu]; rfl, h.not_names_new hT A⟩)
          (fun B _ => h.not_names_new hT B)
        have hlk : ∀ t' i, (setTx (setTable (lockAll s A t [T.rows.length]) t (insertT T vals)) A
            (some { x with undo := x.undo ++ [u] })).locks t' i =
            if t' = t ∧ i ∈ [T.rows.length] then some { tx := A, acquiredAt := s.now } else s.locks t' i := fun _ _ => rfl
        exact {
          inv := {
            txLt := by
              intro B xB hxB
              simp only [setTx_txs] at hxB
              show B < s.nextTx
              split at hxB
              · rename_i he; subst he; exact h.txLt B x hx
              · exact h.txLt B xB hxB
            tabLt := by
              intro k T'' hT''
              simp only [setTx_tables, setTable_tables] at hT''
              show k < s.ntables
              split at hT''
              · rename_i he; subst he; exact h.tabLt k T hT
              · exact h.tabLt k T'' hT''
            fresh := by
              intro t' i l hl
              rw [hlk] at hl
              show l.expired s.now s.lockTimeout = false
              split at hl
              · cases hl; simp [Lock.expired]
              · exact h.fresh t' i l hl
            lockRow := by
              intro t' i l hl
              rw [hlk] at hl
              simp only [setTx_tables, setTable_tables]
              split at hl
              · rename_i hc
                simp only [List.mem_singleton] at hc
                rw [hc.1, hc.2]
                exact ⟨insertT T vals, by simp, by simp [insertT]⟩
              · obtain ⟨T0, hT0, hlt⟩ := h.lockRow t' i l hl
                by_cases ht : t' = t
                · subst ht
                  rw [hT] at hT0; cases hT0
                  exact ⟨insertT T vals, by simp, by simp [insertT]; omega⟩
                · exact ⟨T0, by simp [ht, hT0], hlt⟩
            named := by
              intro B xB hxB v hv
              simp only [setTx_txs] at hxB
              rw [hlk]
              split at hxB
              · rename_i he; subst he
                cases hxB
                simp only [List.mem_append, List.mem_singleton] at hv
                rcases hv with hv | hv
                · obtain ⟨l, hl, hB⟩ := h.named B x hx v hv
                  split
                  · exact ⟨_, rfl, rfl⟩
                  · exact ⟨l, hl, hB⟩
                · subst hv
                  rw [hut, hur]
                  simp
              · rename_i hne
                obtain ⟨l, hl, hB⟩ := h.named B xB hxB v hv
                split
                · rename_i hc
                  simp only [List.mem_singleton] at hc
                  rw [hc.1, hc.2, hnl] at hl; cases hl
                · exact ⟨l, hl, hB⟩
            rowLen := hW.1
            idx := hW.2.1
            chain := hW.2.2.1 }
          next := Nat.le_refl _
          gone := by
            intro B hB _
            simp only [setTx_txs]
            split
            · rename_i he; subst he; rw [hx] at hB; cases hB
            · exact hB
          other := by
            intro B xB hne hxB
            exact Or.inr (hW.2.2.2.1 B xB (fun e => hne (by rw [e])) hxB)
          own := by
            intro A' _ he _
            cases he
            exact Or.inr hW.2.2.2.2 }
      · have : (txInsert s A t vals).1 = s := by
          unfold txInsert; rw [hg]; simp only [hT, (Bool.not_eq_false _).mp hbad, ↓reduceIte]
        rw [this]; exact StepOK.refl h _

/-! ## the per-row bodies of tx_update / tx_delete -/

theorem Own.trans {s s1 s2 : State} {A : Nat} (h1 : Own s s1 A) (h2 : Own s1 s2 A) : Own s s2 A := by
  obtain ⟨x, x1, m1, hx, hx1, hm1, hl1⟩ := h1
  obtain ⟨x1', x2, m2, hx1', hx2, hm2, hl2⟩ := h2
  rw [hx1] at hx1'; cases hx1'
  exact ⟨x, x2, m1 ++ m2, hx, hx2, by rw [hm2, hm1, List.append_assoc], fun t i => (hl2 t i).trans (hl1 t i)⟩

/-- transaction `A`, holding the lock of the existing row `(t,i)`, replaces the row by `r'`,
    the table by `T'` (same shape) and records `u` -/
theorem write_existing {s : State} (h : Inv s) {A t i : Nat} {x : Tx} {T T' : Table} {u : Undo} {r r' : Row}
    (hx : s.txs A = some x) (hT : s.tables t = some T) (hr : T.rows[i]? = some r)
    (hlock : ∃ l, s.locks t i = some l ∧ l.tx = A)
    (hut : u.table = t) (hur : u.row = i)
    (hnc : T'.ncols = T.ncols) (hho : T'.hashOn = T.hashOn) (hbo : T'.btreeOn = T.btreeOn)
    (hrows : T'.rows = T.rows.set i r')
    (hlenr : r'.vals.length = T.ncols) (hidx : IdxExact T')
    (hpre : undoPre T.ncols (T.hashOn ++ T.btreeOn) u r')
    (hback : undoRow T.ncols u r' = r) :
    let s' := setTable (setTx s A (some { x with undo := x.undo ++ [u] })) t T'
    Inv s' ∧ Own s s' A ∧ (∀ B xB, B ≠ A → s.txs B = some xB → Other s s' B) := by
  intro s'
  have hlt : i < T.rows.length := (List.getElem?_eq_some_iff.1 hr).1
  have hexcl : ∀ B, B ≠ A → ¬Names s B t i := by
    intro B hne hn
    obtain ⟨l, hl, hA⟩ := hlock
    obtain ⟨l', _, hl', hB, _⟩ := h.named_row hn
    rw [hl] at hl'; cases hl'
    exact hne (hB.symm.trans hA)
  have hW := write_row (s' := s') h (T' := T') (r' := r') (j := i) hx hT (fun k => rfl) (fun k => rfl) hut hur hnc hho hbo
    (fun k hk => by rw [hrows, List.getElem?_set_ne (fun e => hk e.symm)])
    (by rw [hrows, List.getElem?_set_self hlt]) hlenr hidx hpre (by rw [hr]; exact hback) hexcl
  refine ⟨?_, hW.2.2.2.2, hW.2.2.2.1⟩
  exact {
    txLt := by
      intro B xB hxB
      simp only [s', setTable_txs, setTx_txs] at hxB
      show B < s.nextTx
      split at hxB
      · rename_i he; subst he; exact h.txLt B x hx
      · exact h.txLt B xB hxB
    tabLt := by
      intro k T'' hT''
      simp only [s', setTable_tables, setTx_tables] at hT''
      show k < s.ntables
      split at hT''
      · rename_i he; subst he; exact h.tabLt k T hT
      · exact h.tabLt k T'' hT''
    fresh := h.fresh
    lockRow := by
      intro t' k l hl
      obtain ⟨T0, hT0, hlt0⟩ := h.lockRow t' k l hl
      simp only [s', setTable_tables, setTx_tables]
      by_cases ht : t' = t
      · subst ht
        rw [hT] at hT0; cases hT0
        exact ⟨T', by simp, by rw [hrows, List.length_set]; exact hlt0⟩
      · exact ⟨T0, by simp [ht, hT0], hlt0⟩
    named := by
      intro B xB hxB v hv
      simp only [s', setTable_txs, setTx_txs] at hxB
      show ∃ l, s.locks v.table v.row = some l ∧ l.tx = B
      split at hxB
      · rename_i he; subst he
        cases hxB
        simp only [List.mem_append, List.mem_singleton] at hv
        rcases hv with hv | hv
        · exact h.named B x hx v hv
        · subst hv; rw [hut, hur]; exact hlock
      · exact h.named B xB hxB v hv
    rowLen := hW.1
    idx := hW.2.1
    chain := hW.2.2.1 }

theorem applyUpdFrom_length (upd : List (Nat × Val)) (c : Nat) (vals : List Val) :
    (applyUpdFrom upd c vals).length = vals.length := by
  induction vals generalizing c with
  | nil => simp [applyUpdFrom]
  | cons v vs ih => simp [applyUpdFrom, ih]

theorem applyUpd_length (upd : List (Nat × Val)) (vals : List Val) : (applyUpd upd vals).length = vals.length :=
  applyUpdFrom_length upd 0 vals

theorem updateRow_form {s : State} {A t i : Nat} {upd : List (Nat × Val)} {x : Tx} {T : Table} {r : Row}
    (hx : s.txs A = some x) (hT : s.tables t = some T) (hr : T.rows[i]? = some r) :
    updateRow A t upd s i =
      setTable (setTx s A (some { x with undo := x.undo ++ [.updated t i r.vals (mkChg (T.hashOn ++ T.btreeOn) upd r.vals)] }))
        t (updateT T i r upd) := by
  simp only [updateRow, hT, hr, recordUndo, hx]
  rfl

theorem deleteRow_form {s : State} {A t i : Nat} {x : Tx} {T : Table} {r : Row}
    (hx : s.txs A = some x) (hT : s.tables t = some T) (hr : T.rows[i]? = some r) :
    deleteRow A t s i =
      setTable (setTx s A (some { x with undo := x.undo ++ [.deleted t i r.vals ((T.hashOn ++ T.btreeOn).map fun c => (c, val r.vals c))] }))
        t (deleteT T i r) := by
  simp only [deleteRow, hT, hr, recordUndo, hx]
  rfl

theorem updateRow_ok {s : State} (h : Inv s) {A t i : Nat} {upd : List (Nat × Val)} {x : Tx} {T : Table} {r : Row}
    (hx : s.txs A = some x) (hT : s.tables t = some T) (hr : T.rows[i]? = some r) (ha : r.alive = true)
    (hlock : ∃ l, s.locks t i = some l ∧ l.tx = A) (hupd : ∀ p ∈ upd, p.1 < T.ncols) :
    Inv (updateRow A t upd s i) ∧ Own s (updateRow A t upd s i) A ∧
    (∀ B xB, B ≠ A → s.txs B = some xB → Other s (updateRow A t upd s i) B) := by
  rw [updateRow_form hx hT hr]
  have hlen : r.vals.length = T.ncols := h.rowLen t T hT r (List.mem_of_getElem? hr)
  exact write_existing h (T' := updateT T i r upd) (r' := { r with vals := applyUpd upd r.vals }) hx hT hr hlock rfl rfl rfl rfl rfl rfl
    (by simp [applyUpd_length, hlen]) (idxExact_updateT T i r upd (h.idx t T hT) hr ha hlen hupd)
    ⟨ha, hlen, upd, hupd, rfl, rfl⟩
    (by
      cases r with
      | mk a v =>
        simp only at ha; subst ha
        simp only at hlen
        simp [undoRow, hlen])

theorem deleteRow_ok {s : State} (h : Inv s) {A t i : Nat} {x : Tx} {T : Table} {r : Row}
    (hx : s.txs A = some x) (hT : s.tables t = some T) (hr : T.rows[i]? = some r) (ha : r.alive = true)
    (hlock : ∃ l, s.locks t i = some l ∧ l.tx = A) :
    Inv (deleteRow A t s i) ∧ Own s (deleteRow A t s i) A ∧
    (∀ B xB, B ≠ A → s.txs B = some xB → Other s (deleteRow A t s i) B) := by
  rw [deleteRow_form hx hT hr]
  have hlen : r.vals.length = T.ncols := h.rowLen t T hT r (List.mem_of_getElem? hr)
  exact write_existing h (T' := deleteT T i r) (r' := { r with alive := false }) hx hT hr hlock rfl rfl rfl rfl rfl rfl
    hlen (idxExact_deleteT T i r (h.idx t T hT) hr)
    ⟨rfl, hlen, rfl⟩
    (by
      cases r with
      | mk a v =>
        simp only at ha; subst ha
        simp only at hlen
        simp [undoRow, hlen])

/-! ## lock-all-then-change: tx_update, tx_delete -/

theorem inv_lockAll {s : State} (h : Inv s) {A t : Nat} {rows : List Nat} {T : Table} (hT : s.tables t = some T)
    (hex : ∀ i ∈ rows, i < T.rows.length) (hnb : lockBlocked s A t rows = false) : Inv (lockAll s A t rows) where
  txLt := h.txLt
  tabLt := h.tabLt
  fresh := by
    intro t' i l hl
    simp only [lockAll] at hl
    show l.expired s.now s.lockTimeout = false
    split at hl
    · cases hl; simp [Lock.expired]
    · exact h.fresh t' i l hl
  lockRow := by
    intro t' i l hl
    simp only [lockAll] at hl
    split at hl
    · rename_i hc
      rw [hc.1]
      exact ⟨T, hT, hex i hc.2⟩
    · exact h.lockRow t' i l hl
  named := by
    intro B xB hxB u hu
    obtain ⟨l, hl, hB⟩ := h.named B xB hxB u hu
    simp only [lockAll]
    split
    · rename_i hc
      refine ⟨_, rfl, ?_⟩
      -- the row was not blocked, so its (unexpired) lock was already ours
      unfold lockBlocked at hnb
      rw [List.any_eq_false] at hnb
      have := hnb u.row hc.2
      rw [hc.1] at hl
      simp only [hl, h.fresh _ _ l hl, Bool.not_false, Bool.true_and, bne_iff_ne, ne_eq, Decidable.not_not] at this
      exact this.symm.trans hB
    · exact ⟨l, hl, hB⟩
  rowLen := h.rowLen
  idx := h.idx
  chain := h.chain

theorem holds_lockAll (s : State) (A t : Nat) (rows : List Nat) :
    ∀ i ∈ rows, ∃ l, (lockAll s A t rows).locks t i = some l ∧ l.tx = A := by
  intro i hi
  exact ⟨{ tx := A, acquiredAt := s.now }, by simp [lockAll, hi], rfl⟩

theorem Own.of_same {s s' : State} {A : Nat} {x : Tx} (hx : s.txs A = some x) (ht : s'.tables = s.tables)
    (hx' : s'.txs A = s.txs A) : Own s s' A := by
  refine ⟨x, x, [], hx, hx'.trans hx, by simp, ?_⟩
  intro t i
  simp only [restoredRow, ncolsAt, rowAt, ht]

theorem foldl_updateRow_ok {A t : Nat} {upd : List (Nat × Val)} (rows : List Nat) (s : State) (h : Inv s) {x : Tx}
    (hx : s.txs A = some x)
    (hrows : ∀ i ∈ rows, ∃ T r, s.tables t = some T ∧ T.rows[i]? = some r ∧ r.alive = true)
    (hlock : ∀ i ∈ rows, ∃ l, s.locks t i = some l ∧ l.tx = A)
    (hupd : ∀ T, s.tables t = some T → ∀ p ∈ upd, p.1 < T.ncols) :
    Inv (rows.foldl (updateRow A t upd) s) ∧ Own s (rows.foldl (updateRow A t upd) s) A ∧
    (∀ B xB, B ≠ A → s.txs B = some xB → Other s (rows.foldl (updateRow A t upd) s) B) := by
  induction rows generalizing s x with
  | nil => exact ⟨h, Own.refl hx, fun B _ _ _ => Other.refl s B⟩
  | cons i rest ih =>
    simp only [List.foldl_cons]
    obtain ⟨T, r, hT, hr, ha⟩ := hrows i List.mem_cons_self
    have h1 := updateRow_ok (upd := upd) h hx hT hr ha (hlock i List.mem_cons_self) (hupd T hT)
    obtain ⟨_, x1, _, _, hx1, _, _⟩ := id h1.2.1
    have hform := updateRow_form (upd := upd) hx hT hr
    have htab : (updateRow A t upd s i).tables t = some (updateT T i r upd) := by rw [hform]; simp
    have hlk := (updateRow_locks A t upd s i).1
    have h2 := ih (updateRow A t upd s i) h1.1 hx1
      (by
        intro k hk
        obtain ⟨T0, r0, hT0, hr0, ha0⟩ := hrows k (List.mem_cons_of_mem _ hk)
        rw [hT] at hT0; cases hT0
        by_cases hki : k = i
        · subst hki
          exact ⟨_, { r with vals := applyUpd upd r.vals }, htab, by simp only [updateT]; exact set_self hr, ha⟩
        · exact ⟨_, r0, htab, by simp only [updateT]; rw [set_ne hki]; exact hr0, ha0⟩)
      (by intro k hk; rw [hlk]; exact hlock k (List.mem_cons_of_mem _ hk))
      (by
        intro T0 hT0
        rw [htab] at hT0; cases hT0
        exact hupd T hT)
    refine ⟨h2.1, h1.2.1.trans h2.2.1, ?_⟩
    intro B xB hne hxB
    have o1 := h1.2.2 B xB hne hxB
    exact o1.trans (h2.2.2 B xB hne (by rw [o1.1]; exact hxB))

theorem foldl_deleteRow_ok {A t : Nat} (rows : List Nat) (s : State) (h : Inv s) {x : Tx}
    (hx : s.txs A = some x) (hnd : rows.Nodup)
    (hrows : ∀ i ∈ rows, ∃ T r, s.tables t = some T ∧ T.rows[i]? = some r ∧ r.alive = true)
    (hlock : ∀ i ∈ rows, ∃ l, s.locks t i = some l ∧ l.tx = A) :
    Inv (rows.foldl (deleteRow A t) s) ∧ Own s (rows.foldl (deleteRow A t) s) A ∧
    (∀ B xB, B ≠ A → s.txs B = some xB → Other s (rows.foldl (deleteRow A t) s) B) := by
  induction rows generalizing s x with
  | nil => exact ⟨h, Own.refl hx, fun B _ _ _ => Other.refl s B⟩
  | cons i rest ih =>
    simp only [List.foldl_cons]
    obtain ⟨T, r, hT, hr, ha⟩ := hrows i List.mem_cons_self
    have h1 := deleteRow_ok h hx hT hr ha (hlock i List.mem_cons_self)
    obtain ⟨_, x1, _, _, hx1, _, _⟩ := id h1.2.1
    have hform := deleteRow_form hx hT hr
    have htab : (deleteRow A t s i).tables t = some (deleteT T i r) := by rw [hform]; simp
    have hlk := (deleteRow_locks A t s i).1
    rw [List.nodup_cons] at hnd
    have h2 := ih (deleteRow A t s i) h1.1 hx1 hnd.2
      (by
        intro k hk
        obtain ⟨T0, r0, hT0, hr0, ha0⟩ := hrows k (List.mem_cons_of_mem _ hk)
        rw [hT] at hT0; cases hT0
        have hki : k ≠ i := fun e => hnd.1 (e ▸ hk)
        exact ⟨_, _, htab, by simp only [deleteT]; rw [set_ne hki]; exact hr0, ha0⟩)
      (by intro k hk; rw [hlk]; exact hlock k (List.mem_cons_of_mem _ hk))
    refine ⟨h2.1, h1.2.1.trans h2.2.1, ?_⟩
    intro B xB hne hxB
    have o1 := h1.2.2 B xB hne hxB
    exact o1.trans (h2.2.2 B xB hne (by rw [o1.1]; exact hxB))

theorem matching_nodup (T : Table) (cond : Cond) : (matching T cond).Nodup := by
  unfold matching
  exact List.Nodup.sublist List.filter_sublist List.nodup_range

/-- shared tail of `stepOK_txUpdate` / `stepOK_txDelete` -/
theorem stepOK_of_fold {s s1 s' : State} {A : Nat} {x : Tx} (_h : Inv s) (hx : s.txs A = some x)
    (ht1 : s1.tables = s.tables) (hx1 : s1.txs = s.txs) (hn : s'.nextTx = s.nextTx)
    (hgone : ∀ B, Gone s B → Gone s' B)
    (hf : Inv s' ∧ Own s1 s' A ∧ (∀ B xB, B ≠ A → s1.txs B = some xB → Other s1 s' B)) : StepOK s s' (some A) where
  inv := hf.1
  next := by rw [hn]; exact Nat.le_refl _
  gone := fun B hB hlt => (hgone B ⟨hB, hlt⟩).1
  other := by
    intro B xB hne hxB
    have hBA : B ≠ A := fun e => hne (by rw [e])
    exact Or.inr ((Other.of_tables ht1 (by rw [hx1])).trans (hf.2.2 B xB hBA (by rw [hx1]; exact hxB)))
  own := by
    intro A' _ he _
    cases he
    exact Or.inr ((Own.of_same hx ht1 (by rw [hx1])).trans hf.2.1)

theorem stepOK_txUpdate {s : State} (h : Inv s) (A t : Nat) (cond : Cond) (upd : List (Nat × Val)) :
    StepOK s (txUpdate s A t cond upd).1 (some A) := by
  cases hg : gate s A with
  | some e =>
    have : (txUpdate s A t cond upd).1 = s := by unfold txUpdate; rw [hg]
    rw [this]; exact StepOK.refl h _
  | none =>
    obtain ⟨x, hx⟩ := gate_none hg
    cases hT : s.tables t with
    | none =>
      have : (txUpdate s A t cond upd).1 = s := by unfold txUpdate; rw [hg]; simp only [hT]
      rw [this]; exact StepOK.refl h _
    | some T =>
      by_cases hc : updBad T upd = true
      · have : (txUpdate s A t cond upd).1 = s := by unfold txUpdate; rw [hg]; simp only [hT, hc, ↓reduceIte]
        rw [this]; exact StepOK.refl h _
      · by_cases hb : lockBlocked s A t (matching T cond) = true
        · have : (txUpdate s A t cond upd).1 = s := by
            unfold txUpdate; rw [hg]; simp only [hT, hc, hb, Bool.false_eq_true, ↓reduceIte]
          rw [this]; exact StepOK.refl h _
        · have hform : (txUpdate s A t cond upd).1 = (matching T cond).foldl (updateRow A t upd)
              (if (matching T cond).isEmpty then s else lockAll s A t (matching T cond)) := by
            unfold txUpdate; rw [hg]; simp only [hT, hc, hb, Bool.false_eq_true, ↓reduceIte]
          have hupd : ∀ p ∈ upd, p.1 < T.ncols := updBad_false_cols (Bool.not_eq_true _ ▸ hc)
          have hgone : ∀ B, Gone s B → Gone (txUpdate s A t cond upd).1 B := fun B hB => gone_txUpdate hB A t cond upd
          rw [hform] at hgone ⊢
          cases hm : matching T cond with
          | nil => simp only [List.isEmpty_nil, ↓reduceIte, List.foldl_nil]; exact StepOK.refl h _
          | cons i0 rest =>
            rw [hm] at hgone
            simp only [List.isEmpty_cons, Bool.false_eq_true, ↓reduceIte] at hgone ⊢
            rw [← hm] at hgone ⊢
            have hnb : lockBlocked s A t (matching T cond) = false := by simpa using hb
            have hex : ∀ i ∈ matching T cond, i < T.rows.length := by
              intro i hi
              obtain ⟨r, hr, _⟩ := mem_matching.1 hi
              exact (List.getElem?_eq_some_iff.1 hr).1
            have h1 := inv_lockAll h hT hex hnb
            have hf := foldl_updateRow_ok (upd := upd) (matching T cond) (lockAll s A t (matching T cond)) h1 (x := x) hx
              (by
                intro i hi
                obtain ⟨r, hr, ha, _⟩ := mem_matching.1 hi
                exact ⟨T, r, hT, hr, ha⟩)
              (holds_lockAll s A t _)
              (by intro T0 hT0; rw [show (lockAll s A t (matching T cond)).tables t = s.tables t from rfl, hT] at hT0; cases hT0; exact hupd)
            exact stepOK_of_fold h hx rfl rfl (foldl_updateRow_locks A t upd _ _).2.2.2.2 hgone hf

theorem stepOK_txDelete {s : State} (h : Inv s) (A t : Nat) (cond : Cond) :
    StepOK s (txDelete s A t cond).1 (some A) := by
  cases hg : gate s A with
  | some e =>
    have : (txDelete s A t cond).1 = s := by unfold txDelete; rw [hg]
    rw [this]; exact StepOK.refl h _
  | none =>
    obtain ⟨x, hx⟩ := gate_none hg
    cases hT : s.tables t with
    | none =>
      have : (txDelete s A t cond).1 = s := by unfold txDelete; rw [hg]; simp only [hT]
      rw [this]; exact StepOK.refl h _
    | some T =>
      by_cases hb : lockBlocked s A t (matching T cond) = true
      · have : (txDelete s A t cond).1 = s := by
          unfold txDelete; rw [hg]; simp only [hT, hb, ↓reduceIte]
        rw [this]; exact StepOK.refl h _
      · have hform : (txDelete s A t cond).1 = (matching T cond).foldl (deleteRow A t)
            (if (matching T cond).isEmpty then s else lockAll s A t (matching T cond)) := by
          unfold txDelete; rw [hg]; simp only [hT, hb, Bool.false_eq_true, ↓reduceIte]
        have hgone : ∀ B, Gone s B → Gone (txDelete s A t cond).1 B := fun B hB => gone_txDelete hB A t cond
        rw [hform] at hgone ⊢
        cases hm : matching T cond with
        | nil => simp only [List.isEmpty_nil, ↓reduceIte, List.foldl_nil]; exact StepOK.refl h _
        | cons i0 rest =>
          rw [hm] at hgone
          simp only [List.isEmpty_cons, Bool.false_eq_true, ↓reduceIte] at hgone ⊢
          rw [← hm] at hgone ⊢
          have hnb : lockBlocked s A t (matching T cond) = false := by simpa using hb
          have hex : ∀ i ∈ matching T cond, i < T.rows.length := by
            intro i hi
            obtain ⟨r, hr, _⟩ := mem_matching.1 hi
            exact (List.getElem?_eq_some_iff.1 hr).1
          have h1 := inv_lockAll h hT hex hnb
          have hf := foldl_deleteRow_ok (matching T cond) (lockAll s A t (matching T cond)) h1 (x := x) hx
            (matching_nodup T cond)
            (by
              intro i hi
              obtain ⟨r, hr, ha, _⟩ := mem_matching.1 hi
              exact ⟨T, r, hT, hr, ha⟩)
            (holds_lockAll s A t _)
          exact stepOK_of_fold h hx rfl rfl (foldl_deleteRow_locks A t _ _).2.2.2.2 hgone hf

/-! ## sweeps, time, DDL -/

theorem stepOK_cleanupLocks {s : State} (h : Inv s) : StepOK s (cleanupLocks s).1 none := by
  have hl : ∀ t i, (cleanupLocks s).1.locks t i = s.locks t i := by
    intro t i
    simp only [cleanupLocks]
    split
    · rename_i he
      unfold lockExpiredAt at he
      split at he
      · rename_i l hl; rw [h.fresh t i l hl] at he; cases he
      · cases he
    · rfl
  exact {
    inv := {
      txLt := h.txLt
      tabLt := h.tabLt
      fresh := by intro t i l hl'; rw [hl] at hl'; exact h.fresh t i l hl'
      lockRow := by intro t i l hl'; rw [hl] at hl'; exact h.lockRow t i l hl'
      named := by
        intro B xB hxB u hu
        obtain ⟨l, hl', hB⟩ := h.named B xB hxB u hu
        exact ⟨l, by rw [hl]; exact hl', hB⟩
      rowLen := h.rowLen
      idx := h.idx
      chain := h.chain }
    next := Nat.le_refl _
    gone := fun _ hB _ => hB
    other := fun B _ _ _ => Or.inr (Other.of_tables rfl rfl)
    own := by intro A x he; cases he }

theorem foldl_release_rest (ids : List Nat) (s : State) :
    (ids.foldl release s).tables = s.tables ∧ (ids.foldl release s).now = s.now ∧
    (ids.foldl release s).lockTimeout = s.lockTimeout ∧ (ids.foldl release s).ntables = s.ntables := by
  induction ids generalizing s with
  | nil => simp
  | cons i rest ih =>
    simp only [List.foldl_cons]
    have := ih (release s i)
    exact this

theorem foldl_release_sub (ids : List Nat) (s : State) {t i : Nat} {l : Lock}
    (h : (ids.foldl release s).locks t i = some l) : s.locks t i = some l := by
  induction ids generalizing s with
  | nil => exact h
  | cons k rest ih =>
    simp only [List.foldl_cons] at h
    exact (release_locks_some (ih (release s k) h)).1

theorem foldl_release_keeps (ids : List Nat) (s : State) {t i : Nat} {l : Lock}
    (h : s.locks t i = some l) (hn : l.tx ∉ ids) : (ids.foldl release s).locks t i = some l := by
  induction ids generalizing s with
  | nil => exact h
  | cons k rest ih =>
    simp only [List.foldl_cons]
    simp only [List.mem_cons, not_or] at hn
    exact ih (release s k) (release_keeps h hn.1) hn.2

theorem stepOK_cleanupTxs {s : State} (h : Inv s) : StepOK s (cleanupTxs s).1 none := by
  have f1 := foldl_release_fields ((List.range s.nextTx).filter (txExpired s)) s
  have f2 := foldl_release_rest ((List.range s.nextTx).filter (txExpired s)) s
  have htx : ∀ k, (cleanupTxs s).1.txs k = if txExpired s k then none else s.txs k := by
    intro k; simp only [cleanupTxs]; rw [f1.1]
  have hopen : ∀ B xB, (cleanupTxs s).1.txs B = some xB → s.txs B = some xB ∧ txExpired s B = false := by
    intro B xB hx
    rw [htx] at hx
    split at hx
    · cases hx
    · rename_i he; exact ⟨hx, by simpa using he⟩
  exact {
    inv := {
      txLt := by
        intro B xB hxB
        show B < (List.foldl release s _).nextTx
        rw [f1.2]; exact h.txLt B xB (hopen B xB hxB).1
      tabLt := by
        intro t T hT
        show t < (List.foldl release s _).ntables
        rw [f2.2.2.2]
        exact h.tabLt t T (by rw [← f2.1]; exact hT)
      fresh := by
        intro t i l hl
        show l.expired (List.foldl release s _).now (List.foldl release s _).lockTimeout = false
        rw [f2.2.1, f2.2.2.1]
        exact h.fresh t i l (foldl_release_sub _ s hl)
      lockRow := by
        intro t i l hl
        obtain ⟨T, hT, hlt⟩ := h.lockRow t i l (foldl_release_sub _ s hl)
        exact ⟨T, by show (List.foldl release s _).tables t = some T; rw [f2.1]; exact hT, hlt⟩
      named := by
        intro B xB hxB u hu
        obtain ⟨hx, hne⟩ := hopen B xB hxB
        obtain ⟨l, hl, hB⟩ := h.named B xB hx u hu
        refine ⟨l, foldl_release_keeps _ s hl ?_, hB⟩
        rw [hB, List.mem_filter]
        intro hc; rw [hne] at hc; exact absurd hc.2 (by simp)
      rowLen := by
        intro t T hT
        exact h.rowLen t T (by rw [← f2.1]; exact hT)
      idx := by
        intro t T hT
        exact h.idx t T (by rw [← f2.1]; exact hT)
      chain := by
        intro B xB hxB t T i r hT hr
        exact h.chain B xB (hopen B xB hxB).1 t T i r (by rw [← f2.1]; exact hT) hr }
    next := by show s.nextTx ≤ (List.foldl release s _).nextTx; rw [f1.2]; exact Nat.le_refl _
    gone := by
      intro B hB _
      rw [htx]; split
      · rfl
      · exact hB
    other := by
      intro B xB _ hxB
      by_cases he : txExpired s B = true
      · left; rw [htx]; simp [he]
      · right
        refine Other.of_tables f2.1 ?_
        rw [htx]; simp [he]
    own := by intro A x he; cases he }

theorem stepOK_tick {s : State} (h : Inv s) (d : Nat)
    (hf : ∀ t i l, s.locks t i = some l → l.expired (s.now + d) s.lockTimeout = false) : StepOK s (tick s d) none where
  inv := {
    txLt := h.txLt
    tabLt := h.tabLt
    fresh := hf
    lockRow := h.lockRow
    named := h.named
    rowLen := h.rowLen
    idx := h.idx
    chain := h.chain }
  next := Nat.le_refl _
  gone := fun _ hB _ => hB
  other := fun B _ _ _ => Or.inr (Other.of_tables rfl rfl)
  own := by intro A x he; cases he

theorem Inv.ntables_none {s : State} (h : Inv s) : s.tables s.ntables = none := by
  cases hT : s.tables s.ntables with
  | none => rfl
  | some T => exact absurd (h.tabLt _ T hT) (Nat.lt_irrefl _)

theorem stepOK_createTable {s : State} (h : Inv s) (n : Nat) (nl : List Nat) : StepOK s (createTable s n nl).1 none := by
  have hnone := h.ntables_none
  have htab : ∀ k, (createTable s n nl).1.tables k =
      if k = s.ntables then some { ncols := n, nullable := nl, rows := [], hashOn := [], btreeOn := [], hashE := [], btreeE := [] }
      else s.tables k := fun k => rfl
  have hold : ∀ k T, s.tables k = some T → (createTable s n nl).1.tables k = some T := by
    intro k T hT
    rw [htab]
    split
    · rename_i he; subst he; rw [hnone] at hT; cases hT
    · exact hT
  exact {
    inv := {
      txLt := h.txLt
      tabLt := by
        intro k T hT
        show k < s.ntables + 1
        rw [htab] at hT
        split at hT
        · omega
        · exact Nat.lt_succ_of_lt (h.tabLt k T hT)
      fresh := h.fresh
      lockRow := by
        intro t i l hl
        obtain ⟨T, hT, hlt⟩ := h.lockRow t i l hl
        exact ⟨T, hold t T hT, hlt⟩
      named := h.named
      rowLen := by
        intro k T hT
        rw [htab] at hT
        split at hT
        · cases hT; intro r hr; cases hr
        · exact h.rowLen k T hT
      idx := by
        intro k T hT
        rw [htab] at hT
        split at hT
        · cases hT; exact idxExact_empty n nl
        · exact h.idx k T hT
      chain := by
        intro B xB hxB k T i r hT hr
        rw [htab] at hT
        split at hT
        · cases hT; simp at hr
        · exact h.chain B xB hxB k T i r hT hr }
    next := Nat.le_refl _
    gone := fun _ hB _ => hB
    other := by
      intro B xB _ hxB
      right
      refine ⟨rfl, ?_⟩
      intro t i hn
      obtain ⟨_, T, _, _, hT, _⟩ := h.named_row hn
      have := hold t T hT
      exact ⟨by simp only [rowAt, this, hT], by simp only [ncolsAt, this, hT]⟩
    own := by intro A x he; cases he }

/-- no open transaction has written table `t` -/
def Untouched (s : State) (t : Nat) : Prop := ∀ B xB, s.txs B = some xB → ∀ u ∈ xB.undo, u.table ≠ t

theorem stepOK_ddl {s : State} (h : Inv s) {t : Nat} {T T' : Table} (hT : s.tables t = some T)
    (hrows : T'.rows = T.rows) (hnc : T'.ncols = T.ncols) (hidx : IdxExact T') (hno : Untouched s t) :
    StepOK s (setTable s t T') none where
  inv := {
    txLt := h.txLt
    tabLt := by
      intro k T'' hT''
      simp only [setTable_tables] at hT''
      show k < s.ntables
      split at hT''
      · rename_i he; subst he; exact h.tabLt k T hT
      · exact h.tabLt k T'' hT''
    fresh := h.fresh
    lockRow := by
      intro t' i l hl
      obtain ⟨T0, hT0, hlt⟩ := h.lockRow t' i l hl
      simp only [setTable_tables]
      by_cases ht : t' = t
      · subst ht
        rw [hT] at hT0; cases hT0
        exact ⟨T', by simp, by rw [hrows]; exact hlt⟩
      · exact ⟨T0, by simp [ht, hT0], hlt⟩
    named := h.named
    rowLen := by
      intro k T'' hT''
      simp only [setTable_tables] at hT''
      split at hT''
      · cases hT''; rw [hrows, hnc]; exact h.rowLen t T hT
      · exact h.rowLen k T'' hT''
    idx := by
      intro k T'' hT''
      simp only [setTable_tables] at hT''
      split at hT''
      · cases hT''; exact hidx
      · exact h.idx k T'' hT''
    chain := by
      intro B xB hxB k T'' i r hT'' hr
      simp only [setTable_tables] at hT''
      split at hT''
      · rename_i he; subst he
        rw [filter_onKey_eq_nil]; · trivial
        intro u hu hk
        exact hno B xB hxB u (List.mem_reverse.1 hu) hk.1
      · exact h.chain B xB hxB k T'' i r hT'' hr }
  next := Nat.le_refl _
  gone := fun _ hB _ => hB
  other := by
    intro B xB _ _
    right
    refine ⟨rfl, ?_⟩
    intro k i _
    simp only [rowAt, ncolsAt, setTable_tables]
    by_cases hk : k = t
    · subst hk; simp [hT, hrows, hnc]
    · simp [hk]
  own := by intro A x he; cases he

theorem stepOK_createIndex {s : State} (h : Inv s) (t c : Nat) (hno : Untouched s t) :
    StepOK s (createIndex s t c).1 none := by
  unfold createIndex
  split
  · exact StepOK.refl h _
  · rename_i T hT
    split
    · exact StepOK.refl h _
    · split
      · exact StepOK.refl h _
      · rename_i hc
        exact stepOK_ddl h hT rfl rfl (idxExact_createIndex T c (h.idx t T hT) hc) hno

theorem stepOK_createBtree {s : State} (h : Inv s) (t c : Nat) (hno : Untouched s t) :
    StepOK s (createBtree s t c).1 none := by
  unfold createBtree
  split
  · exact StepOK.refl h _
  · rename_i T hT
    split
    · exact StepOK.refl h _
    · split
      · exact StepOK.refl h _
      · rename_i hc
        exact stepOK_ddl h hT rfl rfl (idxExact_createBtree T c (h.idx t T hT) hc) hno

theorem stepOK_dropIndex {s : State} (h : Inv s) (t c : Nat) (hno : Untouched s t) :
    StepOK s (dropIndex s t c).1 none := by
  unfold dropIndex
  split
  · exact StepOK.refl h _
  · rename_i T hT
    split
    · exact stepOK_ddl h hT rfl rfl (idxExact_dropIndex T c (h.idx t T hT)) hno
    · exact StepOK.refl h _

theorem stepOK_dropBtree {s : State} (h : Inv s) (t c : Nat) (hno : Untouched s t) :
    StepOK s (dropBtree s t c).1 none := by
  unfold dropBtree
  split
  · exact StepOK.refl h _
  · rename_i T hT
    split
    · exact stepOK_ddl h hT rfl rfl (idxExact_dropBtree T c (h.idx t T hT)) hno
    · exact StepOK.refl h _

/-! ## batch_insert: rows appended outside any transaction -/

/-- replacing table `t` by one with the same columns and indexes whose row list extends the old one
    (rows nobody can have named or locked yet) is a step in which every open transaction is a bystander -/
theorem stepOK_appendRows {s : State} (h : Inv s) {t : Nat} {T T' : Table} (hT : s.tables t = some T)
    (more : List Row) (hrows : T'.rows = T.rows ++ more) (hnc : T'.ncols = T.ncols)
    (hh : T'.hashOn = T.hashOn) (hb : T'.btreeOn = T.btreeOn)
    (hlen : ∀ r ∈ more, r.vals.length = T.ncols) (hidx : IdxExact T') :
    StepOK s (setTable s t T') none := by
  have hpre : ∀ i, i < T.rows.length → T'.rows[i]? = T.rows[i]? := by
    intro i hi
    rw [hrows, List.getElem?_append_left hi]
  -- a row of table `t` named by an open transaction lies in the old row list
  have hnamed : ∀ B xB, s.txs B = some xB → ∀ u ∈ xB.undo, u.table = t → u.row < T.rows.length := by
    intro B xB hxB u hu hut
    obtain ⟨l, hl, _⟩ := h.named B xB hxB u hu
    obtain ⟨T0, hT0, hlt⟩ := h.lockRow _ _ l hl
    rw [hut, hT] at hT0; cases hT0
    exact hlt
  exact {
    inv := {
      txLt := h.txLt
      tabLt := by
        intro k T'' hT''
        simp only [setTable_tables] at hT''
        show k < s.ntables
        split at hT''
        · rename_i he; subst he; exact h.tabLt k T hT
        · exact h.tabLt k T'' hT''
      fresh := h.fresh
      lockRow := by
        intro t' i l hl
        obtain ⟨T0, hT0, hlt⟩ := h.lockRow t' i l hl
        simp only [setTable_tables]
        by_cases ht : t' = t
        · subst ht
          rw [hT] at hT0; cases hT0
          refine ⟨T', by simp, ?_⟩
          rw [hrows, List.length_append]; omega
        · exact ⟨T0, by simp [ht, hT0], hlt⟩
      named := h.named
      rowLen := by
        intro k T'' hT''
        simp only [setTable_tables] at hT''
        split at hT''
        · cases hT''
          intro r hr
          rw [hrows, List.mem_append] at hr
          rw [hnc]
          rcases hr with hr | hr
          · exact h.rowLen t T hT r hr
          · exact hlen r hr
        · exact h.rowLen k T'' hT''
      idx := by
        intro k T'' hT''
        simp only [setTable_tables] at hT''
        split at hT''
        · cases hT''; exact hidx
        · exact h.idx k T'' hT''
      chain := by
        intro B xB hxB k T'' i r hT'' hr
        simp only [setTable_tables] at hT''
        split at hT''
        · rename_i he; subst he
          cases hT''
          by_cases hi : i < T.rows.length
          · rw [hpre i hi] at hr
            rw [hnc, hh, hb]
            exact h.chain B xB hxB k T i r hT hr
          · rw [filter_onKey_eq_nil]; · trivial
            intro u hu hk
            exact hi (hk.2 ▸ hnamed B xB hxB u (List.mem_reverse.1 hu) hk.1)
        · exact h.chain B xB hxB k T'' i r hT'' hr }
    next := Nat.le_refl _
    gone := fun _ hB _ => hB
    other := by
      intro B xB _ hxB
      right
      refine ⟨rfl, ?_⟩
      intro k i hn
      simp only [rowAt, ncolsAt, setTable_tables]
      by_cases hk : k = t
      · subst hk
        obtain ⟨y, hy, u, hu, hut, hur⟩ := hn
        have hi : i < T.rows.length := hur ▸ hnamed B y hy u hu hut
        simp [hT, hpre i hi, hnc]
      · simp [hk]
    own := by intro A x he; cases he }

theorem stepOK_batchInsert {s : State} (h : Inv s) (t : Nat) (rows : List (List Val)) :
    StepOK s (batchInsert s t rows).1 none := by
  rcases batchInsert_form s t rows with hf | ⟨T, hT, hok, hf⟩
  · rw [hf]; exact StepOK.refl h _
  · rw [hf]
    have f := foldl_insertRow rows T
    refine stepOK_appendRows h hT (rows.map fun v => { alive := true, vals := v }) f.1 f.2.1 f.2.2.1 f.2.2.2.1 ?_
      (idxExact_foldl_insertRow rows T (h.idx t T hT))
    intro r hr
    obtain ⟨v, hv, rfl⟩ := List.mem_map.1 hr
    have := List.any_eq_false.1 hok v hv
    exact rowBad_false_len (by simpa using this)

/-! ## non-transactional statements: `begin; tx_op; commit | rollback` -/

theorem stepOK_finishAuto {p : State × Res} (h : Inv p.1) (I : Nat) : StepOK p.1 (finishAuto p I).1 (some I) := by
  unfold finishAuto
  split
  · exact stepOK_rollback h I
  · exact stepOK_commit h I

theorem stepOK_auto {s : State} (h : Inv s) {f : State → Nat → State × Res}
    (hf : ∀ s1, Inv s1 → StepOK s1 (f s1 s.nextTx).1 (some s.nextTx)) :
    StepOK s (finishAuto (f (begin s).1 (begin s).2) (begin s).2).1 none := by
  have h0 := stepOK_begin h
  have h1 := hf (begin s).1 h0.inv
  have hI : ∀ a a' : Option Nat, a = none → a' = some s.nextTx → ∀ I, (a = some I ∨ a' = some I) → s.txs I = none := by
    intro a a' ha ha' I hor
    subst ha; subst ha'
    rcases hor with e | e
    · cases e
    · cases e; exact h.nextTx_none
  have c1 := StepOK.comp h h0 h1 (hI _ _ rfl rfl)
  have h2 := stepOK_finishAuto (p := f (begin s).1 (begin s).2) h1.inv (begin s).2
  exact StepOK.comp h c1 h2 (hI _ _ rfl rfl)

theorem stepOK_insert {s : State} (h : Inv s) (t : Nat) (vals : List Val) : StepOK s (insert s t vals).1 none := by
  unfold insert
  split
  · exact StepOK.refl h _
  · split
    · exact StepOK.refl h _
    · exact stepOK_auto h (f := fun s1 I => txInsert s1 I t vals) (fun s1 h1 => stepOK_txInsert h1 _ t vals)

theorem stepOK_update {s : State} (h : Inv s) (t : Nat) (cond : Cond) (upd : List (Nat × Val)) :
    StepOK s (update s t cond upd).1 none := by
  unfold update
  split
  · exact StepOK.refl h _
  · split
    · exact StepOK.refl h _
    · exact stepOK_auto h (f := fun s1 I => txUpdate s1 I t cond upd) (fun s1 h1 => stepOK_txUpdate h1 _ t cond upd)

theorem stepOK_delete {s : State} (h : Inv s) (t : Nat) (cond : Cond) : StepOK s (delete s t cond).1 none := by
  unfold delete
  split
  · exact StepOK.refl h _
  · exact stepOK_auto h (f := fun s1 I => txDelete s1 I t cond) (fun s1 h1 => stepOK_txDelete h1 _ t cond)

/-! ## the side conditions, as a computable predicate on scripts -/

/-- some open transaction has an undo entry on table `t` -/
def namesTable (s : State) (t : Nat) : Bool :=
  (List.range s.nextTx).any fun A =>
    match s.txs A with
    | some x => x.undo.any (fun u => u.table == t)
    | none => false

/-- per statement: index DDL only on a table no open transaction has written; a `tick` after which
    every lock in the table is still unexpired -/
def stepCalm (s : State) (op : Op) : Bool :=
  match op with
  | .createIndex t _ => !namesTable s t
  | .createBtree t _ => !namesTable s t
  | .dropIndex t _ => !namesTable s t
  | .dropBtree t _ => !namesTable s t
  | .tick d => (allKeys s).all fun k => !(lockExpiredAt (tick s d) k.1 k.2)
  | _ => true

/-- a script during which no lock expires and no index is created / dropped on a table while a
    transaction that has written that table is open -/
def calm (s : State) : List Op → Bool
  | [] => true
  | op :: ops => stepCalm s op && calm (step s op).1 ops

/-- the transaction whose statement `op` is -/
def actor : Op → Option Nat
  | .commit A => some A
  | .rollback A => some A
  | .txInsert A _ _ => some A
  | .txUpdate A _ _ _ => some A
  | .txDelete A _ _ => some A
  | _ => none

theorem untouched_of {s : State} (h : Inv s) {t : Nat} (hn : (!namesTable s t) = true) : Untouched s t := by
  intro B xB hxB u hu he
  have hB := h.txLt B xB hxB
  simp only [Bool.not_eq_eq_eq_not, Bool.not_true] at hn
  unfold namesTable at hn
  rw [List.any_eq_false] at hn
  have := hn B (List.mem_range.2 hB)
  simp only [hxB] at this
  rw [Bool.not_eq_true, List.any_eq_false] at this
  have := this u hu
  simp [he] at this

theorem mem_allKeys {s : State} {t i : Nat} {T : Table} (ht : t < s.ntables) (hT : s.tables t = some T)
    (hi : i < T.rows.length) : (t, i) ∈ allKeys s := by
  unfold allKeys
  rw [List.mem_flatMap]
  refine ⟨t, List.mem_range.2 ht, ?_⟩
  simp only [hT, List.mem_map, List.mem_range]
  exact ⟨i, hi, rfl⟩

theorem fresh_of {s : State} (h : Inv s) {d : Nat}
    (hc : ((allKeys s).all fun k => !(lockExpiredAt (tick s d) k.1 k.2)) = true) :
    ∀ t i l, s.locks t i = some l → l.expired (s.now + d) s.lockTimeout = false := by
  intro t i l hl
  obtain ⟨T, hT, hlt⟩ := h.lockRow t i l hl
  rw [List.all_eq_true] at hc
  have := hc (t, i) (mem_allKeys (h.tabLt t T hT) hT hlt)
  simpa [lockExpiredAt, tick, hl] using this

theorem step_ok {s : State} (h : Inv s) (op : Op) (hc : stepCalm s op = true) : StepOK s (step s op).1 (actor op) := by
  cases op with
  | begin => exact stepOK_begin h
  | commit A => exact stepOK_commit h A
  | rollback A => exact stepOK_rollback h A
  | txInsert A t v => exact stepOK_txInsert h A t v
  | txUpdate A t c u => exact stepOK_txUpdate h A t c u
  | txDelete A t c => exact stepOK_txDelete h A t c
  | insert t v => exact stepOK_insert h t v
  | update t c u => exact stepOK_update h t c u
  | delete t c => exact stepOK_delete h t c
  | batchInsert t rows => exact stepOK_batchInsert h t rows
  | createTable n nl => exact stepOK_createTable h n nl
  | createIndex t c => exact stepOK_createIndex h t c (untouched_of h hc)
  | createBtree t c => exact stepOK_createBtree h t c (untouched_of h hc)
  | dropIndex t c => exact stepOK_dropIndex h t c (untouched_of h hc)
  | dropBtree t c => exact stepOK_dropBtree h t c (untouched_of h hc)
  | tick d => exact stepOK_tick h d (fresh_of h hc)
  | cleanupLocks => exact stepOK_cleanupLocks h
  | cleanupTxs => exact stepOK_cleanupTxs h

theorem run_cons (s : State) (op : Op) (ops : List Op) : run s (op :: ops) = run (step s op).1 ops := rfl

theorem run_append (s : State) (p q : List Op) : run s (p ++ q) = run (run s p) q := by
  unfold run; rw [List.foldl_append]

theorem calm_append {s : State} {p q : List Op} (h : calm s (p ++ q) = true) :
    calm s p = true ∧ calm (run s p) q = true := by
  induction p generalizing s with
  | nil => exact ⟨rfl, h⟩
  | cons op p ih =>
    simp only [List.cons_append, calm, Bool.and_eq_true] at h ⊢
    have := ih h.2
    exact ⟨⟨h.1, this.1⟩, by rw [run_cons]; exact this.2⟩

theorem inv_run {s : State} (h : Inv s) (ops : List Op) (hc : calm s ops = true) : Inv (run s ops) := by
  induction ops generalizing s with
  | nil => exact h
  | cons op ops ih =>
    simp only [calm, Bool.and_eq_true] at hc
    rw [run_cons]
    exact ih (step_ok h op hc.1).inv hc.2

/-! ## what one statement does to the image `A`'s rollback would restore -/

theorem restoredRow_congr {s s' : State} {L : List Undo} {t i : Nat} (hr : rowAt s' t i = rowAt s t i)
    (hn : ncolsAt s' t = ncolsAt s t) : restoredRow s' L t i = restoredRow s L t i := by
  simp only [restoredRow, hr, hn]

theorem step_keeps {s : State} {op : Op} {A : Nat} {x x' : Tx} (h : Inv s) (hc : stepCalm s op = true)
    (hx : s.txs A = some x) (hx' : (step s op).1.txs A = some x') :
    (∃ more, x'.undo = x.undo ++ more) ∧
    ∀ t i, Names (step s op).1 A t i →
      liveOf (restoredRow (step s op).1 x'.undo t i) = liveOf (restoredRow s x.undo t i) := by
  have hs := step_ok h op hc
  by_cases ha : actor op = some A
  · rcases hs.own A x ha hx with hnone | hown
    · rw [hnone] at hx'; cases hx'
    · obtain ⟨y, y', more, hy, hy', hm, hl⟩ := hown
      rw [hx] at hy; cases hy
      rw [hx'] at hy'; cases hy'
      exact ⟨⟨more, hm⟩, fun t i _ => hl t i⟩
  · rcases hs.other A x (fun e => ha e.symm) hx with hnone | hoth
    · rw [hnone] at hx'; cases hx'
    · have hxx : x' = x := by
        have := hoth.1; rw [hx, hx'] at this; cases this; rfl
      subst hxx
      refine ⟨⟨[], by simp⟩, ?_⟩
      intro t i hn
      have hn0 : Names s A t i := by
        obtain ⟨y, hy, rest⟩ := hn
        rw [hx'] at hy; cases hy
        exact ⟨_, hx, rest⟩
      have := hoth.2 t i hn0
      rw [restoredRow_congr this.1 this.2]

/-- a statement of anybody else never changes a row an open transaction has written -/
theorem step_named_row_untouched {s : State} {op : Op} {A t i : Nat} (h : Inv s) (hc : stepCalm s op = true)
    (hn : Names s A t i) (ha : actor op ≠ some A) (hopen : (step s op).1.txs A ≠ none) :
    rowAt (step s op).1 t i = rowAt s t i := by
  obtain ⟨x, hx, _⟩ := id hn
  rcases (step_ok h op hc).other A x (fun e => ha e.symm) hx with hnone | hoth
  · exact absurd hnone hopen
  · exact (hoth.2 t i hn).1

theorem open_after_step {s : State} {op : Op} {ops : List Op} {A : Nat} {x : Tx} (h : Inv s) (hc : stepCalm s op = true)
    (hx : s.txs A = some x) (hend : (run (step s op).1 ops).txs A ≠ none) : ∃ x1, (step s op).1.txs A = some x1 := by
  cases h1 : (step s op).1.txs A with
  | some x1 => exact ⟨x1, rfl⟩
  | none =>
    have hg : Gone (step s op).1 A := ⟨h1, Nat.lt_of_lt_of_le (h.txLt A x hx) (step_ok h op hc).next⟩
    exact absurd (gone_run hg ops).1 hend

theorem run_keeps {s : State} {ops : List Op} {A t i : Nat} {x xf : Tx} (h : Inv s) (hc : calm s ops = true)
    (hx : s.txs A = some x) (hn : Names s A t i) (hxf : (run s ops).txs A = some xf) :
    liveOf (restoredRow (run s ops) xf.undo t i) = liveOf (restoredRow s x.undo t i) := by
  induction ops generalizing s x with
  | nil =>
    have : xf = x := by
      have h1 : (run s []).txs A = s.txs A := rfl
      rw [h1, hx] at hxf; cases hxf; rfl
    subst this; rfl
  | cons op ops ih =>
    simp only [calm, Bool.and_eq_true] at hc
    rw [run_cons] at hxf ⊢
    obtain ⟨x1, hx1⟩ := open_after_step (ops := ops) h hc.1 hx (by rw [hxf]; simp)
    have hk := step_keeps h hc.1 hx hx1
    have hn1 : Names (step s op).1 A t i := by
      obtain ⟨y, hy, u, hu, hk'⟩ := hn
      rw [hx] at hy; cases hy
      obtain ⟨more, hm⟩ := hk.1
      exact ⟨x1, hx1, u, by rw [hm]; exact List.mem_append_left _ hu, hk'⟩
    rw [ih (step_ok h op hc.1).inv hc.2 hx1 hn1 hxf]
    exact hk.2 t i hn1

/-! ## decidability of `Names` (for the non-vacuity examples) -/

def namesB (s : State) (A t i : Nat) : Bool :=
  match s.txs A with
  | some x => x.undo.any (onKey t i)
  | none => false

theorem names_iff {s : State} {A t i : Nat} : Names s A t i ↔ namesB s A t i = true := by
  unfold Names namesB
  cases hx : s.txs A with
  | none => simp
  | some x =>
    simp only [Option.some.injEq, exists_eq_left', List.any_eq_true]
    constructor
    · rintro ⟨u, hu, hk⟩; exact ⟨u, hu, onKey_iff.2 hk⟩
    · rintro ⟨u, hu, hk⟩; exact ⟨u, hu, onKey_iff.1 hk⟩

instance (s : State) (A t i : Nat) : Decidable (Names s A t i) := decidable_of_iff _ names_iff.symm

/-! ## locks sit on existing rows — in EVERY reachable state (no side condition)

  Needed for `tx_insert`: the row id it creates is fresh, so its `try_lock` cannot conflict. -/

structure LR (s : State) : Prop where
  tabLt : ∀ t T, s.tables t = some T → t < s.ntables
  lockRow : ∀ t i l, s.locks t i = some l → ∃ T, s.tables t = some T ∧ i < T.rows.length

/-- same table ids, rows only grow -/
structure Ext (s s' : State) : Prop where
  nt : s'.ntables = s.ntables
  dom : ∀ t T', s'.tables t = some T' → ∃ T, s.tables t = some T ∧ T.rows.length ≤ T'.rows.length
  cod : ∀ t T, s.tables t = some T → ∃ T', s'.tables t = some T'

theorem Ext.of_eq {s s' : State} (hn : s'.ntables = s.ntables) (ht : s'.tables = s.tables) : Ext s s' where
  nt := hn
  dom := by intro t T' h; rw [ht] at h; exact ⟨T', h, Nat.le_refl _⟩
  cod := by intro t T h; exact ⟨T, by rw [ht]; exact h⟩

theorem Ext.trans {s s1 s2 : State} (h1 : Ext s s1) (h2 : Ext s1 s2) : Ext s s2 where
  nt := h2.nt.trans h1.nt
  dom := by
    intro t T2 hT2
    obtain ⟨T1, hT1, hle1⟩ := h2.dom t T2 hT2
    obtain ⟨T, hT, hle⟩ := h1.dom t T1 hT1
    exact ⟨T, hT, Nat.le_trans hle hle1⟩
  cod := by
    intro t T hT
    obtain ⟨T1, hT1⟩ := h1.cod t T hT
    exact h2.cod t T1 hT1

theorem lr_of_ext {s s' : State} (h : LR s) (he : Ext s s')
    (hl : ∀ t i l, s'.locks t i = some l → s.locks t i = some l ∨ ∃ T', s'.tables t = some T' ∧ i < T'.rows.length) :
    LR s' where
  tabLt := by
    intro t T' hT'
    obtain ⟨T, hT, _⟩ := he.dom t T' hT'
    rw [he.nt]; exact h.tabLt t T hT
  lockRow := by
    intro t i l hl'
    rcases hl t i l hl' with h1 | h1
    · obtain ⟨T, hT, hlt⟩ := h.lockRow t i l h1
      obtain ⟨T', hT'⟩ := he.cod t T hT
      obtain ⟨T0, hT0, hle⟩ := he.dom t T' hT'
      rw [hT] at hT0; cases hT0
      exact ⟨T', hT', Nat.lt_of_lt_of_le hlt hle⟩
    · exact h1

theorem ext_setTable {s : State} {t : Nat} {T T' : Table} (hT : s.tables t = some T)
    (hle : T.rows.length ≤ T'.rows.length) : Ext s (setTable s t T') where
  nt := rfl
  dom := by
    intro k T'' h
    simp only [setTable_tables] at h
    split at h
    · rename_i he; subst he; cases h; exact ⟨T, hT, hle⟩
    · exact ⟨T'', h, Nat.le_refl _⟩
  cod := by
    intro k T0 h
    simp only [setTable_tables]
    split
    · exact ⟨T', rfl⟩
    · exact ⟨T0, h⟩

theorem ext_updateRow (A t : Nat) (upd : List (Nat × Val)) (s : State) (i : Nat) : Ext s (updateRow A t upd s i) := by
  unfold updateRow
  split
  · exact Ext.of_eq rfl rfl
  · rename_i T hT
    split
    · exact Ext.of_eq rfl rfl
    · have : Ext s (recordUndo s A (.updated t i ‹Row›.vals ((T.hashOn ++ T.btreeOn).filterMap fun c =>
          match updGet upd c with | some n => some (c, val ‹Row›.vals c, n) | none => none))) :=
        Ext.of_eq (by unfold recordUndo; split <;> rfl) (recordUndo_tables _ _ _)
      refine this.trans (ext_setTable (by rw [recordUndo_tables]; exact hT) ?_)
      simp

theorem ext_deleteRow (A t : Nat) (s : State) (i : Nat) : Ext s (deleteRow A t s i) := by
  unfold deleteRow
  split
  · exact Ext.of_eq rfl rfl
  · rename_i T hT
    split
    · exact Ext.of_eq rfl rfl
    · have : Ext s (recordUndo s A (.deleted t i ‹Row›.vals ((T.hashOn ++ T.btreeOn).map fun c => (c, val ‹Row›.vals c)))) :=
        Ext.of_eq (by unfold recordUndo; split <;> rfl) (recordUndo_tables _ _ _)
      refine this.trans (ext_setTable (by rw [recordUndo_tables]; exact hT) ?_)
      simp

theorem ext_foldl {f : State → Nat → State} (hf : ∀ s i, Ext s (f s i)) (rows : List Nat) (s : State) :
    Ext s (rows.foldl f s) := by
  induction rows generalizing s with
  | nil => exact Ext.of_eq rfl rfl
  | cons i rest ih => exact (hf s i).trans (ih (f s i))

theorem lr_lockAll {s : State} (h : LR s) {A t : Nat} {rows : List Nat} {T : Table} (hT : s.tables t = some T)
    (hex : ∀ i ∈ rows, i < T.rows.length) : LR (lockAll s A t rows) :=
  lr_of_ext h (Ext.of_eq rfl rfl) (by
    intro t' i l hl
    simp only [lockAll] at hl
    split at hl
    · rename_i hc
      right; rw [hc.1]; exact ⟨T, hT, hex i hc.2⟩
    · left; exact hl)

theorem lr_commit {s : State} (h : LR s) (A : Nat) : LR (commit s A).1 := by
  unfold commit
  split
  · exact h
  · exact lr_of_ext h (Ext.of_eq rfl rfl) (fun t i l hl => Or.inl (release_locks_some hl).1)

theorem ext_foldl_applyUndo (M : List Undo) (acc : State × Nat) : Ext acc.1 (M.foldl applyUndo acc).1 where
  nt := foldl_applyUndo_ntables M acc
  dom := by
    intro t T' hT'
    obtain ⟨T, hT, hsh⟩ := shape_of_fold hT'
    simp only [shape, Prod.mk.injEq] at hsh
    exact ⟨T, hT, by rw [hsh.2.2.2]; exact Nat.le_refl _⟩
  cod := by
    intro t T hT
    obtain ⟨T', hT', _⟩ := shape_to_fold (M := M) hT
    exact ⟨T', hT'⟩

theorem lr_undo_release {s : State} (h : LR s) (M : List Undo) (A : Nat) :
    LR (setTx (release (M.foldl applyUndo (s, 0)).1 A) A none) := by
  have f := foldl_applyUndo_fields M (s, 0)
  refine lr_of_ext h ((ext_foldl_applyUndo M (s, 0)).trans (Ext.of_eq rfl rfl)) ?_
  intro t i l hl
  left
  have := (release_locks_some hl).1
  rw [f.1] at this; exact this

theorem lr_rollback {s : State} (h : LR s) (A : Nat) : LR (rollback s A).1 := by
  unfold rollback
  split
  · exact h
  · exact lr_undo_release h _ A

theorem lr_txInsert {s : State} (h : LR s) (A t : Nat) (vals : List Val) : LR (txInsert s A t vals).1 := by
  unfold txInsert
  split
  · exact h
  · split
    · exact h
    · rename_i T hT
      split
      · exact h
      · dsimp only
        have hrec : ∀ (s0 : State) (u : Undo) (T' : Table), (s0.tables = s.tables) → s0.ntables = s.ntables →
            T.rows.length < T'.rows.length →
            (∀ t' i l, s0.locks t' i = some l → s.locks t' i = some l ∨ (t' = t ∧ i = T.rows.length)) →
            LR (recordUndo (setTable s0 t T') A u) := by
          intro s0 u T' ht hn hlt hlk
          have e1 : Ext s s0 := Ext.of_eq hn ht
          have e2 : Ext s0 (setTable s0 t T') := ext_setTable (by rw [ht]; exact hT) (Nat.le_of_lt hlt)
          have e3 : Ext (setTable s0 t T') (recordUndo (setTable s0 t T') A u) :=
            Ext.of_eq (by unfold recordUndo; split <;> rfl) (recordUndo_tables _ _ _)
          refine lr_of_ext h (e1.trans (e2.trans e3)) ?_
          intro t' i l hl
          rw [recordUndo_locks, setTable_locks] at hl
          rcases hlk t' i l hl with h1 | h1
          · exact Or.inl h1
          · right
            rw [recordUndo_tables, h1.1, h1.2]
            exact ⟨T', by simp, hlt⟩
        split
        · exact hrec s _ _ rfl rfl (by simp) (fun t' i l hl => Or.inl hl)
        · refine hrec (lockAll s A t [T.rows.length]) _ _ rfl rfl (by simp) ?_
          intro t' i l hl
          simp only [lockAll, List.mem_singleton] at hl
          split at hl
          · rename_i hc; exact Or.inr hc
          · exact Or.inl hl

theorem lr_txUpdate {s : State} (h : LR s) (A t : Nat) (c : Cond) (u : List (Nat × Val)) : LR (txUpdate s A t c u).1 := by
  unfold txUpdate
  split
  · exact h
  · split
    · exact h
    · rename_i T hT
      dsimp only
      split
      · exact h
      · split
        · exact h
        · have hex : ∀ i ∈ matching T c, i < T.rows.length := by
            intro i hi
            obtain ⟨r, hr, _⟩ := mem_matching.1 hi
            exact (List.getElem?_eq_some_iff.1 hr).1
          have h1 : LR (if (matching T c).isEmpty then s else lockAll s A t (matching T c)) := by
            split
            · exact h
            · exact lr_lockAll h hT hex
          refine lr_of_ext h1 (ext_foldl (ext_updateRow A t u) _ _) ?_
          intro t' i l hl
          rw [(foldl_updateRow_locks A t u _ _).1] at hl
          exact Or.inl hl

theorem lr_txDelete {s : State} (h : LR s) (A t : Nat) (c : Cond) : LR (txDelete s A t c).1 := by
  unfold txDelete
  split
  · exact h
  · split
    · exact h
    · rename_i T hT
      dsimp only
      split
      · exact h
      · have hex : ∀ i ∈ matching T c, i < T.rows.length := by
          intro i hi
          obtain ⟨r, hr, _⟩ := mem_matching.1 hi
          exact (List.getElem?_eq_some_iff.1 hr).1
        have h1 : LR (if (matching T c).isEmpty then s else lockAll s A t (matching T c)) := by
          split
          · exact h
          · exact lr_lockAll h hT hex
        refine lr_of_ext h1 (ext_foldl (ext_deleteRow A t) _ _) ?_
        intro t' i l hl
        rw [(foldl_deleteRow_locks A t _ _).1] at hl
        exact Or.inl hl

theorem lr_begin {s : State} (h : LR s) : LR (begin s).1 := ⟨h.tabLt, h.lockRow⟩

theorem lr_finishAuto {p : State × Res} (h : LR p.1) (I : Nat) : LR (finishAuto p I).1 := by
  unfold finishAuto
  split
  · exact lr_rollback h I
  · exact lr_commit h I

theorem lr_ddl {s : State} (h : LR s) {t : Nat} {T T' : Table} (hT : s.tables t = some T) (hr : T'.rows = T.rows) :
    LR (setTable s t T') :=
  lr_of_ext h (ext_setTable hT (by rw [hr]; exact Nat.le_refl _)) (fun _ _ _ hl => Or.inl hl)

theorem lr_step {s : State} (h : LR s) (op : Op) : LR (step s op).1 := by
  cases op with
  | begin => exact lr_begin h
  | commit A => exact lr_commit h A
  | rollback A => exact lr_rollback h A
  | txInsert A t v => exact lr_txInsert h A t v
  | txUpdate A t c u => exact lr_txUpdate h A t c u
  | txDelete A t c => exact lr_txDelete h A t c
  | insert t v =>
    simp only [step]; unfold insert
    repeat' split
    all_goals first
      | exact h
      | exact lr_finishAuto (lr_txInsert (lr_begin h) _ _ _) _
  | update t c u =>
    simp only [step]; unfold update
    repeat' split
    all_goals first
      | exact h
      | exact lr_finishAuto (lr_txUpdate (lr_begin h) _ _ _ _) _
  | delete t c =>
    simp only [step]; unfold delete
    repeat' split
    all_goals first
      | exact h
      | exact lr_finishAuto (lr_txDelete (lr_begin h) _ _ _) _
  | batchInsert t rows =>
    rcases batchInsert_form s t rows with hf | ⟨T, hT, _, hf⟩
    · show LR (batchInsert s t rows).1; rw [hf]; exact h
    · show LR (batchInsert s t rows).1
      rw [hf]
      refine lr_of_ext h (ext_setTable hT ?_) (fun _ _ _ hl => Or.inl hl)
      rw [(foldl_insertRow rows T).1, List.length_append]; omega
  | createTable n nl =>
    have hnone : s.tables s.ntables = none := by
      cases hT : s.tables s.ntables with
      | none => rfl
      | some T => exact absurd (h.tabLt _ T hT) (Nat.lt_irrefl _)
    have htab : ∀ k, (step s (.createTable n nl)).1.tables k =
        if k = s.ntables then some { ncols := n, nullable := nl, rows := [], hashOn := [], btreeOn := [], hashE := [], btreeE := [] }
        else s.tables k := fun k => rfl
    exact {
      tabLt := by
        intro k T hT
        show k < s.ntables + 1
        rw [htab] at hT
        split at hT
        · omega
        · exact Nat.lt_succ_of_lt (h.tabLt k T hT)
      lockRow := by
        intro t i l hl
        obtain ⟨T, hT, hlt⟩ := h.lockRow t i l hl
        refine ⟨T, ?_, hlt⟩
        rw [htab]
        split
        · rename_i he; subst he; rw [hnone] at hT; cases hT
        · exact hT }
  | createIndex t c =>
    simp only [step]; unfold createIndex
    split
    · exact h
    · rename_i T hT
      split
      · exact h
      · split
        · exact h
        · exact lr_ddl h hT rfl
  | createBtree t c =>
    simp only [step]; unfold createBtree
    split
    · exact h
    · rename_i T hT
      split
      · exact h
      · split
        · exact h
        · exact lr_ddl h hT rfl
  | dropIndex t c =>
    simp only [step]; unfold dropIndex
    split
    · exact h
    · rename_i T hT
      split
      · exact lr_ddl h hT rfl
      · exact h
  | dropBtree t c =>
    simp only [step]; unfold dropBtree
    split
    · exact h
    · rename_i T hT
      split
      · exact lr_ddl h hT rfl
      · exact h
  | tick d => exact ⟨h.tabLt, h.lockRow⟩
  | cleanupLocks =>
    refine lr_of_ext h (Ext.of_eq rfl rfl) ?_
    intro t i l hl
    simp only [step, cleanupLocks] at hl
    split at hl
    · cases hl
    · exact Or.inl hl
  | cleanupTxs =>
    have f2 := foldl_release_rest ((List.range s.nextTx).filter (txExpired s)) s
    refine lr_of_ext h (Ext.of_eq f2.2.2.2 f2.1) ?_
    intro t i l hl
    exact Or.inl (foldl_release_sub _ s hl)

theorem lr_init (a b : Nat) : LR (init a b) where
  tabLt := by intro t T h; simp [init] at h
  lockRow := by intro t i l h; simp [init] at h

theorem lr_run {s : State} (h : LR s) (ops : List Op) : LR (run s ops) := by
  induction ops generalizing s with
  | nil => exact h
  | cons op ops ih => exact ih (lr_step h op)

/-- under `LR` a successful `tx_insert` leaves the new row locked by its transaction -/
theorem txInsert_locks_row {s : State} (h : LR s) {A t n : Nat} {vals : List Val} {T : Table} (hT : s.tables t = some T)
    (hok : (txInsert s A t vals).2 = .okN n) : n = T.rows.length ∧ holder (txInsert s A t vals).1 t n = some A := by
  have hnl : s.locks t T.rows.length = none := by
    cases hl : s.locks t T.rows.length with
    | none => rfl
    | some l =>
      obtain ⟨T0, hT0, hlt⟩ := h.lockRow _ _ l hl
      rw [hT] at hT0; cases hT0
      exact absurd hlt (Nat.lt_irrefl _)
  cases hg : gate s A with
  | some e => unfold txInsert at hok; rw [hg] at hok; cases hok
  | none =>
    obtain ⟨x, hx⟩ := gate_none hg
    by_cases hlen : rowBad T vals = false
    · rw [txInsert_ok_form hg hx hT hlen hnl] at hok ⊢
      simp only [Res.okN.injEq] at hok
      subst hok
      refine ⟨rfl, ?_⟩
      simp [holder, lockAll, Lock.expired]
    · unfold txInsert at hok
      rw [hg] at hok
      simp only [hT, (Bool.not_eq_false _).mp hlen, ↓reduceIte] at hok
      cases hok

end Neumann.RelTx

/-! ## scripts used by the witnesses and non-vacuity examples of `Props.lean` -/
namespace Neumann.RelTx.Props
open Neumann.RelTx

def s0 : State := init 30000 60000
/-- table 0 with a hash and a b-tree index on column 0, one committed row `[1,1]` (slab id 0) -/
def setupIdx : List Op := [.createTable 2 [], .createIndex 0 0, .createBtree 0 0, .insert 0 [1, 1]]
def setupPlain : List Op := [.createTable 2 [], .insert 0 [1, 1]]

/-- a transaction (id 2) that updated row 0, deleted row 1 and inserted row 2 — each row named once -/
def sThree : State :=
  run s0 (setupIdx ++ [.insert 0 [2, 2], .begin, .txUpdate 2 0 (.idEq 0) [(0, 4)], .txDelete 2 0 (.idEq 1), .txInsert 2 0 [3, 3]])

/-- a calm script: DDL before the transactions and on an untouched table, a tick inside the lock
    timeout, transactions 3 (A), 4 (B) open, 6 (C) committed, non-transactional statements -/
def calmOps : List Op := [
  .createTable 2 [], .createIndex 0 0, .createBtree 0 0, .createBtree 0 1,
  .insert 0 [1, 1], .insert 0 [2, 2], .insert 0 [3, 3],
  .begin, .begin,
  .txUpdate 3 0 (.idEq 0) [(0, 4)],
  .txInsert 4 0 [7, 7],
  .tick 1000,
  .txInsert 3 0 [5, 5],
  .txUpdate 3 0 (.idEq 4) [(1, 0)],
  .txUpdate 3 0 (.idEq 0) [(0, 5), (1, 5)],
  .txDelete 3 0 (.idEq 0),
  .txUpdate 4 0 (.idEq 1) [(1, 9)],
  .update 0 (.idEq 2) [(0, 8)],
  .txUpdate 4 0 .all [(0, 0)],
  .begin, .txUpdate 6 0 (.idEq 2) [(1, 1)], .commit 6,
  .createTable 1 [], .createIndex 1 0]

/-- the shape of the seeded regression C09_2: three columns (0 = hash-indexed, 1 = b-tree-indexed,
    2 = not indexed), three committed rows, transaction 3 open -/
def sameValueSetup : List Op := [.createTable 3 [], .createIndex 0 0, .createBtree 0 1,
  .insert 0 [1, 3, 100], .insert 0 [1, 5, 200], .insert 0 [2, 7, 300], .begin]

/-- an ORM-style "write all columns" UPDATE of row 1: column 2 changes, the indexed columns 0 and 1
    are written back with the values the row already holds -/
def sameValueUpd : List (Nat × Val) := [(0, 1), (1, 5), (2, 150)]

def sameValueOps : List Op := sameValueSetup ++ [.txUpdate 3 0 (.idEq 1) sameValueUpd]

end Neumann.RelTx.Props
