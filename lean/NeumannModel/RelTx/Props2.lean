import NeumannModel.RelTx.LockOwner
/-
  C09 — second module of property theorems (ONLY theorems and their non-vacuity examples):
  statement-level atomicity (a statement that answers an error has changed nothing), the read
  side (`tx_select`, every index-served answer in every calm run, compound conditions), the
  lock sweep and the active-transaction counter.
-/
namespace Neumann.RelTx.Props2
open Neumann.RelTx Neumann.RelTx.Props

/-! ## a statement that fails changes nothing -/

/-- Statement-level all-or-nothing, EVERY state: a transactional statement (`tx_insert`, `tx_update`,
    `tx_delete`), a `commit` or a `rollback` that answers an error — unknown / finished transaction,
    unknown table or column, wrong arity, lock conflict on ANY of the matched rows — returns the state
    it was given: no row, no index entry, no undo entry, no lock, no transaction record has changed
    (a `tx_update` that finds one of ten matched rows locked has not touched the other nine).  The
    one error that is reported AFTER work was done is `RollbackFailed` (the transaction is ended and
    its locks are released whatever the undo reported), hence the exclusion. -/
theorem failed_statement_changes_nothing (s : State) (tx t : Nat) (e : Err) :
    (∀ vals, (txInsert s tx t vals).2 = .err e → (txInsert s tx t vals).1 = s) ∧
    (∀ cond upd, (txUpdate s tx t cond upd).2 = .err e → (txUpdate s tx t cond upd).1 = s) ∧
    (∀ cond, (txDelete s tx t cond).2 = .err e → (txDelete s tx t cond).1 = s) ∧
    ((commit s tx).2 = .err e → (commit s tx).1 = s) ∧
    ((rollback s tx).2 = .err e → e ≠ .rollbackFailed → (rollback s tx).1 = s) := by
  refine ⟨?_, ?_, ?_, ?_, ?_⟩
  · intro vals
    unfold txInsert
    split
    · intro _; rfl
    · split
      · intro _; rfl
      · split
        · intro _; rfl
        · intro h; cases h
  · intro cond upd
    unfold txUpdate
    split
    · intro _; rfl
    · split
      · intro _; rfl
      · split
        · intro _; rfl
        · dsimp only
          split
          · intro _; rfl
          · intro h; cases h
  · intro cond
    unfold txDelete
    split
    · intro _; rfl
    · split
      · intro _; rfl
      · dsimp only
        split
        · intro _; rfl
        · intro h; cases h
  · unfold commit
    split
    · intro _; rfl
    · intro h; cases h
  · unfold rollback
    split
    · intro _ _; rfl
    · intro h hne
      have k : ∀ n : Nat, (if n = 0 then Res.ok else Res.err .rollbackFailed) = .err e → False := by
        intro n hn
        split at hn
        · cases hn
        · cases hn; exact hne rfl
      exact (k _ h).elim

/-- non-vacuity: every error class of the three statements occurs, on a state with an open transaction
    that holds a lock -/
example : let s := run s0 (setupIdx ++ [.begin, .begin, .txUpdate 1 0 (.idEq 0) [(0, 4)]])
    (txInsert s 9 0 [1, 1]).2 = .err .txNotFound ∧ (txInsert s 1 7 [1, 1]).2 = .err .tableNotFound ∧
    (txInsert s 1 0 [1]).2 = .err .badInput ∧ (txUpdate s 2 0 .all [(5, 1)]).2 = .err .columnNotFound ∧
    (txUpdate s 2 0 .all [(1, 1)]).2 = .err .lockConflict ∧ (txDelete s 2 0 (.and (.eq 0 4) (.ge 1 0))).2 = .err .lockConflict ∧
    (txDelete s 2 3 .all).2 = .err .tableNotFound ∧ (commit s 0).2 = .err .txNotFound := by decide

/-- the same for the NON-transactional `insert` / `update` / `delete_rows` (each is
    `begin; tx_op; commit | rollback` on an internal transaction): when the statement answers an
    error, no table has changed, no other transaction's record has changed and every lock that does
    not belong to the internal transaction is exactly where it was (the only trace is the consumed
    transaction id). -/
theorem failed_nontx_statement_changes_nothing (s : State) (t : Nat) (e : Err) (s' : State)
    (h : (∃ vals, s' = (insert s t vals).1 ∧ (insert s t vals).2 = .err e) ∨
         (∃ cond upd, s' = (update s t cond upd).1 ∧ (update s t cond upd).2 = .err e) ∨
         (∃ cond, s' = (delete s t cond).1 ∧ (delete s t cond).2 = .err e)) :
    s'.tables = s.tables ∧ (∀ B, B ≠ s.nextTx → s'.txs B = s.txs B) ∧
    (∀ t' i l, s.locks t' i = some l → l.tx ≠ s.nextTx → s'.locks t' i = some l) := by
  -- the internal transaction of a failed statement: fresh, and the inner statement returned its input
  have key : ∀ (p : State × Res), p.1 = (begin s).1 → (∃ e', p.2 = .err e') →
      (finishAuto p (begin s).2).1.tables = s.tables ∧
      (∀ B, B ≠ s.nextTx → (finishAuto p (begin s).2).1.txs B = s.txs B) ∧
      (∀ t' i l, s.locks t' i = some l → l.tx ≠ s.nextTx → (finishAuto p (begin s).2).1.locks t' i = some l) := by
    rintro ⟨p1, p2⟩ hp ⟨e', he'⟩
    simp only at hp he'
    subst hp he'
    have hgate : gate (begin s).1 (begin s).2 = none := by simp [gate, begin]
    have hlog : (begin s).1.txs (begin s).2 = some { phase := .active, startedAt := s.now, undo := [] } := by
      simp [begin]
    unfold finishAuto
    simp only
    unfold rollback
    rw [hgate]
    simp only [hlog, List.reverse_nil, List.foldl_nil, setTx_tables, release_tables, setTx_txs, release_txs, setTx_locks]
    refine ⟨by simp [begin], ?_, ?_⟩
    · intro B hB
      have : (begin s).2 = s.nextTx := rfl
      simp [begin, hB]
    · intro t' i l hl hne
      exact release_keeps (s := (begin s).1) (A := (begin s).2) hl hne
  have same : s.tables = s.tables ∧ (∀ B, B ≠ s.nextTx → s.txs B = s.txs B) ∧
      (∀ t' i l, s.locks t' i = some l → l.tx ≠ s.nextTx → s.locks t' i = some l) :=
    ⟨rfl, fun _ _ => rfl, fun _ _ _ hl _ => hl⟩
  rcases h with ⟨vals, rfl, he⟩ | ⟨cond, upd, rfl, he⟩ | ⟨cond, rfl, he⟩
  · unfold insert at he ⊢
    split
    · exact same
    · split
      · exact same
      · rename_i T hT hlen
        simp only [hT, hlen, ↓reduceIte] at he
        have f := (failed_statement_changes_nothing (begin s).1 (begin s).2 t e).1 vals
        cases hr : (txInsert (begin s).1 (begin s).2 t vals).2 with
        | err e' =>
          have f' := (failed_statement_changes_nothing (begin s).1 (begin s).2 t e').1 vals hr
          exact key _ f' ⟨e', hr⟩
        | ok => unfold finishAuto at he; rw [hr] at he; cases he
        | okN n => unfold finishAuto at he; rw [hr] at he; cases he
  · unfold update at he ⊢
    split
    · exact same
    · split
      · exact same
      · rename_i T hT hcol
        simp only [hT, hcol] at he
        cases hr : (txUpdate (begin s).1 (begin s).2 t cond upd).2 with
        | err e' =>
          have f' := (failed_statement_changes_nothing (begin s).1 (begin s).2 t e').2.1 cond upd hr
          exact key _ f' ⟨e', hr⟩
        | ok => unfold finishAuto at he; rw [hr] at he; cases he
        | okN n => unfold finishAuto at he; rw [hr] at he; cases he
  · unfold delete at he ⊢
    split
    · exact same
    · rename_i T hT
      simp only [hT] at he
      cases hr : (txDelete (begin s).1 (begin s).2 t cond).2 with
      | err e' =>
        have f' := (failed_statement_changes_nothing (begin s).1 (begin s).2 t e').2.2.1 cond hr
        exact key _ f' ⟨e', hr⟩
      | ok => unfold finishAuto at he; rw [hr] at he; cases he
      | okN n => unfold finishAuto at he; rw [hr] at he; cases he

/-- non-vacuity: a non-transactional update / delete that runs into an open transaction's lock -/
example : let s := run s0 (setupIdx ++ [.insert 0 [2, 2], .begin, .txUpdate 2 0 (.idEq 0) [(0, 4)]])
    (update s 0 (.or (.eq 0 4) (.eq 0 2)) [(1, 9)]).2 = .err .lockConflict ∧ (delete s 0 (.ne 1 7)).2 = .err .lockConflict ∧
    (update s 0 (.idEq 1) [(1, 9)]).2 = .okN 1 ∧ (insert s 0 [1]).2 = .err .badInput ∧ holder s 0 0 = some 2 := by decide

/-! ## batch_insert -/

/-- `batch_insert` is the one writing statement that does not go through a transaction.  EVERY state:
    it is all-or-nothing (an error — unknown table, one row with a NULL the column refuses — leaves the
    state as it was; success appends exactly the given rows, alive, in order, after the existing ones),
    it takes no row lock, consumes no transaction id and touches no transaction record, and it changes
    no existing row of any table.  (So it never conflicts with an open transaction, and the run-level
    theorems — `rollback_restores`, `held_lock_survives_others`, `index_answers_exact_in_calm_runs` —
    hold for scripts that contain it: it is one more case of every per-statement invariant.) -/
theorem batch_insert_all_or_nothing_no_lock (s : State) (t : Nat) (rows : List (List Val)) :
    (∀ e, (batchInsert s t rows).2 = .err e → (batchInsert s t rows).1 = s) ∧
    ((batchInsert s t rows).1.locks = s.locks ∧ (batchInsert s t rows).1.txLocks = s.txLocks ∧
      (batchInsert s t rows).1.txs = s.txs ∧ (batchInsert s t rows).1.nextTx = s.nextTx) ∧
    (∀ T n, s.tables t = some T → (batchInsert s t rows).2 = .okN n →
      n = rows.length ∧ ∃ T', (batchInsert s t rows).1.tables t = some T' ∧
        T'.rows = T.rows ++ rows.map (fun v => { alive := true, vals := v })) ∧
    (∀ t', t' ≠ t → (batchInsert s t rows).1.tables t' = s.tables t') := by
  refine ⟨?_, ?_, ?_, ?_⟩
  · intro e
    unfold batchInsert
    split
    · intro h; cases h
    · split
      · intro _; rfl
      · split
        · intro _; rfl
        · intro h; cases h
  · rcases batchInsert_form s t rows with hf | ⟨T, _, _, hf⟩ <;> rw [hf] <;> exact ⟨rfl, rfl, rfl, rfl⟩
  · intro T n hT hok
    unfold batchInsert at hok ⊢
    split
    · rename_i he
      simp only [he, ↓reduceIte] at hok
      have : rows = [] := by simpa using he
      subst this
      cases hok
      exact ⟨rfl, T, hT, by simp⟩
    · rename_i he
      simp only [he, hT] at hok ⊢
      split
      · rename_i hb; simp only [hb, ↓reduceIte] at hok; cases hok
      · rename_i hb
        simp only [hb] at hok
        cases hok
        exact ⟨rfl, _, by simp, (foldl_insertRow rows T).1⟩
  · intro t' hne
    rcases batchInsert_form s t rows with hf | ⟨T, _, _, hf⟩ <;> rw [hf]
    simp [hne]

/-- non-vacuity: a batch next to an open transaction's lock; a batch with one bad row; an empty batch on
    an unknown table -/
example : let s := run s0 (setupIdx ++ [.begin, .txUpdate 1 0 (.idEq 0) [(0, 4)]])
    (batchInsert s 0 [[2, 2], [3, 3]]).2 = .okN 2 ∧ holder (batchInsert s 0 [[2, 2], [3, 3]]).1 0 0 = some 1 ∧
    holder (batchInsert s 0 [[2, 2], [3, 3]]).1 0 1 = none ∧
    ((batchInsert s 0 [[2, 2], [3, 3]]).1.tables 0).map (select · (.ge 0 2)) = some [(0, [4, 1]), (1, [2, 2]), (2, [3, 3])] ∧
    (batchInsert s 0 [[2, 2], [3, .null]]).2 = .err .badInput ∧ (batchInsert s 7 [[2, 2]]).2 = .err .tableNotFound ∧
    (batchInsert s 7 []).2 = .okN 0 := by decide

/-! ## reads -/

/-- Every query answered through an index, in EVERY calm run (not only right after a rollback): after
    any calm script — interleaved transactions with uncommitted work in place, commits, rollbacks,
    non-transactional statements, index DDL — the `select` answer for ANY condition (equality served
    by a hash index, ranges served by a b-tree index, `And` served by the index of whichever side has
    one, `Ne` / `Or` / `_id` scanned) is exactly the filter of the full scan; and `tx_select` by any open
    transaction is that same answer (no snapshot, no read lock). -/
theorem index_answers_exact_in_calm_runs (a b : Nat) (ops : List Op) (hcalm : calm (init a b) ops = true)
    (t : Nat) (T : Table) (hT : (run (init a b) ops).tables t = some T) (cond : Cond) :
    select T cond = scanAnswer T cond ∧
    (∀ A, gate (run (init a b) ops) A = none → txSelect (run (init a b) ops) A t cond = .rows (scanAnswer T cond)) := by
  have hinv : Inv (run (init a b) ops) := inv_run (inv_init a b) ops hcalm
  have h1 := select_eq_scan T (hinv.idx t T hT) cond
  refine ⟨h1, ?_⟩
  intro A hA
  unfold txSelect
  rw [hA]
  simp only [hT, h1]

set_option maxRecDepth 8000 in
/-- non-vacuity: in the calm script `calmOps` (three interleaved transactions, two open) an `And` whose
    left side is served by the hash index, one whose right side is served by the b-tree index and an
    `Or` (scan) — candidates exist, and the answers are the scan's -/
example : calm s0 calmOps = true ∧
    ((run s0 calmOps).tables 0).map (fun T => (candidates T (.and (.eq 0 8) (.ne 1 0))).isSome) = some true ∧
    ((run s0 calmOps).tables 0).map (fun T => (candidates T (.and (.ne 1 0) (.ge 0 3))).isSome) = some true ∧
    ((run s0 calmOps).tables 0).map (fun T => (candidates T (.or (.eq 0 8) (.ge 0 3))).isSome) = some false ∧
    ((run s0 calmOps).tables 0).map (fun T => select T (.and (.ne 1 0) (.ge 0 3))) = some [(2, [8, 1]), (3, [7, 7])] ∧
    txSelect (run s0 calmOps) 3 0 (.and (.eq 0 8) (.ne 1 0)) = .rows [(2, [8, 1])] ∧
    txSelect (run s0 calmOps) 6 0 .all = .err .txNotFound := by decide

/-- a calm script over a table whose column 0 is nullable and carries a hash and a b-tree index: committed
    rows `[NULL,1]`, `[3,3]`; the open transaction 2 turns NULL into 4, 3 into NULL and inserts `[NULL,5]` -/
def nullOps : List Op := [.createTable 2 [0], .createIndex 0 0, .createBtree 0 0,
  .insert 0 [.null, 1], .insert 0 [3, 3], .begin, .txUpdate 2 0 (.idEq 0) [(0, 4)], .txUpdate 2 0 (.idEq 1) [(0, .null)],
  .txInsert 2 0 [.null, 5]]

/-- non-vacuity with NULLs: `= NULL` is answered through the hash index (bucket of NULL), the b-tree range
    `..= 9` scans the NULL keys too (candidates 0, 1, 2) but the re-check drops them, a comparison with NULL
    matches nothing; after the rollback the NULL entry of row 0 is back and the others are gone; NULL for the
    column that refuses it fails as a whole -/
example : calm s0 nullOps = true ∧ gate (run s0 nullOps) 2 = none ∧
    ((run s0 nullOps).tables 0).map (select · (.eq 0 .null)) = some [(1, [.null, 3]), (2, [.null, 5])] ∧
    ((run s0 nullOps).tables 0).map (candidates · (.le 0 9)) = some (some [0, 1, 2]) ∧
    ((run s0 nullOps).tables 0).map (select · (.le 0 9)) = some [(0, [4, 1])] ∧
    ((run s0 nullOps).tables 0).map (select · (.ge 0 .null)) = some [] ∧
    ((rollback (run s0 nullOps) 2).1.tables 0).map (select · (.eq 0 .null)) = some [(0, [.null, 1])] ∧
    ((rollback (run s0 nullOps) 2).1.tables 0).map (select · (.le 0 9)) = some [(1, [3, 3])] ∧
    (txInsert (run s0 nullOps) 2 0 [1, .null]).2 = .err .badInput ∧
    (txUpdate (run s0 nullOps) 2 0 .all [(1, .null)]).2 = .err .badInput ∧
    (update (run s0 nullOps) 0 (.idEq 4) [(1, .null)]).2 = .err .badInput := by decide

/-! ## the lock sweep -/

/-- `cleanup_expired_locks` removes only locks that no longer count: in EVERY state the
    `row_lock_holder` answer of every row is the same before and after the sweep, no table and no
    transaction record changes — so the sweep can run at any point of any interleaving without
    letting a writer past a live lock. -/
theorem lock_sweep_keeps_every_holder (s : State) :
    (cleanupLocks s).1.tables = s.tables ∧ (cleanupLocks s).1.txs = s.txs ∧
    (∀ t i, holder (cleanupLocks s).1 t i = holder s t i) ∧
    (∀ tx t rows, lockBlocked (cleanupLocks s).1 tx t rows = lockBlocked s tx t rows) := by
  have hl : ∀ t i, (cleanupLocks s).1.locks t i = if lockExpiredAt s t i then none else s.locks t i := fun _ _ => rfl
  have hn : (cleanupLocks s).1.now = s.now := rfl
  have hto : (cleanupLocks s).1.lockTimeout = s.lockTimeout := rfl
  refine ⟨rfl, rfl, ?_, ?_⟩
  · intro t i
    unfold holder
    rw [hl, hn, hto]
    unfold lockExpiredAt
    cases h : s.locks t i with
    | none => simp
    | some l =>
      by_cases he : l.expired s.now s.lockTimeout = true <;> simp [he]
  · intro tx t rows
    unfold lockBlocked
    congr 1
    funext i
    rw [hl, hn, hto]
    unfold lockExpiredAt
    cases h : s.locks t i with
    | none => simp
    | some l =>
      by_cases he : l.expired s.now s.lockTimeout = true <;> simp [he]

/-- non-vacuity: one expired and one live lock; the sweep removes one entry, the holders stay -/
example : let s := run s0 (setupIdx ++ [.insert 0 [2, 2], .begin, .begin, .txUpdate 2 0 (.idEq 0) [(0, 4)], .tick 20000,
      .txUpdate 3 0 (.idEq 1) [(0, 5)], .tick 10001])
    holder s 0 0 = none ∧ (s.locks 0 0).isSome ∧ holder s 0 1 = some 3 ∧ (cleanupLocks s).2 = .okN 1 ∧
    ((cleanupLocks s).1.locks 0 0).isNone ∧ holder (cleanupLocks s).1 0 1 = some 3 := by decide

/-! ## the active-transaction counter -/

theorem filter_flip_length {l : List Nat} (hl : l.Nodup) {A : Nat} (hA : A ∈ l) {p q : Nat → Bool}
    (hp : p A = true) (hq : q A = false) (hsame : ∀ k, k ≠ A → q k = p k) :
    (l.filter q).length + 1 = (l.filter p).length := by
  induction l with
  | nil => cases hA
  | cons x rest ih =>
    have hnd := List.nodup_cons.1 hl
    by_cases hx : x = A
    · subst hx
      have hrest : rest.filter q = rest.filter p := by
        apply List.filter_congr
        intro k hk
        exact hsame k (fun e => hnd.1 (e ▸ hk))
      simp only [List.filter_cons, hp, hq, hrest]
      simp
    · have hA' : A ∈ rest := by
        rcases List.mem_cons.1 hA with h | h
        · exact absurd h.symm hx
        · exact h
      have := ih hnd.2 hA'
      simp only [List.filter_cons, hsame x hx]
      split
      · simp only [List.length_cons]; omega
      · exact this

/-- `active_transaction_count`: `begin` adds one; `commit` and `rollback` of an open transaction (an id
    that was handed out) take exactly one away — whatever the undo reports; every other transaction
    keeps being counted. -/
theorem active_count_tracks_open_transactions (s : State) :
    activeCount (begin s).1 = activeCount s + 1 ∧
    (∀ A, A < s.nextTx → gate s A = none →
      activeCount (commit s A).1 + 1 = activeCount s ∧ activeCount (rollback s A).1 + 1 = activeCount s) := by
  refine ⟨?_, ?_⟩
  · have hf : ∀ k, isActive (begin s).1 k = if k = s.nextTx then true else isActive s k := by
      intro k
      by_cases hk : k = s.nextTx <;> simp [isActive, begin, hk]
    unfold activeCount
    rw [show (begin s).1.nextTx = s.nextTx + 1 from rfl, List.filter_congr (fun k _ => hf k),
      List.range_succ, List.filter_append, List.length_append]
    have h1 : ((List.range s.nextTx).filter fun k => if k = s.nextTx then true else isActive s k) =
        (List.range s.nextTx).filter (isActive s) := by
      apply List.filter_congr
      intro k hk
      have : k ≠ s.nextTx := Nat.ne_of_lt (List.mem_range.1 hk)
      simp [this]
    rw [h1]
    simp
  · intro A hA hg
    have hx : ∃ x, s.txs A = some x ∧ x.phase = .active := by
      unfold gate at hg
      cases h : s.txs A with
      | none => rw [h] at hg; cases hg
      | some x =>
        rw [h] at hg
        refine ⟨x, rfl, ?_⟩
        by_cases hp : x.phase = .active
        · exact hp
        · simp [hp] at hg
    obtain ⟨x, hx, hact⟩ := hx
    have flip : ∀ (s' : State), s'.nextTx = s.nextTx → (∀ k, s'.txs k = if k = A then none else s.txs k) →
        activeCount s' + 1 = activeCount s := by
      intro s' hn htx
      unfold activeCount
      rw [hn]
      apply filter_flip_length List.nodup_range (List.mem_range.2 hA)
      · simp [isActive, hx, hact]
      · simp [isActive, htx]
      · intro k hk; simp [isActive, htx, hk]
    refine ⟨?_, ?_⟩
    · apply flip
      · unfold commit; rw [hg]; rfl
      · intro k; unfold commit; rw [hg]; simp
    · apply flip
      · unfold rollback; rw [hg]
        simp only [setTx_nextTx, release_nextTx]
        exact (foldl_applyUndo_fields _ (s, 0)).2.2.2.2.1
      · intro k; unfold rollback; rw [hg]
        simp only [setTx_txs, release_txs]
        rw [(foldl_applyUndo_fields _ (s, 0)).2.2.2.2.2]

/-- non-vacuity -/
example : let s := run s0 (setupIdx ++ [.begin, .begin, .txUpdate 1 0 (.idEq 0) [(0, 4)]])
    activeCount s = 2 ∧ activeCount (commit s 1).1 = 1 ∧ activeCount (rollback s 2).1 = 1 ∧
    activeCount (begin s).1 = 3 ∧ activeCount (run s [.commit 1, .rollback 2, .commit 1]) = 0 := by decide

end Neumann.RelTx.Props2
