/-
  C09 — model of the relational engine's transaction layer
  (/repo/relational_engine/src/lib.rs: begin_transaction, tx_insert, tx_update, tx_delete,
   commit, rollback, apply_undo_entry, index_add/remove, btree_index_add/remove,
   create/drop_index, create/drop_btree_index, select, tx_select, batch_insert, try_index_lookup,
   Condition::evaluate, active_transaction_count;
   /repo/relational_engine/src/transaction.rs: TransactionManager, RowLockManager;
   /repo/tensor_store/src/relational_slab.rs: insert/delete/update/restore_row/restore_deleted_row).

  Import-free, total, computable.  Mirrors the code AS IT IS, branch by branch:

  * a table is an append-only slab of rows (`alive` flag + values); the slab row id is the
    position (engine row id = position + 1, added by the driver), ids are never reused;
  * a hash index is the set of store entries `_idx:<t>:<col>:<hash(v)>` ↦ id list, a b-tree index
    the in-memory map `(t,col)` ↦ (key ↦ id list); both are kept here as duplicate-free lists of
    `(col, key, id)` entries.  `hashOn` / `btreeOn` are the columns whose *meta key* exists.
    `index_add` / `btree_index_add` write entries whether or not the index exists
    (the b-tree one even creates the in-memory map with `entry().or_default()`; their callers
    guard them with `has_index` / `has_btree_index` where the code does), `create_*_index`
    adds on top of whatever entries are there, `drop_*_index` removes every entry of the column;
  * transactions: `txs id = some tx` while the transaction is in the manager's map (it is removed
    by commit / rollback / cleanup_expired); undo entries hold exactly what the code records;
  * row locks: `locks t row = some {tx, acquiredAt}`, `txLocks tx` = the key list of
    `tx_locks` (duplicates kept: a re-lock pushes the key again);  `tx_insert` locks the row it
    inserts (dcf916e8; the result of that `try_lock` is discarded with `let _ =`, so a conflict
    would leave the new row unlocked and the insert goes on);  `try_lock` overwrites an EXPIRED
    lock of another transaction but leaves the key in the old holder's `tx_locks` list, so
    `release tx` = "for every key listed under `tx`: remove the lock iff it still belongs to `tx`"
    (the ownership check is what protects the new holder); `releaseNoOwnerCheck` /
    `stepNoOwnerCheck` are that loop without the check (NOT the code; regression witness only);
    `cleanup_expired_locks` (`cleanupLocks`) removes every expired lock and, per removed lock, exactly
    that key from its owner's list — a transaction's locks have different ages, so its younger locks
    stay in the table AND in the list; `cleanupLocksDropList` / `stepDropList` drop the owner's whole
    list instead (NOT the code; regression witness only);
  * `apply_undo_entry` (c322e794) re-adds / swaps hash and b-tree entries only for indexes that
    exist at rollback time; the undo of an insert removes its entries unconditionally;
  * the code before those two fixes is kept as `txInsertOld`, `applyUndoTOld`, `rollbackOld`,
    `stepOld`, `runOld` (used only by the regression `_witness` theorems);
  * non-transactional insert / update / delete_rows are `begin; tx_op; commit | rollback`
    exactly as in the code (so they consume a transaction id and honour row locks);
  * time is the explicit `now` (milliseconds), advanced only by `tick`.

  Values are `Val` = NULL | Int; a table has `ncols` Int columns, each nullable or not
  (`Table.nullable`): an insert must give every non-nullable column a non-NULL value and an update
  may assign NULL to nullable columns only (`NullNotAllowed`); an omitted column is stored and
  indexed as NULL.  Comparisons follow `partial_cmp_value` (NULL on either side: false; `Eq` / `Ne`
  compare NULL like any value), the b-tree keys follow `OrderedKey` (NULL sorts first), so a range
  lookup may return NULL-keyed candidates which the re-check drops.  Conditions: `True`, `_id =`,
  the six comparisons, `And`, `Or`; `try_index_lookup` serves `Eq` by a hash index, ranges by a b-tree
  index and `And` by the index of its left side, else of its right side.  `tx_select` = phase check +
  `select`; `batch_insert` appends rows outside any transaction.
  The two halves of `tx_update` / `tx_delete` (scan, then lock + re-read + apply; fcb86137) are in
  `RaceModel.lean`; `drop_table` (refused while an open transaction has uncommitted changes in the
  table, 6f865e8a; takes the in-memory b-tree maps with it, 6992261a) and `create_table` under a name
  that was used before are in `DdlModel.lean`.
  Not modelled: other value types (they behave like Int with their own hash key and order),
  constraints, `_id` indexes, ALTER TABLE, the condition depth limit, query timeouts
  and result caps, durable mode.  A statement is one infallible step here; the steps inside a row of
  `tx_insert` / `tx_update` / `tx_delete` and the one of them that can fail in memory —
  `btree_index_add` at the b-tree entry cap `max_btree_entries` — are in `CapModel.lean`.
-/
namespace Neumann.RelTx

/-! ## values -/

/-- a column value: `Value::Null` or `Value::Int` (the other column types behave like `Int` with their
    own order; they are not modelled) -/
inductive Val where
  | null
  | int (v : Int)
deriving DecidableEq, Repr, Inhabited

instance (n : Nat) : OfNat Val n := ⟨.int n⟩

/-- `Value::partial_cmp_value` = `Less`: defined between two non-null values only, so a comparison
    with NULL on either side is false (`compare_ord`) -/
def Val.lt : Val → Val → Bool
  | .int a, .int b => decide (a < b)
  | _, _ => false

/-- `compare_ord_le`: `partial_cmp_value` is defined and is not `Greater` -/
def Val.le : Val → Val → Bool
  | .int a, .int b => decide (a ≤ b)
  | _, _ => false

/-- the order of the b-tree keys (`OrderedKey`, derived `Ord`): `Null` sorts before every number -/
def Val.keyLt : Val → Val → Bool
  | .null, .null => false
  | .null, .int _ => true
  | .int _, .null => false
  | .int a, .int b => decide (a < b)

def Val.keyLe (a b : Val) : Bool := !(Val.keyLt b a)

/-! ## tables -/

structure Row where
  alive : Bool
  vals : List Val
deriving DecidableEq, Repr, Inhabited

/-- one index entry: `(column, key, slab row id)` -/
abbrev Entry := Nat × Val × Nat

structure Table where
  ncols : Nat
  /-- the columns declared `.nullable()`; every other column refuses NULL (`NullNotAllowed`) -/
  nullable : List Nat := []
  rows : List Row
  hashOn : List Nat
  btreeOn : List Nat
  hashE : List Entry
  btreeE : List Entry
deriving DecidableEq, Repr, Inhabited

/-- `index_add` / `btree_index_add`: push the id unless the bucket already contains it -/
def idxAdd (e : Entry) (es : List Entry) : List Entry :=
  if e ∈ es then es else es ++ [e]

/-- `index_remove` / `btree_index_remove`: `ids.retain(|id| id != row_id)` on the bucket -/
def idxRemove (e : Entry) (es : List Entry) : List Entry :=
  es.filter (fun x => x ≠ e)

/-- drop every entry of column `c` (prefix scan / `indexes.remove(&(table,col))`) -/
def idxDropCol (c : Nat) (es : List Entry) : List Entry :=
  es.filter (fun x => x.1 ≠ c)

/-- the value of column `c` (`slab_row.get(idx).map_or(Value::Null, …)`) -/
def val (vals : List Val) (c : Nat) : Val := vals.getD c .null

/-! ## conditions -/

inductive Cond where
  | all
  | idEq (id : Nat)            -- `Eq("_id", Val(id+1))`, id = slab id
  | eq (c : Nat) (v : Val)
  | ne (c : Nat) (v : Val)     -- `Ne(col, v)`: a row without the column satisfies it
  | lt (c : Nat) (v : Val)
  | le (c : Nat) (v : Val)
  | gt (c : Nat) (v : Val)
  | ge (c : Nat) (v : Val)
  | and (a b : Cond)           -- `And(a, b)`
  | or (a b : Cond)            -- `Or(a, b)`
deriving DecidableEq, Repr

/-- `Condition::evaluate` on row `id` with values `vals`; a missing column compares false
    (`Ne`: true).  `And` / `Or` evaluate both sides (`&&` / `||`; the depth limit of
    `evaluate_with_depth`, 64 by default, is not modelled) -/
def evalCond (cond : Cond) (id : Nat) (vals : List Val) : Bool :=
  match cond with
  | .all => true
  | .idEq j => id == j
  | .eq c v => match vals[c]? with | some x => x == v | none => false
  | .ne c v => match vals[c]? with | some x => x != v | none => true
  | .and a b => evalCond a id vals && evalCond b id vals
  | .or a b => evalCond a id vals || evalCond b id vals
  | .lt c v => match vals[c]? with | some x => Val.lt x v | none => false
  | .le c v => match vals[c]? with | some x => Val.le x v | none => false
  | .gt c v => match vals[c]? with | some x => Val.lt v x | none => false
  | .ge c v => match vals[c]? with | some x => Val.le v x | none => false

/-- ids (slab) of the live rows satisfying `cond`, ascending: `scan_all` + filter -/
def matching (T : Table) (cond : Cond) : List Nat :=
  (List.range T.rows.length).filter fun i =>
    match T.rows[i]? with
    | some r => r.alive && evalCond cond i r.vals
    | none => false

/-! ## undo log, transactions, locks -/

inductive Undo where
  /-- `InsertedRow { row_id, index_entries }` -/
  | inserted (t row : Nat) (idx : List (Nat × Val))
  /-- `UpdatedRow { row_id, old_values, index_changes }`, a change is `(col, old, new)` -/
  | updated (t row : Nat) (old : List Val) (chg : List (Nat × Val × Val))
  /-- `DeletedRow { row_id, old_values, index_entries }` -/
  | deleted (t row : Nat) (old : List Val) (idx : List (Nat × Val))
deriving DecidableEq, Repr

inductive Phase where
  | active | committing | committed | aborting | aborted
deriving DecidableEq, Repr

structure Tx where
  phase : Phase
  startedAt : Nat
  undo : List Undo            -- chronological (`undo_log.push`)
deriving DecidableEq, Repr

structure Lock where
  tx : Nat
  acquiredAt : Nat
deriving DecidableEq, Repr

inductive Err where
  | txNotFound | txInactive | tableNotFound | columnNotFound | badInput
  | lockConflict | indexExists | indexNotFound | rollbackFailed
  | tableExists               -- `TableAlreadyExists` (`create_table` under a name in use; `DdlModel.lean`)
deriving DecidableEq, Repr

inductive Res where
  | ok
  | okN (n : Nat)
  | err (e : Err)
deriving DecidableEq, Repr

/-- `tx_insert` / `insert` validation: a value for every column (`vals` lists the columns in schema
    order; an omitted column and an explicit `Value::Null` are both `.null`), and NULL only in
    nullable columns — otherwise `NullNotAllowed` (harness class `bad_input`) -/
def rowBad (T : Table) (vals : List Val) : Bool :=
  decide (vals.length ≠ T.ncols) ||
    (List.range T.ncols).any fun c => val vals c == .null && !(T.nullable.contains c)

/-- `tx_update` / `update` validation: every named column exists (`ColumnNotFound`) and NULL is assigned
    to nullable columns only (`NullNotAllowed`).  The code checks the SET list entry by entry in hash-map
    order, so a list with both faults may report either; the streams never put both in one statement. -/
def updBad (T : Table) (upd : List (Nat × Val)) : Bool :=
  upd.any (fun p => decide (p.1 ≥ T.ncols)) || upd.any (fun p => p.2 == .null && !(T.nullable.contains p.1))

def updErr (T : Table) (upd : List (Nat × Val)) : Err :=
  if upd.any (fun p => decide (p.1 ≥ T.ncols)) then .columnNotFound else .badInput

structure State where
  ntables : Nat
  tables : Nat → Option Table
  nextTx : Nat
  txs : Nat → Option Tx
  locks : Nat → Nat → Option Lock
  txLocks : Nat → List (Nat × Nat)
  now : Nat
  lockTimeout : Nat           -- ms (`lock_timeout_secs * 1000`)
  txTimeout : Nat             -- ms

def init (lockTimeout txTimeout : Nat) : State :=
  { ntables := 0, tables := fun _ => none, nextTx := 0, txs := fun _ => none,
    locks := fun _ _ => none, txLocks := fun _ => [], now := 0,
    lockTimeout := lockTimeout, txTimeout := txTimeout }

def setTable (s : State) (t : Nat) (T : Table) : State :=
  { s with tables := fun k => if k = t then some T else s.tables k }

def setTx (s : State) (id : Nat) (x : Option Tx) : State :=
  { s with txs := fun k => if k = id then x else s.txs k }

/-- `RowLock::is_expired`: `now.saturating_sub(acquired) > timeout` -/
def Lock.expired (l : Lock) (now timeout : Nat) : Bool := decide (now - l.acquiredAt > timeout)

/-- the transaction holding an unexpired lock on the row (`row_lock_holder`) -/
def holder (s : State) (t row : Nat) : Option Nat :=
  match s.locks t row with
  | some l => if l.expired s.now s.lockTimeout then none else some l.tx
  | none => none

/-- `is_active` / `get` prelude shared by commit, rollback and every tx_* call -/
def gate (s : State) (tx : Nat) : Option Err :=
  match s.txs tx with
  | none => some .txNotFound
  | some x => if x.phase = .active then none else some .txInactive

def recordUndo (s : State) (tx : Nat) (u : Undo) : State :=
  match s.txs tx with
  | some x => setTx s tx (some { x with undo := x.undo ++ [u] })
  | none => s

/-- first phase of `try_lock`: is some key held, unexpired, by another transaction? -/
def lockBlocked (s : State) (tx : Nat) (t : Nat) (rows : List Nat) : Bool :=
  rows.any fun i =>
    match s.locks t i with
    | some l => !(l.expired s.now s.lockTimeout) && l.tx != tx
    | none => false

/-- second phase of `try_lock`: (re)insert every key for `tx`, push it on `tx_locks[tx]` -/
def lockAll (s : State) (tx : Nat) (t : Nat) (rows : List Nat) : State :=
  { s with
    locks := fun t' i => if t' = t ∧ i ∈ rows then some { tx := tx, acquiredAt := s.now } else s.locks t' i
    txLocks := fun k => if k = tx then s.txLocks tx ++ rows.map (fun i => (t, i)) else s.txLocks k }

/-- `RowLockManager::release` -/
def release (s : State) (tx : Nat) : State :=
  { s with
    locks := fun t i =>
      match s.locks t i with
      | some l => if l.tx = tx ∧ (t, i) ∈ s.txLocks tx then none else some l
      | none => none
    txLocks := fun k => if k = tx then [] else s.txLocks k }

/-! ## begin / commit -/

def begin (s : State) : State × Nat :=
  ({ s with nextTx := s.nextTx + 1
            txs := fun k => if k = s.nextTx then some { phase := .active, startedAt := s.now, undo := [] } else s.txs k },
   s.nextTx)

def commit (s : State) (tx : Nat) : State × Res :=
  match gate s tx with
  | some e => (s, .err e)
  | none => (setTx (release s tx) tx none, .ok)

/-! ## transactional statements -/

def updGet (upd : List (Nat × Val)) (c : Nat) : Option Val :=
  match upd with
  | [] => none
  | (c', v) :: rest => if c' = c then some v else updGet rest c

/-- `slab.update_row`: columns named in `upd` get the new value -/
def applyUpdFrom (upd : List (Nat × Val)) : Nat → List Val → List Val
  | _, [] => []
  | c, v :: vs => (match updGet upd c with | some n => n | none => v) :: applyUpdFrom upd (c + 1) vs

def applyUpd (upd : List (Nat × Val)) (vals : List Val) : List Val := applyUpdFrom upd 0 vals

def txInsert (s : State) (tx t : Nat) (vals : List Val) : State × Res :=
  match gate s tx with
  | some e => (s, .err e)
  | none =>
    match s.tables t with
    | none => (s, .err .tableNotFound)
    | some T =>
      if rowBad T vals then (s, .err .badInput)
      else
        let id := T.rows.length
        -- `let _ = lock_manager().try_lock(tx, [(t, id)])`: a conflict is discarded — the row
        -- stays unlocked and the insert goes on
        let s1 := if lockBlocked s tx t [id] then s else lockAll s tx t [id]
        let hashE := T.hashOn.foldl (fun es c => idxAdd (c, val vals c, id) es) T.hashE
        let btreeE := T.btreeOn.foldl (fun es c => idxAdd (c, val vals c, id) es) T.btreeE
        let idx := (T.hashOn ++ T.btreeOn).map fun c => (c, val vals c)
        let T' := { T with rows := T.rows ++ [{ alive := true, vals := vals }], hashE := hashE, btreeE := btreeE }
        (recordUndo (setTable s1 t T') tx (.inserted t id idx), .okN id)

/-- per-row body of `tx_update` (undo record, index maintenance, slab update) -/
def updateRow (tx t : Nat) (upd : List (Nat × Val)) (s : State) (i : Nat) : State :=
  match s.tables t with
  | none => s
  | some T =>
    match T.rows[i]? with
    | none => s
    | some r =>
      let chg := (T.hashOn ++ T.btreeOn).filterMap fun c =>
        match updGet upd c with | some n => some (c, val r.vals c, n) | none => none
      let s1 := recordUndo s tx (.updated t i r.vals chg)
      let step := fun (es : List Entry) (c : Nat) =>
        match updGet upd c with
        | some n => idxAdd (c, n, i) (idxRemove (c, val r.vals c, i) es)
        | none => es
      let T' := { T with
        hashE := T.hashOn.foldl step T.hashE
        btreeE := T.btreeOn.foldl step T.btreeE
        rows := T.rows.set i { r with vals := applyUpd upd r.vals } }
      setTable s1 t T'

def txUpdate (s : State) (tx t : Nat) (cond : Cond) (upd : List (Nat × Val)) : State × Res :=
  match gate s tx with
  | some e => (s, .err e)
  | none =>
    match s.tables t with
    | none => (s, .err .tableNotFound)
    | some T =>
      if updBad T upd then (s, .err (updErr T upd))
      else
        let rows := matching T cond
        if lockBlocked s tx t rows then (s, .err .lockConflict)
        else
          let s1 := if rows.isEmpty then s else lockAll s tx t rows
          (rows.foldl (updateRow tx t upd) s1, .okN rows.length)

/-- per-row body of `tx_delete` -/
def deleteRow (tx t : Nat) (s : State) (i : Nat) : State :=
  match s.tables t with
  | none => s
  | some T =>
    match T.rows[i]? with
    | none => s
    | some r =>
      let idx := (T.hashOn ++ T.btreeOn).map fun c => (c, val r.vals c)
      let s1 := recordUndo s tx (.deleted t i r.vals idx)
      let T' := { T with
        hashE := T.hashOn.foldl (fun es c => idxRemove (c, val r.vals c, i) es) T.hashE
        btreeE := T.btreeOn.foldl (fun es c => idxRemove (c, val r.vals c, i) es) T.btreeE
        rows := T.rows.set i { r with alive := false } }
      setTable s1 t T'

def txDelete (s : State) (tx t : Nat) (cond : Cond) : State × Res :=
  match gate s tx with
  | some e => (s, .err e)
  | none =>
    match s.tables t with
    | none => (s, .err .tableNotFound)
    | some T =>
      let rows := matching T cond
      if lockBlocked s tx t rows then (s, .err .lockConflict)
      else
        let s1 := if rows.isEmpty then s else lockAll s tx t rows
        (rows.foldl (deleteRow tx t) s1, .okN rows.length)

/-! ## rollback -/

/-- `slab.delete` (undo of an insert): `Ok(false)` on a dead / unknown row, never an error -/
def slabDelete (T : Table) (i : Nat) : List Row :=
  match T.rows[i]? with
  | some r => if r.alive then T.rows.set i { r with alive := false } else T.rows
  | none => T.rows

/-- `slab.restore_row`: `RowNotFound` (= `none`) unless the row is alive -/
def restoreRow (T : Table) (i : Nat) (old : List Val) : Option (List Row) :=
  match T.rows[i]? with
  | some r => if r.alive ∧ old.length = T.ncols then some (T.rows.set i { r with vals := old }) else none
  | none => none

/-- `slab.restore_deleted_row`: `RowNotFound` (= `none`) unless the row exists and is dead -/
def restoreDeletedRow (T : Table) (i : Nat) (old : List Val) : Option (List Row) :=
  match T.rows[i]? with
  | some r => if !r.alive ∧ old.length = T.ncols then some (T.rows.set i { alive := true, vals := old }) else none
  | none => none

/-- `index_remove; index_add` of one recorded change, only `if has_index(table, column)` -/
def undoChange (on : List Nat) (i : Nat) (es : List Entry) (p : Nat × Val × Val) : List Entry :=
  if p.1 ∈ on then idxAdd (p.1, p.2.1, i) (idxRemove (p.1, p.2.2, i) es) else es

/-- `index_add` of one recorded entry, only `if has_index(table, column)` -/
def undoReadd (on : List Nat) (i : Nat) (es : List Entry) (p : Nat × Val) : List Entry :=
  if p.1 ∈ on then idxAdd (p.1, p.2, i) es else es

/-- `apply_undo_entry` on one table; returns the table and the number of collected errors -/
def applyUndoT (T : Table) (u : Undo) : Table × Nat :=
  match u with
  | .inserted _ i idx =>
    ({ T with rows := slabDelete T i
              hashE := idx.foldl (fun es p => idxRemove (p.1, p.2, i) es) T.hashE
              btreeE := idx.foldl (fun es p => idxRemove (p.1, p.2, i) es) T.btreeE }, 0)
  | .updated _ i old chg =>
    let rr := restoreRow T i old
    ({ T with rows := rr.getD T.rows
              hashE := chg.foldl (undoChange T.hashOn i) T.hashE
              btreeE := chg.foldl (undoChange T.btreeOn i) T.btreeE },
     if rr.isSome then 0 else 1)
  | .deleted _ i old idx =>
    let rr := restoreDeletedRow T i old
    ({ T with rows := rr.getD T.rows
              hashE := idx.foldl (undoReadd T.hashOn i) T.hashE
              btreeE := idx.foldl (undoReadd T.btreeOn i) T.btreeE },
     if rr.isSome then 0 else 1)

def Undo.table : Undo → Nat
  | .inserted t _ _ => t
  | .updated t _ _ _ => t
  | .deleted t _ _ _ => t

def Undo.row : Undo → Nat
  | .inserted _ r _ => r
  | .updated _ r _ _ => r
  | .deleted _ r _ _ => r

def applyUndo (acc : State × Nat) (u : Undo) : State × Nat :=
  match acc.1.tables u.table with
  | none => (acc.1, acc.2 + 1)
  | some T => (setTable acc.1 u.table (applyUndoT T u).1, acc.2 + (applyUndoT T u).2)

def rollback (s : State) (tx : Nat) : State × Res :=
  match gate s tx with
  | some e => (s, .err e)
  | none =>
    let log := match s.txs tx with | some x => x.undo | none => []
    let r := log.reverse.foldl applyUndo (s, 0)
    (setTx (release r.1 tx) tx none, if r.2 = 0 then .ok else .err .rollbackFailed)

/-! ## non-transactional statements (`begin; tx_op; commit | rollback`) -/

/-- `Ok(x) => { commit(tx)?; Ok(x) }`, `Err(e) => { rollback(tx); Err(e) }` -/
def finishAuto (p : State × Res) (tx : Nat) : State × Res :=
  match p.2 with
  | .err e => ((rollback p.1 tx).1, .err e)
  | r => ((commit p.1 tx).1, r)

def insert (s : State) (t : Nat) (vals : List Val) : State × Res :=
  match s.tables t with
  | none => (s, .err .tableNotFound)
  | some T =>
    if rowBad T vals then (s, .err .badInput)
    else
      finishAuto (txInsert (begin s).1 (begin s).2 t vals) (begin s).2

def update (s : State) (t : Nat) (cond : Cond) (upd : List (Nat × Val)) : State × Res :=
  match s.tables t with
  | none => (s, .err .tableNotFound)
  | some T =>
    if updBad T upd then (s, .err (updErr T upd))
    else
      finishAuto (txUpdate (begin s).1 (begin s).2 t cond upd) (begin s).2

def delete (s : State) (t : Nat) (cond : Cond) : State × Res :=
  match s.tables t with
  | none => (s, .err .tableNotFound)
  | some _ =>
    finishAuto (txDelete (begin s).1 (begin s).2 t cond) (begin s).2

/-! ## batch_insert -/

/-- the table one appended row leaves (`slab.insert`, then `index_add` / `btree_index_add` per indexed column) -/
def insertRow (T : Table) (vals : List Val) : Table :=
  { T with rows := T.rows ++ [{ alive := true, vals := vals }]
           hashE := T.hashOn.foldl (fun es c => idxAdd (c, val vals c, T.rows.length) es) T.hashE
           btreeE := T.btreeOn.foldl (fun es c => idxAdd (c, val vals c, T.rows.length) es) T.btreeE }

/-- `batch_insert(table, rows)`: NOT built on a transaction — no internal transaction id is consumed, no
    row lock is taken, no undo entry is written.  An empty batch answers before the table is looked at;
    every row is validated before the first one is stored (`NullNotAllowed`: nothing inserted); then the
    rows are appended one by one with their index entries.  Answer: the number of rows (their ids are the
    next slab positions). -/
def batchInsert (s : State) (t : Nat) (rows : List (List Val)) : State × Res :=
  if rows.isEmpty then (s, .okN 0)
  else
    match s.tables t with
    | none => (s, .err .tableNotFound)
    | some T =>
      if rows.any (rowBad T) then (s, .err .badInput)
      else (setTable s t (rows.foldl insertRow T), .okN rows.length)

/-! ## DDL -/

def createTable (s : State) (ncols : Nat) (nullable : List Nat) : State × Res :=
  ({ setTable s s.ntables { ncols := ncols, nullable := nullable, rows := [], hashOn := [], btreeOn := [], hashE := [], btreeE := [] }
     with ntables := s.ntables + 1 }, .okN s.ntables)

/-- entries `create_index` / `create_btree_index` add: one per live row (scan_all) -/
def buildCol (T : Table) (c : Nat) (es : List Entry) : List Entry :=
  (matching T .all).foldl (fun es i =>
    match T.rows[i]? with
    | some r => idxAdd (c, val r.vals c, i) es
    | none => es) es

def createIndex (s : State) (t c : Nat) : State × Res :=
  match s.tables t with
  | none => (s, .err .tableNotFound)
  | some T =>
    if c ≥ T.ncols then (s, .err .columnNotFound)
    else if c ∈ T.hashOn then (s, .err .indexExists)
    else (setTable s t { T with hashOn := T.hashOn ++ [c], hashE := buildCol T c T.hashE }, .ok)

def createBtree (s : State) (t c : Nat) : State × Res :=
  match s.tables t with
  | none => (s, .err .tableNotFound)
  | some T =>
    if c ≥ T.ncols then (s, .err .columnNotFound)
    else if c ∈ T.btreeOn then (s, .err .indexExists)
    else (setTable s t { T with btreeOn := T.btreeOn ++ [c], btreeE := buildCol T c T.btreeE }, .ok)

def dropIndex (s : State) (t c : Nat) : State × Res :=
  match s.tables t with
  | none => (s, .err .tableNotFound)
  | some T =>
    if c ∈ T.hashOn then
      (setTable s t { T with hashOn := T.hashOn.filter (· ≠ c), hashE := idxDropCol c T.hashE }, .ok)
    else (s, .err .indexNotFound)

def dropBtree (s : State) (t c : Nat) : State × Res :=
  match s.tables t with
  | none => (s, .err .tableNotFound)
  | some T =>
    if c ∈ T.btreeOn then
      (setTable s t { T with btreeOn := T.btreeOn.filter (· ≠ c), btreeE := idxDropCol c T.btreeE }, .ok)
    else (s, .err .indexNotFound)

/-! ## time, expiry sweeps -/

def tick (s : State) (d : Nat) : State := { s with now := s.now + d }

def allKeys (s : State) : List (Nat × Nat) :=
  (List.range s.ntables).flatMap fun t =>
    match s.tables t with
    | some T => (List.range T.rows.length).map fun i => (t, i)
    | none => []

def lockExpiredAt (s : State) (t i : Nat) : Bool :=
  match s.locks t i with
  | some l => l.expired s.now s.lockTimeout
  | none => false

/-- `RowLockManager::cleanup_expired` -/
def cleanupLocks (s : State) : State × Res :=
  let n := ((allKeys s).filter fun k => lockExpiredAt s k.1 k.2).length
  ({ s with
     locks := fun t i => if lockExpiredAt s t i then none else s.locks t i
     txLocks := fun tx => (s.txLocks tx).filter fun k =>
       !(match s.locks k.1 k.2 with
         | some l => l.expired s.now s.lockTimeout && l.tx == tx
         | none => false) }, .okN n)

def txExpired (s : State) (id : Nat) : Bool :=
  match s.txs id with
  | some x => decide (s.now - x.startedAt > s.txTimeout)
  | none => false

/-- `TransactionManager::cleanup_expired`: release the locks of every timed-out transaction and
    drop it from the map — its undo log is discarded, NOT applied -/
def cleanupTxs (s : State) : State × Res :=
  let ids := (List.range s.nextTx).filter (txExpired s)
  let s1 := ids.foldl release s
  ({ s1 with txs := fun k => if txExpired s k then none else s1.txs k }, .okN ids.length)

/-! ## queries -/

/-- `index_lookup`: the bucket of `v` when the hash index on `c` exists -/
def hashCands (T : Table) (c : Nat) (v : Val) : Option (List Nat) :=
  if c ∈ T.hashOn then some ((T.hashE.filter fun e => e.1 == c && e.2.1 == v).map (·.2.2)) else none

/-- `btree_range_lookup`: the ids under the keys satisfying `p` when the b-tree index on `c` exists -/
def btCands (T : Table) (c : Nat) (p : Val → Bool) : Option (List Nat) :=
  if c ∈ T.btreeOn then some ((T.btreeE.filter fun e => e.1 == c && p e.2.1).map (·.2.2)) else none

/-- what `try_index_lookup` returns: candidate ids (with multiplicity) when an index serves the
    condition, `none` for the scan path.  `And(a, b)`: the lookup of `a` when `a` is served by an
    index, otherwise the lookup of `b`; `Or`, `Ne`, `True`, `_id` conditions: scan -/
def candidates (T : Table) (cond : Cond) : Option (List Nat) :=
  match cond with
  | .all => none
  | .idEq _ => none
  | .eq c v => hashCands T c v
  | .ne _ _ => none
  | .lt c v => btCands T c (fun k => Val.keyLt k v)      -- `btree.range(..target)`
  | .le c v => btCands T c (fun k => Val.keyLe k v)      -- `btree.range(..=target)`
  | .gt c v => btCands T c (fun k => Val.keyLt v k)      -- `(Excluded(target), Unbounded)`
  | .ge c v => btCands T c (fun k => Val.keyLe v k)      -- `btree.range(target..)`
  | .and a b =>
    match candidates T a with
    | some cands => some cands
    | none => candidates T b
  | .or _ _ => none

/-- full-scan answer: live rows satisfying the condition, by ascending id -/
def scanAnswer (T : Table) (cond : Cond) : List (Nat × List Val) :=
  (matching T cond).filterMap fun i => (T.rows[i]?).map fun r => (i, r.vals)

/-- index-path answer: every candidate id that is alive and passes the re-check, once per
    occurrence among the candidates, sorted by id (`sort_by_key(id)`, stable) -/
def indexAnswer (T : Table) (cond : Cond) (cands : List Nat) : List (Nat × List Val) :=
  (matching T cond).flatMap fun i =>
    match T.rows[i]? with
    | some r => List.replicate (cands.count i) (i, r.vals)
    | none => []

/-- `select(table, cond)` -/
def select (T : Table) (cond : Cond) : List (Nat × List Val) :=
  match candidates T cond with
  | some cands => indexAnswer T cond cands
  | none => scanAnswer T cond

inductive SelRes where
  | rows (r : List (Nat × List Val))
  | err (e : Err)
deriving DecidableEq, Repr

/-- `tx_select(tx, table, cond)`: the phase check of every transactional call, then the plain
    `select` on the tables as they are (no read locks, no snapshot) -/
def txSelect (s : State) (tx t : Nat) (cond : Cond) : SelRes :=
  match gate s tx with
  | some e => .err e
  | none =>
    match s.tables t with
    | none => .err .tableNotFound
    | some T => .rows (select T cond)

/-- `is_transaction_active` -/
def isActive (s : State) (k : Nat) : Bool :=
  match s.txs k with
  | some x => decide (x.phase = .active)
  | none => false

/-- `active_transaction_count` / `TransactionManager::active_count` -/
def activeCount (s : State) : Nat := ((List.range s.nextTx).filter (isActive s)).length

/-! ## one statement = one atomic step -/

inductive Op where
  | begin
  | commit (tx : Nat)
  | rollback (tx : Nat)
  | txInsert (tx t : Nat) (vals : List Val)
  | txUpdate (tx t : Nat) (cond : Cond) (upd : List (Nat × Val))
  | txDelete (tx t : Nat) (cond : Cond)
  | insert (t : Nat) (vals : List Val)
  | update (t : Nat) (cond : Cond) (upd : List (Nat × Val))
  | delete (t : Nat) (cond : Cond)
  | batchInsert (t : Nat) (rows : List (List Val))
  | createTable (ncols : Nat) (nullable : List Nat)
  | createIndex (t c : Nat)
  | createBtree (t c : Nat)
  | dropIndex (t c : Nat)
  | dropBtree (t c : Nat)
  | tick (d : Nat)
  | cleanupLocks
  | cleanupTxs
deriving DecidableEq, Repr

def step (s : State) (op : Op) : State × Res :=
  match op with
  | .begin => let (s', id) := begin s; (s', .okN id)
  | .commit tx => commit s tx
  | .rollback tx => rollback s tx
  | .txInsert tx t vals => txInsert s tx t vals
  | .txUpdate tx t cond upd => txUpdate s tx t cond upd
  | .txDelete tx t cond => txDelete s tx t cond
  | .insert t vals => insert s t vals
  | .update t cond upd => update s t cond upd
  | .delete t cond => delete s t cond
  | .batchInsert t rows => batchInsert s t rows
  | .createTable n nl => createTable s n nl
  | .createIndex t c => createIndex s t c
  | .createBtree t c => createBtree s t c
  | .dropIndex t c => dropIndex s t c
  | .dropBtree t c => dropBtree s t c
  | .tick d => (tick s d, .ok)
  | .cleanupLocks => cleanupLocks s
  | .cleanupTxs => cleanupTxs s

def run (s : State) (ops : List Op) : State := ops.foldl (fun s op => (step s op).1) s

/-- results of every statement of a script -/
def runRes (s : State) : List Op → List Res
  | [] => []
  | op :: ops => (step s op).2 :: runRes (step s op).1 ops

/-! ## the code before c322e794 / dcf916e8 (regression witnesses only)

  `tx_insert` took no row lock; the undo of an update / delete wrote hash AND b-tree entries for
  every recorded column whether or not that index existed. -/

def txInsertOld (s : State) (tx t : Nat) (vals : List Val) : State × Res :=
  match gate s tx with
  | some e => (s, .err e)
  | none =>
    match s.tables t with
    | none => (s, .err .tableNotFound)
    | some T =>
      if rowBad T vals then (s, .err .badInput)
      else
        let id := T.rows.length
        let hashE := T.hashOn.foldl (fun es c => idxAdd (c, val vals c, id) es) T.hashE
        let btreeE := T.btreeOn.foldl (fun es c => idxAdd (c, val vals c, id) es) T.btreeE
        let idx := (T.hashOn ++ T.btreeOn).map fun c => (c, val vals c)
        let T' := { T with rows := T.rows ++ [{ alive := true, vals := vals }], hashE := hashE, btreeE := btreeE }
        (recordUndo (setTable s t T') tx (.inserted t id idx), .okN id)

def applyUndoTOld (T : Table) (u : Undo) : Table × Nat :=
  match u with
  | .inserted _ i idx =>
    ({ T with rows := slabDelete T i
              hashE := idx.foldl (fun es p => idxRemove (p.1, p.2, i) es) T.hashE
              btreeE := idx.foldl (fun es p => idxRemove (p.1, p.2, i) es) T.btreeE }, 0)
  | .updated _ i old chg =>
    let rr := restoreRow T i old
    let f := fun (es : List Entry) (p : Nat × Val × Val) => idxAdd (p.1, p.2.1, i) (idxRemove (p.1, p.2.2, i) es)
    ({ T with rows := rr.getD T.rows, hashE := chg.foldl f T.hashE, btreeE := chg.foldl f T.btreeE },
     if rr.isSome then 0 else 1)
  | .deleted _ i old idx =>
    let rr := restoreDeletedRow T i old
    ({ T with rows := rr.getD T.rows
              hashE := idx.foldl (fun es p => idxAdd (p.1, p.2, i) es) T.hashE
              btreeE := idx.foldl (fun es p => idxAdd (p.1, p.2, i) es) T.btreeE },
     if rr.isSome then 0 else 1)

def applyUndoOld (acc : State × Nat) (u : Undo) : State × Nat :=
  match acc.1.tables u.table with
  | none => (acc.1, acc.2 + 1)
  | some T => (setTable acc.1 u.table (applyUndoTOld T u).1, acc.2 + (applyUndoTOld T u).2)

def rollbackOld (s : State) (tx : Nat) : State × Res :=
  match gate s tx with
  | some e => (s, .err e)
  | none =>
    let log := match s.txs tx with | some x => x.undo | none => []
    let r := log.reverse.foldl applyUndoOld (s, 0)
    (setTx (release r.1 tx) tx none, if r.2 = 0 then .ok else .err .rollbackFailed)

def finishAutoOld (p : State × Res) (tx : Nat) : State × Res :=
  match p.2 with
  | .err e => ((rollbackOld p.1 tx).1, .err e)
  | r => ((commit p.1 tx).1, r)

def insertOld (s : State) (t : Nat) (vals : List Val) : State × Res :=
  match s.tables t with
  | none => (s, .err .tableNotFound)
  | some T =>
    if rowBad T vals then (s, .err .badInput)
    else
      finishAutoOld (txInsertOld (begin s).1 (begin s).2 t vals) (begin s).2

def updateOld (s : State) (t : Nat) (cond : Cond) (upd : List (Nat × Val)) : State × Res :=
  match s.tables t with
  | none => (s, .err .tableNotFound)
  | some T =>
    if updBad T upd then (s, .err (updErr T upd))
    else
      finishAutoOld (txUpdate (begin s).1 (begin s).2 t cond upd) (begin s).2

def deleteOld (s : State) (t : Nat) (cond : Cond) : State × Res :=
  match s.tables t with
  | none => (s, .err .tableNotFound)
  | some _ =>
    finishAutoOld (txDelete (begin s).1 (begin s).2 t cond) (begin s).2

def stepOld (s : State) (op : Op) : State × Res :=
  match op with
  | .rollback tx => rollbackOld s tx
  | .txInsert tx t vals => txInsertOld s tx t vals
  | .insert t vals => insertOld s t vals
  | .update t cond upd => updateOld s t cond upd
  | .delete t cond => deleteOld s t cond
  | op => step s op

def runOld (s : State) (ops : List Op) : State := ops.foldl (fun s op => (stepOld s op).1) s

def runResOld (s : State) : List Op → List Res
  | [] => []
  | op :: ops => (stepOld s op).2 :: runResOld (stepOld s op).1 ops

/-! ## `release` WITHOUT the ownership check (NOT the code; regression witness only)

  `RowLockManager::release` with the loop body `if lock.tx_id == tx_id { locks.remove(&key) }`
  "simplified" to `locks.remove(&key)`: every key recorded for the transaction is dropped, whoever
  holds it now.  `try_lock` leaves a taken-over key in the OLD holder's `tx_locks` list, so this
  variant deletes the new holder's live lock when the old holder ends.  Kept so that
  `release_no_owner_check_witness` can show that `release_keeps_foreign_locks` tells the two apart. -/

def releaseNoOwnerCheck (s : State) (tx : Nat) : State :=
  { s with
    locks := fun t i =>
      match s.locks t i with
      | some l => if (t, i) ∈ s.txLocks tx then none else some l
      | none => none
    txLocks := fun k => if k = tx then [] else s.txLocks k }

def commitNoOwnerCheck (s : State) (tx : Nat) : State × Res :=
  match gate s tx with
  | some e => (s, .err e)
  | none => (setTx (releaseNoOwnerCheck s tx) tx none, .ok)

def rollbackNoOwnerCheck (s : State) (tx : Nat) : State × Res :=
  match gate s tx with
  | some e => (s, .err e)
  | none =>
    let log := match s.txs tx with | some x => x.undo | none => []
    let r := log.reverse.foldl applyUndo (s, 0)
    (setTx (releaseNoOwnerCheck r.1 tx) tx none, if r.2 = 0 then .ok else .err .rollbackFailed)

def cleanupTxsNoOwnerCheck (s : State) : State × Res :=
  let ids := (List.range s.nextTx).filter (txExpired s)
  let s1 := ids.foldl releaseNoOwnerCheck s
  ({ s1 with txs := fun k => if txExpired s k then none else s1.txs k }, .okN ids.length)

def finishAutoNoOwnerCheck (p : State × Res) (tx : Nat) : State × Res :=
  match p.2 with
  | .err e => ((rollbackNoOwnerCheck p.1 tx).1, .err e)
  | r => ((commitNoOwnerCheck p.1 tx).1, r)

def stepNoOwnerCheck (s : State) (op : Op) : State × Res :=
  match op with
  | .commit tx => commitNoOwnerCheck s tx
  | .rollback tx => rollbackNoOwnerCheck s tx
  | .cleanupTxs => cleanupTxsNoOwnerCheck s
  | .insert t vals =>
    match s.tables t with
    | none => (s, .err .tableNotFound)
    | some T =>
      if rowBad T vals then (s, .err .badInput)
      else finishAutoNoOwnerCheck (txInsert (begin s).1 (begin s).2 t vals) (begin s).2
  | .update t cond upd =>
    match s.tables t with
    | none => (s, .err .tableNotFound)
    | some T =>
      if updBad T upd then (s, .err (updErr T upd))
      else finishAutoNoOwnerCheck (txUpdate (begin s).1 (begin s).2 t cond upd) (begin s).2
  | .delete t cond =>
    match s.tables t with
    | none => (s, .err .tableNotFound)
    | some _ => finishAutoNoOwnerCheck (txDelete (begin s).1 (begin s).2 t cond) (begin s).2
  | op => step s op

def runNoOwnerCheck (s : State) (ops : List Op) : State := ops.foldl (fun s op => (stepNoOwnerCheck s op).1) s

def runResNoOwnerCheck (s : State) : List Op → List Res
  | [] => []
  | op :: ops => (stepNoOwnerCheck s op).2 :: runResNoOwnerCheck (stepNoOwnerCheck s op).1 ops

/-! ## the undo of an update with its two index steps SWAPPED (NOT the code; regression witness only)

  `apply_undo_entry` reverts one recorded `IndexChange { column, old_value, new_value }` of an
  `UpdatedRow` entry by `index_remove(new_value)` THEN `index_add(old_value)` (`undoChange`).
  `tx_update` records a change for every indexed column in its SET list — also when the row
  already held the assigned value, so `old_value == new_value` is an ordinary entry.  The variant
  below does `index_add(old_value)` first and `index_remove(new_value)` second ("never leave the row
  absent from the index while the undo is in flight"): with `old_value == new_value` the add is a
  no-op and the remove deletes the row's only entry.  Kept so that
  `undo_add_before_remove_loses_entry_witness` can show that `undo_update_keeps_index_exact`
  depends on the order.  (Non-transactional statements roll back only a transaction whose statement
  failed before recording anything, so only `Op.rollback` differs.) -/

def undoChangeAddBeforeRemove (on : List Nat) (i : Nat) (es : List Entry) (p : Nat × Val × Val) : List Entry :=
  if p.1 ∈ on then idxRemove (p.1, p.2.2, i) (idxAdd (p.1, p.2.1, i) es) else es

def applyUndoTAddBeforeRemove (T : Table) (u : Undo) : Table × Nat :=
  match u with
  | .updated _ i old chg =>
    let rr := restoreRow T i old
    ({ T with rows := rr.getD T.rows
              hashE := chg.foldl (undoChangeAddBeforeRemove T.hashOn i) T.hashE
              btreeE := chg.foldl (undoChangeAddBeforeRemove T.btreeOn i) T.btreeE },
     if rr.isSome then 0 else 1)
  | u => applyUndoT T u

def applyUndoAddBeforeRemove (acc : State × Nat) (u : Undo) : State × Nat :=
  match acc.1.tables u.table with
  | none => (acc.1, acc.2 + 1)
  | some T => (setTable acc.1 u.table (applyUndoTAddBeforeRemove T u).1, acc.2 + (applyUndoTAddBeforeRemove T u).2)

def rollbackAddBeforeRemove (s : State) (tx : Nat) : State × Res :=
  match gate s tx with
  | some e => (s, .err e)
  | none =>
    let log := match s.txs tx with | some x => x.undo | none => []
    let r := log.reverse.foldl applyUndoAddBeforeRemove (s, 0)
    (setTx (release r.1 tx) tx none, if r.2 = 0 then .ok else .err .rollbackFailed)

def stepAddBeforeRemove (s : State) (op : Op) : State × Res :=
  match op with
  | .rollback tx => rollbackAddBeforeRemove s tx
  | op => step s op

def runAddBeforeRemove (s : State) (ops : List Op) : State := ops.foldl (fun s op => (stepAddBeforeRemove s op).1) s

def runResAddBeforeRemove (s : State) : List Op → List Res
  | [] => []
  | op :: ops => (stepAddBeforeRemove s op).2 :: runResAddBeforeRemove (stepAddBeforeRemove s op).1 ops

/-! ## the lock sweep that forgets the owner's WHOLE key list (NOT the code; regression witness only)

  `RowLockManager::cleanup_expired` removes every expired lock from the lock table and, per removed lock,
  exactly that key from the key list of the lock's owner (`tx_keys.retain(|k| k != key)`; `cleanupLocks`).
  The variant below does `tx_locks.remove(tx_id)` instead: as soon as ONE lock of a transaction has
  expired, the transaction's whole key list goes ("an owner that timed out never calls release()").  A
  transaction takes its locks statement by statement, so its locks have different ages: a younger lock
  of the same owner is still in the lock table, is still the `row_lock_holder` answer, but is listed
  nowhere — `release` at the owner's commit / rollback / timeout walks the (now missing) list and leaves
  it behind.  Kept so that `sweep_forgetting_owner_list_leaks_lock_witness` can show that
  `every_lock_is_listed_under_its_owner` / `no_lock_outlives_its_transaction` depend on the per-key removal. -/

def cleanupLocksDropList (s : State) : State × Res :=
  let n := ((allKeys s).filter fun k => lockExpiredAt s k.1 k.2).length
  ({ s with
     locks := fun t i => if lockExpiredAt s t i then none else s.locks t i
     -- `for (key, tx_id) in expired { locks.remove(key); tx_locks.remove(tx_id) }`
     txLocks := fun tx =>
       if (allKeys s).any (fun k =>
           match s.locks k.1 k.2 with
           | some l => l.expired s.now s.lockTimeout && l.tx == tx
           | none => false)
       then [] else s.txLocks tx }, .okN n)

def stepDropList (s : State) (op : Op) : State × Res :=
  match op with
  | .cleanupLocks => cleanupLocksDropList s
  | op => step s op

def runDropList (s : State) (ops : List Op) : State := ops.foldl (fun s op => (stepDropList s op).1) s

def runResDropList (s : State) : List Op → List Res
  | [] => []
  | op :: ops => (stepDropList s op).2 :: runResDropList (stepDropList s op).1 ops

end Neumann.RelTx
