import NeumannModel.RelTx.Model
/-
  C09 — `tx_update` / `tx_delete` below statement granularity.

  The code of `tx_update` (and `tx_delete`) runs in two halves with NO lock held in between:

    1. phase check, schema and SET-list validation, `scan_all` + filter: the matching rows are
       collected (`matching_rows: Vec<(id, row, old_slab_values)>`);
    2. `try_lock` on the collected ids; then — fcb86137, `reread_locked_rows` — the locked rows are READ
       AGAIN: a row that is gone or no longer satisfies the condition is left alone, and for the others
       the undo entry, the index changes and the overwrite are computed from the row AS IT IS NOW that
       the lock is held.

  `Model.txUpdate` is the two halves run back to back (one atomic step; that is what the
  statement-level streams exercise).  Here the second half is a function of an arbitrary earlier
  scan result, so that another transaction's statements can be placed between the halves (the
  harness does that on the real engine through the yield sites `relational.tx_update.after_scan` /
  `relational.tx_delete.after_scan`, 23d1986f):

    * `txUpdateApply` / `txDeleteApply` — the second half AS THE CODE IS (only the ids of the earlier
      scan matter);
    * `txUpdateApplyOld` / `txDeleteApplyOld` — the second half BEFORE fcb86137: undo entry, index
      changes and overwrite were computed from the values the scan had read BEFORE the lock.  Kept for
      the regression witnesses `scan_before_lock_*_witness` only.

  Import-free (only the model), total, computable.
-/
namespace Neumann.RelTx

/-- what the first half hands to the second: `(slab id, values read)` of every matching live row -/
def txScan (T : Table) (cond : Cond) : List (Nat × List Val) := scanAnswer T cond

/-- per-row body of the second half BEFORE fcb86137.  `old` = the values the scan read.  The undo
    entry and the index changes are built from `old`; `slab.update_row` then overwrites the named
    columns of the row as it is NOW and fails (`RowNotFound` → `StorageError`, the statement stops
    there) when the row has been deleted meanwhile.  The flag is `false` once that has happened. -/
def updateRowOld (tx t : Nat) (upd : List (Nat × Val)) (acc : State × Bool) (p : Nat × List Val) : State × Bool :=
  if !acc.2 then acc
  else
    let s := acc.1
    let i := p.1
    let old := p.2
    match s.tables t with
    | none => (s, false)
    | some T =>
      let chg := (T.hashOn ++ T.btreeOn).filterMap fun c =>
        match updGet upd c with | some n => some (c, val old c, n) | none => none
      let s1 := recordUndo s tx (.updated t i old chg)
      let stp := fun (es : List Entry) (c : Nat) =>
        match updGet upd c with
        | some n => idxAdd (c, n, i) (idxRemove (c, val old c, i) es)
        | none => es
      let hashE := T.hashOn.foldl stp T.hashE
      let btreeE := T.btreeOn.foldl stp T.btreeE
      match T.rows[i]? with
      | some r =>
        if r.alive then
          (setTable s1 t { T with hashE := hashE, btreeE := btreeE,
                                  rows := T.rows.set i { r with vals := applyUpd upd r.vals } }, true)
        else (setTable s1 t { T with hashE := hashE, btreeE := btreeE }, false)
      | none => (setTable s1 t { T with hashE := hashE, btreeE := btreeE }, false)

/-- second half of `tx_update` BEFORE fcb86137, for an arbitrary earlier scan result.
    Answer: `some n` = `Ok(n)`, `none` = `StorageError` in the middle of the loop. -/
def txUpdateApplyOld (s : State) (tx t : Nat) (scanned : List (Nat × List Val)) (upd : List (Nat × Val)) :
    State × Option (Option Nat) :=
  let ids := scanned.map (·.1)
  if lockBlocked s tx t ids then (s, none)          -- LockConflict: nothing happened
  else
    let s1 := if ids.isEmpty then s else lockAll s tx t ids
    let r := scanned.foldl (updateRowOld tx t upd) (s1, true)
    (r.1, some (if r.2 then some scanned.length else none))

/-- per-row body of the second half of `tx_delete` BEFORE fcb86137: undo entry and index removals from the
    values the scan read; `slab.delete` answers `Ok(false)` — no error — when the row is already dead, so
    the statement goes on and the undo entry stays. -/
def deleteRowOld (tx t : Nat) (s : State) (p : Nat × List Val) : State :=
  let i := p.1
  let old := p.2
  match s.tables t with
  | none => s
  | some T =>
    let idx := (T.hashOn ++ T.btreeOn).map fun c => (c, val old c)
    let s1 := recordUndo s tx (.deleted t i old idx)
    setTable s1 t { T with
      hashE := T.hashOn.foldl (fun es c => idxRemove (c, val old c, i) es) T.hashE
      btreeE := T.btreeOn.foldl (fun es c => idxRemove (c, val old c, i) es) T.btreeE
      rows := slabDelete T i }

/-- second half of `tx_delete` BEFORE fcb86137, for an arbitrary earlier scan result
    (`none` = LockConflict, nothing happened) -/
def txDeleteApplyOld (s : State) (tx t : Nat) (scanned : List (Nat × List Val)) : State × Option Nat :=
  let ids := scanned.map (·.1)
  if lockBlocked s tx t ids then (s, none)
  else
    let s1 := if ids.isEmpty then s else lockAll s tx t ids
    (scanned.foldl (deleteRowOld tx t) s1, some scanned.length)

/-- the row still exists, is alive and satisfies the condition -/
def stillMatches (T : Table) (cond : Cond) (i : Nat) : Bool :=
  match T.rows[i]? with
  | some r => r.alive && evalCond cond i r.vals
  | none => false

/-- second half of `tx_update` AS THE CODE IS (fcb86137): lock the scanned ids (`try_lock` is skipped for an
    empty list), read those rows again (`reread_locked_rows`: `slab.get` + `Condition::evaluate`), keep the
    ones that still match, and run the ordinary per-row body (`updateRow`: undo entry and index changes from
    the row's current values) on them.  Answer: the number of rows that still matched. -/
def txUpdateApply (s : State) (tx t : Nat) (cond : Cond) (ids : List Nat) (upd : List (Nat × Val)) : State × Res :=
  match s.tables t with
  | none => (s, .err .tableNotFound)
  | some T =>
    if lockBlocked s tx t ids then (s, .err .lockConflict)
    else
      let s1 := if ids.isEmpty then s else lockAll s tx t ids
      let rows := ids.filter (stillMatches T cond)
      (rows.foldl (updateRow tx t upd) s1, .okN rows.length)

/-- second half of `tx_delete` AS THE CODE IS (fcb86137), the same way -/
def txDeleteApply (s : State) (tx t : Nat) (cond : Cond) (ids : List Nat) : State × Res :=
  match s.tables t with
  | none => (s, .err .tableNotFound)
  | some T =>
    if lockBlocked s tx t ids then (s, .err .lockConflict)
    else
      let s1 := if ids.isEmpty then s else lockAll s tx t ids
      let rows := ids.filter (stillMatches T cond)
      (rows.foldl (deleteRow tx t) s1, .okN rows.length)

end Neumann.RelTx
