import NeumannModel.RelTx.Model
/-
  C09 — `tx_update` below statement granularity.

  The code of `tx_update` (and `tx_delete`) runs in two halves with NO lock held in between:

    1. phase check, schema and SET-list validation, `scan_all` + filter: the matching rows are
       collected TOGETHER WITH THE VALUES READ (`matching_rows: Vec<(id, row, old_slab_values)>`);
    2. `try_lock` on the collected ids, then per collected row: undo entry and index changes
       computed FROM THE COLLECTED VALUES, and `update_row` on the slab row as it is now.

  `Model.txUpdate` is the two halves run back to back (one atomic step; that is what the
  statement-level streams exercise).  Here the second half is a function of an arbitrary earlier
  scan result, so that another transaction's statements can be placed between the halves:

    * `txUpdateApplyStale` — the second half AS THE CODE IS (uses the scanned values);
    * `txUpdateApplyFixed` — the second half of the proposed repair
      (`/verif/proposed/C09-tx-write-rereads-rows-after-lock.diff`): once the locks are held the
      scanned rows are read again; a row that is gone or no longer satisfies the condition is left
      alone, the others are handled by the ordinary per-row body on their CURRENT values.

  Import-free (only the model), total, computable.
-/
namespace Neumann.RelTx

/-- what the first half hands to the second: `(slab id, values read)` of every matching live row -/
def txScan (T : Table) (cond : Cond) : List (Nat × List Val) := scanAnswer T cond

/-- per-row body of the second half AS THE CODE IS.  `old` = the values the scan read.  The undo
    entry and the index changes are built from `old`; `slab.update_row` then overwrites the named
    columns of the row as it is NOW and fails (`RowNotFound` → `StorageError`, the statement stops
    there) when the row has been deleted meanwhile.  The flag is `false` once that has happened. -/
def updateRowStale (tx t : Nat) (upd : List (Nat × Val)) (acc : State × Bool) (p : Nat × List Val) : State × Bool :=
  if !acc.2 then acc
  else
    let s := acc.1
    let i := p.1
    let old := p.2
    match s.tables t with
    | none => (s, false)
    | some T =>
      let chg := (T.hashOn ++ T.btreeOn).filterMap fun c =>
        match updGet upd c with | some n => some (c, val old c, n) | none => none
      let s1 := recordUndo s tx (.updated t i old chg)
      let stp := fun (es : List Entry) (c : Nat) =>
        match updGet upd c with
        | some n => idxAdd (c, n, i) (idxRemove (c, val old c, i) es)
        | none => es
      let hashE := T.hashOn.foldl stp T.hashE
      let btreeE := T.btreeOn.foldl stp T.btreeE
      match T.rows[i]? with
      | some r =>
        if r.alive then
          (setTable s1 t { T with hashE := hashE, btreeE := btreeE,
                                  rows := T.rows.set i { r with vals := applyUpd upd r.vals } }, true)
        else (setTable s1 t { T with hashE := hashE, btreeE := btreeE }, false)
      | none => (setTable s1 t { T with hashE := hashE, btreeE := btreeE }, false)

/-- second half of `tx_update` AS THE CODE IS, for an arbitrary earlier scan result.
    Answer: `some n` = `Ok(n)`, `none` = `StorageError` in the middle of the loop. -/
def txUpdateApplyStale (s : State) (tx t : Nat) (scanned : List (Nat × List Val)) (upd : List (Nat × Val)) :
    State × Option (Option Nat) :=
  let ids := scanned.map (·.1)
  if lockBlocked s tx t ids then (s, none)          -- LockConflict: nothing happened
  else
    let s1 := if ids.isEmpty then s else lockAll s tx t ids
    let r := scanned.foldl (updateRowStale tx t upd) (s1, true)
    (r.1, some (if r.2 then some scanned.length else none))

/-- per-row body of the second half of `tx_delete` AS THE CODE IS: undo entry and index removals from the
    values the scan read; `slab.delete` answers `Ok(false)` — no error — when the row is already dead, so
    the statement goes on and the undo entry stays. -/
def deleteRowStale (tx t : Nat) (s : State) (p : Nat × List Val) : State :=
  let i := p.1
  let old := p.2
  match s.tables t with
  | none => s
  | some T =>
    let idx := (T.hashOn ++ T.btreeOn).map fun c => (c, val old c)
    let s1 := recordUndo s tx (.deleted t i old idx)
    setTable s1 t { T with
      hashE := T.hashOn.foldl (fun es c => idxRemove (c, val old c, i) es) T.hashE
      btreeE := T.btreeOn.foldl (fun es c => idxRemove (c, val old c, i) es) T.btreeE
      rows := slabDelete T i }

/-- second half of `tx_delete` AS THE CODE IS, for an arbitrary earlier scan result
    (`none` = LockConflict, nothing happened) -/
def txDeleteApplyStale (s : State) (tx t : Nat) (scanned : List (Nat × List Val)) : State × Option Nat :=
  let ids := scanned.map (·.1)
  if lockBlocked s tx t ids then (s, none)
  else
    let s1 := if ids.isEmpty then s else lockAll s tx t ids
    (scanned.foldl (deleteRowStale tx t) s1, some scanned.length)

/-- the row still exists, is alive and satisfies the condition -/
def stillMatches (T : Table) (cond : Cond) (i : Nat) : Bool :=
  match T.rows[i]? with
  | some r => r.alive && evalCond cond i r.vals
  | none => false

/-- second half of `tx_update` WITH THE REPAIR: lock the scanned ids, read those rows again, keep the
    ones that still match, and run the ordinary per-row body (`updateRow`: undo entry and index
    changes from the row's current values) on them. -/
def txUpdateApplyFixed (s : State) (tx t : Nat) (cond : Cond) (ids : List Nat) (upd : List (Nat × Val)) : State × Res :=
  match s.tables t with
  | none => (s, .err .tableNotFound)
  | some T =>
    if lockBlocked s tx t ids then (s, .err .lockConflict)
    else
      let s1 := if ids.isEmpty then s else lockAll s tx t ids
      let rows := ids.filter (stillMatches T cond)
      (rows.foldl (updateRow tx t upd) s1, .okN rows.length)

/-- the same repair for `tx_delete` -/
def txDeleteApplyFixed (s : State) (tx t : Nat) (cond : Cond) (ids : List Nat) : State × Res :=
  match s.tables t with
  | none => (s, .err .tableNotFound)
  | some T =>
    if lockBlocked s tx t ids then (s, .err .lockConflict)
    else
      let s1 := if ids.isEmpty then s else lockAll s tx t ids
      let rows := ids.filter (stillMatches T cond)
      (rows.foldl (deleteRow tx t) s1, .okN rows.length)

end Neumann.RelTx
