import NeumannModel.RelTx.CapLemmas
import NeumannModel.RelTx.CapCount
import NeumannModel.RelTx.CapCongr
/-
  C09 — sixth module of property theorems (ONLY theorems and their non-vacuity examples): statements that
  fail PART-WAY through a row, and the rollback after them (`CapModel.lean`).

  A row of `tx_update` is a sequence of fallible steps: record the undo entry, move the row's hash entries,
  remove its old b-tree entry, add the new one, overwrite the slab row.  In an in-memory engine the step that
  can fail is `btree_index_add` of a key the tree does not have yet when `btree_entry_count` has reached
  `RelationalConfig::max_btree_entries`: it strikes after the hash moves and after the removal of the old
  b-tree entry.  All-or-nothing then rests on one ordering fact: the undo entry of the row exists BEFORE the
  first modification of the row.
-/
namespace Neumann.RelTx.Props6
open Neumann.RelTx Neumann.RelTx.Cap

/-- EVERY state, every cap, every open transaction A with any undo log, every `tx_update` of A that is refused
    at the b-tree entry cap (table with exact indexes, trees within the cap, SET list naming at most one
    b-tree-indexed column — the configuration in which the code's column order is determined):

      * the statement was refused at its FIRST matched row and has recorded exactly one undo entry — before
        it touched anything; it has changed the content of no row of any table and no other table at all;
      * A's rollback begins with that entry, which is applied without an error and puts the table back
        EXACTLY: the same rows, the same index configuration, hash and b-tree indexes exact again, the same
        members in both entry lists, hence every `select` — through an index or by scan — answers what it
        answered before the statement; it then goes on with the entries A had recorded before the statement,
        from tables that are as they were when those were recorded.

    So a rollback after the refused statement restores whatever a rollback before it would have restored.
    With the undo entry recorded last this is false (`undo_recorded_last_loses_index_entries_witness`). -/
theorem failed_update_is_undone_by_rollback (cap : Nat) (s : State) (A t : Nat) (cond : Cond)
    (upd : List (Nat × Val)) (T : Table) (x : Tx)
    (hT : s.tables t = some T) (hx : s.txs A = some x) (hex : IdxExact T)
    (hwf : ∀ (i : Nat) (r : Row), T.rows[i]? = some r → r.vals.length = T.ncols)
    (hcap : otherKeys s t + keyCount T.btreeE ≤ cap) (hone : OneBt T upd)
    (hfail : (txUpdateC cap s A t cond upd).2 = .tooLarge) :
    let s' := (txUpdateC cap s A t cond upd).1
    ∃ (T'' X : Table) (u : Undo),
      s'.txs A = some { x with undo := x.undo ++ [u] } ∧
      s'.tables t = some X ∧ X.rows = T.rows ∧ (∀ k, k ≠ t → s'.tables k = s.tables k) ∧ s'.ntables = s.ntables ∧
      rollbackC cap s' A =
        (setTx (release (x.undo.reverse.foldl (applyUndoC cap) (setTable s' t T'', 0)).1 A) A none,
         if (x.undo.reverse.foldl (applyUndoC cap) (setTable s' t T'', 0)).2 = 0 then .ok else .err .rollbackFailed) ∧
      T''.rows = T.rows ∧ T''.ncols = T.ncols ∧ T''.nullable = T.nullable ∧
      T''.hashOn = T.hashOn ∧ T''.btreeOn = T.btreeOn ∧ IdxExact T'' ∧
      (∀ e, e ∈ T''.hashE ↔ e ∈ T.hashE) ∧ (∀ e, e ∈ T''.btreeE ↔ e ∈ T.btreeE) ∧
      (∀ c, select T'' c = select T c) := by
  intro s'
  obtain ⟨i0, rest, r, hg, hb, _, hr, ha, hstate, hflag⟩ := txUpdateC_refused hT hfail
  have hT1 : (lockAll s A t (i0 :: rest)).tables t = some T := by rw [lockAll_tables]; exact hT
  have hother : otherKeys (lockAll s A t (i0 :: rest)) t = otherKeys s t :=
    otherKeys_congr rfl (fun k _ => by rw [lockAll_tables])
  rw [updateRowC_eq hT1 hr, hother] at hstate hflag
  dsimp only at hstate hflag
  have hupd : ∀ p ∈ upd, p.1 < T.ncols := by
    intro p hp
    unfold updBad at hb
    rw [Bool.or_eq_false_iff] at hb
    have h1 := hb.1
    rw [List.any_eq_false] at h1
    have := h1 p hp
    simpa using this
  obtain ⟨T'', hundo, h1, h2, h3, h4, h5, h6⟩ :=
    refused_row_undone cap (otherKeys s t) T t i0 r upd hex hr ha (hwf i0 r hr) hupd hcap hone hflag
  have hs' : s' = setTable (recordUndo (lockAll s A t (i0 :: rest)) A
      (.updated t i0 r.vals (mkChg (T.hashOn ++ T.btreeOn) upd r.vals))) t
      (updateRowT cap (otherKeys s t) upd T i0 r).1 := hstate
  have hxs : (lockAll s A t (i0 :: rest)).txs A = some x := by rw [lockAll_txs]; exact hx
  have htx : s'.txs A = some { x with undo := x.undo ++ [.updated t i0 r.vals (mkChg (T.hashOn ++ T.btreeOn) upd r.vals)] } := by
    rw [hs', setTable_txs]
    unfold recordUndo
    rw [hxs]
    dsimp only
    rw [setTx_txs, if_pos rfl]
  have htab : s'.tables t = some (updateRowT cap (otherKeys s t) upd T i0 r).1 := by
    rw [hs', setTable_tables, if_pos rfl]
  have hXrows : (updateRowT cap (otherKeys s t) upd T i0 r).1.rows = T.rows := by
    have hbt : (btMoves cap (otherKeys s t) upd r.vals i0 T.btreeOn T.btreeE).2 = false := by
      have hfl := hflag
      unfold updateRowT at hfl
      dsimp only at hfl
      split at hfl
      · cases hfl
      · rename_i h; simpa using h
    unfold updateRowT
    dsimp only
    rw [hbt]
    rfl
  have hothers : ∀ k, k ≠ t → s'.tables k = s.tables k := by
    intro k hk
    rw [hs', setTable_tables, if_neg hk, recordUndo_tables, lockAll_tables]
  have hphase : x.phase = .active := by
    unfold gate at hg
    rw [hx] at hg
    dsimp only at hg
    split at hg
    · assumption
    · cases hg
  have hroll : rollbackC cap s' A =
      (setTx (release (x.undo.reverse.foldl (applyUndoC cap) (setTable s' t T'', 0)).1 A) A none,
       if (x.undo.reverse.foldl (applyUndoC cap) (setTable s' t T'', 0)).2 = 0 then .ok else .err .rollbackFailed) := by
    have hgate : gate s' A = none := by
      unfold gate
      rw [htx]
      dsimp only
      rw [if_pos hphase]
    have hok' : otherKeys s' t = otherKeys s t := otherKeys_congr (by rw [hs']; exact recordUndo_ntables _ _ _) hothers
    have hfirst : applyUndoC cap (s', 0) (.updated t i0 r.vals (mkChg (T.hashOn ++ T.btreeOn) upd r.vals))
        = (setTable s' t T'', 0) := by
      unfold applyUndoC
      show (match s'.tables t with
        | none => (s', 0 + 1)
        | some T => (setTable s' t (applyUndoTC cap (otherKeys s' t) T _).1, 0 + (applyUndoTC cap (otherKeys s' t) T _).2)) = _
      rw [htab]
      dsimp only
      rw [hok', hundo]
      rfl
    unfold rollbackC
    rw [hgate, htx]
    dsimp only
    rw [List.reverse_append, List.reverse_singleton, List.singleton_append, List.foldl_cons, hfirst]
  have hnt : s'.ntables = s.ntables := by rw [hs']; exact recordUndo_ntables _ _ _
  refine ⟨T'', _, _, htx, htab, hXrows, hothers, hnt, hroll, h1, h2, h3, h4, h5, h6, ?_, ?_, ?_⟩
  · intro e
    have h6' : ExactOn T.rows T.hashOn T''.hashE := by
      have := h6.1; rw [h1, h4] at this; exact this
    exact exactOn_mem_iff h6' hex.1 e
  · intro e
    have h6' : ExactOn T.rows T.btreeOn T''.btreeE := by
      have := h6.2; rw [h1, h5] at this; exact this
    exact exactOn_mem_iff h6' hex.2 e
  · intro c
    rw [select_eq_scan T'' h6 c, select_eq_scan T hex c]
    exact scanAnswer_congr h1 c

set_option maxRecDepth 8000 in
/-- non-vacuity: the script `setup ++ [begin]` (engine with `max_btree_entries = 2`, rows 0 and 1 sharing the key 1,
    row 2 holding the key 2) ends in a state that satisfies every hypothesis — the table is `tab3`, exact by
    construction — and transaction 3 moving row 0 to the new key 3 is refused there. -/
example : (runC 2 c0 (setup ++ [.begin])).tables 0 = some tab3 ∧
    (runC 2 c0 (setup ++ [.begin])).txs 3 = some { phase := .active, startedAt := 0, undo := [] } ∧ IdxExact tab3 ∧
    (∀ (i : Nat) (r : Row), tab3.rows[i]? = some r → r.vals.length = tab3.ncols) ∧
    otherKeys (runC 2 c0 (setup ++ [.begin])) 0 + keyCount tab3.btreeE ≤ 2 ∧ OneBt tab3 [(0, 3)] ∧
    (txUpdateC 2 (runC 2 c0 (setup ++ [.begin])) 3 0 (.idEq 0) [(0, 3)]).2 = .tooLarge := by
  refine ⟨by decide, by decide, idxExact_tab3, ?_, by decide, ⟨by decide, by decide⟩, by decide⟩
  intro i r h
  have hi : i < 3 := by
    rcases Nat.lt_or_ge i 3 with h1 | h1
    · exact h1
    · have : tab3.rows[i]? = none := List.getElem?_eq_none h1
      rw [this] at h; cases h
  match i, hi, h with
  | 0, _, h => cases h; rfl
  | 1, _, h => cases h; rfl
  | 2, _, h => cases h; rfl

/-- THE SAME, AS ONE EQUATION OF OUTCOMES.  Every state, every cap, every open transaction A with ANY undo log, every
    `tx_update` of A refused at the cap (hypotheses as above): A's rollback AFTER the refused statement answers what A's
    rollback INSTEAD of the statement would have answered (`Ok`, or `RollbackFailed` for the same entries of the earlier
    log), and leaves every table as that rollback would have left it — the same table names, and for every table the same
    rows, the same index configuration, the same hash and b-tree entries up to their order in the lists (`TabEq`), hence the
    same answer to every `select`, through an index or by scan.  All-or-nothing does not see the refused statement. -/
theorem rollback_after_refused_update_is_rollback_without_it (cap : Nat) (s : State) (A t : Nat) (cond : Cond)
    (upd : List (Nat × Val)) (T : Table) (x : Tx)
    (hT : s.tables t = some T) (hx : s.txs A = some x) (hex : IdxExact T)
    (hwf : ∀ (i : Nat) (r : Row), T.rows[i]? = some r → r.vals.length = T.ncols)
    (hcap : otherKeys s t + keyCount T.btreeE ≤ cap) (hone : OneBt T upd)
    (hfail : (txUpdateC cap s A t cond upd).2 = .tooLarge) :
    let s' := (txUpdateC cap s A t cond upd).1
    (rollbackC cap s' A).2 = (rollbackC cap s A).2 ∧
    TablesEq (rollbackC cap s A).1 (rollbackC cap s' A).1 ∧
    (∀ k T0 T1, (rollbackC cap s A).1.tables k = some T0 → (rollbackC cap s' A).1.tables k = some T1 →
      T1.rows = T0.rows ∧ ∀ c, select T1 c = select T0 c) := by
  intro s'
  obtain ⟨T'', X, u, _, _, _, hothers, hnt, hroll, h1, h2, h3, h4, h5, h6, h7, h8, _⟩ :=
    failed_update_is_undone_by_rollback cap s A t cond upd T x hT hx hex hwf hcap hone hfail
  obtain ⟨_, _, _, hg, _, _, _, _, _, _⟩ := txUpdateC_refused hT hfail
  -- the rollback without the statement
  have hplain : rollbackC cap s A =
      (setTx (release (x.undo.reverse.foldl (applyUndoC cap) (s, 0)).1 A) A none,
       if (x.undo.reverse.foldl (applyUndoC cap) (s, 0)).2 = 0 then .ok else .err .rollbackFailed) := by
    unfold rollbackC
    rw [hg, hx]
  -- the tables the two rollbacks start from agree up to entry order
  have hstart : TablesEq s (setTable s' t T'') := by
    refine ⟨by rw [← hnt]; rfl, ?_⟩
    intro k
    by_cases hk : k = t
    · subst hk
      right
      refine ⟨T, T'', hT, by rw [setTable_tables, if_pos rfl], ⟨h2, h3, h1, h4, h5, ?_, ?_⟩⟩
      · exact (List.perm_ext_iff_of_nodup h6.1.1 hex.1.1).mpr h7
      · exact (List.perm_ext_iff_of_nodup h6.2.1 hex.2.1).mpr h8
    · have he : (setTable s' t T'').tables k = s.tables k := by
        rw [setTable_tables, if_neg hk]; exact hothers k hk
      cases hsk : s.tables k with
      | none => left; exact ⟨rfl, by rw [he, hsk]⟩
      | some T0 => right; exact ⟨T0, T0, rfl, by rw [he, hsk], tabEq_refl T0⟩
  obtain ⟨herr, hfin⟩ := foldl_applyUndoC_congr (cap := cap) x.undo.reverse (n := 0) hstart
  have hfinal : TablesEq (rollbackC cap s A).1 (rollbackC cap s' A).1 := by
    rw [hplain, hroll]
    exact ⟨hfin.ntables, fun k => by
      have := hfin.tabs k
      simpa only [setTx_tables, release_tables] using this⟩
  refine ⟨?_, hfinal, ?_⟩
  · rw [hplain, hroll]
    dsimp only
    rw [herr]
  · intro k T0 T1 h0 h1'
    rcases hfinal.tabs k with ⟨hn, _⟩ | ⟨Ta, Tb, ha, hb, hab⟩
    · rw [hn] at h0; cases h0
    · rw [ha] at h0; rw [hb] at h1'
      cases h0; cases h1'
      exact ⟨hab.rows, fun c => select_tabEq hab c⟩

set_option maxRecDepth 8000 in
/-- non-vacuity with a NON-EMPTY earlier log: transaction 3 has first set column 1 of row 2 (one undo entry, table `tab3b`,
    exact by construction), then its move of row 0 to the new key 3 is refused. -/
example : let pre := runC 2 c0 (setup ++ [.begin, .txUpdate 3 0 (.idEq 2) [(1, 4)]])
    pre.tables 0 = some tab3b ∧ (pre.txs 3).map (·.undo.length) = some 1 ∧ IdxExact tab3b ∧
    otherKeys pre 0 + keyCount tab3b.btreeE ≤ 2 ∧ OneBt tab3b [(0, 3)] ∧
    (txUpdateC 2 pre 3 0 (.idEq 0) [(0, 3)]).2 = .tooLarge := by
  intro pre
  exact ⟨by decide, by decide, idxExact_tab3b, by decide, ⟨by decide, by decide⟩, by decide⟩

/-- EVERY state, every cap: a NON-transactional `update` that is refused at the b-tree entry cap (its internal
    transaction rolls back inside the call) leaves every table as it found it — the same rows, exact hash and
    b-tree indexes with the same members, every `select` answering what it answered before; tables other than
    its own are not touched at all. -/
theorem failed_plain_update_changes_nothing (cap : Nat) (s : State) (t : Nat) (cond : Cond)
    (upd : List (Nat × Val)) (T : Table)
    (hT : s.tables t = some T) (hex : IdxExact T)
    (hwf : ∀ (i : Nat) (r : Row), T.rows[i]? = some r → r.vals.length = T.ncols)
    (hcap : otherKeys s t + keyCount T.btreeE ≤ cap) (hone : OneBt T upd)
    (hfail : (updateC cap s t cond upd).2 = .tooLarge) :
    ∃ T'', (updateC cap s t cond upd).1.tables t = some T'' ∧
      T''.rows = T.rows ∧ T''.ncols = T.ncols ∧ T''.nullable = T.nullable ∧
      T''.hashOn = T.hashOn ∧ T''.btreeOn = T.btreeOn ∧ IdxExact T'' ∧
      (∀ e, e ∈ T''.hashE ↔ e ∈ T.hashE) ∧ (∀ e, e ∈ T''.btreeE ↔ e ∈ T.btreeE) ∧
      (∀ c, select T'' c = select T c) ∧
      (∀ k, k ≠ t → (updateC cap s t cond upd).1.tables k = s.tables k) := by
  have hbT : (begin s).1.tables t = some T := hT
  have hbx : (begin s).1.txs (begin s).2 = some { phase := .active, startedAt := s.now, undo := [] } := by
    unfold begin
    dsimp only
    rw [if_pos rfl]
  have hbo : otherKeys (begin s).1 t = otherKeys s t := otherKeys_congr rfl (fun _ _ => rfl)
  have hf := hfail
  unfold updateC at hf
  rw [hT] at hf
  dsimp only at hf
  cases hb : updBad T upd with
  | true => rw [hb] at hf; cases hf
  | false =>
    rw [hb] at hf
    simp only [Bool.false_eq_true, if_false] at hf
    have hinner : (txUpdateC cap (begin s).1 (begin s).2 t cond upd).2 = .tooLarge := by
      cases hr : (txUpdateC cap (begin s).1 (begin s).2 t cond upd).2 with
      | tooLarge => rfl
      | res r0 =>
        exfalso
        unfold finishAutoC at hf
        rw [hr] at hf
        cases r0 <;> simp at hf
    obtain ⟨T'', X, u, _, _, _, hothers, _, hroll, h1, h2, h3, h4, h5, h6, h7, h8, h9⟩ :=
      failed_update_is_undone_by_rollback cap (begin s).1 (begin s).2 t cond upd T _ hbT hbx hex hwf
        (by rw [hbo]; exact hcap) hone hinner
    have hstate : (updateC cap s t cond upd).1 =
        (rollbackC cap (txUpdateC cap (begin s).1 (begin s).2 t cond upd).1 (begin s).2).1 := by
      unfold updateC
      rw [hT]
      dsimp only
      rw [hb]
      simp only [Bool.false_eq_true, if_false]
      unfold finishAutoC
      rw [hinner]
    rw [hstate, hroll]
    simp only [List.reverse_nil, List.foldl_nil]
    refine ⟨T'', ?_, h1, h2, h3, h4, h5, h6, h7, h8, h9, ?_⟩
    · rw [setTx_tables, release_tables, setTable_tables, if_pos rfl]
    · intro k hk
      rw [setTx_tables, release_tables, setTable_tables, if_neg hk]
      exact hothers k hk

set_option maxRecDepth 8000 in
/-- non-vacuity: on the same table a plain `update` moving row 0 to the new key 3 is refused -/
example : (updateC 2 (runC 2 c0 setup) 0 (.idEq 0) [(0, 3)]).2 = .tooLarge := by decide

/-- EVERY state, every cap, every `tx_update` that is refused at the cap — no hypothesis on the indexes: it was
    refused at its FIRST matched row (once a row has moved, the new keys exist and `btree_index_add` of an existing
    key is unconditional), so it has changed the content of no row; the index entries of every row other than that
    first one, the index configuration and every other table are as before.  (This is what the harness oracle
    `failed_statement_changed_rows` demands of a refused statement.) -/
theorem refused_update_changes_no_row (cap : Nat) (s : State) (A t : Nat) (cond : Cond) (upd : List (Nat × Val))
    (T : Table) (hT : s.tables t = some T) (hfail : (txUpdateC cap s A t cond upd).2 = .tooLarge) :
    let s' := (txUpdateC cap s A t cond upd).1
    ∃ (i0 : Nat) (rest : List Nat) (X : Table), matching T cond = i0 :: rest ∧ s'.tables t = some X ∧
      X.rows = T.rows ∧ X.ncols = T.ncols ∧ X.hashOn = T.hashOn ∧ X.btreeOn = T.btreeOn ∧
      (∀ e : Entry, e.2.2 ≠ i0 → ((e ∈ X.hashE ↔ e ∈ T.hashE) ∧ (e ∈ X.btreeE ↔ e ∈ T.btreeE))) ∧
      (∀ k, k ≠ t → s'.tables k = s.tables k) := by
  intro s'
  obtain ⟨i0, rest, r, _, _, hm, hr, _, hstate, hflag⟩ := txUpdateC_refused hT hfail
  have hT1 : (lockAll s A t (i0 :: rest)).tables t = some T := by rw [lockAll_tables]; exact hT
  rw [updateRowC_eq hT1 hr] at hstate hflag
  dsimp only at hstate hflag
  have hbt : (btMoves cap (otherKeys (lockAll s A t (i0 :: rest)) t) upd r.vals i0 T.btreeOn T.btreeE).2 = false := by
    have hfl := hflag
    unfold updateRowT at hfl
    dsimp only at hfl
    split at hfl
    · cases hfl
    · rename_i h; simpa using h
  have hX : (updateRowT cap (otherKeys (lockAll s A t (i0 :: rest)) t) upd T i0 r).1 =
      { T with hashE := hashMoves upd r.vals i0 T.hashOn T.hashE
               btreeE := (btMoves cap (otherKeys (lockAll s A t (i0 :: rest)) t) upd r.vals i0 T.btreeOn T.btreeE).1 } := by
    unfold updateRowT
    dsimp only
    rw [hbt]
    rfl
  have hs' : s' = _ := hstate
  refine ⟨i0, rest, _, hm, by rw [hs', setTable_tables, if_pos rfl], ?_, ?_, ?_, ?_, ?_, ?_⟩
  · rw [hX]
  · rw [hX]
  · rw [hX]
  · rw [hX]
  · intro e he
    rw [hX]
    exact ⟨hashMoves_other_ids e he _ _, btMoves_other_ids e he _ _⟩
  · intro k hk
    rw [hs', setTable_tables, if_neg hk, recordUndo_tables, lockAll_tables]

set_option maxRecDepth 8000 in
/-- non-vacuity: on `tab3` under `max_btree_entries = 2` the update `c0 = 1 -> c0 := 3` matches rows 0 and 1 and is
    refused (at row 0) -/
example : (runC 2 c0 (setup ++ [.begin])).tables 0 = some tab3 ∧ matching tab3 (.eq 0 1) = [0, 1] ∧
    (txUpdateC 2 (runC 2 c0 (setup ++ [.begin])) 3 0 (.eq 0 1) [(0, 3)]).2 = .tooLarge := by decide

/-- `tx_delete` has no step that the cap can refuse (it only removes index entries): under any cap it is the
    atomic statement of `Model.lean`, for which `failed_statement_changes_nothing` and `rollback_restores` hold. -/
theorem tx_delete_is_never_refused (s : State) (tx t : Nat) (cond : Cond) :
    (txDeleteC s tx t cond).2 ≠ .tooLarge ∧ (txDeleteC s tx t cond).1 = (txDelete s tx t cond).1 ∧
    (txDeleteC s tx t cond).2 = .res (txDelete s tx t cond).2 := by
  unfold txDeleteC
  exact ⟨fun h => (by cases h), rfl, rfl⟩

set_option maxRecDepth 8000 in
/-- REGRESSION WITNESS on the variant that records the undo entry of a `tx_update` row AFTER the row's
    modifications (`txUpdateCUndoLast` / `runCUndoLast`, not the code).  Engine with `max_btree_entries = 2`,
    table with a hash and a b-tree index on column 0, rows 0 and 1 with the key 1, row 2 with the key 2 (two
    keys: the trees are full).  Transaction 3 sets column 0 of row 0 to 3: the hash entry moves to 3, the b-tree
    entry under 1 goes (the key stays, row 1 has it), and `btree_index_add` of the new key 3 is refused.  Both
    variants answer alike — every statement, the refusal, `Ok` for the rollback — and the scan is right in both.
    The variant has no undo entry for row 0: after the rollback `c0 = 1` through the hash index, `c0 >= 0` and
    `c0 <= 1` through the b-tree index have lost row 0, and the same with the non-transactional `update`, whose
    internal rollback has nothing to undo.  The model of the code puts every entry back.  Controls — an update that
    moves row 2 (sole holder of its key: the removal frees the capacity the new key needs) then rollback, and a
    refused update that is followed by nothing — do not tell the two variants apart. -/
theorem undo_recorded_last_loses_index_entries_witness :
    let ops : List Op := refused ++ [.rollback 3]
    let plain : List Op := setup ++ [.update 0 (.idEq 0) [(0, 3)]]
    let fits : List Op := setup ++ [.begin, .txUpdate 3 0 (.idEq 2) [(0, 3)], .rollback 3]
    let all := [(0, [(1 : Val), 0]), (1, [1, 0]), (2, [2, 0])]
    runResCUndoLast 2 c0 ops = runResC 2 c0 ops ∧
    (runResC 2 c0 ops).drop 6 = [.res (.okN 3), .tooLarge, .res .ok] ∧
    answers (runCUndoLast 2 c0 ops) = some [all, [(1, [1, 0])], [(1, [1, 0]), (2, [2, 0])], [(1, [1, 0])]] ∧
    answers (runC 2 c0 ops) = some [all, [(0, [1, 0]), (1, [1, 0])], all, [(0, [1, 0]), (1, [1, 0])]] ∧
    runResCUndoLast 2 c0 plain = runResC 2 c0 plain ∧ (runResC 2 c0 plain).getLast? = some .tooLarge ∧
    answers (runCUndoLast 2 c0 plain) = some [all, [(1, [1, 0])], [(1, [1, 0]), (2, [2, 0])], [(1, [1, 0])]] ∧
    answers (runC 2 c0 plain) = some [all, [(0, [1, 0]), (1, [1, 0])], all, [(0, [1, 0]), (1, [1, 0])]] ∧
    -- controls
    runResCUndoLast 2 c0 fits = runResC 2 c0 fits ∧ (runResC 2 c0 fits).drop 7 = [.res (.okN 1), .res .ok] ∧
    answers (runCUndoLast 2 c0 fits) = answers (runC 2 c0 fits) ∧
    answers (runCUndoLast 2 c0 refused) = answers (runC 2 c0 refused) ∧
    -- the half-moved state the refused statement leaves in BOTH variants: row 0 unchanged in the slab, gone from
    -- `c0 = 1` (hash) and from the b-tree
    answers (runC 2 c0 refused) = some [all, [(1, [1, 0])], [(1, [1, 0]), (2, [2, 0])], [(1, [1, 0])]] := by
  intro ops plain fits all
  and_intros <;> decide

set_option maxRecDepth 8000 in
/-- CANDIDATE FINDING, witness on the model of the code AS IT IS (`txInsertC`): `tx_insert` records its undo entry
    LAST, after the index steps.  Engine with `max_btree_entries = 1`, table with a hash and a b-tree index on
    column 0 and the row `[1,0]`; transaction 1 inserts `[3,0]`: the slab row is written, the hash entry is added,
    `btree_index_add` of the new key is refused — and no undo entry exists.  The statement answers an error, the
    rollback answers `Ok`, and the table has a row it did not have before: alive, found by the scan and through the
    hash index, missing from every b-tree range.  The same with the non-transactional `insert`.  With the undo entry
    recorded right after `slab.insert` (`txInsertCUndoFirst`, the proposed repair) the rollback removes the row and
    its hash entry. -/
theorem failed_insert_leaves_row_witness :
    let pre : List Op := [.createTable 2 [], .createIndex 0 0, .createBtree 0 0, .insert 0 [1, 0]]
    let ops : List Op := pre ++ [.begin, .txInsert 1 0 [3, 0], .rollback 1]
    let plain : List Op := pre ++ [.insert 0 [3, 0]]
    let q := fun (s : State) => (s.tables 0).map fun T => [scanAnswer T .all, select T (.eq 0 3), select T (.ge 0 0)]
    (runResC 1 c0 ops).drop 4 = [.res (.okN 1), .tooLarge, .res .ok] ∧
    q (runC 1 c0 pre) = some [[(0, [1, 0])], [], [(0, [1, 0])]] ∧
    q (runC 1 c0 ops) = some [[(0, [1, 0]), (1, [3, 0])], [(1, [3, 0])], [(0, [1, 0])]] ∧
    (runResC 1 c0 plain).getLast? = some .tooLarge ∧
    q (runC 1 c0 plain) = some [[(0, [1, 0]), (1, [3, 0])], [(1, [3, 0])], [(0, [1, 0])]] ∧
    q (runCInsertUndoFirst 1 c0 ops) = q (runC 1 c0 pre) ∧ q (runCInsertUndoFirst 1 c0 plain) = q (runC 1 c0 pre) := by
  intro pre ops plain q
  and_intros <;> decide

set_option maxRecDepth 8000 in
/-- CANDIDATE FINDINGS, witnesses on the model of the code as it is: `apply_undo_entry` re-adds b-tree keys through
    the capped `btree_index_add`, so a rollback can be REFUSED capacity it had itself freed.
    (1) Another writer used it: cap 2, b-tree on column 0, rows with the keys 1 and 2; transaction 2 deletes row 0
        (key 1 goes), a non-transactional insert takes the free slot with the key 3, the rollback of 2 cannot re-add
        the key 1: `RollbackFailed`, row 0 is back in the table and missing from the b-tree.
    (2) Nobody else wrote, two b-tree columns (`twoCols`, cap 4): the change list of an `UpdatedRow` entry is replayed
        in recording order, not reversed — row 0 moves column 0 from its own key 1 to the existing key 2 (frees a slot)
        and column 1 from the shared key 7 to the new key 9 (takes it); the undo first removes (0,2) — frees nothing —
        and re-adds (0,1) with the trees still full: `RollbackFailed`.  This is why the theorems above ask for at most
        one b-tree column in the SET list.
    (3) The transaction goes on after a refusal: cap 1, b-tree on column 1, rows 0 and 1 sharing the key 5;
        transaction 2's update of row 1 to the new key 1 is refused (row 1's entry under 5 is gone, its slab value is
        still 5); its next update of both rows to 3 records for row 1 the change 5 -> 3 although the index no longer
        had the 5 — the rollback's re-add of (1,5) for row 1 is refused and it answers `RollbackFailed` (in this script
        the entry of the refused statement, undone last, then restores row 1's b-tree entry). -/
theorem rollback_refused_by_cap_witness :
    let other : List Op := [.createTable 2 [], .createBtree 0 0, .insert 0 [1, 0], .insert 0 [2, 0],
                            .begin, .txDelete 2 0 (.idEq 0), .insert 0 [3, 0], .rollback 2]
    let goesOn : List Op := [.createTable 2 [], .createBtree 0 1, .insert 0 [3, 5], .insert 0 [2, 5],
                             .begin, .txUpdate 2 0 (.idEq 1) [(1, 1)], .txUpdate 2 0 (.eq 1 5) [(1, 3)], .rollback 2]
    let q := fun (s : State) (c : Nat) => (s.tables 0).map fun T => [scanAnswer T .all, select T (.ge c 0)]
    (runResC 2 c0 other).drop 4 = [.res (.okN 2), .res (.okN 1), .res (.okN 2), .res (.err .rollbackFailed)] ∧
    q (runC 2 c0 other) 0 = some [[(0, [1, 0]), (1, [2, 0]), (2, [3, 0])], [(1, [2, 0]), (2, [3, 0])]] ∧
    (runResC 4 c0 twoCols).drop 6 = [.res (.okN 3), .res (.okN 1), .res (.err .rollbackFailed)] ∧
    q (runC 4 c0 twoCols) 0 = some [[(0, [1, 7]), (1, [2, 7]), (2, [2, 8])], [(1, [2, 7]), (2, [2, 8])]] ∧
    (runResC 1 c0 goesOn).drop 4 = [.res (.okN 2), .tooLarge, .res (.okN 2), .res (.err .rollbackFailed)] ∧
    q (runC 1 c0 goesOn) 1 = some [[(0, [3, 5]), (1, [2, 5])], [(0, [3, 5]), (1, [2, 5])]] := by
  intro other goesOn q
  and_intros <;> decide

/-- EVERY capped script from the empty engine — any statements of any number of transactions, refusals, rollbacks that
    are themselves refused, index DDL, `batch_insert`: the keys of all in-memory b-trees never number more than the cap,
    and for every table that exists the hypothesis `otherKeys + keyCount ≤ cap` of the theorems above holds.  (The cap is
    a constant of the engine; `btree_index_add` is the only step that adds a key and it checks first.) -/
theorem capped_runs_stay_within_the_cap (cap a b : Nat) (ops : List Op) :
    let s := runC cap (init a b) ops
    btCount s ≤ cap ∧ ∀ t T, s.tables t = some T → otherKeys s t + keyCount T.btreeE ≤ cap := by
  intro s
  have h : CapInv cap s := capInv_runC (capInv_init cap a b) ops
  exact ⟨h.count, fun t T hT => capInv_split h hT⟩

/-- EVERY state within the cap: `btree_index_add` of an entry whose key the tree holds, or while the engine holds
    fewer keys than `max_btree_entries`, is the unconditional `idxAdd` of `Model.lean` — the statements of the
    capped model differ from the atomic ones only where the cap strikes. -/
theorem add_below_cap_is_unconditional (cap other : Nat) (e : Entry) (es : List Entry)
    (h : hasKey es (ekey e) = true ∨ other + keyCount es < cap) : btAddC cap other e es = some (idxAdd e es) := by
  unfold btAddC
  rcases h with h | h
  · rw [h]; rfl
  · have : ¬ cap ≤ other + keyCount es := by omega
    cases hasKey es (ekey e) <;> simp [this]

example : hasKey [((0 : Nat), (1 : Val), (0 : Nat))] (ekey (0, 1, 5)) = true ∧ (0 + keyCount [((0 : Nat), (1 : Val), (0 : Nat))] < 2) := by decide

end Neumann.RelTx.Props6
