import NeumannModel.RelTx.Index
import NeumannModel.RelTx.CapModel
/-
  C09 — lemmas about statements that fail part-way at the b-tree entry cap (`CapModel.lean`).

  * key counting: `keyCount` only depends on the set of keys and is monotone in it; re-adding an entry of a
    state that was within the cap to a sub-state of it is never refused (`btAddC_readd`);
  * a row of `tx_update` whose `btree_index_add` is refused has moved its hash entries and lost its old
    b-tree entry — nothing else (`updateRowT_refused`); the undo entry recorded BEFORE those steps puts
    the table back: rows, exact hash and b-tree indexes, no collected error (`refused_row_undone`);
  * a `tx_update` can only be refused at its FIRST matched row: once one row has been moved to the new
    keys those keys exist, and `btree_index_add` of an existing key is unconditional (`foldRows_first`).
-/
namespace Neumann.RelTx

/-! ### key counting -/

theorem mem_dedupKeys {k : Nat × Val} {ks : List (Nat × Val)} : k ∈ dedupKeys ks ↔ k ∈ ks := by
  induction ks with
  | nil => rw [dedupKeys]
  | cons a rest ih =>
    rw [dedupKeys]
    split
    · rename_i h
      rw [ih, List.mem_cons]
      constructor
      · intro h1; exact Or.inr h1
      · rintro (h1 | h1)
        · subst h1; exact h
        · exact h1
    · rw [List.mem_cons, List.mem_cons, ih]

theorem nodup_dedupKeys (ks : List (Nat × Val)) : (dedupKeys ks).Nodup := by
  induction ks with
  | nil => rw [dedupKeys]; exact List.nodup_nil
  | cons a rest ih =>
    rw [dedupKeys]
    split
    · exact ih
    · rename_i h
      exact List.nodup_cons.mpr ⟨fun h1 => h (mem_dedupKeys.mp h1), ih⟩

/-- the count only grows with the set of keys -/
theorem keyCount_mono {A B : List Entry} (h : ∀ e ∈ A, ∃ e' ∈ B, ekey e' = ekey e) : keyCount A ≤ keyCount B := by
  unfold keyCount
  apply List.Nodup.length_le_of_subset (nodup_dedupKeys _)
  intro k hk
  rw [mem_dedupKeys, List.mem_map] at hk
  obtain ⟨e, he, rfl⟩ := hk
  obtain ⟨e', he', hk'⟩ := h e he
  rw [mem_dedupKeys, List.mem_map]
  exact ⟨e', he', hk'⟩

theorem hasKey_true {es : List Entry} {k : Nat × Val} : hasKey es k = true ↔ ∃ e ∈ es, ekey e = k := by
  unfold hasKey
  rw [List.any_eq_true]
  constructor
  · rintro ⟨e, he, h⟩
    exact ⟨e, he, by simpa using h⟩
  · rintro ⟨e, he, h⟩
    exact ⟨e, he, by simpa using h⟩

theorem hasKey_false {es : List Entry} {k : Nat × Val} : hasKey es k = false ↔ ∀ e ∈ es, ekey e ≠ k := by
  constructor
  · intro h e he hk
    have : hasKey es k = true := hasKey_true.mpr ⟨e, he, hk⟩
    rw [h] at this
    cases this
  · intro h
    cases hk : hasKey es k with
    | false => rfl
    | true =>
      obtain ⟨e, he, hke⟩ := hasKey_true.mp hk
      exact absurd hke (h e he)

theorem length_dedupKeys_append_new {ks : List (Nat × Val)} {k : Nat × Val} (h : k ∉ ks) :
    (dedupKeys (ks ++ [k])).length = (dedupKeys ks).length + 1 := by
  induction ks with
  | nil => rfl
  | cons a rest ih =>
    have hne : a ≠ k := fun e => h (e ▸ List.mem_cons_self)
    have hk : k ∉ rest := fun e => h (List.mem_cons_of_mem _ e)
    rw [List.cons_append, dedupKeys, dedupKeys]
    by_cases ha : a ∈ rest
    · have ha' : a ∈ rest ++ [k] := List.mem_append_left _ ha
      rw [if_pos ha, if_pos ha']
      exact ih hk
    · have ha' : a ∉ rest ++ [k] := by
        intro e
        rcases List.mem_append.mp e with e | e
        · exact ha e
        · exact hne (List.mem_singleton.mp e)
      rw [if_neg ha, if_neg ha', List.length_cons, List.length_cons, ih hk]

/-- a new key makes the count one larger -/
theorem keyCount_append_new {es : List Entry} {e : Entry} (h : hasKey es (ekey e) = false) :
    keyCount (es ++ [e]) = keyCount es + 1 := by
  unfold keyCount
  rw [List.map_append, List.map_singleton]
  apply length_dedupKeys_append_new
  intro hk
  obtain ⟨x, hx, hxe⟩ := List.mem_map.mp hk
  exact hasKey_false.mp h x hx hxe

theorem not_mem_of_hasKey_false {es : List Entry} {e : Entry} (h : hasKey es (ekey e) = false) : e ∉ es :=
  fun he => hasKey_false.mp h e he rfl

theorem idxAdd_of_not_mem {es : List Entry} {e : Entry} (h : e ∉ es) : idxAdd e es = es ++ [e] := by
  unfold idxAdd; rw [if_neg h]

theorem idxAdd_of_mem {es : List Entry} {e : Entry} (h : e ∈ es) : idxAdd e es = es := by
  unfold idxAdd; rw [if_pos h]

theorem idxRemove_of_not_mem {es : List Entry} {e : Entry} (h : e ∉ es) : idxRemove e es = es := by
  unfold idxRemove
  apply List.filter_eq_self.mpr
  intro x hx
  simp only [ne_eq, decide_eq_true_eq]
  intro hxe
  exact h (hxe ▸ hx)

/-- Re-adding an entry of a state `E` that was within the cap to any sub-state of `E` is never refused:
    either its key is still there, or the sub-state has at least one key less than `E`. -/
theorem btAddC_readd {cap other : Nat} {E X : List Entry} {e : Entry} (he : e ∈ E)
    (hcap : other + keyCount E ≤ cap) (hX : ∀ x ∈ X, x ∈ E) : btAddC cap other e X = some (idxAdd e X) := by
  unfold btAddC
  cases hk : hasKey X (ekey e) with
  | true => rfl
  | false =>
    have h1 : keyCount (X ++ [e]) = keyCount X + 1 := keyCount_append_new hk
    have h2 : keyCount (X ++ [e]) ≤ keyCount E := by
      apply keyCount_mono
      intro x hx
      rcases List.mem_append.mp hx with hx | hx
      · exact ⟨x, hX x hx, rfl⟩
      · rw [List.mem_singleton] at hx
        subst hx
        exact ⟨x, he, rfl⟩
    have h3 : ¬ cap ≤ other + keyCount X := by omega
    simp only [Bool.not_false, Bool.true_and, decide_eq_true_eq]
    rw [if_neg h3]

/-- what a refusal says -/
theorem btAddC_none {cap other : Nat} {e : Entry} {es : List Entry} (h : btAddC cap other e es = none) :
    hasKey es (ekey e) = false ∧ cap ≤ other + keyCount es := by
  unfold btAddC at h
  split at h
  · rename_i hc
    simp only [Bool.and_eq_true, Bool.not_eq_eq_eq_not, Bool.not_true, decide_eq_true_eq] at hc
    exact hc
  · cases h

theorem btAddC_some {cap other : Nat} {e : Entry} {es es' : List Entry} (h : btAddC cap other e es = some es') :
    es' = idxAdd e es := by
  unfold btAddC at h
  split at h
  · cases h
  · cases h; rfl

/-! ### a refused row of `tx_update` -/

/-- the SET list names at most one b-tree-indexed column of the table (the b-tree column list is duplicate
    free: `create_btree_index` refuses a second index on a column) -/
def OneBt (T : Table) (upd : List (Nat × Val)) : Prop :=
  T.btreeOn.Nodup ∧ ∀ a ∈ T.btreeOn, ∀ b ∈ T.btreeOn, (updGet upd a).isSome → (updGet upd b).isSome → a = b

theorem btMoves_cons_none {cap other : Nat} {upd : List (Nat × Val)} {vals : List Val} {i c : Nat} {cs : List Nat}
    {es : List Entry} (h : updGet upd c = none) :
    btMoves cap other upd vals i (c :: cs) es = btMoves cap other upd vals i cs es := by
  rw [btMoves, h]

theorem btMoves_cons_refused {cap other : Nat} {upd : List (Nat × Val)} {vals : List Val} {i c : Nat} {cs : List Nat}
    {es : List Entry} {n : Val} (h : updGet upd c = some n)
    (hb : btAddC cap other (c, n, i) (idxRemove (c, val vals c, i) es) = none) :
    btMoves cap other upd vals i (c :: cs) es = (idxRemove (c, val vals c, i) es, false) := by
  rw [btMoves, h]
  dsimp only
  rw [hb]

theorem btMoves_cons_ok {cap other : Nat} {upd : List (Nat × Val)} {vals : List Val} {i c : Nat} {cs : List Nat}
    {es es' : List Entry} {n : Val} (h : updGet upd c = some n)
    (hb : btAddC cap other (c, n, i) (idxRemove (c, val vals c, i) es) = some es') :
    btMoves cap other upd vals i (c :: cs) es = btMoves cap other upd vals i cs es' := by
  rw [btMoves, h]
  dsimp only
  rw [hb]

/-- with at most one b-tree column in the SET list, the refused move is the first b-tree move of the row:
    the tree has lost the row's old entry of that column and nothing else has happened to it -/
theorem btMoves_refused {cap other : Nat} {upd : List (Nat × Val)} {vals : List Val} {i : Nat} :
    ∀ (cs : List Nat) (es : List Entry), cs.Nodup →
      (∀ a ∈ cs, ∀ b ∈ cs, (updGet upd a).isSome → (updGet upd b).isSome → a = b) →
      (btMoves cap other upd vals i cs es).2 = false →
      ∃ c n, c ∈ cs ∧ updGet upd c = some n ∧
        btAddC cap other (c, n, i) (idxRemove (c, val vals c, i) es) = none ∧
        (btMoves cap other upd vals i cs es).1 = idxRemove (c, val vals c, i) es := by
  intro cs
  induction cs with
  | nil => intro es _ _ h; rw [btMoves] at h; cases h
  | cons c cs ih =>
    intro es hnd hone h
    have hone' : ∀ a ∈ cs, ∀ b ∈ cs, (updGet upd a).isSome → (updGet upd b).isSome → a = b :=
      fun a ha b hb => hone a (List.mem_cons_of_mem _ ha) b (List.mem_cons_of_mem _ hb)
    cases hu : updGet upd c with
    | none =>
      rw [btMoves_cons_none hu] at h ⊢
      obtain ⟨c', n, hc', hn, hr, he⟩ := ih es (List.nodup_cons.mp hnd).2 hone' h
      exact ⟨c', n, List.mem_cons_of_mem _ hc', hn, hr, he⟩
    | some n =>
      cases hb : btAddC cap other (c, n, i) (idxRemove (c, val vals c, i) es) with
      | none =>
        rw [btMoves_cons_refused hu hb]
        exact ⟨c, n, List.mem_cons_self, hu, hb, rfl⟩
      | some es' =>
        rw [btMoves_cons_ok hu hb] at h
        obtain ⟨c', n', hc', hn', _, _⟩ := ih es' (List.nodup_cons.mp hnd).2 hone' h
        have : c = c' := hone c List.mem_cons_self c' (List.mem_cons_of_mem _ hc') (by rw [hu]; rfl) (by rw [hn']; rfl)
        subst this
        exact absurd hc' (List.nodup_cons.mp hnd).1

/-- replaying the recorded change list on the b-tree entries of a refused row: the first change of the
    refused column re-adds the old entry (never refused: `btAddC_readd`), every later one is a no-op -/
theorem undo_bt_fold {cap other : Nat} {on : List Nat} {E : List Entry} {c i : Nat} {old n : Val}
    (he : (c, old, i) ∈ E) (hcap : other + keyCount E ≤ cap)
    (hrej : btAddC cap other (c, n, i) (idxRemove (c, old, i) E) = none) :
    ∀ chg : List (Nat × Val × Val), (∀ p ∈ chg, p.1 ∈ on → p = (c, old, n)) →
      chg.foldl (undoChangeC cap other on i) (idxAdd (c, old, i) (idxRemove (c, old, i) E), 0)
        = (idxAdd (c, old, i) (idxRemove (c, old, i) E), 0) ∧
      ((∃ p ∈ chg, p.1 ∈ on) →
        chg.foldl (undoChangeC cap other on i) (idxRemove (c, old, i) E, 0)
          = (idxAdd (c, old, i) (idxRemove (c, old, i) E), 0)) := by
  obtain ⟨hnk, hfull⟩ := btAddC_none hrej
  have hsub : ∀ x ∈ idxRemove (c, old, i) E, x ∈ E := fun x hx => (mem_idxRemove.mp hx).1
  have hnX : (c, n, i) ∉ idxRemove (c, old, i) E := not_mem_of_hasKey_false hnk
  -- the new key differs from the old one: re-adding the old key cannot be refused
  have hne : n ≠ old := by
    intro e
    subst e
    have := btAddC_readd (cap := cap) (other := other) he hcap hsub
    rw [hrej] at this
    cases this
  have hnY : (c, n, i) ∉ idxAdd (c, old, i) (idxRemove (c, old, i) E) := by
    intro h
    rcases mem_idxAdd.mp h with h | h
    · simp only [Prod.mk.injEq, true_and, and_true] at h
      exact hne h
    · exact hnX h
  have stepX : undoChangeC cap other on i (idxRemove (c, old, i) E, 0) (c, old, n)
      = (idxAdd (c, old, i) (idxRemove (c, old, i) E), 0) ∨ c ∉ on := by
    by_cases hc : c ∈ on
    · left
      unfold undoChangeC
      rw [if_pos hc]
      dsimp only
      rw [idxRemove_of_not_mem hnX, btAddC_readd he hcap hsub]
    · exact Or.inr hc
  have stepY : undoChangeC cap other on i (idxAdd (c, old, i) (idxRemove (c, old, i) E), 0) (c, old, n)
      = (idxAdd (c, old, i) (idxRemove (c, old, i) E), 0) := by
    unfold undoChangeC
    split
    · dsimp only
      rw [idxRemove_of_not_mem hnY]
      have hin : (c, old, i) ∈ idxAdd (c, old, i) (idxRemove (c, old, i) E) := mem_idxAdd.mpr (Or.inl rfl)
      have : btAddC cap other (c, old, i) (idxAdd (c, old, i) (idxRemove (c, old, i) E))
          = some (idxAdd (c, old, i) (idxAdd (c, old, i) (idxRemove (c, old, i) E))) := by
        unfold btAddC
        rw [hasKey_true.mpr ⟨_, hin, rfl⟩]
        rfl
      rw [this, idxAdd_of_mem hin]
    · rfl
  intro chg
  induction chg with
  | nil =>
    intro _
    refine ⟨rfl, ?_⟩
    rintro ⟨p, hp, _⟩
    cases hp
  | cons p rest ih =>
    intro hall
    have hrest : ∀ q ∈ rest, q.1 ∈ on → q = (c, old, n) := fun q hq => hall q (List.mem_cons_of_mem _ hq)
    obtain ⟨ihY, ihX⟩ := ih hrest
    by_cases hp : p.1 ∈ on
    · have hpe : p = (c, old, n) := hall p List.mem_cons_self hp
      subst hpe
      refine ⟨?_, ?_⟩
      · rw [List.foldl_cons, stepY]; exact ihY
      · intro _
        rw [List.foldl_cons]
        rcases stepX with h | h
        · rw [h]; exact ihY
        · exact absurd hp h
    · have hskip : ∀ acc, undoChangeC cap other on i acc p = acc := by
        intro acc; unfold undoChangeC; rw [if_neg hp]
      refine ⟨?_, ?_⟩
      · rw [List.foldl_cons, hskip]; exact ihY
      · rintro ⟨q, hq, hqon⟩
        rw [List.foldl_cons, hskip]
        apply ihX
        rcases List.mem_cons.mp hq with hq | hq
        · subst hq; exact absurd hqon hp
        · exact ⟨q, hq, hqon⟩

theorem set_same {rows : List Row} {i : Nat} {r : Row} (hr : rows[i]? = some r) : rows.set i r = rows := by
  apply List.ext_getElem?
  intro j
  by_cases hj : j = i
  · subst hj; rw [set_self hr, hr]
  · rw [set_ne hj]

/-- an exact index is determined by its rows: two duplicate-free entry lists that are both exact for the
    same rows and columns have the same members -/
theorem exactOn_mem_iff {rows : List Row} {on : List Nat} {es es' : List Entry}
    (h : ExactOn rows on es) (h' : ExactOn rows on es') (x : Entry) : x ∈ es ↔ x ∈ es' := by
  obtain ⟨c, v, i⟩ := x
  rw [h.2 c i v, h'.2 c i v]

theorem exactOn_of_mem_iff {rows : List Row} {on : List Nat} {es es' : List Entry}
    (h : ExactOn rows on es) (hnd : es'.Nodup) (hm : ∀ x, x ∈ es' ↔ x ∈ es) : ExactOn rows on es' := by
  refine ⟨hnd, ?_⟩
  intro c i v
  rw [hm, h.2 c i v]

/-- THE ROW LEMMA.  A row of `tx_update` that is refused at the cap leaves the table with the row's hash
    entries moved and its old b-tree entry gone; applying the `UpdatedRow` entry that was recorded before
    those steps puts the table back — same rows, exact hash and b-tree indexes — and collects no error. -/
theorem refused_row_undone (cap other : Nat) (T : Table) (t i : Nat) (r : Row) (upd : List (Nat × Val))
    (hex : IdxExact T) (hr : T.rows[i]? = some r) (ha : r.alive = true) (hlen : r.vals.length = T.ncols)
    (hupd : ∀ p ∈ upd, p.1 < T.ncols) (hcap : other + keyCount T.btreeE ≤ cap) (hone : OneBt T upd)
    (hfail : (updateRowT cap other upd T i r).2 = false) :
    ∃ T'', applyUndoTC cap other (updateRowT cap other upd T i r).1
        (.updated t i r.vals (mkChg (T.hashOn ++ T.btreeOn) upd r.vals)) = (T'', 0) ∧
      T''.rows = T.rows ∧ T''.ncols = T.ncols ∧ T''.nullable = T.nullable ∧
      T''.hashOn = T.hashOn ∧ T''.btreeOn = T.btreeOn ∧ IdxExact T'' := by
  have hbt : (btMoves cap other upd r.vals i T.btreeOn T.btreeE).2 = false := by
    unfold updateRowT at hfail
    dsimp only at hfail
    split at hfail
    · cases hfail
    · rename_i h; simpa using h
  obtain ⟨c, n, hc, hn, hrej, hE⟩ := btMoves_refused T.btreeOn T.btreeE hone.1 hone.2 hbt
  -- the table the refused row leaves
  have hX : (updateRowT cap other upd T i r).1 =
      { T with hashE := hashMoves upd r.vals i T.hashOn T.hashE, btreeE := idxRemove (c, val r.vals c, i) T.btreeE } := by
    unfold updateRowT
    dsimp only
    rw [hbt, hE]
    rfl
  rw [hX]
  have hold : (c, val r.vals c, i) ∈ T.btreeE := by
    rw [hex.2.2 c i (val r.vals c), want_of_row hr, if_pos hc, if_pos ha]
  have hrr : restoreRow { T with hashE := hashMoves upd r.vals i T.hashOn T.hashE,
                                 btreeE := idxRemove (c, val r.vals c, i) T.btreeE } i r.vals = some T.rows := by
    unfold restoreRow
    dsimp only
    rw [hr]
    dsimp only
    rw [if_pos ⟨ha, hlen⟩]
    congr 1
    exact set_same hr
  -- the b-tree entries after the undo
  have hchgB : ∀ p ∈ mkChg (T.hashOn ++ T.btreeOn) upd r.vals, p.1 ∈ T.btreeOn → p = (c, val r.vals c, n) := by
    intro p hp hon
    obtain ⟨a, _, m, hm, rfl⟩ := mem_mkChg.mp hp
    have : a = c := hone.2 a hon c hc (by rw [hm]; rfl) (by rw [hn]; rfl)
    subst this
    rw [hn] at hm
    cases hm
    rfl
  have hhit : ∃ p ∈ mkChg (T.hashOn ++ T.btreeOn) upd r.vals, p.1 ∈ T.btreeOn :=
    ⟨(c, val r.vals c, n), mem_mkChg.mpr ⟨c, List.mem_append_right _ hc, n, hn, rfl⟩, hc⟩
  have hfold := ((undo_bt_fold (on := T.btreeOn) hold hcap hrej _ hchgB).2 hhit)
  refine ⟨{ T with hashE := (mkChg (T.hashOn ++ T.btreeOn) upd r.vals).foldl (undoChange T.hashOn i)
                              (hashMoves upd r.vals i T.hashOn T.hashE),
                   btreeE := idxAdd (c, val r.vals c, i) (idxRemove (c, val r.vals c, i) T.btreeE) }, ?_, rfl, rfl, rfl, rfl, rfl, ?_, ?_⟩
  · unfold applyUndoTC
    dsimp only
    rw [hrr, hfold]
    rfl
  · -- hash index: the complete forward move followed by the recorded undo
    have hupd' : ∀ p ∈ upd, p.1 < r.vals.length := by rw [hlen]; exact hupd
    have h1 : ExactOn (T.rows.set i { r with vals := applyUpd upd r.vals }) T.hashOn
        (hashMoves upd r.vals i T.hashOn T.hashE) := exactOn_update upd hr ha hupd' hex.1
    have h2 := exactOn_undoUpdated (rows := T.rows.set i { r with vals := applyUpd upd r.vals }) (rows' := T.rows)
      (all := T.hashOn ++ T.btreeOn) (r := { r with vals := applyUpd upd r.vals }) (old := r.vals) upd
      (set_self hr) ha (by rw [hr]) (fun j hj => (set_ne hj).symm)
      (fun c hc => List.mem_append_left _ hc) hupd' rfl h1
    exact h2
  · -- b-tree index: the old entry is back
    apply exactOn_of_mem_iff hex.2 (nodup_idxAdd (nodup_idxRemove hex.2.1))
    intro x
    rw [mem_idxAdd, mem_idxRemove]
    constructor
    · rintro (h | ⟨h, _⟩)
      · subst h; exact hold
      · exact h
    · intro h
      by_cases hx : x = (c, val r.vals c, i)
      · exact Or.inl hx
      · exact Or.inr ⟨h, hx⟩

/-! ### a `tx_update` can only be refused at its first matched row -/

/-- the new entry of a column, once in the tree, stays through the rest of the row's b-tree moves -/
theorem btMoves_keeps_new {cap other : Nat} {upd : List (Nat × Val)} {vals : List Val} {i c : Nat} {n : Val}
    (hn : updGet upd c = some n) :
    ∀ (cs : List Nat) (es : List Entry), (c, n, i) ∈ es → (btMoves cap other upd vals i cs es).2 = true →
      (c, n, i) ∈ (btMoves cap other upd vals i cs es).1 := by
  intro cs
  induction cs with
  | nil => intro es h _; rw [btMoves]; exact h
  | cons c' cs ih =>
    intro es h hok
    cases hu : updGet upd c' with
    | none =>
      rw [btMoves_cons_none hu] at hok ⊢
      exact ih es h hok
    | some n' =>
      cases hb : btAddC cap other (c', n', i) (idxRemove (c', val vals c', i) es) with
      | none => rw [btMoves_cons_refused hu hb] at hok; cases hok
      | some es' =>
        rw [btMoves_cons_ok hu hb] at hok ⊢
        apply ih es' _ hok
        rw [btAddC_some hb, mem_idxAdd]
        by_cases hcc : c = c'
        · subst hcc
          rw [hn] at hu
          cases hu
          exact Or.inl rfl
        · right
          rw [mem_idxRemove]
          refine ⟨h, ?_⟩
          intro e
          simp only [Prod.mk.injEq] at e
          exact hcc e.1

/-- after a completed row every b-tree column of the SET list has the row's new entry in its tree -/
theorem btMoves_ok_new_present {cap other : Nat} {upd : List (Nat × Val)} {vals : List Val} {i : Nat} :
    ∀ (cs : List Nat) (es : List Entry), (btMoves cap other upd vals i cs es).2 = true →
      ∀ c ∈ cs, ∀ n, updGet upd c = some n → (c, n, i) ∈ (btMoves cap other upd vals i cs es).1 := by
  intro cs
  induction cs with
  | nil => intro es _ c hc; cases hc
  | cons c' cs ih =>
    intro es hok c hc n hn
    cases hu : updGet upd c' with
    | none =>
      rw [btMoves_cons_none hu] at hok ⊢
      rcases List.mem_cons.mp hc with hc | hc
      · subst hc; rw [hn] at hu; cases hu
      · exact ih es hok c hc n hn
    | some n' =>
      cases hb : btAddC cap other (c', n', i) (idxRemove (c', val vals c', i) es) with
      | none => rw [btMoves_cons_refused hu hb] at hok; cases hok
      | some es' =>
        rw [btMoves_cons_ok hu hb] at hok ⊢
        rcases List.mem_cons.mp hc with hc | hc
        · subst hc
          rw [hn] at hu
          cases hu
          apply btMoves_keeps_new hn cs es' _ hok
          rw [btAddC_some hb, mem_idxAdd]
          exact Or.inl rfl
        · exact ih es' hok c hc n hn

/-- a later row finds every new key in place: none of its `btree_index_add`s consults the cap, and it leaves the
    entries of the first row alone -/
theorem btMoves_other_row_ok {cap other : Nat} {upd : List (Nat × Val)} {vals : List Val} {i0 j : Nat} (hj : j ≠ i0) :
    ∀ (cs : List Nat) (es : List Entry), (∀ c ∈ cs, ∀ n, updGet upd c = some n → (c, n, i0) ∈ es) →
      (btMoves cap other upd vals j cs es).2 = true ∧
      ∀ (c : Nat) (v : Val), (c, v, i0) ∈ (btMoves cap other upd vals j cs es).1 ↔ (c, v, i0) ∈ es := by
  intro cs
  induction cs with
  | nil => intro es _; rw [btMoves]; exact ⟨rfl, fun _ _ => Iff.rfl⟩
  | cons c cs ih =>
    intro es hin
    have hin' : ∀ c' ∈ cs, ∀ n, updGet upd c' = some n → (c', n, i0) ∈ es :=
      fun c' hc' => hin c' (List.mem_cons_of_mem _ hc')
    cases hu : updGet upd c with
    | none =>
      rw [btMoves_cons_none hu]
      exact ih es hin'
    | some n =>
      have hne : ∀ (c' : Nat) (v v' : Val), (c', v', i0) ≠ (c, v, j) := by
        intro c' v v' e
        simp only [Prod.mk.injEq] at e
        exact hj e.2.2.symm
      have hkeep : ∀ (c' : Nat) (v' : Val),
          (c', v', i0) ∈ idxAdd (c, n, j) (idxRemove (c, val vals c, j) es) ↔ (c', v', i0) ∈ es := by
        intro c' v'
        rw [mem_idxAdd, mem_idxRemove]
        constructor
        · rintro (h | ⟨h, _⟩)
          · exact absurd h (hne c' n v')
          · exact h
        · intro h; exact Or.inr ⟨h, hne c' (val vals c) v'⟩
      have hpres : (c, n, i0) ∈ idxRemove (c, val vals c, j) es :=
        mem_idxRemove.mpr ⟨hin c List.mem_cons_self n hu, hne c (val vals c) n⟩
      have hb : btAddC cap other (c, n, j) (idxRemove (c, val vals c, j) es)
          = some (idxAdd (c, n, j) (idxRemove (c, val vals c, j) es)) := by
        have hk : hasKey (idxRemove (c, val vals c, j) es) (ekey (c, n, j)) = true :=
          hasKey_true.mpr ⟨(c, n, i0), hpres, rfl⟩
        unfold btAddC
        rw [hk]
        rfl
      rw [btMoves_cons_ok hu hb]
      obtain ⟨h1, h2⟩ := ih (idxAdd (c, n, j) (idxRemove (c, val vals c, j) es))
        (fun c' hc' n' hn' => (hkeep c' n').mpr (hin' c' hc' n' hn'))
      exact ⟨h1, fun c' v' => (h2 c' v').trans (hkeep c' v')⟩

/-- the state after the first row: every b-tree column of the SET list has the entry of row `i0` under its new key -/
def NewKeysAt (s : State) (t i0 : Nat) (upd : List (Nat × Val)) : Prop :=
  ∃ T, s.tables t = some T ∧ ∀ c ∈ T.btreeOn, ∀ n, updGet upd c = some n → (c, n, i0) ∈ T.btreeE

theorem updateRowC_other_ok {cap tx t i0 j : Nat} {upd : List (Nat × Val)} {s : State}
    (h : NewKeysAt s t i0 upd) (hj : j ≠ i0) :
    (updateRowC cap tx t upd s j).2 = true ∧ NewKeysAt (updateRowC cap tx t upd s j).1 t i0 upd := by
  obtain ⟨T, hT, hkeys⟩ := h
  unfold updateRowC
  rw [hT]
  dsimp only
  cases hr : T.rows[j]? with
  | none => exact ⟨rfl, T, hT, hkeys⟩
  | some r =>
    dsimp only
    obtain ⟨hok, hmem⟩ := btMoves_other_row_ok (cap := cap) (other := otherKeys s t) (upd := upd) (vals := r.vals)
      hj T.btreeOn T.btreeE hkeys
    have hp : updateRowT cap (otherKeys s t) upd T j r =
        ({ T with hashE := hashMoves upd r.vals j T.hashOn T.hashE
                  btreeE := (btMoves cap (otherKeys s t) upd r.vals j T.btreeOn T.btreeE).1
                  rows := T.rows.set j { r with vals := applyUpd upd r.vals } }, true) := by
      unfold updateRowT
      dsimp only
      rw [hok]
      rfl
    rw [hp]
    refine ⟨rfl, _, by rw [setTable_tables, if_pos rfl], ?_⟩
    intro c hc n hn
    exact (hmem c n).mpr (hkeys c hc n hn)

theorem foldRowsC_all_ok {cap tx t i0 : Nat} {upd : List (Nat × Val)} :
    ∀ (rest : List Nat) (s : State), NewKeysAt s t i0 upd → (∀ j ∈ rest, j ≠ i0) →
      (foldRowsC (updateRowC cap tx t upd) rest s).2 = true := by
  intro rest
  induction rest with
  | nil => intro s _ _; rw [foldRowsC]
  | cons j rest ih =>
    intro s h hne
    obtain ⟨hok, hnext⟩ := updateRowC_other_ok (cap := cap) (tx := tx) h (hne j List.mem_cons_self)
    rw [foldRowsC]
    have : updateRowC cap tx t upd s j = ((updateRowC cap tx t upd s j).1, true) := by
      rw [← hok]
    rw [this]
    dsimp only
    exact ih _ hnext (fun k hk => hne k (List.mem_cons_of_mem _ hk))

/-- a completed first row leaves `NewKeysAt` -/
theorem updateRowC_first_ok {cap tx t i0 : Nat} {upd : List (Nat × Val)} {s : State} {T : Table}
    (hT : s.tables t = some T) (hok : (updateRowC cap tx t upd s i0).2 = true) (hrow : T.rows[i0]?.isSome) :
    NewKeysAt (updateRowC cap tx t upd s i0).1 t i0 upd := by
  unfold updateRowC at hok ⊢
  rw [hT] at hok ⊢
  dsimp only at hok ⊢
  cases hr : T.rows[i0]? with
  | none => rw [hr] at hrow; cases hrow
  | some r =>
    rw [hr] at hok
    dsimp only at hok ⊢
    have hbt : (btMoves cap (otherKeys s t) upd r.vals i0 T.btreeOn T.btreeE).2 = true := by
      unfold updateRowT at hok
      dsimp only at hok
      split at hok
      · rename_i h; exact h
      · cases hok
    have hp : updateRowT cap (otherKeys s t) upd T i0 r =
        ({ T with hashE := hashMoves upd r.vals i0 T.hashOn T.hashE
                  btreeE := (btMoves cap (otherKeys s t) upd r.vals i0 T.btreeOn T.btreeE).1
                  rows := T.rows.set i0 { r with vals := applyUpd upd r.vals } }, true) := by
      unfold updateRowT
      dsimp only
      rw [hbt]
      rfl
    rw [hp]
    refine ⟨_, by rw [setTable_tables, if_pos rfl], ?_⟩
    intro c hc n hn
    exact btMoves_ok_new_present T.btreeOn T.btreeE hbt c hc n hn

/-- THE FIRST-ROW LEMMA: a refused `tx_update` was refused at its first matched row -/
theorem foldRowsC_refused_first {cap tx t i0 : Nat} {upd : List (Nat × Val)} {rest : List Nat} {s : State} {T : Table}
    (hT : s.tables t = some T) (hrow : T.rows[i0]?.isSome) (hne : ∀ j ∈ rest, j ≠ i0)
    (h : (foldRowsC (updateRowC cap tx t upd) (i0 :: rest) s).2 = false) :
    (updateRowC cap tx t upd s i0).2 = false ∧
      (foldRowsC (updateRowC cap tx t upd) (i0 :: rest) s).1 = (updateRowC cap tx t upd s i0).1 := by
  rw [foldRowsC] at h ⊢
  cases hb : (updateRowC cap tx t upd s i0).2 with
  | false =>
    have : updateRowC cap tx t upd s i0 = ((updateRowC cap tx t upd s i0).1, false) := by rw [← hb]
    rw [this]
    exact ⟨rfl, rfl⟩
  | true =>
    have hthis : updateRowC cap tx t upd s i0 = ((updateRowC cap tx t upd s i0).1, true) := by rw [← hb]
    rw [hthis] at h
    dsimp only at h
    have := foldRowsC_all_ok (cap := cap) (tx := tx) rest _ (updateRowC_first_ok hT hb hrow) hne
    rw [this] at h
    cases h

/-! ### a row step only touches the index entries of its own row -/

theorem btMoves_other_ids {cap other : Nat} {upd : List (Nat × Val)} {vals : List Val} {i : Nat} (x : Entry)
    (hx : x.2.2 ≠ i) :
    ∀ (cs : List Nat) (es : List Entry), x ∈ (btMoves cap other upd vals i cs es).1 ↔ x ∈ es := by
  have hne : ∀ (c : Nat) (v : Val), x ≠ (c, v, i) := fun c v e => hx (by rw [e])
  intro cs
  induction cs with
  | nil => intro es; rw [btMoves]
  | cons c cs ih =>
    intro es
    cases hu : updGet upd c with
    | none => rw [btMoves_cons_none hu]; exact ih es
    | some n =>
      have hrem : x ∈ idxRemove (c, val vals c, i) es ↔ x ∈ es :=
        ⟨fun h => (mem_idxRemove.mp h).1, fun h => mem_idxRemove.mpr ⟨h, hne _ _⟩⟩
      cases hb : btAddC cap other (c, n, i) (idxRemove (c, val vals c, i) es) with
      | none => rw [btMoves_cons_refused hu hb]; exact hrem
      | some es' =>
        rw [btMoves_cons_ok hu hb, ih es', btAddC_some hb, mem_idxAdd]
        constructor
        · rintro (h | h)
          · exact absurd h (hne _ _)
          · exact hrem.mp h
        · intro h; exact Or.inr (hrem.mpr h)

theorem hashMoves_other_ids {upd : List (Nat × Val)} {vals : List Val} {i : Nat} (x : Entry) (hx : x.2.2 ≠ i)
    (on : List Nat) (es : List Entry) : x ∈ hashMoves upd vals i on es ↔ x ∈ es := by
  have hne : ∀ (c : Nat) (v : Val), x ≠ (c, v, i) := fun c v e => hx (by rw [e])
  unfold hashMoves
  apply fold_untouched
  intro c _ es'
  split
  · rw [mem_idxAdd, mem_idxRemove]
    constructor
    · rintro (h | ⟨h, _⟩)
      · exact absurd h (hne _ _)
      · exact h
    · intro h; exact Or.inr ⟨h, hne _ _⟩
  · exact Iff.rfl

/-! ### state-level plumbing -/

theorem otherKeys_congr {s s' : State} {t : Nat} (hn : s'.ntables = s.ntables)
    (ht : ∀ k, k ≠ t → s'.tables k = s.tables k) : otherKeys s' t = otherKeys s t := by
  unfold otherKeys
  rw [hn]
  congr 1
  apply List.map_congr_left
  intro k hk
  have hkt : k ≠ t := by
    have := (List.mem_filter.mp hk).2
    simpa using this
  unfold tableKeys
  rw [ht k hkt]

theorem recordUndo_ntables (s : State) (tx : Nat) (u : Undo) : (recordUndo s tx u).ntables = s.ntables := by
  unfold recordUndo
  split <;> rfl

theorem scanAnswer_congr {T T' : Table} (h : T'.rows = T.rows) (cond : Cond) : scanAnswer T' cond = scanAnswer T cond := by
  unfold scanAnswer matching
  rw [h]

/-- what a refused `tx_update` is: the transaction is open, the SET list is well formed, no matched row is locked by
    somebody else, and the FIRST matched row was refused — the state is the one that row left -/
theorem txUpdateC_refused {cap : Nat} {s : State} {A t : Nat} {cond : Cond} {upd : List (Nat × Val)} {T : Table}
    (hT : s.tables t = some T) (hfail : (txUpdateC cap s A t cond upd).2 = .tooLarge) :
    ∃ i0 rest r, gate s A = none ∧ updBad T upd = false ∧ matching T cond = i0 :: rest ∧
      T.rows[i0]? = some r ∧ r.alive = true ∧
      (txUpdateC cap s A t cond upd).1 = (updateRowC cap A t upd (lockAll s A t (i0 :: rest)) i0).1 ∧
      (updateRowC cap A t upd (lockAll s A t (i0 :: rest)) i0).2 = false := by
  have hf := hfail
  unfold txUpdateC at hf
  cases hg : gate s A with
  | some e => rw [hg] at hf; cases hf
  | none =>
    rw [hg, hT] at hf
    dsimp only at hf
    cases hb : updBad T upd with
    | true => rw [hb] at hf; cases hf
    | false =>
      rw [hb] at hf
      simp only [Bool.false_eq_true, if_false] at hf
      cases hl : lockBlocked s A t (matching T cond) with
      | true => rw [hl] at hf; cases hf
      | false =>
        rw [hl] at hf
        simp only [Bool.false_eq_true, if_false] at hf
        cases hm : matching T cond with
        | nil =>
          rw [hm] at hf
          simp only [List.isEmpty_nil, if_true, foldRowsC] at hf
          cases hf
        | cons i0 rest =>
          rw [hm] at hf
          simp only [List.isEmpty_cons, Bool.false_eq_true, if_false] at hf
          have hmem : i0 ∈ matching T cond := by rw [hm]; exact List.mem_cons_self
          obtain ⟨r, hr, ha, _⟩ := mem_matching.mp hmem
          have hnd : (i0 :: rest).Nodup := by
            rw [← hm]
            unfold matching
            exact List.Nodup.sublist List.filter_sublist List.nodup_range
          have hflag : (foldRowsC (updateRowC cap A t upd) (i0 :: rest) (lockAll s A t (i0 :: rest))).2 = false := by
            cases hff : (foldRowsC (updateRowC cap A t upd) (i0 :: rest) (lockAll s A t (i0 :: rest))).2 with
            | false => rfl
            | true => rw [hff] at hf; cases hf
          have hT1 : (lockAll s A t (i0 :: rest)).tables t = some T := by rw [lockAll_tables]; exact hT
          obtain ⟨h1, h2⟩ := foldRowsC_refused_first hT1 (by rw [hr]; rfl)
            (fun j hj e => (List.nodup_cons.mp hnd).1 (by subst e; exact hj)) hflag
          have hstate : (txUpdateC cap s A t cond upd).1 =
              (foldRowsC (updateRowC cap A t upd) (i0 :: rest) (lockAll s A t (i0 :: rest))).1 := by
            unfold txUpdateC
            rw [hg, hT]
            dsimp only
            rw [hb]
            simp only [Bool.false_eq_true, if_false]
            rw [hl, hm]
            simp only [Bool.false_eq_true, if_false, List.isEmpty_cons]
          exact ⟨i0, rest, r, rfl, rfl, rfl, hr, ha, hstate.trans h2, h1⟩

/-- the value of a row step on a state whose table and row are known -/
theorem updateRowC_eq {cap A t i : Nat} {upd : List (Nat × Val)} {s : State} {T : Table} {r : Row}
    (hT : s.tables t = some T) (hr : T.rows[i]? = some r) :
    updateRowC cap A t upd s i =
      (setTable (recordUndo s A (.updated t i r.vals (mkChg (T.hashOn ++ T.btreeOn) upd r.vals))) t
          (updateRowT cap (otherKeys s t) upd T i r).1,
       (updateRowT cap (otherKeys s t) upd T i r).2) := by
  unfold updateRowC
  rw [hT]
  dsimp only
  rw [hr]
  rfl

/-! ### scripts of the witnesses and examples of `Props6.lean` -/

namespace Cap

def c0 : State := init 30000 60000

/-- table 0, hash and b-tree index on column 0; rows 0 and 1 share the key 1, row 2 holds the key 2: two keys.
    The three non-transactional inserts use the transaction ids 0, 1, 2. -/
def setup : List Op :=
  [.createTable 2 [], .createIndex 0 0, .createBtree 0 0, .insert 0 [1, 0], .insert 0 [1, 0], .insert 0 [2, 0]]

/-- under `max_btree_entries = 2`: transaction 3 moves row 0 from the shared key 1 to the new key 3 — the hash entry
    moves, the old b-tree entry goes, `btree_index_add` is refused -/
def refused : List Op := setup ++ [.begin, .txUpdate 3 0 (.idEq 0) [(0, 3)]]

/-- the table `setup` builds, composed from the table-level steps (so that its indexes are exact by construction) -/
def tab3 : Table :=
  insertT (insertT (insertT { ncols := 2, nullable := [], rows := [], hashOn := [0], btreeOn := [0], hashE := [], btreeE := [] }
    [1, 0]) [1, 0]) [2, 0]

theorem idxExact_tab3 : IdxExact tab3 := by
  have h0 : IdxExact { ncols := 2, nullable := [], rows := [], hashOn := [0], btreeOn := [0], hashE := [], btreeE := [] } := by
    have h := idxExact_createBtree _ 0 (idxExact_createIndex _ 0 (idxExact_empty 2 []) (by decide)) (by decide)
    exact h
  exact idxExact_insertT _ _ (idxExact_insertT _ _ (idxExact_insertT _ _ h0))

/-- `tab3` after an earlier statement of the transaction has set column 1 of row 2 to 4 -/
def tab3b : Table := updateT tab3 2 { alive := true, vals := [2, 0] } [(1, 4)]

theorem idxExact_tab3b : IdxExact tab3b :=
  idxExact_updateT tab3 2 _ _ idxExact_tab3 (by decide) rfl (by decide) (by decide)

/-- what a table answers: the scan, `c0 = 1` through the hash index, `c0 >= 0` and `c0 <= 1` through the b-tree -/
def answers (s : State) : Option (List (List (Nat × List Val))) :=
  (s.tables 0).map fun T => [scanAnswer T .all, select T (.eq 0 1), select T (.ge 0 0), select T (.le 0 1)]

/-- two b-tree columns (table with b-tree indexes on columns 0 and 1, cap 4 = the keys (0,1) (0,2) (1,7) (1,8)) -/
def twoCols : List Op :=
  [.createTable 2 [], .createBtree 0 0, .createBtree 0 1, .insert 0 [1, 7], .insert 0 [2, 7], .insert 0 [2, 8],
   .begin, .txUpdate 3 0 (.idEq 0) [(0, 2), (1, 9)], .rollback 3]

end Cap

end Neumann.RelTx
