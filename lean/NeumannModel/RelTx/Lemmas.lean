import NeumannModel.RelTx.Model
/-
  C09 — helper lemmas for the relational transaction model: how each primitive moves the
  fields of the state (projection lemmas), the lock-index invariant, the `Gone` invariant.
-/
namespace Neumann.RelTx

/-! ## projection lemmas -/

@[simp] theorem setTable_txs (s : State) (t : Nat) (T : Table) : (setTable s t T).txs = s.txs := rfl
@[simp] theorem setTable_nextTx (s : State) (t : Nat) (T : Table) : (setTable s t T).nextTx = s.nextTx := rfl
@[simp] theorem setTable_locks (s : State) (t : Nat) (T : Table) : (setTable s t T).locks = s.locks := rfl
@[simp] theorem setTable_txLocks (s : State) (t : Nat) (T : Table) : (setTable s t T).txLocks = s.txLocks := rfl
@[simp] theorem setTable_now (s : State) (t : Nat) (T : Table) : (setTable s t T).now = s.now := rfl
@[simp] theorem setTable_lockTimeout (s : State) (t : Nat) (T : Table) : (setTable s t T).lockTimeout = s.lockTimeout := rfl
@[simp] theorem setTable_tables (s : State) (t : Nat) (T : Table) (k : Nat) :
    (setTable s t T).tables k = if k = t then some T else s.tables k := rfl

@[simp] theorem setTx_tables (s : State) (i : Nat) (x : Option Tx) : (setTx s i x).tables = s.tables := rfl
@[simp] theorem setTx_nextTx (s : State) (i : Nat) (x : Option Tx) : (setTx s i x).nextTx = s.nextTx := rfl
@[simp] theorem setTx_locks (s : State) (i : Nat) (x : Option Tx) : (setTx s i x).locks = s.locks := rfl
@[simp] theorem setTx_txLocks (s : State) (i : Nat) (x : Option Tx) : (setTx s i x).txLocks = s.txLocks := rfl
@[simp] theorem setTx_now (s : State) (i : Nat) (x : Option Tx) : (setTx s i x).now = s.now := rfl
@[simp] theorem setTx_lockTimeout (s : State) (i : Nat) (x : Option Tx) : (setTx s i x).lockTimeout = s.lockTimeout := rfl
@[simp] theorem setTx_txs (s : State) (i : Nat) (x : Option Tx) (k : Nat) :
    (setTx s i x).txs k = if k = i then x else s.txs k := rfl

@[simp] theorem recordUndo_tables (s : State) (tx : Nat) (u : Undo) : (recordUndo s tx u).tables = s.tables := by
  unfold recordUndo; split <;> rfl
@[simp] theorem recordUndo_nextTx (s : State) (tx : Nat) (u : Undo) : (recordUndo s tx u).nextTx = s.nextTx := by
  unfold recordUndo; split <;> rfl
@[simp] theorem recordUndo_locks (s : State) (tx : Nat) (u : Undo) : (recordUndo s tx u).locks = s.locks := by
  unfold recordUndo; split <;> rfl
@[simp] theorem recordUndo_txLocks (s : State) (tx : Nat) (u : Undo) : (recordUndo s tx u).txLocks = s.txLocks := by
  unfold recordUndo; split <;> rfl
@[simp] theorem recordUndo_now (s : State) (tx : Nat) (u : Undo) : (recordUndo s tx u).now = s.now := by
  unfold recordUndo; split <;> rfl
@[simp] theorem recordUndo_lockTimeout (s : State) (tx : Nat) (u : Undo) :
    (recordUndo s tx u).lockTimeout = s.lockTimeout := by
  unfold recordUndo; split <;> rfl
theorem recordUndo_txs_none (s : State) (tx : Nat) (u : Undo) (k : Nat) :
    (recordUndo s tx u).txs k = none ↔ s.txs k = none := by
  unfold recordUndo
  split
  · rename_i x hx
    simp only [setTx_txs]
    split
    · subst_vars; simp [hx]
    · rfl
  · rfl

@[simp] theorem lockAll_tables (s : State) (tx t : Nat) (rows : List Nat) : (lockAll s tx t rows).tables = s.tables := rfl
@[simp] theorem lockAll_txs (s : State) (tx t : Nat) (rows : List Nat) : (lockAll s tx t rows).txs = s.txs := rfl
@[simp] theorem lockAll_nextTx (s : State) (tx t : Nat) (rows : List Nat) : (lockAll s tx t rows).nextTx = s.nextTx := rfl
@[simp] theorem lockAll_now (s : State) (tx t : Nat) (rows : List Nat) : (lockAll s tx t rows).now = s.now := rfl
@[simp] theorem lockAll_lockTimeout (s : State) (tx t : Nat) (rows : List Nat) :
    (lockAll s tx t rows).lockTimeout = s.lockTimeout := rfl

@[simp] theorem release_tables (s : State) (tx : Nat) : (release s tx).tables = s.tables := rfl
@[simp] theorem release_txs (s : State) (tx : Nat) : (release s tx).txs = s.txs := rfl
@[simp] theorem release_nextTx (s : State) (tx : Nat) : (release s tx).nextTx = s.nextTx := rfl
@[simp] theorem release_now (s : State) (tx : Nat) : (release s tx).now = s.now := rfl
@[simp] theorem release_lockTimeout (s : State) (tx : Nat) : (release s tx).lockTimeout = s.lockTimeout := rfl

/-! ## the per-row bodies of update / delete and the undo fold leave the lock table alone -/

theorem updateRow_locks (tx t : Nat) (upd : List (Nat × Val)) (s : State) (i : Nat) :
    (updateRow tx t upd s i).locks = s.locks ∧ (updateRow tx t upd s i).txLocks = s.txLocks ∧
    (updateRow tx t upd s i).now = s.now ∧ (updateRow tx t upd s i).lockTimeout = s.lockTimeout ∧
    (updateRow tx t upd s i).nextTx = s.nextTx := by
  unfold updateRow
  split
  · simp
  · split <;> simp

theorem deleteRow_locks (tx t : Nat) (s : State) (i : Nat) :
    (deleteRow tx t s i).locks = s.locks ∧ (deleteRow tx t s i).txLocks = s.txLocks ∧
    (deleteRow tx t s i).now = s.now ∧ (deleteRow tx t s i).lockTimeout = s.lockTimeout ∧
    (deleteRow tx t s i).nextTx = s.nextTx := by
  unfold deleteRow
  split
  · simp
  · split <;> simp

theorem foldl_updateRow_locks (tx t : Nat) (upd : List (Nat × Val)) (rows : List Nat) (s : State) :
    (rows.foldl (updateRow tx t upd) s).locks = s.locks ∧ (rows.foldl (updateRow tx t upd) s).txLocks = s.txLocks ∧
    (rows.foldl (updateRow tx t upd) s).now = s.now ∧ (rows.foldl (updateRow tx t upd) s).lockTimeout = s.lockTimeout ∧
    (rows.foldl (updateRow tx t upd) s).nextTx = s.nextTx := by
  induction rows generalizing s with
  | nil => simp
  | cons i rest ih =>
    have h := updateRow_locks tx t upd s i
    have h2 := ih (updateRow tx t upd s i)
    simp only [List.foldl_cons]
    refine ⟨?_, ?_, ?_, ?_, ?_⟩
    · rw [h2.1, h.1]
    · rw [h2.2.1, h.2.1]
    · rw [h2.2.2.1, h.2.2.1]
    · rw [h2.2.2.2.1, h.2.2.2.1]
    · rw [h2.2.2.2.2, h.2.2.2.2]

theorem foldl_deleteRow_locks (tx t : Nat) (rows : List Nat) (s : State) :
    (rows.foldl (deleteRow tx t) s).locks = s.locks ∧ (rows.foldl (deleteRow tx t) s).txLocks = s.txLocks ∧
    (rows.foldl (deleteRow tx t) s).now = s.now ∧ (rows.foldl (deleteRow tx t) s).lockTimeout = s.lockTimeout ∧
    (rows.foldl (deleteRow tx t) s).nextTx = s.nextTx := by
  induction rows generalizing s with
  | nil => simp
  | cons i rest ih =>
    have h := deleteRow_locks tx t s i
    have h2 := ih (deleteRow tx t s i)
    simp only [List.foldl_cons]
    refine ⟨?_, ?_, ?_, ?_, ?_⟩
    · rw [h2.1, h.1]
    · rw [h2.2.1, h.2.1]
    · rw [h2.2.2.1, h.2.2.1]
    · rw [h2.2.2.2.1, h.2.2.2.1]
    · rw [h2.2.2.2.2, h.2.2.2.2]

theorem applyUndo_fields (acc : State × Nat) (u : Undo) :
    (applyUndo acc u).1.locks = acc.1.locks ∧ (applyUndo acc u).1.txLocks = acc.1.txLocks ∧
    (applyUndo acc u).1.now = acc.1.now ∧ (applyUndo acc u).1.lockTimeout = acc.1.lockTimeout ∧
    (applyUndo acc u).1.nextTx = acc.1.nextTx ∧ (applyUndo acc u).1.txs = acc.1.txs := by
  unfold applyUndo
  split <;> simp

theorem foldl_applyUndo_fields (log : List Undo) (acc : State × Nat) :
    (log.foldl applyUndo acc).1.locks = acc.1.locks ∧ (log.foldl applyUndo acc).1.txLocks = acc.1.txLocks ∧
    (log.foldl applyUndo acc).1.now = acc.1.now ∧ (log.foldl applyUndo acc).1.lockTimeout = acc.1.lockTimeout ∧
    (log.foldl applyUndo acc).1.nextTx = acc.1.nextTx ∧ (log.foldl applyUndo acc).1.txs = acc.1.txs := by
  induction log generalizing acc with
  | nil => simp
  | cons u rest ih =>
    have h := applyUndo_fields acc u
    have h2 := ih (applyUndo acc u)
    simp only [List.foldl_cons]
    refine ⟨?_, ?_, ?_, ?_, ?_, ?_⟩
    · rw [h2.1, h.1]
    · rw [h2.2.1, h.2.1]
    · rw [h2.2.2.1, h.2.2.1]
    · rw [h2.2.2.2.1, h.2.2.2.1]
    · rw [h2.2.2.2.2.1, h.2.2.2.2.1]
    · rw [h2.2.2.2.2.2, h.2.2.2.2.2]

/-! ## lock conflicts -/

theorem holder_some {s : State} {t i A : Nat} (h : holder s t i = some A) :
    ∃ l, s.locks t i = some l ∧ l.tx = A ∧ l.expired s.now s.lockTimeout = false := by
  unfold holder at h
  split at h
  · rename_i l hl
    split at h
    · cases h
    · rename_i he
      refine ⟨l, hl, ?_, by simpa using he⟩
      injection h
  · cases h

theorem lockBlocked_of_holder {s : State} {t i A B : Nat} {rows : List Nat}
    (hh : holder s t i = some A) (hAB : A ≠ B) (hi : i ∈ rows) : lockBlocked s B t rows = true := by
  obtain ⟨l, hl, hA, he⟩ := holder_some hh
  unfold lockBlocked
  rw [List.any_eq_true]
  refine ⟨i, hi, ?_⟩
  simp only [hl, he, hA]
  simp [hAB]

/-- when nothing blocks, every row is free, expired, or already ours -/
theorem not_lockBlocked {s : State} {tx t : Nat} {rows : List Nat} (h : lockBlocked s tx t rows = false) :
    ∀ i ∈ rows, holder s t i = none ∨ holder s t i = some tx := by
  intro i hi
  unfold lockBlocked at h
  rw [List.any_eq_false] at h
  have := h i hi
  unfold holder
  cases hl : s.locks t i with
  | none => simp
  | some l =>
    simp only [hl] at this ⊢
    cases he : l.expired s.now s.lockTimeout with
    | true => simp
    | false =>
      simp only [he] at this
      right
      simp only [Bool.false_eq_true, ↓reduceIte]
      simpa using this

/-! ## batch_insert either returns its input or replaces one table -/

theorem batchInsert_form (s : State) (t : Nat) (rows : List (List Val)) :
    (batchInsert s t rows).1 = s ∨
    ∃ T, s.tables t = some T ∧ rows.any (rowBad T) = false ∧
      (batchInsert s t rows).1 = setTable s t (rows.foldl insertRow T) := by
  unfold batchInsert
  split
  · exact Or.inl rfl
  · split
    · exact Or.inl rfl
    · rename_i T hT
      split
      · exact Or.inl rfl
      · rename_i hb
        exact Or.inr ⟨T, hT, by simpa using hb, rfl⟩

/-! ## `Gone`: a transaction that left the manager never comes back -/

/-- the transaction id has been handed out and is no longer in the manager's map -/
def Gone (s : State) (tx : Nat) : Prop := s.txs tx = none ∧ tx < s.nextTx

theorem gate_of_gone {s : State} {tx : Nat} (h : Gone s tx) : gate s tx = some .txNotFound := by
  unfold gate; rw [h.1]

theorem gone_setTable {s : State} {tx : Nat} (h : Gone s tx) (t : Nat) (T : Table) : Gone (setTable s t T) tx := h

theorem gone_recordUndo {s : State} {tx : Nat} (h : Gone s tx) (a : Nat) (u : Undo) : Gone (recordUndo s a u) tx :=
  ⟨(recordUndo_txs_none s a u tx).2 h.1, by simpa using h.2⟩

theorem gone_begin {s : State} {tx : Nat} (h : Gone s tx) : Gone (begin s).1 tx := by
  unfold begin Gone
  simp only
  have : tx ≠ s.nextTx := Nat.ne_of_lt h.2
  simp [this, h.1]
  exact Nat.lt_succ_of_lt h.2

theorem gone_release {s : State} {tx : Nat} (h : Gone s tx) (a : Nat) : Gone (release s a) tx := h

theorem gone_setTx_none {s : State} {tx : Nat} (h : Gone s tx) (a : Nat) : Gone (setTx s a none) tx := by
  unfold Gone
  simp only [setTx_txs, setTx_nextTx]
  refine ⟨?_, h.2⟩
  split
  · rfl
  · exact h.1

theorem gone_commit {s : State} {tx : Nat} (h : Gone s tx) (a : Nat) : Gone (commit s a).1 tx := by
  unfold commit
  split
  · exact h
  · exact gone_setTx_none (gone_release h a) a

theorem gone_foldl_applyUndo {s : State} {tx : Nat} (h : Gone s tx) (log : List Undo) (n : Nat) :
    Gone (log.foldl applyUndo (s, n)).1 tx := by
  have f := foldl_applyUndo_fields log (s, n)
  unfold Gone
  rw [f.2.2.2.2.2, f.2.2.2.2.1]
  exact h

theorem gone_rollback {s : State} {tx : Nat} (h : Gone s tx) (a : Nat) : Gone (rollback s a).1 tx := by
  unfold rollback
  split
  · exact h
  · simp only
    exact gone_setTx_none (gone_release (gone_foldl_applyUndo h _ 0) a) a

theorem gone_txInsert {s : State} {tx : Nat} (h : Gone s tx) (a t : Nat) (vals : List Val) :
    Gone (txInsert s a t vals).1 tx := by
  unfold txInsert
  split
  · exact h
  · split
    · exact h
    · split
      · exact h
      · dsimp only
        split
        · exact gone_recordUndo (gone_setTable h _ _) _ _
        · exact gone_recordUndo (gone_setTable (s := lockAll s _ _ _) h _ _) _ _

theorem gone_updateRow {s : State} {tx : Nat} (h : Gone s tx) (a t : Nat) (upd : List (Nat × Val)) (i : Nat) :
    Gone (updateRow a t upd s i) tx := by
  unfold updateRow
  split
  · exact h
  · split
    · exact h
    · exact gone_setTable (gone_recordUndo h _ _) _ _

theorem gone_deleteRow {s : State} {tx : Nat} (h : Gone s tx) (a t : Nat) (i : Nat) :
    Gone (deleteRow a t s i) tx := by
  unfold deleteRow
  split
  · exact h
  · split
    · exact h
    · exact gone_setTable (gone_recordUndo h _ _) _ _

theorem gone_foldl {f : State → Nat → State} (hf : ∀ s i tx, Gone s tx → Gone (f s i) tx)
    (rows : List Nat) {s : State} {tx : Nat} (h : Gone s tx) : Gone (rows.foldl f s) tx := by
  induction rows generalizing s with
  | nil => exact h
  | cons i rest ih => exact ih (hf s i tx h)

theorem gone_lockAll {s : State} {tx : Nat} (h : Gone s tx) (a t : Nat) (rows : List Nat) :
    Gone (lockAll s a t rows) tx := h

theorem gone_txUpdate {s : State} {tx : Nat} (h : Gone s tx) (a t : Nat) (c : Cond) (upd : List (Nat × Val)) :
    Gone (txUpdate s a t c upd).1 tx := by
  unfold txUpdate
  dsimp only
  repeat' split
  all_goals first
    | exact h
    | exact gone_foldl (fun s i tx h => gone_updateRow h a t upd i) _ h
    | exact gone_foldl (fun s i tx h => gone_updateRow h a t upd i) _ (gone_lockAll h _ _ _)

theorem gone_txDelete {s : State} {tx : Nat} (h : Gone s tx) (a t : Nat) (c : Cond) :
    Gone (txDelete s a t c).1 tx := by
  unfold txDelete
  dsimp only
  repeat' split
  all_goals first
    | exact h
    | exact gone_foldl (fun s i tx h => gone_deleteRow h a t i) _ h
    | exact gone_foldl (fun s i tx h => gone_deleteRow h a t i) _ (gone_lockAll h _ _ _)

theorem gone_finishAuto {p : State × Res} {tx : Nat} (h : Gone p.1 tx) (a : Nat) : Gone (finishAuto p a).1 tx := by
  unfold finishAuto
  split
  · exact gone_rollback h a
  · exact gone_commit h a

theorem gone_insert {s : State} {tx : Nat} (h : Gone s tx) (t : Nat) (vals : List Val) : Gone (insert s t vals).1 tx := by
  unfold insert
  repeat' split
  all_goals first
    | exact h
    | exact gone_finishAuto (gone_txInsert (gone_begin h) _ _ _) _

theorem gone_update {s : State} {tx : Nat} (h : Gone s tx) (t : Nat) (c : Cond) (upd : List (Nat × Val)) :
    Gone (update s t c upd).1 tx := by
  unfold update
  repeat' split
  all_goals first
    | exact h
    | exact gone_finishAuto (gone_txUpdate (gone_begin h) _ _ _ _) _

theorem gone_delete {s : State} {tx : Nat} (h : Gone s tx) (t : Nat) (c : Cond) : Gone (delete s t c).1 tx := by
  unfold delete
  repeat' split
  all_goals first
    | exact h
    | exact gone_finishAuto (gone_txDelete (gone_begin h) _ _ _) _

theorem foldl_release_fields (ids : List Nat) (s : State) :
    (ids.foldl release s).txs = s.txs ∧ (ids.foldl release s).nextTx = s.nextTx := by
  induction ids generalizing s with
  | nil => simp
  | cons i rest ih =>
    simp only [List.foldl_cons]
    have := ih (release s i)
    simpa using this

theorem gone_cleanupTxs {s : State} {tx : Nat} (h : Gone s tx) : Gone (cleanupTxs s).1 tx := by
  unfold cleanupTxs Gone
  simp only
  have f := foldl_release_fields ((List.range s.nextTx).filter (txExpired s)) s
  refine ⟨?_, ?_⟩
  · split
    · rfl
    · rw [f.1]; exact h.1
  · rw [f.2]; exact h.2

theorem gone_step {s : State} {tx : Nat} (h : Gone s tx) (op : Op) : Gone (step s op).1 tx := by
  cases op with
  | begin => exact gone_begin h
  | commit a => exact gone_commit h a
  | rollback a => exact gone_rollback h a
  | txInsert a t v => exact gone_txInsert h a t v
  | txUpdate a t c u => exact gone_txUpdate h a t c u
  | txDelete a t c => exact gone_txDelete h a t c
  | insert t v => exact gone_insert h t v
  | update t c u => exact gone_update h t c u
  | delete t c => exact gone_delete h t c
  | batchInsert t rows =>
    rcases batchInsert_form s t rows with hf | ⟨T, _, _, hf⟩
    · show Gone (batchInsert s t rows).1 tx; rw [hf]; exact h
    · show Gone (batchInsert s t rows).1 tx; rw [hf]; exact h
  | createTable n nl => exact h
  | createIndex t c =>
    simp only [step]; unfold createIndex
    split
    · exact h
    · split
      · exact h
      · split <;> exact h
  | createBtree t c =>
    simp only [step]; unfold createBtree
    split
    · exact h
    · split
      · exact h
      · split <;> exact h
  | dropIndex t c =>
    simp only [step]; unfold dropIndex
    split
    · exact h
    · split <;> exact h
  | dropBtree t c =>
    simp only [step]; unfold dropBtree
    split
    · exact h
    · split <;> exact h
  | tick d => exact h
  | cleanupLocks => exact h
  | cleanupTxs => exact gone_cleanupTxs h

theorem gone_run {s : State} {tx : Nat} (h : Gone s tx) (ops : List Op) : Gone (run s ops) tx := by
  induction ops generalizing s with
  | nil => exact h
  | cons op rest ih => exact ih (gone_step h op)

/-! ## `LockIdx`: every lock is listed under its holder in `tx_locks` (so `release` finds it) -/

def LockIdx (s : State) : Prop := ∀ t i l, s.locks t i = some l → (t, i) ∈ s.txLocks l.tx

theorem lockIdx_congr {s s' : State} (hl : s'.locks = s.locks) (ht : s'.txLocks = s.txLocks) (h : LockIdx s) :
    LockIdx s' := by
  intro t i l hx
  rw [hl] at hx; rw [ht]; exact h t i l hx

theorem lockIdx_init (a b : Nat) : LockIdx (init a b) := by
  intro t i l h; simp [init] at h

theorem lockIdx_lockAll {s : State} (h : LockIdx s) (tx t : Nat) (rows : List Nat) : LockIdx (lockAll s tx t rows) := by
  intro t' i l hl
  simp only [lockAll] at hl ⊢
  split at hl
  · rename_i hc
    injection hl with hl; subst hl
    simp only [↓reduceIte, List.mem_append, List.mem_map]
    right; exact ⟨i, hc.2, by rw [hc.1]⟩
  · have := h t' i l hl
    split
    · rename_i he; rw [he] at this
      exact List.mem_append_left _ this
    · exact this

theorem release_locks_some {s : State} {tx t i : Nat} {l : Lock} (h : (release s tx).locks t i = some l) :
    s.locks t i = some l ∧ ¬(l.tx = tx ∧ (t, i) ∈ s.txLocks tx) := by
  simp only [release] at h
  split at h
  · rename_i l' hl'
    split at h
    · cases h
    · rename_i hn
      injection h with h; subst h
      exact ⟨hl', hn⟩
  · cases h

theorem lockIdx_release {s : State} (h : LockIdx s) (tx : Nat) : LockIdx (release s tx) := by
  intro t i l hl
  obtain ⟨h1, h2⟩ := release_locks_some hl
  have hm := h t i l h1
  simp only [release]
  split
  · rename_i he; rw [he] at hm; exact absurd ⟨he, hm⟩ h2
  · exact hm

theorem lockIdx_foldl_release {s : State} (h : LockIdx s) (ids : List Nat) : LockIdx (ids.foldl release s) := by
  induction ids generalizing s with
  | nil => exact h
  | cons i rest ih => exact ih (lockIdx_release h i)

theorem lockIdx_cleanupLocks {s : State} (h : LockIdx s) : LockIdx (cleanupLocks s).1 := by
  intro t i l hl
  simp only [cleanupLocks] at hl ⊢
  split at hl
  · cases hl
  · rename_i hne
    have hm := h t i l hl
    rw [List.mem_filter]
    refine ⟨hm, ?_⟩
    simp only [lockExpiredAt, hl] at hne
    simp only [hl]
    simp [hne]

theorem lockIdx_commit {s : State} (h : LockIdx s) (a : Nat) : LockIdx (commit s a).1 := by
  unfold commit
  split
  · exact h
  · exact lockIdx_congr rfl rfl (lockIdx_release h a)

theorem release_congr {s s' : State} (hl : s'.locks = s.locks) (ht : s'.txLocks = s.txLocks) (tx : Nat) :
    (release s' tx).locks = (release s tx).locks ∧ (release s' tx).txLocks = (release s tx).txLocks := by
  simp only [release, hl, ht, and_self]

theorem lockIdx_rollback {s : State} (h : LockIdx s) (a : Nat) : LockIdx (rollback s a).1 := by
  unfold rollback
  split
  · exact h
  · simp only
    have f := foldl_applyUndo_fields ((match s.txs a with | some x => x.undo | none => []).reverse) (s, 0)
    have r := release_congr f.1 f.2.1 a
    exact lockIdx_congr (s := release s a) r.1 r.2 (lockIdx_release h a)

theorem lockIdx_txInsert {s : State} (h : LockIdx s) (a t : Nat) (v : List Val) : LockIdx (txInsert s a t v).1 := by
  unfold txInsert
  split
  · exact h
  · split
    · exact h
    · split
      · exact h
      · dsimp only
        split
        · exact lockIdx_congr (by simp) (by simp) h
        · rename_i T _ _ _
          exact lockIdx_congr (s := lockAll s a t [T.rows.length]) (by simp) (by simp) (lockIdx_lockAll h _ _ _)

theorem lockIdx_txUpdate {s : State} (h : LockIdx s) (a t : Nat) (c : Cond) (u : List (Nat × Val)) :
    LockIdx (txUpdate s a t c u).1 := by
  unfold txUpdate
  dsimp only
  repeat' split
  all_goals first
    | exact h
    | exact lockIdx_congr (foldl_updateRow_locks a t u _ _).1 (foldl_updateRow_locks a t u _ _).2.1 h
    | exact lockIdx_congr (foldl_updateRow_locks a t u _ _).1 (foldl_updateRow_locks a t u _ _).2.1 (lockIdx_lockAll h _ _ _)

theorem lockIdx_txDelete {s : State} (h : LockIdx s) (a t : Nat) (c : Cond) : LockIdx (txDelete s a t c).1 := by
  unfold txDelete
  dsimp only
  repeat' split
  all_goals first
    | exact h
    | exact lockIdx_congr (foldl_deleteRow_locks a t _ _).1 (foldl_deleteRow_locks a t _ _).2.1 h
    | exact lockIdx_congr (foldl_deleteRow_locks a t _ _).1 (foldl_deleteRow_locks a t _ _).2.1 (lockIdx_lockAll h _ _ _)

theorem lockIdx_begin {s : State} (h : LockIdx s) : LockIdx (begin s).1 := lockIdx_congr rfl rfl h

theorem lockIdx_finishAuto {p : State × Res} (h : LockIdx p.1) (a : Nat) : LockIdx (finishAuto p a).1 := by
  unfold finishAuto
  split
  · exact lockIdx_rollback h a
  · exact lockIdx_commit h a

theorem lockIdx_step {s : State} (h : LockIdx s) (op : Op) : LockIdx (step s op).1 := by
  cases op with
  | begin => exact lockIdx_begin h
  | commit a => exact lockIdx_commit h a
  | rollback a => exact lockIdx_rollback h a
  | txInsert a t v => exact lockIdx_txInsert h a t v
  | txUpdate a t c u => exact lockIdx_txUpdate h a t c u
  | txDelete a t c => exact lockIdx_txDelete h a t c
  | insert t v =>
    simp only [step]; unfold insert
    repeat' split
    all_goals first
      | exact h
      | exact lockIdx_finishAuto (lockIdx_txInsert (lockIdx_begin h) _ _ _) _
  | update t c u =>
    simp only [step]; unfold update
    repeat' split
    all_goals first
      | exact h
      | exact lockIdx_finishAuto (lockIdx_txUpdate (lockIdx_begin h) _ _ _ _) _
  | delete t c =>
    simp only [step]; unfold delete
    repeat' split
    all_goals first
      | exact h
      | exact lockIdx_finishAuto (lockIdx_txDelete (lockIdx_begin h) _ _ _) _
  | batchInsert t rows =>
    rcases batchInsert_form s t rows with hf | ⟨T, _, _, hf⟩
    · show LockIdx (batchInsert s t rows).1; rw [hf]; exact h
    · show LockIdx (batchInsert s t rows).1; rw [hf]; exact lockIdx_congr rfl rfl h
  | createTable n nl => exact lockIdx_congr rfl rfl h
  | createIndex t c =>
    simp only [step]; unfold createIndex
    repeat' split
    all_goals first | exact h | exact lockIdx_congr rfl rfl h
  | createBtree t c =>
    simp only [step]; unfold createBtree
    repeat' split
    all_goals first | exact h | exact lockIdx_congr rfl rfl h
  | dropIndex t c =>
    simp only [step]; unfold dropIndex
    repeat' split
    all_goals first | exact h | exact lockIdx_congr rfl rfl h
  | dropBtree t c =>
    simp only [step]; unfold dropBtree
    repeat' split
    all_goals first | exact h | exact lockIdx_congr rfl rfl h
  | tick d => exact lockIdx_congr rfl rfl h
  | cleanupLocks => exact lockIdx_cleanupLocks h
  | cleanupTxs =>
    simp only [step, cleanupTxs]
    exact lockIdx_congr rfl rfl (lockIdx_foldl_release h _)

theorem lockIdx_run {s : State} (h : LockIdx s) (ops : List Op) : LockIdx (run s ops) := by
  induction ops generalizing s with
  | nil => exact h
  | cons op rest ih => exact ih (lockIdx_step h op)

/-- after `release`, no lock names the transaction and its key list is empty -/
theorem release_clears {s : State} (h : LockIdx s) (tx : Nat) :
    (∀ t i l, (release s tx).locks t i = some l → l.tx ≠ tx) ∧ (release s tx).txLocks tx = [] := by
  refine ⟨?_, by simp [release]⟩
  intro t i l hl he
  obtain ⟨h1, h2⟩ := release_locks_some hl
  exact h2 ⟨he, he ▸ h t i l h1⟩

/-! ## input validation -/

theorem rowBad_false_len {T : Table} {vals : List Val} (h : rowBad T vals = false) : vals.length = T.ncols := by
  unfold rowBad at h
  rw [Bool.or_eq_false_iff] at h
  simpa using h.1

theorem updBad_false_cols {T : Table} {upd : List (Nat × Val)} (h : updBad T upd = false) : ∀ p ∈ upd, p.1 < T.ncols := by
  unfold updBad at h
  rw [Bool.or_eq_false_iff] at h
  intro p hp
  have := List.any_eq_false.1 h.1 p hp
  simpa using this

/-! ## shape of a successful update / delete -/

theorem txUpdate_ok_form {s : State} {A t n : Nat} {cond : Cond} {upd : List (Nat × Val)} {T : Table}
    (hT : s.tables t = some T) (hok : (txUpdate s A t cond upd).2 = .okN n) :
    lockBlocked s A t (matching T cond) = false ∧
    (txUpdate s A t cond upd).1 = (matching T cond).foldl (updateRow A t upd)
      (if (matching T cond).isEmpty then s else lockAll s A t (matching T cond)) := by
  unfold txUpdate at hok ⊢
  cases hg : gate s A with
  | some e => simp [hg] at hok
  | none =>
    simp only [hg, hT] at hok ⊢
    by_cases hc : updBad T upd = true
    · simp [hc] at hok
    · by_cases hb : lockBlocked s A t (matching T cond) = true
      · simp [hc, hb] at hok
      · simp [hc, hb]

theorem txDelete_ok_form {s : State} {A t n : Nat} {cond : Cond} {T : Table}
    (hT : s.tables t = some T) (hok : (txDelete s A t cond).2 = .okN n) :
    lockBlocked s A t (matching T cond) = false ∧
    (txDelete s A t cond).1 = (matching T cond).foldl (deleteRow A t)
      (if (matching T cond).isEmpty then s else lockAll s A t (matching T cond)) := by
  unfold txDelete at hok ⊢
  cases hg : gate s A with
  | some e => simp [hg] at hok
  | none =>
    simp only [hg, hT] at hok ⊢
    by_cases hb : lockBlocked s A t (matching T cond) = true
    · simp [hb] at hok
    · simp [hb]

theorem holder_lockAll (s : State) (A t i : Nat) (rows : List Nat) (hi : i ∈ rows) :
    holder (lockAll s A t rows) t i = some A := by
  simp [holder, lockAll, hi, Lock.expired]

theorem holder_congr {s s' : State} (hl : s'.locks = s.locks) (hn : s'.now = s.now)
    (ht : s'.lockTimeout = s.lockTimeout) (t i : Nat) : holder s' t i = holder s t i := by
  simp only [holder, hl, hn, ht]

/-! ## rollback touches only the rows named in the undo log -/

def rowAt (s : State) (t i : Nat) : Option Row := (s.tables t).bind (·.rows[i]?)

theorem applyUndoT_rows_other (T : Table) (u : Undo) (i : Nat) (h : i ≠ u.row) :
    (applyUndoT T u).1.rows[i]? = T.rows[i]? := by
  have hne : u.row ≠ i := fun e => h e.symm
  cases u with
  | inserted t r idx =>
    simp only [Undo.row] at hne
    simp only [applyUndoT, slabDelete]
    split
    · split
      · rw [List.getElem?_set_ne hne]
      · rfl
    · rfl
  | updated t r old chg =>
    simp only [Undo.row] at hne
    simp only [applyUndoT, restoreRow]
    split
    · split
      · simp only [Option.getD_some]; rw [List.getElem?_set_ne hne]
      · rfl
    · rfl
  | deleted t r old idx =>
    simp only [Undo.row] at hne
    simp only [applyUndoT, restoreDeletedRow]
    split
    · split
      · simp only [Option.getD_some]; rw [List.getElem?_set_ne hne]
      · rfl
    · rfl

theorem applyUndo_rowAt_other (acc : State × Nat) (u : Undo) (t i : Nat) (h : ¬(u.table = t ∧ u.row = i)) :
    rowAt (applyUndo acc u).1 t i = rowAt acc.1 t i := by
  unfold applyUndo
  cases hT : acc.1.tables u.table with
  | none => rfl
  | some T =>
    simp only [rowAt, setTable_tables]
    by_cases ht : t = u.table
    · subst ht
      simp only [↓reduceIte, hT, Option.bind_some]
      apply applyUndoT_rows_other
      intro e; exact h ⟨rfl, e.symm⟩
    · simp [ht]

theorem foldl_applyUndo_rowAt_other (log : List Undo) (acc : State × Nat) (t i : Nat)
    (h : ∀ u ∈ log, ¬(u.table = t ∧ u.row = i)) :
    rowAt (log.foldl applyUndo acc).1 t i = rowAt acc.1 t i := by
  induction log generalizing acc with
  | nil => rfl
  | cons u rest ih =>
    simp only [List.foldl_cons]
    rw [ih (applyUndo acc u) (fun v hv => h v (List.mem_cons_of_mem _ hv))]
    exact applyUndo_rowAt_other acc u t i (h u List.mem_cons_self)

/-! ## what undoing one entry does to its own row -/

/-- effect of `apply_undo_entry` on the row it names (`slab.delete` / `restore_row` /
    `restore_deleted_row`) -/
def undoRow (ncols : Nat) (u : Undo) (r : Row) : Row :=
  match u with
  | .inserted _ _ _ => { r with alive := false }
  | .updated _ _ old _ => if r.alive ∧ old.length = ncols then { r with vals := old } else r
  | .deleted _ _ old _ => if (!r.alive) ∧ old.length = ncols then { alive := true, vals := old } else r

theorem applyUndoT_ncols (T : Table) (u : Undo) : (applyUndoT T u).1.ncols = T.ncols := by
  cases u <;> rfl

theorem applyUndoT_row_self (T : Table) (u : Undo) (r : Row) (hr : T.rows[u.row]? = some r) :
    (applyUndoT T u).1.rows[u.row]? = some (undoRow T.ncols u r) := by
  have hlt : u.row < T.rows.length := by
    rcases List.getElem?_eq_some_iff.1 hr with ⟨h, _⟩; exact h
  cases u with
  | inserted t i idx =>
    simp only [Undo.row] at hr hlt
    simp only [applyUndoT, slabDelete, Undo.row, hr, undoRow]
    split
    · simp [hlt]
    · rename_i hd
      rw [hr]
      cases r with
      | mk a v => simp at hd; subst hd; rfl
  | updated t i old chg =>
    simp only [Undo.row] at hr hlt
    simp only [applyUndoT, restoreRow, Undo.row, hr, undoRow]
    split
    · simp [hlt]
    · simp [hr]
  | deleted t i old idx =>
    simp only [Undo.row] at hr hlt
    simp only [applyUndoT, restoreDeletedRow, Undo.row, hr, undoRow]
    split
    · simp [hlt]
    · simp [hr]

def ncolsAt (s : State) (t : Nat) : Option Nat := (s.tables t).map (·.ncols)

theorem applyUndo_ncolsAt (acc : State × Nat) (u : Undo) (t : Nat) :
    ncolsAt (applyUndo acc u).1 t = ncolsAt acc.1 t := by
  unfold applyUndo
  cases hT : acc.1.tables u.table with
  | none => rfl
  | some T =>
    simp only [ncolsAt, setTable_tables]
    by_cases ht : t = u.table
    · subst ht; simp [hT, applyUndoT_ncols]
    · simp [ht]

theorem foldl_applyUndo_ncolsAt (log : List Undo) (acc : State × Nat) (t : Nat) :
    ncolsAt (log.foldl applyUndo acc).1 t = ncolsAt acc.1 t := by
  induction log generalizing acc with
  | nil => rfl
  | cons u rest ih => simp only [List.foldl_cons]; rw [ih, applyUndo_ncolsAt]

theorem applyUndo_rowAt_self (acc : State × Nat) (u : Undo) (n : Nat) (r : Row)
    (hn : ncolsAt acc.1 u.table = some n) (hr : rowAt acc.1 u.table u.row = some r) :
    rowAt (applyUndo acc u).1 u.table u.row = some (undoRow n u r) := by
  unfold applyUndo
  cases hT : acc.1.tables u.table with
  | none => simp [ncolsAt, hT] at hn
  | some T =>
    simp only [ncolsAt, hT, Option.map_some, Option.some.injEq] at hn
    simp only [rowAt, hT, Option.bind_some] at hr
    simp only [rowAt, setTable_tables, ↓reduceIte, Option.bind_some]
    rw [applyUndoT_row_self T u r hr, hn]

end Neumann.RelTx
