import NeumannModel.RelTx.Model
/-
  C09 — helper lemmas for the relational transaction model: how each primitive moves the
  fields of the state (projection lemmas), the lock-index invariant, the `Gone` invariant.
-/
namespace Neumann.RelTx

/-! ## projection lemmas -/

@[simp] theorem setTable_txs (s : State) (t : Nat) (T : Table) : (setTable s t T).txs = s.txs := rfl
@[simp] theorem setTable_nextTx (s : State) (t : Nat) (T : Table) : (setTable s t T).nextTx = s.nextTx := rfl
@[simp] theorem setTable_locks (s : State) (t : Nat) (T : Table) : (setTable s t T).locks = s.locks := rfl
@[simp] theorem setTable_txLocks (s : State) (t : Nat) (T : Table) : (setTable s t T).txLocks = s.txLocks := rfl
@[simp] theorem setTable_now (s : State) (t : Nat) (T : Table) : (setTable s t T).now = s.now := rfl
@[simp] theorem setTable_lockTimeout (s : State) (t : Nat) (T : Table) : (setTable s t T).lockTimeout = s.lockTimeout := rfl
@[simp] theorem setTable_tables (s : State) (t : Nat) (T : Table) (k : Nat) :
    (setTable s t T).tables k = if k = t then some T else s.tables k := rfl

@[simp] theorem setTx_tables (s : State) (i : Nat) (x : Option Tx) : (setTx s i x).tables = s.tables := rfl
@[simp] theorem setTx_nextTx (s : State) (i : Nat) (x : Option Tx) : (setTx s i x).nextTx = s.nextTx := rfl
@[simp] theorem setTx_locks (s : State) (i : Nat) (x : Option Tx) : (setTx s i x).locks = s.locks := rfl
@[simp] theorem setTx_txLocks (s : State) (i : Nat) (x : Option Tx) : (setTx s i x).txLocks = s.txLocks := rfl
@[simp] theorem setTx_now (s : State) (i : Nat) (x : Option Tx) : (setTx s i x).now = s.now := rfl
@[simp] theorem setTx_lockTimeout (s : State) (i : Nat) (x : Option Tx) : (setTx s i x).lockTimeout = s.lockTimeout := rfl
@[simp] theorem setTx_txs (s : State) (i : Nat) (x : Option Tx) (k : Nat) :
    (setTx s i x).txs k = if k = i then x else s.txs k := rfl

@[simp] theorem recordUndo_tables (s : State) (tx : Nat) (u : Undo) : (recordUndo s tx u).tables = s.tables := by
  unfold recordUndo; split <;> rfl
@[simp] theorem recordUndo_nextTx (s : State) (tx : Nat) (u : Undo) : (recordUndo s tx u).nextTx = s.nextTx := by
  unfold recordUndo; split <;> rfl
@[simp] theorem recordUndo_locks (s : State) (tx : Nat) (u : Undo) : (recordUndo s tx u).locks = s.locks := by
  unfold recordUndo; split <;> rfl
@[simp] theorem recordUndo_txLocks (s : State) (tx : Nat) (u : Undo) : (recordUndo s tx u).txLocks = s.txLocks := by
  unfold recordUndo; split <;> rfl
@[simp] theorem recordUndo_now (s : State) (tx : Nat) (u : Undo) : (recordUndo s tx u).now = s.now := by
  unfold recordUndo; split <;> rfl
@[simp] theorem recordUndo_lockTimeout (s : State) (tx : Nat) (u : Undo) :
    (recordUndo s tx u).lockTimeout = s.lockTimeout := by
  unfold recordUndo; split <;> rfl
theorem recordUndo_txs_none (s : State) (tx : Nat) (u : Undo) (k : Nat) :
    (recordUndo s tx u).txs k = none ↔ s.txs k = none := by
  unfold recordUndo
  split
  · rename_i x hx
    simp only [setTx_txs]
    split
    · subst_vars; simp [hx]
    · rfl
  · rfl

@[simp] theorem lockAll_tables (s : State) (tx t : Nat) (rows : List Nat) : (lockAll s tx t rows).tables = s.tables := rfl
@[simp] theorem lockAll_txs (s : State) (tx t : Nat) (rows : List Nat) : (lockAll s tx t rows).txs = s.txs := rfl
@[simp] theorem lockAll_nextTx (s : State) (tx t : Nat) (rows : List Nat) : (lockAll s tx t rows).nextTx = s.nextTx := rfl
@[simp] theorem lockAll_now (s : State) (tx t : Nat) (rows : List Nat) : (lockAll s tx t rows).now = s.now := rfl
@[simp] theorem lockAll_lockTimeout (s : State) (tx t : Nat) (rows : List Nat) :
    (lockAll s tx t rows).lockTimeout = s.lockTimeout := rfl

@[simp] theorem release_tables (s : State) (tx : Nat) : (release s tx).tables = s.tables := rfl
@[simp] theorem release_txs (s : State) (tx : Nat) : (release s tx).txs = s.txs := rfl
@[simp] theorem release_nextTx (s : State) (tx : Nat) : (release s tx).nextTx = s.nextTx := rfl
@[simp] theorem release_now (s : State) (tx : Nat) : (release s tx).now = s.now := rfl
@[simp] theorem release_lockTimeout (s : State) (tx : Nat) : (release s tx).lockTimeout = s.lockTimeout := rfl

/-! ## the per-row bodies of update / delete and the undo fold leave the lock table alone -/

theorem updateRow_locks (tx t : Nat) (upd : List (Nat × Int)) (s : State) (i : Nat) :
    (updateRow tx t upd s i).locks = s.locks ∧ (updateRow tx t upd s i).txLocks = s.txLocks ∧
    (updateRow tx t upd s i).now = s.now ∧ (updateRow tx t upd s i).lockTimeout = s.lockTimeout ∧
    (updateRow tx t upd s i).nextTx = s.nextTx := by
  unfold updateRow
  split
  · simp
  · split <;> simp

theorem deleteRow_locks (tx t : Nat) (s : State) (i : Nat) :
    (deleteRow tx t s i).locks = s.locks ∧ (deleteRow tx t s i).txLocks = s.txLocks ∧
    (deleteRow tx t s i).now = s.now ∧ (deleteRow tx t s i).lockTimeout = s.lockTimeout ∧
    (deleteRow tx t s i).nextTx = s.nextTx := by
  unfold deleteRow
  split
  · simp
  · split <;> simp

theorem foldl_updateRow_locks (tx t : Nat) (upd : List (Nat × Int)) (rows : List Nat) (s : State) :
    (rows.foldl (updateRow tx t upd) s).locks = s.locks ∧ (rows.foldl (updateRow tx t upd) s).txLocks = s.txLocks ∧
    (rows.foldl (updateRow tx t upd) s).now = s.now ∧ (rows.foldl (updateRow tx t upd) s).lockTimeout = s.lockTimeout ∧
    (rows.foldl (updateRow tx t upd) s).nextTx = s.nextTx := by
  induction rows generalizing s with
  | nil => simp
  | cons i rest ih =>
    have h := updateRow_locks tx t upd s i
    have h2 := ih (updateRow tx t upd s i)
    simp only [List.foldl_cons]
    refine ⟨?_, ?_, ?_, ?_, ?_⟩
    · rw [h2.1, h.1]
    · rw [h2.2.1, h.2.1]
    · rw [h2.2.2.1, h.2.2.1]
    · rw [h2.2.2.2.1, h.2.2.2.1]
    · rw [h2.2.2.2.2, h.2.2.2.2]

theorem foldl_deleteRow_locks (tx t : Nat) (rows : List Nat) (s : State) :
    (rows.foldl (deleteRow tx t) s).locks = s.locks ∧ (rows.foldl (deleteRow tx t) s).txLocks = s.txLocks ∧
    (rows.foldl (deleteRow tx t) s).now = s.now ∧ (rows.foldl (deleteRow tx t) s).lockTimeout = s.lockTimeout ∧
    (rows.foldl (deleteRow tx t) s).nextTx = s.nextTx := by
  induction rows generalizing s with
  | nil => simp
  | cons i rest ih =>
    have h := deleteRow_locks tx t s i
    have h2 := ih (deleteRow tx t s i)
    simp only [List.foldl_cons]
    refine ⟨?_, ?_, ?_, ?_, ?_⟩
    · rw [h2.1, h.1]
    · rw [h2.2.1, h.2.1]
    · rw [h2.2.2.1, h.2.2.1]
    · rw [h2.2.2.2.1, h.2.2.2.1]
    · rw [h2.2.2.2.2, h.2.2.2.2]

theorem applyUndo_fields (acc : State × Nat) (u : Undo) :
    (applyUndo acc u).1.locks = acc.1.locks ∧ (applyUndo acc u).1.txLocks = acc.1.txLocks ∧
    (applyUndo acc u).1.now = acc.1.now ∧ (applyUndo acc u).1.lockTimeout = acc.1.lockTimeout ∧
    (applyUndo acc u).1.nextTx = acc.1.nextTx ∧ (applyUndo acc u).1.txs = acc.1.txs := by
  unfold applyUndo
  split <;> simp

theorem foldl_applyUndo_fields (log : List Undo) (acc : State × Nat) :
    (log.foldl applyUndo acc).1.locks = acc.1.locks ∧ (log.foldl applyUndo acc).1.txLocks = acc.1.txLocks ∧
    (log.foldl applyUndo acc).1.now = acc.1.now ∧ (log.foldl applyUndo acc).1.lockTimeout = acc.1.lockTimeout ∧
    (log.foldl applyUndo acc).1.nextTx = acc.1.nextTx ∧ (log.foldl applyUndo acc).1.txs = acc.1.txs := by
  induction log generalizing acc with
  | nil => simp
  | cons u rest ih =>
    have h := applyUndo_fields acc u
    have h2 := ih (applyUndo acc u)
    simp only [List.foldl_cons]
    refine ⟨?_, ?_, ?_, ?_, ?_, ?_⟩
    · rw [h2.1, h.1]
    · rw [h2.2.1, h.2.1]
    · rw [h2.2.2.1, h.2.2.1]
    · rw [h2.2.2.2.1, h.2.2.2.1]
    · rw [h2.2.2.2.2.1, h.2.2.2.2.1]
    · rw [h2.2.2.2.2.2, h.2.2.2.2.2]

/-! ## lock conflicts -/

theorem holder_some {s : State} {t i A : Nat} (h : holder s t i = some A) :
    ∃ l, s.locks t i = some l ∧ l.tx = A ∧ l.expired s.now s.lockTimeout = false := by
  unfold holder at h
  split at h
  · rename_i l hl
    split at h
    · cases h
    · rename_i he
      refine ⟨l, hl, ?_, by simpa using he⟩
      injection h
  · cases h

theorem lockBlocked_of_holder {s : State} {t i A B : Nat} {rows : List Nat}
    (hh : holder s t i = some A) (hAB : A ≠ B) (hi : i ∈ rows) : lockBlocked s B t rows = true := by
  obtain ⟨l, hl, hA, he⟩ := holder_some hh
  unfold lockBlocked
  rw [List.any_eq_true]
  refine ⟨i, hi, ?_⟩
  simp only [hl, he, hA]
  simp [hAB]

/-- when nothing blocks, every row is free, expired, or already ours -/
theorem not_lockBlocked {s : State} {tx t : Nat} {rows : List Nat} (h : lockBlocked s tx t rows = false) :
    ∀ i ∈ rows, holder s t i = none ∨ holder s t i = some tx := by
  intro i hi
  unfold lockBlocked at h
  rw [List.any_eq_false] at h
  have := h i hi
  unfold holder
  cases hl : s.locks t i with
  | none => simp
  | some l =>
    simp only [hl] at this ⊢
    cases he : l.expired s.now s.lockTimeout with
    | true => simp
    | false =>
      simp only [he] at this
      right
      simp only [Bool.false_eq_true, ↓reduceIte]
      simpa using this

/-! ## `Gone`: a transaction that left the manager never comes back -/

/-- the transaction id has been handed out and is no longer in the manager's map -/
def Gone (s : State) (tx : Nat) : Prop := s.txs tx = none ∧ tx < s.nextTx

theorem gate_of_gone {s : State} {tx : Nat} (h : Gone s tx) : gate s tx = some .txNotFound := by
  unfold gate; rw [h.1]

theorem gone_setTable {s : State} {tx : Nat} (h : Gone s tx) (t : Nat) (T : Table) : Gone (setTable s t T) tx := h

theorem gone_recordUndo {s : State} {tx : Nat} (h : Gone s tx) (a : Nat) (u : Undo) : Gone (recordUndo s a u) tx :=
  ⟨(recordUndo_txs_none s a u tx).2 h.1, by simpa using h.2⟩

theorem gone_begin {s : State} {tx : Nat} (h : Gone s tx) : Gone (begin s).1 tx := by
  unfold begin Gone
  simp only
  have : tx ≠ s.nextTx := Nat.ne_of_lt h.2
  simp [this, h.1]
  exact Nat.lt_succ_of_lt h.2

theorem gone_release {s : State} {tx : Nat} (h : Gone s tx) (a : Nat) : Gone (release s a) tx := h

theorem gone_setTx_none {s : State} {tx : Nat} (h : Gone s tx) (a : Nat) : Gone (setTx s a none) tx := by
  unfold Gone
  simp only [setTx_txs, setTx_nextTx]
  refine ⟨?_, h.2⟩
  split
  · rfl
  · exact h.1

theorem gone_commit {s : State} {tx : Nat} (h : Gone s tx) (a : Nat) : Gone (commit s a).1 tx := by
  unfold commit
  split
  · exact h
  · exact gone_setTx_none (gone_release h a) a

theorem gone_foldl_applyUndo {s : State} {tx : Nat} (h : Gone s tx) (log : List Undo) (n : Nat) :
    Gone (log.foldl applyUndo (s, n)).1 tx := by
  have f := foldl_applyUndo_fields log (s, n)
  unfold Gone
  rw [f.2.2.2.2.2, f.2.2.2.2.1]
  exact h

theorem gone_rollback {s : State} {tx : Nat} (h : Gone s tx) (a : Nat) : Gone (rollback s a).1 tx := by
  unfold rollback
  split
  · exact h
  · simp only
    exact gone_setTx_none (gone_release (gone_foldl_applyUndo h _ 0) a) a

theorem gone_txInsert {s : State} {tx : Nat} (h : Gone s tx) (a t : Nat) (vals : List Int) :
    Gone (txInsert s a t vals).1 tx := by
  unfold txInsert
  split
  · exact h
  · split
    · exact h
    · split
      · exact h
      · exact gone_recordUndo (gone_setTable h _ _) _ _

theorem gone_updateRow {s : State} {tx : Nat} (h : Gone s tx) (a t : Nat) (upd : List (Nat × Int)) (i : Nat) :
    Gone (updateRow a t upd s i) tx := by
  unfold updateRow
  split
  · exact h
  · split
    · exact h
    · exact gone_setTable (gone_recordUndo h _ _) _ _

theorem gone_deleteRow {s : State} {tx : Nat} (h : Gone s tx) (a t : Nat) (i : Nat) :
    Gone (deleteRow a t s i) tx := by
  unfold deleteRow
  split
  · exact h
  · split
    · exact h
    · exact gone_setTable (gone_recordUndo h _ _) _ _

theorem gone_foldl {f : State → Nat → State} (hf : ∀ s i tx, Gone s tx → Gone (f s i) tx)
    (rows : List Nat) {s : State} {tx : Nat} (h : Gone s tx) : Gone (rows.foldl f s) tx := by
  induction rows generalizing s with
  | nil => exact h
  | cons i rest ih => exact ih (hf s i tx h)

theorem gone_lockAll {s : State} {tx : Nat} (h : Gone s tx) (a t : Nat) (rows : List Nat) :
    Gone (lockAll s a t rows) tx := h

theorem gone_txUpdate {s : State} {tx : Nat} (h : Gone s tx) (a t : Nat) (c : Cond) (upd : List (Nat × Int)) :
    Gone (txUpdate s a t c upd).1 tx := by
  unfold txUpdate
  dsimp only
  repeat' split
  all_goals first
    | exact h
    | exact gone_foldl (fun s i tx h => gone_updateRow h a t upd i) _ h
    | exact gone_foldl (fun s i tx h => gone_updateRow h a t upd i) _ (gone_lockAll h _ _ _)

theorem gone_txDelete {s : State} {tx : Nat} (h : Gone s tx) (a t : Nat) (c : Cond) :
    Gone (txDelete s a t c).1 tx := by
  unfold txDelete
  dsimp only
  repeat' split
  all_goals first
    | exact h
    | exact gone_foldl (fun s i tx h => gone_deleteRow h a t i) _ h
    | exact gone_foldl (fun s i tx h => gone_deleteRow h a t i) _ (gone_lockAll h _ _ _)

theorem gone_finishAuto {p : State × Res} {tx : Nat} (h : Gone p.1 tx) (a : Nat) : Gone (finishAuto p a).1 tx := by
  unfold finishAuto
  split
  · exact gone_rollback h a
  · exact gone_commit h a

theorem gone_insert {s : State} {tx : Nat} (h : Gone s tx) (t : Nat) (vals : List Int) : Gone (insert s t vals).1 tx := by
  unfold insert
  repeat' split
  all_goals first
    | exact h
    | exact gone_finishAuto (gone_txInsert (gone_begin h) _ _ _) _

theorem gone_update {s : State} {tx : Nat} (h : Gone s tx) (t : Nat) (c : Cond) (upd : List (Nat × Int)) :
    Gone (update s t c upd).1 tx := by
  unfold update
  repeat' split
  all_goals first
    | exact h
    | exact gone_finishAuto (gone_txUpdate (gone_begin h) _ _ _ _) _

theorem gone_delete {s : State} {tx : Nat} (h : Gone s tx) (t : Nat) (c : Cond) : Gone (delete s t c).1 tx := by
  unfold delete
  repeat' split
  all_goals first
    | exact h
    | exact gone_finishAuto (gone_txDelete (gone_begin h) _ _ _) _

theorem foldl_release_fields (ids : List Nat) (s : State) :
    (ids.foldl release s).txs = s.txs ∧ (ids.foldl release s).nextTx = s.nextTx := by
  induction ids generalizing s with
  | nil => simp
  | cons i rest ih =>
    simp only [List.foldl_cons]
    have := ih (release s i)
    simpa using this

theorem gone_cleanupTxs {s : State} {tx : Nat} (h : Gone s tx) : Gone (cleanupTxs s).1 tx := by
  unfold cleanupTxs Gone
  simp only
  have f := foldl_release_fields ((List.range s.nextTx).filter (txExpired s)) s
  refine ⟨?_, ?_⟩
  · split
    · rfl
    · rw [f.1]; exact h.1
  · rw [f.2]; exact h.2

theorem gone_step {s : State} {tx : Nat} (h : Gone s tx) (op : Op) : Gone (step s op).1 tx := by
  cases op with
  | begin => exact gone_begin h
  | commit a => exact gone_commit h a
  | rollback a => exact gone_rollback h a
  | txInsert a t v => exact gone_txInsert h a t v
  | txUpdate a t c u => exact gone_txUpdate h a t c u
  | txDelete a t c => exact gone_txDelete h a t c
  | insert t v => exact gone_insert h t v
  | update t c u => exact gone_update h t c u
  | delete t c => exact gone_delete h t c
  | createTable n => exact h
  | createIndex t c =>
    simp only [step]; unfold createIndex
    split
    · exact h
    · split
      · exact h
      · split <;> exact h
  | createBtree t c =>
    simp only [step]; unfold createBtree
    split
    · exact h
    · split
      · exact h
      · split <;> exact h
  | dropIndex t c =>
    simp only [step]; unfold dropIndex
    split
    · exact h
    · split <;> exact h
  | dropBtree t c =>
    simp only [step]; unfold dropBtree
    split
    · exact h
    · split <;> exact h
  | tick d => exact h
  | cleanupLocks => exact h
  | cleanupTxs => exact gone_cleanupTxs h

theorem gone_run {s : State} {tx : Nat} (h : Gone s tx) (ops : List Op) : Gone (run s ops) tx := by
  induction ops generalizing s with
  | nil => exact h
  | cons op rest ih => exact ih (gone_step h op)

end Neumann.RelTx
