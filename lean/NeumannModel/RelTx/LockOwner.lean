import NeumannModel.RelTx.Restore
/-
  C09 — who may remove a row lock.  The lock table of the model is the code's: `locks` (row ↦
  holder + acquisition time) and `txLocks` (per transaction: the keys it ever pushed; `try_lock`
  leaves a key there when ANOTHER transaction takes the expired lock over).  `release tx` walks
  `txLocks tx` and removes a key only if the lock stored under it still belongs to `tx`.

  Here: an unexpired lock of transaction `B` survives EVERY statement of the model except `B`'s own
  end (commit / rollback of `B`, `cleanup_expired` when `B` has timed out) and the passing of time
  (`step_heldAt`), hence every script that contains neither (`holder_run_of_spares`).  No
  reachability hypothesis: this holds in every state.
-/
namespace Neumann.RelTx

/-- the lock table has an entry of `B` on row `(t,i)` that is unexpired on the clock `(now, to)` -/
def HeldAt (locks : Nat → Nat → Option Lock) (now to : Nat) (t i B : Nat) : Prop :=
  ∃ l, locks t i = some l ∧ l.tx = B ∧ l.expired now to = false

theorem heldAt_of_holder {s : State} {t i B : Nat} (h : holder s t i = some B) :
    HeldAt s.locks s.now s.lockTimeout t i B := holder_some h

theorem holder_of_heldAt {s : State} {t i B : Nat} (h : HeldAt s.locks s.now s.lockTimeout t i B) :
    holder s t i = some B := by
  obtain ⟨l, hl, hB, he⟩ := h
  simp [holder, hl, he, hB]

/-- `op` ends transaction `B` when executed in state `s` -/
def endsTx (s : State) (op : Op) (B : Nat) : Bool :=
  match op with
  | .commit A => A == B
  | .rollback A => A == B
  | .cleanupTxs => txExpired s B
  | _ => false

/-- per statement: it does not end `B`, and if it is a `tick`, the lock on `(t,i)` is still within
    its timeout afterwards -/
def stepSpares (s : State) (B t i : Nat) (op : Op) : Bool :=
  !endsTx s op B &&
    match op with
    | .tick d => !lockExpiredAt (tick s d) t i
    | _ => true

/-- a script during which transaction `B` is not ended and its lock on `(t,i)` does not time out -/
def spares (s : State) (B t i : Nat) : List Op → Bool
  | [] => true
  | op :: ops => stepSpares s B t i op && spares (step s op).1 B t i ops

/-! ## ends of OTHER transactions -/

theorem release_heldAt {s : State} {now to t i B : Nat} (h : HeldAt s.locks now to t i B) {A : Nat} (hne : B ≠ A) :
    HeldAt (release s A).locks now to t i B := by
  obtain ⟨l, hl, hB, he⟩ := h
  exact ⟨l, release_keeps hl (by rw [hB]; exact hne), hB, he⟩

theorem commit_locks_foreign {s : State} {t i : Nat} {l : Lock} (hl : s.locks t i = some l) {A : Nat} (hne : l.tx ≠ A) :
    (commit s A).1.locks t i = some l := by
  unfold commit
  split
  · exact hl
  · simp only [setTx_locks]; exact release_keeps hl hne

theorem rollback_locks_foreign {s : State} {t i : Nat} {l : Lock} (hl : s.locks t i = some l) {A : Nat} (hne : l.tx ≠ A) :
    (rollback s A).1.locks t i = some l := by
  unfold rollback
  split
  · exact hl
  · simp only [setTx_locks]
    apply release_keeps _ hne
    rw [(foldl_applyUndo_fields _ (s, 0)).1]; exact hl

theorem cleanupTxs_locks_foreign {s : State} {t i : Nat} {l : Lock} (hl : s.locks t i = some l)
    (hne : txExpired s l.tx = false) : (cleanupTxs s).1.locks t i = some l := by
  show (List.foldl release s ((List.range s.nextTx).filter (txExpired s))).locks t i = some l
  apply foldl_release_keeps _ s hl
  rw [List.mem_filter]
  intro hc; rw [hne] at hc; exact absurd hc.2 (by simp)

/-- the key list of another transaction is not touched by `release` -/
theorem release_txLocks_other (s : State) {A B : Nat} (hne : B ≠ A) : (release s A).txLocks B = s.txLocks B := by
  simp [release, hne]

theorem commit_txLocks_other (s : State) {A B : Nat} (hne : B ≠ A) : (commit s A).1.txLocks B = s.txLocks B := by
  unfold commit
  split
  · rfl
  · simp only [setTx_txLocks]; exact release_txLocks_other s hne

theorem rollback_txLocks_other (s : State) {A B : Nat} (hne : B ≠ A) : (rollback s A).1.txLocks B = s.txLocks B := by
  unfold rollback
  split
  · rfl
  · simp only [setTx_txLocks]
    rw [release_txLocks_other _ hne, (foldl_applyUndo_fields _ (s, 0)).2.1]

theorem foldl_release_txLocks_other (ids : List Nat) (s : State) {B : Nat} (hn : B ∉ ids) :
    (ids.foldl release s).txLocks B = s.txLocks B := by
  induction ids generalizing s with
  | nil => rfl
  | cons k rest ih =>
    simp only [List.foldl_cons]
    simp only [List.mem_cons, not_or] at hn
    rw [ih (release s k) hn.2, release_txLocks_other s hn.1]

theorem cleanupTxs_txLocks_other (s : State) {B : Nat} (hne : txExpired s B = false) :
    (cleanupTxs s).1.txLocks B = s.txLocks B := by
  show (List.foldl release s ((List.range s.nextTx).filter (txExpired s))).txLocks B = s.txLocks B
  apply foldl_release_txLocks_other
  rw [List.mem_filter]
  intro hc; rw [hne] at hc; exact absurd hc.2 (by simp)

/-- the clock is not moved by the end of a transaction -/
theorem commit_clock (s : State) (A : Nat) :
    (commit s A).1.now = s.now ∧ (commit s A).1.lockTimeout = s.lockTimeout ∧ (commit s A).1.nextTx = s.nextTx := by
  unfold commit
  split <;> exact ⟨rfl, rfl, rfl⟩

theorem rollback_clock (s : State) (A : Nat) :
    (rollback s A).1.now = s.now ∧ (rollback s A).1.lockTimeout = s.lockTimeout ∧ (rollback s A).1.nextTx = s.nextTx := by
  unfold rollback
  split
  · exact ⟨rfl, rfl, rfl⟩
  · have f := foldl_applyUndo_fields ((match s.txs A with | some x => x.undo | none => []).reverse) (s, 0)
    exact ⟨f.2.2.1, f.2.2.2.1, f.2.2.2.2.1⟩

theorem cleanupTxs_clock (s : State) :
    (cleanupTxs s).1.now = s.now ∧ (cleanupTxs s).1.lockTimeout = s.lockTimeout ∧ (cleanupTxs s).1.nextTx = s.nextTx := by
  have f1 := foldl_release_fields ((List.range s.nextTx).filter (txExpired s)) s
  have f2 := foldl_release_rest ((List.range s.nextTx).filter (txExpired s)) s
  exact ⟨f2.2.1, f2.2.2.1, f1.2⟩

theorem holder_eq_of_lock {s s' : State} {t i : Nat} {l : Lock} (hl : s.locks t i = some l) (hl' : s'.locks t i = some l)
    (hn : s'.now = s.now) (ht : s'.lockTimeout = s.lockTimeout) : holder s' t i = holder s t i := by
  simp only [holder, hl, hl', hn, ht]

theorem commit_heldAt {s : State} {now to t i B : Nat} (h : HeldAt s.locks now to t i B) {A : Nat} (hne : B ≠ A) :
    HeldAt (commit s A).1.locks now to t i B := by
  obtain ⟨l, hl, hB, he⟩ := h
  exact ⟨l, commit_locks_foreign hl (by rw [hB]; exact hne), hB, he⟩

theorem rollback_heldAt {s : State} {now to t i B : Nat} (h : HeldAt s.locks now to t i B) {A : Nat} (hne : B ≠ A) :
    HeldAt (rollback s A).1.locks now to t i B := by
  obtain ⟨l, hl, hB, he⟩ := h
  exact ⟨l, rollback_locks_foreign hl (by rw [hB]; exact hne), hB, he⟩

theorem cleanupTxs_heldAt {s : State} {now to t i B : Nat} (h : HeldAt s.locks now to t i B)
    (hne : txExpired s B = false) : HeldAt (cleanupTxs s).1.locks now to t i B := by
  obtain ⟨l, hl, hB, he⟩ := h
  exact ⟨l, cleanupTxs_locks_foreign hl (by rw [hB]; exact hne), hB, he⟩

theorem finishAuto_heldAt {p : State × Res} {now to t i B : Nat} (h : HeldAt p.1.locks now to t i B) {I : Nat}
    (hne : B ≠ I) : HeldAt (finishAuto p I).1.locks now to t i B := by
  unfold finishAuto
  split
  · exact rollback_heldAt h hne
  · exact commit_heldAt h hne

/-! ## statements: a lock can be overwritten only by `lockAll`, and `lockAll` runs only when
    nothing on the rows is held, unexpired, by somebody else -/

theorem lockAll_heldAt {s : State} {t i B : Nat} (h : HeldAt s.locks s.now s.lockTimeout t i B)
    {A t' : Nat} {rows : List Nat} (hown : t = t' ∧ i ∈ rows → A = B) :
    HeldAt (lockAll s A t' rows).locks s.now s.lockTimeout t i B := by
  by_cases hc : t = t' ∧ i ∈ rows
  · refine ⟨{ tx := A, acquiredAt := s.now }, ?_, hown hc, ?_⟩
    · simp only [lockAll, hc, and_self, ↓reduceIte]
    · simp [Lock.expired]
  · obtain ⟨l, hl, hB, he⟩ := h
    refine ⟨l, ?_, hB, he⟩
    simp only [lockAll, hc, ↓reduceIte]
    exact hl

/-- a holder other than `A` on one of the rows blocks `A` -/
theorem owner_of_not_blocked {s : State} {t i B A : Nat} {rows : List Nat} (hh : holder s t i = some B)
    (hb : lockBlocked s A t rows = false) (hi : i ∈ rows) : A = B := by
  rcases not_lockBlocked hb i hi with h | h
  · rw [hh] at h; cases h
  · rw [hh] at h; injection h with h; exact h.symm

theorem txUpdate_heldAt {s : State} {t i B : Nat} (hh : holder s t i = some B) (A t' : Nat) (c : Cond)
    (u : List (Nat × Val)) : HeldAt (txUpdate s A t' c u).1.locks s.now s.lockTimeout t i B := by
  have h0 := heldAt_of_holder hh
  unfold txUpdate
  split
  · exact h0
  · split
    · exact h0
    · rename_i T hT
      split
      · exact h0
      · dsimp only
        split
        · exact h0
        · rename_i hb
          rw [(foldl_updateRow_locks A t' u _ _).1]
          split
          · exact h0
          · refine lockAll_heldAt h0 ?_
            rintro ⟨ht, hi⟩
            subst ht
            exact owner_of_not_blocked hh (by simpa using hb) hi

theorem txDelete_heldAt {s : State} {t i B : Nat} (hh : holder s t i = some B) (A t' : Nat) (c : Cond) :
    HeldAt (txDelete s A t' c).1.locks s.now s.lockTimeout t i B := by
  have h0 := heldAt_of_holder hh
  unfold txDelete
  split
  · exact h0
  · split
    · exact h0
    · rename_i T hT
      dsimp only
      split
      · exact h0
      · rename_i hb
        rw [(foldl_deleteRow_locks A t' _ _).1]
        split
        · exact h0
        · refine lockAll_heldAt h0 ?_
          rintro ⟨ht, hi⟩
          subst ht
          exact owner_of_not_blocked hh (by simpa using hb) hi

theorem txInsert_heldAt {s : State} {t i B : Nat} (hh : holder s t i = some B) (A t' : Nat) (v : List Val) :
    HeldAt (txInsert s A t' v).1.locks s.now s.lockTimeout t i B := by
  have h0 := heldAt_of_holder hh
  unfold txInsert
  split
  · exact h0
  · split
    · exact h0
    · rename_i T hT
      split
      · exact h0
      · simp only [recordUndo_locks, setTable_locks]
        split
        · exact h0
        · rename_i hb
          refine lockAll_heldAt h0 ?_
          rintro ⟨ht, hi⟩
          subst ht
          exact owner_of_not_blocked hh (by simpa using hb) hi

theorem cleanupLocks_heldAt {s : State} {t i B : Nat} (hh : holder s t i = some B) :
    HeldAt (cleanupLocks s).1.locks s.now s.lockTimeout t i B := by
  obtain ⟨l, hl, hB, he⟩ := heldAt_of_holder hh
  refine ⟨l, ?_, hB, he⟩
  simp only [cleanupLocks, lockExpiredAt, hl, he, Bool.false_eq_true, ↓reduceIte]

/-! ## every statement -/

/-- an unexpired lock of `B` is still `B`'s (and unexpired on the same clock) after ANY statement that
    does not end `B` — in every state -/
theorem step_heldAt {s : State} {t i B : Nat} (hh : holder s t i = some B) (hB : B < s.nextTx) (op : Op)
    (he : endsTx s op B = false) : HeldAt (step s op).1.locks s.now s.lockTimeout t i B := by
  have h0 := heldAt_of_holder hh
  have hneI : B ≠ (begin s).2 := by simp only [begin]; omega
  have hhb : holder (begin s).1 t i = some B := hh
  cases op with
  | begin => exact h0
  | commit A => exact commit_heldAt h0 (by intro e; simp [endsTx, e] at he)
  | rollback A => exact rollback_heldAt h0 (by intro e; simp [endsTx, e] at he)
  | txInsert A t' v => exact txInsert_heldAt hh A t' v
  | txUpdate A t' c u => exact txUpdate_heldAt hh A t' c u
  | txDelete A t' c => exact txDelete_heldAt hh A t' c
  | insert t' v =>
    simp only [step]; unfold insert
    split
    · exact h0
    · split
      · exact h0
      · exact finishAuto_heldAt (txInsert_heldAt hhb _ t' v) hneI
  | update t' c u =>
    simp only [step]; unfold update
    split
    · exact h0
    · split
      · exact h0
      · exact finishAuto_heldAt (txUpdate_heldAt hhb _ t' c u) hneI
  | delete t' c =>
    simp only [step]; unfold delete
    split
    · exact h0
    · exact finishAuto_heldAt (txDelete_heldAt hhb _ t' c) hneI
  | batchInsert t' rows =>
    rcases batchInsert_form s t' rows with hf | ⟨T, _, _, hf⟩
    · show HeldAt (batchInsert s t' rows).1.locks _ _ _ _ _; rw [hf]; exact h0
    · show HeldAt (batchInsert s t' rows).1.locks _ _ _ _ _; rw [hf]; exact h0
  | createTable n nl => exact h0
  | createIndex t' c =>
    simp only [step]; unfold createIndex
    repeat' split
    all_goals exact h0
  | createBtree t' c =>
    simp only [step]; unfold createBtree
    repeat' split
    all_goals exact h0
  | dropIndex t' c =>
    simp only [step]; unfold dropIndex
    repeat' split
    all_goals exact h0
  | dropBtree t' c =>
    simp only [step]; unfold dropBtree
    repeat' split
    all_goals exact h0
  | tick d => exact h0
  | cleanupLocks => exact cleanupLocks_heldAt hh
  | cleanupTxs => exact cleanupTxs_heldAt h0 (by simpa [endsTx] using he)

/-! ## the clock and the id counter -/

/-- what a statement does to the clock, the timeout and the id counter -/
structure Clk (s s' : State) : Prop where
  now : s'.now = s.now
  lt : s'.lockTimeout = s.lockTimeout
  next : s.nextTx ≤ s'.nextTx

theorem Clk.refl (s : State) : Clk s s := ⟨rfl, rfl, Nat.le_refl _⟩

theorem Clk.trans {s s1 s2 : State} (h1 : Clk s s1) (h2 : Clk s1 s2) : Clk s s2 :=
  ⟨h2.now.trans h1.now, h2.lt.trans h1.lt, Nat.le_trans h1.next h2.next⟩

theorem clk_commit (s : State) (A : Nat) : Clk s (commit s A).1 :=
  ⟨(commit_clock s A).1, (commit_clock s A).2.1, Nat.le_of_eq (commit_clock s A).2.2.symm⟩

theorem clk_rollback (s : State) (A : Nat) : Clk s (rollback s A).1 :=
  ⟨(rollback_clock s A).1, (rollback_clock s A).2.1, Nat.le_of_eq (rollback_clock s A).2.2.symm⟩

theorem clk_finishAuto (p : State × Res) (I : Nat) : Clk p.1 (finishAuto p I).1 := by
  unfold finishAuto
  split
  · exact clk_rollback _ _
  · exact clk_commit _ _

theorem clk_begin (s : State) : Clk s (begin s).1 := ⟨rfl, rfl, Nat.le_succ _⟩

theorem clk_txInsert (s : State) (A t : Nat) (v : List Val) : Clk s (txInsert s A t v).1 := by
  unfold txInsert
  repeat' split
  all_goals first
    | exact Clk.refl s
    | exact ⟨by simp only [recordUndo_now, setTable_now]; split <;> rfl,
             by simp only [recordUndo_lockTimeout, setTable_lockTimeout]; split <;> rfl,
             by simp only [recordUndo_nextTx, setTable_nextTx]; split <;> exact Nat.le_refl _⟩

theorem clk_txUpdate (s : State) (A t : Nat) (c : Cond) (u : List (Nat × Val)) : Clk s (txUpdate s A t c u).1 := by
  unfold txUpdate
  dsimp only
  repeat' split
  all_goals first
    | exact Clk.refl s
    | exact ⟨(foldl_updateRow_locks A t u _ _).2.2.1, (foldl_updateRow_locks A t u _ _).2.2.2.1,
             by rw [(foldl_updateRow_locks A t u _ _).2.2.2.2]; exact Nat.le_refl _⟩

theorem clk_txDelete (s : State) (A t : Nat) (c : Cond) : Clk s (txDelete s A t c).1 := by
  unfold txDelete
  dsimp only
  repeat' split
  all_goals first
    | exact Clk.refl s
    | exact ⟨(foldl_deleteRow_locks A t _ _).2.2.1, (foldl_deleteRow_locks A t _ _).2.2.2.1,
             by rw [(foldl_deleteRow_locks A t _ _).2.2.2.2]; exact Nat.le_refl _⟩

/-- every statement but `tick` leaves the clock where it is; the timeout never changes; ids only grow -/
theorem clk_step (s : State) (op : Op) (hnt : ∀ d, op ≠ .tick d) : Clk s (step s op).1 := by
  cases op with
  | begin => exact clk_begin s
  | commit A => exact clk_commit s A
  | rollback A => exact clk_rollback s A
  | txInsert A t v => exact clk_txInsert s A t v
  | txUpdate A t c u => exact clk_txUpdate s A t c u
  | txDelete A t c => exact clk_txDelete s A t c
  | insert t v =>
    simp only [step]; unfold insert
    repeat' split
    all_goals first
      | exact Clk.refl s
      | exact (clk_begin s).trans ((clk_txInsert _ _ _ _).trans (clk_finishAuto _ _))
  | update t c u =>
    simp only [step]; unfold update
    repeat' split
    all_goals first
      | exact Clk.refl s
      | exact (clk_begin s).trans ((clk_txUpdate _ _ _ _ _).trans (clk_finishAuto _ _))
  | delete t c =>
    simp only [step]; unfold delete
    repeat' split
    all_goals first
      | exact Clk.refl s
      | exact (clk_begin s).trans ((clk_txDelete _ _ _ _).trans (clk_finishAuto _ _))
  | batchInsert t rows =>
    rcases batchInsert_form s t rows with hf | ⟨T, _, _, hf⟩
    · show Clk s (batchInsert s t rows).1; rw [hf]; exact Clk.refl s
    · show Clk s (batchInsert s t rows).1; rw [hf]; exact ⟨rfl, rfl, Nat.le_refl _⟩
  | createTable n nl => exact ⟨rfl, rfl, Nat.le_refl _⟩
  | createIndex t c =>
    simp only [step]; unfold createIndex
    repeat' split
    all_goals exact ⟨rfl, rfl, Nat.le_refl _⟩
  | createBtree t c =>
    simp only [step]; unfold createBtree
    repeat' split
    all_goals exact ⟨rfl, rfl, Nat.le_refl _⟩
  | dropIndex t c =>
    simp only [step]; unfold dropIndex
    repeat' split
    all_goals exact ⟨rfl, rfl, Nat.le_refl _⟩
  | dropBtree t c =>
    simp only [step]; unfold dropBtree
    repeat' split
    all_goals exact ⟨rfl, rfl, Nat.le_refl _⟩
  | tick d => exact absurd rfl (hnt d)
  | cleanupLocks => exact ⟨rfl, rfl, Nat.le_refl _⟩
  | cleanupTxs =>
    exact ⟨(cleanupTxs_clock s).1, (cleanupTxs_clock s).2.1, Nat.le_of_eq (cleanupTxs_clock s).2.2.symm⟩

/-! ## every script -/

/-- one statement that spares `B`'s lock keeps `B` the holder -/
theorem holder_step_of_spares {s : State} {t i B : Nat} (hh : holder s t i = some B) (hB : B < s.nextTx) (op : Op)
    (hsp : stepSpares s B t i op = true) :
    holder (step s op).1 t i = some B ∧ B < (step s op).1.nextTx := by
  simp only [stepSpares, Bool.and_eq_true, Bool.not_eq_eq_eq_not, Bool.not_true] at hsp
  by_cases htick : ∃ d, op = .tick d
  · obtain ⟨d, rfl⟩ := htick
    obtain ⟨l, hl, hlB, _⟩ := heldAt_of_holder hh
    have hx : lockExpiredAt (tick s d) t i = false := by simpa using hsp.2
    refine ⟨?_, hB⟩
    have hl' : (tick s d).locks t i = some l := hl
    simp only [lockExpiredAt, hl'] at hx
    show holder (tick s d) t i = some B
    simp [holder, hl', hx, hlB]
  · have hnt : ∀ d, op ≠ .tick d := fun d e => htick ⟨d, e⟩
    have c := clk_step s op hnt
    have h1 := step_heldAt hh hB op hsp.1
    rw [← c.now, ← c.lt] at h1
    exact ⟨holder_of_heldAt h1, Nat.lt_of_lt_of_le hB c.next⟩

/-- `B` holds an unexpired lock on `(t,i)`; then after ANY script that does not end `B` and during which
    that lock does not time out — statements of any other transactions including their commits,
    rollbacks and expired-transaction cleanup, non-transactional statements, DDL, sweeps, ticks —
    `B` still holds it -/
theorem holder_run_of_spares {s : State} {t i B : Nat} (hh : holder s t i = some B) (hB : B < s.nextTx) (ops : List Op)
    (hsp : spares s B t i ops = true) : holder (run s ops) t i = some B := by
  induction ops generalizing s with
  | nil => exact hh
  | cons op rest ih =>
    simp only [spares, Bool.and_eq_true] at hsp
    obtain ⟨h1, h2⟩ := holder_step_of_spares hh hB op hsp.1
    exact ih h1 h2 hsp.2

end Neumann.RelTx

/-! ## scripts of the lock-takeover witnesses / examples of `Props.lean` -/
namespace Neumann.RelTx.Props
open Neumann.RelTx

/-- lock timeout 30 s, transaction timeout 40 s (so that a transaction can time out while a lock
    taken 30 s after its start is still fresh) -/
def s1 : State := init 30000 40000

/-- A (= 1) updates row 0 and idles past the lock timeout; B (= 2) begins and takes the row over -/
def takeover : List Op := setupIdx ++ [.begin, .txUpdate 1 0 (.idEq 0) [(0, 4)], .tick 30001, .begin,
  .txUpdate 2 0 (.idEq 0) [(0, 5)]]

/-- what happens after the old holder has ended: C (= 3) tries to update and to delete the row, then B
    rolls back -/
def afterEnd : List Op := [.begin, .txUpdate 3 0 (.idEq 0) [(0, 6)], .txDelete 3 0 (.idEq 0), .rollback 2]

end Neumann.RelTx.Props
