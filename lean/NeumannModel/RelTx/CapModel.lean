import NeumannModel.RelTx.Model
/-
  C09 — the steps INSIDE one row of `tx_insert` / `tx_update` / `tx_delete`, and the one of them that can
  fail in an in-memory engine: `btree_index_add` at the b-tree entry cap
  (/repo/relational_engine/src/lib.rs: RelationalConfig::max_btree_entries / with_max_btree_entries,
   btree_entry_count, btree_index_add, btree_index_remove, tx_insert, tx_update, tx_delete, apply_undo_entry,
   rollback, insert, update, delete_rows, create_btree_index, batch_insert).

  `Model.lean` treats a statement as one infallible step.  The code runs, per matched row, a sequence of
  store operations each of which returns with `?`; a statement that fails part-way returns its error and
  leaves what the earlier steps did.  This file is the model of exactly that, AS THE CODE IS NOW:

    * the cap: every in-memory b-tree of the engine (one per `(table, column)` with a b-tree index) maps a
      key to an id list; `btree_entry_count` counts the keys of ALL trees of the engine (`+1` when
      `btree_index_add` creates a key, `-1` when `btree_index_remove` empties one, `-len` when a tree is
      dropped).  `btree_index_add` of a key the tree does not have yet fails with `ResultTooLarge` when that
      count has reached `max_btree_entries` — BEFORE it touches the tree or the store — and is unconditional
      for a key that exists.  The model computes the count from the trees (`keyCount` of the table at hand
      plus `otherKeys` = the keys of every other table; a statement only ever changes the trees of its own
      table), which is the counter's value as long as the counter is exact;
    * `tx_update`, per matched row (in ascending id order, all row locks already taken):
        1. `record_undo(UpdatedRow { old_values, index_changes })`        — FIRST
        2. per hash-indexed column of the SET list: `index_remove(old)`, `index_add(new)`     (cannot fail)
        3. per b-tree-indexed column of the SET list: `btree_index_remove(old)` (cannot fail),
           `btree_index_add(new)` — `ResultTooLarge` at the cap: the statement returns here; the undo entry,
           every hash move of the row, the b-tree moves of the earlier columns and the REMOVAL of this
           column's old entry have taken effect, the slab row is untouched, later rows are not reached
        4. `slab.update_row`
      (`updateRowC`, `txUpdateC`).  The indexed-column lists come out of a `HashSet`: which of two b-tree
      columns is moved first is not determined by the code; the model takes them in list order and the
      streams configure a cap only for tables with one b-tree column;
    * `tx_delete`, per matched row: `record_undo(DeletedRow)` FIRST, then `index_remove` per hash column,
      `btree_index_remove` per b-tree column, `slab.delete` — none of which can fail in memory (a removal
      never consults the cap), so `txDeleteC` is `Model.txDelete`;
    * `tx_insert`: `slab.insert`, `try_lock` of the new row, `index_add` per hash column, `btree_index_add`
      per b-tree column (`ResultTooLarge` at the cap), and only THEN `record_undo(InsertedRow)` — a failed
      `tx_insert` leaves the row alive in the slab, locked, present in the hash indexes and in the b-tree
      indexes of the earlier columns, and NO undo entry: no rollback removes it (`txInsertC`; candidate
      finding `relational_engine.tx_insert/failed_insert_leaves_row`, see `Props6.lean`);
    * `apply_undo_entry` re-adds b-tree entries through the same `btree_index_add`: at the cap the re-add of
      a key that is gone fails, the error is collected and `rollback` answers `RollbackFailed` with the
      entry missing (`applyUndoTC`, `rollbackC`).  The change list of an `UpdatedRow` entry is replayed in
      the order it was recorded (NOT reversed);
    * `insert` / `update` / `delete_rows` = `begin; tx_op; commit | rollback` as before;
      `create_btree_index` and `batch_insert` add their entries through `btree_index_add` too and stop at
      the first `ResultTooLarge`, keeping what they did (`createBtreeC`, `batchInsertC`);
    * NOT the code, regression witness only: `updateRowCUndoLast` / `txUpdateCUndoLast` / `updateCUndoLast`
      — the per-row `record_undo` of `tx_update` moved AFTER the index and slab steps ("record what was
      actually changed, as tx_insert does"): a row that fails at step 3 has moved index entries and no
      undo entry;
    * NOT the code, the proposed repair of `tx_insert`: `txInsertCUndoFirst` records the undo entry right
      after `slab.insert`, before the first index step.

  Durable mode (where every store write can fail) is not modelled.
  Import-free (only the model), total, computable.
-/
namespace Neumann.RelTx

/-! ## the cap -/

/-- the key an entry is filed under in the in-memory tree of its column: `(column, key value)` -/
def ekey (e : Entry) : Nat × Val := (e.1, e.2.1)

/-- `btree.contains_key(&ordered_key)` in the tree of that column -/
def hasKey (es : List Entry) (k : Nat × Val) : Bool := es.any fun e => ekey e == k

def dedupKeys : List (Nat × Val) → List (Nat × Val)
  | [] => []
  | k :: ks => if k ∈ ks then dedupKeys ks else k :: dedupKeys ks

/-- number of keys of the in-memory trees of one table -/
def keyCount (es : List Entry) : Nat := (dedupKeys (es.map ekey)).length

def tableKeys (s : State) (t : Nat) : Nat :=
  match s.tables t with
  | some T => keyCount T.btreeE
  | none => 0

/-- keys in the trees of every table but `t` -/
def otherKeys (s : State) (t : Nat) : Nat :=
  (((List.range s.ntables).filter (· ≠ t)).map (tableKeys s)).sum

/-- `btree_entry_count` -/
def btCount (s : State) : Nat := ((List.range s.ntables).map (tableKeys s)).sum

/-- `btree_index_add` under `max_btree_entries = cap` when the other tables hold `other` keys:
    `none` = `ResultTooLarge` (nothing touched) -/
def btAddC (cap other : Nat) (e : Entry) (es : List Entry) : Option (List Entry) :=
  if !hasKey es (ekey e) && decide (cap ≤ other + keyCount es) then none else some (idxAdd e es)

/-- result of a statement under a cap -/
inductive ResC where
  | res (r : Res)
  | tooLarge                   -- `ResultTooLarge { operation: "btree_index_add", .. }`
deriving DecidableEq, Repr

/-! ## tx_update -/

/-- step 3 of a row of `tx_update`: the b-tree columns of the SET list, in list order; the flag is
    false when `btree_index_add` refused (the old entry of that column is already gone) -/
def btMoves (cap other : Nat) (upd : List (Nat × Val)) (vals : List Val) (i : Nat) :
    List Nat → List Entry → List Entry × Bool
  | [], es => (es, true)
  | c :: cs, es =>
    match updGet upd c with
    | none => btMoves cap other upd vals i cs es
    | some n =>
      match btAddC cap other (c, n, i) (idxRemove (c, val vals c, i) es) with
      | none => (idxRemove (c, val vals c, i) es, false)
      | some es' => btMoves cap other upd vals i cs es'

/-- step 2: the hash columns of the SET list (cannot fail) -/
def hashMoves (upd : List (Nat × Val)) (vals : List Val) (i : Nat) (on : List Nat) (es : List Entry) : List Entry :=
  on.foldl (fun es c =>
    match updGet upd c with
    | some n => idxAdd (c, n, i) (idxRemove (c, val vals c, i) es)
    | none => es) es

/-- the table a row of `tx_update` leaves, and whether the row was completed -/
def updateRowT (cap other : Nat) (upd : List (Nat × Val)) (T : Table) (i : Nat) (r : Row) : Table × Bool :=
  let hashE := hashMoves upd r.vals i T.hashOn T.hashE
  let bt := btMoves cap other upd r.vals i T.btreeOn T.btreeE
  if bt.2 then
    ({ T with hashE := hashE, btreeE := bt.1, rows := T.rows.set i { r with vals := applyUpd upd r.vals } }, true)
  else
    ({ T with hashE := hashE, btreeE := bt.1 }, false)

/-- per-row body of `tx_update`: the undo entry is recorded BEFORE the first modification -/
def updateRowC (cap tx t : Nat) (upd : List (Nat × Val)) (s : State) (i : Nat) : State × Bool :=
  match s.tables t with
  | none => (s, true)
  | some T =>
    match T.rows[i]? with
    | none => (s, true)
    | some r =>
      let chg := (T.hashOn ++ T.btreeOn).filterMap fun c =>
        match updGet upd c with | some n => some (c, val r.vals c, n) | none => none
      let s1 := recordUndo s tx (.updated t i r.vals chg)
      let p := updateRowT cap (otherKeys s t) upd T i r
      (setTable s1 t p.1, p.2)

/-- `for row in matching_rows { … ? … }`: stop at the first row that fails -/
def foldRowsC (f : State → Nat → State × Bool) : List Nat → State → State × Bool
  | [], s => (s, true)
  | i :: is, s =>
    match f s i with
    | (s', true) => foldRowsC f is s'
    | (s', false) => (s', false)

def txUpdateC (cap : Nat) (s : State) (tx t : Nat) (cond : Cond) (upd : List (Nat × Val)) : State × ResC :=
  match gate s tx with
  | some e => (s, .res (.err e))
  | none =>
    match s.tables t with
    | none => (s, .res (.err .tableNotFound))
    | some T =>
      if updBad T upd then (s, .res (.err (updErr T upd)))
      else
        let rows := matching T cond
        if lockBlocked s tx t rows then (s, .res (.err .lockConflict))
        else
          let s1 := if rows.isEmpty then s else lockAll s tx t rows
          let r := foldRowsC (updateRowC cap tx t upd) rows s1
          (r.1, if r.2 then .res (.okN rows.length) else .tooLarge)

/-! ## tx_delete: no step of a row can fail in memory -/

def txDeleteC (s : State) (tx t : Nat) (cond : Cond) : State × ResC :=
  let r := txDelete s tx t cond
  (r.1, .res r.2)

/-! ## tx_insert -/

/-- the b-tree adds of an inserted row, column by column -/
def btAdds (cap other : Nat) (vals : List Val) (id : Nat) : List Nat → List Entry → List Entry × Bool
  | [], es => (es, true)
  | c :: cs, es =>
    match btAddC cap other (c, val vals c, id) es with
    | none => (es, false)
    | some es' => btAdds cap other vals id cs es'

/-- `tx_insert` as the code is: the undo entry is recorded LAST -/
def txInsertC (cap : Nat) (s : State) (tx t : Nat) (vals : List Val) : State × ResC :=
  match gate s tx with
  | some e => (s, .res (.err e))
  | none =>
    match s.tables t with
    | none => (s, .res (.err .tableNotFound))
    | some T =>
      if rowBad T vals then (s, .res (.err .badInput))
      else
        let id := T.rows.length
        let s1 := if lockBlocked s tx t [id] then s else lockAll s tx t [id]
        let hashE := T.hashOn.foldl (fun es c => idxAdd (c, val vals c, id) es) T.hashE
        let bt := btAdds cap (otherKeys s t) vals id T.btreeOn T.btreeE
        let idx := (T.hashOn ++ T.btreeOn).map fun c => (c, val vals c)
        let T' := { T with rows := T.rows ++ [{ alive := true, vals := vals }], hashE := hashE, btreeE := bt.1 }
        if bt.2 then (recordUndo (setTable s1 t T') tx (.inserted t id idx), .res (.okN id))
        else (setTable s1 t T', .tooLarge)

/-- NOT the code — the proposed repair: `record_undo(InsertedRow)` right after `slab.insert` -/
def txInsertCUndoFirst (cap : Nat) (s : State) (tx t : Nat) (vals : List Val) : State × ResC :=
  match gate s tx with
  | some e => (s, .res (.err e))
  | none =>
    match s.tables t with
    | none => (s, .res (.err .tableNotFound))
    | some T =>
      if rowBad T vals then (s, .res (.err .badInput))
      else
        let id := T.rows.length
        let s1 := if lockBlocked s tx t [id] then s else lockAll s tx t [id]
        let hashE := T.hashOn.foldl (fun es c => idxAdd (c, val vals c, id) es) T.hashE
        let bt := btAdds cap (otherKeys s t) vals id T.btreeOn T.btreeE
        let idx := (T.hashOn ++ T.btreeOn).map fun c => (c, val vals c)
        let T' := { T with rows := T.rows ++ [{ alive := true, vals := vals }], hashE := hashE, btreeE := bt.1 }
        (recordUndo (setTable s1 t T') tx (.inserted t id idx), if bt.2 then .res (.okN id) else .tooLarge)

/-! ## rollback -/

/-- one recorded change of an `UpdatedRow` entry on the b-tree entries: `btree_index_remove(new)`, then
    `btree_index_add(old)` — which may be refused at the cap (one collected error, entry missing) -/
def undoChangeC (cap other : Nat) (on : List Nat) (i : Nat) (acc : List Entry × Nat) (p : Nat × Val × Val) :
    List Entry × Nat :=
  if p.1 ∈ on then
    match btAddC cap other (p.1, p.2.1, i) (idxRemove (p.1, p.2.2, i) acc.1) with
    | some es => (es, acc.2)
    | none => (idxRemove (p.1, p.2.2, i) acc.1, acc.2 + 1)
  else acc

/-- one recorded entry of a `DeletedRow` on the b-tree entries: `btree_index_add`, refused at the cap -/
def undoReaddC (cap other : Nat) (on : List Nat) (i : Nat) (acc : List Entry × Nat) (p : Nat × Val) :
    List Entry × Nat :=
  if p.1 ∈ on then
    match btAddC cap other (p.1, p.2, i) acc.1 with
    | some es => (es, acc.2)
    | none => (acc.1, acc.2 + 1)
  else acc

/-- `apply_undo_entry` on one table under the cap; the table and the number of collected errors -/
def applyUndoTC (cap other : Nat) (T : Table) (u : Undo) : Table × Nat :=
  match u with
  | .inserted _ _ _ => applyUndoT T u
  | .updated _ i old chg =>
    let rr := restoreRow T i old
    let bt := chg.foldl (undoChangeC cap other T.btreeOn i) (T.btreeE, 0)
    ({ T with rows := rr.getD T.rows
              hashE := chg.foldl (undoChange T.hashOn i) T.hashE
              btreeE := bt.1 },
     (if rr.isSome then 0 else 1) + bt.2)
  | .deleted _ i old idx =>
    let rr := restoreDeletedRow T i old
    let bt := idx.foldl (undoReaddC cap other T.btreeOn i) (T.btreeE, 0)
    ({ T with rows := rr.getD T.rows
              hashE := idx.foldl (undoReadd T.hashOn i) T.hashE
              btreeE := bt.1 },
     (if rr.isSome then 0 else 1) + bt.2)

def applyUndoC (cap : Nat) (acc : State × Nat) (u : Undo) : State × Nat :=
  match acc.1.tables u.table with
  | none => (acc.1, acc.2 + 1)
  | some T =>
    let r := applyUndoTC cap (otherKeys acc.1 u.table) T u
    (setTable acc.1 u.table r.1, acc.2 + r.2)

def rollbackC (cap : Nat) (s : State) (tx : Nat) : State × Res :=
  match gate s tx with
  | some e => (s, .err e)
  | none =>
    let log := match s.txs tx with | some x => x.undo | none => []
    let r := log.reverse.foldl (applyUndoC cap) (s, 0)
    (setTx (release r.1 tx) tx none, if r.2 = 0 then .ok else .err .rollbackFailed)

/-! ## non-transactional statements -/

/-- `Ok(x) => { commit(tx)?; Ok(x) }`, `Err(e) => { rollback(tx); Err(e) }` -/
def finishAutoC (cap : Nat) (p : State × ResC) (tx : Nat) : State × ResC :=
  match p.2 with
  | .res (.err e) => ((rollbackC cap p.1 tx).1, .res (.err e))
  | .tooLarge => ((rollbackC cap p.1 tx).1, .tooLarge)
  | r => ((commit p.1 tx).1, r)

def insertC (cap : Nat) (s : State) (t : Nat) (vals : List Val) : State × ResC :=
  match s.tables t with
  | none => (s, .res (.err .tableNotFound))
  | some T =>
    if rowBad T vals then (s, .res (.err .badInput))
    else finishAutoC cap (txInsertC cap (begin s).1 (begin s).2 t vals) (begin s).2

def updateC (cap : Nat) (s : State) (t : Nat) (cond : Cond) (upd : List (Nat × Val)) : State × ResC :=
  match s.tables t with
  | none => (s, .res (.err .tableNotFound))
  | some T =>
    if updBad T upd then (s, .res (.err (updErr T upd)))
    else finishAutoC cap (txUpdateC cap (begin s).1 (begin s).2 t cond upd) (begin s).2

def deleteC (cap : Nat) (s : State) (t : Nat) (cond : Cond) : State × ResC :=
  match s.tables t with
  | none => (s, .res (.err .tableNotFound))
  | some _ => finishAutoC cap (txDeleteC (begin s).1 (begin s).2 t cond) (begin s).2

/-! ## create_btree_index / batch_insert at the cap -/

/-- the build loop of `create_btree_index`: one `btree_index_add` per live row, stop at the first refusal -/
def buildColC (cap other : Nat) (T : Table) (c : Nat) : List Nat → List Entry → List Entry × Bool
  | [], es => (es, true)
  | i :: is, es =>
    match T.rows[i]? with
    | none => buildColC cap other T c is es
    | some r =>
      match btAddC cap other (c, val r.vals c, i) es with
      | none => (es, false)
      | some es' => buildColC cap other T c is es'

/-- `create_btree_index`: the meta key is written first; a build that hits the cap leaves the index in
    existence with the entries added so far -/
def createBtreeC (cap : Nat) (s : State) (t c : Nat) : State × ResC :=
  match s.tables t with
  | none => (s, .res (.err .tableNotFound))
  | some T =>
    if c ≥ T.ncols then (s, .res (.err .columnNotFound))
    else if c ∈ T.btreeOn then (s, .res (.err .indexExists))
    else
      let b := buildColC cap (otherKeys s t) T c (matching T .all) T.btreeE
      (setTable s t { T with btreeOn := T.btreeOn ++ [c], btreeE := b.1 }, if b.2 then .res .ok else .tooLarge)

/-- one row of `batch_insert` -/
def insertRowC (cap other : Nat) (T : Table) (vals : List Val) : Table × Bool :=
  let bt := btAdds cap other vals T.rows.length T.btreeOn T.btreeE
  ({ T with rows := T.rows ++ [{ alive := true, vals := vals }]
            hashE := T.hashOn.foldl (fun es c => idxAdd (c, val vals c, T.rows.length) es) T.hashE
            btreeE := bt.1 }, bt.2)

def batchRowsC (cap other : Nat) : List (List Val) → Table → Table × Bool
  | [], T => (T, true)
  | v :: vs, T =>
    match insertRowC cap other T v with
    | (T', true) => batchRowsC cap other vs T'
    | (T', false) => (T', false)

/-- `batch_insert`: the rows before the refused one stay, so does the refused row itself (slab + hash
    entries + the b-tree entries of its earlier columns) -/
def batchInsertC (cap : Nat) (s : State) (t : Nat) (rows : List (List Val)) : State × ResC :=
  if rows.isEmpty then (s, .res (.okN 0))
  else
    match s.tables t with
    | none => (s, .res (.err .tableNotFound))
    | some T =>
      if rows.any (rowBad T) then (s, .res (.err .badInput))
      else
        let r := batchRowsC cap (otherKeys s t) rows T
        (setTable s t r.1, if r.2 then .res (.okN rows.length) else .tooLarge)

/-! ## one statement under a cap -/

def stepC (cap : Nat) (s : State) (op : Op) : State × ResC :=
  match op with
  | .rollback tx => let r := rollbackC cap s tx; (r.1, .res r.2)
  | .txInsert tx t vals => txInsertC cap s tx t vals
  | .txUpdate tx t cond upd => txUpdateC cap s tx t cond upd
  | .txDelete tx t cond => txDeleteC s tx t cond
  | .insert t vals => insertC cap s t vals
  | .update t cond upd => updateC cap s t cond upd
  | .delete t cond => deleteC cap s t cond
  | .batchInsert t rows => batchInsertC cap s t rows
  | .createBtree t c => createBtreeC cap s t c
  | op => let r := step s op; (r.1, .res r.2)

def runC (cap : Nat) (s : State) (ops : List Op) : State := ops.foldl (fun s op => (stepC cap s op).1) s

def runResC (cap : Nat) (s : State) : List Op → List ResC
  | [] => []
  | op :: ops => (stepC cap s op).2 :: runResC cap (stepC cap s op).1 ops

/-! ## `record_undo` of `tx_update` moved AFTER the row's modifications (NOT the code; regression witness only)

  "Record the undo entry for the row that has been changed, as `tx_insert` does": the per-row
  `record_undo(UpdatedRow { .. })` comes after the hash moves, the b-tree moves and `slab.update_row`.
  A row all of whose steps succeed is recorded exactly as before, so every successful statement and its
  rollback are unchanged.  A row whose `btree_index_add` is refused returns BEFORE the entry is recorded:
  its hash entries have moved, its old b-tree entry is gone, and the transaction's undo log does not
  know the row.  Kept so that `undo_recorded_last_loses_index_entries_witness` can show that
  `failed_update_is_undone_by_rollback` depends on the order. -/

def updateRowCUndoLast (cap tx t : Nat) (upd : List (Nat × Val)) (s : State) (i : Nat) : State × Bool :=
  match s.tables t with
  | none => (s, true)
  | some T =>
    match T.rows[i]? with
    | none => (s, true)
    | some r =>
      let chg := (T.hashOn ++ T.btreeOn).filterMap fun c =>
        match updGet upd c with | some n => some (c, val r.vals c, n) | none => none
      let p := updateRowT cap (otherKeys s t) upd T i r
      if p.2 then (recordUndo (setTable s t p.1) tx (.updated t i r.vals chg), true)
      else (setTable s t p.1, false)

def txUpdateCUndoLast (cap : Nat) (s : State) (tx t : Nat) (cond : Cond) (upd : List (Nat × Val)) : State × ResC :=
  match gate s tx with
  | some e => (s, .res (.err e))
  | none =>
    match s.tables t with
    | none => (s, .res (.err .tableNotFound))
    | some T =>
      if updBad T upd then (s, .res (.err (updErr T upd)))
      else
        let rows := matching T cond
        if lockBlocked s tx t rows then (s, .res (.err .lockConflict))
        else
          let s1 := if rows.isEmpty then s else lockAll s tx t rows
          let r := foldRowsC (updateRowCUndoLast cap tx t upd) rows s1
          (r.1, if r.2 then .res (.okN rows.length) else .tooLarge)

def updateCUndoLast (cap : Nat) (s : State) (t : Nat) (cond : Cond) (upd : List (Nat × Val)) : State × ResC :=
  match s.tables t with
  | none => (s, .res (.err .tableNotFound))
  | some T =>
    if updBad T upd then (s, .res (.err (updErr T upd)))
    else finishAutoC cap (txUpdateCUndoLast cap (begin s).1 (begin s).2 t cond upd) (begin s).2

def stepCUndoLast (cap : Nat) (s : State) (op : Op) : State × ResC :=
  match op with
  | .txUpdate tx t cond upd => txUpdateCUndoLast cap s tx t cond upd
  | .update t cond upd => updateCUndoLast cap s t cond upd
  | op => stepC cap s op

def runCUndoLast (cap : Nat) (s : State) (ops : List Op) : State := ops.foldl (fun s op => (stepCUndoLast cap s op).1) s

def runResCUndoLast (cap : Nat) (s : State) : List Op → List ResC
  | [] => []
  | op :: ops => (stepCUndoLast cap s op).2 :: runResCUndoLast cap (stepCUndoLast cap s op).1 ops

/-- the scripts with the repaired `tx_insert` (NOT the code) -/
def stepCInsertUndoFirst (cap : Nat) (s : State) (op : Op) : State × ResC :=
  match op with
  | .txInsert tx t vals => txInsertCUndoFirst cap s tx t vals
  | .insert t vals =>
    match s.tables t with
    | none => (s, .res (.err .tableNotFound))
    | some T =>
      if rowBad T vals then (s, .res (.err .badInput))
      else finishAutoC cap (txInsertCUndoFirst cap (begin s).1 (begin s).2 t vals) (begin s).2
  | op => stepC cap s op

def runCInsertUndoFirst (cap : Nat) (s : State) (ops : List Op) : State :=
  ops.foldl (fun s op => (stepCInsertUndoFirst cap s op).1) s

end Neumann.RelTx
