import NeumannModel.Snap.StoreLemmas
/-
  Helper lemmas for the store-level loops (C07): `restore_from_bytes`, the v2 loader and the
  quantising format's load are all folds of `SlabRouter::put`. What a `put` does to the `get` of its
  own key and of every other key. Core Lean only.
-/
namespace Neumann.Snap

/-! ### entity index -/

structure EIndex.WF (ix : EIndex) : Prop where
  tombBound : ∀ i ∈ ix.tomb, i < ix.vocab.length

theorem EIndex.new_wf : EIndex.new.WF := ⟨by simp [EIndex.new]⟩

theorem findLiveFrom_some (tomb : List Nat) (key : Name) (vocab : List Name) (i j : Nat)
    (h : findLiveFrom tomb key vocab i = some j) : i ≤ j ∧ j < i + vocab.length ∧ vocab[j - i]? = some key := by
  induction vocab generalizing i with
  | nil => simp [findLiveFrom] at h
  | cons k ks ih =>
    simp only [findLiveFrom] at h
    split at h
    · rename_i hk
      simp only [Option.some.injEq] at h
      subst h
      simp [hk.1]
    · obtain ⟨h1, h2, h3⟩ := ih (i + 1) h
      refine ⟨by omega, by simp only [List.length_cons]; omega, ?_⟩
      have : j - i = (j - (i + 1)) + 1 := by omega
      rw [this, List.getElem?_cons_succ]
      exact h3

theorem findLiveFrom_append_ne (tomb : List Nat) (key k2 : Name) (vocab : List Name) (i : Nat) (hne : k2 ≠ key) :
    findLiveFrom tomb key (vocab ++ [k2]) i = findLiveFrom tomb key vocab i := by
  induction vocab generalizing i with
  | nil => simp [findLiveFrom, hne]
  | cons k ks ih =>
    simp only [List.cons_append, findLiveFrom]
    split
    · rfl
    · exact ih (i + 1)

theorem findLiveFrom_append_self (tomb : List Nat) (key : Name) (vocab : List Name) (i : Nat)
    (h : findLiveFrom tomb key vocab i = none) (hnt : i + vocab.length ∉ tomb) :
    findLiveFrom tomb key (vocab ++ [key]) i = some (i + vocab.length) := by
  induction vocab generalizing i with
  | nil => simp only [List.nil_append, findLiveFrom, List.length_nil, Nat.add_zero] at hnt ⊢; simp [hnt]
  | cons k ks ih =>
    simp only [findLiveFrom] at h
    split at h
    · simp at h
    · rename_i hk
      simp only [List.cons_append, findLiveFrom, hk, if_false]
      rw [ih (i + 1) h (by simp only [List.length_cons] at hnt; rw [show i + 1 + ks.length = i + (ks.length + 1) by omega]; exact hnt)]
      simp only [List.length_cons]
      congr 1; omega

theorem EIndex.get_lt (ix : EIndex) (key : Name) (id : Nat) (h : ix.get key = some id) :
    id < ix.vocab.length ∧ ix.vocab[id]? = some key := by
  have := findLiveFrom_some ix.tomb key ix.vocab 0 id h
  simpa using this.2

theorem EIndex.get_inj (ix : EIndex) (k1 k2 : Name) (id : Nat) (h1 : ix.get k1 = some id) (h2 : ix.get k2 = some id) : k1 = k2 := by
  have a := (EIndex.get_lt ix k1 id h1).2
  have b := (EIndex.get_lt ix k2 id h2).2
  rw [a] at b
  exact Option.some.inj b

theorem getOrCreate_wf (ix : EIndex) (key : Name) (h : ix.WF) : (ix.getOrCreate key).1.WF := by
  unfold EIndex.getOrCreate
  cases ix.get key with
  | some id => exact h
  | none =>
    refine ⟨fun i hi => ?_⟩
    have := h.tombBound i hi
    simp only [List.length_append, List.length_cons, List.length_nil]
    omega

theorem getOrCreate_get_self (ix : EIndex) (key : Name) (h : ix.WF) :
    (ix.getOrCreate key).1.get key = some (ix.getOrCreate key).2 := by
  unfold EIndex.getOrCreate
  cases hg : ix.get key with
  | some id => simpa using hg
  | none =>
    simp only
    unfold EIndex.get at hg ⊢
    have := findLiveFrom_append_self ix.tomb key ix.vocab 0 hg (by
      intro hm
      have := h.tombBound _ hm
      omega)
    simpa using this

theorem getOrCreate_get_ne (ix : EIndex) (key key' : Name) (hne : key' ≠ key) :
    (ix.getOrCreate key).1.get key' = ix.get key' := by
  unfold EIndex.getOrCreate
  cases ix.get key with
  | some id => rfl
  | none =>
    simp only
    unfold EIndex.get
    exact findLiveFrom_append_ne ix.tomb key' key ix.vocab 0 (fun e => hne e.symm)

/-- the id `get_or_create(key)` returns is not the id of any other key -/
theorem getOrCreate_id_ne (ix : EIndex) (key key' : Name) (id' : Nat) (hne : key' ≠ key) (h' : ix.get key' = some id') :
    (ix.getOrCreate key).2 ≠ id' := by
  unfold EIndex.getOrCreate
  cases hg : ix.get key with
  | some id =>
    simp only
    intro e
    subst e
    exact hne (EIndex.get_inj ix key' key id h' hg)
  | none =>
    simp only
    have := (EIndex.get_lt ix key' id' h').1
    omega

theorem remove_wf (ix : EIndex) (key : Name) (h : ix.WF) : (ix.remove key).WF := by
  unfold EIndex.remove
  cases hg : ix.get key with
  | none => exact h
  | some id =>
    refine ⟨fun i hi => ?_⟩
    simp only at hi
    split at hi
    · exact h.tombBound i hi
    · simp only [List.mem_cons] at hi
      rcases hi with hi | hi
      · subst hi; exact (EIndex.get_lt ix key i hg).1
      · exact h.tombBound i hi

/-! ### `TensorData` -/

theorem aInsert_of_aFind {κ ν : Type} [DecidableEq κ] (k : κ) (v : ν) (l : List (κ × ν)) (h : aFind k l = some v) :
    aInsert k v l = l := by
  induction l with
  | nil => simp at h
  | cons p l ih =>
    obtain ⟨k', v'⟩ := p
    by_cases h1 : k' = k
    · simp only [aFind, h1, if_true, Option.some.injEq] at h
      subst h; subst h1
      simp [aInsert]
    · simp only [aFind, h1, if_false] at h
      simp only [aInsert, h1, if_false]
      rw [ih h]

theorem withEmb_of_embOf (d : TData) (vec : List Nat) (h : d.embOf = some vec) : d.withEmb vec = d := by
  unfold TData.embOf at h
  unfold TData.withEmb
  apply aInsert_of_aFind
  cases hf : aFind EMB_FIELD d with
  | none => rw [hf] at h; simp at h
  | some v =>
    rw [hf] at h
    cases v with
    | vector w => simp only [Option.some.injEq] at h; subst h; rfl
    | scalar _ => simp at h
    | sparse _ _ _ => simp at h
    | pointer _ => simp at h
    | pointers _ => simp at h

/-! ### one `put`, seen from `get` -/

theorem put_index_wf (r : Router) (key : Name) (v : TData) (victim : Nat) (h : r.index.WF) : (r.put key v victim).index.WF := by
  unfold Router.put
  cases classifyKey key with
  | embedding => exact getOrCreate_wf r.index key h
  | cache => exact h
  | graph => exact h
  | table => exact h
  | metadata => exact h

theorem putValue_get_ne (s : ESlab) (id id' : Nat) (v : TData) (hne : id ≠ id') : (s.putValue id v).get id' = s.get id' := by
  have hdel : (s.delete id).get id' = s.get id' := aFind_aErase_ne _ _ _ (fun e => hne e.symm)
  unfold ESlab.putValue
  cases v.embOf with
  | none => exact hdel
  | some vec =>
    simp only
    cases hs : s.set id vec with
    | none => exact hdel
    | some e =>
      simp only
      unfold ESlab.set at hs
      split at hs
      · simp at hs
      · simp only [Option.some.injEq] at hs
        subst hs
        exact aFind_aInsert_ne _ _ _ _ (fun e => hne e.symm)

/-- what the slab holds under the id after the embedding branch of `put`: the value's own vector, or nothing -/
theorem putValue_get_self (s : ESlab) (id : Nat) (v : TData) :
    (s.putValue id v).get id = none ∨ ∃ vec, v.embOf = some vec ∧ (s.putValue id v).get id = some vec := by
  have hdel : (s.delete id).get id = none := aFind_aErase_self _ _
  unfold ESlab.putValue
  cases he : v.embOf with
  | none => exact Or.inl hdel
  | some vec =>
    simp only
    cases hs : s.set id vec with
    | none => exact Or.inl hdel
    | some e =>
      simp only
      unfold ESlab.set at hs
      split at hs
      · simp at hs
      · simp only [Option.some.injEq] at hs
        subst hs
        exact Or.inr ⟨vec, rfl, aFind_aInsert_self _ _ _⟩

/-- after `put(key, v)` of a key that is not a cache key, `get(key)` returns `v` -/
theorem peek_put_self (r : Router) (key : Name) (v : TData) (victim : Nat) (hw : r.index.WF) (hk : classifyKey key ≠ .cache) :
    (r.put key v victim).peek key = some v := by
  unfold Router.put Router.peek
  cases hc : classifyKey key with
  | cache => exact absurd hc hk
  | embedding =>
    simp only
    rw [getOrCreate_get_self r.index key hw]
    simp only
    rcases putValue_get_self r.emb (r.index.getOrCreate key).2 v with h | ⟨vec, he, h⟩
    · rw [h]
      exact aFind_aInsert_self key v r.md
    · rw [h]
      simp only [aFind_aInsert_self, Option.getD_some]
      rw [withEmb_of_embOf v vec he]
  | graph => exact aFind_aInsert_self key v r.md
  | table => exact aFind_aInsert_self key v r.md
  | metadata => exact aFind_aInsert_self key v r.md

/-- `put(key, v)` does not change what `get` returns for any other key that is not a cache key -/
theorem peek_put_other (r : Router) (key key' : Name) (v : TData) (victim : Nat) (hne : key' ≠ key)
    (hk' : classifyKey key' ≠ .cache) : (r.put key v victim).peek key' = r.peek key' := by
  unfold Router.put
  cases hc : classifyKey key with
  | cache =>
    simp only
    unfold Router.peek
    cases hc' : classifyKey key' with
    | cache => exact absurd hc' hk'
    | embedding => rfl
    | graph => rfl
    | table => rfl
    | metadata => rfl
  | embedding =>
    simp only
    unfold Router.peek
    cases hc' : classifyKey key' with
    | cache => exact absurd hc' hk'
    | embedding =>
      simp only
      rw [getOrCreate_get_ne r.index key key' hne, aFind_aInsert_ne key key' v r.md hne]
      cases hg : r.index.get key' with
      | none => rfl
      | some id' =>
        simp only
        rw [putValue_get_ne r.emb _ id' v (getOrCreate_id_ne r.index key key' id' hne hg)]
    | graph => exact aFind_aInsert_ne key key' v r.md hne
    | table => exact aFind_aInsert_ne key key' v r.md hne
    | metadata => exact aFind_aInsert_ne key key' v r.md hne
  | graph =>
    simp only
    unfold Router.peek
    cases hc' : classifyKey key' with
    | cache => exact absurd hc' hk'
    | embedding => simp only [aFind_aInsert_ne key key' v r.md hne]
    | graph => exact aFind_aInsert_ne key key' v r.md hne
    | table => exact aFind_aInsert_ne key key' v r.md hne
    | metadata => exact aFind_aInsert_ne key key' v r.md hne
  | table =>
    simp only
    unfold Router.peek
    cases hc' : classifyKey key' with
    | cache => exact absurd hc' hk'
    | embedding => simp only [aFind_aInsert_ne key key' v r.md hne]
    | graph => exact aFind_aInsert_ne key key' v r.md hne
    | table => exact aFind_aInsert_ne key key' v r.md hne
    | metadata => exact aFind_aInsert_ne key key' v r.md hne
  | metadata =>
    simp only
    unfold Router.peek
    cases hc' : classifyKey key' with
    | cache => exact absurd hc' hk'
    | embedding => simp only [aFind_aInsert_ne key key' v r.md hne]
    | graph => exact aFind_aInsert_ne key key' v r.md hne
    | table => exact aFind_aInsert_ne key key' v r.md hne
    | metadata => exact aFind_aInsert_ne key key' v r.md hne

/-- `put` never touches the graph tensor or the blob log -/
theorem put_graph_blobs (r : Router) (key : Name) (v : TData) (victim : Nat) :
    (r.put key v victim).graph = r.graph ∧ (r.put key v victim).blobs = r.blobs := by
  unfold Router.put
  cases classifyKey key <;> exact ⟨rfl, rfl⟩

/-! ### a loop of `put`s over entries with distinct keys -/

theorem putOpt_index_wf (r : Router) (key : Name) (o : Option TData) (h : r.index.WF) : (r.putOpt key o).index.WF := by
  cases o with
  | none => exact h
  | some v => exact put_index_wf r key v 0 h

theorem fold_putOpt_peek (entries : List (Name × Option TData)) (t : Router) (hw : t.index.WF)
    (hnd : (aKeys entries).Nodup) (key' : Name) (hk' : classifyKey key' ≠ .cache) :
    (entries.foldl (fun t p => t.putOpt p.1 p.2) t).peek key' =
      match aFind key' entries with
      | some (some v) => some v
      | _ => t.peek key' := by
  induction entries generalizing t with
  | nil => rfl
  | cons p es ih =>
    obtain ⟨k, o⟩ := p
    simp only [aKeys, List.map_cons, List.nodup_cons] at hnd
    simp only [List.foldl_cons]
    rw [ih (t.putOpt k o) (putOpt_index_wf t k o hw) hnd.2]
    by_cases hkk : k = key'
    · subst hkk
      rw [aFind_none_of_not_mem k es hnd.1]
      simp only [aFind, if_true]
      cases o with
      | none => rfl
      | some v => exact peek_put_self t k v 0 hw hk'
    · simp only [aFind, hkk, if_false]
      have : (t.putOpt k o).peek key' = t.peek key' := by
        cases o with
        | none => rfl
        | some v => exact peek_put_other t k key' v 0 (fun e => hkk e.symm) hk'
      rw [this]

theorem fold_putOpt_graph_blobs (entries : List (Name × Option TData)) (t : Router) :
    (entries.foldl (fun t p => t.putOpt p.1 p.2) t).graph = t.graph ∧
    (entries.foldl (fun t p => t.putOpt p.1 p.2) t).blobs = t.blobs := by
  induction entries generalizing t with
  | nil => exact ⟨rfl, rfl⟩
  | cons p es ih =>
    simp only [List.foldl_cons]
    have h1 := ih (t.putOpt p.1 p.2)
    have h2 : (t.putOpt p.1 p.2).graph = t.graph ∧ (t.putOpt p.1 p.2).blobs = t.blobs := by
      cases p.2 with
      | none => exact ⟨rfl, rfl⟩
      | some v => exact put_graph_blobs t p.1 v 0
    exact ⟨h1.1.trans h2.1, h1.2.trans h2.2⟩

theorem aFind_map_pair {α : Type} (f : Name → α) (order : List Name) (key : Name) :
    aFind key (order.map (fun k => (k, f k))) = if key ∈ order then some (f key) else none := by
  induction order with
  | nil => rfl
  | cons k ks ih =>
    by_cases h : k = key
    · subst h; simp [aFind]
    · have h' : ¬ key = k := fun e => h e.symm
      simp only [List.map_cons, aFind, h, if_false, ih, List.mem_cons, h', false_or]

/-! ### what `get` finds is listed by `scan("")` -/

theorem scanLiveFrom_mem_of_find (tomb : List Nat) (key : Name) (vocab : List Name) (i j : Nat)
    (h : findLiveFrom tomb key vocab i = some j) : (key, j) ∈ scanLiveFrom tomb [] vocab i := by
  induction vocab generalizing i with
  | nil => simp [findLiveFrom] at h
  | cons k ks ih =>
    simp only [findLiveFrom] at h
    simp only [scanLiveFrom, List.isPrefixOf, true_and]
    split at h
    · rename_i hk
      simp only [Option.some.injEq] at h
      subst h
      simp [hk.1, hk.2]
    · have := ih (i + 1) h
      split
      · exact List.mem_cons_of_mem _ this
      · exact this

/-- a key that is not a cache key and that `get` finds is one of the keys `scan("")` lists -/
theorem peek_some_mem_scan (r : Router) (key : Name) (hk : classifyKey key ≠ .cache) (h : (r.peek key).isSome) :
    key ∈ r.scan [] := by
  unfold Router.scan
  rw [List.mem_eraseDups]
  have hmd : (aFind key r.md).isSome → key ∈ (aKeys r.md).filter (fun k => ([] : Name).isPrefixOf k) := by
    intro hm
    rw [List.mem_filter]
    exact ⟨(aFind_isSome_iff_mem key r.md).mp hm, by simp⟩
  unfold Router.peek at h
  cases hc : classifyKey key with
  | cache => exact absurd hc hk
  | embedding =>
    rw [hc] at h
    simp only at h
    cases hg : r.index.get key with
    | none =>
      rw [hg] at h
      exact List.mem_append_left _ (List.mem_append_left _ (hmd h))
    | some id =>
      apply List.mem_append_left
      apply List.mem_append_right
      rw [List.mem_map]
      exact ⟨(key, id), scanLiveFrom_mem_of_find r.index.tomb key r.index.vocab 0 id hg, rfl⟩
  | graph => rw [hc] at h; exact List.mem_append_left _ (List.mem_append_left _ (hmd h))
  | table => rw [hc] at h; exact List.mem_append_left _ (List.mem_append_left _ (hmd h))
  | metadata => rw [hc] at h; exact List.mem_append_left _ (List.mem_append_left _ (hmd h))

end Neumann.Snap
