import NeumannModel.Snap.StoreLemmas
/-
  Helper lemmas about the graph tensor's model (C07): the CSR rows, `merge`, `add_edge`, and the fold
  `restore` runs over the saved edges. Core Lean only.
-/
namespace Neumann.Snap

/-! ### CSR rows -/

theorem flatMap_range_single {β : Type} (X : List β) (node k : Nat) :
    (List.range k).flatMap (fun n => if n = node then X else []) = if node < k then X else [] := by
  induction k with
  | zero => simp
  | succ k ih =>
    rw [List.range_succ, List.flatMap_append, ih, List.flatMap_singleton]
    by_cases h1 : node < k
    · have h2 : ¬ k = node := by omega
      have h3 : node < k + 1 := by omega
      simp [h1, h2, h3]
    · by_cases h2 : k = node
      · subst h2; simp
      · have h3 : ¬ node < k + 1 := by omega
        simp [h1, h2, h3]

/-- the rows of a CSR built from `all`, restricted to one source node -/
theorem rows_filter (all : List GEdge) (m node : Nat) :
    ((List.range (m + 1)).flatMap (fun n => all.filter (fun e => e.src = n))).filter (fun e => e.src = node) =
      if node ≤ m then all.filter (fun e => e.src = node) else [] := by
  rw [List.filter_flatMap]
  have hfun : (fun n => List.filter (fun e : GEdge => decide (e.src = node)) (List.filter (fun e => decide (e.src = n)) all)) =
      (fun n => if n = node then all.filter (fun e => decide (e.src = node)) else []) := by
    funext n
    by_cases h : n = node
    · subst h; simp [List.filter_filter]
    · simp only [h, if_false, List.filter_filter]
      rw [List.filter_eq_nil_iff]
      intro e _
      simp only [Bool.and_eq_true, decide_eq_true_eq, not_and]
      intro h1 h2
      exact h (h2.symm.trans h1)
  rw [hfun, flatMap_range_single]
  by_cases h : node ≤ m
  · have : node < m + 1 := by omega
    simp [h, this]
  · have : ¬ node < m + 1 := by omega
    simp [h, this]

theorem mem_rows (all : List GEdge) (m : Nat) (e : GEdge)
    (h : e ∈ (List.range (m + 1)).flatMap (fun n => all.filter (fun e => e.src = n))) : e ∈ all ∧ e.src < m + 1 := by
  rw [List.mem_flatMap] at h
  obtain ⟨n, hn, he⟩ := h
  rw [List.mem_filter] at he
  simp only [decide_eq_true_eq] at he
  rw [List.mem_range] at hn
  exact ⟨he.1, by omega⟩

/-! ### the invariant every graph-tensor operation keeps -/

structure GraphT.Inv (g : GraphT) : Prop where
  rows : ∀ e ∈ g.csr, e.src < g.csrNodes
  bound : ∀ e, e ∈ g.csr ∨ e ∈ g.pending → e.src ≤ g.maxNode
  dataNd : (aKeys g.edgeData).Nodup

/-- the edges that exist: CSR first, then the pending log, deleted ones left out -/
def GraphT.live (g : GraphT) : List GEdge := g.csr.filter g.notDeleted ++ g.pending.filter g.notDeleted

theorem GraphT.new_inv (t : Nat) : (GraphT.new t).Inv :=
  ⟨by simp [GraphT.new], by simp [GraphT.new], by simp [GraphT.new, aKeys]⟩

theorem mem_live (g : GraphT) (e : GEdge) (h : e ∈ g.live) : e ∈ g.csr ∨ e ∈ g.pending := by
  unfold GraphT.live at h
  rw [List.mem_append, List.mem_filter, List.mem_filter] at h
  rcases h with h | h
  · exact Or.inl h.1
  · exact Or.inr h.1

/-- `outgoing(node)` is the live edges that start at `node`, in their order -/
theorem outEdges_eq_of_rows (g : GraphT) (hrows : ∀ e ∈ g.csr, e.src < g.csrNodes) (node : Nat) :
    g.outEdges node = g.live.filter (fun e => e.src = node) := by
  unfold GraphT.outEdges GraphT.live csrOutgoing
  rw [List.filter_append, List.filter_filter, List.filter_filter]
  congr 1
  · by_cases hn : node ≥ g.csrNodes
    · simp only [hn, if_true, List.filter_nil]
      symm
      rw [List.filter_eq_nil_iff]
      intro e he
      have := hrows e he
      simp only [Bool.and_eq_true, decide_eq_true_eq, not_and]
      intro h1; omega
    · simp only [hn, if_false, List.filter_filter]
      apply List.filter_congr
      intro e _
      exact Bool.and_comm _ _

theorem outEdges_eq (g : GraphT) (h : g.Inv) (node : Nat) :
    g.outEdges node = g.live.filter (fun e => e.src = node) := outEdges_eq_of_rows g h.rows node

theorem live_clean (g : GraphT) (hp : g.pending = []) (hd : g.deleted = []) : g.live = g.csr := by
  unfold GraphT.live GraphT.notDeleted
  rw [hp, hd]
  simp

theorem merge_pending_deleted (g : GraphT) : g.merge.pending = [] ∧ g.merge.deleted = [] := by
  unfold GraphT.merge
  split
  · rename_i h
    simp only [Bool.and_eq_true, List.isEmpty_iff] at h
    exact h
  · exact ⟨rfl, rfl⟩

theorem merge_inv (g : GraphT) (h : g.Inv) : g.merge.Inv := by
  unfold GraphT.merge
  split
  · exact h
  · refine ⟨?_, ?_, h.dataNd⟩
    · intro e he
      simp only [csrBuild] at he ⊢
      split at he
      · simp at he
      · rename_i hne
        simp only [hne, if_false]
        exact (mem_rows _ _ e he).2
    · intro e he
      simp only [List.not_mem_nil, or_false] at he
      simp only [csrBuild] at he
      split at he
      · simp at he
      · have := (mem_rows _ _ e he).1
        exact h.bound e (mem_live g e this)

/-- a merge does not change which live edges start at a node, nor their order -/
theorem merge_live_filter (g : GraphT) (h : g.Inv) (node : Nat) :
    g.merge.live.filter (fun e => e.src = node) = g.live.filter (fun e => e.src = node) := by
  have hpd := merge_pending_deleted g
  rw [live_clean g.merge hpd.1 hpd.2]
  unfold GraphT.merge
  split
  · rename_i hc
    simp only [Bool.and_eq_true, List.isEmpty_iff] at hc
    rw [live_clean g hc.1 hc.2]
  · show (csrBuild g.live g.maxNode).1.filter _ = _
    unfold csrBuild
    split
    · rename_i he
      rw [List.isEmpty_iff] at he
      rw [he]
    · simp only
      rw [rows_filter]
      split
      · rfl
      · rename_i hn
        symm
        rw [List.filter_eq_nil_iff]
        intro e he
        have := h.bound e (mem_live g e he)
        simp only [decide_eq_true_eq]
        omega

theorem merge_outEdges (g : GraphT) (h : g.Inv) (node : Nat) : g.merge.outEdges node = g.outEdges node := by
  rw [outEdges_eq g.merge (merge_inv g h), outEdges_eq g h, merge_live_filter g h]

theorem merge_edgeData (g : GraphT) : g.merge.edgeData = g.edgeData := by
  unfold GraphT.merge; split <;> rfl

theorem merge_nextId (g : GraphT) : g.merge.nextId = g.nextId := by
  unfold GraphT.merge; split <;> rfl

theorem merge_maxNode (g : GraphT) : g.merge.maxNode = g.maxNode := by
  unfold GraphT.merge; split <;> rfl

theorem merge_types (g : GraphT) : g.merge.types = g.types := by
  unfold GraphT.merge; split <;> rfl

/-! ### `add_edge` on a graph without deleted edges (every graph `restore` passes through) -/

theorem intern_fields (g : GraphT) (ty : Name) :
    (g.intern ty).1.csr = g.csr ∧ (g.intern ty).1.csrNodes = g.csrNodes ∧ (g.intern ty).1.pending = g.pending ∧
    (g.intern ty).1.deleted = g.deleted ∧ (g.intern ty).1.edgeData = g.edgeData ∧ (g.intern ty).1.threshold = g.threshold ∧
    (g.intern ty).1.incoming = g.incoming := by
  unfold GraphT.intern
  split <;> exact ⟨rfl, rfl, rfl, rfl, rfl, rfl, rfl⟩

/-- the graph `add_edge` builds before it decides whether to merge -/
def GraphT.pushed (g : GraphT) (forced : Option Nat) (src dst : Nat) (ty : Name) (directed : Bool) : GraphT :=
  { (g.intern ty).1 with
    nextId := (match forced with | some _ => g.nextId | none => g.nextId + 1),
    maxNode := max (max g.maxNode src) dst,
    pending := g.pending ++ [⟨(match forced with | some i => i | none => g.nextId), src, dst, (g.intern ty).2, directed⟩],
    incoming := aPush dst (src, (match forced with | some i => i | none => g.nextId)) g.incoming }

theorem addEdgeWith_eq (g : GraphT) (forced : Option Nat) (src dst : Nat) (ty : Name) (directed : Bool) :
    g.addEdgeWith forced src dst ty directed =
      (if (g.pushed forced src dst ty directed).pending.length ≥ (g.pushed forced src dst ty directed).threshold
        then (g.pushed forced src dst ty directed).merge else g.pushed forced src dst ty directed,
       (match forced with | some i => i | none => g.nextId)) := rfl

theorem pushed_inv (g : GraphT) (h : g.Inv) (forced : Option Nat) (src dst : Nat) (ty : Name) (directed : Bool) :
    (g.pushed forced src dst ty directed).Inv := by
  obtain ⟨h1, h2, h3, _, h5, _, _⟩ := intern_fields g ty
  refine ⟨?_, ?_, ?_⟩
  · intro e he
    simp only [GraphT.pushed] at he ⊢
    rw [h1] at he; rw [h2]
    exact h.rows e he
  · intro e he
    simp only [GraphT.pushed] at he ⊢
    rw [h1] at he
    rcases he with he | he
    · have := h.bound e (Or.inl he); omega
    · rw [List.mem_append] at he
      rcases he with he | he
      · have := h.bound e (Or.inr he); omega
      · simp only [List.mem_cons, List.not_mem_nil, or_false] at he
        subst he; simp only; omega
  · simp only [GraphT.pushed]; rw [h5]; exact h.dataNd

theorem pushed_live (g : GraphT) (hd : g.deleted = []) (forced : Option Nat) (src dst : Nat) (ty : Name) (directed : Bool) :
    (g.pushed forced src dst ty directed).live =
      g.live ++ [⟨(match forced with | some i => i | none => g.nextId), src, dst, (g.intern ty).2, directed⟩] := by
  obtain ⟨h1, _, _, h4, _, _, _⟩ := intern_fields g ty
  have hd' : (g.pushed forced src dst ty directed).deleted = [] := by
    simp only [GraphT.pushed]; rw [h4]; exact hd
  unfold GraphT.live GraphT.notDeleted
  rw [hd', hd]
  simp only [GraphT.pushed]
  rw [h1]
  simp

/-- what one `add_edge` does to a graph without deleted edges, whether or not it triggers a merge -/
theorem addEdgeWith_clean (g : GraphT) (h : g.Inv) (hd : g.deleted = []) (forced : Option Nat) (src dst : Nat)
    (ty : Name) (directed : Bool) :
    (g.addEdgeWith forced src dst ty directed).1.Inv ∧
    (g.addEdgeWith forced src dst ty directed).1.deleted = [] ∧
    (g.addEdgeWith forced src dst ty directed).1.edgeData = g.edgeData ∧
    (g.addEdgeWith forced src dst ty directed).1.nextId = (match forced with | some _ => g.nextId | none => g.nextId + 1) ∧
    ∀ node, (g.addEdgeWith forced src dst ty directed).1.outgoing node =
      g.outgoing node ++ (if src = node then [(dst, (match forced with | some i => i | none => g.nextId))] else []) := by
  obtain ⟨_, _, _, h4, h5, _, _⟩ := intern_fields g ty
  have hpi := pushed_inv g h forced src dst ty directed
  have hpd : (g.pushed forced src dst ty directed).deleted = [] := by
    simp only [GraphT.pushed]; rw [h4]; exact hd
  have hout : ∀ node, (g.pushed forced src dst ty directed).outgoing node =
      g.outgoing node ++ (if src = node then [(dst, (match forced with | some i => i | none => g.nextId))] else []) := by
    intro node
    unfold GraphT.outgoing
    rw [outEdges_eq _ hpi, outEdges_eq g h, pushed_live g hd, List.filter_append, List.map_append]
    congr 1
    by_cases hs : src = node
    · simp [hs]
    · simp [hs]
  rw [addEdgeWith_eq]
  simp only
  split
  · refine ⟨merge_inv _ hpi, (merge_pending_deleted _).2, ?_, ?_, ?_⟩
    · rw [merge_edgeData]; simp only [GraphT.pushed]; exact h5
    · rw [merge_nextId]; rfl
    · intro node
      unfold GraphT.outgoing
      rw [merge_outEdges _ hpi]
      exact hout node
  · refine ⟨hpi, hpd, ?_, rfl, hout⟩
    · simp only [GraphT.pushed]; exact h5

/-! ### the fold `restore` runs over the saved edges -/

/-- the id `restore` gives the `i`-th saved edge when the id counter stood at `n0` before the first -/
def restoredIds (keep : Bool) (n0 : Nat) : List GEdge → List Nat
  | [] => []
  | e :: es => (if keep then e.id else n0) :: restoredIds keep (if keep then n0 else n0 + 1) es

theorem restoredIds_keep (n0 : Nat) (es : List GEdge) : restoredIds true n0 es = es.map (·.id) := by
  induction es generalizing n0 with
  | nil => rfl
  | cons e es ih => simp [restoredIds, ih]

theorem restoredIds_length (keep : Bool) (n0 : Nat) (es : List GEdge) : (restoredIds keep n0 es).length = es.length := by
  induction es generalizing n0 with
  | nil => rfl
  | cons e es ih => simp [restoredIds, ih]

/-- (target, id) of the saved edges that start at `node`, under the ids `restore` gives them -/
def restoredOut (keep : Bool) (n0 : Nat) (node : Nat) : List GEdge → List (Nat × Nat)
  | [] => []
  | e :: es =>
    (if e.src = node then [(e.dst, if keep then e.id else n0)] else []) ++
      restoredOut keep (if keep then n0 else n0 + 1) node es

theorem restoredOut_targets (keep : Bool) (n0 node : Nat) (es : List GEdge) :
    (restoredOut keep n0 node es).map (·.1) = (es.filter (fun e => e.src = node)).map (·.dst) := by
  induction es generalizing n0 with
  | nil => rfl
  | cons e es ih =>
    simp only [restoredOut, List.map_append, ih, List.filter_cons]
    by_cases h : e.src = node <;> simp [h]

theorem restoredOut_keep (n0 node : Nat) (es : List GEdge) :
    restoredOut true n0 node es = (es.filter (fun e => e.src = node)).map (fun e => (e.dst, e.id)) := by
  induction es generalizing n0 with
  | nil => rfl
  | cons e es ih =>
    simp only [restoredOut, if_true, ih, List.filter_cons]
    by_cases h : e.src = node <;> simp [h]

theorem restore_fold (keep : Bool) (types : List Name) (es : List GEdge) (g : GraphT) (h : g.Inv) (hd : g.deleted = []) :
    let g1 := es.foldl (fun g e => (g.addEdgeWith (if keep then some e.id else none) e.src e.dst (types.getD e.ty []) e.directed).1) g
    g1.Inv ∧ g1.deleted = [] ∧ g1.edgeData = g.edgeData ∧
    ∀ node, g1.outgoing node = g.outgoing node ++ restoredOut keep g.nextId node es := by
  induction es generalizing g with
  | nil => simp only [List.foldl_nil, restoredOut, List.append_nil]; exact ⟨h, hd, trivial, fun _ => trivial⟩
  | cons e es ih =>
    simp only [List.foldl_cons]
    obtain ⟨i1, d1, e1, n1, o1⟩ := addEdgeWith_clean g h hd (if keep then some e.id else none) e.src e.dst (types.getD e.ty []) e.directed
    obtain ⟨i2, d2, e2, o2⟩ := ih _ i1 d1
    refine ⟨i2, d2, e2.trans e1, ?_⟩
    intro node
    rw [o2 node, o1 node, n1]
    cases keep with
    | true => simp [restoredOut, List.append_assoc]
    | false => simp [restoredOut, List.append_assoc]

/-! ### the incoming index is the transpose of the stored edges -/

theorem aFind_aPush {κ β : Type} [DecidableEq κ] (k k' : κ) (y : β) (l : List (κ × List β)) :
    (aFind k (aPush k' y l)).getD [] = if k = k' then (aFind k l).getD [] ++ [y] else (aFind k l).getD [] := by
  induction l with
  | nil =>
    by_cases h : k = k'
    · subst h; simp [aPush, aFind]
    · have : ¬ k' = k := fun e => h e.symm
      simp [aPush, aFind, h, this]
  | cons p l ih =>
    obtain ⟨k₂, xs⟩ := p
    by_cases h2 : k₂ = k'
    · subst h2
      by_cases h : k = k₂
      · subst h; simp [aPush, aFind]
      · have : ¬ k₂ = k := fun e => h e.symm
        simp [aPush, aFind, h, this]
    · by_cases h3 : k₂ = k
      · subst h3
        have : ¬ k₂ = k' := h2
        simp [aPush, aFind, h2]
      · simp only [aPush, h2, if_false, aFind, h3]
        exact ih

theorem mem_csrBuild (all : List GEdge) (m : Nat) (hb : ∀ e ∈ all, e.src ≤ m) (e : GEdge) :
    e ∈ (csrBuild all m).1 ↔ e ∈ all := by
  unfold csrBuild
  split
  · rename_i he
    rw [List.isEmpty_iff] at he
    rw [he]
  · simp only
    constructor
    · intro h; exact (mem_rows all m e h).1
    · intro h
      rw [List.mem_flatMap]
      refine ⟨e.src, ?_, ?_⟩
      · rw [List.mem_range]; have := hb e h; omega
      · rw [List.mem_filter]; exact ⟨h, by simp⟩

/-- every entry of the incoming index is a stored edge seen from its target, and conversely -/
def GraphT.IncInv (g : GraphT) : Prop :=
  ∀ (node : Nat) (x : Nat × Nat), x ∈ (aFind node g.incoming).getD [] ↔
    ∃ e : GEdge, (e ∈ g.csr ∨ e ∈ g.pending) ∧ e.dst = node ∧ x = (e.src, e.id)

theorem GraphT.new_incInv (t : Nat) : (GraphT.new t).IncInv := by
  intro node x
  simp [GraphT.new, aFind]

theorem mem_live_iff (g : GraphT) (e : GEdge) : e ∈ g.live ↔ (e ∈ g.csr ∨ e ∈ g.pending) ∧ g.notDeleted e = true := by
  unfold GraphT.live
  rw [List.mem_append, List.mem_filter, List.mem_filter]
  constructor
  · rintro (h | h)
    · exact ⟨Or.inl h.1, h.2⟩
    · exact ⟨Or.inr h.1, h.2⟩
  · rintro ⟨h | h, hn⟩
    · exact Or.inl ⟨h, hn⟩
    · exact Or.inr ⟨h, hn⟩

theorem merge_incInv (g : GraphT) (h : g.Inv) (hi : g.IncInv) : g.merge.IncInv := by
  unfold GraphT.merge
  split
  · exact hi
  · intro node x
    simp only [List.not_mem_nil, or_false]
    have hf : (aFind node (g.incoming.map (fun p => (p.1, p.2.filter (fun x => !g.deleted.contains x.2))))).getD [] =
        ((aFind node g.incoming).getD []).filter (fun x => !g.deleted.contains x.2) := by
      rw [aFind_map_val (fun xs : List (Nat × Nat) => xs.filter (fun x => !g.deleted.contains x.2))]
      cases aFind node g.incoming <;> simp
    rw [hf, List.mem_filter, hi node x]
    have hbound : ∀ e ∈ g.csr.filter g.notDeleted ++ g.pending.filter g.notDeleted, e.src ≤ g.maxNode :=
      fun e he => h.bound e (mem_live g e he)
    constructor
    · rintro ⟨⟨e, hst, hd, hx⟩, hnd⟩
      refine ⟨e, ?_, hd, hx⟩
      rw [mem_csrBuild _ _ hbound]
      have : e ∈ g.live := (mem_live_iff g e).mpr ⟨hst, by subst hx; simpa [GraphT.notDeleted] using hnd⟩
      exact this
    · rintro ⟨e, he, hd, hx⟩
      rw [mem_csrBuild _ _ hbound] at he
      have := (mem_live_iff g e).mp he
      exact ⟨⟨e, this.1, hd, hx⟩, by subst hx; simpa [GraphT.notDeleted] using this.2⟩

theorem pushed_incInv (g : GraphT) (hi : g.IncInv) (forced : Option Nat) (src dst : Nat) (ty : Name) (directed : Bool) :
    (g.pushed forced src dst ty directed).IncInv := by
  obtain ⟨h1, _, _, _, _, _, _⟩ := intern_fields g ty
  intro node x
  simp only [GraphT.pushed]
  rw [aFind_aPush, h1]
  by_cases hn : node = dst
  · subst hn
    simp only [if_true, List.mem_append, List.mem_cons, List.not_mem_nil, or_false, hi node x]
    constructor
    · rintro (⟨e, hst, hd, hx⟩ | hx)
      · exact ⟨e, by rcases hst with h | h; exact Or.inl h; exact Or.inr (Or.inl h), hd, hx⟩
      · exact ⟨_, Or.inr (Or.inr rfl), rfl, hx⟩
    · rintro ⟨e, hst, hd, hx⟩
      rcases hst with h | h | h
      · exact Or.inl ⟨e, Or.inl h, hd, hx⟩
      · exact Or.inl ⟨e, Or.inr h, hd, hx⟩
      · subst h; exact Or.inr hx
  · simp only [hn, if_false, hi node x, List.mem_append, List.mem_cons, List.not_mem_nil, or_false]
    constructor
    · rintro ⟨e, hst, hd, hx⟩
      exact ⟨e, by rcases hst with h | h; exact Or.inl h; exact Or.inr (Or.inl h), hd, hx⟩
    · rintro ⟨e, hst, hd, hx⟩
      rcases hst with h | h | h
      · exact ⟨e, Or.inl h, hd, hx⟩
      · exact ⟨e, Or.inr h, hd, hx⟩
      · subst h; exact absurd hd.symm hn

theorem addEdgeWith_inv (g : GraphT) (h : g.Inv) (hi : g.IncInv) (forced : Option Nat) (src dst : Nat) (ty : Name) (directed : Bool) :
    (g.addEdgeWith forced src dst ty directed).1.Inv ∧ (g.addEdgeWith forced src dst ty directed).1.IncInv := by
  rw [addEdgeWith_eq]
  simp only
  have hpi := pushed_inv g h forced src dst ty directed
  have hpc := pushed_incInv g hi forced src dst ty directed
  split
  · exact ⟨merge_inv _ hpi, merge_incInv _ hpi hpc⟩
  · exact ⟨hpi, hpc⟩

theorem deleteEdge_inv (g : GraphT) (h : g.Inv) (hi : g.IncInv) (id : Nat) :
    (g.deleteEdge id).1.Inv ∧ (g.deleteEdge id).1.IncInv := by
  unfold GraphT.deleteEdge
  split
  · exact ⟨⟨h.rows, h.bound, h.dataNd⟩, hi⟩
  · exact ⟨h, hi⟩

theorem apply_inv (g : GraphT) (op : GOp) (h : g.Inv) (hi : g.IncInv) : (g.apply op).Inv ∧ (g.apply op).IncInv := by
  cases op with
  | add s d ty dir => exact addEdgeWith_inv g h hi none s d ty dir
  | del id => exact deleteEdge_inv g h hi id
  | merge => exact ⟨merge_inv g h, merge_incInv g h hi⟩
  | setData id d => exact ⟨⟨h.rows, h.bound, aKeys_aInsert_nodup id d g.edgeData h.dataNd⟩, hi⟩

theorem run_inv (g : GraphT) (ops : List GOp) (h : g.Inv) (hi : g.IncInv) : (g.run ops).Inv ∧ (g.run ops).IncInv := by
  unfold GraphT.run
  induction ops generalizing g with
  | nil => exact ⟨h, hi⟩
  | cons op ops ih =>
    have := apply_inv g op h hi
    exact ih (g.apply op) this.1 this.2

/-- `incoming(node)` lists exactly the live edges that end at `node` -/
theorem mem_incomingOf (g : GraphT) (hi : g.IncInv) (node : Nat) (x : Nat × Nat) :
    x ∈ g.incomingOf node ↔ ∃ e ∈ g.live, e.dst = node ∧ x = (e.src, e.id) := by
  unfold GraphT.incomingOf
  have key := hi node x
  cases hf : aFind node g.incoming with
  | none =>
    rw [hf] at key
    simp only [Option.getD_none, List.not_mem_nil, false_iff, not_exists, not_and] at key
    simp only [List.not_mem_nil, false_iff, not_exists, not_and]
    intro e he hd hx
    exact key e ((mem_live_iff g e).mp he).1 hd hx
  | some xs =>
    rw [hf] at key
    simp only [Option.getD_some] at key
    simp only [List.mem_filter, key]
    constructor
    · rintro ⟨⟨e, hst, hd, hx⟩, hnd⟩
      exact ⟨e, (mem_live_iff g e).mpr ⟨hst, by subst hx; simpa [GraphT.notDeleted] using hnd⟩, hd, hx⟩
    · rintro ⟨e, he, hd, hx⟩
      have := (mem_live_iff g e).mp he
      exact ⟨⟨e, this.1, hd, hx⟩, by subst hx; simpa [GraphT.notDeleted] using this.2⟩

/-- `outgoing(node)` lists exactly the live edges that start at `node` -/
theorem mem_outgoing (g : GraphT) (hrows : ∀ e ∈ g.csr, e.src < g.csrNodes) (node : Nat) (x : Nat × Nat) :
    x ∈ g.outgoing node ↔ ∃ e ∈ g.live, e.src = node ∧ x = (e.dst, e.id) := by
  unfold GraphT.outgoing
  rw [outEdges_eq_of_rows g hrows, List.mem_map]
  constructor
  · rintro ⟨e, he, hx⟩
    rw [List.mem_filter] at he
    exact ⟨e, he.1, by simpa using he.2, hx.symm⟩
  · rintro ⟨e, he, hs, hx⟩
    exact ⟨e, by rw [List.mem_filter]; exact ⟨he, by simpa using hs⟩, hx.symm⟩

/-- `incoming` is the transpose of `outgoing` -/
theorem incoming_transpose (g : GraphT) (hrows : ∀ e ∈ g.csr, e.src < g.csrNodes) (hi : g.IncInv) (s t id : Nat) :
    (s, id) ∈ g.incomingOf t ↔ (t, id) ∈ g.outgoing s := by
  rw [mem_incomingOf g hi, mem_outgoing g hrows]
  constructor
  · rintro ⟨e, he, hd, hx⟩
    simp only [Prod.mk.injEq] at hx
    exact ⟨e, he, hx.1.symm, by simp [hd, hx.2]⟩
  · rintro ⟨e, he, hs, hx⟩
    simp only [Prod.mk.injEq] at hx
    exact ⟨e, he, hx.1.symm, by simp [hs, hx.2]⟩

/-- a merge does not change what `incoming` answers (the very same list) -/
theorem merge_incomingOf (g : GraphT) (node : Nat) : g.merge.incomingOf node = g.incomingOf node := by
  unfold GraphT.merge
  split
  · rfl
  · unfold GraphT.incomingOf
    simp only
    rw [aFind_map_val (fun xs : List (Nat × Nat) => xs.filter (fun x => !g.deleted.contains x.2))]
    cases aFind node g.incoming with
    | none => rfl
    | some xs => simp

/-! ### `restore` of a snapshot -/

theorem snapshot_fields (g : GraphT) :
    g.snapshot.2.edges = g.merge.csr ∧ g.snapshot.2.edgeData = g.edgeData ∧ g.snapshot.2.nextId = g.nextId ∧
    g.snapshot.2.maxNode = g.maxNode ∧ g.snapshot.2.types = g.types ∧ g.snapshot.1 = g.merge :=
  ⟨rfl, merge_edgeData g, merge_nextId g, merge_maxNode g, merge_types g, rfl⟩

/-- what the saved graph answers to `outgoing`, read off the snapshot's edge list -/
theorem outgoing_eq_snapshot (g : GraphT) (h : g.Inv) (node : Nat) :
    g.outgoing node = (g.snapshot.2.edges.filter (fun e => e.src = node)).map (fun e => (e.dst, e.id)) := by
  unfold GraphT.outgoing
  rw [outEdges_eq g h, ← merge_live_filter g h, live_clean g.merge (merge_pending_deleted g).1 (merge_pending_deleted g).2]
  rfl

theorem restore_start_inv (types : List Name) :
    (GraphT.restoreStart types).Inv ∧ (GraphT.restoreStart types).IncInv :=
  ⟨⟨by simp [GraphT.restoreStart, GraphT.new], by simp [GraphT.restoreStart, GraphT.new], by simp [GraphT.restoreStart, GraphT.new, aKeys]⟩,
   by intro node x; simp [GraphT.restoreStart, GraphT.new, aFind]⟩

theorem restore_fold_incInv (keep : Bool) (types : List Name) (es : List GEdge) (g : GraphT) (h : g.Inv) (hi : g.IncInv) :
    (es.foldl (fun g e => (g.addEdgeWith (if keep then some e.id else none) e.src e.dst (types.getD e.ty []) e.directed).1) g).IncInv := by
  induction es generalizing g with
  | nil => exact hi
  | cons e es ih =>
    simp only [List.foldl_cons]
    have := addEdgeWith_inv g h hi (if keep then some e.id else none) e.src e.dst (types.getD e.ty []) e.directed
    exact ih _ this.1 this.2

theorem outgoing_congr (g g' : GraphT) (h1 : g'.csr = g.csr) (h2 : g'.csrNodes = g.csrNodes) (h3 : g'.pending = g.pending)
    (h4 : g'.deleted = g.deleted) (node : Nat) : g'.outgoing node = g.outgoing node := by
  unfold GraphT.outgoing GraphT.outEdges GraphT.notDeleted
  rw [h1, h2, h3, h4]

theorem incomingOf_congr (g g' : GraphT) (h1 : g'.incoming = g.incoming) (h4 : g'.deleted = g.deleted) (node : Nat) :
    g'.incomingOf node = g.incomingOf node := by
  unfold GraphT.incomingOf
  rw [h1, h4]

theorem restore_start_outgoing (types : List Name) (node : Nat) :
    (GraphT.restoreStart types).outgoing node = [] := by
  simp [GraphT.outgoing, GraphT.outEdges, GraphT.restoreStart, GraphT.new, csrOutgoing]

theorem restoreWith_outgoing (keep : Bool) (s : GraphSnap) (node : Nat) :
    (GraphT.restoreWith keep s).outgoing node = restoredOut keep 0 node s.edges := by
  have hs := restore_start_inv s.types
  obtain ⟨_, _, _, ho⟩ := restore_fold keep s.types s.edges _ hs.1 rfl
  have := ho node
  rw [restore_start_outgoing, List.nil_append] at this
  have h0 : (GraphT.restoreStart s.types).nextId = 0 := rfl
  rw [h0] at this
  rw [← this]
  exact outgoing_congr _ _ rfl rfl rfl rfl node

theorem restoreWith_rows_incInv (keep : Bool) (s : GraphSnap) :
    (∀ e ∈ (GraphT.restoreWith keep s).csr, e.src < (GraphT.restoreWith keep s).csrNodes) ∧ (GraphT.restoreWith keep s).IncInv := by
  have hs := restore_start_inv s.types
  obtain ⟨hinv, _, _, _⟩ := restore_fold keep s.types s.edges _ hs.1 rfl
  have hinc := restore_fold_incInv keep s.types s.edges _ hs.1 hs.2
  exact ⟨hinv.rows, hinc⟩

theorem restoreWith_edgeData (keep : Bool) (s : GraphSnap) (hnd : (aKeys s.edgeData).Nodup) :
    (GraphT.restoreWith keep s).edgeData = s.edgeData := by
  have hs := restore_start_inv s.types
  obtain ⟨_, _, hed, _⟩ := restore_fold keep s.types s.edges _ hs.1 rfl
  unfold GraphT.restoreWith
  simp only
  rw [hed]
  exact foldl_aInsert_nil s.edgeData hnd

/-! ### counting edges row by row -/

theorem sum_map_add (xs : List Nat) (f g : Nat → Nat) :
    (xs.map (fun n => f n + g n)).sum = (xs.map f).sum + (xs.map g).sum := by
  induction xs with
  | nil => rfl
  | cons x xs ih => simp only [List.map_cons, List.sum_cons, ih]; omega

theorem sum_map_zero (xs : List Nat) : (xs.map (fun _ => 0)).sum = 0 := by
  induction xs with
  | nil => rfl
  | cons x xs ih => simp [ih]

theorem sum_indicator_range (k j : Nat) :
    ((List.range j).map (fun n => if k = n then 1 else 0)).sum = if k < j then 1 else 0 := by
  induction j with
  | zero => simp
  | succ j ih =>
    rw [List.range_succ, List.map_append, List.sum_append, ih]
    by_cases h1 : k < j
    · have h2 : ¬ k = j := by omega
      have h3 : k < j + 1 := by omega
      simp [h1, h2, h3]
    · by_cases h2 : k = j
      · subst h2; simp
      · have h3 : ¬ k < j + 1 := by omega
        simp [h1, h2, h3]

/-- a list of edges whose sources are at most `m` has as many elements as its rows 0 … m together -/
theorem length_by_rows (l : List GEdge) (m : Nat) (hb : ∀ e ∈ l, e.src ≤ m) :
    l.length = ((List.range (m + 1)).map (fun n => (l.filter (fun e => e.src = n)).length)).sum := by
  induction l with
  | nil => simp only [List.filter_nil, List.length_nil]; exact (sum_map_zero _).symm
  | cons e l ih =>
    have hfun : (fun n => ((e :: l).filter (fun e => decide (e.src = n))).length) =
        (fun n => (if e.src = n then 1 else 0) + (l.filter (fun e => decide (e.src = n))).length) := by
      funext n
      by_cases h : e.src = n
      · simp [List.filter_cons, h]; omega
      · simp [List.filter_cons, h]
    rw [hfun, sum_map_add, sum_indicator_range, ← ih (fun x hx => hb x (List.mem_cons_of_mem _ hx))]
    have := hb e (by simp)
    have h2 : e.src < m + 1 := by omega
    simp [h2]; omega

theorem edgeCount_eq_live (g : GraphT) : g.edgeCount = g.live.length := by
  unfold GraphT.edgeCount GraphT.live
  rw [List.length_append]

/-- two graphs that answer `outgoing` alike for every node have the same number of edges -/
theorem edgeCount_of_outgoing_eq (g r : GraphT) (hg : ∀ e ∈ g.csr, e.src < g.csrNodes) (hr : ∀ e ∈ r.csr, e.src < r.csrNodes)
    (m : Nat) (hbg : ∀ e ∈ g.live, e.src ≤ m) (hbr : ∀ e ∈ r.live, e.src ≤ m)
    (hout : ∀ node, r.outgoing node = g.outgoing node) : r.edgeCount = g.edgeCount := by
  rw [edgeCount_eq_live, edgeCount_eq_live, length_by_rows r.live m hbr, length_by_rows g.live m hbg]
  congr 1
  apply List.map_congr_left
  intro n _
  have := congrArg List.length (hout n)
  unfold GraphT.outgoing at this
  rw [List.length_map, List.length_map, outEdges_eq_of_rows r hr, outEdges_eq_of_rows g hg] at this
  exact this

theorem restoreWith_live_bound (keep : Bool) (s : GraphSnap) :
    ∃ m, ∀ e ∈ (GraphT.restoreWith keep s).live, e.src ≤ m := by
  have hs := restore_start_inv s.types
  obtain ⟨hinv, _, _, _⟩ := restore_fold keep s.types s.edges _ hs.1 rfl
  refine ⟨_, fun e he => hinv.bound e ?_⟩
  exact mem_live _ e he

/-! ### blob log: the counters are functions of the index -/

structure BlobLog.Inv (b : BlobLog) : Prop where
  bytes : b.totalBytes = (b.index.map (fun p => p.2.len)).sum
  count : b.chunkCount = b.index.length

theorem BlobLog.new_inv (seg : Nat) : (BlobLog.new seg).Inv := ⟨rfl, rfl⟩

theorem BlobLog.append_inv (b : BlobLog) (hash : Nat) (data : Bytes) (h : b.Inv) : (b.append hash data).Inv := by
  unfold BlobLog.append
  cases hf : aFind hash b.index with
  | some loc => simpa using h
  | none =>
    have hk : hash ∉ aKeys b.index := by
      intro hm
      rw [← aFind_isSome_iff_mem, hf] at hm
      simp at hm
    simp only [Option.isSome_none, Bool.false_eq_true, if_false]
    split
    · refine ⟨?_, ?_⟩
      · simp only; rw [aInsert_of_not_mem hash _ b.index hk]; simp [h.bytes]
      · simp only; rw [aInsert_of_not_mem hash _ b.index hk]; simp [h.count]
    · split
      · refine ⟨?_, ?_⟩
        · simp only; rw [aInsert_of_not_mem hash _ b.index hk]; simp [h.bytes]
        · simp only; rw [aInsert_of_not_mem hash _ b.index hk]; simp [h.count]
      · refine ⟨?_, ?_⟩
        · simp only; rw [aInsert_of_not_mem hash _ b.index hk]; simp [h.bytes]
        · simp only; rw [aInsert_of_not_mem hash _ b.index hk]; simp [h.count]

theorem BlobLog.mark_inv (b : BlobLog) (hash : Nat) (h : b.Inv) : (b.markGarbage hash).Inv := by
  unfold BlobLog.markGarbage
  split
  · exact ⟨h.bytes, h.count⟩
  · exact h

theorem BlobLog.run_inv (b : BlobLog) (ops : List BOp) (h : b.Inv) : (b.run ops).Inv := by
  unfold BlobLog.run
  induction ops generalizing b with
  | nil => exact h
  | cons op ops ih =>
    apply ih
    cases op with
    | append hsh d => exact BlobLog.append_inv b hsh d h
    | mark hsh => exact BlobLog.mark_inv b hsh h

end Neumann.Snap
