import NeumannModel.Snap.LoopLemmas
/-
  Helper lemmas for the Bloom filter in front of the router (C07, `TStore` of Store.lean): which keys
  `exists` can answer `true` for after each router operation (only the key just put, or a key it
  answered `true` for before), and the invariant "every key the router holds has been told to the
  filter". Core Lean only.
-/
namespace Neumann.Snap

/-! ### cache ring: `contains` as "some slot holds the key" -/

theorem contains_iff (c : Cache) (key : Name) :
    c.contains key = true ↔ ∃ (j : Nat) (e : CEntry), c.slots[j]? = some (some e) ∧ e.key = key := by
  unfold Cache.contains
  constructor
  · intro h
    cases hf : findSlot key c.slots 0 with
    | none => rw [hf] at h; simp at h
    | some i =>
      obtain ⟨e, he, hk⟩ := findSlot_some_spec key c.slots i hf
      exact ⟨i, e, he, hk⟩
  · rintro ⟨j, e, hj, hk⟩
    cases hf : findSlot key c.slots 0 with
    | none => exact absurd hk (findSlot_none_spec key c.slots hf j e hj)
    | some i => rfl

theorem getElem?_set_some_imp {α : Type} (l : List α) (i j : Nat) (x y : α) (h : (l.set i x)[j]? = some y) :
    (i = j ∧ y = x) ∨ (i ≠ j ∧ l[j]? = some y) := by
  rw [List.getElem?_set] at h
  by_cases hij : i = j
  · simp only [hij, if_true] at h
    split at h
    · simp only [Option.some.injEq] at h
      exact Or.inl ⟨hij, h.symm⟩
    · simp at h
  · simp only [hij, if_false] at h
    exact Or.inr ⟨hij, h⟩

theorem cache_put_contains_imp (c : Cache) (k : Name) (val : TData) (cost size victim : Nat) (key : Name)
    (h : (c.put k val cost size victim).contains key = true) : key = k ∨ c.contains key = true := by
  rw [contains_iff] at h
  obtain ⟨j, e, hj, hk⟩ := h
  unfold Cache.put at hj
  cases hf : findSlot k c.slots 0 with
  | some i =>
    obtain ⟨e0, he0, hk0⟩ := findSlot_some_spec k c.slots i hf
    rw [hf] at hj
    simp only [he0] at hj
    rcases getElem?_set_some_imp _ _ _ _ _ hj with ⟨_, hy⟩ | ⟨_, hy⟩
    · simp only [Option.some.injEq] at hy
      subst hy
      exact Or.inl (hk.symm.trans hk0)
    · exact Or.inr ((contains_iff c key).mpr ⟨j, e, hy, hk⟩)
  | none =>
    rw [hf] at hj
    simp only at hj
    rcases getElem?_set_some_imp _ _ _ _ _ hj with ⟨_, hy⟩ | ⟨_, hy⟩
    · simp only [Option.some.injEq] at hy
      subst hy
      exact Or.inl hk.symm
    · exact Or.inr ((contains_iff c key).mpr ⟨j, e, hy, hk⟩)

theorem cache_delete_contains_imp (c : Cache) (k key : Name) (h : (c.delete k).contains key = true) :
    c.contains key = true := by
  rw [contains_iff] at h
  obtain ⟨j, e, hj, hk⟩ := h
  unfold Cache.delete at hj
  cases hf : findSlot k c.slots 0 with
  | some i =>
    rw [hf] at hj
    simp only at hj
    rcases getElem?_set_some_imp _ _ _ _ _ hj with ⟨_, hy⟩ | ⟨_, hy⟩
    · simp at hy
    · exact (contains_iff c key).mpr ⟨j, e, hy, hk⟩
  | none =>
    rw [hf] at hj
    exact (contains_iff c key).mpr ⟨j, e, hj, hk⟩

theorem cache_touch_contains_imp (c : Cache) (k key : Name) (h : (c.touch k).contains key = true) :
    c.contains key = true := by
  rw [contains_iff] at h
  obtain ⟨j, e, hj, hk⟩ := h
  unfold Cache.touch at hj
  cases hf : findSlot k c.slots 0 with
  | some i =>
    obtain ⟨e0, he0, hk0⟩ := findSlot_some_spec k c.slots i hf
    rw [hf] at hj
    simp only [he0] at hj
    rcases getElem?_set_some_imp _ _ _ _ _ hj with ⟨hij, hy⟩ | ⟨_, hy⟩
    · simp only [Option.some.injEq] at hy
      subst hy
      subst hij
      exact (contains_iff c key).mpr ⟨i, e0, he0, hk⟩
    · exact (contains_iff c key).mpr ⟨j, e, hy, hk⟩
  | none =>
    rw [hf] at hj
    exact (contains_iff c key).mpr ⟨j, e, hj, hk⟩

theorem cache_replicate_contains (cap n : Nat) (key : Name) : (⟨cap, List.replicate n none⟩ : Cache).contains key = false := by
  cases h : (⟨cap, List.replicate n none⟩ : Cache).contains key with
  | false => rfl
  | true =>
    obtain ⟨j, e, hj, _⟩ := (contains_iff _ key).mp h
    simp only [List.getElem?_replicate] at hj
    split at hj <;> simp at hj

theorem cache_peek_contains (c : Cache) (key : Name) (h : (c.peek key).isSome) : c.contains key = true := by
  unfold Cache.peek at h
  unfold Cache.contains
  cases hf : findSlot key c.slots 0 with
  | none => rw [hf] at h; simp at h
  | some i => rfl

/-! ### entity index and metadata map -/

theorem findLiveFrom_mono (tomb tomb' : List Nat) (hsub : ∀ x, x ∈ tomb → x ∈ tomb') (key : Name) (vocab : List Name) (i : Nat)
    (h : (findLiveFrom tomb' key vocab i).isSome) : (findLiveFrom tomb key vocab i).isSome := by
  induction vocab generalizing i with
  | nil => simp [findLiveFrom] at h
  | cons k ks ih =>
    simp only [findLiveFrom] at h ⊢
    by_cases hk : k = key ∧ ¬ i ∈ tomb
    · simp [hk]
    · simp only [hk, if_false]
      by_cases hk' : k = key ∧ ¬ i ∈ tomb'
      · exact absurd ⟨hk'.1, fun hm => hk'.2 (hsub i hm)⟩ hk
      · simp only [hk', if_false] at h
        exact ih (i + 1) h

theorem remove_get_imp (ix : EIndex) (k key : Name) (h : ((ix.remove k).get key).isSome) : (ix.get key).isSome := by
  unfold EIndex.remove at h
  cases hg : ix.get k with
  | none => rw [hg] at h; exact h
  | some id =>
    rw [hg] at h
    simp only [EIndex.get] at h ⊢
    apply findLiveFrom_mono ix.tomb _ _ key ix.vocab 0 h
    intro x hx
    split
    · exact hx
    · exact List.mem_cons_of_mem _ hx

theorem aFind_aErase_imp {κ ν : Type} [DecidableEq κ] (k key : κ) (l : List (κ × ν)) (h : (aFind key (aErase k l)).isSome) :
    (aFind key l).isSome := by
  rw [aFind_isSome_iff_mem] at h ⊢
  exact aKeys_aErase_sub k l key h

/-! ### the router: which keys `exists` answers `true` for after an operation -/

theorem exists_put_imp (r : Router) (k : Name) (v : TData) (victim : Nat) (key : Name)
    (h : (r.put k v victim).exists key = true) : key = k ∨ r.exists key = true := by
  by_cases hkk : key = k
  · exact Or.inl hkk
  · right
    unfold Router.put at h
    unfold Router.exists at h ⊢
    cases hc : classifyKey k with
    | embedding =>
      rw [hc] at h
      simp only at h
      cases hc' : classifyKey key with
      | embedding =>
        rw [hc'] at h
        simp only at h ⊢
        rw [getOrCreate_get_ne r.index k key hkk, aFind_aInsert_ne k key v r.md hkk] at h
        exact h
      | cache => rw [hc'] at h; exact h
      | graph => rw [hc'] at h; simp only at h ⊢; rw [aFind_aInsert_ne k key v r.md hkk] at h; exact h
      | table => rw [hc'] at h; simp only at h ⊢; rw [aFind_aInsert_ne k key v r.md hkk] at h; exact h
      | metadata => rw [hc'] at h; simp only at h ⊢; rw [aFind_aInsert_ne k key v r.md hkk] at h; exact h
    | cache =>
      rw [hc] at h
      simp only at h
      cases hc' : classifyKey key with
      | cache =>
        rw [hc'] at h
        simp only at h ⊢
        rcases cache_put_contains_imp _ _ _ _ _ _ _ h with h1 | h1
        · exact absurd h1 hkk
        · exact h1
      | embedding => rw [hc'] at h; exact h
      | graph => rw [hc'] at h; exact h
      | table => rw [hc'] at h; exact h
      | metadata => rw [hc'] at h; exact h
    | graph =>
      rw [hc] at h
      simp only at h
      cases hc' : classifyKey key with
      | cache => rw [hc'] at h; exact h
      | embedding => rw [hc'] at h; simp only at h ⊢; rw [aFind_aInsert_ne k key v r.md hkk] at h; exact h
      | graph => rw [hc'] at h; simp only at h ⊢; rw [aFind_aInsert_ne k key v r.md hkk] at h; exact h
      | table => rw [hc'] at h; simp only at h ⊢; rw [aFind_aInsert_ne k key v r.md hkk] at h; exact h
      | metadata => rw [hc'] at h; simp only at h ⊢; rw [aFind_aInsert_ne k key v r.md hkk] at h; exact h
    | table =>
      rw [hc] at h
      simp only at h
      cases hc' : classifyKey key with
      | cache => rw [hc'] at h; exact h
      | embedding => rw [hc'] at h; simp only at h ⊢; rw [aFind_aInsert_ne k key v r.md hkk] at h; exact h
      | graph => rw [hc'] at h; simp only at h ⊢; rw [aFind_aInsert_ne k key v r.md hkk] at h; exact h
      | table => rw [hc'] at h; simp only at h ⊢; rw [aFind_aInsert_ne k key v r.md hkk] at h; exact h
      | metadata => rw [hc'] at h; simp only at h ⊢; rw [aFind_aInsert_ne k key v r.md hkk] at h; exact h
    | metadata =>
      rw [hc] at h
      simp only at h
      cases hc' : classifyKey key with
      | cache => rw [hc'] at h; exact h
      | embedding => rw [hc'] at h; simp only at h ⊢; rw [aFind_aInsert_ne k key v r.md hkk] at h; exact h
      | graph => rw [hc'] at h; simp only at h ⊢; rw [aFind_aInsert_ne k key v r.md hkk] at h; exact h
      | table => rw [hc'] at h; simp only at h ⊢; rw [aFind_aInsert_ne k key v r.md hkk] at h; exact h
      | metadata => rw [hc'] at h; simp only at h ⊢; rw [aFind_aInsert_ne k key v r.md hkk] at h; exact h

theorem exists_delete_imp (r : Router) (k key : Name) (h : (r.delete k).1.exists key = true) : r.exists key = true := by
  unfold Router.delete at h
  split at h
  · exact h
  · unfold Router.exists at h ⊢
    cases hc : classifyKey k with
    | embedding =>
      rw [hc] at h
      simp only at h
      cases hc' : classifyKey key with
      | embedding =>
        rw [hc'] at h
        simp only [Bool.or_eq_true] at h ⊢
        rcases h with h | h
        · exact Or.inl (remove_get_imp r.index k key h)
        · exact Or.inr (aFind_aErase_imp k key r.md h)
      | cache => rw [hc'] at h; exact h
      | graph => rw [hc'] at h; exact aFind_aErase_imp k key r.md h
      | table => rw [hc'] at h; exact aFind_aErase_imp k key r.md h
      | metadata => rw [hc'] at h; exact aFind_aErase_imp k key r.md h
    | cache =>
      rw [hc] at h
      simp only at h
      cases hc' : classifyKey key with
      | cache => rw [hc'] at h; exact cache_delete_contains_imp r.cache k key h
      | embedding => rw [hc'] at h; exact h
      | graph => rw [hc'] at h; exact h
      | table => rw [hc'] at h; exact h
      | metadata => rw [hc'] at h; exact h
    | graph =>
      rw [hc] at h
      simp only at h
      cases hc' : classifyKey key with
      | cache => rw [hc'] at h; exact h
      | embedding =>
        rw [hc'] at h
        simp only [Bool.or_eq_true] at h ⊢
        exact h.imp id (aFind_aErase_imp k key r.md)
      | graph => rw [hc'] at h; exact aFind_aErase_imp k key r.md h
      | table => rw [hc'] at h; exact aFind_aErase_imp k key r.md h
      | metadata => rw [hc'] at h; exact aFind_aErase_imp k key r.md h
    | table =>
      rw [hc] at h
      simp only at h
      cases hc' : classifyKey key with
      | cache => rw [hc'] at h; exact h
      | embedding =>
        rw [hc'] at h
        simp only [Bool.or_eq_true] at h ⊢
        exact h.imp id (aFind_aErase_imp k key r.md)
      | graph => rw [hc'] at h; exact aFind_aErase_imp k key r.md h
      | table => rw [hc'] at h; exact aFind_aErase_imp k key r.md h
      | metadata => rw [hc'] at h; exact aFind_aErase_imp k key r.md h
    | metadata =>
      rw [hc] at h
      simp only at h
      cases hc' : classifyKey key with
      | cache => rw [hc'] at h; exact h
      | embedding =>
        rw [hc'] at h
        simp only [Bool.or_eq_true] at h ⊢
        exact h.imp id (aFind_aErase_imp k key r.md)
      | graph => rw [hc'] at h; exact aFind_aErase_imp k key r.md h
      | table => rw [hc'] at h; exact aFind_aErase_imp k key r.md h
      | metadata => rw [hc'] at h; exact aFind_aErase_imp k key r.md h

theorem exists_touch_imp (r : Router) (k key : Name) (h : (r.touch k).exists key = true) : r.exists key = true := by
  unfold Router.touch at h
  cases hc : classifyKey k with
  | cache =>
    rw [hc] at h
    unfold Router.exists at h ⊢
    cases hc' : classifyKey key with
    | cache => rw [hc'] at h; exact cache_touch_contains_imp r.cache k key h
    | embedding => rw [hc'] at h; exact h
    | graph => rw [hc'] at h; exact h
    | table => rw [hc'] at h; exact h
    | metadata => rw [hc'] at h; exact h
  | embedding => rw [hc] at h; exact h
  | graph => rw [hc] at h; exact h
  | table => rw [hc] at h; exact h
  | metadata => rw [hc] at h; exact h

theorem exists_clear (r : Router) (key : Name) : r.clear.exists key = false := by
  unfold Router.clear Router.exists
  cases classifyKey key with
  | cache => exact cache_replicate_contains _ _ key
  | embedding => rfl
  | graph => rfl
  | table => rfl
  | metadata => rfl

theorem exists_new (cfg : RouterCfg) (key : Name) : (Router.new cfg).exists key = false := by
  unfold Router.new Router.exists
  cases classifyKey key with
  | cache => exact cache_replicate_contains _ _ key
  | embedding => rfl
  | graph => rfl
  | table => rfl
  | metadata => rfl

/-- a key `get` finds is a key `exists` answers `true` for (every key class) -/
theorem peek_isSome_exists (r : Router) (key : Name) (h : (r.peek key).isSome) : r.exists key = true := by
  unfold Router.peek at h
  unfold Router.exists
  cases hc : classifyKey key with
  | cache => rw [hc] at h; exact cache_peek_contains r.cache key h
  | embedding =>
    rw [hc] at h
    simp only at h ⊢
    cases hg : r.index.get key with
    | none => rw [hg] at h; simpa using h
    | some id => simp
  | graph => rw [hc] at h; exact h
  | table => rw [hc] at h; exact h
  | metadata => rw [hc] at h; exact h

/-- a key `exists` answers `true` for is listed by `scan("")` (every key class) -/
theorem exists_mem_scan (r : Router) (key : Name) (h : r.exists key = true) : key ∈ r.scan [] := by
  unfold Router.scan
  rw [List.mem_eraseDups]
  have hmd : (aFind key r.md).isSome → key ∈ (aKeys r.md).filter (fun k => ([] : Name).isPrefixOf k) := by
    intro hm
    rw [List.mem_filter]
    exact ⟨(aFind_isSome_iff_mem key r.md).mp hm, by simp⟩
  unfold Router.exists at h
  cases hc : classifyKey key with
  | cache =>
    rw [hc] at h
    apply List.mem_append_right
    obtain ⟨j, e, hj, hk⟩ := (contains_iff r.cache key).mp h
    unfold Cache.scanPrefix
    rw [List.mem_map]
    refine ⟨e, ?_, hk⟩
    rw [List.mem_filter]
    exact ⟨(mem_occupied r.cache.slots e).mpr ⟨j, hj⟩, by simp⟩
  | embedding =>
    rw [hc] at h
    simp only [Bool.or_eq_true] at h
    rcases h with h | h
    · cases hg : r.index.get key with
      | none => rw [hg] at h; simp at h
      | some id =>
        apply List.mem_append_left
        apply List.mem_append_right
        rw [List.mem_map]
        exact ⟨(key, id), scanLiveFrom_mem_of_find r.index.tomb key r.index.vocab 0 id hg, rfl⟩
    · exact List.mem_append_left _ (List.mem_append_left _ (hmd h))
  | graph => rw [hc] at h; exact List.mem_append_left _ (List.mem_append_left _ (hmd h))
  | table => rw [hc] at h; exact List.mem_append_left _ (List.mem_append_left _ (hmd h))
  | metadata => rw [hc] at h; exact List.mem_append_left _ (List.mem_append_left _ (hmd h))

/-! ### the filter covers the router -/

/-- every key the router answers `exists` for has been told to the filter (when there is one) -/
def TStore.Covers (s : TStore) : Prop :=
  ∀ added, s.filter = some added → ∀ key, s.router.exists key = true → key ∈ added

theorem covers_new (cfg : RouterCfg) (bloom : Bool) : (TStore.new cfg bloom).Covers := by
  intro added _ key h
  simp only [TStore.new] at h
  rw [exists_new] at h
  exact absurd h (by simp)

theorem covers_put (s : TStore) (k : Name) (v : TData) (victim : Nat) (h : s.Covers) : (s.put k v victim).Covers := by
  intro added hf key hex
  simp only [TStore.put, TStore.tell] at hf hex
  cases hs : s.filter with
  | none => rw [hs] at hf; simp at hf
  | some a =>
    rw [hs] at hf
    simp only [Option.map_some, Option.some.injEq] at hf
    subst hf
    rcases exists_put_imp s.router k v victim key hex with h1 | h1
    · subst h1; exact List.mem_cons_self
    · exact List.mem_cons_of_mem _ (h a hs key h1)

theorem covers_delete (s : TStore) (k : Name) (h : s.Covers) : (s.delete k).1.Covers := by
  intro added hf key hex
  simp only [TStore.delete] at hf hex
  exact h added hf key (exists_delete_imp s.router k key hex)

theorem covers_touch (fp : List Name → Name → Bool) (s : TStore) (k : Name) (h : s.Covers) : (s.touch fp k).Covers := by
  unfold TStore.touch
  split
  · intro added hf key hex
    exact h added hf key (exists_touch_imp s.router k key hex)
  · exact h

theorem covers_clear (s : TStore) : s.clear.Covers := by
  intro added _ key hex
  simp only [TStore.clear] at hex
  rw [exists_clear] at hex
  exact absurd hex (by simp)

theorem covers_restoreStart (s : TStore) : s.restoreStart.Covers := by
  intro added _ key hex
  simp only [TStore.restoreStart] at hex
  rw [exists_clear] at hex
  exact absurd hex (by simp)

theorem restoreStep_none (tell : Bool) (new : Router) (t : TStore) (key : Name) (h : new.peek key = none) :
    TStore.restoreStep tell new t key = t := by
  unfold TStore.restoreStep
  rw [h]

theorem restoreStep_some (tell : Bool) (new : Router) (t : TStore) (key : Name) (v : TData) (h : new.peek key = some v) :
    TStore.restoreStep tell new t key = ⟨t.router.put key v 0, if tell then t.tell key else t.filter⟩ := by
  unfold TStore.restoreStep
  rw [h]

theorem covers_restoreStep (new : Router) (t : TStore) (k : Name) (h : t.Covers) : (TStore.restoreStep true new t k).Covers := by
  cases hp : new.peek k with
  | none => rw [restoreStep_none true new t k hp]; exact h
  | some v =>
    rw [restoreStep_some true new t k v hp]
    exact covers_put t k v 0 h

theorem covers_fold_restoreStep (new : Router) (order : List Name) (t : TStore) (h : t.Covers) :
    (order.foldl (TStore.restoreStep true new) t).Covers := by
  induction order generalizing t with
  | nil => exact h
  | cons k ks ih => exact ih _ (covers_restoreStep new t k h)

/-- whatever the store and its filter held before: after `restore_from_bytes` the filter covers the router -/
theorem covers_restoreFromBytes (s : TStore) (new : Router) (order : List Name) : (s.restoreFromBytes new order).Covers :=
  covers_fold_restoreStep new order _ (covers_restoreStart s)

/-- the router of the store after the loop is the router-level loop's result, told or not -/
theorem fold_restoreStep_router (tell : Bool) (new : Router) (order : List Name) (t : TStore) :
    (order.foldl (TStore.restoreStep tell new) t).router =
      order.foldl (fun r key => r.putOpt key (new.peek key)) t.router := by
  induction order generalizing t with
  | nil => rfl
  | cons k ks ih =>
    simp only [List.foldl_cons]
    rw [ih]
    congr 1
    cases hp : new.peek k with
    | none => rw [restoreStep_none tell new t k hp]; rfl
    | some v => rw [restoreStep_some tell new t k v hp]; rfl

theorem restoreWith_router (tell : Bool) (s : TStore) (new : Router) (order : List Name) :
    (TStore.restoreWith tell s new order).router = restoreFromBytes s.router new order :=
  fold_restoreStep_router tell new order s.restoreStart

theorem fold_restoreStep_false_filter (new : Router) (order : List Name) (t : TStore) :
    (order.foldl (TStore.restoreStep false new) t).filter = t.filter := by
  induction order generalizing t with
  | nil => rfl
  | cons k ks ih =>
    simp only [List.foldl_cons]
    rw [ih]
    cases hp : new.peek k with
    | none => rw [restoreStep_none false new t k hp]
    | some v => rw [restoreStep_some false new t k v hp]; rfl

/-- the filter after the telling loop: what it held, and every key of `order` that `get` finds in `new` -/
theorem fold_restoreStep_filter_mem (new : Router) (order : List Name) (t : TStore) (a : List Name) (ha : t.filter = some a) :
    ∃ a', (order.foldl (TStore.restoreStep true new) t).filter = some a' ∧
      ∀ key, key ∈ a' ↔ (key ∈ a ∨ (key ∈ order ∧ (new.peek key).isSome)) := by
  induction order generalizing t a with
  | nil => exact ⟨a, ha, fun key => by simp⟩
  | cons k ks ih =>
    simp only [List.foldl_cons]
    cases hp : new.peek k with
    | none =>
      rw [restoreStep_none true new t k hp]
      obtain ⟨a', h1, h2⟩ := ih t a ha
      refine ⟨a', h1, fun key => ?_⟩
      rw [h2 key]
      constructor
      · rintro (h | ⟨h, h'⟩)
        · exact Or.inl h
        · exact Or.inr ⟨List.mem_cons_of_mem _ h, h'⟩
      · rintro (h | ⟨h, h'⟩)
        · exact Or.inl h
        · rcases List.mem_cons.mp h with h | h
          · subst h; rw [hp] at h'; simp at h'
          · exact Or.inr ⟨h, h'⟩
    | some v =>
      rw [restoreStep_some true new t k v hp]
      obtain ⟨a', h1, h2⟩ := ih ⟨t.router.put k v 0, t.tell k⟩ (k :: a) (by simp [TStore.tell, ha])
      refine ⟨a', h1, fun key => ?_⟩
      rw [h2 key]
      constructor
      · rintro (h | ⟨h, h'⟩)
        · rcases List.mem_cons.mp h with h | h
          · subst h; exact Or.inr ⟨List.mem_cons_self, by rw [hp]; rfl⟩
          · exact Or.inl h
        · exact Or.inr ⟨List.mem_cons_of_mem _ h, h'⟩
      · rintro (h | ⟨h, h'⟩)
        · exact Or.inl (List.mem_cons_of_mem _ h)
        · rcases List.mem_cons.mp h with h | h
          · subst h; exact Or.inl List.mem_cons_self
          · exact Or.inr ⟨h, h'⟩

theorem fold_cons_mem (order acc : List Name) (key : Name) :
    key ∈ order.foldl (fun added k => k :: added) acc ↔ (key ∈ order ∨ key ∈ acc) := by
  induction order generalizing acc with
  | nil => simp
  | cons k ks ih =>
    simp only [List.foldl_cons]
    rw [ih]
    simp only [List.mem_cons]
    constructor
    · rintro (h | h | h)
      · exact Or.inl (Or.inr h)
      · exact Or.inl (Or.inl h)
      · exact Or.inr h
    · rintro ((h | h) | h)
      · exact Or.inr (Or.inl h)
      · exact Or.inl h
      · exact Or.inr (Or.inr h)

/-- a loader that adds every scanned key to its new filter covers the loaded router -/
theorem covers_loadWithBloom (r : Router) (order : List Name) (hscan : ∀ k, k ∈ r.scan [] → k ∈ order) :
    (TStore.loadWithBloom r order).Covers := by
  intro added hf key hex
  simp only [TStore.loadWithBloom, Option.some.injEq] at hf hex
  subst hf
  rw [fold_cons_mem]
  exact Or.inl (hscan key (exists_mem_scan r key hex))

theorem covers_apply (fp : List Name → Name → Bool) (s : TStore) (op : TOp) (h : s.Covers) : (s.apply fp op).Covers := by
  cases op with
  | put k v victim => exact covers_put s k v victim h
  | delete k => exact covers_delete s k h
  | get k => exact covers_touch fp s k h
  | clear => exact covers_clear s
  | restore new order => exact covers_restoreFromBytes s new order

theorem covers_run (fp : List Name → Name → Bool) (s : TStore) (ops : List TOp) (h : s.Covers) : (s.run fp ops).Covers := by
  unfold TStore.run
  induction ops generalizing s with
  | nil => exact h
  | cons op ops ih => exact ih _ (covers_apply fp s op h)

/-- under the invariant the filter never changes an answer -/
theorem covers_transparent (fp : List Name → Name → Bool) (s : TStore) (h : s.Covers) (key : Name) :
    s.get fp key = s.router.peek key ∧ s.exists fp key = s.router.exists key := by
  unfold TStore.get TStore.exists TStore.passes
  cases hf : s.filter with
  | none => simp
  | some a =>
    simp only
    by_cases hex : s.router.exists key = true
    · have hm : key ∈ a := h a hf key hex
      simp [mightContain, hm]
    · have hex' : s.router.exists key = false := by simpa using hex
      have hp : s.router.peek key = none := by
        cases hp : s.router.peek key with
        | none => rfl
        | some v => exact absurd (peek_isSome_exists s.router key (by rw [hp]; rfl)) hex
      simp [hex', hp]

end Neumann.Snap
