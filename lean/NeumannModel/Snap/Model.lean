import NeumannModel.Codec.Model
/-
  Snapshot model (C07): executable, Mathlib-free mirror of
    tensor_store/src/snapshot.rs      (20-byte raw header, detect_version, save_v3*, load / load_v2 / load_v3)
    tensor_store/src/slab_router.rs   (to_bytes / from_bytes: header validated after the opaque decode)
    tensor_store/src/lib.rs           (save_snapshot_compressed / load_snapshot_compressed: the quantising format)
    tensor_store/src/embedding_slab.rs (CompressedEmbedding::from_dense / to_dense used by every v3 snapshot)
    tensor_compress/src/format.rs     (Header::validate, compress_vector, looks_like_id_list, decompress_vector)
  Third-party encoders (bitcode, zstd, tensor-train) are opaque: the body of a snapshot is a byte list and
  the decoders are fields of a `Codec` record about which the theorems state explicit hypotheses.
  Bytes are `Nat` (< 256 when well formed); f32/f64 are their IEEE bit patterns as `Nat`.
-/
namespace Neumann.Snap

abbrev Bytes := List Nat

/-! ## raw header (snapshot.rs `to_raw_bytes` / `from_raw_bytes`) -/

/-- `n` little-endian bytes of `v` -/
def leBytes : Nat → Nat → Bytes
  | 0, _ => []
  | k + 1, v => v % 256 :: leBytes k (v / 256)

def leVal : Bytes → Nat
  | [] => 0
  | b :: bs => b + 256 * leVal bs

structure Header where
  m0 : Nat
  m1 : Nat
  m2 : Nat
  m3 : Nat
  version : Nat      -- u32
  flags : Nat        -- u32
  entryCount : Nat   -- u64
  deriving Repr, DecidableEq

def U32 : Nat := 4294967296
def U64 : Nat := 18446744073709551616

/-- every field inside its machine width -/
def Header.WF (h : Header) : Prop :=
  h.m0 < 256 ∧ h.m1 < 256 ∧ h.m2 < 256 ∧ h.m3 < 256 ∧
  h.version < 4294967296 ∧ h.flags < 4294967296 ∧ h.entryCount < 18446744073709551616

instance (h : Header) : Decidable h.WF := by unfold Header.WF; infer_instance

def HEADER_SIZE : Nat := 20
def CURRENT_VERSION : Nat := 3
def FLAG_COMPRESSED : Nat := 1

/-- `to_raw_bytes` -/
def encodeHeader (h : Header) : Bytes :=
  [h.m0, h.m1, h.m2, h.m3] ++ leBytes 4 h.version ++ leBytes 4 h.flags ++ leBytes 8 h.entryCount

/-- `read_exact(&mut [0u8; 20])` + `from_raw_bytes`; `none` = fewer than 20 bytes (UnexpectedEof) -/
def decodeHeader : Bytes → Option (Header × Bytes)
  | m0 :: m1 :: m2 :: m3 :: v0 :: v1 :: v2 :: v3 :: f0 :: f1 :: f2 :: f3 ::
    c0 :: c1 :: c2 :: c3 :: c4 :: c5 :: c6 :: c7 :: rest =>
      some ({ m0 := m0, m1 := m1, m2 := m2, m3 := m3,
              version := leVal [v0, v1, v2, v3], flags := leVal [f0, f1, f2, f3],
              entryCount := leVal [c0, c1, c2, c3, c4, c5, c6, c7] }, rest)
  | _ => none

inductive Err where
  | invalidMagic
  | unsupportedVersion (v : Nat)
  | io          -- short read, missing file, zstd failure
  | ser         -- bitcode failure
  deriving Repr, DecidableEq

deriving instance DecidableEq for Except

/-- `b"NEUM"` -/
def isMagic (a b c d : Nat) : Bool := a == 78 && b == 69 && c == 85 && d == 77

def Header.magicOk (h : Header) : Bool := isMagic h.m0 h.m1 h.m2 h.m3

/-- `SnapshotHeader::validate` -/
def validate (h : Header) : Except Err Unit :=
  if !h.magicOk then .error .invalidMagic
  else if h.version ≠ CURRENT_VERSION then .error (.unsupportedVersion h.version)
  else .ok ()

/-- `is_compressed`: `flags & 1 != 0` -/
def Header.isCompressed (h : Header) : Bool := h.flags % 2 == 1

/-- `SnapshotHeader::new` / `new_compressed` -/
def newHeader (compress : Bool) (count : Nat) : Header :=
  { m0 := 78, m1 := 69, m2 := 85, m3 := 77, version := CURRENT_VERSION,
    flags := if compress then FLAG_COMPRESSED else 0, entryCount := count }

/-! ## format detection and load -/

inductive Version where
  | v2 | v3
  deriving Repr, DecidableEq

/-- `detect_version` on the file content (the file exists): fewer than 4 bytes ⇒ V2 -/
def detectVersion : Bytes → Version
  | a :: b :: c :: d :: _ => if isMagic a b c d then .v3 else .v2
  | _ => .v2

/-- The opaque third-party encoders of a snapshot body with content type `σ`. -/
structure Codec (σ : Type) where
  enc : σ → Bytes               -- `bitcode::serialize(&SlabRouterSnapshot)`
  dec : Bytes → Option σ        -- `bitcode::deserialize`
  zip : Bytes → Bytes           -- `zstd::encode_all(_, 3)`
  unzip : Bytes → Option Bytes  -- `zstd::decode_all`
  decV2 : Bytes → Option σ      -- legacy loader: bitcode `HashMap<String, TensorData>` + puts

/-- `load_v3` -/
def loadV3 {σ : Type} (C : Codec σ) (bs : Bytes) : Except Err σ :=
  match decodeHeader bs with
  | none => .error .io
  | some (h, body) =>
    match validate h with
    | .error e => .error e
    | .ok () =>
      if h.isCompressed then
        match C.unzip body with
        | none => .error .io
        | some raw =>
          match C.dec raw with
          | none => .error .ser
          | some s => .ok s
      else
        match C.dec body with
        | none => .error .ser
        | some s => .ok s

/-- `load_v2` -/
def loadV2 {σ : Type} (C : Codec σ) (bs : Bytes) : Except Err σ :=
  match C.decV2 bs with
  | none => .error .ser
  | some s => .ok s

/-- `load` on the content of an existing file -/
def loadBytes {σ : Type} (C : Codec σ) (bs : Bytes) : Except Err σ :=
  match detectVersion bs with
  | .v2 => loadV2 C bs
  | .v3 => loadV3 C bs

/-- Which loader / error a file content is routed to, before any opaque decoder runs
    (what the driver answers; the opaque outcome is constrained per route by the harness). -/
inductive Route where
  | v2                      -- legacy loader decides
  | errIo                   -- short header
  | err (e : Err)           -- header rejected
  | v3Plain                 -- bitcode on the remainder
  | v3Zstd                  -- zstd then bitcode on the remainder
  deriving Repr, DecidableEq

def route (bs : Bytes) : Route :=
  match detectVersion bs with
  | .v2 => .v2
  | .v3 =>
    match decodeHeader bs with
    | none => .errIo
    | some (h, _) =>
      match validate h with
      | .error e => .err e
      | .ok () => if h.isCompressed then .v3Zstd else .v3Plain

/-- `SlabRouter::from_bytes`: opaque decode of the whole `V3Snapshot` first, then `header.validate()` -/
def fromBytes {σ : Type} (decV3 : Bytes → Option (Header × σ)) (bs : Bytes) : Except Err σ :=
  match decV3 bs with
  | none => .error .ser
  | some (h, s) =>
    match validate h with
    | .error e => .error e
    | .ok () => .ok s

/-- the file bytes `save_v3_with_compression` produces -/
def fileBytes {σ : Type} (C : Codec σ) (compress : Bool) (count : Nat) (s : σ) : Bytes :=
  encodeHeader (newHeader compress count) ++ (if compress then C.zip (C.enc s) else C.enc s)

/-! ## the quantising format's header (tensor_compress/format.rs `Header::validate`) -/

def C_VERSION : Nat := 3

/-- magic must match, version must be ≤ 3 (older versions accepted) -/
def validateC (a b c d : Nat) (version : Nat) : Except Err Unit :=
  if !isMagic a b c d then .error .invalidMagic
  else if version > C_VERSION then .error (.unsupportedVersion version)
  else .ok ()

/-! ## temp path: `temp_path_for(path)`; before 56197952 `path.with_extension("tmp")` -/

/-- index of the last `'.'` strictly after position 0, if any (`rsplit_file_at_dot`) -/
def lastDotGo : List Char → Nat → Option Nat → Option Nat
  | [], _, acc => acc
  | c :: cs, i, acc => lastDotGo cs (i + 1) (if c = '.' ∧ i ≠ 0 then some i else acc)

/-- file stem as `Path::file_stem` computes it for a normal file name -/
def fileStem (name : List Char) : List Char :=
  match lastDotGo name 0 none with
  | none => name
  | some i => name.take i

/-- the code before 56197952: `with_extension("tmp")` on a file name (no separators, not `..`) -/
def tmpNameOld (name : List Char) : List Char := fileStem name ++ ['.', 't', 'm', 'p']

/-- `snapshot::temp_path_for`: `.tmp` appended to the whole name -/
def tmpName (name : List Char) : List Char := name ++ ['.', 't', 'm', 'p']

/-! ## file system, I/O operations and crash states -/

/-- a file: bytes already forced to disk, and bytes written but not yet fsynced -/
structure File where
  synced : Bytes
  pending : Bytes
  deriving Repr, DecidableEq

def File.content (f : File) : Bytes := f.synced ++ f.pending

/-- paths are any type with decidable equality; a file system maps paths to files -/
abbrev FS (π : Type) := π → Option File

def FS.set {π : Type} [DecidableEq π] (fs : FS π) (p : π) (f : Option File) : FS π :=
  fun q => if q = p then f else fs q

/-- `bs` written in place into content `c` from offset `off`: the bytes under it are replaced, a
    hole before `off` reads as zeros, and whatever lies beyond `off + bs.length` STAYS (no truncation) -/
def overlay (c : Bytes) (off : Nat) (bs : Bytes) : Bytes :=
  c.take off ++ List.replicate (off - c.length) 0 ++ bs ++ c.drop (off + bs.length)

inductive IoOp (π : Type) where
  | create (p : π)                 -- `File::create`: create or TRUNCATE (`O_CREAT|O_TRUNC`), offset 0
  | openKeep (p : π)               -- `OpenOptions::new().write(true).create(true)`: create if missing, an
                                   -- existing file keeps its content (`O_CREAT` without `O_TRUNC`), offset 0
  | write (p : π) (bs : Bytes)     -- `write_all` through the descriptor of a `create`: appends
  | writeAt (p : π) (off : Nat) (bs : Bytes) -- `write_all` through a descriptor positioned at `off`: overwrites in place
  | fsync (p : π)                  -- `sync_all`
  | rename (src dst : π)           -- `std::fs::rename` (atomic)

/-- After an in-place overwrite the whole content counts as un-synced until the next `fsync`
    (block-level mixtures under power loss are not modelled for `writeAt`; no save of the code uses it). -/
def applyOp {π : Type} [DecidableEq π] (fs : FS π) : IoOp π → FS π
  | .create p => fs.set p (some ⟨[], []⟩)
  | .openKeep p =>
    match fs p with
    | none => fs.set p (some ⟨[], []⟩)
    | some _ => fs
  | .write p bs =>
    match fs p with
    | none => fs
    | some f => fs.set p (some ⟨f.synced, f.pending ++ bs⟩)
  | .writeAt p off bs =>
    match fs p with
    | none => fs
    | some f => fs.set p (some ⟨[], overlay f.content off bs⟩)
  | .fsync p =>
    match fs p with
    | none => fs
    | some f => fs.set p (some ⟨f.synced ++ f.pending, []⟩)
  | .rename a b =>
    if a = b then fs
    else match fs a with
      | none => fs
      | some f => (fs.set b (some f)).set a none

def applyOps {π : Type} [DecidableEq π] (fs : FS π) : List (IoOp π) → FS π
  | [] => fs
  | op :: ops => applyOps (applyOp fs op) ops

/-- create temp / write header / write body / (`sync_all`) / rename -/
def saveOpsWith {π : Type} (tmp path : π) (hdr body : Bytes) (fsyncFirst : Bool) : List (IoOp π) :=
  [.create tmp, .write tmp hdr, .write tmp body] ++
  (if fsyncFirst then [.fsync tmp] else []) ++ [.rename tmp path]

/-- the exact operation sequence of `save_v3_with_compression`: `File::create(temp)`, `write_all(header)`,
    `write_all(body)`, `sync_all()`, `rename(temp, path)` -/
def saveOps {π : Type} (tmp path : π) (hdr body : Bytes) : List (IoOp π) := saveOpsWith tmp path hdr body true

/-- the sequence before 56197952: no `sync_all` -/
def saveOpsOld {π : Type} (tmp path : π) (hdr body : Bytes) : List (IoOp π) := saveOpsWith tmp path hdr body false

/-- one `write_all` of the whole blob, (`sync_all`), rename -/
def saveOpsQWith {π : Type} (tmp path : π) (blob : Bytes) (fsyncFirst : Bool) : List (IoOp π) :=
  [.create tmp, .write tmp blob] ++ (if fsyncFirst then [.fsync tmp] else []) ++ [.rename tmp path]

/-- `save_snapshot_compressed`: `File::create(temp)`, one `write_all` of the whole bitcode blob, `sync_all()`, rename -/
def saveOpsQ {π : Type} (tmp path : π) (blob : Bytes) : List (IoOp π) := saveOpsQWith tmp path blob true

def saveOpsQOld {π : Type} (tmp path : π) (blob : Bytes) : List (IoOp π) := saveOpsQWith tmp path blob false

/-- NOT the code: the save sequence with the temp file opened WITHOUT truncation
    (`OpenOptions::new().write(true).create(true)` instead of `File::create`): header at offset 0,
    body behind it, `sync_all`, rename. With no leftover temp file it behaves like `saveOps`. -/
def saveOpsKeep {π : Type} (tmp path : π) (hdr body : Bytes) : List (IoOp π) :=
  [.openKeep tmp, .writeAt tmp 0 hdr, .writeAt tmp hdr.length body, .fsync tmp, .rename tmp path]

/-- NOT the code: the quantising save with the temp file opened without truncation -/
def saveOpsQKeep {π : Type} (tmp path : π) (blob : Bytes) : List (IoOp π) :=
  [.openKeep tmp, .writeAt tmp 0 blob, .fsync tmp, .rename tmp path]

/-- states in which the machine can stop *while* `op` runs: the state before it and, for a write,
    every strict byte prefix of the data already applied -/
def partials {π : Type} [DecidableEq π] (fs : FS π) : IoOp π → List (FS π)
  | .write p bs => (List.range bs.length).map (fun k => applyOp fs (.write p (bs.take k)))
  | .writeAt p off bs => (List.range bs.length).map (fun k => applyOp fs (.writeAt p off (bs.take k)))
  | _ => [fs]

/-- the `k`-th element of `partials fs op`, computed directly (`Props.partialAt_eq`) -/
def partialAt {π : Type} [DecidableEq π] (fs : FS π) (op : IoOp π) (k : Nat) : Option (FS π) :=
  match op with
  | .write p bs => if k < bs.length then some (applyOp fs (.write p (bs.take k))) else none
  | .writeAt p off bs => if k < bs.length then some (applyOp fs (.writeAt p off (bs.take k))) else none
  | _ => if k = 0 then some fs else none

/-- all crash states of an operation sequence (process crash: completed writes stay, the write in
    flight is cut at any byte, rename is atomic) -/
def crashStates {π : Type} [DecidableEq π] (fs : FS π) : List (IoOp π) → List (FS π)
  | [] => [fs]
  | op :: ops => partials fs op ++ crashStates (applyOp fs op) ops

/-- directory states reachable from `fs0` by any number of saves to the same path, EACH interrupted
    at any crash point (the list holds the header / body of every interrupted save, oldest first) -/
inductive AfterCrashes {π : Type} [DecidableEq π] (tmp path : π) (fs0 : FS π) : List (Bytes × Bytes) → FS π → Prop where
  | none : AfterCrashes tmp path fs0 [] fs0
  | more {saves : List (Bytes × Bytes)} {st st' : FS π} (hb : Bytes × Bytes) :
      AfterCrashes tmp path fs0 saves st → st' ∈ crashStates st (saveOps tmp path hb.1 hb.2) →
      AfterCrashes tmp path fs0 (saves ++ [hb]) st'

/-- power loss on top of a crash state: a file's un-fsynced bytes may be cut at any byte -/
def PowerLossContent {π : Type} (st : FS π) (p : π) (bs : Bytes) : Prop :=
  ∃ f, st p = some f ∧ ∃ k, k ≤ f.pending.length ∧ bs = f.synced ++ f.pending.take k

/-- `load` of a path in a file system -/
def loadPath {π : Type} {σ : Type} (C : Codec σ) (fs : FS π) (p : π) : Except Err σ :=
  match fs p with
  | none => .error .io
  | some f => loadBytes C f.content

/-! ## f32 bit patterns (pure data movement plus the two `as` casts `compress_vector` uses) -/

def f32Sign (b : Nat) : Nat := b / 2147483648 % 2
def f32Exp (b : Nat) : Nat := b / 8388608 % 256
def f32Man (b : Nat) : Nat := b % 8388608
def f32Mag (b : Nat) : Nat := b % 2147483648
def f32IsNaN (b : Nat) : Bool := f32Exp b == 255 && f32Man b != 0

/-- `x < y` on f32 (false with NaN, `-0.0 == 0.0`) -/
def f32Lt (x y : Nat) : Bool :=
  if f32IsNaN x || f32IsNaN y then false
  else
    let kx : Int := if f32Sign x == 1 then -(f32Mag x : Int) else (f32Mag x : Int)
    let ky : Int := if f32Sign y == 1 then -(f32Mag y : Int) else (f32Mag y : Int)
    decide (kx < ky)

/-- `x < 0.0` -/
def f32Neg (x : Nat) : Bool := !f32IsNaN x && f32Sign x == 1 && f32Mag x != 0

/-- `x.fract() != 0.0` (NaN and ±inf give NaN, which is `!= 0.0`) -/
def f32FractNonZero (x : Nat) : Bool :=
  let e := f32Exp x
  if e == 255 then true
  else if e ≥ 150 then false
  else if e < 127 then f32Mag x != 0
  else f32Man x % 2 ^ (150 - e) != 0

/-- `x as u64` (saturating; NaN and negatives ↦ 0) -/
def f32ToU64 (x : Nat) : Nat :=
  let e := f32Exp x
  if f32IsNaN x then 0
  else if f32Sign x == 1 then 0
  else if e == 255 then U64 - 1
  else if e < 127 then 0
  else
    let sig := 8388608 + f32Man x
    let v := if e ≥ 150 then sig * 2 ^ (e - 150) else sig / 2 ^ (150 - e)
    if v ≥ U64 then U64 - 1 else v

/-- floor(log2 n) for `n < 2^fuel` (structural, so that it reduces in the kernel) -/
def log2Fuel : Nat → Nat → Nat
  | 0, _ => 0
  | f + 1, n => if n ≥ 2 then log2Fuel f (n / 2) + 1 else 0

/-- `n as f32` for `n : u64` (round to nearest, ties to even) -/
def u64ToF32 (n : Nat) : Nat :=
  if n = 0 then 0
  else
    let k := log2Fuel 64 n
    if k ≤ 23 then (127 + k) * 8388608 + (n * 2 ^ (23 - k) - 8388608)
    else
      let sh := k - 23
      let q := n / 2 ^ sh
      let r := n % 2 ^ sh
      let half := 2 ^ (sh - 1)
      let q' := if r > half || (r == half && q % 2 == 1) then q + 1 else q
      if q' == 16777216 then (127 + k + 1) * 8388608
      else (127 + k) * 8388608 + (q' - 8388608)

/-- `i as f32` for `i : i64` -/
def i64ToF32 (i : Int) : Nat :=
  if i < 0 then 2147483648 + u64ToF32 i.natAbs else u64ToF32 i.natAbs

/-! ## the embedding slab's snapshot form (every v3 snapshot; embedding_slab.rs) -/

def TT_MIN_DIMENSION : Nat := 256
/-- bit pattern of `1e-6_f32` -/
def EPS_BITS : Nat := 897988541

/-- `v.abs() > 1e-6` (false for NaN) -/
def isBig (b : Nat) : Bool := decide (f32Mag b > EPS_BITS) && decide (f32Mag b ≤ 2139095040)

inductive CEmb where
  | dense (v : List Nat)
  | sparse (dim : Nat) (positions : List Nat) (values : List Nat)
  | tt (orig : List Nat)        -- tensor-train cores: opaque, carries the input
  deriving Repr, DecidableEq

/-- positions / values kept by the sparse form, for a "keep this entry" criterion -/
def sparsePositionsBy (keep : Nat → Bool) (i : Nat) : List Nat → List Nat
  | [] => []
  | b :: bs => if keep b && decide (i < U32) then i :: sparsePositionsBy keep (i + 1) bs else sparsePositionsBy keep (i + 1) bs

def sparseValuesBy (keep : Nat → Bool) (i : Nat) : List Nat → List Nat
  | [] => []
  | b :: bs => if keep b && decide (i < U32) then b :: sparseValuesBy keep (i + 1) bs else sparseValuesBy keep (i + 1) bs

/-- `v.to_bits() != 0`: everything but `+0.0` -/
def notPlusZero (b : Nat) : Bool := b != 0

/-- `if v.to_bits() != 0`: every entry that is not exactly `+0.0` is kept -/
def sparsePositions (i : Nat) (v : List Nat) : List Nat := sparsePositionsBy notPlusZero i v
def sparseValues (i : Nat) (v : List Nat) : List Nat := sparseValuesBy notPlusZero i v

/-- before 56197952: `if v.abs() > 1e-6` -/
def sparsePositionsOld (i : Nat) (v : List Nat) : List Nat := sparsePositionsBy isBig i v
def sparseValuesOld (i : Nat) (v : List Nat) : List Nat := sparseValuesBy isBig i v

def countBig : List Nat → Nat
  | [] => 0
  | b :: bs => (if isBig b then 1 else 0) + countBig bs

/-- `CompressedEmbedding::from_dense`; `ttOk` = "TTConfig::for_dim and tt_decompose succeed" (opaque).
    The `|x| > 1e-6` count only picks the form; the sparse form itself keeps every non-`+0.0` entry. -/
def fromDense (ttOk : List Nat → Bool) (v : List Nat) : CEmb :=
  if v.isEmpty then .dense []
  else if countBig v * 2 ≤ v.length then .sparse v.length (sparsePositions 0 v) (sparseValues 0 v)
  else if v.length ≥ TT_MIN_DIMENSION && ttOk v then .tt v
  else .dense v

/-- `from_dense` before 56197952: the sparse form dropped every entry with `|x| ≤ 1e-6` (and NaN) -/
def fromDenseOld (ttOk : List Nat → Bool) (v : List Nat) : CEmb :=
  if v.isEmpty then .dense []
  else if countBig v * 2 ≤ v.length then .sparse v.length (sparsePositionsOld 0 v) (sparseValuesOld 0 v)
  else if v.length ≥ TT_MIN_DIMENSION && ttOk v then .tt v
  else .dense v

/-- `if let Some(slot) = dense.get_mut(pos) { *slot = val }` over `positions.zip(values)`
    (`List.set` leaves the list alone when the position is out of range) -/
def scatter (d : List Nat) : List Nat → List Nat → List Nat
  | p :: ps, x :: xs => scatter (d.set p x) ps xs
  | _, _ => d

/-- `to_dense`; `ttRecon` = `tt_reconstruct ∘ tt_decompose` (opaque, lossy) -/
def toDense (ttRecon : List Nat → List Nat) : CEmb → List Nat
  | .dense v => v
  | .sparse dim ps xs => scatter (List.replicate dim 0) ps xs
  | .tt orig => ttRecon orig

/-! ## the quantising format's value map (lib.rs save/load_snapshot_compressed + format.rs) -/

inductive Scalar where
  | null
  | bool (b : Bool)
  | int (i : Int)
  | float (bits : Nat)
  | str (s : String)
  | bytes (b : List Nat)
  deriving Repr, DecidableEq

inductive TValue where
  | scalar (s : Scalar)
  | vector (v : List Nat)
  | sparse (dim : Nat) (positions : List Nat) (values : List Nat)
  | pointer (p : String)
  | pointers (ps : List String)
  deriving Repr, DecidableEq

/-- `CompressedScalar` (`Bytes` appended last by 79f86251) -/
inductive CScalar where
  | int (i : Int)
  | float (bits : Nat)
  | str (s : String)
  | bool (b : Bool)
  | null
  | bytes (b : List Nat)
  deriving Repr, DecidableEq

inductive CValue where
  | scalar (s : CScalar)
  | vectorRaw (v : List Nat)
  | vectorTT (orig : List Nat)
  | vectorSparse (dim : Nat) (posBytes : List Nat) (values : List Nat)
  | idList (bytes : List Nat)
  | rleInt (values : List Int) (runs : List Nat)
  | pointer (p : String)
  | pointers (ps : List String)
  deriving Repr, DecidableEq

structure CConfig where
  ttMode : Bool      -- `tensor_mode = Some(TensorTrain(_))`
  delta : Bool       -- `delta_encoding`
  rle : Bool         -- `rle_encoding` (unused by the save path)
  deriving Repr, DecidableEq

/-- the scalar arm of `save_snapshot_compressed` -/
def compressScalar : Scalar → CScalar
  | .null => .null
  | .bool b => .bool b
  | .int i => .int i
  | .float f => .float f
  | .str s => .str s
  | .bytes b => .bytes b

/-- the scalar arm before 79f86251: `Bytes(b)` ↦ `String(format!("bytes:{}", b.len()))` -/
def compressScalarOld : Scalar → CScalar
  | .bytes b => .str ("bytes:" ++ toString b.length)
  | s => compressScalar s

/-- the scalar arm of `load_snapshot_compressed` -/
def decompressScalar : CScalar → Scalar
  | .null => .null
  | .bool b => .bool b
  | .int i => .int i
  | .float f => .float f
  | .str s => .str s
  | .bytes b => .bytes b

/-- keys and field names are character lists (so that the predicates below reduce in the kernel) -/
abbrev Name := List Char

/-- `key.starts_with("emb:") || field_name == "_embedding" || field_name == "vector"` -/
def isEmbeddingField (key field : Name) : Bool :=
  "emb:".toList.isPrefixOf key || field == "_embedding".toList || field == "vector".toList

/-- `field_name == "ids" || field_name.ends_with("_ids")` -/
def isIdFieldName (field : Name) : Bool :=
  field == "ids".toList || "_ids".toList.isSuffixOf field

def nondecreasingIntegral (prev : Nat) : List Nat → Bool
  | [] => true
  | v :: vs => if f32Lt v prev || f32Neg v || f32FractNonZero v then false else nondecreasingIntegral v vs

/-- `looks_like_id_list` -/
def looksLikeIdList (v : List Nat) (field : Name) : Bool :=
  if isIdFieldName field then true
  else match v with
    | [] => false
    | [_] => false
    | x :: rest => if f32Neg x || f32FractNonZero x then false else nondecreasingIntegral x rest

/-- `compress_vector`: the id-list encoding is used only when every value survives
    `f32 → u64 → f32` bit for bit -/
def compressVector (cfg : CConfig) (key field : Name) (v : List Nat) : CValue :=
  if isEmbeddingField key field && cfg.ttMode then .vectorTT v
  else if cfg.delta && looksLikeIdList v field && ((v.map f32ToU64).map u64ToF32 == v) then
    .idList (Codec.compressIds (v.map f32ToU64))
  else .vectorRaw v

/-- `compress_vector` before 56197952: no round-trip guard on the id-list branch -/
def compressVectorOld (cfg : CConfig) (key field : Name) (v : List Nat) : CValue :=
  if isEmbeddingField key field && cfg.ttMode then .vectorTT v
  else if cfg.delta && looksLikeIdList v field then .idList (Codec.compressIds (v.map f32ToU64))
  else .vectorRaw v

/-- `SparseVector::to_dense` -/
def sparseToDense (dim : Nat) (ps xs : List Nat) : List Nat := scatter (List.replicate dim 0) ps xs

/-- one field of `save_snapshot_compressed`; a sparse value goes through `compress_sparse`
    (positions as a delta/varint id list, values raw) -/
def compressValue (cfg : CConfig) (key field : Name) : TValue → CValue
  | .scalar s => .scalar (compressScalar s)
  | .vector v => compressVector cfg key field v
  | .sparse dim ps xs => .vectorSparse dim (Codec.compressIds ps) xs
  | .pointer p => .pointer p
  | .pointers ps => .pointers ps

/-- one field of the save before the two fixes: bytes placeholder, sparse densified, unguarded id lists -/
def compressValueOld (cfg : CConfig) (key field : Name) : TValue → CValue
  | .scalar s => .scalar (compressScalarOld s)
  | .vector v => compressVectorOld cfg key field v
  | .sparse dim ps xs => compressVectorOld cfg key field (sparseToDense dim ps xs)
  | .pointer p => .pointer p
  | .pointers ps => .pointers ps

/-- one field of `load_snapshot_compressed`; `ttRecon` opaque -/
def decompressValue (ttRecon : List Nat → List Nat) : CValue → TValue
  | .scalar s => .scalar (decompressScalar s)
  | .vectorRaw v => .vector v
  | .vectorSparse dim pb xs => .sparse dim ((Codec.decompressIds pb).map (· % U32)) xs
  | .vectorTT orig => .vector (ttRecon orig)
  | .idList bs => .vector ((Codec.decompressIds bs).map u64ToF32)
  | .rleInt vals runs => .vector ((Codec.rleDecodeRaw vals runs).map i64ToF32)
  | .pointer p => .pointer p
  | .pointers ps => .pointers ps

/-- save then load of one field through the quantising format -/
def roundValue (ttRecon : List Nat → List Nat) (cfg : CConfig) (key field : Name) (v : TValue) : TValue :=
  decompressValue ttRecon (compressValue cfg key field v)

/-- the same through the save arm before the fixes (the load arm only gained the `Bytes` case) -/
def roundValueOld (ttRecon : List Nat → List Nat) (cfg : CConfig) (key field : Name) (v : TValue) : TValue :=
  decompressValue ttRecon (compressValueOld cfg key field v)

end Neumann.Snap
