import NeumannModel.Common.Proto
import NeumannModel.Snap.Model
import NeumannModel.Snap.Store
/- Line-protocol driver for the snapshot model (C07). -/
open Neumann Neumann.Proto Neumann.Snap

def strOfHex (h : String) : Option String :=
  match unhex h with
  | none => none
  | some bs => String.fromUTF8? (ByteArray.mk (bs.map (fun b => b.toUInt8)).toArray)

def hexOfStr (s : String) : String := hex (s.toUTF8.toList.map (·.toNat))

def showErr : Err → String
  | .invalidMagic => "invalid_magic"
  | .unsupportedVersion v => s!"unsupported:{v}"
  | .io => "io"
  | .ser => "ser"

def showRoute : Route → String
  | .v2 => "v2"
  | .errIo => "err io"
  | .err e => "err " ++ showErr e
  | .v3Plain => "v3_plain"
  | .v3Zstd => "v3_zstd"

def showValidate (r : Except Err Unit) : String :=
  match r with
  | .ok _ => "ok"
  | .error e => showErr e

/-! values -/

def parseBool (s : String) : Option Bool :=
  if s = "1" then some true else if s = "0" then some false else none

def parseStrList (parts : List String) : Option (List String) := parts.mapM strOfHex

def parseTValue (s : String) : Option TValue :=
  match s.splitOn ":" with
  | ["null"] => some (.scalar .null)
  | ["bool", b] => (parseBool b).map (fun b => .scalar (.bool b))
  | ["int", i] => i.toInt?.map (fun i => .scalar (.int i))
  | ["float", f] => f.toNat?.map (fun f => .scalar (.float f))
  | ["str", h] => (strOfHex h).map (fun s => .scalar (.str s))
  | ["bytes", h] => (unhex h).map (fun b => .scalar (.bytes b))
  | ["vec", v] => (parseNats v).map .vector
  | ["sparse", d, ps, xs] =>
    match d.toNat?, parseNats ps, parseNats xs with
    | some d, some ps, some xs => some (.sparse d ps xs)
    | _, _, _ => none
  | ["ptr", h] => (strOfHex h).map .pointer
  | ["ptrs", l] =>
    match l.splitOn ";" with
    | n :: items => if n.toNat? = some items.length then (parseStrList items).map .pointers else none
    | [] => none
  | _ => none

def showStrList (ps : List String) : String :=
  ";".intercalate (toString ps.length :: ps.map hexOfStr)

def showTValue (tt : Bool) : TValue → String
  | .scalar .null => "null"
  | .scalar (.bool b) => if b then "bool:1" else "bool:0"
  | .scalar (.int i) => s!"int:{i}"
  | .scalar (.float f) => s!"float:{f}"
  | .scalar (.str s) => "str:" ++ hexOfStr s
  | .scalar (.bytes b) => "bytes:" ++ hex b
  | .vector v => if tt then "vec:tt" else "vec:" ++ showNats v
  | .sparse d ps xs => s!"sparse:{d}:{showNats ps}:{showNats xs}"
  | .pointer p => "ptr:" ++ hexOfStr p
  | .pointers ps => "ptrs:" ++ showStrList ps

def showCValue : CValue → String
  | .scalar .null => "s.null"
  | .scalar (.bool b) => if b then "s.bool:1" else "s.bool:0"
  | .scalar (.int i) => s!"s.int:{i}"
  | .scalar (.float f) => s!"s.float:{f}"
  | .scalar (.str s) => "s.str:" ++ hexOfStr s
  | .scalar (.bytes b) => "s.bytes:" ++ hex b
  | .vectorRaw v => "raw:" ++ showNats v
  | .vectorTT _ => "tt"
  | .vectorSparse d pb xs => s!"vsparse:{d}:{hex pb}:{showNats xs}"
  | .idList b => "idlist:" ++ hex b
  | .rleInt vs rs => s!"rle:{showInts vs}:{showNats rs}"
  | .pointer p => "ptr:" ++ hexOfStr p
  | .pointers ps => "ptrs:" ++ showStrList ps

def parseCValue (s : String) : Option CValue :=
  match s.splitOn ":" with
  | ["s.null"] => some (.scalar .null)
  | ["s.bool", b] => (parseBool b).map (fun b => .scalar (.bool b))
  | ["s.int", i] => i.toInt?.map (fun i => .scalar (.int i))
  | ["s.float", f] => f.toNat?.map (fun f => .scalar (.float f))
  | ["s.str", h] => (strOfHex h).map (fun s => .scalar (.str s))
  | ["s.bytes", h] => (unhex h).map (fun b => .scalar (.bytes b))
  | ["raw", v] => (parseNats v).map .vectorRaw
  | ["vsparse", d, pb, xs] =>
    match d.toNat?, unhex pb, parseNats xs with
    | some d, some pb, some xs => some (.vectorSparse d pb xs)
    | _, _, _ => none
  | ["idlist", h] => (unhex h).map .idList
  | ["rle", vs, rs] =>
    match parseInts vs, parseNats rs with
    | some vs, some rs => some (.rleInt vs rs)
    | _, _ => none
  | ["ptr", h] => (strOfHex h).map .pointer
  | _ => none

def isTT : CValue → Bool
  | .vectorTT _ => true
  | _ => false

/-! crash states over two paths: `true` = temp, `false` = the snapshot path -/

def oldBytes : Bytes := [79, 76, 68]

def describe (new : Bytes) (same : Bool) (st : FS Bool) : String :=
  let showPath : Option File → String
    | none => "absent"
    | some f =>
      if f.content = oldBytes then "old"
      else if f.content = new then "new"
      else s!"torn:{f.content.length}"
  let tmp := match st (!same) with
    | none => "absent"
    | some f => s!"{f.content.length}"
  s!"tmp={if same then "same" else tmp} path={showPath (st false)} unsynced={match st false with | none => 0 | some f => f.pending.length}"

def crashList (same old quant : Bool) (hl bl : Nat) : List (FS Bool) × Bytes :=
  let hdr := List.replicate hl 1
  let body := List.replicate bl 2
  let fs0 : FS Bool := fun p => if p = false && old then some ⟨oldBytes, []⟩ else none
  let tmp := !same
  let ops := if quant then saveOpsQ tmp false (hdr ++ body) else saveOps tmp false hdr body
  (crashStates fs0 ops, hdr ++ body)

def showOp : IoOp Bool → String
  | .create p => s!"create {if p then "tmp" else "path"}"
  | .openKeep p => s!"open {if p then "tmp" else "path"}"
  | .write p bs => s!"write {if p then "tmp" else "path"} {bs.length}"
  | .writeAt p off bs => s!"writeat {if p then "tmp" else "path"} {off} {bs.length}"
  | .fsync p => s!"fsync {if p then "tmp" else "path"}"
  | .rename a b => s!"rename {if a then "tmp" else "path"} {if b then "tmp" else "path"}"

/-! a directory of two files (`true` = temp, `false` = the snapshot path) driven op by op: the
    harness performs the same operations on a real directory (or runs the real save on it) and
    compares what the directory holds after every step -/

/-- tail-recursive hex decoding (snapshot files are tens of kilobytes) -/
def unhexGo : List Char → List Nat → Option (List Nat)
  | [], acc => some acc.reverse
  | a :: b :: rest, acc =>
    match hexDigit a, hexDigit b with
    | some x, some y => unhexGo rest ((x * 16 + y) :: acc)
    | _, _ => none
  | _, _ => none

def unhexBig (s : String) : Option Bytes := if s = "-" then some [] else unhexGo s.toList []

/-- FNV-1a, 32 bit -/
def fnv32 (bs : Bytes) : Nat := bs.foldl (fun h b => (Nat.xor h b * 16777619) % 4294967296) 2166136261

def showFile : Option File → String
  | none => "absent"
  | some f => s!"{f.content.length}:{fnv32 f.content}"

def pendingLen : Option File → Nat
  | none => 0
  | some f => f.pending.length

def describeFs (st : FS Bool) : String :=
  s!"tmp={showFile (st true)} path={showFile (st false)} unsynced={pendingLen (st true)}/{pendingLen (st false)}"

def parsePathName (s : String) : Option Bool :=
  if s = "tmp" then some true else if s = "path" then some false else none

def parseFileArg (s : String) : Option (Option File) :=
  if s = "absent" then some none else (unhexBig s).map (fun b => some ⟨b, []⟩)

def parseFsOp : List String → Option (IoOp Bool)
  | ["create", p] => (parsePathName p).map .create
  | ["open", p] => (parsePathName p).map .openKeep
  | ["write", p, h] =>
    match parsePathName p, unhexBig h with
    | some p, some b => some (.write p b)
    | _, _ => none
  | ["writeat", p, off, h] =>
    match parsePathName p, off.toNat?, unhexBig h with
    | some p, some off, some b => some (.writeAt p off b)
    | _, _, _ => none
  | ["fsync", p] => (parsePathName p).map .fsync
  | ["rename", a, b] =>
    match parsePathName a, parsePathName b with
    | some a, some b => some (.rename a b)
    | _, _ => none
  | _ => none

/-- the model's save sequence for a header / body (`quant`: one blob), truncating (`keep = false`, the
    code) or not -/
def saveSeq (quant keep : Bool) (hdr body : Bytes) : List (IoOp Bool) :=
  match quant, keep with
  | false, false => saveOps true false hdr body
  | false, true => saveOpsKeep true false hdr body
  | true, false => saveOpsQ true false (hdr ++ body)
  | true, true => saveOpsQKeep true false (hdr ++ body)

def snapStep (cur : FS Bool) (line : String) : FS Bool × String :=
  let bad := (cur, "bad-op")
  match words line with
  | ["fs_init", pathArg, tmpArg] =>
    match parseFileArg pathArg, parseFileArg tmpArg with
    | some pf, some tf =>
      let st : FS Bool := fun p => if p then tf else pf
      (st, describeFs st)
    | _, _ => bad
  | "fs_op" :: rest =>
    match parseFsOp rest with
    | some op => let st := applyOp cur op; (st, describeFs st)
    | none => bad
  | "fs_cut" :: k :: rest =>
    -- the `k`-th state in which the machine can stop while the operation runs (`partials`)
    match k.toNat?, parseFsOp rest with
    | some k, some op =>
      match partialAt cur op k with
      | some st => (st, describeFs st)
      | none => (cur, "none")
    | _, _ => bad
  | ["fs_save", quant, keep, hdr, body] =>
    match parseBool quant, parseBool keep, unhexBig hdr, unhexBig body with
    | some q, some k, some hdr, some body =>
      let st := applyOps cur (saveSeq q k hdr body); (st, describeFs st)
    | _, _, _, _ => bad
  | ["fs_crash", quant, keep, hdr, body, i] =>
    -- the `i`-th crash state of the model's save sequence started on the current directory
    match parseBool quant, parseBool keep, unhexBig hdr, unhexBig body, i.toNat? with
    | some q, some k, some hdr, some body, some i =>
      match (crashStates cur (saveSeq q k hdr body))[i]? with
      | some st => (st, describeFs st)
      | none => (cur, "none")
    | _, _, _, _, _ => bad
  | ["fs_get"] => (cur, describeFs cur)
  | ["ops_keep", quant, hl, bl] =>
    match parseBool quant, hl.toNat?, bl.toNat? with
    | some q, some hl, some bl =>
      (cur, ";".intercalate ((saveSeq q true (List.replicate hl 0) (List.replicate bl 0)).map showOp))
    | _, _, _ => bad
  | ["hdr_enc", m0, m1, m2, m3, v, f, c] =>
    match m0.toNat?, m1.toNat?, m2.toNat?, m3.toNat?, v.toNat?, f.toNat?, c.toNat? with
    | some m0, some m1, some m2, some m3, some v, some f, some c =>
      (cur, hex (encodeHeader ⟨m0, m1, m2, m3, v, f, c⟩))
    | _, _, _, _, _, _, _ => bad
  | ["hdr_dec", h] =>
    match unhex h with
    | none => bad
    | some bs =>
      match decodeHeader bs with
      | none => (cur, "none")
      | some (hd, rest) =>
        (cur, s!"{hd.m0},{hd.m1},{hd.m2},{hd.m3} {hd.version} {hd.flags} {hd.entryCount} {showValidate (validate hd)} c{if hd.isCompressed then 1 else 0} rest={rest.length}")
  | ["detect", h] =>
    match unhex h with
    | none => bad
    | some bs => (cur, match detectVersion bs with | .v2 => "v2" | .v3 => "v3")
  | ["route", h] =>
    match unhex h with
    | none => bad
    | some bs => (cur, showRoute (route bs))
  | ["validate", m0, m1, m2, m3, v] =>
    match m0.toNat?, m1.toNat?, m2.toNat?, m3.toNat?, v.toNat? with
    | some m0, some m1, some m2, some m3, some v =>
      (cur, match fromBytes (fun _ => some (⟨m0, m1, m2, m3, v, 0, 0⟩, ())) [] with
        | .ok _ => "ok" | .error e => showErr e)
    | _, _, _, _, _ => bad
  | ["validate_c", m0, m1, m2, m3, v] =>
    match m0.toNat?, m1.toNat?, m2.toNat?, m3.toNat?, v.toNat? with
    | some m0, some m1, some m2, some m3, some v => (cur, showValidate (validateC m0 m1 m2 m3 v))
    | _, _, _, _, _ => bad
  | ["tmpname", h] =>
    match strOfHex h with
    | none => bad
    | some s => (cur, hexOfStr (String.ofList (tmpName s.toList)))
  | ["ops", quant, hl, bl] =>
    match parseBool quant, hl.toNat?, bl.toNat? with
    | some q, some hl, some bl =>
      let ops : List (IoOp Bool) :=
        if q then saveOpsQ true false (List.replicate (hl + bl) 0)
        else saveOps true false (List.replicate hl 0) (List.replicate bl 0)
      (cur, ";".intercalate (ops.map showOp))
    | _, _, _ => bad
  | ["crash_count", same, old, quant, hl, bl] =>
    match parseBool same, parseBool old, parseBool quant, hl.toNat?, bl.toNat? with
    | some same, some old, some q, some hl, some bl =>
      (cur, toString (crashList same old q hl bl).1.length)
    | _, _, _, _, _ => bad
  | ["crash_at", same, old, quant, hl, bl, i] =>
    match parseBool same, parseBool old, parseBool quant, hl.toNat?, bl.toNat?, i.toNat? with
    | some same, some old, some q, some hl, some bl, some i =>
      let (sts, new) := crashList same old q hl bl
      match sts[i]? with
      | none => (cur, "none")
      | some st => (cur, describe new same st)
    | _, _, _, _, _, _ => bad
  | ["cval", tt, delta, key, field, v] =>
    match parseBool tt, parseBool delta, strOfHex key, strOfHex field, parseTValue v with
    | some tt, some delta, some key, some field, some v =>
      let c := compressValue ⟨tt, delta, true⟩ key.toList field.toList v
      (cur, showCValue c ++ " => " ++ showTValue (isTT c) (decompressValue id c))
    | _, _, _, _, _ => bad
  | ["c2t", c] =>
    match parseCValue c with
    | some c => (cur, showTValue (isTT c) (decompressValue id c))
    | none => bad
  | ["emb", ttok, v] =>
    match parseBool ttok, parseNats v with
    | some ttok, some v =>
      match fromDense (fun _ => ttok) v with
      | .dense d => (cur, "dense => " ++ showNats (toDense id (.dense d)))
      | .sparse dim ps xs => (cur, s!"sparse {showNats ps} => " ++ showNats (toDense id (.sparse dim ps xs)))
      | .tt _ => (cur, "tt => tt")
    | _, _ => bad
  | ["casts", v] =>
    match parseNats v with
    | some v => (cur, showNats (v.map f32ToU64) ++ " " ++ showNats (v.map (fun x => u64ToF32 (f32ToU64 x))))
    | none => bad
  | ["u2f", v] =>
    match parseNats v with
    | some v => (cur, showNats (v.map u64ToF32))
    | none => bad
  | _ => bad

/-! ## the store model: two router registers (0 = the store being saved, 1 = what was loaded) -/

structure DState where
  fs : FS Bool
  r0 : Router
  r1 : Router
  cfg : RouterCfg
  /-- the Bloom filter of the `TensorStore` whose router is register 1 (`none`: built without one) -/
  flt : Option (List Name) := none

def defaultCfg : RouterCfg := ⟨384, 10000, 10000, 67108864⟩

def DState.init : DState := ⟨fun _ => none, Router.new defaultCfg, Router.new defaultCfg, defaultCfg, none⟩

def parseTData (s : String) : Option TData :=
  if s = "-" then some []
  else (s.splitOn "|").mapM (fun item =>
    match item.splitOn "=" with
    | [f, v] =>
      match strOfHex f, parseTValue v with
      | some f, some v => some (f.toList, v)
      | _, _ => none
    | _ => none)

def showName (n : Name) : String := hexOfStr (String.ofList n)

def showTData (d : TData) : String :=
  if d.isEmpty then "-" else "|".intercalate (d.map (fun p => showName p.1 ++ "=" ++ showTValue false p.2))

def showOptData : Option TData → String
  | some d => showTData d
  | none => "notfound"

def joinOr (sep : String) (xs : List String) : String := if xs.isEmpty then "-" else sep.intercalate xs

def showVocab (ix : EIndex) : String :=
  joinOr "," ((List.range ix.vocab.length).map (fun i =>
    if i ∈ ix.tomb then "x" else showName (ix.vocab.getD i [])))

def showRouter (r : Router) : String :=
  s!"idx={showVocab r.index}#live={r.index.live}#dim={r.emb.dim}#emb=" ++
  joinOr "/" (r.emb.ents.map (fun e => s!"{e.1}:{showNats e.2}")) ++ "#md=" ++
  joinOr "&" (r.md.map (fun p => showName p.1 ++ "~" ++ showTData p.2)) ++ s!"#cache={r.cache.cap}:" ++
  joinOr "&" ((occupied r.cache.slots).map (fun e => showName e.key ++ "~" ++ showTData e.val)) ++
  s!"#len={r.len}#count={r.entryCount}"

def showPairs (xs : List (Nat × Nat)) : String := joinOr "," (xs.map (fun p => s!"{p.1}:{p.2}"))

def showGraphInfo (g : GraphT) : String :=
  s!"next={g.nextId} max={g.maxNode} pending={g.pending.length} edges={g.edgeCount} types={joinOr "," (g.types.map showName)}"

def showBlobInfo (b : BlobLog) : String :=
  s!"chunks={b.chunkCount} bytes={b.totalBytes} segments={1 + b.sealed.length}"

def getReg (st : DState) (r : String) : Option Router :=
  if r = "0" then some st.r0 else if r = "1" then some st.r1 else none

def setReg (st : DState) (r : String) (x : Router) : DState :=
  if r = "0" then { st with r0 := x } else { st with r1 := x }

def parseName (h : String) : Option Name := (strOfHex h).map (·.toList)

def getTS (st : DState) : TStore := ⟨st.r1, st.flt⟩
def setTS (st : DState) (s : TStore) : DState := { st with r1 := s.router, flt := s.filter }
def fpNone : List Name → Name → Bool := fun _ _ => false
def fpAll : List Name → Name → Bool := fun _ _ => true

def parseEntries (s : String) : Option (List (Name × TData)) :=
  if s = "-" then some []
  else (s.splitOn "&").mapM (fun item =>
    match item.splitOn "~" with
    | [k, d] =>
      match parseName k, parseTData d with
      | some k, some d => some (k, d)
      | _, _ => none
    | _ => none)

def storeStep (st : DState) (ws : List String) : Option (DState × String) :=
  match ws with
  | ["rt_new", dim, cap, thr, seg] =>
    match dim.toNat?, cap.toNat?, thr.toNat?, seg.toNat? with
    | some dim, some cap, some thr, some seg =>
      let cfg : RouterCfg := ⟨dim, cap, thr, seg⟩
      some ({ st with cfg := cfg, r0 := Router.new cfg, r1 := Router.new cfg, flt := none }, "ok")
    | _, _, _, _ => none
  | ["rt_put", r, key, data, victim] =>
    match getReg st r, parseName key, parseTData data, victim.toNat? with
    | some x, some key, some d, some victim => some (setReg st r (x.put key d victim), "ok")
    | _, _, _, _ => none
  | ["rt_get", r, key] =>
    match getReg st r, parseName key with
    | some x, some key => some (setReg st r (x.touch key), showOptData (x.peek key))
    | _, _ => none
  | ["rt_del", r, key] =>
    match getReg st r, parseName key with
    | some x, some key => let y := x.delete key; some (setReg st r y.1, if y.2 then "ok" else "notfound")
    | _, _ => none
  | ["rt_exists", r, key] =>
    match getReg st r, parseName key with
    | some x, some key => some (st, if x.exists key then "1" else "0")
    | _, _ => none
  | ["rt_scan", r, pre] =>
    match getReg st r, parseName pre with
    | some x, some pre => some (st, joinOr "," ((x.scan pre).map showName))
    | _, _ => none
  | ["rt_evict", r, keys] =>
    match getReg st r with
    | some x =>
      match (if keys = "-" then some [] else (keys.splitOn ",").mapM parseName) with
      | some ks => some (setReg st r (x.apply (.evict ks)), "ok")
      | none => none
    | none => none
  | ["rt_clear", r] =>
    match getReg st r with
    | some x => some (setReg st r x.clear, "ok")
    | none => none
  | ["rt_dump", r] =>
    match getReg st r with
    | some x => some (st, showRouter x)
    | none => none
  | ["rt_kv", r] =>
    match getReg st r with
    | some x => some (st, joinOr "&" ((x.scan []).map (fun k => showName k ++ "~" ++ showOptData (x.peek k))))
    | none => none
  | ["rt_snap", ttok] =>
    -- register 1 := restore(snapshot(register 0)); register 0 is what the save leaves behind
    match parseBool ttok with
    | some ttok =>
      let sn := st.r0.snapshot (fun _ => ttok)
      some ({ st with r0 := sn.1, r1 := Router.restore id sn.2 }, s!"ok {st.r0.entryCount}")
    | none => none
  | ["rt_adopt"] => some ({ st with r0 := st.r1 }, "ok")
  | ["rt_rfb", ttok] =>
    -- register 1 := restore_from_bytes(to_bytes(register 0)) applied to register 1
    match parseBool ttok with
    | some ttok =>
      let sn := st.r0.snapshot (fun _ => ttok)
      let new := Router.restore id sn.2
      some ({ st with r0 := sn.1, r1 := restoreFromBytes st.r1 new (new.scan []) }, "ok")
    | none => none
  | ["rt_quant", tt, delta] =>
    match parseBool tt, parseBool delta with
    | some tt, some delta =>
      let es := saveQuant ⟨tt, delta, true⟩ st.r0 (st.r0.scan [])
      some ({ st with r1 := loadQuant id defaultCfg es }, s!"ok {es.length}")
    | _, _ => none
  | ["rt_loadv2", entries] =>
    match parseEntries entries with
    | some es => some ({ st with r1 := loadV2Entries defaultCfg es }, "ok")
    | none => none
  -- the `TensorStore` in front of register 1: router + optional Bloom filter (`TStore`). The filter's
  -- false positives are not an input: an answer that would depend on them is shown as `fp-dependent`
  -- (the two extreme filters, no false positives / nothing but, bracket every other one)
  | ["ts_new", bloom] =>
    match parseBool bloom with
    | some b => some (setTS st (TStore.new st.cfg b), "ok")
    | none => none
  | ["ts_put", key, data, victim] =>
    match parseName key, parseTData data, victim.toNat? with
    | some key, some d, some victim => some (setTS st ((getTS st).put key d victim), "ok")
    | _, _, _ => none
  | ["ts_del", key] =>
    match parseName key with
    | some key => let y := (getTS st).delete key; some (setTS st y.1, if y.2 then "ok" else "notfound")
    | none => none
  | ["ts_get", key] =>
    match parseName key with
    | some key =>
      let s := getTS st
      let a := s.get fpNone key
      some (setTS st (s.touch fpNone key), if a = s.get fpAll key then showOptData a else "fp-dependent")
    | none => none
  | ["ts_exists", key] =>
    match parseName key with
    | some key =>
      let s := getTS st
      let a := s.exists fpNone key
      some (st, if a = s.exists fpAll key then (if a then "1" else "0") else "fp-dependent")
    | none => none
  | ["ts_clear"] => some (setTS st (getTS st).clear, "ok")
  | ["ts_rfb", ttok] =>
    -- the store over register 1 := restore_from_bytes(snapshot_bytes(register 0))
    match parseBool ttok with
    | some ttok =>
      let sn := st.r0.snapshot (fun _ => ttok)
      let new := Router.restore id sn.2
      some (setTS { st with r0 := sn.1 } ((getTS st).restoreFromBytes new (new.scan [])), "ok")
    | none => none
  | ["ts_load", ttok, bloom] =>
    -- the store over register 1 := load_snapshot / load_snapshot_with_bloom_filter / recover_with_bloom
    -- of the file save_snapshot(register 0) wrote
    match parseBool ttok, parseBool bloom with
    | some ttok, some b =>
      let sn := st.r0.snapshot (fun _ => ttok)
      let new := Router.restore id sn.2
      some (setTS { st with r0 := sn.1 } (if b then TStore.loadWithBloom new (new.scan []) else TStore.load new), "ok")
    | _, _ => none
  | ["ts_kv", probes] =>
    match (if probes = "-" then some [] else (probes.splitOn ",").mapM parseName) with
    | some ps =>
      let s := getTS st
      let listed := s.scan []
      some (st, joinOr "&" ((listed ++ ps).eraseDups.map (fun k =>
        let a := s.get fpNone k
        let e := s.exists fpNone k
        let l := if k ∈ listed then "1" else "0"
        if a = s.get fpAll k ∧ e = s.exists fpAll k then
          showName k ++ ":" ++ l ++ (if e then "1" else "0") ++ "~" ++ showOptData a
        else showName k ++ ":" ++ l ++ "?~fp-dependent")))
    | none => none
  | ["g_add", r, src, dst, ty, directed] =>
    match getReg st r, src.toNat?, dst.toNat?, parseName ty, parseBool directed with
    | some x, some src, some dst, some ty, some d =>
      let y := x.graph.addEdge src dst ty d
      some (setReg st r { x with graph := y.1 }, toString y.2)
    | _, _, _, _, _ => none
  | ["g_del", r, id] =>
    match getReg st r, id.toNat? with
    | some x, some id =>
      let y := x.graph.deleteEdge id
      some (setReg st r { x with graph := y.1 }, if y.2 then "1" else "0")
    | _, _ => none
  | ["g_merge", r] =>
    match getReg st r with
    | some x => some (setReg st r { x with graph := x.graph.merge }, "ok")
    | none => none
  | ["g_out", r, node] =>
    match getReg st r, node.toNat? with
    | some x, some node => some (st, showPairs (x.graph.outgoing node))
    | _, _ => none
  | ["g_in", r, node] =>
    match getReg st r, node.toNat? with
    | some x, some node => some (st, showPairs (x.graph.incomingOf node))
    | _, _ => none
  | ["g_setdata", r, id, data] =>
    match getReg st r, id.toNat?, parseTData data with
    | some x, some id, some d => some (setReg st r { x with graph := x.graph.setEdgeData id d }, "ok")
    | _, _, _ => none
  | ["g_getdata", r, id] =>
    match getReg st r, id.toNat? with
    | some x, some id => some (st, showOptData (x.graph.getEdgeData id))
    | _, _ => none
  | ["g_info", r] =>
    match getReg st r with
    | some x => some (st, showGraphInfo x.graph)
    | none => none
  | ["b_append", r, hash, data] =>
    match getReg st r, hash.toNat?, unhexBig data with
    | some x, some h, some d => some (setReg st r { x with blobs := x.blobs.append h d }, "ok")
    | _, _, _ => none
  | ["b_get", r, hash] =>
    match getReg st r, hash.toNat? with
    | some x, some h => some (st, match x.blobs.get h with | some d => hex d | none => "none")
    | _, _ => none
  | ["b_contains", r, hash] =>
    match getReg st r, hash.toNat? with
    | some x, some h => some (st, if x.blobs.contains h then "1" else "0")
    | _, _ => none
  | ["b_mark", r, hash] =>
    match getReg st r, hash.toNat? with
    | some x, some h => some (setReg st r { x with blobs := x.blobs.markGarbage h }, "ok")
    | _, _ => none
  | ["g_dump", r, nodes, ids] =>
    match getReg st r, parseNats nodes, parseNats ids with
    | some x, some nodes, some ids =>
      let g := x.graph
      some (st, "out=" ++ joinOr "|" (nodes.map (fun n => s!"{n}>{showPairs (g.outgoing n)}")) ++
        "#in=" ++ joinOr "|" (nodes.map (fun n => s!"{n}<{showPairs (g.incomingOf n)}")) ++
        "#data=" ++ joinOr "&" (ids.map (fun i => s!"{i}~{showOptData (g.getEdgeData i)}")) ++
        "#" ++ showGraphInfo g)
    | _, _, _ => none
  | ["b_dump", r, hashes] =>
    match getReg st r, parseNats hashes with
    | some x, some hs =>
      some (st, joinOr "," (hs.map (fun h => s!"{h}:{match x.blobs.get h with | some d => hex d | none => "none"}:{if x.blobs.contains h then 1 else 0}")) ++
        "#" ++ showBlobInfo x.blobs)
    | _, _ => none
  | ["b_info", r] =>
    match getReg st r with
    | some x => some (st, showBlobInfo x.blobs)
    | none => none
  | _ => none

def isStoreOp (w : String) : Bool := w.startsWith "rt_" || w.startsWith "ts_" || w.startsWith "g_" || w.startsWith "b_"

def fullStep (st : DState) (line : String) : DState × String :=
  match words line with
  | w :: rest =>
    if isStoreOp w then
      match storeStep st (w :: rest) with
      | some res => res
      | none => (st, "bad-op")
    else
      let res := snapStep st.fs line
      ({ st with fs := res.1 }, res.2)
  | [] => (st, "bad-op")

def main : IO Unit := run fullStep DState.init
