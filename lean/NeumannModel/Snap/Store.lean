import NeumannModel.Snap.Model
/-
  Store model (C07, second part): executable, Mathlib-free mirror of what a v3 snapshot carries and how
  it is put back:
    tensor_store/src/slab_router.rs   (classify_key, put / get / delete / exists / scan / clear,
                                       snapshot / restore: one sub-snapshot per slab)
    tensor_store/src/entity_index.rs  (vocabulary + tombstones; snapshot = the fields themselves)
    tensor_store/src/embedding_slab.rs (set / get / delete by entity id; snapshot = one
                                       `CompressedEmbedding::from_dense` per entry, restore = new slab + `set`)
    tensor_store/src/metadata_slab.rs (snapshot = the 16 shards merged into one map, restore = re-sharded)
    tensor_store/src/cache_ring.rs    (fixed slots; snapshot = the occupied slots in slot order,
                                       restore = a new ring + `put` of every entry)
    tensor_store/src/graph_tensor.rs  (CSR + pending log + deleted set + incoming index + edge data;
                                       snapshot merges first, restore re-inserts every edge under its id)
    tensor_store/src/blob_log.rs      (segments + index + garbage marks; snapshot leaves the marks out)
    tensor_store/src/lib.rs           (restore_from_bytes: clear + re-put of every scanned key;
                                       save/load_snapshot_compressed: scan + get, fresh store + put;
                                       `TensorStore` = router + optional Bloom filter consulted by
                                       get / exists before the router: `TStore` at the end of this file)
    tensor_store/src/snapshot.rs      (load_v2: a key → value map put key by key)
  Maps (`BTreeMap`, `HashMap`, `HashSet`) are association lists: the harness canonicalises iteration
  order, and no result of the code depends on it. The relational slab's snapshot is a clone of its
  table map (`RelationalSlab::snapshot` / `restore`), so it does not appear here. Hashes (FxHash of a
  cache key, of a blob chunk) are opaque: cache lookups go by key (no two live cache keys are assumed to
  collide), chunk hashes are inputs. The eviction score of a full cache ring depends on wall-clock
  time: the victim slot is an input of `put`.
-/
namespace Neumann.Snap

/-! ## association lists -/

section AList
variable {κ : Type} {ν : Type} [DecidableEq κ]

def aFind (k : κ) : List (κ × ν) → Option ν
  | [] => none
  | (k', v) :: l => if k' = k then some v else aFind k l

/-- replace the value of the first entry with key `k`, or append a new entry -/
def aInsert (k : κ) (v : ν) : List (κ × ν) → List (κ × ν)
  | [] => [(k, v)]
  | (k', v') :: l => if k' = k then (k, v) :: l else (k', v') :: aInsert k v l

/-- drop every entry with key `k` -/
def aErase (k : κ) : List (κ × ν) → List (κ × ν)
  | [] => []
  | (k', v') :: l => if k' = k then aErase k l else (k', v') :: aErase k l

def aKeys (l : List (κ × ν)) : List κ := l.map Prod.fst

/-- insert when there is a value, else leave the map alone -/
def aInsertOpt (k : κ) (o : Option ν) (m : List (κ × ν)) : List (κ × ν) :=
  match o with
  | some w => aInsert k w m
  | none => m

/-- `map.entry(k).or_default().push(x)` -/
def aPush {β : Type} (k : κ) (x : β) : List (κ × List β) → List (κ × List β)
  | [] => [(k, [x])]
  | (k', xs) :: l => if k' = k then (k, xs ++ [x]) :: l else (k', xs) :: aPush k x l

end AList

/-- position of the first element equal to `x` -/
def idxOf {α : Type} [DecidableEq α] (x : α) : List α → Nat → Option Nat
  | [], _ => none
  | y :: ys, i => if y = x then some i else idxOf x ys (i + 1)

/-! ## `TensorData`: field name → value -/

abbrev TData := List (Name × TValue)

def EMB_FIELD : Name := "_embedding".toList

/-- `value.get("_embedding")` when it is a `TensorValue::Vector` -/
def TData.embOf (d : TData) : Option (List Nat) :=
  match aFind EMB_FIELD d with
  | some (.vector v) => some v
  | _ => none

/-- `data.set("_embedding", TensorValue::Vector(vector))` -/
def TData.withEmb (d : TData) (v : List Nat) : TData := aInsert EMB_FIELD (.vector v) d

/-! ## key classes (`SlabRouter::classify_key`) -/

inductive KeyClass where
  | embedding | graph | table | cache | metadata
  deriving DecidableEq, Repr

def classifyKey (key : Name) : KeyClass :=
  if "emb:".toList.isPrefixOf key then .embedding
  else if "node:".toList.isPrefixOf key || "edge:".toList.isPrefixOf key then .graph
  else if "table:".toList.isPrefixOf key then .table
  else if "_cache:".toList.isPrefixOf key then .cache
  else .metadata

/-! ## entity index (entity_index.rs) -/

/-- `vocabulary` (entity id = position), the tombstone bit set (as the list of set bits) and
    `live_count`. The sorted `(hash, position)` vector is an index over `vocabulary`: a lookup ends at
    the live entry of the key, of which there is at most one. -/
structure EIndex where
  vocab : List Name
  tomb : List Nat
  live : Nat
  deriving DecidableEq, Repr

def EIndex.new : EIndex := ⟨[], [], 0⟩

/-- first position `≥ i` whose vocabulary entry is `key` and whose tombstone bit is clear -/
def findLiveFrom (tomb : List Nat) (key : Name) : List Name → Nat → Option Nat
  | [], _ => none
  | k :: ks, i => if k = key ∧ ¬ i ∈ tomb then some i else findLiveFrom tomb key ks (i + 1)

/-- `EntityIndex::get` -/
def EIndex.get (ix : EIndex) (key : Name) : Option Nat := findLiveFrom ix.tomb key ix.vocab 0

/-- `get_or_create`: a key without a live entry is appended (a deleted key gets a NEW id) -/
def EIndex.getOrCreate (ix : EIndex) (key : Name) : EIndex × Nat :=
  match ix.get key with
  | some id => (ix, id)
  | none => ({ ix with vocab := ix.vocab ++ [key], live := ix.live + 1 }, ix.vocab.length)

/-- `remove`: set the tombstone bit of the key's live entry -/
def EIndex.remove (ix : EIndex) (key : Name) : EIndex :=
  match ix.get key with
  | some id => { ix with tomb := if id ∈ ix.tomb then ix.tomb else id :: ix.tomb, live := ix.live - 1 }
  | none => ix

def scanLiveFrom (tomb : List Nat) (pre : Name) : List Name → Nat → List (Name × Nat)
  | [], _ => []
  | k :: ks, i =>
    if pre.isPrefixOf k ∧ ¬ i ∈ tomb then (k, i) :: scanLiveFrom tomb pre ks (i + 1)
    else scanLiveFrom tomb pre ks (i + 1)

/-- `scan_prefix` -/
def EIndex.scanPrefix (ix : EIndex) (pre : Name) : List (Name × Nat) := scanLiveFrom ix.tomb pre ix.vocab 0

/-- `key_for` -/
def EIndex.keyFor (ix : EIndex) (id : Nat) : Option Name := if id ∈ ix.tomb then none else ix.vocab[id]?

/-- `EntityIndex::snapshot` clones `vocabulary`, `reverse`, `tombstones`, `live_count`; `restore` moves
    them back -/
def EIndex.snapshot (ix : EIndex) : EIndex := ix
def EIndex.restore (s : EIndex) : EIndex := s

/-! ## embedding slab (embedding_slab.rs): entity id → vector of the slab's dimension -/

structure ESlab where
  dim : Nat
  ents : List (Nat × List Nat)
  deriving DecidableEq, Repr

def ESlab.new (dim : Nat) : ESlab := ⟨dim, []⟩

/-- `set`: `DimensionMismatch` (`none`) unless the length is the slab's dimension -/
def ESlab.set (s : ESlab) (id : Nat) (v : List Nat) : Option ESlab :=
  if v.length ≠ s.dim then none else some { s with ents := aInsert id v s.ents }

def ESlab.delete (s : ESlab) (id : Nat) : ESlab := { s with ents := aErase id s.ents }

def ESlab.get (s : ESlab) (id : Nat) : Option (List Nat) := aFind id s.ents

/-- `EmbeddingSlab::snapshot`: the dimension and one `CompressedEmbedding::from_dense` per entry -/
def ESlab.snapshot (ttOk : List Nat → Bool) (s : ESlab) : Nat × List (Nat × CEmb) :=
  (s.dim, s.ents.map (fun e => (e.1, fromDense ttOk e.2)))

/-- `EmbeddingSlab::restore`: a new slab of the saved dimension, `set` of every `to_dense`; an entry
    whose `set` fails is skipped (a warning is logged) -/
def ESlab.setOrSkip (s : ESlab) (id : Nat) (v : List Nat) : ESlab :=
  match s.set id v with
  | some s' => s'
  | none => s

def ESlab.restore (ttRecon : List Nat → List Nat) (snap : Nat × List (Nat × CEmb)) : ESlab :=
  snap.2.foldl (fun s e => s.setOrSkip e.1 (toDense ttRecon e.2)) (ESlab.new snap.1)

/-! ## cache ring (cache_ring.rs): a fixed number of slots -/

structure CEntry where
  key : Name
  val : TData
  access : Nat      -- access_count
  cost : Nat        -- f64 bits
  size : Nat        -- size_bytes
  deriving DecidableEq, Repr

structure Cache where
  cap : Nat
  slots : List (Option CEntry)
  deriving DecidableEq, Repr

def Cache.new (cap : Nat) : Cache := ⟨cap, List.replicate cap none⟩

def slotHolds (key : Name) : Option CEntry → Bool
  | some e => e.key = key
  | none => false

/-- position of the slot holding `key` (`index.get(hash)` + `entry.key == key`) -/
def findSlot (key : Name) : List (Option CEntry) → Nat → Option Nat
  | [], _ => none
  | s :: ss, i => if slotHolds key s then some i else findSlot key ss (i + 1)

def firstEmpty : List (Option CEntry) → Nat → Option Nat
  | [], _ => none
  | none :: _, i => some i
  | some _ :: ss, i => firstEmpty ss (i + 1)

/-- `CacheRing::put`; `victim` = the slot `find_slot_for_insert` picks when no slot is empty (lowest
    eviction score: wall-clock dependent, so it is an input) -/
def Cache.put (c : Cache) (key : Name) (val : TData) (cost size victim : Nat) : Cache :=
  match findSlot key c.slots 0 with
  | some i =>
    match c.slots[i]? with
    | some (some e) => { c with slots := c.slots.set i (some { e with val := val, access := e.access + 1, cost := cost, size := size }) }
    | _ => c
  | none =>
    let i := match firstEmpty c.slots 0 with
      | some i => i
      | none => victim
    { c with slots := c.slots.set i (some ⟨key, val, 1, cost, size⟩) }

/-- the value `get` returns (it also bumps the entry's access count: `Cache.touch`) -/
def Cache.peek (c : Cache) (key : Name) : Option TData :=
  match findSlot key c.slots 0 with
  | some i =>
    match c.slots[i]? with
    | some (some e) => some e.val
    | _ => none
  | none => none

def Cache.touch (c : Cache) (key : Name) : Cache :=
  match findSlot key c.slots 0 with
  | some i =>
    match c.slots[i]? with
    | some (some e) => { c with slots := c.slots.set i (some { e with access := e.access + 1 }) }
    | _ => c
  | none => c

def Cache.delete (c : Cache) (key : Name) : Cache :=
  match findSlot key c.slots 0 with
  | some i => { c with slots := c.slots.set i none }
  | none => c

def Cache.contains (c : Cache) (key : Name) : Bool := (findSlot key c.slots 0).isSome

/-- the occupied slots in slot order -/
def occupied : List (Option CEntry) → List CEntry
  | [] => []
  | none :: ss => occupied ss
  | some e :: ss => e :: occupied ss

def Cache.len (c : Cache) : Nat := (occupied c.slots).length

def Cache.scanPrefix (c : Cache) (pre : Name) : List Name :=
  ((occupied c.slots).filter (fun e => pre.isPrefixOf e.key)).map (·.key)

def Cache.clear (c : Cache) : Cache := ⟨c.cap, List.replicate c.slots.length none⟩

/-- `CacheRing::snapshot`: capacity and the occupied entries in slot order (the eviction strategy is
    carried along unchanged and left out here) -/
def Cache.snapshot (c : Cache) : Nat × List CEntry := (c.cap, occupied c.slots)

/-- `CacheRing::restore`: a new ring of the saved capacity and `put(key, value, cost, size_bytes)` of
    every entry; `access_count` of the snapshot is not used (every entry restarts at 1) -/
def Cache.restore (snap : Nat × List CEntry) : Cache :=
  snap.2.foldl (fun c e => c.put e.key e.val e.cost e.size 0) (Cache.new snap.1)

/-! ## graph tensor (graph_tensor.rs) -/

structure GEdge where
  id : Nat
  src : Nat
  dst : Nat
  ty : Nat           -- interned edge type
  directed : Bool
  deriving DecidableEq, Repr

structure GraphT where
  csr : List GEdge          -- the CSR rows one after the other: row `n` = the edges with `src = n`
  csrNodes : Nat            -- `row_ptr.len() - 1`
  pending : List GEdge
  deleted : List Nat
  incoming : List (Nat × List (Nat × Nat))    -- target ↦ (source, edge id) in insertion order
  types : List Name         -- `EdgeTypeRegistry.types`; `ids` maps each name to its position
  nextId : Nat
  maxNode : Nat
  threshold : Nat
  edgeData : List (Nat × TData)    -- the `edge_data` slab, keyed `edge:{id}`
  deriving DecidableEq, Repr

def GraphT.new (threshold : Nat) : GraphT :=
  ⟨[], 0, [], [], [], ["default".toList], 0, 0, threshold, []⟩

/-- `CsrGraph::build`: empty input gives the empty graph; otherwise one row per node `0 ..= max_node_id`
    holding, in input order, the edges that start there (edges starting beyond are dropped) -/
def csrBuild (edges : List GEdge) (maxNode : Nat) : List GEdge × Nat :=
  if edges.isEmpty then ([], 0)
  else ((List.range (maxNode + 1)).flatMap (fun n => edges.filter (fun e => e.src = n)), maxNode + 1)

/-- `CsrGraph::outgoing` -/
def csrOutgoing (csr : List GEdge) (csrNodes node : Nat) : List GEdge :=
  if node ≥ csrNodes then [] else csr.filter (fun e => e.src = node)

def GraphT.notDeleted (g : GraphT) (e : GEdge) : Bool := !g.deleted.contains e.id

/-- `merge`: rebuild the CSR from its surviving edges followed by the surviving pending edges; the
    pending log and the deleted set are emptied, and (since ce34e58a) the deleted edges leave the
    incoming index too -/
def GraphT.merge (g : GraphT) : GraphT :=
  if g.pending.isEmpty && g.deleted.isEmpty then g
  else
    let all := g.csr.filter g.notDeleted ++ g.pending.filter g.notDeleted
    let b := csrBuild all g.maxNode
    { g with csr := b.1, csrNodes := b.2, pending := [], deleted := [],
             incoming := g.incoming.map (fun p => (p.1, p.2.filter (fun x => !g.deleted.contains x.2))) }

/-- `merge` before ce34e58a: the incoming index was left alone, so the edges of the emptied deleted
    set were listed by `incoming` again -/
def GraphT.mergeOld (g : GraphT) : GraphT :=
  if g.pending.isEmpty && g.deleted.isEmpty then g
  else
    let all := g.csr.filter g.notDeleted ++ g.pending.filter g.notDeleted
    let b := csrBuild all g.maxNode
    { g with csr := b.1, csrNodes := b.2, pending := [], deleted := [] }

/-- `intern_edge_type` -/
def GraphT.intern (g : GraphT) (ty : Name) : GraphT × Nat :=
  match idxOf ty g.types 0 with
  | some i => (g, i)
  | none => ({ g with types := g.types ++ [ty] }, g.types.length)

/-- `add_edge` (`forced = none`: a fresh id from the counter) and `insert_edge` under a given id
    (`forced = some id`, what `restore` uses since 3d29d770; the counter is not touched) -/
def GraphT.addEdgeWith (g : GraphT) (forced : Option Nat) (src dst : Nat) (ty : Name) (directed : Bool) : GraphT × Nat :=
  let id := match forced with
    | some i => i
    | none => g.nextId
  let gi := g.intern ty
  let g2 : GraphT := { gi.1 with
    nextId := (match forced with | some _ => g.nextId | none => g.nextId + 1),
    maxNode := max (max g.maxNode src) dst,
    pending := g.pending ++ [⟨id, src, dst, gi.2, directed⟩],
    incoming := aPush dst (src, id) g.incoming }
  (if g2.pending.length ≥ g2.threshold then g2.merge else g2, id)

def GraphT.addEdge (g : GraphT) (src dst : Nat) (ty : Name) (directed : Bool) : GraphT × Nat :=
  g.addEdgeWith none src dst ty directed

/-- `delete_edge` -/
def GraphT.deleteEdge (g : GraphT) (id : Nat) : GraphT × Bool :=
  if g.csr.any (fun e => e.id = id) || g.pending.any (fun e => e.id = id) then
    ({ g with deleted := if g.deleted.contains id then g.deleted else id :: g.deleted }, true)
  else (g, false)

/-- the edges `outgoing(node)` reports: CSR row first, then the pending log -/
def GraphT.outEdges (g : GraphT) (node : Nat) : List GEdge :=
  (csrOutgoing g.csr g.csrNodes node).filter g.notDeleted ++
  g.pending.filter (fun e => e.src = node && g.notDeleted e)

/-- `outgoing`: (target, edge id) -/
def GraphT.outgoing (g : GraphT) (node : Nat) : List (Nat × Nat) := (g.outEdges node).map (fun e => (e.dst, e.id))

/-- `incoming`: (source, edge id) -/
def GraphT.incomingOf (g : GraphT) (node : Nat) : List (Nat × Nat) :=
  match aFind node g.incoming with
  | some xs => xs.filter (fun x => !g.deleted.contains x.2)
  | none => []

def GraphT.edgeCount (g : GraphT) : Nat := (g.csr.filter g.notDeleted).length + (g.pending.filter g.notDeleted).length

def GraphT.setEdgeData (g : GraphT) (id : Nat) (d : TData) : GraphT := { g with edgeData := aInsert id d g.edgeData }
def GraphT.getEdgeData (g : GraphT) (id : Nat) : Option TData := aFind id g.edgeData

def GraphT.clear (g : GraphT) : GraphT :=
  { g with csr := [], csrNodes := 0, pending := [], deleted := [], incoming := [], nextId := 0, maxNode := 0, edgeData := [] }

structure GraphSnap where
  edges : List GEdge
  types : List Name
  nextId : Nat
  maxNode : Nat
  edgeData : List (Nat × TData)
  deriving DecidableEq, Repr

/-- `GraphTensor::snapshot`: merge FIRST (the saved store itself changes), then the CSR edges in row order -/
def GraphT.snapshot (g : GraphT) : GraphT × GraphSnap :=
  let g' := g.merge
  (g', ⟨g'.csr, g'.types, g'.nextId, g'.maxNode, g'.edgeData⟩)

/-- `GraphTensor::restore`: a new graph (default merge threshold 10 000) with the saved type registry
    (`restoreStart`), every
    saved edge inserted under its saved id (`keep = true`: the code since 3d29d770) or re-added with
    `add_edge`, which numbers them 0, 1, 2 … in snapshot order (`keep = false`: the code before), then
    the saved counters and the edge data -/
def GraphT.restoreStart (types : List Name) : GraphT := { GraphT.new 10000 with types := types }

def GraphT.restoreWith (keep : Bool) (s : GraphSnap) : GraphT :=
  let g1 := s.edges.foldl (fun g e =>
    (g.addEdgeWith (if keep then some e.id else none) e.src e.dst (s.types.getD e.ty []) e.directed).1) (GraphT.restoreStart s.types)
  { g1 with nextId := s.nextId, maxNode := s.maxNode,
            edgeData := s.edgeData.foldl (fun m p => aInsert p.1 p.2 m) g1.edgeData }

def GraphT.restore (s : GraphSnap) : GraphT := GraphT.restoreWith true s

/-- `restore` before 3d29d770 -/
def GraphT.restoreOld (s : GraphSnap) : GraphT := GraphT.restoreWith false s

/-! ## blob log (blob_log.rs); chunk hashes are inputs -/

structure Seg where
  id : Nat
  data : Bytes
  cap : Nat
  deriving DecidableEq, Repr

structure Loc where
  seg : Nat
  off : Nat
  len : Nat
  deriving DecidableEq, Repr

structure BlobLog where
  active : Seg
  sealed : List Seg
  index : List (Nat × Loc)
  garbage : List Nat
  segSize : Nat
  nextSeg : Nat
  totalBytes : Nat
  chunkCount : Nat
  deriving DecidableEq, Repr

def BlobLog.new (segSize : Nat) : BlobLog := ⟨⟨0, [], segSize⟩, [], [], [], segSize, 1, 0, 0⟩

/-- `LogSegment::read` -/
def Seg.read (s : Seg) (off len : Nat) : Option Bytes :=
  if off + len ≤ s.data.length then some ((s.data.drop off).take len) else none

/-- `append` of a chunk whose content hash is `hash`: deduplicated by hash; the active segment is
    sealed first when the chunk does not fit and the segment is not empty -/
def BlobLog.append (b : BlobLog) (hash : Nat) (data : Bytes) : BlobLog :=
  if (aFind hash b.index).isSome then b
  else
    let b1 : BlobLog :=
      if b.active.data.length + data.length ≤ b.active.cap then b
      else if b.active.data.isEmpty then b
      else { b with sealed := b.sealed ++ [b.active], active := ⟨b.nextSeg, [], b.segSize⟩, nextSeg := b.nextSeg + 1 }
    { b1 with active := { b1.active with data := b1.active.data ++ data },
              index := aInsert hash ⟨b1.active.id, b1.active.data.length, data.length⟩ b1.index,
              totalBytes := b1.totalBytes + data.length, chunkCount := b1.chunkCount + 1 }

def findSeg (id off len : Nat) : List Seg → Option Bytes
  | [] => none
  | s :: ss => if s.id = id then (match s.read off len with | some d => some d | none => findSeg id off len ss)
               else findSeg id off len ss

/-- `get`: garbage marks are not consulted -/
def BlobLog.get (b : BlobLog) (hash : Nat) : Option Bytes :=
  match aFind hash b.index with
  | none => none
  | some loc => if loc.seg = b.active.id then b.active.read loc.off loc.len else findSeg loc.seg loc.off loc.len b.sealed

def BlobLog.contains (b : BlobLog) (hash : Nat) : Bool := (aFind hash b.index).isSome && !b.garbage.contains hash

def BlobLog.markGarbage (b : BlobLog) (hash : Nat) : BlobLog :=
  if (aFind hash b.index).isSome && !b.garbage.contains hash then { b with garbage := hash :: b.garbage } else b

structure BlobSnap where
  active : Seg
  sealed : List Seg
  index : List (Nat × Loc)
  segSize : Nat
  deriving DecidableEq, Repr

/-- `BlobLog::snapshot`: segments and index; the garbage marks are not part of it -/
def BlobLog.snapshot (b : BlobLog) : BlobSnap := ⟨b.active, b.sealed, b.index, b.segSize⟩

/-- `BlobLog::restore`: counters are recomputed from the index, the next segment id is one past the
    largest saved id, no chunk is marked -/
def BlobLog.restore (s : BlobSnap) : BlobLog :=
  ⟨s.active, s.sealed, s.index, [], s.segSize,
   (s.sealed.foldl (fun m x => max m x.id) s.active.id) + 1,
   (s.index.map (fun p => p.2.len)).sum, s.index.length⟩

def BlobLog.clear (b : BlobLog) : BlobLog := BlobLog.new b.segSize

/-! ## the router (slab_router.rs) -/

structure Router where
  index : EIndex
  emb : ESlab
  md : List (Name × TData)
  cache : Cache
  graph : GraphT
  blobs : BlobLog
  deriving DecidableEq, Repr

structure RouterCfg where
  dim : Nat
  cacheCap : Nat
  threshold : Nat
  segSize : Nat
  deriving DecidableEq, Repr

def Router.new (cfg : RouterCfg) : Router :=
  ⟨EIndex.new, ESlab.new cfg.dim, [], Cache.new cfg.cacheCap, GraphT.new cfg.threshold, BlobLog.new cfg.segSize⟩

/-- bit pattern of `1.0_f64`, the cost every routed cache entry gets -/
def COST_ONE : Nat := 4607182418800017408

/-- the embedding branch of `put`: a `_embedding` vector of the slab's dimension is stored under the
    entity id; with another length, another kind of value or no such field the slab entry of the id is
    removed (the value itself always goes to the metadata slab) -/
def ESlab.putValue (s : ESlab) (id : Nat) (value : TData) : ESlab :=
  match value.embOf with
  | some vec => (match s.set id vec with
    | some e => e
    | none => s.delete id)
  | none => s.delete id

/-- `SlabRouter::put` -/
def Router.put (r : Router) (key : Name) (value : TData) (victim : Nat) : Router :=
  match classifyKey key with
  | .embedding =>
    let ic := r.index.getOrCreate key
    { r with index := ic.1, emb := r.emb.putValue ic.2 value, md := aInsert key value r.md }
  | .cache => { r with cache := r.cache.put key value COST_ONE (value.length * 100) victim }
  | _ => { r with md := aInsert key value r.md }

/-- the value `SlabRouter::get` returns (`none` = `NotFound`); for a cache key `get` also bumps the
    entry's access count (`Router.touch`) -/
def Router.peek (r : Router) (key : Name) : Option TData :=
  match classifyKey key with
  | .embedding =>
    match r.index.get key with
    | some id =>
      (match r.emb.get id with
      | some vec => some (((aFind key r.md).getD []).withEmb vec)
      | none => aFind key r.md)
    | none => aFind key r.md
  | .cache => r.cache.peek key
  | _ => aFind key r.md

def Router.touch (r : Router) (key : Name) : Router :=
  match classifyKey key with
  | .cache => { r with cache := r.cache.touch key }
  | _ => r

/-- `SlabRouter::exists` -/
def Router.exists (r : Router) (key : Name) : Bool :=
  match classifyKey key with
  | .embedding => (r.index.get key).isSome || (aFind key r.md).isSome
  | .cache => r.cache.contains key
  | _ => (aFind key r.md).isSome

/-- `SlabRouter::delete`; `false` = `NotFound` -/
def Router.delete (r : Router) (key : Name) : Router × Bool :=
  if !r.exists key then (r, false)
  else match classifyKey key with
    | .embedding =>
      let emb := match r.index.get key with
        | some id => r.emb.delete id
        | none => r.emb
      ({ r with emb := emb, index := r.index.remove key, md := aErase key r.md }, true)
    | .cache => ({ r with cache := r.cache.delete key }, true)
    | _ => ({ r with md := aErase key r.md }, true)

/-- `SlabRouter::scan`: the union (a `HashSet`) of the metadata keys, the live index keys and the
    cache keys with the prefix -/
def Router.scan (r : Router) (pre : Name) : List Name :=
  (((aKeys r.md).filter (fun k => pre.isPrefixOf k)) ++ (r.index.scanPrefix pre).map (·.1) ++ r.cache.scanPrefix pre).eraseDups

/-- `SlabRouter::len` -/
def Router.len (r : Router) : Nat := r.md.length + r.cache.len

/-- `SlabRouter::clear` -/
def Router.clear (r : Router) : Router :=
  ⟨EIndex.new, ESlab.new r.emb.dim, [], r.cache.clear, r.graph.clear, r.blobs.clear⟩

structure RouterSnap where
  index : EIndex
  emb : Nat × List (Nat × CEmb)
  graph : GraphSnap
  md : List (Name × TData)
  cache : Nat × List CEntry
  blobs : BlobSnap

/-- `SlabRouter::snapshot`: one sub-snapshot per slab (the graph tensor merges, so the router changes) -/
def Router.snapshot (ttOk : List Nat → Bool) (r : Router) : Router × RouterSnap :=
  let gs := r.graph.snapshot
  ({ r with graph := gs.1 },
   ⟨r.index.snapshot, r.emb.snapshot ttOk, gs.2, r.md, r.cache.snapshot, r.blobs.snapshot⟩)

/-- `MetadataSlab::restore`: every entry of the merged map goes back into its shard -/
def restoreMeta (es : List (Name × TData)) : List (Name × TData) := es.foldl (fun m p => aInsert p.1 p.2 m) []

/-- `SlabRouter::restore` -/
def Router.restore (ttRecon : List Nat → List Nat) (s : RouterSnap) : Router :=
  ⟨EIndex.restore s.index, ESlab.restore ttRecon s.emb, restoreMeta s.md, Cache.restore s.cache,
   GraphT.restore s.graph, BlobLog.restore s.blobs⟩

/-- the header's `entry_count`: `router.len() + router.index.len()` -/
def Router.entryCount (r : Router) : Nat := r.len + r.index.live

/-! ## operation sequences -/

inductive GOp where
  | add (src dst : Nat) (ty : Name) (directed : Bool)
  | del (id : Nat)
  | merge
  | setData (id : Nat) (d : TData)

def GraphT.apply (g : GraphT) : GOp → GraphT
  | .add s d ty dir => (g.addEdge s d ty dir).1
  | .del id => (g.deleteEdge id).1
  | .merge => g.merge
  | .setData id d => g.setEdgeData id d

def GraphT.run (g : GraphT) (ops : List GOp) : GraphT := ops.foldl GraphT.apply g

inductive BOp where
  | append (hash : Nat) (data : Bytes)
  | mark (hash : Nat)

def BlobLog.apply (b : BlobLog) : BOp → BlobLog
  | .append h d => b.append h d
  | .mark h => b.markGarbage h

/-- `evict_cache`: the entries with the lowest scores go; which ones is an input -/
def Cache.evict (c : Cache) (keys : List Name) : Cache := keys.foldl (fun c k => c.delete k) c

def BlobLog.run (b : BlobLog) (ops : List BOp) : BlobLog := ops.foldl BlobLog.apply b

inductive ROp where
  | put (key : Name) (val : TData) (victim : Nat)
  | delete (key : Name)
  | get (key : Name)
  | evict (keys : List Name)
  | clear
  | graph (op : GOp)
  | blob (op : BOp)

def Router.apply (r : Router) : ROp → Router
  | .put k v victim => r.put k v victim
  | .delete k => (r.delete k).1
  | .get k => r.touch k
  | .evict ks => { r with cache := r.cache.evict ks }
  | .clear => r.clear
  | .graph op => { r with graph := r.graph.apply op }
  | .blob op => { r with blobs := r.blobs.apply op }

def Router.run (r : Router) (ops : List ROp) : Router := ops.foldl Router.apply r

/-! ## store-level loops (lib.rs, snapshot.rs) -/

/-- `TensorStore::restore_from_bytes` after `SlabRouter::from_bytes` gave `new`: clear the store's
    own router, then `put` what `get` returns for every key of `new.scan("")` (`order`: the scan is a
    `HashSet`, any order). Only key-addressed content travels. -/
def Router.putOpt (t : Router) (key : Name) (o : Option TData) : Router :=
  match o with
  | some v => t.put key v 0
  | none => t

def restoreFromBytes (target new : Router) (order : List Name) : Router :=
  order.foldl (fun t key => t.putOpt key (new.peek key)) target.clear

/-- `snapshot::load_v2`: a fresh router and `put` of every entry of the decoded map -/
def loadV2Entries (cfg : RouterCfg) (entries : List (Name × TData)) : Router :=
  entries.foldl (fun r p => r.put p.1 p.2 0) (Router.new cfg)

/-- one entry of `save_snapshot_compressed`: every field through `compress_vector` / the scalar arm -/
def compressEntry (cfg : CConfig) (key : Name) (d : TData) : List (Name × CValue) :=
  d.map (fun p => (p.1, compressValue cfg key p.1 p.2))

/-- `save_snapshot_compressed`: the entries of the keys `scan("")` lists (`order`) that `get` finds -/
def saveQuant (cfg : CConfig) (r : Router) (order : List Name) : List (Name × List (Name × CValue)) :=
  order.filterMap (fun key => (r.peek key).map (fun d => (key, compressEntry cfg key d)))

/-- one entry of `load_snapshot_compressed`: `tensor.set(field, value)` for every decoded field -/
def decompressEntry (ttRecon : List Nat → List Nat) (fields : List (Name × CValue)) : TData :=
  fields.foldl (fun d p => aInsert p.1 (decompressValue ttRecon p.2) d) []

/-- `load_snapshot_compressed`: a fresh store and `put` of every entry -/
def loadQuant (ttRecon : List Nat → List Nat) (cfg : RouterCfg) (entries : List (Name × List (Name × CValue))) : Router :=
  entries.foldl (fun r p => r.put p.1 (decompressEntry ttRecon p.2) 0) (Router.new cfg)

/-! ## the store in front of the router: the optional Bloom filter (lib.rs `TensorStore`)

  `TensorStore { router, bloom_filter: Option<..> }`. The constructors `with_bloom_filter`,
  `with_default_bloom_filter`, `with_bloom_and_instrumentation`, `open_durable_with_bloom` build an
  empty filter; the loaders `load_snapshot_with_bloom_filter` and `recover_with_bloom` build one and
  add every key `scan("")` of the loaded router lists; every other constructor / loader has none.
  `put` adds the key and then goes to the router; `get` / `exists` ask the filter first and answer
  `NotFound` / `false` from the filter alone when it says "definitely absent"; `delete` and `scan` do
  not look at it; `clear` clears both. A Bloom filter never forgets an added key until it is cleared
  and may answer "maybe" for any other key: the filter is the list of the keys added since the last
  clear, and its false positives are an arbitrary function `fp` of that content and the asked key. -/

structure TStore where
  router : Router
  filter : Option (List Name)
  deriving DecidableEq, Repr

/-- `BloomFilter::might_contain` -/
def mightContain (fp : List Name → Name → Bool) (added : List Name) (key : Name) : Bool :=
  decide (key ∈ added) || fp added key

/-- the filter's fast path of `get` / `exists`: `true` = go on to the router -/
def TStore.passes (fp : List Name → Name → Bool) (s : TStore) (key : Name) : Bool :=
  match s.filter with
  | none => true
  | some added => mightContain fp added key

/-- `TensorStore::new` (`bloom = false`) / `with_bloom_filter` and its siblings (`bloom = true`) -/
def TStore.new (cfg : RouterCfg) (bloom : Bool) : TStore := ⟨Router.new cfg, if bloom then some [] else none⟩

/-- `filter.add(key)` when there is a filter -/
def TStore.tell (s : TStore) (key : Name) : Option (List Name) := s.filter.map (fun added => key :: added)

/-- `TensorStore::put` -/
def TStore.put (s : TStore) (key : Name) (value : TData) (victim : Nat) : TStore :=
  ⟨s.router.put key value victim, s.tell key⟩

/-- the value `TensorStore::get` returns -/
def TStore.get (fp : List Name → Name → Bool) (s : TStore) (key : Name) : Option TData :=
  if s.passes fp key then s.router.peek key else none

/-- the state after `TensorStore::get` (a cache hit bumps the access count; not when the filter answers) -/
def TStore.touch (fp : List Name → Name → Bool) (s : TStore) (key : Name) : TStore :=
  if s.passes fp key then { s with router := s.router.touch key } else s

/-- `TensorStore::exists` -/
def TStore.exists (fp : List Name → Name → Bool) (s : TStore) (key : Name) : Bool :=
  s.passes fp key && s.router.exists key

/-- `TensorStore::delete`: the router only; the filter keeps the key (it cannot forget) -/
def TStore.delete (s : TStore) (key : Name) : TStore × Bool :=
  ((⟨(s.router.delete key).1, s.filter⟩ : TStore), (s.router.delete key).2)

/-- `TensorStore::scan`: the router only -/
def TStore.scan (s : TStore) (pre : Name) : List Name := s.router.scan pre

/-- `TensorStore::clear` -/
def TStore.clear (s : TStore) : TStore := ⟨s.router.clear, s.filter.map (fun _ => [])⟩

/-- one turn of the loop of `restore_from_bytes`: a key `get` finds in the decoded router is told to
    the filter (`tell = true`: the code since cb3c5db0; `false`: the code before) and put through the
    router directly -/
def TStore.restoreStep (tell : Bool) (new : Router) (t : TStore) (key : Name) : TStore :=
  match new.peek key with
  | some v => ⟨t.router.put key v 0, if tell then t.tell key else t.filter⟩
  | none => t

/-- the router is cleared, the filter is NOT (keys the store held before stay in it: harmless, the
    filter only ever answers "definitely absent") -/
def TStore.restoreStart (s : TStore) : TStore := ⟨s.router.clear, s.filter⟩

def TStore.restoreWith (tell : Bool) (s : TStore) (new : Router) (order : List Name) : TStore :=
  order.foldl (TStore.restoreStep tell new) s.restoreStart

/-- `TensorStore::restore_from_bytes` (after `SlabRouter::from_bytes` gave `new`; `order` = its `scan("")`) -/
def TStore.restoreFromBytes (s : TStore) (new : Router) (order : List Name) : TStore :=
  TStore.restoreWith true s new order

/-- NOT the code any more: `restore_from_bytes` before cb3c5db0 never told the filter -/
def TStore.restoreFromBytesOld (s : TStore) (new : Router) (order : List Name) : TStore :=
  TStore.restoreWith false s new order

/-- `load_snapshot` / `load_snapshot_compressed` / `recover`: no filter -/
def TStore.load (r : Router) : TStore := ⟨r, none⟩

/-- `load_snapshot_with_bloom_filter` / `recover_with_bloom`: a new filter and `add` of every key of
    `router.scan("")` (`order`, as the hash set yields it) -/
def TStore.loadWithBloom (r : Router) (order : List Name) : TStore :=
  ⟨r, some (order.foldl (fun added key => key :: added) [])⟩

inductive TOp where
  | put (key : Name) (val : TData) (victim : Nat)
  | delete (key : Name)
  | get (key : Name)
  | clear
  | restore (new : Router) (order : List Name)

def TStore.apply (fp : List Name → Name → Bool) (s : TStore) : TOp → TStore
  | .put k v victim => s.put k v victim
  | .delete k => (s.delete k).1
  | .get k => s.touch fp k
  | .clear => s.clear
  | .restore new order => s.restoreFromBytes new order

def TStore.run (fp : List Name → Name → Bool) (s : TStore) (ops : List TOp) : TStore := ops.foldl (TStore.apply fp) s

end Neumann.Snap
