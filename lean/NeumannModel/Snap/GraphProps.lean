import NeumannModel.Snap.GraphLemmas
/-
  C07 — the graph tensor and the blob log through `snapshot` + `restore` ("graph data", "blobs" of the
  property's data classes; slab_router.rs `snapshot` / `restore` call these per slab).

  Graph tensor (graph_tensor.rs), stated for EVERY graph that any sequence of add_edge / delete_edge /
  merge / set_edge_data operations reaches, with any merge threshold (automatic merges included):
  * `incoming` is the transpose of `outgoing` at every moment (`graph_incoming_is_transpose_of_outgoing`);
    a merge — the one `snapshot()` runs on the store being saved included — changes neither
    (`graph_save_keeps_outgoing_and_incoming`);
  * the restored graph answers `outgoing` with the very same (target, edge id) lists, `incoming` with the
    same (source, edge id) entries, `get_edge_data` with the same data for every id, and continues with
    the saved id counter (`graph_restore_*`).
  `…_witness` theorems are about the code before 3d29d770 (`restoreOld`: edges renumbered 0, 1, 2 … in
  snapshot order, edge data — keyed by id — left behind on other edges) and before ce34e58a (`mergeOld`:
  a deleted edge listed by `incoming` again after the merge a save runs).

  Blob log (blob_log.rs): `get` and the counters are reproduced for every log; `contains` is reproduced
  exactly when no chunk is marked garbage — the marks are not part of the snapshot (witness; known
  finding `tensor_store.blob_log.snapshot/garbage_marks_not_restored`).
-/
namespace Neumann.Snap.Props
open Neumann.Snap

/-! ## graph tensor -/

/-- the structural invariants (CSR rows in range, sources bounded by the node counter, one data entry
    per edge id, incoming index = transpose of the stored edges) hold after ANY operation sequence -/
theorem graph_inv_reachable (threshold : Nat) (ops : List GOp) :
    ((GraphT.new threshold).run ops).Inv ∧ ((GraphT.new threshold).run ops).IncInv :=
  run_inv _ ops (GraphT.new_inv threshold) (GraphT.new_incInv threshold)

/-- **incoming = transpose of outgoing, for every history** (deletions followed by merges included:
    since ce34e58a a merge removes the deleted edges from the incoming index too) -/
theorem graph_incoming_is_transpose_of_outgoing (threshold : Nat) (ops : List GOp) (s t id : Nat) :
    (s, id) ∈ ((GraphT.new threshold).run ops).incomingOf t ↔ (t, id) ∈ ((GraphT.new threshold).run ops).outgoing s :=
  incoming_transpose _ (graph_inv_reachable threshold ops).1.rows (graph_inv_reachable threshold ops).2 s t id

example : ((GraphT.new 2).run [.add 1 2 [] true, .add 3 2 [] true, .del 0, .add 2 1 [] false]).incomingOf 2 = [(3, 1)] ∧
    ((GraphT.new 2).run [.add 1 2 [] true, .add 3 2 [] true, .del 0, .add 2 1 [] false]).outgoing 3 = [(2, 1)] := by
  decide

/-- saving (`snapshot()` merges the graph being saved) changes neither list of any node -/
theorem graph_save_keeps_outgoing_and_incoming (g : GraphT) (h : g.Inv) (node : Nat) :
    g.snapshot.1.outgoing node = g.outgoing node ∧ g.snapshot.1.incomingOf node = g.incomingOf node := by
  refine ⟨?_, merge_incomingOf g node⟩
  show g.merge.outgoing node = g.outgoing node
  unfold GraphT.outgoing
  rw [merge_outEdges g h]

/-- **`outgoing` of the restored graph is the saved one: same targets, same edge ids, same order** -/
theorem graph_restore_outgoing_exact (g : GraphT) (h : g.Inv) (node : Nat) :
    (GraphT.restore g.snapshot.2).outgoing node = g.outgoing node := by
  unfold GraphT.restore
  rw [restoreWith_outgoing, restoredOut_keep, outgoing_eq_snapshot g h]

/-- `incoming` of the restored graph lists the same (source, edge id) entries -/
theorem graph_restore_incoming (g : GraphT) (h : g.Inv) (hi : g.IncInv) (s t id : Nat) :
    (s, id) ∈ (GraphT.restore g.snapshot.2).incomingOf t ↔ (s, id) ∈ g.incomingOf t := by
  have hr := restoreWith_rows_incInv true g.snapshot.2
  unfold GraphT.restore
  rw [incoming_transpose _ hr.1 hr.2, incoming_transpose g h.rows hi]
  have := graph_restore_outgoing_exact g h s
  unfold GraphT.restore at this
  rw [this]

/-- edge data comes back under the same edge id, for every id -/
theorem graph_restore_edge_data (g : GraphT) (h : g.Inv) (id : Nat) :
    (GraphT.restore g.snapshot.2).getEdgeData id = g.getEdgeData id := by
  unfold GraphT.restore GraphT.getEdgeData
  rw [restoreWith_edgeData true g.snapshot.2 (by rw [(snapshot_fields g).2.1]; exact h.dataNd), (snapshot_fields g).2.1]

/-- `edge_count()` is the saved one -/
theorem graph_restore_edge_count (g : GraphT) (h : g.Inv) : (GraphT.restore g.snapshot.2).edgeCount = g.edgeCount := by
  obtain ⟨m, hm⟩ := restoreWith_live_bound true g.snapshot.2
  have hr := restoreWith_rows_incInv true g.snapshot.2
  apply edgeCount_of_outgoing_eq g (GraphT.restore g.snapshot.2) h.rows hr.1 (max m g.maxNode)
  · intro e he
    have := h.bound e (mem_live g e he)
    omega
  · intro e he
    have := hm e he
    omega
  · exact graph_restore_outgoing_exact g h

/-- the id counter and the node counter are the saved ones: new edges continue after the saved ids -/
theorem graph_restore_counters (g : GraphT) :
    (GraphT.restore g.snapshot.2).nextId = g.nextId ∧ (GraphT.restore g.snapshot.2).maxNode = g.maxNode :=
  ⟨(snapshot_fields g).2.2.1, (snapshot_fields g).2.2.2.1⟩

/-- the four together for every graph any operation sequence builds -/
theorem graph_restore_exact_after_any_ops (threshold : Nat) (ops : List GOp) (s t id : Nat) :
    let g := (GraphT.new threshold).run ops
    (GraphT.restore g.snapshot.2).outgoing s = g.outgoing s ∧
    ((s, id) ∈ (GraphT.restore g.snapshot.2).incomingOf t ↔ (s, id) ∈ g.incomingOf t) ∧
    (GraphT.restore g.snapshot.2).getEdgeData id = g.getEdgeData id ∧
    (GraphT.restore g.snapshot.2).nextId = g.nextId := by
  intro g
  have hi := graph_inv_reachable threshold ops
  exact ⟨graph_restore_outgoing_exact g hi.1 s, graph_restore_incoming g hi.1 hi.2 s t id,
    graph_restore_edge_data g hi.1 id, (graph_restore_counters g).1⟩

/-- sources out of order (5 → 1 added first, then 2 → 3), edge data on the first edge -/
def witnessGraph : GraphT :=
  (((GraphT.new 10000).run [.add 5 1 "a".toList true, .add 2 3 "b".toList false]).setEdgeData 0 [("w".toList, .scalar (.int 50))])

example : (GraphT.restore witnessGraph.snapshot.2).outgoing 5 = [(1, 0)] ∧ (GraphT.restore witnessGraph.snapshot.2).outgoing 2 = [(3, 1)] ∧
    (GraphT.restore witnessGraph.snapshot.2).getEdgeData 0 = some [("w".toList, .scalar (.int 50))] := by decide

/-- before 3d29d770 `restore` re-added the edges with `add_edge`: the edge 2 → 3 (saved id 1) came back
    as id 0 and 5 → 1 (saved id 0) as id 1, while the data of edge 0 stayed under id 0 — on the other
    edge. In general the restored ids were the positions in the snapshot's edge list. -/
theorem graph_restore_renumbers_witness :
    witnessGraph.outgoing 2 = [(3, 1)] ∧ (GraphT.restoreOld witnessGraph.snapshot.2).outgoing 2 = [(3, 0)] ∧
    witnessGraph.outgoing 5 = [(1, 0)] ∧ (GraphT.restoreOld witnessGraph.snapshot.2).outgoing 5 = [(1, 1)] ∧
    (GraphT.restoreOld witnessGraph.snapshot.2).getEdgeData 0 = some [("w".toList, .scalar (.int 50))] ∧
    ¬ (∀ (g : GraphT), g.Inv → ∀ node, (GraphT.restoreOld g.snapshot.2).outgoing node = g.outgoing node) := by
  refine ⟨by decide, by decide, by decide, by decide, by decide, fun hall => ?_⟩
  have h := hall witnessGraph (by
    have := (graph_inv_reachable 10000 [.add 5 1 "a".toList true, .add 2 3 "b".toList false]).1
    exact ⟨this.rows, this.bound, by decide⟩) 2
  revert h
  decide

/-- what `restoreOld` did keep: the targets of every node, in order (for every graph) -/
theorem graph_restore_old_keeps_targets (g : GraphT) (h : g.Inv) (node : Nat) :
    ((GraphT.restoreOld g.snapshot.2).outgoing node).map (·.1) = (g.outgoing node).map (·.1) := by
  unfold GraphT.restoreOld
  rw [restoreWith_outgoing, restoredOut_targets, outgoing_eq_snapshot g h]
  simp [List.map_map, Function.comp_def]

/-- before ce34e58a the merge that `snapshot()` runs emptied the deleted set without pruning the
    incoming index: add 1 → 2 (edge 0), delete edge 0; `incoming(2)` is empty before the save and lists
    the deleted edge after it -/
theorem graph_merge_old_resurrects_deleted_incoming_witness :
    ((GraphT.new 10000).run [.add 1 2 [] true, .del 0]).incomingOf 2 = [] ∧
    ((GraphT.new 10000).run [.add 1 2 [] true, .del 0]).mergeOld.incomingOf 2 = [(1, 0)] ∧
    ((GraphT.new 10000).run [.add 1 2 [] true, .del 0]).mergeOld.outgoing 1 = [] ∧
    ((GraphT.new 10000).run [.add 1 2 [] true, .del 0]).merge.incomingOf 2 = [] := by
  decide

/-! ## blob log -/

/-- `get` answers the same for every hash (the segments and the index are carried as they are) -/
theorem blob_restore_get (b : BlobLog) (hash : Nat) : (BlobLog.restore b.snapshot).get hash = b.get hash := rfl

/-- the chunk and byte counters, recomputed from the index by `restore`, are the saved ones after any
    sequence of appends (duplicates and sealed segments included) and garbage marks -/
theorem blob_restore_counters (segSize : Nat) (ops : List BOp) :
    (BlobLog.restore ((BlobLog.new segSize).run ops).snapshot).chunkCount = ((BlobLog.new segSize).run ops).chunkCount ∧
    (BlobLog.restore ((BlobLog.new segSize).run ops).snapshot).totalBytes = ((BlobLog.new segSize).run ops).totalBytes := by
  have h := BlobLog.run_inv _ ops (BlobLog.new_inv segSize)
  exact ⟨h.count.symm, h.bytes.symm⟩

example : ((BlobLog.new 4).run [.append 1 [1, 2, 3], .append 2 [4, 5, 6], .append 1 [1, 2, 3], .mark 2]).chunkCount = 2 ∧
    ((BlobLog.new 4).run [.append 1 [1, 2, 3], .append 2 [4, 5, 6], .append 1 [1, 2, 3], .mark 2]).sealed.length = 1 := by decide

/-- `contains` answers the same for every chunk that is not marked garbage -/
theorem blob_restore_contains_unmarked (b : BlobLog) (hash : Nat) (h : hash ∉ b.garbage) :
    (BlobLog.restore b.snapshot).contains hash = b.contains hash := by
  unfold BlobLog.contains BlobLog.restore BlobLog.snapshot
  simp [h]

/-- the marks themselves are not in the snapshot: a marked chunk is `contains = false` before the save
    and `true` after the load (known finding) -/
theorem blob_restore_forgets_garbage_marks_witness :
    let b := ((BlobLog.new 64).append 7 [97, 98, 99]).markGarbage 7
    b.contains 7 = false ∧ (BlobLog.restore b.snapshot).contains 7 = true ∧
    b.get 7 = some [97, 98, 99] ∧ (BlobLog.restore b.snapshot).get 7 = some [97, 98, 99] := by
  decide

end Neumann.Snap.Props
