import NeumannModel.Snap.Store
import NeumannModel.Snap.Lemmas
/-
  Helper lemmas for the store-level snapshot properties (C07): association lists, the embedding
  slab, the cache ring. Core Lean only.
-/
namespace Neumann.Snap

/-! ### association lists -/

section AList
variable {κ : Type} {ν : Type} [DecidableEq κ]

@[simp] theorem aFind_nil (k : κ) : aFind k ([] : List (κ × ν)) = none := rfl

theorem aInsertOpt_none (k : κ) (m : List (κ × ν)) : aInsertOpt k none m = m := rfl
theorem aInsertOpt_some (k : κ) (w : ν) (m : List (κ × ν)) : aInsertOpt k (some w) m = aInsert k w m := rfl

theorem aFind_cons (k k' : κ) (v : ν) (l : List (κ × ν)) :
    aFind k ((k', v) :: l) = if k' = k then some v else aFind k l := rfl

theorem aFind_aInsert_self (k : κ) (v : ν) (l : List (κ × ν)) : aFind k (aInsert k v l) = some v := by
  induction l with
  | nil => simp [aInsert, aFind]
  | cons p l ih =>
    obtain ⟨k', v'⟩ := p
    by_cases h : k' = k
    · simp [aInsert, aFind, h]
    · simp [aInsert, aFind, h, ih]

theorem aFind_aInsert_ne (k k₂ : κ) (v : ν) (l : List (κ × ν)) (hne : k₂ ≠ k) :
    aFind k₂ (aInsert k v l) = aFind k₂ l := by
  induction l with
  | nil => simp [aInsert, aFind]; intro h; exact absurd h.symm hne
  | cons p l ih =>
    obtain ⟨k', v'⟩ := p
    by_cases h : k' = k
    · subst h
      have : ¬ k' = k₂ := fun e => hne e.symm
      simp [aInsert, aFind, this]
    · by_cases h2 : k' = k₂
      · subst h2; simp [aInsert, aFind, h]
      · simp [aInsert, aFind, h, h2, ih]

theorem aFind_aErase_self (k : κ) (l : List (κ × ν)) : aFind k (aErase k l) = none := by
  induction l with
  | nil => rfl
  | cons p l ih =>
    obtain ⟨k', v'⟩ := p
    by_cases h : k' = k
    · simp [aErase, h, ih]
    · simp [aErase, aFind, h, ih]

theorem aFind_aErase_ne (k k₂ : κ) (l : List (κ × ν)) (hne : k₂ ≠ k) :
    aFind k₂ (aErase k l) = aFind k₂ l := by
  induction l with
  | nil => rfl
  | cons p l ih =>
    obtain ⟨k', v'⟩ := p
    by_cases h : k' = k
    · subst h
      have : ¬ k' = k₂ := fun e => hne e.symm
      simp [aErase, aFind, this, ih]
    · by_cases h2 : k' = k₂
      · subst h2; simp [aErase, aFind, h]
      · simp [aErase, aFind, h, h2, ih]

theorem aFind_none_of_not_mem (k : κ) (l : List (κ × ν)) (h : k ∉ aKeys l) : aFind k l = none := by
  induction l with
  | nil => rfl
  | cons p l ih =>
    obtain ⟨k', v'⟩ := p
    simp only [aKeys, List.map_cons, List.mem_cons, not_or] at h
    have h1 : ¬ k' = k := fun e => h.1 e.symm
    simp only [aFind, h1, if_false]
    exact ih h.2

theorem aFind_isSome_iff_mem (k : κ) (l : List (κ × ν)) : (aFind k l).isSome ↔ k ∈ aKeys l := by
  induction l with
  | nil => simp [aKeys]
  | cons p l ih =>
    obtain ⟨k', v'⟩ := p
    by_cases h : k' = k
    · simp [aFind, aKeys, h]
    · have h' : ¬ k = k' := fun e => h e.symm
      simp only [aFind, h, if_false, aKeys, List.map_cons, List.mem_cons, h', false_or]
      exact ih

theorem aInsert_of_not_mem (k : κ) (v : ν) (l : List (κ × ν)) (h : k ∉ aKeys l) : aInsert k v l = l ++ [(k, v)] := by
  induction l with
  | nil => rfl
  | cons p l ih =>
    obtain ⟨k', v'⟩ := p
    simp only [aKeys, List.map_cons, List.mem_cons, not_or] at h
    have h1 : ¬ k' = k := fun e => h.1 e.symm
    simp only [aInsert, h1, if_false, List.cons_append]
    rw [ih h.2]

theorem aKeys_aInsert_mem (k : κ) (v : ν) (l : List (κ × ν)) (h : k ∈ aKeys l) : aKeys (aInsert k v l) = aKeys l := by
  induction l with
  | nil => simp [aKeys] at h
  | cons p l ih =>
    obtain ⟨k', v'⟩ := p
    by_cases h1 : k' = k
    · simp [aInsert, aKeys, h1]
    · simp only [aKeys, List.map_cons, List.mem_cons] at h
      have : k ∈ aKeys l := by
        rcases h with h | h
        · exact absurd h.symm h1
        · exact h
      simp only [aInsert, h1, if_false, aKeys, List.map_cons]
      have := ih this
      simp only [aKeys] at this
      rw [this]

theorem aKeys_aInsert_nodup (k : κ) (v : ν) (l : List (κ × ν)) (h : (aKeys l).Nodup) : (aKeys (aInsert k v l)).Nodup := by
  by_cases hm : k ∈ aKeys l
  · rw [aKeys_aInsert_mem k v l hm]; exact h
  · rw [aInsert_of_not_mem k v l hm]
    simp only [aKeys, List.map_append, List.map_cons, List.map_nil]
    rw [List.nodup_append]
    refine ⟨h, by simp, ?_⟩
    intro a ha b hb
    simp at hb
    subst hb
    intro e
    subst e
    exact hm ha

theorem aKeys_aErase_sub (k : κ) (l : List (κ × ν)) : ∀ x, x ∈ aKeys (aErase k l) → x ∈ aKeys l := by
  induction l with
  | nil => intro x h; exact h
  | cons p l ih =>
    obtain ⟨k', v'⟩ := p
    intro x h
    by_cases h1 : k' = k
    · simp only [aErase, h1, if_true] at h
      simp only [aKeys, List.map_cons, List.mem_cons]
      exact Or.inr (ih x h)
    · simp only [aErase, h1, if_false, aKeys, List.map_cons, List.mem_cons] at h ⊢
      rcases h with h | h
      · exact Or.inl h
      · exact Or.inr (ih x h)

theorem aKeys_aErase_nodup (k : κ) (l : List (κ × ν)) (h : (aKeys l).Nodup) : (aKeys (aErase k l)).Nodup := by
  induction l with
  | nil => exact h
  | cons p l ih =>
    obtain ⟨k', v'⟩ := p
    simp only [aKeys, List.map_cons, List.nodup_cons] at h
    by_cases h1 : k' = k
    · simp only [aErase, h1, if_true]; exact ih h.2
    · simp only [aErase, h1, if_false, aKeys, List.map_cons, List.nodup_cons]
      exact ⟨fun hm => h.1 (aKeys_aErase_sub k l k' hm), ih h.2⟩

/-- re-inserting the entries of a map with distinct keys, one by one, behind an unrelated map
    rebuilds the same list -/
theorem foldl_aInsert_append (l m : List (κ × ν)) (hnd : (aKeys l).Nodup) (hdis : ∀ k ∈ aKeys l, k ∉ aKeys m) :
    l.foldl (fun m p => aInsert p.1 p.2 m) m = m ++ l := by
  induction l generalizing m with
  | nil => simp
  | cons p l ih =>
    obtain ⟨k, v⟩ := p
    simp only [aKeys, List.map_cons, List.nodup_cons] at hnd
    simp only [List.foldl_cons]
    have hk : k ∉ aKeys m := hdis k (by simp [aKeys])
    rw [aInsert_of_not_mem k v m hk]
    rw [ih (m ++ [(k, v)]) hnd.2]
    · simp
    · intro k' hk' hm
      simp only [aKeys, List.map_append, List.map_cons, List.map_nil, List.mem_append, List.mem_cons, List.not_mem_nil, or_false] at hm
      rcases hm with hm | hm
      · exact hdis k' (by simp only [aKeys, List.map_cons, List.mem_cons]; exact Or.inr hk') hm
      · subst hm; exact hnd.1 hk'

theorem foldl_aInsert_nil (l : List (κ × ν)) (hnd : (aKeys l).Nodup) :
    l.foldl (fun m p => aInsert p.1 p.2 m) [] = l := by
  have := foldl_aInsert_append l [] hnd (by intro k _ h; simp [aKeys] at h)
  simpa using this

/-- the same with a partial transformation of the values: entries whose value is rejected are skipped -/
theorem foldl_aInsert_filterMap {α : Type} (f : α → Option ν) (l : List (κ × α)) (m : List (κ × ν))
    (hnd : (aKeys l).Nodup) (hdis : ∀ k ∈ aKeys l, k ∉ aKeys m) :
    l.foldl (fun m p => aInsertOpt p.1 (f p.2) m) m =
      m ++ l.filterMap (fun p => (f p.2).map (fun w => (p.1, w))) := by
  induction l generalizing m with
  | nil => simp
  | cons p l ih =>
    obtain ⟨k, a⟩ := p
    simp only [aKeys, List.map_cons, List.nodup_cons] at hnd
    simp only [List.foldl_cons, List.filterMap_cons]
    have hk : k ∉ aKeys m := hdis k (by simp [aKeys])
    cases hf : f a with
    | none =>
      simp only [Option.map_none, aInsertOpt_none]
      exact ih m hnd.2 (fun k' hk' => hdis k' (by simp only [aKeys, List.map_cons, List.mem_cons]; exact Or.inr hk'))
    | some w =>
      simp only [Option.map_some, aInsertOpt_some]
      rw [aInsert_of_not_mem k w m hk]
      rw [ih (m ++ [(k, w)]) hnd.2]
      · simp
      · intro k' hk' hm
        simp only [aKeys, List.map_append, List.map_cons, List.map_nil, List.mem_append, List.mem_cons, List.not_mem_nil, or_false] at hm
        rcases hm with hm | hm
        · exact hdis k' (by simp only [aKeys, List.map_cons, List.mem_cons]; exact Or.inr hk') hm
        · subst hm; exact hnd.1 hk'

theorem aFind_filterMap {α : Type} (f : α → Option ν) (l : List (κ × α)) (k : κ) (hnd : (aKeys l).Nodup) :
    aFind k (l.filterMap (fun p => (f p.2).map (fun w => (p.1, w)))) = (aFind k l).bind f := by
  induction l with
  | nil => rfl
  | cons p l ih =>
    obtain ⟨k', a⟩ := p
    simp only [aKeys, List.map_cons, List.nodup_cons] at hnd
    simp only [List.filterMap_cons]
    by_cases h : k' = k
    · subst h
      cases hf : f a with
      | none =>
        simp only [Option.map_none, aFind, if_true, Option.bind_some, hf]
        rw [ih hnd.2]
        rw [aFind_none_of_not_mem k' l hnd.1]
        rfl
      | some w => simp [aFind, hf]
    · cases hf : f a with
      | none => simp only [Option.map_none, aFind, h, if_false]; exact ih hnd.2
      | some w => simp only [Option.map_some, aFind, h, if_false]; exact ih hnd.2

theorem aFind_map_val {β : Type} (g : ν → β) (l : List (κ × ν)) (k : κ) :
    aFind k (l.map (fun p => (p.1, g p.2))) = (aFind k l).map g := by
  induction l with
  | nil => rfl
  | cons p l ih =>
    obtain ⟨k', a⟩ := p
    by_cases h : k' = k
    · simp [aFind, h]
    · simp [aFind, h, ih]

theorem aKeys_map_val {β : Type} (g : κ → ν → β) (l : List (κ × ν)) :
    aKeys (l.map (fun p => (p.1, g p.1 p.2))) = aKeys l := by
  simp [aKeys, List.map_map, Function.comp_def]

theorem aFind_mem (k : κ) (v : ν) (l : List (κ × ν)) (h : aFind k l = some v) : (k, v) ∈ l := by
  induction l with
  | nil => simp at h
  | cons p l ih =>
    obtain ⟨k', v'⟩ := p
    by_cases h1 : k' = k
    · simp only [aFind, h1, if_true, Option.some.injEq] at h
      subst h; subst h1; simp
    · simp only [aFind, h1, if_false] at h
      exact List.mem_cons_of_mem _ (ih h)

end AList

/-! ### embedding slab -/

/-- what one slab entry becomes through snapshot + restore: `to_dense(from_dense(v))`, kept only when
    `set` accepts its length -/
def embRound (ttOk : List Nat → Bool) (ttRecon : List Nat → List Nat) (dim : Nat) (v : List Nat) : Option (List Nat) :=
  if (toDense ttRecon (fromDense ttOk v)).length = dim then some (toDense ttRecon (fromDense ttOk v)) else none

theorem eslab_restore_fold (ttRecon : List Nat → List Nat) (d : Nat) (cents : List (Nat × CEmb)) (t : ESlab) (hd : t.dim = d) :
    cents.foldl (fun s e => s.setOrSkip e.1 (toDense ttRecon e.2)) t =
    ⟨d, cents.foldl (fun m p => aInsertOpt p.1
      (if (toDense ttRecon p.2).length = d then some (toDense ttRecon p.2) else none) m) t.ents⟩ := by
  induction cents generalizing t with
  | nil => subst hd; rfl
  | cons c cs ih =>
    simp only [List.foldl_cons]
    by_cases h : (toDense ttRecon c.2).length = d
    · have hs : t.setOrSkip c.1 (toDense ttRecon c.2) = { t with ents := aInsert c.1 (toDense ttRecon c.2) t.ents } := by
        simp [ESlab.setOrSkip, ESlab.set, h, hd]
      rw [hs]
      simp only [h, if_true, aInsertOpt_some]
      exact ih _ hd
    · have hs : t.setOrSkip c.1 (toDense ttRecon c.2) = t := by
        simp [ESlab.setOrSkip, ESlab.set, h, hd]
      rw [hs]
      simp only [h, if_false, aInsertOpt_none]
      exact ih _ hd

/-- closed form of snapshot + restore of an embedding slab whose entity ids are distinct -/
theorem eslab_restore_snapshot (ttOk : List Nat → Bool) (ttRecon : List Nat → List Nat) (s : ESlab)
    (hnd : (aKeys s.ents).Nodup) :
    ESlab.restore ttRecon (s.snapshot ttOk) =
      ⟨s.dim, s.ents.filterMap (fun p => (embRound ttOk ttRecon s.dim p.2).map (fun w => (p.1, w)))⟩ := by
  unfold ESlab.restore ESlab.snapshot
  rw [eslab_restore_fold ttRecon s.dim _ (ESlab.new s.dim) rfl]
  have hk : aKeys (s.ents.map (fun e => (e.1, fromDense ttOk e.2))) = aKeys s.ents := by
    simp [aKeys, List.map_map, Function.comp_def]
  have := foldl_aInsert_filterMap (fun c : CEmb => if (toDense ttRecon c).length = s.dim then some (toDense ttRecon c) else none)
    (s.ents.map (fun e => (e.1, fromDense ttOk e.2))) [] (by rw [hk]; exact hnd) (by intro k _ h; simp [aKeys] at h)
  simp only [ESlab.new]
  rw [this]
  simp only [List.nil_append, List.filterMap_map]
  congr 1

theorem eslab_restore_get (ttOk : List Nat → Bool) (ttRecon : List Nat → List Nat) (s : ESlab)
    (hnd : (aKeys s.ents).Nodup) (id : Nat) :
    (ESlab.restore ttRecon (s.snapshot ttOk)).get id = (s.get id).bind (embRound ttOk ttRecon s.dim) := by
  rw [eslab_restore_snapshot ttOk ttRecon s hnd]
  simp only [ESlab.get]
  exact aFind_filterMap (embRound ttOk ttRecon s.dim) s.ents id hnd

/-! ### cache ring -/

theorem findSlot_shift (key : Name) (ss : List (Option CEntry)) (i : Nat) :
    findSlot key ss i = (findSlot key ss 0).map (· + i) := by
  induction ss generalizing i with
  | nil => rfl
  | cons s ss ih =>
    simp only [findSlot]
    split
    · simp
    · rw [ih (i + 1), ih (0 + 1)]
      cases findSlot key ss 0 with
      | none => rfl
      | some j => simp; omega

/-- key ↦ value of the occupied slots, in slot order -/
def cacheMap (slots : List (Option CEntry)) : List (Name × TData) := (occupied slots).map (fun e => (e.key, e.val))

theorem cache_peek_cons (cap : Nat) (s : Option CEntry) (ss : List (Option CEntry)) (key : Name) :
    (⟨cap, s :: ss⟩ : Cache).peek key =
      if slotHolds key s then s.map (·.val) else (⟨cap, ss⟩ : Cache).peek key := by
  unfold Cache.peek
  simp only [findSlot]
  by_cases h : slotHolds key s = true
  · simp only [h, if_true]
    cases s with
    | none => simp [slotHolds] at h
    | some e => simp
  · simp only [h, Bool.false_eq_true, if_false]
    rw [findSlot_shift key ss (0 + 1)]
    cases findSlot key ss 0 with
    | none => rfl
    | some j => simp

theorem cache_peek_eq (c : Cache) (key : Name) : c.peek key = aFind key (cacheMap c.slots) := by
  obtain ⟨cap, slots⟩ := c
  induction slots with
  | nil => rfl
  | cons s ss ih =>
    rw [cache_peek_cons]
    cases s with
    | none =>
      simp only [slotHolds, Bool.false_eq_true, if_false]
      rw [ih]; rfl
    | some e =>
      by_cases h : e.key = key
      · simp [slotHolds, h, cacheMap, occupied, aFind]
      · simp only [slotHolds, h, decide_false, Bool.false_eq_true, if_false]
        rw [ih]
        simp [cacheMap, occupied, aFind, h]

theorem findSlot_isSome_eq (slots : List (Option CEntry)) (key : Name) :
    (findSlot key slots 0).isSome = (aFind key (cacheMap slots)).isSome := by
  induction slots with
  | nil => rfl
  | cons s ss ih =>
    simp only [findSlot]
    cases s with
    | none =>
      simp only [slotHolds, Bool.false_eq_true, if_false]
      rw [findSlot_shift]
      simp only [Option.isSome_map]
      rw [ih]; rfl
    | some e =>
      by_cases h : e.key = key
      · simp [slotHolds, h, cacheMap, occupied, aFind]
      · simp only [slotHolds, h, decide_false, Bool.false_eq_true, if_false]
        rw [findSlot_shift]
        simp only [Option.isSome_map]
        rw [ih]
        simp [cacheMap, occupied, aFind, h]

theorem cache_contains_eq (c : Cache) (key : Name) : c.contains key = (aFind key (cacheMap c.slots)).isSome :=
  findSlot_isSome_eq c.slots key

/-- a ring whose first slots hold `done` and whose other `n` slots are empty -/
def packed (done : List CEntry) (n : Nat) : List (Option CEntry) := done.map some ++ List.replicate n none

theorem occupied_packed (done : List CEntry) (n : Nat) : occupied (packed done n) = done := by
  induction done with
  | nil =>
    induction n with
    | zero => rfl
    | succ n ih => simpa [packed, List.replicate_succ, occupied] using ih
  | cons e es ih => simp only [packed, List.map_cons, List.cons_append, occupied] at ih ⊢; rw [ih]

theorem findSlot_packed_none (key : Name) (done : List CEntry) (n : Nat) (h : ∀ e ∈ done, e.key ≠ key) :
    findSlot key (packed done n) 0 = none := by
  have := findSlot_isSome_eq (packed done n) key
  rw [cacheMap, occupied_packed] at this
  have hk : key ∉ aKeys (done.map (fun e => (e.key, e.val))) := by
    simp only [aKeys, List.map_map, List.mem_map, Function.comp_def, not_exists, not_and]
    intro e he; exact h e he
  rw [aFind_none_of_not_mem key _ hk] at this
  cases hf : findSlot key (packed done n) 0 with
  | none => rfl
  | some j => rw [hf] at this; simp at this

theorem firstEmpty_packed (done : List CEntry) (n i : Nat) :
    firstEmpty (packed done (n + 1)) i = some (i + done.length) := by
  induction done generalizing i with
  | nil => simp [packed, List.replicate_succ, firstEmpty]
  | cons e es ih =>
    simp only [packed, List.map_cons, List.cons_append, firstEmpty, List.length_cons]
    have := ih (i + 1)
    simp only [packed] at this
    rw [this]; congr 1; omega

theorem set_packed (done : List CEntry) (n : Nat) (x : CEntry) :
    (packed done (n + 1)).set done.length (some x) = packed (done ++ [x]) n := by
  induction done with
  | nil => simp [packed, List.replicate_succ]
  | cons e es ih =>
    simp only [packed, List.map_cons, List.cons_append, List.length_cons, List.set_cons_succ] at ih ⊢
    rw [ih]

/-- `put` of a key that is not in a ring with at least one empty slot: it takes the first empty slot -/
theorem cache_put_packed (cap : Nat) (done : List CEntry) (n : Nat) (key : Name) (val : TData) (cost size victim : Nat)
    (h : ∀ e ∈ done, e.key ≠ key) :
    (⟨cap, packed done (n + 1)⟩ : Cache).put key val cost size victim =
      ⟨cap, packed (done ++ [⟨key, val, 1, cost, size⟩]) n⟩ := by
  unfold Cache.put
  simp only [findSlot_packed_none key done (n + 1) h]
  have := firstEmpty_packed done n 0
  simp only [Nat.zero_add] at this
  simp only [this]
  rw [set_packed]

/-- the entries of a snapshot as `restore` puts them back: access count 1 -/
def resetAccess (e : CEntry) : CEntry := ⟨e.key, e.val, 1, e.cost, e.size⟩

theorem cache_restore_fold (cap : Nat) (es done : List CEntry) (n : Nat)
    (hlen : es.length ≤ n) (hnd : (es.map (·.key)).Nodup) (hdis : ∀ e ∈ es, ∀ d ∈ done, d.key ≠ e.key) :
    es.foldl (fun c e => c.put e.key e.val e.cost e.size 0) (⟨cap, packed done n⟩ : Cache) =
      ⟨cap, packed (done ++ es.map resetAccess) (n - es.length)⟩ := by
  induction es generalizing done n with
  | nil => simp
  | cons e es ih =>
    simp only [List.length_cons] at hlen
    obtain ⟨m, rfl⟩ : ∃ m, n = m + 1 := ⟨n - 1, by omega⟩
    simp only [List.map_cons, List.nodup_cons] at hnd
    simp only [List.foldl_cons]
    rw [cache_put_packed cap done m e.key e.val e.cost e.size 0 (fun d hd => hdis e (by simp) d hd)]
    rw [ih (done ++ [(⟨e.key, e.val, 1, e.cost, e.size⟩ : CEntry)]) m (by omega) hnd.2]
    · simp only [List.map_cons, List.append_assoc, List.cons_append, List.nil_append, List.length_cons, resetAccess]
      congr 2; omega
    · intro e' he' d hd
      simp only [List.mem_append, List.mem_cons, List.not_mem_nil, or_false] at hd
      rcases hd with hd | hd
      · exact hdis e' (List.mem_cons_of_mem _ he') d hd
      · subst hd
        simp only
        intro heq
        exact hnd.1 (by rw [heq]; exact List.mem_map_of_mem he')

/-- closed form of snapshot + restore of a cache ring with as many slots as its capacity and distinct keys -/
theorem cache_restore_snapshot (c : Cache) (hlen : c.slots.length = c.cap) (hnd : ((occupied c.slots).map (·.key)).Nodup) :
    Cache.restore c.snapshot = ⟨c.cap, packed ((occupied c.slots).map resetAccess) (c.cap - (occupied c.slots).length)⟩ := by
  unfold Cache.restore Cache.snapshot Cache.new
  have hocc : (occupied c.slots).length ≤ c.cap := by
    rw [← hlen]
    generalize c.slots = ss
    induction ss with
    | nil => simp [occupied]
    | cons s ss ih => cases s <;> simp [occupied] <;> omega
  have := cache_restore_fold c.cap (occupied c.slots) [] c.cap hocc hnd (by intro _ _ d hd; simp at hd)
  simp only [packed, List.map_nil, List.nil_append] at this
  simp only [packed]
  rw [this]

theorem cacheMap_packed_reset (es : List CEntry) (n : Nat) :
    cacheMap (packed (es.map resetAccess) n) = es.map (fun e => (e.key, e.val)) := by
  rw [cacheMap, occupied_packed]
  simp [List.map_map, Function.comp_def, resetAccess]

/-! ### cache ring: well-formedness (as many slots as the capacity, no key in two slots) -/

def SlotsNodup (slots : List (Option CEntry)) : Prop :=
  ∀ (i j : Nat) (e1 e2 : CEntry), slots[i]? = some (some e1) → slots[j]? = some (some e2) → e1.key = e2.key → i = j

theorem mem_occupied (slots : List (Option CEntry)) (e : CEntry) :
    e ∈ occupied slots ↔ ∃ i : Nat, slots[i]? = some (some e) := by
  induction slots with
  | nil => simp [occupied]
  | cons s ss ih =>
    cases s with
    | none =>
      simp only [occupied, ih]
      constructor
      · rintro ⟨i, hi⟩; exact ⟨i + 1, by simpa using hi⟩
      · rintro ⟨i, hi⟩
        cases i with
        | zero => simp at hi
        | succ i => exact ⟨i, by simpa using hi⟩
    | some e' =>
      simp only [occupied, List.mem_cons, ih]
      constructor
      · rintro (h | ⟨i, hi⟩)
        · exact ⟨0, by simp [h]⟩
        · exact ⟨i + 1, by simpa using hi⟩
      · rintro ⟨i, hi⟩
        cases i with
        | zero => left; simpa using hi.symm
        | succ i => right; exact ⟨i, by simpa using hi⟩

theorem slotsNodup_tail (s : Option CEntry) (ss : List (Option CEntry)) (h : SlotsNodup (s :: ss)) : SlotsNodup ss := by
  unfold SlotsNodup
  intro i j e1 e2 h1 h2 hk
  have := h (i + 1) (j + 1) e1 e2 (by simpa using h1) (by simpa using h2) hk
  omega

theorem occKeys_nodup (slots : List (Option CEntry)) (h : SlotsNodup slots) : ((occupied slots).map (·.key)).Nodup := by
  induction slots with
  | nil => simp [occupied]
  | cons s ss ih =>
    have ht := ih (slotsNodup_tail s ss h)
    cases s with
    | none => simpa [occupied] using ht
    | some e =>
      simp only [occupied, List.map_cons, List.nodup_cons]
      refine ⟨?_, ht⟩
      intro hm
      obtain ⟨e2, he2, hk⟩ := List.mem_map.mp hm
      obtain ⟨j, hj⟩ := (mem_occupied ss e2).mp he2
      have := h 0 (j + 1) e e2 (by simp) (by simpa using hj) hk.symm
      omega

theorem findSlot_some_spec (key : Name) (slots : List (Option CEntry)) (i : Nat) (h : findSlot key slots 0 = some i) :
    ∃ e, slots[i]? = some (some e) ∧ e.key = key := by
  induction slots generalizing i with
  | nil => simp [findSlot] at h
  | cons s ss ih =>
    simp only [findSlot] at h
    by_cases hs : slotHolds key s = true
    · simp only [hs, if_true, Option.some.injEq] at h
      subst h
      cases s with
      | none => simp [slotHolds] at hs
      | some e => exact ⟨e, by simp, by simpa [slotHolds] using hs⟩
    · simp only [hs, Bool.false_eq_true, if_false] at h
      rw [findSlot_shift] at h
      cases hf : findSlot key ss 0 with
      | none => rw [hf] at h; simp at h
      | some j =>
        rw [hf] at h
        simp only [Option.map_some, Option.some.injEq] at h
        subst h
        obtain ⟨e, he, hk⟩ := ih j hf
        exact ⟨e, by simpa using he, hk⟩

theorem findSlot_none_spec (key : Name) (slots : List (Option CEntry)) (h : findSlot key slots 0 = none) :
    ∀ (j : Nat) (e : CEntry), slots[j]? = some (some e) → e.key ≠ key := by
  intro j e hj hk
  have h1 := findSlot_isSome_eq slots key
  rw [h] at h1
  have hm : key ∈ aKeys (cacheMap slots) := by
    simp only [cacheMap, aKeys, List.map_map, List.mem_map, Function.comp_def]
    exact ⟨e, (mem_occupied slots e).mpr ⟨j, hj⟩, hk⟩
  rw [← aFind_isSome_iff_mem] at hm
  rw [hm] at h1
  simp at h1

theorem slotsNodup_set_none (slots : List (Option CEntry)) (i : Nat) (h : SlotsNodup slots) : SlotsNodup (slots.set i none) := by
  unfold SlotsNodup
  intro a b e1 e2 h1 h2 hk
  rw [List.getElem?_set] at h1 h2
  by_cases ha : i = a
  · simp only [ha, if_true] at h1; split at h1 <;> simp at h1
  · by_cases hb : i = b
    · simp only [hb, if_true] at h2; split at h2 <;> simp at h2
    · simp only [ha, hb, if_false] at h1 h2
      exact h a b e1 e2 h1 h2 hk

theorem slotsNodup_set_same_key (slots : List (Option CEntry)) (i : Nat) (e e' : CEntry)
    (hi : slots[i]? = some (some e)) (hk' : e'.key = e.key) (h : SlotsNodup slots) :
    SlotsNodup (slots.set i (some e')) := by
  unfold SlotsNodup
  intro a b e1 e2 h1 h2 hk
  rw [List.getElem?_set] at h1 h2
  by_cases ha : i = a
  · by_cases hb : i = b
    · omega
    · simp only [ha, if_true] at h1
      simp only [hb, if_false] at h2
      split at h1
      · simp only [Option.some.injEq] at h1
        subst h1
        have := h i b e e2 hi h2 (by rw [← hk', hk])
        omega
      · simp at h1
  · by_cases hb : i = b
    · simp only [ha, if_false] at h1
      simp only [hb, if_true] at h2
      split at h2
      · simp only [Option.some.injEq] at h2
        subst h2
        have := h a i e1 e h1 hi (by rw [hk, hk'])
        omega
      · simp at h2
    · simp only [ha, hb, if_false] at h1 h2
      exact h a b e1 e2 h1 h2 hk

theorem slotsNodup_set_fresh (slots : List (Option CEntry)) (i : Nat) (e' : CEntry)
    (hfresh : ∀ (j : Nat) (e : CEntry), slots[j]? = some (some e) → e.key ≠ e'.key) (h : SlotsNodup slots) :
    SlotsNodup (slots.set i (some e')) := by
  unfold SlotsNodup
  intro a b e1 e2 h1 h2 hk
  rw [List.getElem?_set] at h1 h2
  by_cases ha : i = a
  · by_cases hb : i = b
    · omega
    · simp only [ha, if_true] at h1
      simp only [hb, if_false] at h2
      split at h1
      · simp only [Option.some.injEq] at h1
        subst h1
        exact absurd hk.symm (hfresh b e2 h2)
      · simp at h1
  · by_cases hb : i = b
    · simp only [ha, if_false] at h1
      simp only [hb, if_true] at h2
      split at h2
      · simp only [Option.some.injEq] at h2
        subst h2
        exact absurd hk (hfresh a e1 h1)
      · simp at h2
    · simp only [ha, hb, if_false] at h1 h2
      exact h a b e1 e2 h1 h2 hk

structure Cache.WF (c : Cache) : Prop where
  len : c.slots.length = c.cap
  nd : SlotsNodup c.slots

theorem Cache.new_wf (cap : Nat) : (Cache.new cap).WF :=
  ⟨by simp [Cache.new], by
    unfold SlotsNodup
    intro i j e1 e2 h1 _ _
    simp only [Cache.new, List.getElem?_replicate] at h1
    split at h1 <;> simp at h1⟩

theorem Cache.clear_wf (c : Cache) (h : c.WF) : c.clear.WF :=
  ⟨by simp [Cache.clear, h.len], by
    unfold SlotsNodup
    intro i j e1 e2 h1 _ _
    simp only [Cache.clear, List.getElem?_replicate] at h1
    split at h1 <;> simp at h1⟩

theorem Cache.put_wf (c : Cache) (key : Name) (val : TData) (cost size victim : Nat) (h : c.WF) :
    (c.put key val cost size victim).WF := by
  unfold Cache.put
  cases hf : findSlot key c.slots 0 with
  | some i =>
    obtain ⟨e, he, hk⟩ := findSlot_some_spec key c.slots i hf
    simp only [he]
    exact ⟨by simp [h.len], slotsNodup_set_same_key c.slots i e _ he rfl h.nd⟩
  | none =>
    simp only
    refine ⟨by simp [h.len], slotsNodup_set_fresh c.slots _ ⟨key, val, 1, cost, size⟩ ?_ h.nd⟩
    exact findSlot_none_spec key c.slots hf

theorem Cache.touch_wf (c : Cache) (key : Name) (h : c.WF) : (c.touch key).WF := by
  unfold Cache.touch
  cases hf : findSlot key c.slots 0 with
  | some i =>
    obtain ⟨e, he, hk⟩ := findSlot_some_spec key c.slots i hf
    simp only [he]
    exact ⟨by simp [h.len], slotsNodup_set_same_key c.slots i e _ he rfl h.nd⟩
  | none => exact h

theorem Cache.delete_wf (c : Cache) (key : Name) (h : c.WF) : (c.delete key).WF := by
  unfold Cache.delete
  cases hf : findSlot key c.slots 0 with
  | some i => exact ⟨by simp [h.len], slotsNodup_set_none c.slots i h.nd⟩
  | none => exact h

theorem Cache.evict_wf (c : Cache) (keys : List Name) (h : c.WF) : (c.evict keys).WF := by
  unfold Cache.evict
  induction keys generalizing c with
  | nil => exact h
  | cons k ks ih => exact ih (c.delete k) (Cache.delete_wf c k h)

/-! ### the router: well-formedness of the key-addressed slabs, kept by every operation -/

section AList2
variable {κ : Type} {ν : Type} [DecidableEq κ]

theorem mem_aInsert (k : κ) (v : ν) (l : List (κ × ν)) (p : κ × ν) (h : p ∈ aInsert k v l) : p = (k, v) ∨ p ∈ l := by
  induction l with
  | nil => simp [aInsert] at h; exact Or.inl h
  | cons q l ih =>
    obtain ⟨k', v'⟩ := q
    by_cases h1 : k' = k
    · simp only [aInsert, h1, if_true, List.mem_cons] at h
      rcases h with h | h
      · exact Or.inl h
      · exact Or.inr (List.mem_cons_of_mem _ h)
    · simp only [aInsert, h1, if_false, List.mem_cons] at h
      rcases h with h | h
      · exact Or.inr (by simp [h])
      · rcases ih h with h | h
        · exact Or.inl h
        · exact Or.inr (List.mem_cons_of_mem _ h)

theorem mem_aErase (k : κ) (l : List (κ × ν)) (p : κ × ν) (h : p ∈ aErase k l) : p ∈ l := by
  induction l with
  | nil => exact h
  | cons q l ih =>
    obtain ⟨k', v'⟩ := q
    by_cases h1 : k' = k
    · simp only [aErase, h1, if_true] at h
      exact List.mem_cons_of_mem _ (ih h)
    · simp only [aErase, h1, if_false, List.mem_cons] at h
      rcases h with h | h
      · simp [h]
      · exact List.mem_cons_of_mem _ (ih h)

end AList2

structure ESlab.WF (s : ESlab) : Prop where
  nd : (aKeys s.ents).Nodup
  len : ∀ p ∈ s.ents, p.2.length = s.dim

theorem ESlab.new_wf (dim : Nat) : (ESlab.new dim).WF := ⟨by simp [ESlab.new, aKeys], by simp [ESlab.new]⟩

theorem ESlab.delete_wf (s : ESlab) (id : Nat) (h : s.WF) : (s.delete id).WF :=
  ⟨aKeys_aErase_nodup id s.ents h.nd, fun p hp => h.len p (mem_aErase id s.ents p hp)⟩

theorem ESlab.set_wf (s s' : ESlab) (id : Nat) (v : List Nat) (h : s.WF) (hs : s.set id v = some s') : s'.WF := by
  unfold ESlab.set at hs
  split at hs
  · simp at hs
  · rename_i hl
    simp only [Option.some.injEq] at hs
    subst hs
    refine ⟨aKeys_aInsert_nodup id v s.ents h.nd, fun p hp => ?_⟩
    rcases mem_aInsert id v s.ents p hp with hp | hp
    · subst hp; simpa using hl
    · exact h.len p hp

theorem ESlab.set_dim (s s' : ESlab) (id : Nat) (v : List Nat) (hs : s.set id v = some s') : s'.dim = s.dim := by
  unfold ESlab.set at hs
  split at hs
  · simp at hs
  · simp only [Option.some.injEq] at hs; subst hs; rfl

structure Router.WF (r : Router) : Prop where
  md : (aKeys r.md).Nodup
  emb : r.emb.WF
  cache : r.cache.WF

theorem Router.new_wf (cfg : RouterCfg) : (Router.new cfg).WF :=
  ⟨by simp [Router.new, aKeys], ESlab.new_wf _, Cache.new_wf _⟩

theorem ESlab.putValue_wf (s : ESlab) (id : Nat) (val : TData) (h : s.WF) : (s.putValue id val).WF := by
  unfold ESlab.putValue
  cases val.embOf with
  | none => exact ESlab.delete_wf _ _ h
  | some vec =>
    simp only
    cases hs : s.set id vec with
    | none => exact ESlab.delete_wf _ _ h
    | some e => exact ESlab.set_wf _ _ _ _ h hs

theorem ESlab.putValue_dim (s : ESlab) (id : Nat) (val : TData) : (s.putValue id val).dim = s.dim := by
  unfold ESlab.putValue
  cases val.embOf with
  | none => rfl
  | some vec =>
    simp only
    cases hs : s.set id vec with
    | none => rfl
    | some e => exact ESlab.set_dim _ _ _ _ hs

theorem Router.put_wf (r : Router) (key : Name) (val : TData) (victim : Nat) (h : r.WF) : (r.put key val victim).WF := by
  unfold Router.put
  cases classifyKey key with
  | embedding => exact ⟨aKeys_aInsert_nodup key val r.md h.md, ESlab.putValue_wf _ _ _ h.emb, h.cache⟩
  | cache => exact ⟨h.md, h.emb, Cache.put_wf _ _ _ _ _ _ h.cache⟩
  | graph => exact ⟨aKeys_aInsert_nodup key val r.md h.md, h.emb, h.cache⟩
  | table => exact ⟨aKeys_aInsert_nodup key val r.md h.md, h.emb, h.cache⟩
  | metadata => exact ⟨aKeys_aInsert_nodup key val r.md h.md, h.emb, h.cache⟩

theorem Router.delete_wf (r : Router) (key : Name) (h : r.WF) : (r.delete key).1.WF := by
  unfold Router.delete
  split
  · exact h
  · cases classifyKey key with
    | embedding =>
      simp only
      refine ⟨aKeys_aErase_nodup key r.md h.md, ?_, h.cache⟩
      cases r.index.get key with
      | none => exact h.emb
      | some id => exact ESlab.delete_wf _ _ h.emb
    | cache => exact ⟨h.md, h.emb, Cache.delete_wf _ _ h.cache⟩
    | graph => exact ⟨aKeys_aErase_nodup key r.md h.md, h.emb, h.cache⟩
    | table => exact ⟨aKeys_aErase_nodup key r.md h.md, h.emb, h.cache⟩
    | metadata => exact ⟨aKeys_aErase_nodup key r.md h.md, h.emb, h.cache⟩

theorem Router.touch_wf (r : Router) (key : Name) (h : r.WF) : (r.touch key).WF := by
  unfold Router.touch
  cases classifyKey key with
  | cache => exact ⟨h.md, h.emb, Cache.touch_wf _ _ h.cache⟩
  | embedding => exact h
  | graph => exact h
  | table => exact h
  | metadata => exact h

theorem Router.clear_wf (r : Router) (h : r.WF) : r.clear.WF :=
  ⟨by simp [Router.clear, aKeys], ESlab.new_wf _, Cache.clear_wf _ h.cache⟩

theorem Router.apply_wf (r : Router) (op : ROp) (h : r.WF) : (r.apply op).WF := by
  cases op with
  | put k v victim => exact Router.put_wf r k v victim h
  | delete k => exact Router.delete_wf r k h
  | get k => exact Router.touch_wf r k h
  | evict ks => exact ⟨h.md, h.emb, Cache.evict_wf _ ks h.cache⟩
  | clear => exact Router.clear_wf r h
  | graph op => exact ⟨h.md, h.emb, h.cache⟩
  | blob op => exact ⟨h.md, h.emb, h.cache⟩

theorem Router.run_wf (r : Router) (ops : List ROp) (h : r.WF) : (r.run ops).WF := by
  unfold Router.run
  induction ops generalizing r with
  | nil => exact h
  | cons op ops ih => exact ih (r.apply op) (Router.apply_wf r op h)

/-- the embedding slab after snapshot + restore -/
def ESlab.rounded (ttOk : List Nat → Bool) (ttRecon : List Nat → List Nat) (s : ESlab) : ESlab :=
  ⟨s.dim, s.ents.filterMap (fun p => (embRound ttOk ttRecon s.dim p.2).map (fun w => (p.1, w)))⟩

/-- closed form of `SlabRouter::restore(snapshot())` on a well-formed router -/
theorem router_restore_snapshot (ttOk : List Nat → Bool) (ttRecon : List Nat → List Nat) (r : Router) (h : r.WF) :
    Router.restore ttRecon (r.snapshot ttOk).2 =
      ⟨r.index, r.emb.rounded ttOk ttRecon, r.md,
       ⟨r.cache.cap, packed ((occupied r.cache.slots).map resetAccess) (r.cache.cap - (occupied r.cache.slots).length)⟩,
       GraphT.restore r.graph.snapshot.2, BlobLog.restore r.blobs.snapshot⟩ := by
  unfold Router.restore Router.snapshot
  simp only [EIndex.restore, EIndex.snapshot, restoreMeta]
  rw [eslab_restore_snapshot ttOk ttRecon r.emb h.emb.nd, foldl_aInsert_nil r.md h.md,
    cache_restore_snapshot r.cache h.cache.len (occKeys_nodup _ h.cache.nd)]
  rfl

end Neumann.Snap
