import NeumannModel.Snap.Lemmas
/-
  C07 — "Snapshots reproduce the store exactly and replace files atomically": property theorems.

  * header / detection / load are stated for every header, every byte string, every body.
  * atomicity is stated for every crash state of the real save's I/O sequence (any prefix of
    create-temp / write header / write body / sync_all / rename, the write in flight cut at any
    byte, rename atomic), every old file system, EVERY file name (the temp name `name ++ ".tmp"`
    never equals the name and is injective), and additionally under power loss (un-synced bytes of
    any file cut at any byte).
  * the clause "later saves keep working" is stated over SEQUENCES of saves: for every directory
    including an ARBITRARY leftover temp file (what an interrupted save leaves: any content, any
    length), every crash point of the next save shows old-or-new at the path and a completed save
    leaves exactly the new snapshot and no temp file (`save_over_stale_tmp_exact`,
    `two_saves_atomic_and_exact`, `any_crashes_then_save_exact`), for both save sequences. This
    rests on `File::create` truncating: for the variant that opens the temp file without truncation
    (`saveOpsKeep`, NOT the code) the final content is proved to be new ++ tail-of-stale, with a
    `decide` witness on a crash state of the real sequence.
  * the quantising format's value map is exact on every scalar (Bytes included), on pointers, on
    every vector that is not sent to tensor-train by the caller's configuration (raw branch and
    guarded id-list branch alike) and on every sparse value.
  * the embedding slab's snapshot form is bit-identical for every vector below the TT threshold.
  * `…_witness` theorems are about the code BEFORE the fixes 79f86251 / 56197952 (`…Old` functions of
    the model): they document what the fixed defects were and keep the regression inputs.
  Opaque third-party encoders are the fields of `Codec`; hypotheses on them are explicit.
-/
namespace Neumann.Snap.Props
open Neumann.Snap

/-! ## header -/

/-- every well-formed header survives `to_raw_bytes` / `from_raw_bytes`, whatever follows it -/
theorem header_roundtrip (h : Header) (hw : h.WF) (rest : Bytes) :
    decodeHeader (encodeHeader h ++ rest) = some (h, rest) :=
  decode_encode_append h hw rest

example : (newHeader true 12345).WF := by decide
example : decodeHeader (encodeHeader (newHeader true 12345) ++ [1, 2, 3]) = some (newHeader true 12345, [1, 2, 3]) := by
  decide

/-- the other direction: decoding is injective on byte strings (20 bytes determine the header) -/
theorem header_decode_encode (bs : Bytes) (hb : AllBytes bs) (h : Header) (rest : Bytes)
    (hd : decodeHeader bs = some (h, rest)) : encodeHeader h ++ rest = bs :=
  encode_decode bs hb h rest hd

example : AllBytes (encodeHeader (newHeader false 7) ++ [9]) := by decide

/-- a header is read iff at least 20 bytes are there -/
theorem header_needs_20_bytes (bs : Bytes) : (decodeHeader bs).isSome = decide (20 ≤ bs.length) := by
  by_cases h : bs.length < 20
  · rw [decodeHeader_none_of_short bs h]; simp; omega
  · match bs with
    | m0 :: m1 :: m2 :: m3 :: v0 :: v1 :: v2 :: v3 :: f0 :: f1 :: f2 :: f3 ::
      c0 :: c1 :: c2 :: c3 :: c4 :: c5 :: c6 :: c7 :: rest' => simp [decodeHeader]
    | [] => simp at h
    | [_] => simp at h
    | [_, _] => simp at h
    | [_, _, _] => simp at h
    | [_, _, _, _] => simp at h
    | [_, _, _, _, _] => simp at h
    | [_, _, _, _, _, _] => simp at h
    | [_, _, _, _, _, _, _] => simp at h
    | [_, _, _, _, _, _, _, _] => simp at h
    | [_, _, _, _, _, _, _, _, _] => simp at h
    | [_, _, _, _, _, _, _, _, _, _] => simp at h
    | [_, _, _, _, _, _, _, _, _, _, _] => simp at h
    | [_, _, _, _, _, _, _, _, _, _, _, _] => simp at h
    | [_, _, _, _, _, _, _, _, _, _, _, _, _] => simp at h
    | [_, _, _, _, _, _, _, _, _, _, _, _, _, _] => simp at h
    | [_, _, _, _, _, _, _, _, _, _, _, _, _, _, _] => simp at h
    | [_, _, _, _, _, _, _, _, _, _, _, _, _, _, _, _] => simp at h
    | [_, _, _, _, _, _, _, _, _, _, _, _, _, _, _, _, _] => simp at h
    | [_, _, _, _, _, _, _, _, _, _, _, _, _, _, _, _, _, _] => simp at h
    | [_, _, _, _, _, _, _, _, _, _, _, _, _, _, _, _, _, _, _] => simp at h

/-- `validate` accepts exactly magic "NEUM" with version 3 (flags and entry count are never checked) -/
theorem validate_ok_iff (h : Header) :
    validate h = .ok () ↔ (h.m0 = 78 ∧ h.m1 = 69 ∧ h.m2 = 85 ∧ h.m3 = 77 ∧ h.version = 3) := by
  unfold validate Header.magicOk isMagic CURRENT_VERSION
  by_cases hm : (h.m0 == 78 && h.m1 == 69 && h.m2 == 85 && h.m3 == 77) = true
  · by_cases hv : h.version = 3
    · simp only [Bool.and_eq_true, beq_iff_eq] at hm
      obtain ⟨⟨⟨a, b⟩, c⟩, d⟩ := hm
      simp [a, b, c, d, hv]
    · simp [hm, hv]
  · simp only [hm]
    simp only [Bool.and_eq_true, beq_iff_eq] at hm
    simp only [Bool.not_false, if_true]
    constructor
    · intro h'; cases h'
    · rintro ⟨a, b, c, d, _⟩; exact absurd ⟨⟨⟨a, b⟩, c⟩, d⟩ hm

/-! ## detection -/

/-- the V3 loader is chosen exactly for contents that start with the four magic bytes;
    everything else — including files shorter than 4 bytes — goes to the legacy loader -/
theorem detect_version_correct (bs : Bytes) :
    detectVersion bs = .v3 ↔ ∃ rest, bs = 78 :: 69 :: 85 :: 77 :: rest := by
  constructor
  · intro h
    match bs, h with
    | a :: b :: c :: d :: rest, h =>
      simp only [detectVersion, isMagic] at h
      by_cases hm : (a == 78 && b == 69 && c == 85 && d == 77) = true
      · simp at hm; obtain ⟨⟨⟨ha, hb⟩, hc⟩, hd⟩ := hm; exact ⟨rest, by simp [ha, hb, hc, hd]⟩
      · simp [hm] at h
    | [], h => simp [detectVersion] at h
    | [_], h => simp [detectVersion] at h
    | [_, _], h => simp [detectVersion] at h
    | [_, _, _], h => simp [detectVersion] at h
  · rintro ⟨rest, rfl⟩; simp [detectVersion, isMagic]

/-- every file written by `save_v3*` is detected as V3 -/
theorem detect_saved_is_v3 {σ : Type} (C : Codec σ) (compress : Bool) (count : Nat) (s : σ) :
    detectVersion (fileBytes C compress count s) = .v3 := by
  simp [fileBytes, encodeHeader, newHeader, detectVersion, isMagic]

/-- `route` (what the driver answers) is sound for `loadBytes`: header-level rejections are exactly
    the load's error, and the two V3 routes run exactly the named decoders on the remainder -/
theorem route_sound {σ : Type} (C : Codec σ) (bs : Bytes) :
    (route bs = .errIo → loadBytes C bs = .error .io) ∧
    (∀ e, route bs = .err e → loadBytes C bs = .error e) ∧
    (route bs = .v2 → loadBytes C bs = loadV2 C bs) ∧
    (route bs = .v3Plain → ∃ h body, decodeHeader bs = some (h, body) ∧
        loadBytes C bs = (match C.dec body with | none => .error .ser | some s => .ok s)) ∧
    (route bs = .v3Zstd → ∃ h body, decodeHeader bs = some (h, body) ∧
        loadBytes C bs = (match C.unzip body with
          | none => .error .io
          | some raw => match C.dec raw with | none => .error .ser | some s => .ok s)) := by
  cases hd : detectVersion bs with
  | v2 => simp [route, loadBytes, hd]
  | v3 =>
    cases hh : decodeHeader bs with
    | none => simp [route, loadBytes, loadV3, hd, hh]
    | some hb =>
      obtain ⟨h, body⟩ := hb
      cases hv : validate h with
      | error e => simp [route, loadBytes, loadV3, hd, hh, hv]
      | ok u =>
        cases hc : h.isCompressed
        · exact ⟨by simp [route, hd, hh, hv, hc], by simp [route, hd, hh, hv, hc],
            by simp [route, hd, hh, hv, hc],
            fun _ => ⟨h, body, rfl, by
              simp only [loadBytes, loadV3, hd, hh, hv, hc, Bool.false_eq_true, if_false]
              cases C.dec body <;> rfl⟩,
            by simp [route, hd, hh, hv, hc]⟩
        · exact ⟨by simp [route, hd, hh, hv, hc], by simp [route, hd, hh, hv, hc],
            by simp [route, hd, hh, hv, hc], by simp [route, hd, hh, hv, hc],
            fun _ => ⟨h, body, rfl, by
              simp only [loadBytes, loadV3, hd, hh, hv, hc, if_true]
              cases C.unzip body with
              | none => rfl
              | some raw => cases C.dec raw <;> rfl⟩⟩

/-! ## load of a saved file, and of its truncations -/

/-- the file `save` writes loads back to exactly the saved content, compressed or not -/
theorem load_saved_ok {σ : Type} (C : Codec σ) (hdec : ∀ s, C.dec (C.enc s) = some s)
    (hz : ∀ b, C.unzip (C.zip b) = some b) (compress : Bool) (count : Nat) (hc : count < U64) (s : σ) :
    loadBytes C (fileBytes C compress count s) = .ok s := by
  have hwf : (newHeader compress count).WF := by
    unfold Header.WF newHeader CURRENT_VERSION FLAG_COMPRESSED
    unfold U64 at hc
    cases compress <;> simp <;> omega
  unfold loadBytes
  rw [detect_saved_is_v3]
  simp only [loadV3, fileBytes]
  rw [decode_encode_append _ hwf]
  cases compress with
  | false => simp [validate, Header.magicOk, isMagic, newHeader, CURRENT_VERSION, Header.isCompressed, hdec]
  | true =>
    simp [validate, Header.magicOk, isMagic, newHeader, CURRENT_VERSION, Header.isCompressed,
      FLAG_COMPRESSED, hdec, hz]

/-- what happens to EVERY strict prefix of a saved file, with no assumption on the decoders:
    < 4 bytes go to the legacy loader, 4..19 bytes are an I/O error, ≥ 20 bytes reach the body
    decoder with the truncated body -/
theorem load_truncated_route {σ : Type} (C : Codec σ) (compress : Bool) (count : Nat) (s : σ) (k : Nat) :
    (k < 4 → route ((fileBytes C compress count s).take k) = .v2) ∧
    (4 ≤ k → k < 20 → route ((fileBytes C compress count s).take k) = .errIo) := by
  constructor
  · intro hk
    have : k = 0 ∨ k = 1 ∨ k = 2 ∨ k = 3 := by omega
    rcases this with rfl | rfl | rfl | rfl <;>
      simp [fileBytes, encodeHeader, newHeader, route, detectVersion]
  · intro h4 h20
    obtain ⟨k', rfl⟩ : ∃ k', k = k' + 4 := ⟨k - 4, by omega⟩
    have hlen : ((fileBytes C compress count s).take (k' + 4)).length < 20 := by
      rw [List.length_take]; omega
    have hdet : detectVersion ((fileBytes C compress count s).take (k' + 4)) = .v3 := by
      simp [fileBytes, encodeHeader, newHeader, detectVersion, isMagic, List.take]
    simp only [route, hdet, decodeHeader_none_of_short _ hlen]

/-- Every strict prefix of a saved file is rejected — given that the opaque decoders reject the
    truncated inputs they are then confronted with (the harness checks these three facts on the
    real bitcode / zstd for every truncation point it materialises). -/
theorem load_rejects_truncated {σ : Type} (C : Codec σ) (compress : Bool) (count : Nat) (hc : count < U64) (s : σ)
    (hv2 : ∀ k, k < 4 → C.decV2 (([78, 69, 85, 77] : Bytes).take k) = none)
    (hplain : compress = false → ∀ k, k < (C.enc s).length → C.dec ((C.enc s).take k) = none)
    (hzstd : compress = true → ∀ k, k < (C.zip (C.enc s)).length → C.unzip ((C.zip (C.enc s)).take k) = none)
    (k : Nat) (hk : k < (fileBytes C compress count s).length) :
    ∃ e, loadBytes C ((fileBytes C compress count s).take k) = .error e := by
  have hwf : (newHeader compress count).WF := by
    unfold Header.WF newHeader CURRENT_VERSION FLAG_COMPRESSED
    unfold U64 at hc
    cases compress <;> simp <;> omega
  by_cases h4 : k < 4
  · have hr := (load_truncated_route C compress count s k).1 h4
    have := (route_sound C ((fileBytes C compress count s).take k)).2.2.1 hr
    rw [this]
    have hk' : k = 0 ∨ k = 1 ∨ k = 2 ∨ k = 3 := by omega
    have hv := hv2 k h4
    rcases hk' with rfl | rfl | rfl | rfl <;>
      (simp [fileBytes, encodeHeader, newHeader, loadV2] at hv ⊢; simp [hv])
  · by_cases h20 : k < 20
    · have hr := (load_truncated_route C compress count s k).2 (by omega) h20
      exact ⟨.io, (route_sound C _).1 hr⟩
    · -- the header is complete; the body is a strict prefix of the saved body
      have hlen20 : (encodeHeader (newHeader compress count)).length = 20 := encodeHeader_length _
      have htake : (fileBytes C compress count s).take k =
          encodeHeader (newHeader compress count) ++
            (if compress then C.zip (C.enc s) else C.enc s).take (k - 20) := by
        unfold fileBytes
        rw [List.take_append, hlen20]
        rw [List.take_of_length_le (by rw [hlen20]; omega)]
      have hdet : detectVersion ((fileBytes C compress count s).take k) = .v3 := by
        rw [htake]; simp [encodeHeader, newHeader, detectVersion, isMagic]
      have hklen : k - 20 < (if compress then C.zip (C.enc s) else C.enc s).length := by
        unfold fileBytes at hk
        rw [List.length_append, hlen20] at hk
        omega
      unfold loadBytes
      rw [hdet]
      simp only [loadV3]
      rw [htake, decode_encode_append _ hwf]
      cases compress with
      | false =>
        have := hplain rfl (k - 20) (by simpa using hklen)
        simp [validate, Header.magicOk, isMagic, newHeader, CURRENT_VERSION, Header.isCompressed, this]
      | true =>
        have := hzstd rfl (k - 20) (by simpa using hklen)
        simp [validate, Header.magicOk, isMagic, newHeader, CURRENT_VERSION, Header.isCompressed,
          FLAG_COMPRESSED, this]

/-- a concrete codec (identity encoders, legacy loader rejecting everything, decoders rejecting
    anything but the one saved body) satisfying every hypothesis above: they are not vacuous -/
def demoCodec (body : Bytes) : Codec Bytes :=
  { enc := fun s => s, dec := fun b => if b = body then some b else none,
    zip := fun b => 0 :: b, unzip := fun b => match b with | 0 :: r => (if r = body then some r else none) | _ => none,
    decV2 := fun _ => none }

example : ∃ e, loadBytes (demoCodec [1, 2, 3]) ((fileBytes (demoCodec [1, 2, 3]) true 5 [1, 2, 3]).take 22) = .error e :=
  ⟨.io, by decide⟩
example : loadBytes (demoCodec [1, 2, 3]) (fileBytes (demoCodec [1, 2, 3]) true 5 [1, 2, 3]) = .ok [1, 2, 3] := by decide

/-- `SlabRouter::from_bytes`: whatever the opaque decoder returns, a header other than NEUM/3 is refused -/
theorem from_bytes_validates {σ : Type} (decV3 : Bytes → Option (Header × σ)) (bs : Bytes) (s : σ) :
    fromBytes decV3 bs = .ok s ↔ ∃ h, decV3 bs = some (h, s) ∧ validate h = .ok () := by
  cases hd : decV3 bs with
  | none => simp [fromBytes, hd]
  | some p =>
    obtain ⟨h, s'⟩ := p
    cases hv : validate h with
    | error e => simp [fromBytes, hd, hv]
    | ok u =>
      cases u
      simp only [fromBytes, hd, hv, Except.ok.injEq, Option.some.injEq, Prod.mk.injEq]
      constructor
      · intro e; exact ⟨h, ⟨rfl, e⟩, hv⟩
      · rintro ⟨_, ⟨_, e⟩, _⟩; exact e

/-! ## atomic replacement -/

section atomic
variable {π : Type} [DecidableEq π] {σ : Type}

theorem applyOp_create_ne (fs : FS π) (p q : π) (h : q ≠ p) : applyOp fs (.create p) q = fs q := by
  simp [applyOp, h]

theorem applyOp_write_ne (fs : FS π) (p q : π) (bs : Bytes) (h : q ≠ p) : applyOp fs (.write p bs) q = fs q := by
  cases hp : fs p <;> simp [applyOp, hp, h]

theorem applyOp_fsync_ne (fs : FS π) (p q : π) (h : q ≠ p) : applyOp fs (.fsync p) q = fs q := by
  cases hp : fs p <;> simp [applyOp, hp, h]

/-- the state after the whole sequence is one of its crash states -/
theorem final_mem_crashStates (ops : List (IoOp π)) : ∀ fs : FS π, applyOps fs ops ∈ crashStates fs ops := by
  induction ops with
  | nil => intro fs; simp [applyOps, crashStates]
  | cons op ops ih => intro fs; simp only [applyOps, crashStates, List.mem_append]; exact .inr (ih _)

theorem applyOp_write_same (fs : FS π) (p : π) (bs : Bytes) (f : File) (h : fs p = some f) :
    applyOp fs (.write p bs) p = some ⟨f.synced, f.pending ++ bs⟩ := by
  simp [applyOp, h]

theorem applyOp_fsync_same (fs : FS π) (p : π) (f : File) (h : fs p = some f) :
    applyOp fs (.fsync p) p = some ⟨f.synced ++ f.pending, []⟩ := by
  simp [applyOp, h]

theorem applyOp_rename_dst (fs : FS π) (a b : π) (f : File) (hne : a ≠ b) (h : fs a = some f) :
    applyOp fs (.rename a b) b = some f := by
  have : b ≠ a := fun e => hne e.symm
  simp [applyOp, hne, h, this]

/-- what `path` holds in every crash state of the save sequence, with or without the `sync_all`:
    the untouched old entry, or the complete new file (all of it synced with the `sync_all`, all
    of it pending without) -/
theorem save_crash_path_content (tmp path : π) (hne : tmp ≠ path) (fs0 : FS π) (hdr body : Bytes) (fsyncFirst : Bool) :
    ∀ st ∈ crashStates fs0 (saveOpsWith tmp path hdr body fsyncFirst),
      st path = fs0 path ∨
      st path = some (if fsyncFirst then ⟨hdr ++ body, []⟩ else ⟨[], hdr ++ body⟩) := by
  have hpt : path ≠ tmp := fun e => hne e.symm
  intro st hst
  have hc : applyOp fs0 (.create tmp) tmp = some ⟨[], []⟩ := by simp [applyOp]
  have hw1 := applyOp_write_same _ tmp hdr _ hc
  have hw2 := applyOp_write_same _ tmp body _ hw1
  cases fsyncFirst with
  | false =>
    simp only [saveOpsWith, List.cons_append, List.nil_append, crashStates, partials, List.mem_append,
      List.mem_cons, List.mem_map, List.mem_range, List.not_mem_nil, or_false, Bool.false_eq_true,
      if_false] at hst
    rcases hst with rfl | ⟨k, _, rfl⟩ | ⟨k, _, rfl⟩ | rfl | rfl
    · exact .inl rfl
    · exact .inl (by rw [applyOp_write_ne _ _ _ _ hpt, applyOp_create_ne _ _ _ hpt])
    · exact .inl (by rw [applyOp_write_ne _ _ _ _ hpt, applyOp_write_ne _ _ _ _ hpt, applyOp_create_ne _ _ _ hpt])
    · exact .inl (by rw [applyOp_write_ne _ _ _ _ hpt, applyOp_write_ne _ _ _ _ hpt, applyOp_create_ne _ _ _ hpt])
    · right
      rw [applyOp_rename_dst _ tmp path _ hne hw2]
      simp
  | true =>
    have hf := applyOp_fsync_same _ tmp _ hw2
    simp only [saveOpsWith, List.cons_append, List.nil_append, crashStates, partials, List.mem_append,
      List.mem_cons, List.mem_map, List.mem_range, List.not_mem_nil, or_false, if_true] at hst
    rcases hst with rfl | ⟨k, _, rfl⟩ | ⟨k, _, rfl⟩ | rfl | rfl | rfl
    · exact .inl rfl
    · exact .inl (by rw [applyOp_write_ne _ _ _ _ hpt, applyOp_create_ne _ _ _ hpt])
    · exact .inl (by rw [applyOp_write_ne _ _ _ _ hpt, applyOp_write_ne _ _ _ _ hpt, applyOp_create_ne _ _ _ hpt])
    · exact .inl (by rw [applyOp_write_ne _ _ _ _ hpt, applyOp_write_ne _ _ _ _ hpt, applyOp_create_ne _ _ _ hpt])
    · exact .inl (by
        rw [applyOp_fsync_ne _ _ _ hpt, applyOp_write_ne _ _ _ _ hpt, applyOp_write_ne _ _ _ _ hpt,
          applyOp_create_ne _ _ _ hpt])
    · right
      rw [applyOp_rename_dst _ tmp path _ hne hf]
      simp

/-- atomic replacement for the sequence with or without the `sync_all` (process-crash model) -/
theorem save_crash_atomic_any_sync (C : Codec σ) (hdec : ∀ s, C.dec (C.enc s) = some s)
    (hz : ∀ b, C.unzip (C.zip b) = some b)
    (tmp path : π) (hne : tmp ≠ path) (fs0 : FS π) (new : σ) (compress : Bool) (count : Nat) (hc : count < U64)
    (fsyncFirst : Bool) :
    ∀ st ∈ crashStates fs0 (saveOpsWith tmp path (encodeHeader (newHeader compress count))
        (if compress then C.zip (C.enc new) else C.enc new) fsyncFirst),
      loadPath C st path = loadPath C fs0 path ∨ loadPath C st path = .ok new := by
  intro st hst
  rcases save_crash_path_content tmp path hne fs0 _ _ fsyncFirst st hst with h | h
  · left; simp [loadPath, h]
  · right
    have := load_saved_ok C hdec hz compress count hc new
    unfold fileBytes at this
    cases fsyncFirst <;> simp [loadPath, h, File.content, this]

/-- **Atomic replacement.** For every crash state of the real save sequence (any prefix of
    create-temp / write header / write body / sync_all / rename, the write in flight cut at any
    byte), loading the path gives exactly what it gave before the save began, or the complete new
    snapshot — for every old file system, every content, compressed or not, whenever the temp path
    is not the path itself (which `tmpName_ne` shows for every name). -/
theorem save_crash_atomic (C : Codec σ) (hdec : ∀ s, C.dec (C.enc s) = some s)
    (hz : ∀ b, C.unzip (C.zip b) = some b)
    (tmp path : π) (hne : tmp ≠ path) (fs0 : FS π) (new : σ) (compress : Bool) (count : Nat) (hc : count < U64) :
    ∀ st ∈ crashStates fs0 (saveOps tmp path (encodeHeader (newHeader compress count))
        (if compress then C.zip (C.enc new) else C.enc new)),
      loadPath C st path = loadPath C fs0 path ∨ loadPath C st path = .ok new :=
  save_crash_atomic_any_sync C hdec hz tmp path hne fs0 new compress count hc true

/-- the form the property is worded in: when the old snapshot was loadable, a crash never yields an
    error and never anything but old or new -/
theorem save_crash_atomic_old_or_new (C : Codec σ) (hdec : ∀ s, C.dec (C.enc s) = some s)
    (hz : ∀ b, C.unzip (C.zip b) = some b)
    (tmp path : π) (hne : tmp ≠ path) (fs0 : FS π) (old new : σ) (hold : loadPath C fs0 path = .ok old)
    (compress : Bool) (count : Nat) (hc : count < U64) :
    ∀ st ∈ crashStates fs0 (saveOps tmp path (encodeHeader (newHeader compress count))
        (if compress then C.zip (C.enc new) else C.enc new)),
      loadPath C st path = .ok old ∨ loadPath C st path = .ok new := by
  intro st hst
  have := save_crash_atomic C hdec hz tmp path hne fs0 new compress count hc st hst
  rwa [hold] at this

/-- the same for the quantising format's save (one write of the whole blob, sync_all or not, then
    rename): the path holds the old entry or exactly the blob -/
theorem saveq_crash_path_content (tmp path : π) (hne : tmp ≠ path) (fs0 : FS π) (blob : Bytes) (fsyncFirst : Bool) :
    ∀ st ∈ crashStates fs0 (saveOpsQWith tmp path blob fsyncFirst),
      st path = fs0 path ∨ st path = some (if fsyncFirst then ⟨blob, []⟩ else ⟨[], blob⟩) := by
  have hpt : path ≠ tmp := fun e => hne e.symm
  intro st hst
  have hc : applyOp fs0 (.create tmp) tmp = some ⟨[], []⟩ := by simp [applyOp]
  have hw1 := applyOp_write_same _ tmp blob _ hc
  cases fsyncFirst with
  | false =>
    simp only [saveOpsQWith, List.cons_append, List.nil_append, crashStates, partials, List.mem_append,
      List.mem_cons, List.mem_map, List.mem_range, List.not_mem_nil, or_false, Bool.false_eq_true,
      if_false] at hst
    rcases hst with rfl | ⟨k, _, rfl⟩ | rfl | rfl
    · exact .inl rfl
    · exact .inl (by rw [applyOp_write_ne _ _ _ _ hpt, applyOp_create_ne _ _ _ hpt])
    · exact .inl (by rw [applyOp_write_ne _ _ _ _ hpt, applyOp_create_ne _ _ _ hpt])
    · right; rw [applyOp_rename_dst _ tmp path _ hne hw1]; simp
  | true =>
    have hf := applyOp_fsync_same _ tmp _ hw1
    simp only [saveOpsQWith, List.cons_append, List.nil_append, crashStates, partials, List.mem_append,
      List.mem_cons, List.mem_map, List.mem_range, List.not_mem_nil, or_false, if_true] at hst
    rcases hst with rfl | ⟨k, _, rfl⟩ | rfl | rfl | rfl
    · exact .inl rfl
    · exact .inl (by rw [applyOp_write_ne _ _ _ _ hpt, applyOp_create_ne _ _ _ hpt])
    · exact .inl (by rw [applyOp_write_ne _ _ _ _ hpt, applyOp_create_ne _ _ _ hpt])
    · exact .inl (by rw [applyOp_fsync_ne _ _ _ hpt, applyOp_write_ne _ _ _ _ hpt, applyOp_create_ne _ _ _ hpt])
    · right; rw [applyOp_rename_dst _ tmp path _ hne hf]; simp

/-- atomic replacement for `save_snapshot_compressed`'s real sequence: in every crash state the
    path holds the old entry, or exactly the blob and all of it synced -/
theorem saveq_crash_atomic (tmp path : π) (hne : tmp ≠ path) (fs0 : FS π) (blob : Bytes) :
    ∀ st ∈ crashStates fs0 (saveOpsQ tmp path blob),
      st path = fs0 path ∨ st path = some ⟨blob, []⟩ := by
  intro st hst
  simpa using saveq_crash_path_content tmp path hne fs0 blob true st hst

end atomic

/-! ### the temp name -/

/-- `.tmp` is appended to the whole name: the temp path never equals the path -/
theorem tmpName_ne (name : List Char) : tmpName name ≠ name := by
  intro h
  have := congrArg List.length h
  simp [tmpName] at this

/-- two different snapshot names never share a temp name -/
theorem tmpName_injective (a b : List Char) (h : tmpName a = tmpName b) : a = b := by
  unfold tmpName at h
  exact List.append_cancel_right h

/-- **Atomic replacement for every file name**: with the temp path the code derives, no
    hypothesis on the name is left -/
theorem save_crash_atomic_every_path {σ : Type} (C : Codec σ) (hdec : ∀ s, C.dec (C.enc s) = some s)
    (hz : ∀ b, C.unzip (C.zip b) = some b)
    (name : List Char) (fs0 : FS (List Char)) (new : σ) (compress : Bool) (count : Nat) (hc : count < U64) :
    ∀ st ∈ crashStates fs0 (saveOps (tmpName name) name (encodeHeader (newHeader compress count))
        (if compress then C.zip (C.enc new) else C.enc new)),
      loadPath C st name = loadPath C fs0 name ∨ loadPath C st name = .ok new :=
  save_crash_atomic C hdec hz (tmpName name) name (tmpName_ne name) fs0 new compress count hc

/-- non-vacuity: a two-path file system with an old snapshot at the path (paths: `true` = temp) -/
def demoFS : FS Bool := fun p => if p then none else some ⟨fileBytes (demoCodec [9]) false 1 [9], []⟩

example : loadPath (demoCodec [9]) demoFS false = .ok [9] := by decide
example : (crashStates demoFS (saveOps true false (encodeHeader (newHeader false 1)) [9])).length = 25 := by
  decide
example : tmpName "snap.tmp".toList = "snap.tmp.tmp".toList ∧ tmpName "a.bin".toList ≠ tmpName "a.dat".toList := by
  decide

/-! ### power loss -/

/-- With `sync_all` before the rename, every power-loss content of the path in every crash state
    of the real sequence is the old file or the complete new file. -/
theorem save_fsync_power_loss_atomic {π : Type} [DecidableEq π] (tmp path : π) (hne : tmp ≠ path) (fs0 : FS π)
    (oldBytes : Bytes) (hold : fs0 path = some ⟨oldBytes, []⟩) (hdr body : Bytes) :
    ∀ st ∈ crashStates fs0 (saveOps tmp path hdr body),
      ∀ bs, PowerLossContent st path bs → bs = oldBytes ∨ bs = hdr ++ body := by
  intro st hst bs ⟨f, hf, k, hk, hbs⟩
  rcases save_crash_path_content tmp path hne fs0 hdr body true st hst with h | h
  · rw [h, hold] at hf
    cases hf
    left; simp at hk; simp [hbs, hk]
  · rw [h] at hf
    simp at hf
    subst hf
    right; simp at hk; simp [hbs, hk]

/-- the same for the quantising save -/
theorem saveq_fsync_power_loss_atomic {π : Type} [DecidableEq π] (tmp path : π) (hne : tmp ≠ path) (fs0 : FS π)
    (oldBytes : Bytes) (hold : fs0 path = some ⟨oldBytes, []⟩) (blob : Bytes) :
    ∀ st ∈ crashStates fs0 (saveOpsQ tmp path blob),
      ∀ bs, PowerLossContent st path bs → bs = oldBytes ∨ bs = blob := by
  intro st hst bs ⟨f, hf, k, hk, hbs⟩
  rcases saveq_crash_atomic tmp path hne fs0 blob st hst with h | h
  · rw [h, hold] at hf
    cases hf
    left; simp at hk; simp [hbs, hk]
  · rw [h] at hf
    simp at hf
    subst hf
    right; simp at hk; simp [hbs, hk]

/-- **Crash or power loss, every file name, at the level of `load`**: whatever survives at the
    path loads as what the old (fully synced) file loaded as, or as the complete new snapshot. -/
theorem save_power_loss_load_atomic {σ : Type} (C : Codec σ) (hdec : ∀ s, C.dec (C.enc s) = some s)
    (hz : ∀ b, C.unzip (C.zip b) = some b)
    (name : List Char) (fs0 : FS (List Char)) (oldBytes : Bytes) (hold : fs0 name = some ⟨oldBytes, []⟩)
    (new : σ) (compress : Bool) (count : Nat) (hc : count < U64) :
    ∀ st ∈ crashStates fs0 (saveOps (tmpName name) name (encodeHeader (newHeader compress count))
        (if compress then C.zip (C.enc new) else C.enc new)),
      ∀ bs, PowerLossContent st name bs → loadBytes C bs = loadBytes C oldBytes ∨ loadBytes C bs = .ok new := by
  intro st hst bs hp
  rcases save_fsync_power_loss_atomic (tmpName name) name (tmpName_ne name) fs0 oldBytes hold _ _ st hst bs hp with h | h
  · left; rw [h]
  · right; rw [h]; exact load_saved_ok C hdec hz compress count hc new

example : ∃ bs, PowerLossContent (applyOps demoFS (saveOps true false (encodeHeader (newHeader false 1)) [9])) false bs :=
  ⟨encodeHeader (newHeader false 1) ++ [9], ⟨encodeHeader (newHeader false 1) ++ [9], []⟩, by decide, 0, by decide, by decide⟩

/-! ### a later save over whatever an interrupted save left behind (two saves, any number of saves)

  The crash clause of the property is about a SEQUENCE of saves: an interrupted save leaves its temp
  file behind (any prefix of the snapshot it was writing, or all of it), and the next save to the same
  path must still replace the path by exactly its own snapshot. That rests on the temp file being
  opened with create-or-TRUNCATE (`File::create`); the theorems below are stated for every initial
  directory, the leftover temp file being an explicit, arbitrary `stale : File`. -/

section stale
variable {π : Type} [DecidableEq π] {σ : Type}

theorem set_other (fs : FS π) (p q : π) (f : Option File) (h : q ≠ p) : (fs.set p f) q = fs q := by
  simp [FS.set, h]

/-- the driver's direct computation of one crash point inside an operation is the model's enumeration -/
theorem partialAt_eq (fs : FS π) (op : IoOp π) (k : Nat) : partialAt fs op k = (partials fs op)[k]? := by
  cases op with
  | write p bs =>
    by_cases h : k < bs.length <;> simp [partialAt, partials, h]
  | writeAt p off bs =>
    by_cases h : k < bs.length <;> simp [partialAt, partials, h]
  | create p => cases k <;> simp [partialAt, partials]
  | openKeep p => cases k <;> simp [partialAt, partials]
  | fsync p => cases k <;> simp [partialAt, partials]
  | rename a b => cases k <;> simp [partialAt, partials]

/-- crash states of the rest of a sequence, after a completed prefix, are crash states of the whole -/
theorem crashStates_append (a b : List (IoOp π)) :
    ∀ (fs st : FS π), st ∈ crashStates (applyOps fs a) b → st ∈ crashStates fs (a ++ b) := by
  induction a with
  | nil => intro fs st h; simpa [applyOps] using h
  | cons op a ih =>
    intro fs st h
    simp only [List.cons_append, crashStates, List.mem_append]
    exact .inr (ih _ _ (by simpa [applyOps] using h))

/-- **A completed save leaves exactly the new snapshot at the path** — whatever the directory held
    before: the temp file is gone and every other file is untouched. -/
theorem save_final_exact (tmp path : π) (hne : tmp ≠ path) (fs0 : FS π) (hdr body : Bytes) :
    applyOps fs0 (saveOps tmp path hdr body) path = some ⟨hdr ++ body, []⟩ ∧
    applyOps fs0 (saveOps tmp path hdr body) tmp = none ∧
    ∀ q, q ≠ tmp → q ≠ path → applyOps fs0 (saveOps tmp path hdr body) q = fs0 q := by
  have hpt : path ≠ tmp := fun e => hne e.symm
  refine ⟨?_, ?_, ?_⟩
  · simp [saveOps, saveOpsWith, applyOps, applyOp, FS.set, hne, hpt]
  · simp [saveOps, saveOpsWith, applyOps, applyOp, FS.set, hne]
  · intro q h1 h2
    simp [saveOps, saveOpsWith, applyOps, applyOp, FS.set, hne, h1, h2]

/-- the same for the quantising save -/
theorem saveq_final_exact (tmp path : π) (hne : tmp ≠ path) (fs0 : FS π) (blob : Bytes) :
    applyOps fs0 (saveOpsQ tmp path blob) path = some ⟨blob, []⟩ ∧
    applyOps fs0 (saveOpsQ tmp path blob) tmp = none ∧
    ∀ q, q ≠ tmp → q ≠ path → applyOps fs0 (saveOpsQ tmp path blob) q = fs0 q := by
  have hpt : path ≠ tmp := fun e => hne e.symm
  refine ⟨?_, ?_, ?_⟩
  · simp [saveOpsQ, saveOpsQWith, applyOps, applyOp, FS.set, hne, hpt]
  · simp [saveOpsQ, saveOpsQWith, applyOps, applyOp, FS.set, hne]
  · intro q h1 h2
    simp [saveOpsQ, saveOpsQWith, applyOps, applyOp, FS.set, hne, h1, h2]

/-- **Save over a stale temp file, completed.** With ANY leftover temp file (any content, any
    length, synced or not) in ANY directory, the completed save leaves at the path exactly the new
    snapshot — not one byte of the stale file —, no temp file, and every other file as it was. -/
theorem save_over_stale_tmp_exact (tmp path : π) (hne : tmp ≠ path) (fs0 : FS π) (stale : File) (hdr body : Bytes) :
    applyOps (fs0.set tmp (some stale)) (saveOps tmp path hdr body) path = some ⟨hdr ++ body, []⟩ ∧
    applyOps (fs0.set tmp (some stale)) (saveOps tmp path hdr body) tmp = none ∧
    ∀ q, q ≠ tmp → q ≠ path → applyOps (fs0.set tmp (some stale)) (saveOps tmp path hdr body) q = fs0 q := by
  obtain ⟨h1, h2, h3⟩ := save_final_exact tmp path hne (fs0.set tmp (some stale)) hdr body
  exact ⟨h1, h2, fun q hq hq' => by rw [h3 q hq hq', set_other _ _ _ _ hq]⟩

/-- the same for the quantising save -/
theorem saveq_over_stale_tmp_exact (tmp path : π) (hne : tmp ≠ path) (fs0 : FS π) (stale : File) (blob : Bytes) :
    applyOps (fs0.set tmp (some stale)) (saveOpsQ tmp path blob) path = some ⟨blob, []⟩ ∧
    applyOps (fs0.set tmp (some stale)) (saveOpsQ tmp path blob) tmp = none ∧
    ∀ q, q ≠ tmp → q ≠ path → applyOps (fs0.set tmp (some stale)) (saveOpsQ tmp path blob) q = fs0 q := by
  obtain ⟨h1, h2, h3⟩ := saveq_final_exact tmp path hne (fs0.set tmp (some stale)) blob
  exact ⟨h1, h2, fun q hq hq' => by rw [h3 q hq hq', set_other _ _ _ _ hq]⟩

/-- **Save over a stale temp file, interrupted.** Every crash point of a save that starts with an
    arbitrary leftover temp file shows at the path what was there before, or the complete new file. -/
theorem save_over_stale_tmp_crash_content (tmp path : π) (hne : tmp ≠ path) (fs0 : FS π) (stale : File)
    (hdr body : Bytes) :
    ∀ st ∈ crashStates (fs0.set tmp (some stale)) (saveOps tmp path hdr body),
      st path = fs0 path ∨ st path = some ⟨hdr ++ body, []⟩ := by
  intro st hst
  have hpt : path ≠ tmp := fun e => hne e.symm
  have := save_crash_path_content tmp path hne (fs0.set tmp (some stale)) hdr body true st hst
  rwa [set_other _ _ _ _ hpt] at this

/-- the same for the quantising save -/
theorem saveq_over_stale_tmp_crash_content (tmp path : π) (hne : tmp ≠ path) (fs0 : FS π) (stale : File)
    (blob : Bytes) :
    ∀ st ∈ crashStates (fs0.set tmp (some stale)) (saveOpsQ tmp path blob),
      st path = fs0 path ∨ st path = some ⟨blob, []⟩ := by
  intro st hst
  have hpt : path ≠ tmp := fun e => hne e.symm
  have := saveq_crash_atomic tmp path hne (fs0.set tmp (some stale)) blob st hst
  rwa [set_other _ _ _ _ hpt] at this

/-- **At the level of `load`, every file name**: with an arbitrary leftover `name.tmp`, every crash
    point of the save loads as what the path loaded as before, or as the complete new snapshot; and
    the completed save loads as exactly the new snapshot. -/
theorem save_over_stale_tmp_load (C : Codec σ) (hdec : ∀ s, C.dec (C.enc s) = some s)
    (hz : ∀ b, C.unzip (C.zip b) = some b)
    (name : List Char) (fs0 : FS (List Char)) (stale : File) (new : σ) (compress : Bool) (count : Nat) (hc : count < U64) :
    (∀ st ∈ crashStates (fs0.set (tmpName name) (some stale))
        (saveOps (tmpName name) name (encodeHeader (newHeader compress count))
          (if compress then C.zip (C.enc new) else C.enc new)),
      loadPath C st name = loadPath C fs0 name ∨ loadPath C st name = .ok new) ∧
    loadPath C (applyOps (fs0.set (tmpName name) (some stale))
        (saveOps (tmpName name) name (encodeHeader (newHeader compress count))
          (if compress then C.zip (C.enc new) else C.enc new))) name = .ok new := by
  have hne := tmpName_ne name
  constructor
  · intro st hst
    have := save_crash_atomic C hdec hz (tmpName name) name hne (fs0.set (tmpName name) (some stale)) new
      compress count hc st hst
    have hl : loadPath C (fs0.set (tmpName name) (some stale)) name = loadPath C fs0 name := by
      simp [loadPath, set_other _ _ _ _ (fun e => hne e.symm)]
    rwa [hl] at this
  · have h := (save_over_stale_tmp_exact (tmpName name) name hne fs0 stale
      (encodeHeader (newHeader compress count)) (if compress then C.zip (C.enc new) else C.enc new)).1
    have hl := load_saved_ok C hdec hz compress count hc new
    unfold fileBytes at hl
    simp [loadPath, h, File.content, hl]

/-- **Two saves.** The first save (of anything) is cut at ANY crash point — leaving no temp file, a
    partial one or a complete one. The second save, run on that directory, is atomic again: each of
    ITS crash points shows at the path what the path held before the first save, the complete first
    snapshot, or the complete second one; and when it completes, the path holds exactly the second
    snapshot and the temp file is gone. -/
theorem two_saves_atomic_and_exact (tmp path : π) (hne : tmp ≠ path) (fs0 : FS π) (hdr1 body1 hdr2 body2 : Bytes) :
    ∀ st1 ∈ crashStates fs0 (saveOps tmp path hdr1 body1),
      (∀ st2 ∈ crashStates st1 (saveOps tmp path hdr2 body2),
        st2 path = fs0 path ∨ st2 path = some ⟨hdr1 ++ body1, []⟩ ∨ st2 path = some ⟨hdr2 ++ body2, []⟩) ∧
      applyOps st1 (saveOps tmp path hdr2 body2) path = some ⟨hdr2 ++ body2, []⟩ ∧
      applyOps st1 (saveOps tmp path hdr2 body2) tmp = none := by
  intro st1 h1
  refine ⟨fun st2 h2 => ?_, (save_final_exact tmp path hne st1 hdr2 body2).1,
    (save_final_exact tmp path hne st1 hdr2 body2).2.1⟩
  have a := save_crash_path_content tmp path hne fs0 hdr1 body1 true st1 h1
  have b := save_crash_path_content tmp path hne st1 hdr2 body2 true st2 h2
  simp only [if_true] at a b
  rcases b with b | b
  · rcases a with a | a
    · exact .inl (b.trans a)
    · exact .inr (.inl (b.trans a))
  · exact .inr (.inr b)

/-- two saves through the quantising format -/
theorem saveq_two_saves_atomic_and_exact (tmp path : π) (hne : tmp ≠ path) (fs0 : FS π) (blob1 blob2 : Bytes) :
    ∀ st1 ∈ crashStates fs0 (saveOpsQ tmp path blob1),
      (∀ st2 ∈ crashStates st1 (saveOpsQ tmp path blob2),
        st2 path = fs0 path ∨ st2 path = some ⟨blob1, []⟩ ∨ st2 path = some ⟨blob2, []⟩) ∧
      applyOps st1 (saveOpsQ tmp path blob2) path = some ⟨blob2, []⟩ ∧
      applyOps st1 (saveOpsQ tmp path blob2) tmp = none := by
  intro st1 h1
  refine ⟨fun st2 h2 => ?_, (saveq_final_exact tmp path hne st1 blob2).1, (saveq_final_exact tmp path hne st1 blob2).2.1⟩
  have a := saveq_crash_atomic tmp path hne fs0 blob1 st1 h1
  have b := saveq_crash_atomic tmp path hne st1 blob2 st2 h2
  rcases b with b | b
  · rcases a with a | a
    · exact .inl (b.trans a)
    · exact .inr (.inl (b.trans a))
  · exact .inr (.inr b)

/-- **Any number of interrupted saves, then one that completes.** After any sequence of saves each
    cut at any crash point, the path holds what it held at the start or the complete snapshot of one
    of those saves — the last one that got as far as its rename —, and the next completed save leaves
    exactly its own snapshot and no temp file: saving keeps working. -/
theorem any_crashes_then_save_exact (tmp path : π) (hne : tmp ≠ path) (fs0 : FS π)
    (saves : List (Bytes × Bytes)) (st : FS π) (h : AfterCrashes tmp path fs0 saves st) (hdr body : Bytes) :
    (st path = fs0 path ∨ ∃ hb ∈ saves, st path = some ⟨hb.1 ++ hb.2, []⟩) ∧
    (∀ st' ∈ crashStates st (saveOps tmp path hdr body), st' path = st path ∨ st' path = some ⟨hdr ++ body, []⟩) ∧
    applyOps st (saveOps tmp path hdr body) path = some ⟨hdr ++ body, []⟩ ∧
    applyOps st (saveOps tmp path hdr body) tmp = none := by
  refine ⟨?_, fun st' h' => by simpa using save_crash_path_content tmp path hne st hdr body true st' h',
    (save_final_exact tmp path hne st hdr body).1, (save_final_exact tmp path hne st hdr body).2.1⟩
  induction h with
  | none => exact .inl rfl
  | more hb _ hmem ih =>
    have b := save_crash_path_content tmp path hne _ hb.1 hb.2 true _ hmem
    simp only [if_true] at b
    rcases b with b | b
    · rcases ih with a | ⟨x, hx, a⟩
      · exact .inl (b.trans a)
      · exact .inr ⟨x, List.mem_append_left _ hx, b.trans a⟩
    · exact .inr ⟨hb, by simp, b⟩

/-! #### the variant that does not truncate (`OpenOptions::new().write(true).create(true)`): NOT the code -/

/-- what a completed non-truncating save leaves at the path, for every leftover temp file: the new
    snapshot FOLLOWED BY the tail of the stale file beyond the new snapshot's length -/
theorem save_no_truncate_final_content (tmp path : π) (hne : tmp ≠ path) (fs0 : FS π) (stale : File) (hdr body : Bytes) :
    applyOps (fs0.set tmp (some stale)) (saveOpsKeep tmp path hdr body) path =
      some ⟨hdr ++ body ++ stale.content.drop (hdr.length + body.length), []⟩ := by
  have hpt : path ≠ tmp := fun e => hne e.symm
  simp [saveOpsKeep, applyOps, applyOp, FS.set, hne, hpt, File.content, overlay_zero, overlay_after_prefix,
    List.drop_drop]

/-- the same for the quantising save -/
theorem saveq_no_truncate_final_content (tmp path : π) (hne : tmp ≠ path) (fs0 : FS π) (stale : File) (blob : Bytes) :
    applyOps (fs0.set tmp (some stale)) (saveOpsQKeep tmp path blob) path =
      some ⟨blob ++ stale.content.drop blob.length, []⟩ := by
  have hpt : path ≠ tmp := fun e => hne e.symm
  simp [saveOpsQKeep, applyOps, applyOp, FS.set, hne, hpt, File.content, overlay_zero]

/-- so the non-truncating save is exact precisely when the leftover temp file is not longer than
    the new snapshot — which is why ordinary save / load round trips cannot tell the two apart -/
theorem save_no_truncate_exact_iff (tmp path : π) (hne : tmp ≠ path) (fs0 : FS π) (stale : File) (hdr body : Bytes) :
    applyOps (fs0.set tmp (some stale)) (saveOpsKeep tmp path hdr body) path = some ⟨hdr ++ body, []⟩ ↔
      stale.content.length ≤ hdr.length + body.length := by
  rw [save_no_truncate_final_content tmp path hne]
  simp only [Option.some.injEq, File.mk.injEq, and_true]
  constructor
  · intro h
    have := congrArg List.length h
    simp only [List.length_append, List.length_drop] at this
    omega
  · intro h
    rw [List.drop_eq_nil_of_le h]; simp

/-- with no leftover temp file the two variants agree at the path -/
theorem save_no_truncate_same_without_stale (tmp path : π) (hne : tmp ≠ path) (fs0 : FS π) (h0 : fs0 tmp = none)
    (hdr body : Bytes) :
    applyOps fs0 (saveOpsKeep tmp path hdr body) path = applyOps fs0 (saveOps tmp path hdr body) path := by
  have hpt : path ≠ tmp := fun e => hne e.symm
  rw [(save_final_exact tmp path hne fs0 hdr body).1]
  simp [saveOpsKeep, applyOps, applyOp, FS.set, hne, hpt, h0, File.content, overlay_zero, overlay_at_end]

end stale

/-- a self-delimiting body codec (length byte, then that many bytes; nothing may follow — bitcode's
    "Expected EOF"): satisfies the round-trip hypotheses and rejects a body with a stale tail -/
def framedCodec : Codec Bytes :=
  { enc := fun s => s.length :: s,
    dec := fun b => match b with | n :: r => (if r.length = n then some r else none) | [] => none,
    zip := fun b => 0 :: b, unzip := fun b => match b with | 0 :: r => some r | _ => none,
    decV2 := fun _ => none }

example : (∀ s, framedCodec.dec (framedCodec.enc s) = some s) ∧ (∀ b, framedCodec.unzip (framedCodec.zip b) = some b) :=
  ⟨fun s => by simp [framedCodec], fun b => by simp [framedCodec]⟩

/-- old snapshot `[1]` at the path (paths: `true` = temp), no temp file -/
def staleFS0 : FS Bool := fun p => if p then none else some ⟨fileBytes framedCodec false 1 [1], []⟩

/-- the directory an interrupted save of the larger content `[5,6,7,8,5,6,7,8]` leaves: the complete
    29-byte temp file written, the crash hits before `sync_all` / rename -/
def staleFS1 : FS Bool :=
  applyOps staleFS0 [.create true, .write true (encodeHeader (newHeader false 8)),
    .write true (framedCodec.enc [5, 6, 7, 8, 5, 6, 7, 8])]

/-- non-vacuity: that directory IS a crash state of the real save sequence, its temp file (29 bytes)
    is longer than the next snapshot (23 bytes), and the old snapshot is still what loads -/
example : staleFS1 ∈ crashStates staleFS0 (saveOps true false (encodeHeader (newHeader false 8))
    (framedCodec.enc [5, 6, 7, 8, 5, 6, 7, 8])) := by
  have := crashStates_append
    [.create true, .write true (encodeHeader (newHeader false 8)), .write true (framedCodec.enc [5, 6, 7, 8, 5, 6, 7, 8])]
    [.fsync true, .rename true false] staleFS0 staleFS1 (by simp [staleFS1, crashStates, partials])
  simpa [saveOps, saveOpsWith] using this
example : (staleFS1 true).map (·.content.length) = some 29 ∧
    (fileBytes framedCodec false 2 [2, 3]).length = 23 ∧ loadPath framedCodec staleFS1 false = .ok [1] := by decide
/-- the current code on it: the next (smaller) save is exact and loads -/
example : applyOps staleFS1 (saveOps true false (encodeHeader (newHeader false 2)) (framedCodec.enc [2, 3])) false =
      some ⟨fileBytes framedCodec false 2 [2, 3], []⟩ ∧
    loadPath framedCodec (applyOps staleFS1 (saveOps true false (encodeHeader (newHeader false 2)) (framedCodec.enc [2, 3])))
      false = .ok [2, 3] := by decide

/-- **The non-truncating variant violates the two-save theorem**: on the directory an interrupted
    larger save left (old snapshot intact and loadable), the next save of the smaller `[2,3]` returns
    with the path holding the new snapshot followed by the last 6 bytes of the stale temp file; that
    file loads as an error, the previous good snapshot is gone — and the statement
    `save_over_stale_tmp_exact` is false of `saveOpsKeep`. -/
theorem save_no_truncate_stale_tmp_witness :
    loadPath framedCodec staleFS1 false = .ok [1] ∧
    applyOps staleFS1 (saveOpsKeep true false (encodeHeader (newHeader false 2)) (framedCodec.enc [2, 3])) false =
      some ⟨fileBytes framedCodec false 2 [2, 3] ++ [7, 8, 5, 6, 7, 8], []⟩ ∧
    loadPath framedCodec (applyOps staleFS1 (saveOpsKeep true false (encodeHeader (newHeader false 2)) (framedCodec.enc [2, 3])))
      false = .error .ser ∧
    ¬ (∀ (fs0 : FS Bool) (stale : File) (hdr body : Bytes),
        applyOps (fs0.set true (some stale)) (saveOpsKeep true false hdr body) false = some ⟨hdr ++ body, []⟩) := by
  refine ⟨by decide, by decide, by decide, fun h => ?_⟩
  have := h staleFS0 ⟨[], [9, 9]⟩ [] [1]
  revert this
  decide

/-- the quantising save without truncation: blob `[1]` over a stale `[9,9]` leaves `[1,9]` -/
theorem saveq_no_truncate_stale_tmp_witness :
    applyOps (staleFS0.set true (some ⟨[], [9, 9]⟩)) (saveOpsQKeep true false [1]) false = some ⟨[1, 9], []⟩ ∧
    applyOps (staleFS0.set true (some ⟨[], [9, 9]⟩)) (saveOpsQ true false [1]) false = some ⟨[1], []⟩ := by
  decide

/-! ### before 56197952 (`…Old`): what the fix removed -/

/-- `with_extension("tmp")` mapped a `*.tmp` name to itself, and two names differing only in their
    extension to the same temp name -/
theorem tmpName_fixed_witness :
    tmpNameOld "snap.tmp".toList = "snap.tmp".toList ∧ tmpNameOld "a.bin".toList = tmpNameOld "a.dat".toList := by
  decide

/-- and with the temp path equal to the path the save is an in-place overwrite: `File::create`
    truncates the only copy, and there is a crash state in which the path holds a torn file that
    loads as neither old nor new -/
theorem save_crash_same_path_witness :
    ∃ st ∈ crashStates (fun _ : Unit => some ⟨fileBytes (demoCodec [9]) false 1 [9], []⟩)
        (saveOpsOld () () (encodeHeader (newHeader false 1)) [9]),
      loadPath (demoCodec [9]) st () = .error .ser := by
  refine ⟨applyOp (fun _ : Unit => some ⟨fileBytes (demoCodec [9]) false 1 [9], []⟩) (.create ()), ?_, ?_⟩
  · simp only [saveOpsOld, saveOpsWith, List.cons_append, List.nil_append, crashStates, partials, List.mem_append,
      List.mem_cons, List.mem_map, List.mem_range]
    right; left
    exact ⟨0, by decide, by funext u; cases u; simp [applyOp, FS.set]⟩
  · decide

/-- Without the `sync_all`, a power loss after the rename could leave a torn file at the path:
    the final state's file has all its bytes un-synced, the empty prefix is a possible durable
    content, and it loads as an error. -/
theorem save_power_loss_witness :
    ∃ st ∈ crashStates demoFS (saveOpsOld true false (encodeHeader (newHeader false 1)) [9]),
      ∃ bs, PowerLossContent st false bs ∧ loadBytes (demoCodec [9]) bs = .error .ser := by
  refine ⟨applyOps demoFS (saveOpsOld true false (encodeHeader (newHeader false 1)) [9]),
    final_mem_crashStates _ _, [], ?_, by decide⟩
  · exact ⟨⟨[], encodeHeader (newHeader false 1) ++ [9]⟩, by decide, 0, by decide, by decide⟩

/-! ## the quantising format: scalars -/

/-- every scalar survives the quantising format: null, bool, every int, every float bit pattern
    (NaN payloads, ±inf, -0.0), every string, every byte string -/
theorem compressed_scalar_exact (s : Scalar) : decompressScalar (compressScalar s) = s := by
  cases s <;> rfl

/-- before 79f86251 `Bytes([1,2,3])` came back as `String("bytes:3")` -/
theorem compressed_bytes_witness :
    decompressScalar (compressScalarOld (.bytes [1, 2, 3])) = .str "bytes:3" ∧
    ¬ (∀ s : Scalar, decompressScalar (compressScalarOld s) = s) := by
  refine ⟨by decide, fun h => ?_⟩
  have := h (.bytes [1, 2, 3])
  revert this
  decide

/-- and no byte string at all survived: the loss was total, not an edge case -/
theorem compressed_bytes_never_exact_witness (b : List Nat) (ttRecon : List Nat → List Nat) (cfg : CConfig) (key field : Name) :
    roundValueOld ttRecon cfg key field (.scalar (.bytes b)) ≠ .scalar (.bytes b) := by
  simp [roundValueOld, compressValueOld, compressScalarOld, decompressValue, decompressScalar]

/-! ## the quantising format: pointers, vectors, sparse values -/

/-- pointers and pointer lists are exact under every configuration -/
theorem compressed_pointer_exact (ttRecon : List Nat → List Nat) (cfg : CConfig) (key field : Name) :
    (∀ p, roundValue ttRecon cfg key field (.pointer p) = .pointer p) ∧
    (∀ ps, roundValue ttRecon cfg key field (.pointers ps) = .pointers ps) := by
  constructor <;> intro _ <;> rfl

/-- **Every dense vector that the caller's configuration does not send to tensor-train comes back
    bit-identical** — whatever its length, content (NaN payloads, -0.0, subnormals) and field name:
    the raw branch stores the bits, and the id-list branch is taken only when the `u64` casts are
    exact, after which `decompress_ids ∘ compress_ids` is the identity (C20). -/
theorem compressed_vector_bit_identical (ttRecon : List Nat → List Nat) (cfg : CConfig) (key field : Name)
    (v : List Nat) (htt : (isEmbeddingField key field && cfg.ttMode) = false) :
    roundValue ttRecon cfg key field (.vector v) = .vector v := by
  simp only [roundValue, compressValue, compressVector, htt, Bool.false_eq_true, if_false]
  split
  · rename_i hg
    simp only [Bool.and_eq_true, beq_iff_eq] at hg
    simp only [decompressValue]
    rw [Codec.Props.decompress_compress_ids _ (map_f32ToU64_lt v), hg.2]
  · rfl

example : (isEmbeddingField "user:1".toList "ids".toList && (CConfig.mk true true true).ttMode) = false := by decide
/-- both branches occur: `[1.0, 2.0]` in a field called `ids` is stored as an id list, `[1.5]` raw -/
example :
    (looksLikeIdList [0x3f800000, 0x40000000] "ids".toList &&
      (([0x3f800000, 0x40000000].map f32ToU64).map u64ToF32 == [0x3f800000, 0x40000000])) = true ∧
    (looksLikeIdList [0x3fc00000] "ids".toList && (([0x3fc00000].map f32ToU64).map u64ToF32 == [0x3fc00000])) = false := by
  decide

/-- with no TT mode configured, every vector of every key and field is bit-identical -/
theorem compressed_vector_exact_without_tt (ttRecon : List Nat → List Nat) (delta rle : Bool) (key field : Name)
    (v : List Nat) : roundValue ttRecon ⟨false, delta, rle⟩ key field (.vector v) = .vector v :=
  compressed_vector_bit_identical ttRecon _ key field v (by simp)

/-- **A sparse value comes back as the same sparse value** (dimension, positions, values), under
    every configuration — it never goes through tensor-train or the id-list heuristics -/
theorem compressed_sparse_exact (ttRecon : List Nat → List Nat) (cfg : CConfig) (key field : Name)
    (dim : Nat) (ps xs : List Nat) (hps : ∀ p ∈ ps, p < U32) :
    roundValue ttRecon cfg key field (.sparse dim ps xs) = .sparse dim ps xs := by
  simp only [roundValue, compressValue, decompressValue]
  rw [sparse_positions_roundtrip ps hps]

example : ∀ p ∈ [0, 7, 4294967295], p < U32 := by decide

/-- **Every field value** of an entry whose vector fields are not sent to tensor-train by the
    caller's configuration survives save + load of the quantising format exactly -/
theorem compressed_value_exact (ttRecon : List Nat → List Nat) (cfg : CConfig) (key field : Name) (v : TValue)
    (htt : (isEmbeddingField key field && cfg.ttMode) = false)
    (hps : ∀ dim ps xs, v = .sparse dim ps xs → ∀ p ∈ ps, p < U32) :
    roundValue ttRecon cfg key field v = v := by
  cases v with
  | scalar s =>
    simp only [roundValue, compressValue, decompressValue]
    rw [compressed_scalar_exact]
  | vector v => exact compressed_vector_bit_identical ttRecon cfg key field v htt
  | sparse dim ps xs => exact compressed_sparse_exact ttRecon cfg key field dim ps xs (hps dim ps xs rfl)
  | pointer p => rfl
  | pointers ps => rfl

/-- before 56197952 a vector stored in a field called `ids` (or `*_ids`) was cast to u64 and back
    whatever it held: `[1.5]` came back as `[1.0]` (delta encoding on, no TT involved) -/
theorem compressed_ids_field_witness :
    roundValueOld id ⟨false, true, true⟩ "user:1".toList "ids".toList (.vector [0x3fc00000]) = .vector [0x3f800000] ∧
    roundValue id ⟨false, true, true⟩ "user:1".toList "ids".toList (.vector [0x3fc00000]) = .vector [0x3fc00000] := by
  have hc : Codec.compressIds [1] = [1] := by
    simp [Codec.compressIds, Codec.deltaEncode, Codec.deltaGo, Codec.varintEncode, Codec.varint1]
  refine ⟨?_, compressed_vector_bit_identical _ _ _ _ _ (by decide)⟩
  have h1 : List.map f32ToU64 [0x3fc00000] = [1] := by decide
  have h2 : (isEmbeddingField "user:1".toList "ids".toList && (CConfig.mk false true true).ttMode) = false := by decide
  have h3 : ((CConfig.mk false true true).delta && looksLikeIdList [0x3fc00000] "ids".toList) = true := by decide
  have h4 : (Codec.decompressIds [1]).map u64ToF32 = [0x3f800000] := by decide
  simp only [roundValueOld, compressValueOld, compressVectorOld, h2, h3, h1, hc, decompressValue, h4,
    Bool.false_eq_true, if_false, if_true]

/-- before 56197952 a sparse vector never came back sparse: it was densified on save and reloaded
    as `Vector` -/
theorem compressed_sparse_kind_witness (ttRecon : List Nat → List Nat) (cfg : CConfig) (key field : Name)
    (dim : Nat) (ps xs : List Nat) :
    ∀ d' ps' xs', roundValueOld ttRecon cfg key field (.sparse dim ps xs) ≠ .sparse d' ps' xs' := by
  intro d' ps' xs'
  simp only [roundValueOld, compressValueOld, compressVectorOld]
  repeat' split
  all_goals simp [decompressValue]

/-- the quantising header accepts exactly magic NEUM with version ≤ 3 -/
theorem validateC_ok_iff (a b c d v : Nat) :
    validateC a b c d v = .ok () ↔ (a = 78 ∧ b = 69 ∧ c = 85 ∧ d = 77 ∧ v ≤ 3) := by
  unfold validateC isMagic C_VERSION
  by_cases hm : (a == 78 && b == 69 && c == 85 && d == 77) = true
  · by_cases hv : v > 3
    · simp [hm, hv]
    · simp [hm, hv]; simp at hm; omega
  · simp [hm]; simp at hm; intro x y z w; exact absurd w (hm x y z)

/-! ## the embedding slab's snapshot form (every v3 snapshot) -/

/-- **Every vector below the TT threshold is bit-identical** through the embedding slab's snapshot
    form: no condition on its entries (tiny values, -0.0, NaN payloads included), whichever of the
    dense / sparse forms the `|x| > 1e-6` count picks -/
theorem short_vector_bit_identical (ttOk : List Nat → Bool) (ttRecon : List Nat → List Nat) (v : List Nat)
    (hlen : v.length < TT_MIN_DIMENSION) :
    toDense ttRecon (fromDense ttOk v) = v := by
  unfold fromDense
  cases v with
  | nil => simp [toDense]
  | cons b bs =>
    simp only [List.isEmpty_cons, Bool.false_eq_true, if_false]
    split
    · have := scatter_sparse (b :: bs) [] (by unfold TT_MIN_DIMENSION at hlen; unfold U32; simp at hlen ⊢; omega)
      simpa [toDense] using this
    · have hd : decide ((b :: bs).length ≥ TT_MIN_DIMENSION) = false := decide_eq_false (by omega)
      simp only [hd, Bool.false_and, Bool.false_eq_true, if_false]; simp [toDense]

example : toDense id (fromDense (fun _ => true) [0x350637bd, 0, 0x80000000, 0x7fc00001]) =
    [0x350637bd, 0, 0x80000000, 0x7fc00001] := by decide

/-- at and above the threshold the same holds whenever tensor-train is not chosen (mostly-zero
    vectors take the sparse form, and vectors for which `tt_decompose` fails stay dense) -/
theorem non_tt_vector_bit_identical (ttOk : List Nat → Bool) (ttRecon : List Nat → List Nat) (v : List Nat)
    (hlen : v.length ≤ U32) (hntt : ∀ o, fromDense ttOk v ≠ .tt o) :
    toDense ttRecon (fromDense ttOk v) = v := by
  unfold fromDense at hntt ⊢
  cases v with
  | nil => simp [toDense]
  | cons b bs =>
    simp only [List.isEmpty_cons, Bool.false_eq_true, if_false] at hntt ⊢
    split
    · have := scatter_sparse (b :: bs) [] (by simpa using hlen)
      simpa [toDense] using this
    · rename_i hs
      simp only [hs, if_false] at hntt
      split
      · rename_i ht
        simp only [ht, if_true] at hntt
        exact absurd rfl (hntt _)
      · simp [toDense]

example : ∀ o, fromDense (fun _ => true) [0x3f800000, 0, 0, 0] ≠ .tt o := by
  intro o h
  have : fromDense (fun _ => true) [0x3f800000, 0, 0, 0] = .sparse 4 [0] [0x3f800000] := by decide
  rw [this] at h
  cases h

/-- before 56197952 `[5e-7, 0, 0, 1.0]` (dimension 4) took the sparse branch and came back as
    `[0, 0, 0, 1.0]` -/
theorem short_vector_witness :
    toDense id (fromDenseOld (fun _ => true) [0x350637bd, 0, 0, 0x3f800000]) = [0, 0, 0, 0x3f800000] ∧
    ¬ (∀ (ttOk : List Nat → Bool) (ttRecon : List Nat → List Nat) (v : List Nat),
        v.length < TT_MIN_DIMENSION → toDense ttRecon (fromDenseOld ttOk v) = v) := by
  refine ⟨by decide, fun h => ?_⟩
  have := h (fun _ => true) id [0x350637bd, 0, 0, 0x3f800000] (by decide)
  revert this
  decide

end Neumann.Snap.Props
