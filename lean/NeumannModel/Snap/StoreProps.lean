import NeumannModel.Snap.StoreLemmas
import NeumannModel.Snap.Props
/-
  C07 — store-level clauses: "saving a store and loading it back gives a store whose every key, field
  and value equals the original across all data classes".

  The v3 forms (file, compressed or not, and bytes) all carry `SlabRouter::snapshot()` through an opaque
  serializer and hand the decoded value to `SlabRouter::restore` (`Props.load_saved_ok`,
  `Props.from_bytes_validates`). Here `restore ∘ snapshot` itself is the object: the per-slab snapshot
  and restore functions of the model (`Store.lean`), composed as the router composes them, for EVERY
  router state that operation sequences reach (`Router.WF` is an invariant of every operation:
  `router_wf_reachable`), and for the key-addressed reads `get` / `exists` / `scan`, the header's entry
  count, the graph tensor's `outgoing` / edge data / counters and the blob log's `get` / counters.
  * embeddings below the tensor-train threshold, and longer ones that do not take the tensor-train
    form, come back bit for bit under their key; in general the loaded `_embedding` of an `emb:` key
    is `to_dense(from_dense(v))` of the slab's vector (`snapshot_restore_get`).
  * the graph tensor comes back with the same `outgoing` lists (targets AND edge ids) per node, the same
    edge data map, the same counters, and `incoming` as the transpose of `outgoing` (an invariant of
    every operation, merges included); the code before 3d29d770 / ce34e58a renumbered the edges and
    let merged-away deleted edges reappear in `incoming` (`…_witness` theorems on `restoreOld` /
    `mergeOld`).
  * `restore_from_bytes`, the legacy v2 loader and the quantising format's load are loops of `put`
    over key-addressed entries: what they preserve is proved per key, what they drop is witnessed.
-/
namespace Neumann.Snap.Props
open Neumann.Snap

/-! ## well-formedness is reachable: every operation keeps it -/

/-- every router state reached from a fresh router by ANY sequence of put / delete / get / cache
    eviction / clear / graph-tensor and blob-log operations is well formed (distinct keys per slab,
    slab vectors of the slab's dimension, a cache ring with as many slots as its capacity) -/
theorem router_wf_reachable (cfg : RouterCfg) (ops : List ROp) : ((Router.new cfg).run ops).WF :=
  Router.run_wf _ ops (Router.new_wf cfg)

/-- the slab's dimension never changes -/
theorem router_dim_invariant (cfg : RouterCfg) (ops : List ROp) : ((Router.new cfg).run ops).emb.dim = cfg.dim := by
  have step : ∀ (r : Router) (op : ROp), (r.apply op).emb.dim = r.emb.dim := by
    intro r op
    cases op with
    | put k v victim =>
      simp only [Router.apply, Router.put]
      cases classifyKey k with
      | embedding =>
        simp only
        cases v.embOf with
        | none => rfl
        | some vec =>
          simp only
          cases hs : r.emb.set (r.index.getOrCreate k).2 vec with
          | none => rfl
          | some e => exact ESlab.set_dim _ _ _ _ hs
      | cache => rfl
      | graph => rfl
      | table => rfl
      | metadata => rfl
    | delete k =>
      simp only [Router.apply, Router.delete]
      split
      · rfl
      · cases classifyKey k with
        | embedding =>
          simp only
          cases r.index.get k <;> rfl
        | cache => rfl
        | graph => rfl
        | table => rfl
        | metadata => rfl
    | get k =>
      simp only [Router.apply, Router.touch]
      cases classifyKey k <;> rfl
    | evict ks => rfl
    | clear => rfl
    | graph op => rfl
    | blob op => rfl
  have : ∀ (ops : List ROp) (r : Router), (r.run ops).emb.dim = r.emb.dim := by
    intro ops
    induction ops with
    | nil => intro r; rfl
    | cons op ops ih =>
      intro r
      show ((r.apply op).run ops).emb.dim = r.emb.dim
      rw [ih, step]
  exact this ops _

example : ((Router.new ⟨4, 2, 3, 64⟩).run
    [.put "emb:a".toList [(EMB_FIELD, .vector [1, 2, 3, 4])] 0, .delete "emb:a".toList,
     .put "emb:a".toList [(EMB_FIELD, .vector [9, 2, 3, 4])] 0, .put "_cache:1".toList [] 0]).index.vocab.length = 2 := by
  decide

/-! ## key-addressed content through snapshot + restore -/

/-- **`get` after load, in general**: for every well-formed router and every key, the loaded router
    answers `get` like the saved router whose slab vectors have each gone through
    `to_dense(from_dense(·))` (an entry whose reconstruction has another length is dropped by `set`, and
    `get` falls back to the exact copy in the metadata slab) -/
theorem snapshot_restore_get (ttOk : List Nat → Bool) (ttRecon : List Nat → List Nat)
    (r : Router) (h : r.WF) (key : Name) :
    (Router.restore ttRecon (r.snapshot ttOk).2).peek key =
      ({ r with emb := r.emb.rounded ttOk ttRecon } : Router).peek key := by
  rw [router_restore_snapshot ttOk ttRecon r h]
  unfold Router.peek
  cases classifyKey key with
  | cache =>
    simp only
    rw [cache_peek_eq, cache_peek_eq, cacheMap_packed_reset]
    rfl
  | embedding => rfl
  | graph => rfl
  | table => rfl
  | metadata => rfl

/-- the slab after snapshot + restore holds the same vector under the same id whenever each vector
    is reproduced exactly by its snapshot form -/
theorem rounded_get_exact (ttOk : List Nat → Bool) (ttRecon : List Nat → List Nat) (s : ESlab) (h : s.WF)
    (hex : ∀ p ∈ s.ents, toDense ttRecon (fromDense ttOk p.2) = p.2) (id : Nat) :
    (s.rounded ttOk ttRecon).get id = s.get id := by
  unfold ESlab.rounded ESlab.get
  simp only
  rw [aFind_filterMap (embRound ttOk ttRecon s.dim) s.ents id h.nd]
  cases hf : aFind id s.ents with
  | none => rfl
  | some v =>
    have hm := aFind_mem id v s.ents hf
    have h1 := hex (id, v) hm
    have h2 := h.len (id, v) hm
    simp only at h1 h2
    simp [embRound, h1, h2]

/-- `get` depends on the slab only through `ESlab.get` -/
theorem peek_congr_emb (r : Router) (e : ESlab) (he : ∀ id, e.get id = r.emb.get id) (key : Name) :
    ({ r with emb := e } : Router).peek key = r.peek key := by
  unfold Router.peek
  cases classifyKey key with
  | embedding =>
    simp only
    cases r.index.get key with
    | none => rfl
    | some id => simp only [he id]
  | cache => rfl
  | graph => rfl
  | table => rfl
  | metadata => rfl

/-- **Below the tensor-train threshold every key reads back exactly**: for every well-formed router
    whose embedding dimension is below 256 and every key of every class, `get` on the loaded router
    returns what `get` on the saved router returns — every field, every value, bit for bit -/
theorem snapshot_restore_get_exact_short_dim (ttOk : List Nat → Bool) (ttRecon : List Nat → List Nat)
    (r : Router) (h : r.WF) (hd : r.emb.dim < TT_MIN_DIMENSION) (key : Name) :
    (Router.restore ttRecon (r.snapshot ttOk).2).peek key = r.peek key := by
  rw [snapshot_restore_get ttOk ttRecon r h key]
  apply peek_congr_emb
  intro id
  apply rounded_get_exact ttOk ttRecon r.emb h.emb
  intro p hp
  exact short_vector_bit_identical ttOk ttRecon p.2 (by rw [h.emb.len p hp]; exact hd)

/-- at and above the threshold the same holds whenever no slab vector takes the tensor-train form
    (mostly-zero vectors, vectors `tt_decompose` rejects) -/
theorem snapshot_restore_get_exact_without_tt (ttOk : List Nat → Bool) (ttRecon : List Nat → List Nat)
    (r : Router) (h : r.WF) (hd : r.emb.dim ≤ U32)
    (hntt : ∀ p ∈ r.emb.ents, ∀ o, fromDense ttOk p.2 ≠ .tt o) (key : Name) :
    (Router.restore ttRecon (r.snapshot ttOk).2).peek key = r.peek key := by
  rw [snapshot_restore_get ttOk ttRecon r h key]
  apply peek_congr_emb
  intro id
  apply rounded_get_exact ttOk ttRecon r.emb h.emb
  intro p hp
  exact non_tt_vector_bit_identical ttOk ttRecon p.2 (by rw [h.emb.len p hp]; exact hd) (hntt p hp)

/-- keys that are not `emb:` keys never depend on the embedding slab: exact whatever the dimension -/
theorem snapshot_restore_get_exact_non_embedding_key (ttOk : List Nat → Bool) (ttRecon : List Nat → List Nat)
    (r : Router) (h : r.WF) (key : Name) (hk : classifyKey key ≠ .embedding) :
    (Router.restore ttRecon (r.snapshot ttOk).2).peek key = r.peek key := by
  rw [snapshot_restore_get ttOk ttRecon r h key]
  unfold Router.peek
  cases hc : classifyKey key with
  | embedding => exact absurd hc hk
  | cache => rfl
  | graph => rfl
  | table => rfl
  | metadata => rfl

/-- `exists` answers the same for every key -/
theorem snapshot_restore_exists (ttOk : List Nat → Bool) (ttRecon : List Nat → List Nat)
    (r : Router) (h : r.WF) (key : Name) :
    (Router.restore ttRecon (r.snapshot ttOk).2).exists key = r.exists key := by
  rw [router_restore_snapshot ttOk ttRecon r h]
  unfold Router.exists
  cases classifyKey key with
  | cache =>
    simp only
    rw [cache_contains_eq, cache_contains_eq, cacheMap_packed_reset]
    rfl
  | embedding => rfl
  | graph => rfl
  | table => rfl
  | metadata => rfl

/-- `scan(prefix)` lists the same keys (the very same list in the model's order) for every prefix -/
theorem snapshot_restore_scan (ttOk : List Nat → Bool) (ttRecon : List Nat → List Nat)
    (r : Router) (h : r.WF) (pre : Name) :
    (Router.restore ttRecon (r.snapshot ttOk).2).scan pre = r.scan pre := by
  rw [router_restore_snapshot ttOk ttRecon r h]
  unfold Router.scan Cache.scanPrefix
  simp only [occupied_packed]
  congr 2
  simp [List.filter_map, List.map_map, Function.comp_def, resetAccess]

/-- the number of entries (`len`) and the header's entry count are the same -/
theorem snapshot_restore_entry_count (ttOk : List Nat → Bool) (ttRecon : List Nat → List Nat)
    (r : Router) (h : r.WF) :
    (Router.restore ttRecon (r.snapshot ttOk).2).entryCount = r.entryCount := by
  rw [router_restore_snapshot ttOk ttRecon r h]
  unfold Router.entryCount Router.len Cache.len
  simp only [occupied_packed, List.length_map]

/-- the entity index (vocabulary, tombstones, live count: hence every entity id) is the saved one -/
theorem snapshot_restore_entity_index (ttOk : List Nat → Bool) (ttRecon : List Nat → List Nat) (r : Router) :
    (Router.restore ttRecon (r.snapshot ttOk).2).index = r.index := rfl

/-- saving does not change what the saved store answers for any key (only the graph tensor merges) -/
theorem save_leaves_key_content_alone (ttOk : List Nat → Bool) (r : Router) (key pre : Name) :
    (r.snapshot ttOk).1.peek key = r.peek key ∧ (r.snapshot ttOk).1.exists key = r.exists key ∧
    (r.snapshot ttOk).1.scan pre = r.scan pre := ⟨rfl, rfl, rfl⟩

/-- **All operation sequences**: whatever sequence of operations built the store, with an embedding
    dimension below the tensor-train threshold every key of every class reads back exactly, `exists`
    and `scan` agree and the entry count is the same -/
theorem snapshot_exact_after_any_ops (ttOk : List Nat → Bool) (ttRecon : List Nat → List Nat)
    (cfg : RouterCfg) (hd : cfg.dim < TT_MIN_DIMENSION) (ops : List ROp) (key : Name) :
    let r := (Router.new cfg).run ops
    let l := Router.restore ttRecon (r.snapshot ttOk).2
    l.peek key = r.peek key ∧ l.exists key = r.exists key ∧ l.scan key = r.scan key ∧ l.entryCount = r.entryCount := by
  intro r l
  have hw : r.WF := router_wf_reachable cfg ops
  have hdim : r.emb.dim < TT_MIN_DIMENSION := by rw [router_dim_invariant cfg ops]; exact hd
  exact ⟨snapshot_restore_get_exact_short_dim ttOk ttRecon r hw hdim key,
    snapshot_restore_exists ttOk ttRecon r hw key, snapshot_restore_scan ttOk ttRecon r hw key,
    snapshot_restore_entry_count ttOk ttRecon r hw⟩

/-- with any dimension: the same for every key that is not an `emb:` key -/
theorem snapshot_exact_after_any_ops_non_embedding (ttOk : List Nat → Bool) (ttRecon : List Nat → List Nat)
    (cfg : RouterCfg) (ops : List ROp) (key : Name) (hk : classifyKey key ≠ .embedding) :
    (Router.restore ttRecon (((Router.new cfg).run ops).snapshot ttOk).2).peek key = ((Router.new cfg).run ops).peek key :=
  snapshot_restore_get_exact_non_embedding_key ttOk ttRecon _ (router_wf_reachable cfg ops) key hk

example :
    let r := (Router.new ⟨4, 2, 3, 64⟩).run
      [.put "emb:a".toList [(EMB_FIELD, .vector [1, 2, 3, 4])] 0, .delete "emb:a".toList,
       .put "emb:a".toList [(EMB_FIELD, .vector [9, 0, 0, 0x80000000])] 0, .put "_cache:1".toList [("n".toList, .scalar (.int 5))] 0]
    (Router.restore id (r.snapshot (fun _ => true)).2).peek "emb:a".toList =
      some [(EMB_FIELD, .vector [9, 0, 0, 0x80000000])] ∧
    (Router.restore id (r.snapshot (fun _ => true)).2).peek "_cache:1".toList =
      some [("n".toList, .scalar (.int 5))] := by
  decide

end Neumann.Snap.Props
