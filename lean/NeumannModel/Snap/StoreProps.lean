import NeumannModel.Snap.StoreLemmas
import NeumannModel.Snap.LoopLemmas
import NeumannModel.Snap.Props
/-
  C07 — store-level clauses: "saving a store and loading it back gives a store whose every key, field
  and value equals the original across all data classes".

  The v3 forms (file, compressed or not, and bytes) all carry `SlabRouter::snapshot()` through an opaque
  serializer and hand the decoded value to `SlabRouter::restore` (`Props.load_saved_ok`,
  `Props.from_bytes_validates`). Here `restore ∘ snapshot` itself is the object: the per-slab snapshot
  and restore functions of the model (`Store.lean`), composed as the router composes them, for EVERY
  router state that operation sequences reach (`Router.WF` is an invariant of every operation:
  `router_wf_reachable`), and for the key-addressed reads `get` / `exists` / `scan`, the header's entry
  count, the graph tensor's `outgoing` / edge data / counters and the blob log's `get` / counters.
  * embeddings below the tensor-train threshold, and longer ones that do not take the tensor-train
    form, come back bit for bit under their key; in general the loaded `_embedding` of an `emb:` key
    is `to_dense(from_dense(v))` of the slab's vector (`snapshot_restore_get`).
  * the graph tensor comes back with the same `outgoing` lists (targets AND edge ids) per node, the same
    edge data map, the same counters, and `incoming` as the transpose of `outgoing` (an invariant of
    every operation, merges included); the code before 3d29d770 / ce34e58a renumbered the edges and
    let merged-away deleted edges reappear in `incoming` (`…_witness` theorems on `restoreOld` /
    `mergeOld`).
  * `restore_from_bytes`, the legacy v2 loader and the quantising format's load are loops of `put`
    over key-addressed entries: what they preserve is proved per key, what they drop is witnessed.
-/
namespace Neumann.Snap.Props
open Neumann.Snap

/-! ## well-formedness is reachable: every operation keeps it -/

/-- every router state reached from a fresh router by ANY sequence of put / delete / get / cache
    eviction / clear / graph-tensor and blob-log operations is well formed (distinct keys per slab,
    slab vectors of the slab's dimension, a cache ring with as many slots as its capacity) -/
theorem router_wf_reachable (cfg : RouterCfg) (ops : List ROp) : ((Router.new cfg).run ops).WF :=
  Router.run_wf _ ops (Router.new_wf cfg)

/-- the slab's dimension never changes -/
theorem router_dim_invariant (cfg : RouterCfg) (ops : List ROp) : ((Router.new cfg).run ops).emb.dim = cfg.dim := by
  have step : ∀ (r : Router) (op : ROp), (r.apply op).emb.dim = r.emb.dim := by
    intro r op
    cases op with
    | put k v victim =>
      simp only [Router.apply, Router.put]
      cases classifyKey k with
      | embedding => exact ESlab.putValue_dim _ _ _
      | cache => rfl
      | graph => rfl
      | table => rfl
      | metadata => rfl
    | delete k =>
      simp only [Router.apply, Router.delete]
      split
      · rfl
      · cases classifyKey k with
        | embedding =>
          simp only
          cases r.index.get k <;> rfl
        | cache => rfl
        | graph => rfl
        | table => rfl
        | metadata => rfl
    | get k =>
      simp only [Router.apply, Router.touch]
      cases classifyKey k <;> rfl
    | evict ks => rfl
    | clear => rfl
    | graph op => rfl
    | blob op => rfl
  have : ∀ (ops : List ROp) (r : Router), (r.run ops).emb.dim = r.emb.dim := by
    intro ops
    induction ops with
    | nil => intro r; rfl
    | cons op ops ih =>
      intro r
      show ((r.apply op).run ops).emb.dim = r.emb.dim
      rw [ih, step]
  exact this ops _

example : ((Router.new ⟨4, 2, 3, 64⟩).run
    [.put "emb:a".toList [(EMB_FIELD, .vector [1, 2, 3, 4])] 0, .delete "emb:a".toList,
     .put "emb:a".toList [(EMB_FIELD, .vector [9, 2, 3, 4])] 0, .put "_cache:1".toList [] 0]).index.vocab.length = 2 := by
  decide

/-! ## key-addressed content through snapshot + restore -/

/-- **`get` after load, in general**: for every well-formed router and every key, the loaded router
    answers `get` like the saved router whose slab vectors have each gone through
    `to_dense(from_dense(·))` (an entry whose reconstruction has another length is dropped by `set`, and
    `get` falls back to the exact copy in the metadata slab) -/
theorem snapshot_restore_get (ttOk : List Nat → Bool) (ttRecon : List Nat → List Nat)
    (r : Router) (h : r.WF) (key : Name) :
    (Router.restore ttRecon (r.snapshot ttOk).2).peek key =
      ({ r with emb := r.emb.rounded ttOk ttRecon } : Router).peek key := by
  rw [router_restore_snapshot ttOk ttRecon r h]
  unfold Router.peek
  cases classifyKey key with
  | cache =>
    simp only
    rw [cache_peek_eq, cache_peek_eq, cacheMap_packed_reset]
    rfl
  | embedding => rfl
  | graph => rfl
  | table => rfl
  | metadata => rfl

/-- the slab after snapshot + restore holds the same vector under the same id whenever each vector
    is reproduced exactly by its snapshot form -/
theorem rounded_get_exact (ttOk : List Nat → Bool) (ttRecon : List Nat → List Nat) (s : ESlab) (h : s.WF)
    (hex : ∀ p ∈ s.ents, toDense ttRecon (fromDense ttOk p.2) = p.2) (id : Nat) :
    (s.rounded ttOk ttRecon).get id = s.get id := by
  unfold ESlab.rounded ESlab.get
  simp only
  rw [aFind_filterMap (embRound ttOk ttRecon s.dim) s.ents id h.nd]
  cases hf : aFind id s.ents with
  | none => rfl
  | some v =>
    have hm := aFind_mem id v s.ents hf
    have h1 := hex (id, v) hm
    have h2 := h.len (id, v) hm
    simp only at h1 h2
    simp [embRound, h1, h2]

/-- `get` depends on the slab only through `ESlab.get` -/
theorem peek_congr_emb (r : Router) (e : ESlab) (he : ∀ id, e.get id = r.emb.get id) (key : Name) :
    ({ r with emb := e } : Router).peek key = r.peek key := by
  unfold Router.peek
  cases classifyKey key with
  | embedding =>
    simp only
    cases r.index.get key with
    | none => rfl
    | some id => simp only [he id]
  | cache => rfl
  | graph => rfl
  | table => rfl
  | metadata => rfl

/-- **Below the tensor-train threshold every key reads back exactly**: for every well-formed router
    whose embedding dimension is below 256 and every key of every class, `get` on the loaded router
    returns what `get` on the saved router returns — every field, every value, bit for bit -/
theorem snapshot_restore_get_exact_short_dim (ttOk : List Nat → Bool) (ttRecon : List Nat → List Nat)
    (r : Router) (h : r.WF) (hd : r.emb.dim < TT_MIN_DIMENSION) (key : Name) :
    (Router.restore ttRecon (r.snapshot ttOk).2).peek key = r.peek key := by
  rw [snapshot_restore_get ttOk ttRecon r h key]
  apply peek_congr_emb
  intro id
  apply rounded_get_exact ttOk ttRecon r.emb h.emb
  intro p hp
  exact short_vector_bit_identical ttOk ttRecon p.2 (by rw [h.emb.len p hp]; exact hd)

/-- at and above the threshold the same holds whenever no slab vector takes the tensor-train form
    (mostly-zero vectors, vectors `tt_decompose` rejects) -/
theorem snapshot_restore_get_exact_without_tt (ttOk : List Nat → Bool) (ttRecon : List Nat → List Nat)
    (r : Router) (h : r.WF) (hd : r.emb.dim ≤ U32)
    (hntt : ∀ p ∈ r.emb.ents, ∀ o, fromDense ttOk p.2 ≠ .tt o) (key : Name) :
    (Router.restore ttRecon (r.snapshot ttOk).2).peek key = r.peek key := by
  rw [snapshot_restore_get ttOk ttRecon r h key]
  apply peek_congr_emb
  intro id
  apply rounded_get_exact ttOk ttRecon r.emb h.emb
  intro p hp
  exact non_tt_vector_bit_identical ttOk ttRecon p.2 (by rw [h.emb.len p hp]; exact hd) (hntt p hp)

/-- keys that are not `emb:` keys never depend on the embedding slab: exact whatever the dimension -/
theorem snapshot_restore_get_exact_non_embedding_key (ttOk : List Nat → Bool) (ttRecon : List Nat → List Nat)
    (r : Router) (h : r.WF) (key : Name) (hk : classifyKey key ≠ .embedding) :
    (Router.restore ttRecon (r.snapshot ttOk).2).peek key = r.peek key := by
  rw [snapshot_restore_get ttOk ttRecon r h key]
  unfold Router.peek
  cases hc : classifyKey key with
  | embedding => exact absurd hc hk
  | cache => rfl
  | graph => rfl
  | table => rfl
  | metadata => rfl

/-- `exists` answers the same for every key -/
theorem snapshot_restore_exists (ttOk : List Nat → Bool) (ttRecon : List Nat → List Nat)
    (r : Router) (h : r.WF) (key : Name) :
    (Router.restore ttRecon (r.snapshot ttOk).2).exists key = r.exists key := by
  rw [router_restore_snapshot ttOk ttRecon r h]
  unfold Router.exists
  cases classifyKey key with
  | cache =>
    simp only
    rw [cache_contains_eq, cache_contains_eq, cacheMap_packed_reset]
    rfl
  | embedding => rfl
  | graph => rfl
  | table => rfl
  | metadata => rfl

/-- `scan(prefix)` lists the same keys (the very same list in the model's order) for every prefix -/
theorem snapshot_restore_scan (ttOk : List Nat → Bool) (ttRecon : List Nat → List Nat)
    (r : Router) (h : r.WF) (pre : Name) :
    (Router.restore ttRecon (r.snapshot ttOk).2).scan pre = r.scan pre := by
  rw [router_restore_snapshot ttOk ttRecon r h]
  unfold Router.scan Cache.scanPrefix
  simp only [occupied_packed]
  congr 2
  simp [List.filter_map, List.map_map, Function.comp_def, resetAccess]

/-- the number of entries (`len`) and the header's entry count are the same -/
theorem snapshot_restore_entry_count (ttOk : List Nat → Bool) (ttRecon : List Nat → List Nat)
    (r : Router) (h : r.WF) :
    (Router.restore ttRecon (r.snapshot ttOk).2).entryCount = r.entryCount := by
  rw [router_restore_snapshot ttOk ttRecon r h]
  unfold Router.entryCount Router.len Cache.len
  simp only [occupied_packed, List.length_map]

/-- the entity index (vocabulary, tombstones, live count: hence every entity id) is the saved one -/
theorem snapshot_restore_entity_index (ttOk : List Nat → Bool) (ttRecon : List Nat → List Nat) (r : Router) :
    (Router.restore ttRecon (r.snapshot ttOk).2).index = r.index := rfl

/-- saving does not change what the saved store answers for any key (only the graph tensor merges) -/
theorem save_leaves_key_content_alone (ttOk : List Nat → Bool) (r : Router) (key pre : Name) :
    (r.snapshot ttOk).1.peek key = r.peek key ∧ (r.snapshot ttOk).1.exists key = r.exists key ∧
    (r.snapshot ttOk).1.scan pre = r.scan pre := ⟨rfl, rfl, rfl⟩

/-- **All operation sequences**: whatever sequence of operations built the store, with an embedding
    dimension below the tensor-train threshold every key of every class reads back exactly, `exists`
    and `scan` agree and the entry count is the same -/
theorem snapshot_exact_after_any_ops (ttOk : List Nat → Bool) (ttRecon : List Nat → List Nat)
    (cfg : RouterCfg) (hd : cfg.dim < TT_MIN_DIMENSION) (ops : List ROp) (key : Name) :
    let r := (Router.new cfg).run ops
    let l := Router.restore ttRecon (r.snapshot ttOk).2
    l.peek key = r.peek key ∧ l.exists key = r.exists key ∧ l.scan key = r.scan key ∧ l.entryCount = r.entryCount := by
  intro r l
  have hw : r.WF := router_wf_reachable cfg ops
  have hdim : r.emb.dim < TT_MIN_DIMENSION := by rw [router_dim_invariant cfg ops]; exact hd
  exact ⟨snapshot_restore_get_exact_short_dim ttOk ttRecon r hw hdim key,
    snapshot_restore_exists ttOk ttRecon r hw key, snapshot_restore_scan ttOk ttRecon r hw key,
    snapshot_restore_entry_count ttOk ttRecon r hw⟩

/-- with any dimension: the same for every key that is not an `emb:` key -/
theorem snapshot_exact_after_any_ops_non_embedding (ttOk : List Nat → Bool) (ttRecon : List Nat → List Nat)
    (cfg : RouterCfg) (ops : List ROp) (key : Name) (hk : classifyKey key ≠ .embedding) :
    (Router.restore ttRecon (((Router.new cfg).run ops).snapshot ttOk).2).peek key = ((Router.new cfg).run ops).peek key :=
  snapshot_restore_get_exact_non_embedding_key ttOk ttRecon _ (router_wf_reachable cfg ops) key hk

example :
    let r := (Router.new ⟨4, 2, 3, 64⟩).run
      [.put "emb:a".toList [(EMB_FIELD, .vector [1, 2, 3, 4])] 0, .delete "emb:a".toList,
       .put "emb:a".toList [(EMB_FIELD, .vector [9, 0, 0, 0x80000000])] 0, .put "_cache:1".toList [("n".toList, .scalar (.int 5))] 0]
    (Router.restore id (r.snapshot (fun _ => true)).2).peek "emb:a".toList =
      some [(EMB_FIELD, .vector [9, 0, 0, 0x80000000])] ∧
    (Router.restore id (r.snapshot (fun _ => true)).2).peek "_cache:1".toList =
      some [("n".toList, .scalar (.int 5))] := by
  decide

/-! ## end to end: the file a save writes, and a crash in the middle of the next save -/

/-- **save to a file, load it back** (compressed or not; the serializer and zstd are the opaque `Codec`
    with their round-trip as hypotheses): the loader returns a snapshot whose restored router answers
    every key like the saved store (embedding dimension below the tensor-train threshold) -/
theorem file_save_load_get_exact (C : Codec RouterSnap) (hdec : ∀ s, C.dec (C.enc s) = some s)
    (hz : ∀ b, C.unzip (C.zip b) = some b) (compress : Bool)
    (ttOk : List Nat → Bool) (ttRecon : List Nat → List Nat) (r : Router) (h : r.WF)
    (hd : r.emb.dim < TT_MIN_DIMENSION) (hc : r.entryCount < U64) (key : Name) :
    ∃ s, loadBytes C (fileBytes C compress r.entryCount (r.snapshot ttOk).2) = .ok s ∧
      (Router.restore ttRecon s).peek key = r.peek key ∧ (Router.restore ttRecon s).exists key = r.exists key ∧
      (Router.restore ttRecon s).scan key = r.scan key :=
  ⟨(r.snapshot ttOk).2, load_saved_ok C hdec hz compress r.entryCount hc _,
    snapshot_restore_get_exact_short_dim ttOk ttRecon r h hd key, snapshot_restore_exists ttOk ttRecon r h key,
    snapshot_restore_scan ttOk ttRecon r h key⟩

/-- **a crash during the save of `new` over the snapshot of `old`**: at every crash state of the save's
    file operations, loading the path gives a store that answers EVERY key like `old` or EVERY key like
    `new` — one of the two for all keys at once, never a mixture, never an error -/
theorem crash_during_save_old_or_new_store {π : Type} [DecidableEq π] (C : Codec RouterSnap)
    (hdec : ∀ s, C.dec (C.enc s) = some s) (hz : ∀ b, C.unzip (C.zip b) = some b)
    (tmp path : π) (hne : tmp ≠ path) (fs0 : FS π)
    (ttOk : List Nat → Bool) (ttRecon : List Nat → List Nat) (old new : Router) (ho : old.WF) (hn : new.WF)
    (hdo : old.emb.dim < TT_MIN_DIMENSION) (hdn : new.emb.dim < TT_MIN_DIMENSION)
    (hold : loadPath C fs0 path = .ok (old.snapshot ttOk).2) (compress : Bool) (hc : new.entryCount < U64) :
    ∀ st ∈ crashStates fs0 (saveOps tmp path (encodeHeader (newHeader compress new.entryCount))
        (if compress then C.zip (C.enc (new.snapshot ttOk).2) else C.enc (new.snapshot ttOk).2)),
      ∃ s, loadPath C st path = .ok s ∧
        ((∀ key, (Router.restore ttRecon s).peek key = old.peek key) ∨
         (∀ key, (Router.restore ttRecon s).peek key = new.peek key)) := by
  intro st hst
  rcases save_crash_atomic_old_or_new C hdec hz tmp path hne fs0 _ (new.snapshot ttOk).2 hold compress new.entryCount hc st hst with h | h
  · exact ⟨_, h, Or.inl (fun key => snapshot_restore_get_exact_short_dim ttOk ttRecon old ho hdo key)⟩
  · exact ⟨_, h, Or.inr (fun key => snapshot_restore_get_exact_short_dim ttOk ttRecon new hn hdn key)⟩

/-! ## the store-level loops: `restore_from_bytes`, the v2 loader, the quantising format -/

/-- **`restore_from_bytes`, key by key**: whatever the store held before, for every key that is not a
    cache key, the restored store answers `get` exactly like the router decoded from the bytes when the
    key is among the scanned keys (`order`: the scan in whatever order the hash set yields it), and
    `NotFound` otherwise — earlier content of the store does not survive, in any order of the loop -/
theorem restore_from_bytes_get (target new : Router) (order : List Name) (hnd : order.Nodup)
    (key : Name) (hk : classifyKey key ≠ .cache) :
    (restoreFromBytes target new order).peek key = if key ∈ order then new.peek key else none := by
  unfold restoreFromBytes
  have hfold : order.foldl (fun t key => t.putOpt key (new.peek key)) target.clear =
      (order.map (fun k => (k, new.peek k))).foldl (fun t p => t.putOpt p.1 p.2) target.clear := by
    rw [List.foldl_map]
  rw [hfold, fold_putOpt_peek _ target.clear (by exact EIndex.new_wf) (by simpa [aKeys, List.map_map, Function.comp_def] using hnd) key hk,
    aFind_map_pair]
  have hclear : target.clear.peek key = none := by
    unfold Router.clear Router.peek
    cases hc : classifyKey key with
    | cache => exact absurd hc hk
    | embedding => rfl
    | graph => rfl
    | table => rfl
    | metadata => rfl
  by_cases hm : key ∈ order
  · simp only [hm, if_true]
    cases new.peek key with
    | none => exact hclear
    | some v => rfl
  · simp only [hm, if_false]
    exact hclear

/-- with `order` = the keys `scan("")` of the decoded router lists (in any order, each once) — what the
    code iterates over — every key that is not a cache key reads exactly as in the decoded router -/
theorem restore_from_bytes_over_scan_get (target new : Router) (order : List Name) (hnd : order.Nodup)
    (hscan : ∀ k, k ∈ order ↔ k ∈ new.scan []) (key : Name) (hk : classifyKey key ≠ .cache) :
    (restoreFromBytes target new order).peek key = new.peek key := by
  rw [restore_from_bytes_get target new order hnd key hk]
  by_cases hm : key ∈ order
  · simp [hm]
  · simp only [hm, if_false]
    cases hp : new.peek key with
    | none => rfl
    | some v =>
      exact absurd ((hscan key).mpr (peek_some_mem_scan new key hk (by rw [hp]; rfl))) hm

/-- composed with the v3 restore: below the tensor-train threshold `restore_from_bytes(snapshot_bytes())`
    gives every scanned non-cache key the value the saved store returns for it -/
theorem restore_from_bytes_of_snapshot_get_exact (ttOk : List Nat → Bool) (ttRecon : List Nat → List Nat)
    (target r : Router) (h : r.WF) (hd : r.emb.dim < TT_MIN_DIMENSION) (order : List Name) (hnd : order.Nodup)
    (key : Name) (hk : classifyKey key ≠ .cache) (hm : key ∈ order) :
    (restoreFromBytes target (Router.restore ttRecon (r.snapshot ttOk).2) order).peek key = r.peek key := by
  rw [restore_from_bytes_get _ _ order hnd key hk]
  simp only [hm, if_true]
  exact snapshot_restore_get_exact_short_dim ttOk ttRecon r h hd key

/-- **what `restore_from_bytes` never carries** (known findings `restore_from_bytes/graph_tensor_not_restored`,
    `…/blob_log_not_restored`; the relational slab is handled the same way by `clear`): whatever the
    decoded router holds in its graph tensor and blob log, the restored store's are the cleared ones -/
theorem restore_from_bytes_drops_graph_and_blobs (target new : Router) (order : List Name) :
    (restoreFromBytes target new order).graph = target.graph.clear ∧
    (restoreFromBytes target new order).blobs = target.blobs.clear := by
  unfold restoreFromBytes
  have hfold : order.foldl (fun t key => t.putOpt key (new.peek key)) target.clear =
      (order.map (fun k => (k, new.peek k))).foldl (fun t p => t.putOpt p.1 p.2) target.clear := by
    rw [List.foldl_map]
  rw [hfold]
  exact fold_putOpt_graph_blobs _ target.clear

example :
    let new : Router := { Router.new ⟨4, 2, 3, 64⟩ with graph := ((GraphT.new 3).addEdge 1 2 [] true).1 }
    new.graph.outgoing 1 = [(2, 0)] ∧ (restoreFromBytes (Router.new ⟨4, 2, 3, 64⟩) new []).graph.outgoing 1 = [] := by
  decide

/-- **the legacy v2 loader**: a file whose map has the entries `entries` (a map: distinct keys) loads
    to a store that returns, for every key that is not a cache key, exactly the map's value -/
theorem load_v2_get (cfg : RouterCfg) (entries : List (Name × TData)) (hnd : (aKeys entries).Nodup)
    (key : Name) (hk : classifyKey key ≠ .cache) :
    (loadV2Entries cfg entries).peek key = aFind key entries := by
  unfold loadV2Entries
  have hfold : entries.foldl (fun r p => r.put p.1 p.2 0) (Router.new cfg) =
      (entries.map (fun p => (p.1, some p.2))).foldl (fun t p => t.putOpt p.1 p.2) (Router.new cfg) := by
    rw [List.foldl_map]; rfl
  rw [hfold, fold_putOpt_peek _ (Router.new cfg) (by exact EIndex.new_wf)
    (by simpa [aKeys, List.map_map, Function.comp_def] using hnd) key hk]
  have hf : aFind key (entries.map (fun p => (p.1, some p.2))) = (aFind key entries).map some :=
    aFind_map_val some entries key
  rw [hf]
  cases aFind key entries with
  | some v => rfl
  | none =>
    simp only [Option.map_none]
    unfold Router.new Router.peek
    cases hc : classifyKey key with
    | cache => exact absurd hc hk
    | embedding => rfl
    | graph => rfl
    | table => rfl
    | metadata => rfl

example : (loadV2Entries ⟨4, 2, 3, 64⟩ [("emb:a".toList, [(EMB_FIELD, .vector [1, 2, 3, 4])]), ("user:1".toList, [])]).peek "emb:a".toList =
    some [(EMB_FIELD, .vector [1, 2, 3, 4])] := by decide

/-- one entry of the quantising format: when every field value survives its own round trip
    (`Props.compressed_value_exact` says when) and the field names are distinct (a map), the decoded
    entry is the saved one -/
theorem quant_entry_exact (ttRecon : List Nat → List Nat) (cfg : CConfig) (key : Name) (d : TData)
    (hnd : (aKeys d).Nodup) (hex : ∀ p ∈ d, roundValue ttRecon cfg key p.1 p.2 = p.2) :
    decompressEntry ttRecon (compressEntry cfg key d) = d := by
  unfold decompressEntry compressEntry
  rw [List.foldl_map]
  have hstep : (fun (m : TData) (p : Name × TValue) => aInsert p.1 (decompressValue ttRecon (compressValue cfg key p.1 p.2)) m) =
      (fun m p => aInsert p.1 (roundValue ttRecon cfg key p.1 p.2) m) := rfl
  rw [hstep]
  have hmap : d.foldl (fun m p => aInsert p.1 (roundValue ttRecon cfg key p.1 p.2) m) [] =
      (d.map (fun p => (p.1, roundValue ttRecon cfg key p.1 p.2))).foldl (fun m p => aInsert p.1 p.2 m) [] := by
    rw [List.foldl_map]
  rw [hmap, foldl_aInsert_nil _ (by rw [aKeys_map_val (fun k v => roundValue ttRecon cfg key k v)]; exact hnd)]
  have : d.map (fun p => (p.1, roundValue ttRecon cfg key p.1 p.2)) = d.map id := by
    apply List.map_congr_left
    intro p hp
    simp only [id]
    rw [hex p hp]
  rw [this, List.map_id]

/-- **the quantising format at store level**: for every key the save lists (`order` = `scan("")`, distinct)
    that is not a cache key, the loaded store returns the saved entry with every field through the
    format's value map — hence the saved entry itself whenever its values round-trip — and keys the
    save does not list are absent -/
theorem quant_store_get (ttRecon : List Nat → List Nat) (qcfg : CConfig) (cfg : RouterCfg) (r : Router)
    (order : List Name) (hnd : order.Nodup) (key : Name) (hk : classifyKey key ≠ .cache) :
    (loadQuant ttRecon cfg (saveQuant qcfg r order)).peek key =
      if key ∈ order then (r.peek key).map (fun d => decompressEntry ttRecon (compressEntry qcfg key d)) else none := by
  unfold loadQuant saveQuant
  -- the save as a list of optional entries, the load as a loop of optional puts
  have hfold : ∀ (t : Router) (l : List Name),
      (l.filterMap (fun key => (r.peek key).map (fun d => (key, compressEntry qcfg key d)))).foldl
        (fun r p => r.put p.1 (decompressEntry ttRecon p.2) 0) t =
      (l.map (fun k => (k, (r.peek k).map (fun d => decompressEntry ttRecon (compressEntry qcfg k d))))).foldl
        (fun t p => t.putOpt p.1 p.2) t := by
    intro t l
    induction l generalizing t with
    | nil => rfl
    | cons k ks ih =>
      simp only [List.filterMap_cons, List.map_cons, List.foldl_cons]
      cases hp : r.peek k with
      | none => simp only [Option.map_none]; exact ih t
      | some d => simp only [Option.map_some, List.foldl_cons]; exact ih _
  rw [hfold, fold_putOpt_peek _ (Router.new cfg) (by exact EIndex.new_wf)
    (by simpa [aKeys, List.map_map, Function.comp_def] using hnd) key hk, aFind_map_pair]
  have hnew : (Router.new cfg).peek key = none := by
    unfold Router.new Router.peek
    cases hc : classifyKey key with
    | cache => exact absurd hc hk
    | embedding => rfl
    | graph => rfl
    | table => rfl
    | metadata => rfl
  by_cases hm : key ∈ order
  · simp only [hm, if_true]
    cases r.peek key with
    | none => exact hnew
    | some d => rfl
  · simp only [hm, if_false]
    exact hnew

/-- the key-addressed content of a store comes back exactly through the quantising format when each
    stored value does -/
theorem quant_store_get_exact (ttRecon : List Nat → List Nat) (qcfg : CConfig) (cfg : RouterCfg) (r : Router)
    (order : List Name) (hnd : order.Nodup) (key : Name) (hk : classifyKey key ≠ .cache) (hm : key ∈ order)
    (hfields : ∀ d, r.peek key = some d → (aKeys d).Nodup ∧ ∀ p ∈ d, roundValue ttRecon qcfg key p.1 p.2 = p.2) :
    (loadQuant ttRecon cfg (saveQuant qcfg r order)).peek key = r.peek key := by
  rw [quant_store_get ttRecon qcfg cfg r order hnd key hk]
  simp only [hm, if_true]
  cases hp : r.peek key with
  | none => rfl
  | some d =>
    simp only [Option.map_some]
    rw [quant_entry_exact ttRecon qcfg key d (hfields d hp).1 (hfields d hp).2]

example : (loadQuant id ⟨4, 2, 3, 64⟩ (saveQuant ⟨false, true, true⟩
      ((Router.new ⟨4, 2, 3, 64⟩).put "user:1".toList [("b".toList, .scalar (.bytes [1, 2, 3])), ("ids".toList, .vector [0x3fc00000])] 0)
      ["user:1".toList])).peek "user:1".toList =
    some [("b".toList, .scalar (.bytes [1, 2, 3])), ("ids".toList, .vector [0x3fc00000])] := by decide

end Neumann.Snap.Props
