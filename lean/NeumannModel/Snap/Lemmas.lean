import NeumannModel.Snap.Model
import NeumannModel.Codec.Props
/-
  Helper lemmas for the snapshot properties (C07). Core Lean only, plus the id-list codec's
  round-trip theorem from C20 (`Codec.Props.decompress_compress_ids`).
-/
namespace Neumann.Snap

/-! ### in-place overwrite -/

/-- writing from offset 0 replaces the head and keeps the rest -/
theorem overlay_zero (c bs : Bytes) : overlay c 0 bs = bs ++ c.drop bs.length := by
  simp [overlay]

/-- writing right behind a prefix of length `off` that is already there -/
theorem overlay_after_prefix (pre rest bs : Bytes) :
    overlay (pre ++ rest) pre.length bs = pre ++ bs ++ rest.drop bs.length := by
  simp [overlay, List.drop_append]

/-- writing at the end of the file appends -/
theorem overlay_at_end (c bs : Bytes) : overlay c c.length bs = c ++ bs := by
  simp [overlay]

/-- what is written survives as a whole at its offset when the offset is inside the file -/
theorem overlay_length (c : Bytes) (off : Nat) (bs : Bytes) :
    (overlay c off bs).length = max c.length (off + bs.length) := by
  simp only [overlay, List.length_append, List.length_take, List.length_replicate, List.length_drop]
  omega

/-! ### header -/

theorem decode_encode_append (h : Header) (hw : h.WF) (rest : Bytes) :
    decodeHeader (encodeHeader h ++ rest) = some (h, rest) := by
  obtain ⟨h0, h1, h2, h3, hv, hf, hc⟩ := hw
  cases h with
  | mk m0 m1 m2 m3 version flags entryCount =>
    simp only [encodeHeader, leBytes, List.cons_append, List.nil_append, decodeHeader, leVal] at *
    congr 2
    · congr 1 <;> omega

theorem encodeHeader_length (h : Header) : (encodeHeader h).length = 20 := by
  simp [encodeHeader, leBytes]

/-- bytes are bytes -/
def AllBytes (bs : Bytes) : Prop := ∀ b ∈ bs, b < 256
instance (bs : Bytes) : Decidable (AllBytes bs) := by unfold AllBytes; infer_instance

theorem le4_roundtrip (a b c d : Nat) (ha : a < 256) (hb : b < 256) (hc : c < 256) (hd : d < 256) :
    leBytes 4 (leVal [a, b, c, d]) = [a, b, c, d] := by
  simp only [leBytes, leVal, List.cons.injEq, and_true]
  refine ⟨by omega, by omega, by omega, by omega⟩

theorem le8_roundtrip (a b c d e f g h : Nat) (ha : a < 256) (hb : b < 256) (hc : c < 256) (hd : d < 256)
    (he : e < 256) (hf : f < 256) (hg : g < 256) (hh : h < 256) :
    leBytes 8 (leVal [a, b, c, d, e, f, g, h]) = [a, b, c, d, e, f, g, h] := by
  simp only [leBytes, leVal, List.cons.injEq, and_true]
  refine ⟨by omega, by omega, by omega, by omega, by omega, by omega, by omega, by omega⟩

theorem encode_decode (bs : Bytes) (hb : AllBytes bs) (h : Header) (rest : Bytes)
    (hd : decodeHeader bs = some (h, rest)) : encodeHeader h ++ rest = bs := by
  match bs, hd with
  | m0 :: m1 :: m2 :: m3 :: v0 :: v1 :: v2 :: v3 :: f0 :: f1 :: f2 :: f3 ::
    c0 :: c1 :: c2 :: c3 :: c4 :: c5 :: c6 :: c7 :: rest', hd =>
    simp only [decodeHeader, Option.some.injEq, Prod.mk.injEq] at hd
    obtain ⟨hh, hr⟩ := hd
    subst hh; subst hr
    have hv0 := hb v0 (by simp); have hv1 := hb v1 (by simp); have hv2 := hb v2 (by simp)
    have hv3 := hb v3 (by simp)
    have hf0 := hb f0 (by simp); have hf1 := hb f1 (by simp); have hf2 := hb f2 (by simp)
    have hf3 := hb f3 (by simp)
    have hc0 := hb c0 (by simp); have hc1 := hb c1 (by simp); have hc2 := hb c2 (by simp)
    have hc3 := hb c3 (by simp); have hc4 := hb c4 (by simp); have hc5 := hb c5 (by simp)
    have hc6 := hb c6 (by simp); have hc7 := hb c7 (by simp)
    simp only [encodeHeader]
    rw [le4_roundtrip v0 v1 v2 v3 hv0 hv1 hv2 hv3, le4_roundtrip f0 f1 f2 f3 hf0 hf1 hf2 hf3,
      le8_roundtrip c0 c1 c2 c3 c4 c5 c6 c7 hc0 hc1 hc2 hc3 hc4 hc5 hc6 hc7]
    rfl

theorem decodeHeader_none_of_short (bs : Bytes) (h : bs.length < 20) : decodeHeader bs = none := by
  match bs with
  | m0 :: m1 :: m2 :: m3 :: v0 :: v1 :: v2 :: v3 :: f0 :: f1 :: f2 :: f3 ::
    c0 :: c1 :: c2 :: c3 :: c4 :: c5 :: c6 :: c7 :: rest' => simp at h; omega
  | [] => rfl
  | [_] => rfl
  | [_, _] => rfl
  | [_, _, _] => rfl
  | [_, _, _, _] => rfl
  | [_, _, _, _, _] => rfl
  | [_, _, _, _, _, _] => rfl
  | [_, _, _, _, _, _, _] => rfl
  | [_, _, _, _, _, _, _, _] => rfl
  | [_, _, _, _, _, _, _, _, _] => rfl
  | [_, _, _, _, _, _, _, _, _, _] => rfl
  | [_, _, _, _, _, _, _, _, _, _, _] => rfl
  | [_, _, _, _, _, _, _, _, _, _, _, _] => rfl
  | [_, _, _, _, _, _, _, _, _, _, _, _, _] => rfl
  | [_, _, _, _, _, _, _, _, _, _, _, _, _, _] => rfl
  | [_, _, _, _, _, _, _, _, _, _, _, _, _, _, _] => rfl
  | [_, _, _, _, _, _, _, _, _, _, _, _, _, _, _, _] => rfl
  | [_, _, _, _, _, _, _, _, _, _, _, _, _, _, _, _, _] => rfl
  | [_, _, _, _, _, _, _, _, _, _, _, _, _, _, _, _, _, _] => rfl
  | [_, _, _, _, _, _, _, _, _, _, _, _, _, _, _, _, _, _, _] => rfl

/-! ### file system -/

section fs
variable {π : Type} [DecidableEq π]

@[simp] theorem FS.set_same (fs : FS π) (p : π) (f : Option File) : (fs.set p f) p = f := by
  simp [FS.set]

@[simp] theorem FS.set_other (fs : FS π) (p q : π) (f : Option File) (h : q ≠ p) :
    (fs.set p f) q = fs q := by
  simp [FS.set, h]

end fs

/-! ### scatter / sparse embedding form -/

theorem set_append_at_length (pre : List Nat) (x y : Nat) (xs : List Nat) :
    (pre ++ x :: xs).set pre.length y = pre ++ y :: xs := by
  induction pre with
  | nil => rfl
  | cons a pre ih => simp [ih]

/-- entries the criterion drops are exactly `+0.0` -/
def DroppedAreZero (keep : Nat → Bool) (v : List Nat) : Prop := ∀ b ∈ v, keep b = true ∨ b = 0
instance (keep : Nat → Bool) (v : List Nat) : Decidable (DroppedAreZero keep v) := by
  unfold DroppedAreZero; infer_instance

/-- entries that are not "big" are exactly `+0.0` -/
def SmallAreZero (v : List Nat) : Prop := DroppedAreZero isBig v
instance (v : List Nat) : Decidable (SmallAreZero v) := by unfold SmallAreZero; infer_instance

theorem scatter_sparse_by (keep : Nat → Bool) (v : List Nat) : ∀ (pre : List Nat),
    DroppedAreZero keep v → pre.length + v.length ≤ U32 →
    scatter (pre ++ List.replicate v.length 0) (sparsePositionsBy keep pre.length v)
        (sparseValuesBy keep pre.length v)
      = pre ++ v := by
  induction v with
  | nil => intro pre _ _; simp [sparsePositionsBy, sparseValuesBy, scatter]
  | cons b bs ih =>
    intro pre hz hlen
    have hz' : DroppedAreZero keep bs := fun x hx => hz x (List.mem_cons_of_mem _ hx)
    have hlt : pre.length < U32 := by simp at hlen; omega
    have hpre : (pre ++ [b]).length = pre.length + 1 := by simp
    have hlen' : (pre ++ [b]).length + bs.length ≤ U32 := by simp at hlen ⊢; omega
    have ihb := ih (pre ++ [b]) hz' hlen'
    rw [hpre] at ihb
    simp only [List.length_cons, List.replicate_succ, sparsePositionsBy, sparseValuesBy]
    cases hb : keep b with
    | true =>
      simp only [hlt, decide_true, Bool.and_self, if_true, scatter]
      rw [set_append_at_length]
      have : pre ++ b :: List.replicate bs.length 0 = (pre ++ [b]) ++ List.replicate bs.length 0 := by simp
      rw [this, ihb]; simp
    | false =>
      have hb0 : b = 0 := by
        cases hz b (by simp) with
        | inl h => rw [hb] at h; cases h
        | inr h => exact h
      simp only [Bool.false_and, if_false, Bool.false_eq_true]
      have : pre ++ 0 :: List.replicate bs.length 0 = (pre ++ [b]) ++ List.replicate bs.length 0 := by
        simp [hb0]
      rw [this, ihb]; simp

/-- the criterion of the code drops nothing but `+0.0` -/
theorem droppedAreZero_notPlusZero (v : List Nat) : DroppedAreZero notPlusZero v := by
  intro b _
  by_cases h : b = 0
  · exact .inr h
  · left; simp [notPlusZero, h]

/-- the sparse form of the code is lossless: no condition on the entries -/
theorem scatter_sparse (v : List Nat) (pre : List Nat) (hlen : pre.length + v.length ≤ U32) :
    scatter (pre ++ List.replicate v.length 0) (sparsePositions pre.length v) (sparseValues pre.length v)
      = pre ++ v :=
  scatter_sparse_by notPlusZero v pre (droppedAreZero_notPlusZero v) hlen

/-- the sparse form before 56197952 needed the small entries to be `+0.0` already -/
theorem scatter_sparse_old (v : List Nat) (pre : List Nat)
    (hz : SmallAreZero v) (hlen : pre.length + v.length ≤ U32) :
    scatter (pre ++ List.replicate v.length 0) (sparsePositionsOld pre.length v) (sparseValuesOld pre.length v)
      = pre ++ v :=
  scatter_sparse_by isBig v pre hz hlen

/-! ### casts and the id-list codec -/

/-- `x as u64` fits u64 -/
theorem f32ToU64_lt (x : Nat) : f32ToU64 x < U64 := by
  unfold f32ToU64 U64
  simp only []
  repeat' split
  all_goals omega

theorem map_f32ToU64_lt (v : List Nat) : ∀ x ∈ v.map f32ToU64, x < Codec.U64 := by
  intro x hx
  obtain ⟨y, _, rfl⟩ := List.mem_map.1 hx
  exact f32ToU64_lt y

/-- positions of a `SparseVector` are `u32`: the `as u32` on load is the identity -/
theorem map_mod_U32 (ps : List Nat) (h : ∀ p ∈ ps, p < U32) : ps.map (· % U32) = ps := by
  induction ps with
  | nil => rfl
  | cons p ps ih =>
    simp only [List.map_cons]
    rw [ih (fun q hq => h q (List.mem_cons_of_mem _ hq)), Nat.mod_eq_of_lt (h p (by simp))]

/-- the positions of a sparse value survive `compress_ids` / `decompress_ids` / `as u32` -/
theorem sparse_positions_roundtrip (ps : List Nat) (h : ∀ p ∈ ps, p < U32) :
    (Codec.decompressIds (Codec.compressIds ps)).map (· % U32) = ps := by
  rw [Codec.Props.decompress_compress_ids ps (fun x hx => by
    have := h x hx; unfold U32 at this; unfold Codec.U64; omega)]
  exact map_mod_U32 ps h

end Neumann.Snap
