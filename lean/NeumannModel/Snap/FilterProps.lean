import NeumannModel.Snap.FilterLemmas
import NeumannModel.Snap.StoreProps
/-
  C07 — the store-level load paths INTO A STORE BUILT WITH A BLOOM FILTER.

  `TensorStore::get` / `exists` ask the store's Bloom filter before the router and answer `NotFound` /
  `false` from the filter alone when it says "definitely absent"; `scan` never asks it. A load path that
  fills the router without telling the filter therefore produces a store in which `scan` lists the
  saved keys while `get` / `exists` deny them: that is what `restore_from_bytes` did before cb3c5db0
  (`TStore.restoreFromBytesOld`, witness below). Here, for the code as it is now (`TStore` of
  Store.lean: the filter is the list of keys added since the last clear, its false positives an
  ARBITRARY function `fp` of that content and the asked key):
  * after `restore_from_bytes` into ANY store (any router content, any filter content, any `fp`), every
    key-addressed read (`get`, `exists`; every key class) is the router's own answer, hence — for the
    keys of the loops' theorems in StoreProps — the saved store's; keys the target held before are gone
    for `get` / `exists` as they are for `scan`, although they stay in the filter;
  * the loaders that build a filter from `scan("")` (`load_snapshot_with_bloom_filter`,
    `recover_with_bloom`) give a store whose reads are the loaded router's for every key;
  * over ALL histories of put / delete / get / clear / restore_from_bytes from a new store, a store with
    a filter and a store without one hold the same router and answer every `get` / `exists` alike.
-/
namespace Neumann.Snap.Props
open Neumann.Snap

/-! ## `restore_from_bytes` into a store with a filter -/

/-- `scan` never consults the filter -/
theorem filter_never_affects_scan (s : TStore) (pre : Name) : s.scan pre = s.router.scan pre := rfl

/-- telling the filter changes nothing below it: the router after `restore_from_bytes` is the
    router-level loop's result (`restoreFromBytes` of StoreProps), with or without a filter, told or not -/
theorem restore_router_is_the_loop (tell : Bool) (s : TStore) (new : Router) (order : List Name) :
    (TStore.restoreWith tell s new order).router = restoreFromBytes s.router new order :=
  restoreWith_router tell s new order

/-- **The filter is transparent after `restore_from_bytes`**: for EVERY target store (whatever its
    router and its filter held), every decoded router, every iteration order, every false-positive
    behaviour `fp` and every key of every class, `get` and `exists` of the restored store answer exactly
    what its router answers — the filter denies no restored key -/
theorem restore_into_filter_store_reads (fp : List Name → Name → Bool) (s : TStore) (new : Router) (order : List Name)
    (key : Name) :
    (s.restoreFromBytes new order).get fp key = (restoreFromBytes s.router new order).peek key ∧
    (s.restoreFromBytes new order).exists fp key = (restoreFromBytes s.router new order).exists key := by
  have h := covers_transparent fp _ (covers_restoreFromBytes s new order) key
  rw [TStore.restoreFromBytes, restoreWith_router] at h
  exact h

/-- `exists` of the router-level loop, key by key (not a cache key): `true` exactly for the scanned keys
    that `get` finds in the decoded router — nothing of the store's earlier content -/
theorem restore_from_bytes_exists (target new : Router) (order : List Name) (hnd : order.Nodup)
    (key : Name) (hk : classifyKey key ≠ .cache) :
    (restoreFromBytes target new order).exists key = (decide (key ∈ order) && (new.peek key).isSome) := by
  rw [Bool.eq_iff_iff]
  simp only [Bool.and_eq_true, decide_eq_true_eq]
  let s : TStore := ⟨target, some []⟩
  have hc := covers_restoreFromBytes s new order
  obtain ⟨a', ha', hmem⟩ := fold_restoreStep_filter_mem new order s.restoreStart [] rfl
  have hr : (s.restoreFromBytes new order).router = restoreFromBytes target new order := restoreWith_router true s new order
  constructor
  · intro hex
    have := hc a' ha' key (by rw [hr]; exact hex)
    rcases (hmem key).mp this with h | h
    · simp at h
    · exact h
  · rintro ⟨hm, hp⟩
    apply peek_isSome_exists
    rw [restore_from_bytes_get target new order hnd key hk]
    simp only [hm, if_true]
    exact hp

/-- **`get` / `exists` of the restored store = the decoded router's `get`** (keys that are not cache
    keys; `order` = the keys `scan("")` of the decoded router lists, each once, in any order): with any
    filter content before the restore and any false positives -/
theorem restore_into_filter_store_get (fp : List Name → Name → Bool) (s : TStore) (new : Router) (order : List Name)
    (hnd : order.Nodup) (hscan : ∀ k, k ∈ order ↔ k ∈ new.scan []) (key : Name) (hk : classifyKey key ≠ .cache) :
    (s.restoreFromBytes new order).get fp key = new.peek key ∧
    (s.restoreFromBytes new order).exists fp key = (new.peek key).isSome := by
  obtain ⟨h1, h2⟩ := restore_into_filter_store_reads fp s new order key
  refine ⟨h1.trans (restore_from_bytes_over_scan_get s.router new order hnd hscan key hk), ?_⟩
  rw [h2, restore_from_bytes_exists s.router new order hnd key hk]
  cases hp : new.peek key with
  | none => simp
  | some v =>
    have : key ∈ order := (hscan key).mpr (peek_some_mem_scan new key hk (by rw [hp]; rfl))
    simp [this]

/-- **against the saved store**: `dst.restore_from_bytes(src.snapshot_bytes())` with `dst` built with a
    Bloom filter (or not), empty or holding other keys: below the tensor-train threshold every key that is
    not a cache key reads in `dst` exactly as in `src` — `get` the same value or `NotFound`, `exists`
    `true` exactly when `get` succeeds in `src` -/
theorem restore_into_filter_store_equals_saved (ttOk : List Nat → Bool) (ttRecon : List Nat → List Nat)
    (fp : List Name → Name → Bool) (dst : TStore) (src : Router) (h : src.WF) (hd : src.emb.dim < TT_MIN_DIMENSION)
    (order : List Name) (hnd : order.Nodup)
    (hscan : ∀ k, k ∈ order ↔ k ∈ (Router.restore ttRecon (src.snapshot ttOk).2).scan [])
    (key : Name) (hk : classifyKey key ≠ .cache) :
    (dst.restoreFromBytes (Router.restore ttRecon (src.snapshot ttOk).2) order).get fp key = src.peek key ∧
    (dst.restoreFromBytes (Router.restore ttRecon (src.snapshot ttOk).2) order).exists fp key = (src.peek key).isSome := by
  obtain ⟨h1, h2⟩ := restore_into_filter_store_get fp dst _ order hnd hscan key hk
  rw [snapshot_restore_get_exact_short_dim ttOk ttRecon src h hd key] at h1 h2
  exact ⟨h1, h2⟩

/-- **keys the target held before** and that are not among the restored ones are absent for `get` and
    `exists` (as they are for `scan`), although the filter still holds them -/
theorem restore_into_filter_store_earlier_key_absent (fp : List Name → Name → Bool) (s : TStore) (new : Router)
    (order : List Name) (hnd : order.Nodup) (key : Name) (hk : classifyKey key ≠ .cache) (hm : key ∉ order) :
    (s.restoreFromBytes new order).get fp key = none ∧ (s.restoreFromBytes new order).exists fp key = false := by
  obtain ⟨h1, h2⟩ := restore_into_filter_store_reads fp s new order key
  rw [restore_from_bytes_get s.router new order hnd key hk] at h1
  rw [restore_from_bytes_exists s.router new order hnd key hk] at h2
  simp only [hm, if_false] at h1
  simp only [hm, decide_false, Bool.false_and] at h2
  exact ⟨h1, h2⟩

/-- the filter is monotone through a restore: what it held stays, the restored keys that `get` finds are
    added, nothing else -/
theorem restore_filter_content (s : TStore) (new : Router) (order : List Name) (a : List Name) (ha : s.filter = some a) :
    ∃ a', (s.restoreFromBytes new order).filter = some a' ∧
      ∀ key, key ∈ a' ↔ (key ∈ a ∨ (key ∈ order ∧ (new.peek key).isSome)) :=
  fold_restoreStep_filter_mem new order s.restoreStart a ha

/-- a store without a filter stays without one -/
theorem restore_without_filter (tell : Bool) (s : TStore) (new : Router) (order : List Name) (h : s.filter = none) :
    (TStore.restoreWith tell s new order).filter = none := by
  unfold TStore.restoreWith
  have : ∀ (t : TStore), t.filter = none → (order.foldl (TStore.restoreStep tell new) t).filter = none := by
    induction order with
    | nil => intro t ht; exact ht
    | cons k ks ih =>
      intro t ht
      simp only [List.foldl_cons]
      apply ih
      cases hp : new.peek k with
      | none => rw [restoreStep_none tell new t k hp]; exact ht
      | some v =>
        rw [restoreStep_some tell new t k v hp]
        cases tell <;> simp [TStore.tell, ht]
  exact this _ h

example :
    let src := ((Router.new ⟨4, 2, 3, 64⟩).put "user:restored".toList [("n".toList, .scalar (.int 7))] 0).put
      "emb:a".toList [(EMB_FIELD, .vector [1, 2, 3, 4])] 0
    let dst := ((TStore.new ⟨4, 2, 3, 64⟩ true).put "user:old".toList [] 0).put "user:restored".toList [] 0
    let fp : List Name → Name → Bool := fun _ _ => false
    let d := dst.restoreFromBytes src (src.scan [])
    d.get fp "user:restored".toList = some [("n".toList, .scalar (.int 7))] ∧ d.exists fp "emb:a".toList = true ∧
    d.get fp "emb:a".toList = some [(EMB_FIELD, .vector [1, 2, 3, 4])] ∧
    d.get fp "user:old".toList = none ∧ d.exists fp "user:old".toList = false ∧
    d.filter = some ["emb:a".toList, "user:restored".toList, "user:restored".toList, "user:old".toList] := by
  decide

/-- the hypotheses of `restore_into_filter_store_equals_saved` on a concrete saved store (through the v3
    snapshot form) and a target with a filter that held another key -/
example :
    let cfg : RouterCfg := ⟨4, 2, 3, 64⟩
    let src := ((Router.new cfg).put "emb:a".toList [(EMB_FIELD, .vector [1, 2, 3, 4])] 0).put "user:1".toList [] 0
    let new := Router.restore id (src.snapshot (fun _ => true)).2
    let d := ((TStore.new cfg true).put "user:old".toList [] 0).restoreFromBytes new (new.scan [])
    (new.scan []).Nodup ∧ src.emb.dim < TT_MIN_DIMENSION ∧
    d.get (fun _ _ => false) "emb:a".toList = src.peek "emb:a".toList ∧
    d.exists (fun _ _ => false) "user:1".toList = true ∧ d.exists (fun _ _ => false) "user:old".toList = false := by
  decide

/-! ## the code before cb3c5db0: the loop never told the filter -/

/-- what the old loop did keep: the router (hence `scan`, and every read of a store WITHOUT a filter) -/
theorem restore_old_router_same (s : TStore) (new : Router) (order : List Name) :
    (s.restoreFromBytesOld new order).router = (s.restoreFromBytes new order).router := by
  rw [TStore.restoreFromBytesOld, TStore.restoreFromBytes, restoreWith_router, restoreWith_router]

/-- … and it left the filter exactly as it was -/
theorem restore_old_filter_unchanged (s : TStore) (new : Router) (order : List Name) :
    (s.restoreFromBytesOld new order).filter = s.filter :=
  fold_restoreStep_false_filter new order s.restoreStart

/-- **regression input of cb3c5db0**: `src = TensorStore::new(); src.put("user:restored", v);
    dst = TensorStore::with_bloom_filter(..); dst.restore_from_bytes(&src.snapshot_bytes()?)` — with the
    old loop (and a filter without false positives) `scan` lists `user:restored` while `get` is
    `NotFound` and `exists` is `false`; the same on a target that held another key, whose own earlier
    key is the only one the filter knows; the loop as it is now answers like the saved store -/
theorem restore_not_telling_filter_witness :
    let cfg : RouterCfg := ⟨4, 2, 3, 64⟩
    let key := "user:restored".toList
    let src := (Router.new cfg).put key [("n".toList, .scalar (.int 7))] 0
    let fp : List Name → Name → Bool := fun _ _ => false
    let old := (TStore.new cfg true).restoreFromBytesOld src (src.scan [])
    let old2 := ((TStore.new cfg true).put "user:old".toList [] 0).restoreFromBytesOld src (src.scan [])
    let now := (TStore.new cfg true).restoreFromBytes src (src.scan [])
    src.peek key = some [("n".toList, .scalar (.int 7))] ∧
    old.scan [] = [key] ∧ old.get fp key = none ∧ old.exists fp key = false ∧ old.router.exists key = true ∧
    old2.scan [] = [key] ∧ old2.get fp key = none ∧ old2.exists fp key = false ∧ old2.filter = some ["user:old".toList] ∧
    now.scan [] = [key] ∧ now.get fp key = src.peek key ∧ now.exists fp key = true := by
  decide

/-- the old loop was only saved by a false positive: with a filter that answers "maybe" for everything
    the restored key is readable again — the defect depended on the filter's bit array -/
theorem restore_not_telling_filter_false_positive_witness :
    let cfg : RouterCfg := ⟨4, 2, 3, 64⟩
    let key := "user:restored".toList
    let src := (Router.new cfg).put key [] 0
    let old := (TStore.new cfg true).restoreFromBytesOld src (src.scan [])
    old.get (fun _ _ => true) key = some [] ∧ old.get (fun _ _ => false) key = none := by
  decide

/-! ## loaders that build a filter: `load_snapshot_with_bloom_filter`, `recover_with_bloom` -/

/-- **a filter rebuilt from `scan("")`** denies nothing the loaded router holds: for every router, every
    order of the scan, every `fp` and every key of every class, `get` / `exists` are the router's -/
theorem load_with_bloom_reads (fp : List Name → Name → Bool) (r : Router) (order : List Name)
    (hscan : ∀ k, k ∈ r.scan [] → k ∈ order) (key : Name) :
    (TStore.loadWithBloom r order).get fp key = r.peek key ∧ (TStore.loadWithBloom r order).exists fp key = r.exists key :=
  covers_transparent fp _ (covers_loadWithBloom r order hscan) key

/-- composed with the v3 restore: the store `load_snapshot_with_bloom_filter` returns reads like the saved
    one (embedding dimension below the tensor-train threshold; every key class) -/
theorem load_with_bloom_equals_saved (ttOk : List Nat → Bool) (ttRecon : List Nat → List Nat)
    (fp : List Name → Name → Bool) (src : Router) (h : src.WF) (hd : src.emb.dim < TT_MIN_DIMENSION) (order : List Name)
    (hscan : ∀ k, k ∈ (Router.restore ttRecon (src.snapshot ttOk).2).scan [] → k ∈ order) (key : Name) :
    (TStore.loadWithBloom (Router.restore ttRecon (src.snapshot ttOk).2) order).get fp key = src.peek key ∧
    (TStore.loadWithBloom (Router.restore ttRecon (src.snapshot ttOk).2) order).exists fp key = src.exists key := by
  obtain ⟨h1, h2⟩ := load_with_bloom_reads fp _ order hscan key
  exact ⟨h1.trans (snapshot_restore_get_exact_short_dim ttOk ttRecon src h hd key),
    h2.trans (snapshot_restore_exists ttOk ttRecon src h key)⟩

/-- a filter built from fewer keys than the scan lists is NOT enough (why the loaders add every key) -/
theorem load_with_partial_filter_witness :
    let r := (Router.new ⟨4, 2, 3, 64⟩).put "user:1".toList [] 0
    (TStore.loadWithBloom r []).get (fun _ _ => false) "user:1".toList = none ∧
    (TStore.loadWithBloom r (r.scan [])).get (fun _ _ => false) "user:1".toList = some [] := by
  decide

/-! ## every history: a store with a filter is a store without one -/

/-- a `get` of a key the router does not hold changes nothing (no cache entry to bump) -/
theorem touch_absent (r : Router) (key : Name) (h : r.exists key = false) : r.touch key = r := by
  unfold Router.touch
  cases hc : classifyKey key with
  | cache =>
    simp only
    unfold Router.exists at h
    rw [hc] at h
    simp only [Cache.contains] at h
    unfold Cache.touch
    cases hf : findSlot key r.cache.slots 0 with
    | none => rfl
    | some i => rw [hf] at h; simp at h
  | embedding => rfl
  | graph => rfl
  | table => rfl
  | metadata => rfl

/-- **All histories**: run the same sequence of put / delete / get / clear / restore_from_bytes (any decoded
    routers, any iteration orders) on a store whose filter covers its router (a new store with a filter,
    a store a filter-building loader returned, any store just restored) and on a store without a filter
    holding the same router: at the end — hence at every point — the routers are the same, and `get` /
    `exists` of every key answer the same, whatever the filter's false positives -/
theorem filter_store_equals_plain_store (fp fp' : List Name → Name → Bool) (ops : List TOp) (s p : TStore)
    (hr : s.router = p.router) (hs : s.Covers) (hp : p.filter = none) (key : Name) :
    (s.run fp ops).router = (p.run fp' ops).router ∧
    (s.run fp ops).get fp key = (p.run fp' ops).get fp' key ∧
    (s.run fp ops).exists fp key = (p.run fp' ops).exists fp' key := by
  have main : ∀ (ops : List TOp) (s p : TStore), s.router = p.router → s.Covers → p.filter = none →
      (s.run fp ops).router = (p.run fp' ops).router ∧ (s.run fp ops).Covers ∧ (p.run fp' ops).filter = none := by
    intro ops
    induction ops with
    | nil => intro s p hr hs hp; exact ⟨hr, hs, hp⟩
    | cons op ops ih =>
      intro s p hr hs hp
      have hstep : (s.apply fp op).router = (p.apply fp' op).router ∧ (p.apply fp' op).filter = none := by
        cases op with
        | put k v victim => exact ⟨by simp [TStore.apply, TStore.put, hr], by simp [TStore.apply, TStore.put, TStore.tell, hp]⟩
        | delete k => exact ⟨by simp [TStore.apply, TStore.delete, hr], by simp [TStore.apply, TStore.delete, hp]⟩
        | get k =>
          have hpp : p.passes fp' k = true := by simp [TStore.passes, hp]
          refine ⟨?_, by simp [TStore.apply, TStore.touch, hpp, hp]⟩
          simp only [TStore.apply, TStore.touch, hpp, if_true]
          by_cases hsp : s.passes fp k = true
          · simp only [hsp, if_true, hr]
          · simp only [hsp, Bool.false_eq_true, if_false]
            have hex : s.router.exists k = false := by
              have := (covers_transparent fp s hs k).2
              simp only [TStore.exists] at this
              rw [show s.passes fp k = false by simpa using hsp] at this
              simpa using this.symm
            rw [← hr, touch_absent s.router k hex]
        | clear => exact ⟨by simp [TStore.apply, TStore.clear, hr], by simp [TStore.apply, TStore.clear, hp]⟩
        | restore new order =>
          refine ⟨?_, restore_without_filter true p new order hp⟩
          simp only [TStore.apply, TStore.restoreFromBytes, restoreWith_router, hr]
      exact ih (s.apply fp op) (p.apply fp' op) hstep.1 (covers_apply fp s op hs) hstep.2
  obtain ⟨h1, h2, h3⟩ := main ops s p hr hs hp
  obtain ⟨g1, g2⟩ := covers_transparent fp _ h2 key
  refine ⟨h1, ?_, ?_⟩
  · rw [g1, h1]; simp [TStore.get, TStore.passes, h3]
  · rw [g2, h1]; simp [TStore.exists, TStore.passes, h3]

/-- from new stores: `TensorStore::with_bloom_filter(..)` (and its siblings) against `TensorStore::new()` -/
theorem filter_store_equals_plain_store_from_new (fp fp' : List Name → Name → Bool) (cfg : RouterCfg) (ops : List TOp) (key : Name) :
    ((TStore.new cfg true).run fp ops).get fp key = ((TStore.new cfg false).run fp' ops).get fp' key ∧
    ((TStore.new cfg true).run fp ops).exists fp key = ((TStore.new cfg false).run fp' ops).exists fp' key :=
  (filter_store_equals_plain_store fp fp' ops (TStore.new cfg true) (TStore.new cfg false) rfl (covers_new cfg true) rfl key).2

/-- from loaded stores: `load_snapshot_with_bloom_filter` against `load_snapshot` of the same file -/
theorem filter_store_equals_plain_store_from_load (fp fp' : List Name → Name → Bool) (r : Router) (order : List Name)
    (hscan : ∀ k, k ∈ r.scan [] → k ∈ order) (ops : List TOp) (key : Name) :
    ((TStore.loadWithBloom r order).run fp ops).get fp key = ((TStore.load r).run fp' ops).get fp' key ∧
    ((TStore.loadWithBloom r order).run fp ops).exists fp key = ((TStore.load r).run fp' ops).exists fp' key :=
  (filter_store_equals_plain_store fp fp' ops (TStore.loadWithBloom r order) (TStore.load r) rfl (covers_loadWithBloom r order hscan) rfl key).2

/-- with the old loop the two stores part at the first restore (same input as the witness above, as a history) -/
theorem filter_store_differs_with_old_restore_witness :
    let cfg : RouterCfg := ⟨4, 2, 3, 64⟩
    let key := "user:restored".toList
    let src := (Router.new cfg).put key [] 0
    let fp : List Name → Name → Bool := fun _ _ => false
    ((TStore.new cfg true).restoreFromBytesOld src (src.scan [])).get fp key = none ∧
    ((TStore.new cfg false).restoreFromBytesOld src (src.scan [])).get fp key = some [] ∧
    ((TStore.new cfg true).run fp [.restore src (src.scan [])]).get fp key = some [] := by
  decide

example :
    let cfg : RouterCfg := ⟨4, 2, 3, 64⟩
    let src := (Router.new cfg).put "emb:a".toList [(EMB_FIELD, .vector [1, 2, 3, 4])] 0
    let ops : List TOp := [.put "user:1".toList [] 0, .restore src (src.scan []), .delete "emb:a".toList, .get "emb:a".toList,
      .put "_cache:1".toList [] 0, .get "_cache:1".toList, .clear, .put "user:2".toList [] 0]
    let s := (TStore.new cfg true).run (fun _ _ => false) ops
    s.get (fun _ _ => false) "user:2".toList = some [] ∧ s.exists (fun _ _ => false) "user:1".toList = false ∧
    s.filter = some ["user:2".toList] := by
  decide

end Neumann.Snap.Props
