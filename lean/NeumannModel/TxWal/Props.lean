import NeumannModel.TxWal.Demo
import NeumannModel.TxWal.LemmasSync
import NeumannModel.TxWal.LemmasHandles
/-
  C13 — 2PC coordinator restart preserves every logged decision.
  ONLY the property theorems and their non-vacuity examples; helpers are in `Lemmas.lean`.

  A *run* is any list of `Step`s (lock / begin / vote / commit / abort / complete_commit /
  complete_abort / force_resolve / cleanup_timeouts / process_pending_aborts / recover_from_wal on
  the live coordinator / recover / get_pending_decisions / truncate_wal / crash) from a fresh coordinator over an
  empty file.  `crash n now cfg'` cuts the FILE (the bytes `fileOf crc ser log`) to its first `n`
  bytes — any `n` — discards all memory, reopens with the tail repair under configuration `cfg'`
  and runs `recover_from_wal`.  `Valid` only asks that `begin` uses a fresh id and that the records
  in the file at a crash are well-formed (`CodecOK`).
  Every WAL append may FAIL: the configuration carries the size limit of the file
  (`walCap`, `autoRotate = false` ⇒ `SizeLimitExceeded`), and each call reacts to the failed write as
  the code does (`?`, `Ok(None)`, or carry on).  With `autoRotate = true` the limit rotates the
  file instead; theorems that need the log to keep its records ask for `Cfg.NoRotate` at the start
  and `KeepsRecords` along the run: every restart configures a WAL that does not rotate, and
  `truncate_wal` is called only with no transaction pending.
  The lock-handle theorems are about *counter runs* (`CounterRun`): a `lock tx h` step is a
  `try_lock` of the lock manager, so `h` is the value of the process-wide counter, and a YES vote
  carries a handle the lock table holds for the voting transaction (or one above the high-water
  mark, which no lock manager hands out).  They need neither `Valid` nor `KeepsRecords`.
-/
namespace Neumann.TxWal.Props
open Neumann.TxWal Neumann.FramedLog Neumann.TxWal.Demo

variable (crc : List Nat → Nat) (ser : Entry → List Nat) (de : List Nat → Option Entry)

/-! ### a restart sees exactly the whole records before the cut -/

/-- **Crash at any byte.** Whatever byte the file is cut at, the restarted coordinator is the one
    obtained from the log of the records lying wholly before the cut: replay never fails, never
    yields a partial, altered or reordered record, and (tail repair) the file is again a
    well-formed log, so this statement applies again to the next crash. -/
theorem restart_sees_whole_records (cfg : Cfg) (L : List Entry) (n now : Nat)
    (h : CodecOK crc ser de L) :
    restartBytes crc de cfg ((fileOf crc ser L).take n) now
      = some (restartLog cfg (L.take (wholeWithin crc (L.map ser) n)) now)
    ∧ ((fileOf crc ser L).length ≤ n → wholeWithin crc (L.map ser) n = L.length) := by
  refine ⟨restartBytes_take crc ser de cfg L n now h, fun hn => ?_⟩
  have h1 := wholeWithin_ge crc (L.map ser) (L.map ser).length n (Nat.le_refl _)
    (by rw [List.take_length]; exact hn)
  have h2 := wholeWithin_le crc (L.map ser) n
  simp only [List.length_map] at h1 h2
  omega

/-- the byte-level crash step of a run is the log-prefix restart -/
theorem crash_is_prefix_restart (c : Coord) (n now : Nat) (cfg' : Cfg) (h : CodecOK crc ser de c.log) :
    (step crc ser de c (.crash n now cfg')).1
      = restartLog cfg' (c.log.take (wholeWithin crc (c.log.map ser) n)) now := by
  rw [step_crash_eq crc ser de c n now cfg' h]

example : CodecOK Crc32.crc32 toySer toyDe demoPre.log := by decide
example : (fileOf Crc32.crc32 toySer demoPre.log).length = 91 ∧ demoPre.log.length = 10 := by decide
-- checksums switched off (`enable_checksums = false`: the stored checksum is 0 and replay skips
-- the comparison) is the instance `crc := fun _ => 0` of every theorem of this file
example : CodecOK (fun _ => 0) toySer toyDe demoPre.log := by decide

/-! ### logged outcomes are final -/

/-- **A logged outcome is never reversed.**  In every state reachable by any valid run (any mix
    of operations, WAL writes failing or the file rotating at any point, any byte cuts, any number
    of restarts under any configurations): if a `TxComplete(id, o)` record is in the log then
    (1) it is the only outcome the log holds for `id`, (2) `id` is not pending, and (3) whatever
    is called next — commit, abort, complete_*, force_resolve, cleanup_timeouts, recover,
    recover_from_wal, another crash at any byte — reports nothing about `id` (no commit, no abort,
    no timeout) and leaves no other outcome for `id` in the log.  Since this holds in *every*
    reachable state, it holds after any number of further restarts and calls, for as long as the
    record itself lies inside the surviving prefix (a record cut away by a later crash was not
    durable). -/
theorem logged_outcome_never_reversed (cfg : Cfg) (steps : List Step)
    (hv : Valid crc ser de { cfg := cfg } steps) (id : Nat) (o : Outcome)
    (hlog : Entry.txComplete id o ∈ (run crc ser de { cfg := cfg } steps).log) :
    (∀ o', Entry.txComplete id o' ∈ (run crc ser de { cfg := cfg } steps).log → o' = o)
    ∧ mLookup id (run crc ser de { cfg := cfg } steps).pending = none
    ∧ ∀ s, StepOK crc ser de (run crc ser de { cfg := cfg } steps) s →
        (∀ ev ∈ events (run crc ser de { cfg := cfg } steps) s
                  (step crc ser de (run crc ser de { cfg := cfg } steps) s).2, ev.id ≠ id)
        ∧ (∀ o', Entry.txComplete id o' ∈ (step crc ser de (run crc ser de { cfg := cfg } steps) s).1.log → o' = o) := by
  have hi := Inv_run crc ser de _ steps (Inv_fresh cfg) hv
  generalize run crc ser de { cfg := cfg } steps = c at hi hlog
  refine ⟨fun o' h => hi.oneOutcome id o' o h hlog, ?_, ?_⟩
  · apply mLookup_none_of_not_mem
    intro hk; exact hi.pendingOpen id hk ⟨o, hlog⟩
  · intro s hs
    constructor
    · intro ev hev heq
      have := events_pending crc ser de c s ev hev
      rw [heq] at this
      exact hi.pendingOpen id this ⟨o, hlog⟩
    · intro o' h'
      by_cases hc : ∃ n now cfg', s = Step.crash n now cfg'
      · obtain ⟨n, now, cfg', rfl⟩ := hc
        rw [step_crash_eq crc ser de c n now cfg' hs] at h'
        have hl : (restartLog cfg' (c.log.take (wholeWithin crc (c.log.map ser) n)) now).log
            = c.log.take (wholeWithin crc (c.log.map ser) n) := rfl
        rw [hl] at h'
        exact hi.oneOutcome id o' o (List.mem_of_mem_take h') hlog
      · have hs' : ∀ n now cfg', s ≠ Step.crash n now cfg' := fun n now cfg' h => hc ⟨n, now, cfg', h⟩
        rcases step_complete_new crc ser de c s hs' id o' h' with h | h
        · exact hi.oneOutcome id o' o h hlog
        · exact absurd ⟨o, hlog⟩ (hi.pendingOpen id h)

/-- a logged record stays in the log under every call that is not a crash or `truncate_wal`,
    unless the size limit rotates the file -/
theorem logged_record_persists (c : Coord) (hn : c.cfg.NoRotate) (s : Step) (e : Entry)
    (hs : ∀ n now cfg', s ≠ Step.crash n now cfg') (ht : s ≠ Step.truncate) (he : e ∈ c.log) :
    e ∈ (step crc ser de c s).1.log := by
  obtain ⟨es, hes⟩ := step_log_grows crc ser de c hn s hs ht
  rw [hes]; exact List.mem_append_left _ he

-- non-vacuity: the demo run (with its crash inside the commit's records) is valid, the commit's
-- TxComplete record survives the cut at byte 68, and afterwards abort / commit / cleanup report
-- nothing about transaction 1
example : Entry.txComplete 1 .committed ∈ (run Crc32.crc32 toySer toyDe { cfg := demoCfg } demoSteps).log := by
  rw [demo_run]; decide
example : (step Crc32.crc32 toySer toyDe (restartLog demoCfg (demoPre.log.take 7) 200) (.abort 1)).2
    = Res.notFound := by decide
example : (step Crc32.crc32 toySer toyDe (restartLog demoCfg (demoPre.log.take 7) 200) (.forceResolve 1 false)).2
    = Res.notFound ∧ (step Crc32.crc32 toySer toyDe (restartLog demoCfg (demoPre.log.take 7) 200) (.recoverMem 99999)).2
    = Res.recStats 0 0 0 0 0 := by decide
-- the crash really tore records away: 10 records before, 7 after
example : demoPre.log.length = 10 ∧ (restartLog demoCfg (demoPre.log.take 7) 200).log.length = 7 := by decide
example : demoCfg.NoRotate := by decide

/-- **An answer and the log agree.**  As long as the size limit does not rotate the file:
    `commit` / `abort` answer ok only with the TxComplete record of that outcome in the log, and
    when they answer anything else (not found, wrong phase, a failed WAL write at either record)
    the log holds no outcome it did not hold before — the outcome is logged before it is
    acknowledged, and a write that failed acknowledges nothing. -/
theorem outcome_answer_matches_log (c : Coord) (hn : c.cfg.NoRotate) (id : Nat) :
    ((step crc ser de c (.commit id)).2 = Res.ok →
        Entry.txComplete id .committed ∈ (step crc ser de c (.commit id)).1.log)
    ∧ ((step crc ser de c (.commit id)).2 ≠ Res.ok → ∀ x o,
        Entry.txComplete x o ∈ (step crc ser de c (.commit id)).1.log → Entry.txComplete x o ∈ c.log)
    ∧ ((step crc ser de c (.abort id)).2 = Res.ok →
        Entry.txComplete id .aborted ∈ (step crc ser de c (.abort id)).1.log)
    ∧ ((step crc ser de c (.abort id)).2 ≠ Res.ok → ∀ x o,
        Entry.txComplete x o ∈ (step crc ser de c (.abort id)).1.log → Entry.txComplete x o ∈ c.log) :=
  ⟨(commit_answer_log _ c hn id).1, (commit_answer_log _ c hn id).2,
   (abort_answer_log _ c hn id).1, (abort_answer_log _ c hn id).2⟩

-- non-vacuity: on the 40-byte WAL that refuses to grow, the commit of the prepared transaction of
-- the demo (its PhaseChange does not fit) answers a WAL error
example : (step Crc32.crc32 toySer toyDe
    { (run Crc32.crc32 toySer toyDe { cfg := demoCfg } (demoSteps.take 6)) with cfg := demoFullCfg } (.commit 1)).2
    = Res.walErr := by decide

/-! ### locks -/

/-- **Completion releases the locks.**  When commit / abort / complete_commit / complete_abort /
    force_resolve succeeds for a transaction, or cleanup_timeouts times it out, every lock handle
    of a YES vote it holds in memory is gone from the lock table; `recover_from_wal` releases
    every orphaned handle it reports; and a restarted coordinator starts with an empty lock
    table. -/
theorem completed_locks_released (c : Coord) :
    (∀ s id tx, (s = Step.commit id ∨ s = Step.abort id ∨ s = Step.completeCommit id ∨ s = Step.completeAbort id
                  ∨ ∃ b, s = Step.forceResolve id b) →
        mLookup id c.pending = some tx → (step crc ser de c s).2 = Res.ok →
        ∀ h ∈ voteHandles tx.votes, ∀ t, (h, t) ∉ (step crc ser de c s).1.locks)
    ∧ (∀ now id tx, (id, tx) ∈ c.pending → tx.timedOut now = true →
        ∀ h ∈ voteHandles tx.votes, ∀ t, (h, t) ∉ (cleanupTimeouts c now).1.locks)
    ∧ (∀ now p, p ∈ (fromEntries c.log).orphaned → ∀ t, (p.2, t) ∉ (recoverFromWal c now).1.locks)
    ∧ (∀ n now cfg', CodecOK crc ser de c.log → (step crc ser de c (.crash n now cfg')).1.locks = []) := by
  refine ⟨?_, ?_, ?_, ?_⟩
  · intro s id tx hs hl hok h hh t hmem
    rw [step_ok_locks crc ser de c s id tx hs hl hok] at hmem
    exact ((mem_releaseAll _ _ _).mp hmem).2 hh
  · intro now id tx hp hto h hh t hmem
    simp only [cleanupTimeouts] at hmem
    have := ((mem_releaseAll _ _ _).mp hmem).2
    apply this
    simp only [List.mem_flatMap, List.mem_filter]
    exact ⟨(id, tx), ⟨hp, hto⟩, hh⟩
  · intro now p hp t hmem
    simp only [recoverFromWal] at hmem
    have := ((mem_releaseAll _ _ _).mp hmem).2
    apply this
    simp only [List.mem_map]
    exact ⟨p, hp, rfl⟩
  · intro n now cfg' h
    rw [step_crash_eq crc ser de c n now cfg' h]
    simp [restartLog, recoverFromWal, releaseAll]
    generalize ((fromEntries _).orphaned.map _) = hs
    induction hs with
    | nil => rfl
    | cons a hs ih => simpa [release] using ih

-- non-vacuity: before the commit of the demo run the table holds both handles, after it none
example : (run Crc32.crc32 toySer toyDe { cfg := demoCfg } (demoSteps.take 6)).locks = [(8, 1), (7, 1)]
    ∧ demoPre.locks = [] := by decide

/-! ### memory never runs ahead of the log -/

/-- **Log before state change.**  In every state reachable by any valid run — WAL writes may fail
    at any record of any call, the file may be cut at any byte, any number of restarts — whose
    configurations never rotate the file: every pending transaction is in progress in the scan of
    the log with the same participants, and what memory claims is already logged:
    Preparing in memory ⇒ Preparing in the log; Prepared in memory ⇒ Prepared in the log;
    Committing in memory ⇒ Prepared or Committing in the log (`recover()` moves Prepared to
    Committing without writing); and while the transaction is Preparing in memory, or Prepared /
    Committing in the log, the log's votes are exactly the votes memory holds (as `record_vote`
    writes them: shard ↦ YES(handle) / NO).  A transaction in a final phase is never pending. -/
theorem memory_never_ahead_of_log (cfg : Cfg) (steps : List Step) (hcfg : cfg.NoRotate)
    (hv : Valid crc ser de { cfg := cfg } steps) (hnr : KeepsRecords crc ser de { cfg := cfg } steps) (x : Nat) (tx : Tx)
    (hm : (x, tx) ∈ (run crc ser de { cfg := cfg } steps).pending) :
    ∃ ip, (x, ip) ∈ (scan (run crc ser de { cfg := cfg } steps).log).inProgress
      ∧ ip.parts = tx.parts
      ∧ (tx.phase = .preparing → ip.phase = .preparing)
      ∧ (tx.phase = .prepared → ip.phase = .prepared)
      ∧ (tx.phase = .committing → ip.phase = .prepared ∨ ip.phase = .committing)
      ∧ (tx.phase = .preparing ∨ ip.phase = .prepared ∨ ip.phase = .committing →
          ∀ s, mLookup s ip.votes = (mLookup s tx.votes).map Vote.kind)
      ∧ tx.phase ≠ .committed ∧ tx.phase ≠ .aborted := by
  have hg := Good_run crc ser de _ [] steps (Good_fresh cfg hcfg) hv hnr
  obtain ⟨ip, hip, hs⟩ := hg.sync x tx hm
  exact ⟨ip, (ipOf_iff_mem _ _ _).mp hip, hs⟩

-- non-vacuity: the demo run up to the second YES vote is valid, never rotates, and holds
-- transaction 1 as Prepared in memory
example : Valid Crc32.crc32 toySer toyDe { cfg := demoCfg } (demoSteps.take 6)
    ∧ KeepsRecords Crc32.crc32 toySer toyDe { cfg := demoCfg } (demoSteps.take 6)
    ∧ (mLookup 1 (run Crc32.crc32 toySer toyDe { cfg := demoCfg } (demoSteps.take 6)).pending).map (·.phase)
        = some .prepared := by decide
-- ... and on the 40-byte WAL that refuses to grow the same calls are a valid run in which the
-- PhaseChange -> Prepared cannot be written: `record_vote` answers Ok(None), memory holds both votes
-- and stays Preparing, the log holds the four records that fitted
example : Valid Crc32.crc32 toySer toyDe { cfg := demoFullCfg } (demoSteps.take 6) ∧ demoFullCfg.NoRotate
    ∧ KeepsRecords Crc32.crc32 toySer toyDe { cfg := demoFullCfg } (demoSteps.take 6)
    ∧ (step Crc32.crc32 toySer toyDe (run Crc32.crc32 toySer toyDe { cfg := demoFullCfg } (demoSteps.take 5))
        (.vote 1 1 (.yes 8) false)).2 = Res.phase none
    ∧ (mLookup 1 (run Crc32.crc32 toySer toyDe { cfg := demoFullCfg } (demoSteps.take 6)).pending).map
        (fun t => (t.phase, t.votes.length)) = some (.preparing, 2)
    ∧ (run Crc32.crc32 toySer toyDe { cfg := demoFullCfg } (demoSteps.take 6)).log.length = 4 := by decide

/-! ### what comes back after a restart -/

/-- **Prepared transactions come back with the votes the coordinator had accepted.**  Take any
    valid run (failing WAL writes, cuts and restarts included; no rotation), cut the file at any
    byte and restart under any configuration.  Every transaction the surviving records show as
    `Prepared` (all votes collected, no outcome) is pending again in phase `Prepared`, restored
    from exactly what the scan kept — and that is one of the acknowledgements `record_vote` gave
    during the run (`acks`: the transaction as memory held it when the call answered
    `Ok(Some(Prepared))`): same participants, the same vote for every shard, every participant
    voted and every vote YES.  The scan keeps at most one vote per shard, so `restore_tx` never
    overwrites a vote (what the pre-fix scan violated, see `rejected_vote_overwrites_witness`),
    and the restored transaction is again all-YES. -/
theorem prepared_come_back_with_votes (cfg : Cfg) (steps : List Step) (hcfg : cfg.NoRotate)
    (hv : Valid crc ser de { cfg := cfg } steps) (hnr : KeepsRecords crc ser de { cfg := cfg } steps) (n now : Nat) (cfg' : Cfg)
    (h : CodecOK crc ser de (run crc ser de { cfg := cfg } steps).log) (x : Nat) (ip : InProg)
    (hm : (x, ip) ∈ (scan ((run crc ser de { cfg := cfg } steps).log.take
            (wholeWithin crc ((run crc ser de { cfg := cfg } steps).log.map ser) n))).inProgress)
    (hp : ip.phase = .prepared) :
    mLookup x (step crc ser de (run crc ser de { cfg := cfg } steps) (.crash n now cfg')).1.pending
        = some (restoreTx ⟨x, ip.parts, ip.votes⟩ .prepared now)
    ∧ (∃ tx, (x, tx) ∈ acks crc ser de { cfg := cfg } steps ∧ ip.parts = tx.parts
          ∧ (∀ s, mLookup s ip.votes = (mLookup s tx.votes).map Vote.kind)
          ∧ tx.allVoted = true ∧ tx.allYes = true)
    ∧ (mKeys ip.votes).Nodup
    ∧ (restoreTx ⟨x, ip.parts, ip.votes⟩ .prepared now).allYes = true := by
  have hg := Good_run crc ser de _ [] steps (Good_fresh cfg hcfg) hv hnr
  generalize run crc ser de { cfg := cfg } steps = c at hg h hm
  rw [step_crash_eq crc ser de c n now cfg' h]
  have hnd := scan_votes_one_per_shard _ x ip hm
  obtain ⟨tx, h1, h2, h3, h4, h5⟩ :=
    hg.ph (wholeWithin crc (c.log.map ser) n) x ip ((ipOf_iff_mem _ _ _).mpr hm) hp
  refine ⟨restart_prepared cfg' _ now x ip hm hp, ⟨tx, by simpa using h1, h2, h3, h4, h5⟩, hnd, ?_⟩
  exact restoreTx_allYes x ip .prepared now (votes_yes_of_ack ip.votes tx h3 hnd h5)

/-- **... and can be driven to completion.**  A restored Prepared transaction can be committed
    or aborted: with a WAL that accepts the records, `commit` succeeds and logs
    `TxComplete(Committed)`, and `abort` succeeds and logs `TxComplete(Aborted)`. -/
theorem recovered_prepared_can_be_completed (c : Coord) (n now : Nat) (cfg' : Cfg)
    (h : CodecOK crc ser de c.log) (hcap : cfg'.walCap = none) (x : Nat) (ip : InProg)
    (hm : (x, ip) ∈ (scan (c.log.take (wholeWithin crc (c.log.map ser) n))).inProgress)
    (hp : ip.phase = .prepared) :
    (step crc ser de (step crc ser de c (.crash n now cfg')).1 (.commit x)).2 = Res.ok
    ∧ Entry.txComplete x .committed ∈ (step crc ser de (step crc ser de c (.crash n now cfg')).1 (.commit x)).1.log
    ∧ (step crc ser de (step crc ser de c (.crash n now cfg')).1 (.abort x)).2 = Res.ok
    ∧ Entry.txComplete x .aborted ∈ (step crc ser de (step crc ser de c (.crash n now cfg')).1 (.abort x)).1.log := by
  rw [step_crash_eq crc ser de c n now cfg' h]
  have hl := restart_prepared cfg' _ now x ip hm hp
  have hc : (restartLog cfg' (c.log.take (wholeWithin crc (c.log.map ser) n)) now).cfg.walCap = none := hcap
  have h1 := commit_noCap (recSize ser) _ hc x _ hl rfl
  have h2 := abort_noCap (recSize ser) _ hc x _ hl
  exact ⟨h1.1, h1.2, h2.1, h2.2⟩

/-- **`recover()` decides a restored Prepared transaction by its votes.**  After the restart of
    the previous theorem, `recover()` called before the restored transaction's 5000 ms timeout
    moves it to Committing (its votes are the acknowledged all-YES votes); it is then listed by
    `get_pending_decisions()` as a commit — and not as an abort — and `complete_commit` finishes
    it. -/
theorem recovered_prepared_is_driven_to_commit (cfg : Cfg) (steps : List Step) (hcfg : cfg.NoRotate)
    (hv : Valid crc ser de { cfg := cfg } steps) (hnr : KeepsRecords crc ser de { cfg := cfg } steps) (n now : Nat) (cfg' : Cfg)
    (h : CodecOK crc ser de (run crc ser de { cfg := cfg } steps).log) (x : Nat) (ip : InProg)
    (hm : (x, ip) ∈ (scan ((run crc ser de { cfg := cfg } steps).log.take
            (wholeWithin crc ((run crc ser de { cfg := cfg } steps).log.map ser) n))).inProgress)
    (hp : ip.phase = .prepared) (now' : Nat) (hto : now' - now ≤ 5000) :
    mLookup x (recoverMem (step crc ser de (run crc ser de { cfg := cfg } steps) (.crash n now cfg')).1 now').1.pending
        = some { restoreTx ⟨x, ip.parts, ip.votes⟩ .prepared now with phase := .committing }
    ∧ (x, Phase.committing) ∈ pendingDecisions
        (recoverMem (step crc ser de (run crc ser de { cfg := cfg } steps) (.crash n now cfg')).1 now').1
    ∧ (x, Phase.aborting) ∉ pendingDecisions
        (recoverMem (step crc ser de (run crc ser de { cfg := cfg } steps) (.crash n now cfg')).1 now').1
    ∧ (completeCommit
        (recoverMem (step crc ser de (run crc ser de { cfg := cfg } steps) (.crash n now cfg')).1 now').1 x).2 = Res.ok := by
  obtain ⟨hl, _, _, hy⟩ := prepared_come_back_with_votes crc ser de cfg steps hcfg hv hnr n now cfg' h x ip hm hp
  have hg := Good_run crc ser de _ [] steps (Good_fresh cfg hcfg) hv hnr
  have hpn := PN_step crc ser de _ (.crash n now cfg') hg.pn
  generalize (step crc ser de (run crc ser de { cfg := cfg } steps) (.crash n now cfg')).1 = c1 at hl hpn
  have hnto : (restoreTx ⟨x, ip.parts, ip.votes⟩ .prepared now).timedOut now' = false := by
    simp only [Tx.timedOut, restoreTx]; exact decide_eq_false (by omega)
  obtain ⟨h1, h2, h3⟩ := recoverMem_commits c1 hpn x _ now' hl rfl hy hnto
  refine ⟨h1, h2, ?_, h3⟩
  intro hmem
  simp only [pendingDecisions, List.mem_map, List.mem_filter] at hmem
  obtain ⟨q, ⟨hq, _⟩, he⟩ := hmem
  have hpn' : PN (recoverMem c1 now').1 := by
    have := PN_step (fun _ => 0) (fun _ => []) (fun _ => none) c1 (.recoverMem now') hpn
    simpa [step] using this
  obtain ⟨qx, qt⟩ := q
  simp only [Prod.mk.injEq] at he
  obtain ⟨rfl, hph⟩ := he
  have := mem_unique_of_nodup _ hpn' qx qt _ hq (mLookup_some_mem _ _ _ h1)
  rw [this] at hph
  cases hph

/-- **What memory holds as Prepared is durable.**  In any reachable state of a valid run (failing
    writes included, no rotation), a transaction that is Prepared in memory survives the loss of
    the process: restart on the whole file brings it back Prepared with the same participants and,
    shard by shard, the votes memory held (a Conflict vote comes back as NO, as logged). -/
theorem prepared_in_memory_is_durable (cfg : Cfg) (steps : List Step) (hcfg : cfg.NoRotate)
    (hv : Valid crc ser de { cfg := cfg } steps) (hnr : KeepsRecords crc ser de { cfg := cfg } steps) (n now : Nat) (cfg' : Cfg)
    (h : CodecOK crc ser de (run crc ser de { cfg := cfg } steps).log)
    (hn : (fileOf crc ser (run crc ser de { cfg := cfg } steps).log).length ≤ n) (x : Nat) (tx : Tx)
    (hm : (x, tx) ∈ (run crc ser de { cfg := cfg } steps).pending) (hp : tx.phase = .prepared) :
    ∃ t', mLookup x (step crc ser de (run crc ser de { cfg := cfg } steps) (.crash n now cfg')).1.pending = some t'
      ∧ t'.parts = tx.parts ∧ t'.phase = .prepared
      ∧ ∀ s, mLookup s t'.votes = (mLookup s tx.votes).map (fun v => v.kind.restore) := by
  obtain ⟨ip, hip, h0, _, h2, _, h4, _, _⟩ := memory_never_ahead_of_log crc ser de cfg steps hcfg hv hnr x tx hm
  have hw := (restart_sees_whole_records crc ser de cfg' _ n now h).2 hn
  rw [step_crash_eq crc ser de _ n now cfg' h, hw, List.take_length]
  refine ⟨_, restart_prepared cfg' _ now x ip hip (h2 hp), h0, rfl, ?_⟩
  intro s
  simp only [restoreTx]
  rw [lookup_restore ip.votes (scan_votes_one_per_shard _ x ip hip) s, h4 (Or.inr (Or.inl (h2 hp))) s]
  cases mLookup s tx.votes <;> rfl

/-- **Transactions still collecting votes are forgotten, without locks.**  After a crash at any
    byte and restart: (1) everything pending was classified by the scan of the surviving log as
    Prepared / Committing / Aborting and is restored faithfully from it — nothing in phase
    Preparing comes back; (2) a transaction for which no PhaseChange record survived (it was still
    collecting votes, or had only reached an unlogged in-memory abort) is not pending, and
    commit / abort on it answer `not found`; (3) the lock table of the new process is empty. -/
theorem preparing_forgotten_without_locks (c : Coord) (n now : Nat) (cfg' : Cfg) (h : CodecOK crc ser de c.log) :
    (∀ x tx, mLookup x (step crc ser de c (.crash n now cfg')).1.pending = some tx →
        (tx.phase = .prepared ∨ tx.phase = .committing ∨ tx.phase = .aborting)
        ∧ ∃ ip, (x, ip) ∈ (scan (c.log.take (wholeWithin crc (c.log.map ser) n))).inProgress
              ∧ tx = restoreTx ⟨x, ip.parts, ip.votes⟩ ip.phase now)
    ∧ (∀ x, (∀ f t, Entry.phaseChange x f t ∉ c.log.take (wholeWithin crc (c.log.map ser) n)) →
        mLookup x (step crc ser de c (.crash n now cfg')).1.pending = none
        ∧ (step crc ser de (step crc ser de c (.crash n now cfg')).1 (.commit x)).2 = Res.notFound
        ∧ (step crc ser de (step crc ser de c (.crash n now cfg')).1 (.abort x)).2 = Res.notFound)
    ∧ (step crc ser de c (.crash n now cfg')).1.locks = [] := by
  have hlocks := (completed_locks_released crc ser de c).2.2.2 n now cfg' h
  rw [step_crash_eq crc ser de c n now cfg' h] at hlocks ⊢
  refine ⟨?_, ?_, hlocks⟩
  · intro x tx hl
    obtain ⟨ip, hm, hph, rfl⟩ := restart_pending _ _ _ _ _ hl
    exact ⟨by simpa [restoreTx] using hph, ip, hm, rfl⟩
  · intro x hno
    have hnone : mLookup x (restartLog cfg' (c.log.take (wholeWithin crc (c.log.map ser) n)) now).pending = none := by
      cases hl : mLookup x (restartLog cfg' (c.log.take (wholeWithin crc (c.log.map ser) n)) now).pending with
      | none => rfl
      | some tx =>
        obtain ⟨ip, hm, hph, _⟩ := restart_pending _ _ _ _ _ hl
        have hne : ip.phase ≠ .preparing := by
          rcases hph with h | h | h <;> (rw [h]; decide)
        obtain ⟨f, t, hft⟩ := scan_phase_logged _ x ip hm hne
        exact absurd hft (hno f t)
    exact ⟨hnone, by simp [step, commit, hnone], by simp [step, abort, hnone]⟩

/-- **Transactions cut down in the middle of a decision come back as pending decisions.**  After a
    crash at any byte and restart, a transaction whose last surviving PhaseChange says Committing
    (the crash fell between the two records of `commit`, or the TxComplete write failed) or
    Aborting is pending again in that phase with the scan's participants and votes, is listed by
    `get_pending_decisions()` with that phase, and `complete_commit` / `complete_abort` finishes
    it. -/
theorem deciding_come_back (c : Coord) (n now : Nat) (cfg' : Cfg) (h : CodecOK crc ser de c.log)
    (x : Nat) (ip : InProg)
    (hm : (x, ip) ∈ (scan (c.log.take (wholeWithin crc (c.log.map ser) n))).inProgress)
    (hp : ip.phase = .committing ∨ ip.phase = .aborting) :
    mLookup x (step crc ser de c (.crash n now cfg')).1.pending
        = some (restoreTx ⟨x, ip.parts, ip.votes⟩ ip.phase now)
    ∧ (x, ip.phase) ∈ pendingDecisions (step crc ser de c (.crash n now cfg')).1
    ∧ (ip.phase = .committing → (completeCommit (step crc ser de c (.crash n now cfg')).1 x).2 = Res.ok)
    ∧ (ip.phase = .aborting → (completeAbort (step crc ser de c (.crash n now cfg')).1 x).2 = Res.ok) := by
  rw [step_crash_eq crc ser de c n now cfg' h]
  have hl := restart_phase cfg' _ now x ip hm (Or.inr hp)
  refine ⟨hl, ?_, ?_, ?_⟩
  · simp only [pendingDecisions, List.mem_map, List.mem_filter]
    refine ⟨(x, restoreTx ⟨x, ip.parts, ip.votes⟩ ip.phase now), ⟨mLookup_some_mem _ _ _ hl, ?_⟩, rfl⟩
    simp only [restoreTx]; exact decide_eq_true hp
  · intro hph; simp [completeCommit, hl, restoreTx, hph]
  · intro hph; simp [completeAbort, hl, restoreTx, hph]

-- non-vacuity: cut the demo file between the two records of the commit (byte 54..67): the
-- PhaseChange -> Committing survived, the TxComplete did not
example : (1, (⟨[0, 1], [(0, .yes 7), (1, .yes 8)], .committing⟩ : InProg))
    ∈ (scan (demoPre.log.take (wholeWithin Crc32.crc32 (demoPre.log.map toySer) 60))).inProgress := by decide

-- non-vacuity: cut the demo file after the PhaseChange->Prepared record (byte 45..53): transaction
-- 1 is Prepared in the surviving log and comes back with both YES votes; cut it before that record
-- (byte 40): no PhaseChange survives and the transaction is forgotten
example : (1, (⟨[0, 1], [(0, .yes 7), (1, .yes 8)], .prepared⟩ : InProg))
    ∈ (scan (demoPre.log.take (wholeWithin Crc32.crc32 (demoPre.log.map toySer) 50))).inProgress := by decide
example : ∀ f t, Entry.phaseChange 1 f t ∉ demoPre.log.take (wholeWithin Crc32.crc32 (demoPre.log.map toySer) 40) := by
  intro f t; cases f <;> cases t <;> decide
-- the run that leads to `demoPre` is valid and never rotates; its one acknowledgement is
-- transaction 1 with the two accepted YES votes (the refused duplicate NO of shard 0 is not in it)
example : Valid Crc32.crc32 toySer toyDe { cfg := demoCfg } (demoSteps.take 7)
    ∧ KeepsRecords Crc32.crc32 toySer toyDe { cfg := demoCfg } (demoSteps.take 7)
    ∧ (acks Crc32.crc32 toySer toyDe { cfg := demoCfg } (demoSteps.take 7)).map (fun p => (p.1, p.2.votes))
        = [(1, [(1, Vote.yes 8), (0, Vote.yes 7)])] := by decide
example : demoCfg.walCap = none := rfl

/-! ### rotation and truncation: outside `KeepsRecords` -/

/-- **Size-limit rotation drops in-flight transactions from recovery.**  With `auto_rotate` (the
    default) the append that exceeds `max_size_bytes` renames the current file away and starts a
    fresh one; `replay` reads only the current file.  On the 40-byte demo WAL the PhaseChange ->
    Prepared of transaction 1 rotates the file: memory holds the transaction as Prepared (and
    `record_vote` answered Prepared), the file holds that single record, and a restart on the
    whole file has forgotten the transaction.  (Known finding
    `tensor_chain.tx_wal.rotate/in_flight_transactions_dropped`: the harness reproduces it on the
    real coordinator with a small `max_size_bytes` on every run.) -/
theorem rotation_forgets_prepared_witness :
    let c := run Crc32.crc32 toySer toyDe { cfg := demoRotCfg } (demoSteps.take 6)
    (mLookup 1 c.pending).map (·.phase) = some .prepared
    ∧ c.log = [Entry.phaseChange 1 .preparing .prepared]
    ∧ mLookup 1 (restartLog demoRotCfg c.log 200).pending = none
    ∧ ¬ demoRotCfg.NoRotate := by
  decide

/-- **`truncate_wal` with a transaction pending forgets it.**  `truncate_wal()` replaces the file by
    an empty one whatever is pending (`KeepsRecords` asks for `pending = []` at that point).  After
    the demo's transaction 1 became Prepared, a truncation leaves it Prepared in memory and a
    restart on the (empty) file has forgotten it.  (Known finding
    `tensor_chain.distributed_tx.truncate_wal/in_flight_transactions_dropped`, reproduced by the
    harness on the real coordinator on every run.) -/
theorem truncate_forgets_prepared_witness :
    let c := run Crc32.crc32 toySer toyDe { cfg := demoCfg } (demoSteps.take 6 ++ [.truncate])
    (mLookup 1 c.pending).map (·.phase) = some .prepared
    ∧ c.log = []
    ∧ mLookup 1 (restartLog demoCfg c.log 200).pending = none
    ∧ Valid Crc32.crc32 toySer toyDe { cfg := demoCfg } (demoSteps.take 6 ++ [.truncate])
    ∧ ¬ KeepsRecords Crc32.crc32 toySer toyDe { cfg := demoCfg } (demoSteps.take 6 ++ [.truncate]) := by
  decide

/-! ### lock handles across a restart -/

/-- **Recovery moves the handle counter past everything it restores** (0358827a).  For every
    coordinator state and every log: after `recover_from_wal` the counter of the process is not
    below where it was, and it is above every lock handle (below the high-water mark, i.e. every
    handle a lock manager can have handed out) that the recovery carries — the YES votes of every
    transaction the scan classifies as Prepared / Committing / Aborting, which are the handles of
    the transactions it restores, and every orphaned lock. -/
theorem recovery_moves_counter_past_restored_handles (c : Coord) (now : Nat) :
    c.nextHandle ≤ (recoverFromWal c now).1.nextHandle
    ∧ (∀ x ip, (x, ip) ∈ (scan c.log).inProgress →
        ip.phase = .prepared ∨ ip.phase = .committing ∨ ip.phase = .aborting →
        ∀ h ∈ yesHandles ip.votes, h < highWater → h < (recoverFromWal c now).1.nextHandle)
    ∧ (∀ p ∈ (fromEntries c.log).orphaned, p.2 < highWater → p.2 < (recoverFromWal c now).1.nextHandle)
    ∧ (∀ x tx, (x, tx) ∈ (recoverFromWal c now).1.pending → (x, tx) ∉ c.pending →
        ∀ h ∈ voteHandles tx.votes, h < highWater → h < (recoverFromWal c now).1.nextHandle) := by
  refine ⟨recover_counter_ge c now, ?_, fun p hp hw => recover_counter_past_orphans c now p hp hw, ?_⟩
  · intro x ip hm hd h hh hw
    exact recover_counter_past_decided c now x ip ((ipOf_iff_mem _ _ _).mpr hm) hd h hh hw
  · intro x tx hm hn h hh hw
    rcases recover_pending c now x tx hm with hm' | ⟨ip, hip, hd, hsub⟩
    · exact absurd hm' hn
    · exact recover_counter_past_decided c now x ip hip hd h (hsub h hh) hw

-- non-vacuity: a new process (counter at 1) on the demo log cut after the PhaseChange -> Prepared
-- restores transaction 1 with handles 7 and 8 and moves its counter to 9; a handle above the
-- high-water mark (one no lock manager hands out) does not move it
example : (restartLog demoCfg (demoPre.log.take 5) 200).nextHandle = 9
    ∧ (mLookup 1 (restartLog demoCfg (demoPre.log.take 5) 200).pending).map (fun t => voteHandles t.votes)
        = some [8, 7] := by decide
example : (restartLog demoCfg [.txBegin 1 [0], .prepareVote 1 0 (.yes (highWater + 5)),
    .phaseChange 1 .preparing .prepared] 200).nextHandle = 1 := by decide
example : highWater = 16602069666338596449 := by decide
-- an aborted transaction leaves its lock orphaned in the log (`abort` writes no LockRelease
-- records): the restarted process starts handing out handles after it
example : (fromEntries [.txBegin 1 [0], .prepareVote 1 0 (.yes 1), .phaseChange 1 .preparing .prepared,
      .phaseChange 1 .prepared .aborting, .txComplete 1 .aborted]).orphaned = [(1, 1)]
    ∧ (restartLog demoCfg [.txBegin 1 [0], .prepareVote 1 0 (.yes 1), .phaseChange 1 .preparing .prepared,
      .phaseChange 1 .prepared .aborting, .txComplete 1 .aborted] 200).nextHandle = 2 := by decide

/-- **A handle is never handed out twice across restarts, and finishing a transaction never
    releases another transaction's lock.**  Take any run — any mix of operations, WAL writes
    failing or rotating, `truncate_wal`, crashes at any byte with restarts under any
    configurations, `recover_from_wal` on the live coordinator — that starts from a fresh
    coordinator or from a restart on ANY log, takes its locks through the lock manager
    (`try_lock` returns the value of the counter) and whose YES votes carry a handle the lock
    table holds for the voting transaction (or one above the high-water mark).  In the state it
    reaches:
    (1) the handle the next `try_lock` returns is held by nobody, is not the handle of a YES vote
        of any pending transaction, and is not a handle the log holds for a decided or pending
        transaction or as an orphaned lock (so a restart cannot bring it back either);
    (2) when commit / abort / complete_commit / complete_abort / force_resolve succeeds for a
        transaction, or cleanup_timeouts runs, every lock another transaction holds (handle below
        the high-water mark) is still in the lock table afterwards; and `recover_from_wal` called
        on the live coordinator removes only locks held for a transaction whose completion the log
        records with that lock unreleased (its orphaned locks).
    Before 0358827a a restart broke (1) and (2): `stale_handle_releases_foreign_lock_witness`. -/
theorem finishing_a_transaction_releases_only_its_own_locks (c0 : Coord) (steps : List Step)
    (h0 : (∃ cfg, c0 = { cfg := cfg }) ∨ ∃ cfg es now, c0 = restartLog cfg es now)
    (hrun : CounterRun crc ser de c0 steps) :
    ((∀ t, ((run crc ser de c0 steps).nextHandle, t) ∉ (run crc ser de c0 steps).locks)
      ∧ (∀ x tx, (x, tx) ∈ (run crc ser de c0 steps).pending →
          (run crc ser de c0 steps).nextHandle < highWater →
          (run crc ser de c0 steps).nextHandle ∉ voteHandles tx.votes)
      ∧ (∀ x ip, (x, ip) ∈ (scan (run crc ser de c0 steps).log).inProgress →
          ip.phase = .prepared ∨ ip.phase = .committing ∨ ip.phase = .aborting
            ∨ x ∈ mKeys (run crc ser de c0 steps).pending →
          (run crc ser de c0 steps).nextHandle < highWater →
          (run crc ser de c0 steps).nextHandle ∉ yesHandles ip.votes)
      ∧ (∀ p ∈ (fromEntries (run crc ser de c0 steps).log).orphaned,
          (run crc ser de c0 steps).nextHandle < highWater → p.2 ≠ (run crc ser de c0 steps).nextHandle))
    ∧ (∀ s id tx, (s = Step.commit id ∨ s = Step.abort id ∨ s = Step.completeCommit id
                    ∨ s = Step.completeAbort id ∨ ∃ b, s = Step.forceResolve id b) →
        mLookup id (run crc ser de c0 steps).pending = some tx →
        (step crc ser de (run crc ser de c0 steps) s).2 = Res.ok →
        ∀ h t, (h, t) ∈ (run crc ser de c0 steps).locks → t ≠ id → h < highWater →
          (h, t) ∈ (step crc ser de (run crc ser de c0 steps) s).1.locks)
    ∧ (∀ now h t, (h, t) ∈ (run crc ser de c0 steps).locks → h < highWater →
        (∀ id tx, (id, tx) ∈ (run crc ser de c0 steps).pending → tx.timedOut now = true → t ≠ id) →
        (h, t) ∈ (cleanupTimeouts (run crc ser de c0 steps) now).1.locks)
    ∧ (∀ now h t, (h, t) ∈ (run crc ser de c0 steps).locks → h < highWater →
        (∀ p ∈ (fromEntries (run crc ser de c0 steps).log).orphaned, p.1 ≠ t) →
        (h, t) ∈ (recoverFromWal (run crc ser de c0 steps) now).1.locks) := by
  have hi0 : HInv c0 := by
    rcases h0 with ⟨cfg, rfl⟩ | ⟨cfg, es, now, rfl⟩
    · exact HInv_fresh cfg
    · exact HInv_restartLog cfg es now
  have hi := HInv_run crc ser de c0 steps hi0 hrun
  generalize run crc ser de c0 steps = c at hi
  refine ⟨⟨?_, ?_, ?_, ?_⟩, ?_, ?_, ?_⟩
  · intro t hm
    exact Nat.lt_irrefl _ (hi.below _ t hm)
  · intro x tx hm hw hh
    exact Nat.lt_irrefl _ (hi.mem x tx hm _ hh hw).1
  · intro x ip hm hp hw hh
    have hp' : Decided ip.phase ∨ x ∈ mKeys c.pending := by
      rcases hp with h | h | h | h
      · exact Or.inl (Or.inl h)
      · exact Or.inl (Or.inr (Or.inl h))
      · exact Or.inl (Or.inr (Or.inr h))
      · exact Or.inr h
    exact Nat.lt_irrefl _ (hi.log x ip ((ipOf_iff_mem _ _ _).mpr hm) hp' _ hh hw).1
  · intro p hp hw he
    have := (hi.orph p hp (by rw [he]; exact hw)).1
    rw [he] at this
    exact Nat.lt_irrefl _ this
  · intro s id tx hs hl hok h t hm hne hw
    rw [step_ok_locks crc ser de c s id tx hs hl hok, mem_releaseAll]
    refine ⟨hm, ?_⟩
    intro hh
    exact hne ((hi.mem id tx (mLookup_some_mem _ _ _ hl) h hh hw).2 t hm)
  · intro now h t hm hw hne
    simp only [cleanupTimeouts, mem_releaseAll]
    refine ⟨hm, ?_⟩
    intro hh
    simp only [List.mem_flatMap, List.mem_filter] at hh
    obtain ⟨⟨id, tx⟩, ⟨hp, hto⟩, hin⟩ := hh
    exact hne id tx hp hto ((hi.mem id tx hp h hin hw).2 t hm)
  · intro now h t hm hw hne
    simp only [recoverFromWal, mem_releaseAll]
    refine ⟨hm, ?_⟩
    intro hh
    simp only [List.mem_map] at hh
    obtain ⟨p, hp, rfl⟩ := hh
    exact hne p hp ((hi.orph p hp hw).2 t hm).symm

-- non-vacuity: the restarted process of the example above begins transaction 2, locks for it
-- (the counter hands out 9), records its YES vote and commits the recovered transaction 1: a
-- counter run, after which transaction 2 still holds its lock
example : CounterRun Crc32.crc32 toySer toyDe (restartLog demoCfg (demoPre.log.take 5) 200)
      [.begin 2 [0] 300, .lock 2 9, .vote 2 0 (.yes 9) false, .commit 1]
    ∧ (run Crc32.crc32 toySer toyDe (restartLog demoCfg (demoPre.log.take 5) 200)
        [.begin 2 [0] 300, .lock 2 9, .vote 2 0 (.yes 9) false, .commit 1]).locks = [(9, 2)]
    ∧ (step Crc32.crc32 toySer toyDe (run Crc32.crc32 toySer toyDe (restartLog demoCfg (demoPre.log.take 5) 200)
        [.begin 2 [0] 300, .lock 2 9, .vote 2 0 (.yes 9) false]) (.commit 1)).2 = Res.ok := by decide
-- ... and a counter run from a fresh coordinator: two transactions, each voting with its own lock
example : CounterRun Crc32.crc32 toySer toyDe { cfg := demoCfg }
      [.begin 1 [0] 100, .lock 1 1, .vote 1 0 (.yes 1) false, .begin 2 [0] 100, .lock 2 2, .vote 2 0 (.yes 2) false,
       .abort 1] := by decide

/-! ### the defects the fixes removed, as concrete witnesses -/

/-- **Pre-fix `open` (append at the physical end of file).**  A log holding TxBegin is cut inside
    its record (5 of 9 bytes survive).  With the old `open` the torn bytes stay, the TxComplete
    appended afterwards is swallowed by the torn frame: replay of that file does not return the
    decision (here it fails with a checksum mismatch).  With the repairing `open` the same
    append is replayed. -/
theorem append_after_torn_tail_witness :
    replay Crc32.crc32 toyDe
        (openOld ((fileOf Crc32.crc32 toySer [Entry.txBegin 1 [0, 1]]).take 5)
          ++ encodeRec Crc32.crc32 (toySer (Entry.txComplete 1 .committed))) = none
    ∧ replay Crc32.crc32 toyDe
        (openRepair ((fileOf Crc32.crc32 toySer [Entry.txBegin 1 [0, 1]]).take 5)
          ++ encodeRec Crc32.crc32 (toySer (Entry.txComplete 1 .committed)))
        = some [Entry.txComplete 1 .committed] := by
  constructor
  · unfold replay
    rw [parse]
    decide
  · have h := restartBytes_take Crc32.crc32 toySer toyDe demoCfg [Entry.txBegin 1 [0, 1]] 5 0 (by decide)
    have hr : openRepair ((fileOf Crc32.crc32 toySer [Entry.txBegin 1 [0, 1]]).take 5) = [] := by
      unfold openRepair
      rw [validPrefixLen]
      decide
    rw [hr, List.nil_append]
    have := replay_fileOf Crc32.crc32 toySer toyDe [Entry.txComplete 1 .committed] (by decide)
    simpa [fileOf, encodeAll] using this

/-- **Pre-fix scan (every logged vote pushed).**  `record_vote` logs a vote before validating it.
    With the old scan the rejected duplicate NO of shard 0 is replayed after the accepted YES and
    `restore_tx` overwrites it: the prepared transaction comes back with a NO from shard 0 — and
    no longer knows lock handle 7.  The current scan returns the accepted votes. -/
theorem rejected_vote_overwrites_witness :
    let log := (run Crc32.crc32 toySer toyDe { cfg := demoCfg } (demoSteps.take 6)).log
    ((fromEntriesOld log).prepared.map (fun r => (restoreTx r .prepared 0).votes)) = [[(1, Vote.yes 8), (0, Vote.no)]]
    ∧ ((fromEntries log).prepared.map (fun r => (restoreTx r .prepared 0).votes)) = [[(1, Vote.yes 8), (0, Vote.yes 7)]]
    ∧ (mLookup 1 (run Crc32.crc32 toySer toyDe { cfg := demoCfg } (demoSteps.take 6)).pending).map (·.votes)
        = some [(1, Vote.yes 8), (0, Vote.yes 7)] := by
  decide

/-- **Pre-fix `recover_from_wal` (the handle counter stays where the new process started it).**
    Process 1 begins transaction 1, locks for it (the counter hands out handle 1), records its
    YES vote — Prepared, logged — and dies.  The new process starts its counter at 1 again.  With
    the old recovery transaction 1 comes back holding handle 1 while the counter still stands at
    1: transaction 2 begins, its `try_lock` is handed handle 1 too, it votes YES and is Prepared;
    committing the recovered transaction 1 then releases handle 1 — the lock table is empty
    although transaction 2 is still Prepared.  With the current recovery the counter stands at 2
    after the restart, transaction 2 is handed handle 2 and keeps its lock. -/
theorem stale_handle_releases_foreign_lock_witness :
    let c1 := run Crc32.crc32 toySer toyDe { cfg := demoCfg } [.begin 1 [0] 100, .lock 1 1, .vote 1 0 (.yes 1) false]
    let old := restartLogOld demoCfg c1.log 200
    let new := restartLog demoCfg c1.log 200
    let after := fun (c : Coord) => run Crc32.crc32 toySer toyDe c
      [.begin 2 [0] 300, .lock 2 c.nextHandle, .vote 2 0 (.yes c.nextHandle) false, .commit 1]
    CounterRun Crc32.crc32 toySer toyDe { cfg := demoCfg } [.begin 1 [0] 100, .lock 1 1, .vote 1 0 (.yes 1) false]
    ∧ c1.nextHandle = 2
    ∧ (mLookup 1 old.pending).map (fun t => (t.phase, t.votes)) = some (.prepared, [(0, Vote.yes 1)])
    ∧ old.nextHandle = 1
    ∧ (after old).locks = []
    ∧ (mLookup 2 (after old).pending).map (fun t => (t.phase, t.votes)) = some (.prepared, [(0, Vote.yes 1)])
    ∧ new.nextHandle = 2
    ∧ (after new).locks = [(2, 2)]
    ∧ (mLookup 2 (after new).pending).map (fun t => (t.phase, t.votes)) = some (.prepared, [(0, Vote.yes 2)]) := by
  decide

end Neumann.TxWal.Props
