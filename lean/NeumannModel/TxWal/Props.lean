import NeumannModel.TxWal.Demo
/-
  C13 — 2PC coordinator restart preserves every logged decision.
  ONLY the property theorems and their non-vacuity examples; helpers are in `Lemmas.lean`.

  A *run* is any list of `Step`s (lock / begin / vote / commit / abort / complete_commit /
  complete_abort / cleanup_timeouts / process_pending_aborts / recover_from_wal on the live
  coordinator / crash) from a fresh coordinator over an empty file.  `crash n now` cuts the FILE
  (the bytes `fileOf crc ser log`) to its first `n` bytes — any `n` — discards all memory, reopens
  with the tail repair and runs `recover_from_wal`.  `Valid` only asks that `begin` uses a fresh
  id and that the records in the file at a crash are well-formed (`CodecOK`).
-/
namespace Neumann.TxWal.Props
open Neumann.TxWal Neumann.FramedLog Neumann.TxWal.Demo

variable (crc : List Nat → Nat) (ser : Entry → List Nat) (de : List Nat → Option Entry)

/-! ### a restart sees exactly the whole records before the cut -/

/-- **Crash at any byte.** Whatever byte the file is cut at, the restarted coordinator is the one
    obtained from the log of the records lying wholly before the cut: replay never fails, never
    yields a partial, altered or reordered record, and (tail repair) the file is again a
    well-formed log, so this statement applies again to the next crash. -/
theorem restart_sees_whole_records (cfg : Cfg) (L : List Entry) (n now : Nat)
    (h : CodecOK crc ser de L) :
    restartBytes crc de cfg ((fileOf crc ser L).take n) now
      = some (restartLog cfg (L.take (wholeWithin crc (L.map ser) n)) now)
    ∧ ((fileOf crc ser L).length ≤ n → wholeWithin crc (L.map ser) n = L.length) := by
  refine ⟨restartBytes_take crc ser de cfg L n now h, fun hn => ?_⟩
  have h1 := wholeWithin_ge crc (L.map ser) (L.map ser).length n (Nat.le_refl _)
    (by rw [List.take_length]; exact hn)
  have h2 := wholeWithin_le crc (L.map ser) n
  simp only [List.length_map] at h1 h2
  omega

/-- the byte-level crash step of a run is the log-prefix restart -/
theorem crash_is_prefix_restart (c : Coord) (n now : Nat) (h : CodecOK crc ser de c.log) :
    (step crc ser de c (.crash n now)).1
      = restartLog c.cfg (c.log.take (wholeWithin crc (c.log.map ser) n)) now := by
  rw [step_crash_eq crc ser de c n now h]

example : CodecOK Crc32.crc32 toySer toyDe demoPre.log := by decide
example : (fileOf Crc32.crc32 toySer demoPre.log).length = 91 ∧ demoPre.log.length = 10 := by decide

/-! ### logged outcomes are final -/

/-- **A logged outcome is never reversed.**  In every state reachable by any valid run (any mix
    of operations, any byte cuts, any number of restarts): if a `TxComplete(id, o)` record is in
    the log then (1) it is the only outcome the log holds for `id`, (2) `id` is not pending, and
    (3) whatever is called next — commit, abort, complete_*, cleanup_timeouts, recover_from_wal,
    another crash at any byte — reports nothing about `id` (no commit, no abort, no timeout) and
    leaves no other outcome for `id` in the log.  Since this holds in *every* reachable state, it
    holds after any number of further restarts and calls, for as long as the record itself lies
    inside the surviving prefix (a record cut away by a later crash was not durable). -/
theorem logged_outcome_never_reversed (cfg : Cfg) (steps : List Step)
    (hv : Valid crc ser de { cfg := cfg } steps) (id : Nat) (o : Outcome)
    (hlog : Entry.txComplete id o ∈ (run crc ser de { cfg := cfg } steps).log) :
    (∀ o', Entry.txComplete id o' ∈ (run crc ser de { cfg := cfg } steps).log → o' = o)
    ∧ mLookup id (run crc ser de { cfg := cfg } steps).pending = none
    ∧ ∀ s, StepOK crc ser de (run crc ser de { cfg := cfg } steps) s →
        (∀ ev ∈ events s (step crc ser de (run crc ser de { cfg := cfg } steps) s).2, ev.id ≠ id)
        ∧ (∀ o', Entry.txComplete id o' ∈ (step crc ser de (run crc ser de { cfg := cfg } steps) s).1.log → o' = o) := by
  have hi := Inv_run crc ser de _ steps (Inv_fresh cfg) hv
  generalize run crc ser de { cfg := cfg } steps = c at hi hlog
  refine ⟨fun o' h => hi.oneOutcome id o' o h hlog, ?_, ?_⟩
  · apply mLookup_none_of_not_mem
    intro hk; exact hi.pendingOpen id hk ⟨o, hlog⟩
  · intro s hs
    constructor
    · intro ev hev heq
      have := events_pending crc ser de c s ev hev
      rw [heq] at this
      exact hi.pendingOpen id this ⟨o, hlog⟩
    · intro o' h'
      by_cases hc : ∃ n now, s = Step.crash n now
      · obtain ⟨n, now, rfl⟩ := hc
        rw [step_crash_eq crc ser de c n now hs] at h'
        have hl : (restartLog c.cfg (c.log.take (wholeWithin crc (c.log.map ser) n)) now).log
            = c.log.take (wholeWithin crc (c.log.map ser) n) := rfl
        rw [hl] at h'
        exact hi.oneOutcome id o' o (List.mem_of_mem_take h') hlog
      · have hs' : ∀ n now, s ≠ Step.crash n now := fun n now h => hc ⟨n, now, h⟩
        obtain ⟨es, hes⟩ := step_log_grows crc ser de c s hs'
        have hi' := Inv_step crc ser de c s hi hs
        exact hi'.oneOutcome id o' o h' (by rw [hes]; exact List.mem_append_left _ hlog)

/-- a logged record stays in the log under every call that is not a crash -/
theorem logged_record_persists (c : Coord) (s : Step) (e : Entry)
    (hs : ∀ n now, s ≠ Step.crash n now) (he : e ∈ c.log) : e ∈ (step crc ser de c s).1.log := by
  obtain ⟨es, hes⟩ := step_log_grows crc ser de c s hs
  rw [hes]; exact List.mem_append_left _ he

-- non-vacuity: the demo run (with its crash inside the commit's records) is valid, the commit's
-- TxComplete record survives the cut at byte 68, and afterwards abort / commit / cleanup report
-- nothing about transaction 1
example : Entry.txComplete 1 .committed ∈ (run Crc32.crc32 toySer toyDe { cfg := demoCfg } demoSteps).log := by
  rw [demo_run]; decide
example : (step Crc32.crc32 toySer toyDe (restartLog demoCfg (demoPre.log.take 7) 200) (.abort 1)).2
    = Res.notFound := by decide
-- the crash really tore records away: 10 records before, 7 after
example : demoPre.log.length = 10 ∧ (restartLog demoCfg (demoPre.log.take 7) 200).log.length = 7 := by decide

/-! ### locks -/

/-- **Completion releases the locks.**  When commit / abort / complete_commit / complete_abort
    succeeds for a transaction, or cleanup_timeouts times it out, every lock handle of a YES vote
    it holds in memory is gone from the lock table; `recover_from_wal` releases every orphaned
    handle it reports; and a restarted coordinator starts with an empty lock table. -/
theorem completed_locks_released (c : Coord) :
    (∀ s id tx, (s = Step.commit id ∨ s = Step.abort id ∨ s = Step.completeCommit id ∨ s = Step.completeAbort id) →
        mLookup id c.pending = some tx → (step crc ser de c s).2 = Res.ok →
        ∀ h ∈ voteHandles tx.votes, ∀ t, (h, t) ∉ (step crc ser de c s).1.locks)
    ∧ (∀ now id tx, (id, tx) ∈ c.pending → tx.timedOut now = true →
        ∀ h ∈ voteHandles tx.votes, ∀ t, (h, t) ∉ (cleanupTimeouts c now).1.locks)
    ∧ (∀ now p, p ∈ (fromEntries c.log).orphaned → ∀ t, (p.2, t) ∉ (recoverFromWal c now).1.locks)
    ∧ (∀ n now, CodecOK crc ser de c.log → (step crc ser de c (.crash n now)).1.locks = []) := by
  refine ⟨?_, ?_, ?_, ?_⟩
  · intro s id tx hs hl hok h hh t hmem
    rcases hs with rfl | rfl | rfl | rfl
    · simp only [step, commit, hl] at hok hmem
      split at hok
      · cases hok
      · rename_i hp
        simp only [hp, if_false] at hmem
        exact ((mem_releaseAll _ _ _).mp hmem).2 hh
    · simp only [step, abort, hl] at hmem
      exact ((mem_releaseAll _ _ _).mp hmem).2 hh
    · simp only [step, completeCommit, hl] at hok hmem
      split at hok
      · cases hok
      · rename_i hp
        simp only [hp, if_false] at hmem
        exact ((mem_releaseAll _ _ _).mp hmem).2 hh
    · simp only [step, completeAbort, hl] at hok hmem
      split at hok
      · cases hok
      · rename_i hp
        simp only [hp, if_false] at hmem
        exact ((mem_releaseAll _ _ _).mp hmem).2 hh
  · intro now id tx hp hto h hh t hmem
    simp only [cleanupTimeouts] at hmem
    have := ((mem_releaseAll _ _ _).mp hmem).2
    apply this
    simp only [List.mem_flatMap, List.mem_filter]
    exact ⟨(id, tx), ⟨hp, hto⟩, hh⟩
  · intro now p hp t hmem
    simp only [recoverFromWal] at hmem
    have := ((mem_releaseAll _ _ _).mp hmem).2
    apply this
    simp only [List.mem_map]
    exact ⟨p, hp, rfl⟩
  · intro n now h
    rw [step_crash_eq crc ser de c n now h]
    simp [restartLog, recoverFromWal, releaseAll]
    generalize ((fromEntries _).orphaned.map _) = hs
    induction hs with
    | nil => rfl
    | cons a hs ih => simpa [release] using ih

-- non-vacuity: before the commit of the demo run the table holds both handles, after it none
example : (run Crc32.crc32 toySer toyDe { cfg := demoCfg } (demoSteps.take 6)).locks = [(8, 1), (7, 1)]
    ∧ demoPre.locks = [] := by decide

/-! ### what comes back after a restart -/

/-- **Prepared transactions come back with their votes and can be completed.**  Cut the file of
    any coordinator state at any byte and restart.  Every transaction that the surviving records
    show as `Prepared` (all votes collected, no outcome: the scan of the surviving log holds it in
    phase Prepared) is pending again in phase `Prepared` with its participants and exactly the
    votes the scan kept; `commit` then succeeds and logs `TxComplete(Committed)`, and `abort`
    succeeds and logs `TxComplete(Aborted)`.  The scan keeps at most one vote per shard, so
    `restore_tx` never overwrites a vote (this is what the pre-fix scan violated, see
    `rejected_vote_overwrites_witness`).
    `_partial`: "the votes the scan keeps" are the first vote logged per shard while the
    transaction was Preparing; that these coincide with the votes `record_vote` accepted in the
    memory of the crashed process is not proved here as a run invariant — it is checked on the real
    coordinator by the harness oracle (accepted-votes bookkeeping). -/
theorem prepared_come_back_with_votes_partial (c : Coord) (n now : Nat)
    (h : CodecOK crc ser de c.log) (x : Nat) (ip : InProg)
    (hm : (x, ip) ∈ (scan (c.log.take (wholeWithin crc (c.log.map ser) n))).inProgress)
    (hp : ip.phase = .prepared) :
    mLookup x (step crc ser de c (.crash n now)).1.pending
        = some (restoreTx ⟨x, ip.parts, ip.votes⟩ .prepared now)
    ∧ (mKeys ip.votes).Nodup
    ∧ (commit (step crc ser de c (.crash n now)).1 x).2 = Res.ok
    ∧ Entry.txComplete x .committed ∈ (commit (step crc ser de c (.crash n now)).1 x).1.log
    ∧ (abort (step crc ser de c (.crash n now)).1 x).2 = Res.ok
    ∧ Entry.txComplete x .aborted ∈ (abort (step crc ser de c (.crash n now)).1 x).1.log := by
  rw [step_crash_eq crc ser de c n now h]
  have hl := restart_prepared c.cfg _ now x ip hm hp
  refine ⟨hl, scan_votes_one_per_shard _ x ip hm, ?_, ?_, ?_, ?_⟩
  · simp [commit, hl, restoreTx]
  · simp [commit, hl, restoreTx, Coord.append]
  · simp [abort, hl]
  · simp [abort, hl, Coord.append]

/-- **Transactions still collecting votes are forgotten, without locks.**  After a crash at any
    byte and restart: (1) everything pending was classified by the scan of the surviving log as
    Prepared / Committing / Aborting and is restored faithfully from it — nothing in phase
    Preparing comes back; (2) a transaction for which no PhaseChange record survived (it was still
    collecting votes, or had only reached an unlogged in-memory abort) is not pending, and
    commit / abort on it answer `not found`; (3) the lock table of the new process is empty. -/
theorem preparing_forgotten_without_locks (c : Coord) (n now : Nat) (h : CodecOK crc ser de c.log) :
    (∀ x tx, mLookup x (step crc ser de c (.crash n now)).1.pending = some tx →
        (tx.phase = .prepared ∨ tx.phase = .committing ∨ tx.phase = .aborting)
        ∧ ∃ ip, (x, ip) ∈ (scan (c.log.take (wholeWithin crc (c.log.map ser) n))).inProgress
              ∧ tx = restoreTx ⟨x, ip.parts, ip.votes⟩ ip.phase now)
    ∧ (∀ x, (∀ f t, Entry.phaseChange x f t ∉ c.log.take (wholeWithin crc (c.log.map ser) n)) →
        mLookup x (step crc ser de c (.crash n now)).1.pending = none
        ∧ (commit (step crc ser de c (.crash n now)).1 x).2 = Res.notFound
        ∧ (abort (step crc ser de c (.crash n now)).1 x).2 = Res.notFound)
    ∧ (step crc ser de c (.crash n now)).1.locks = [] := by
  have hlocks := (completed_locks_released crc ser de c).2.2.2 n now h
  rw [step_crash_eq crc ser de c n now h] at hlocks ⊢
  refine ⟨?_, ?_, hlocks⟩
  · intro x tx hl
    obtain ⟨ip, hm, hph, rfl⟩ := restart_pending _ _ _ _ _ hl
    exact ⟨by simpa [restoreTx] using hph, ip, hm, rfl⟩
  · intro x hno
    have hnone : mLookup x (restartLog c.cfg (c.log.take (wholeWithin crc (c.log.map ser) n)) now).pending = none := by
      cases hl : mLookup x (restartLog c.cfg (c.log.take (wholeWithin crc (c.log.map ser) n)) now).pending with
      | none => rfl
      | some tx =>
        obtain ⟨ip, hm, hph, _⟩ := restart_pending _ _ _ _ _ hl
        have hne : ip.phase ≠ .preparing := by
          rcases hph with h | h | h <;> (rw [h]; decide)
        obtain ⟨f, t, hft⟩ := scan_phase_logged _ x ip hm hne
        exact absurd hft (hno f t)
    exact ⟨hnone, by simp [commit, hnone], by simp [abort, hnone]⟩

-- non-vacuity: cut the demo file after the PhaseChange->Prepared record (byte 45..53): transaction
-- 1 is Prepared in the surviving log and comes back with both YES votes; cut it before that record
-- (byte 40): no PhaseChange survives and the transaction is forgotten
example : (1, (⟨[0, 1], [(0, .yes 7), (1, .yes 8)], .prepared⟩ : InProg))
    ∈ (scan (demoPre.log.take (wholeWithin Crc32.crc32 (demoPre.log.map toySer) 50))).inProgress := by decide
example : ∀ f t, Entry.phaseChange 1 f t ∉ demoPre.log.take (wholeWithin Crc32.crc32 (demoPre.log.map toySer) 40) := by
  intro f t; cases f <;> cases t <;> decide

/-! ### the defects the fixes removed, as concrete witnesses -/

/-- **Pre-fix `open` (append at the physical end of file).**  A log holding TxBegin is cut inside
    its record (5 of 9 bytes survive).  With the old `open` the torn bytes stay, the TxComplete
    appended afterwards is swallowed by the torn frame: replay of that file does not return the
    decision (here it fails with a checksum mismatch).  With the repairing `open` the same
    append is replayed. -/
theorem append_after_torn_tail_witness :
    replay Crc32.crc32 toyDe
        (openOld ((fileOf Crc32.crc32 toySer [Entry.txBegin 1 [0, 1]]).take 5)
          ++ encodeRec Crc32.crc32 (toySer (Entry.txComplete 1 .committed))) = none
    ∧ replay Crc32.crc32 toyDe
        (openRepair ((fileOf Crc32.crc32 toySer [Entry.txBegin 1 [0, 1]]).take 5)
          ++ encodeRec Crc32.crc32 (toySer (Entry.txComplete 1 .committed)))
        = some [Entry.txComplete 1 .committed] := by
  constructor
  · unfold replay
    rw [parse]
    decide
  · have h := restartBytes_take Crc32.crc32 toySer toyDe demoCfg [Entry.txBegin 1 [0, 1]] 5 0 (by decide)
    have hr : openRepair ((fileOf Crc32.crc32 toySer [Entry.txBegin 1 [0, 1]]).take 5) = [] := by
      unfold openRepair
      rw [validPrefixLen]
      decide
    rw [hr, List.nil_append]
    have := replay_fileOf Crc32.crc32 toySer toyDe [Entry.txComplete 1 .committed] (by decide)
    simpa [fileOf, encodeAll] using this

/-- **Pre-fix scan (every logged vote pushed).**  `record_vote` logs a vote before validating it.
    With the old scan the rejected duplicate NO of shard 0 is replayed after the accepted YES and
    `restore_tx` overwrites it: the prepared transaction comes back with a NO from shard 0 — and
    no longer knows lock handle 7.  The current scan returns the accepted votes. -/
theorem rejected_vote_overwrites_witness :
    let log := (run Crc32.crc32 toySer toyDe { cfg := demoCfg } (demoSteps.take 6)).log
    ((fromEntriesOld log).prepared.map (fun r => (restoreTx r .prepared 0).votes)) = [[(1, Vote.yes 8), (0, Vote.no)]]
    ∧ ((fromEntries log).prepared.map (fun r => (restoreTx r .prepared 0).votes)) = [[(1, Vote.yes 8), (0, Vote.yes 7)]]
    ∧ (mLookup 1 (run Crc32.crc32 toySer toyDe { cfg := demoCfg } (demoSteps.take 6)).pending).map (·.votes)
        = some [(1, Vote.yes 8), (0, Vote.yes 7)] := by
  decide

end Neumann.TxWal.Props
