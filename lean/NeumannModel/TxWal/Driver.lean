import NeumannModel.Common.Proto
import NeumannModel.Common.Crc32
import NeumannModel.TxWal.Model
/-
  Line-protocol driver for the TxWal / coordinator-restart model (C13).

  bitcode is opaque: the harness first teaches the driver which payload bytes stand for which
  entry (`def <hex> <entry-token>`); `de` is the lookup in that table, so a payload never
  announced is "undecodable".  Entry tokens:
     B:tx:parts   V:tx:shard:y<h>|n   P:tx:from:to   C:tx:c|a   L:tx:h   R:tx   I:tx:reason:shards
  phases are 0..5 in the order of `TxPhase`.
  `lock <tx> <h>` takes the handle from the harness (handles relabelled by rank); `trylock <tx>`
  takes it from the model's counter (`set_counter` / `counter` / `state`).
-/
open Neumann Neumann.Proto Neumann.FramedLog Neumann.TxWal

structure DState where
  dict : List (List Nat × Entry) := []
  /-- record sizes announced since the last `new`: canonical ids are re-used by every process
      lineage of the harness with other real ids / lock handles, whose payloads may differ in size -/
  sizes : List (Entry × Nat) := []
  coord : Coord := { cfg := { prepareTimeoutMs := 5000, maxConcurrent := 100 } }

/-! Long records.  A wide transaction has tens of thousands of participant shards: its TxBegin /
    AbortIntent records are hundreds of KB.  Two things keep the protocol lines short and the driver
    inside its stack: a run of at least 32 consecutive shard ids is written `lo..hi` (both sides
    apply the same rule, so the notation is canonical), and hex payloads are decoded by a
    tail-recursive loop (`Proto.unhex` recurses once per byte). -/

def isRun : List Nat → Bool
  | a :: b :: r => if b == a + 1 then isRun (b :: r) else false
  | _ => true

def showParts (xs : List Nat) : String :=
  match xs with
  | lo :: _ => if xs.length ≥ 32 && isRun xs then s!"{lo}..{lo + xs.length - 1}" else showNats xs
  | [] => "-"

def parseParts (s : String) : Option (List Nat) :=
  match s.splitOn ".." with
  | [a, b] => match a.toNat?, b.toNat? with
      | some lo, some hi => if lo ≤ hi then some (List.range' lo (hi - lo + 1)) else none
      | _, _ => none
  | _ => parseNats s

def unhexGo : List Char → List Nat → Option (List Nat)
  | [], acc => some acc.reverse
  | a :: b :: rest, acc => match hexDigit a, hexDigit b with
      | some x, some y => unhexGo rest ((x * 16 + y) :: acc)
      | _, _ => none
  | _, _ => none

def unhexFast (s : String) : Option (List Nat) :=
  if s = "-" then some [] else unhexGo s.toList []

def phaseNum : Phase → Nat
  | .preparing => 0 | .prepared => 1 | .committing => 2 | .committed => 3 | .aborting => 4 | .aborted => 5

def numPhase : Nat → Option Phase
  | 0 => some .preparing | 1 => some .prepared | 2 => some .committing
  | 3 => some .committed | 4 => some .aborting | 5 => some .aborted | _ => none

def showKind : VoteKind → String
  | .yes h => s!"y{h}" | .no => "n"

def parseKind (s : String) : Option VoteKind :=
  if s = "n" then some .no
  else match s.toList with
    | 'y' :: r => (String.ofList r).toNat?.map VoteKind.yes
    | _ => none

def showVote : Vote → String
  | .yes h => s!"y{h}" | .no => "n" | .conflict => "c"

def parseVote (s : String) : Option Vote :=
  if s = "n" then some .no else if s = "c" then some .conflict
  else match s.toList with
    | 'y' :: r => (String.ofList r).toNat?.map Vote.yes
    | _ => none

def showEntry : Entry → String
  | .txBegin tx ps => s!"B:{tx}:{showParts ps}"
  | .prepareVote tx sh v => s!"V:{tx}:{sh}:{showKind v}"
  | .phaseChange tx f t => s!"P:{tx}:{phaseNum f}:{phaseNum t}"
  | .txComplete tx o => s!"C:{tx}:" ++ (match o with | .committed => "c" | .aborted => "a")
  | .lockRelease tx h => s!"L:{tx}:{h}"
  | .allLocksReleased tx => s!"R:{tx}"
  | .abortIntent tx r sh => s!"I:{tx}:{r.replace " " "_"}:{showParts sh}"

def parseEntry (s : String) : Option Entry :=
  match s.splitOn ":" with
  | ["B", tx, ps] => do pure (.txBegin (← tx.toNat?) (← parseParts ps))
  | ["V", tx, sh, k] => do pure (.prepareVote (← tx.toNat?) (← sh.toNat?) (← parseKind k))
  | ["P", tx, f, t] => do pure (.phaseChange (← tx.toNat?) (← numPhase (← f.toNat?)) (← numPhase (← t.toNat?)))
  | ["C", tx, "c"] => do pure (.txComplete (← tx.toNat?) .committed)
  | ["C", tx, "a"] => do pure (.txComplete (← tx.toNat?) .aborted)
  | ["L", tx, h] => do pure (.lockRelease (← tx.toNat?) (← h.toNat?))
  | ["R", tx] => do pure (.allLocksReleased (← tx.toNat?))
  | ["I", tx, r, sh] => do pure (.abortIntent (← tx.toNat?) (r.replace "_" " ") (← parseParts sh))
  | _ => none

def showEntries (es : List Entry) : String :=
  if es.isEmpty then "-" else " ".intercalate (es.map showEntry)

/-- insertion sort (lists are tiny); keys are made unique enough by the caller -/
def insSorted {α : Type} (lt : α → α → Bool) (x : α) : List α → List α
  | [] => [x]
  | y :: r => if lt x y then x :: y :: r else y :: insSorted lt x r

def sortBy {α : Type} (lt : α → α → Bool) (xs : List α) : List α := xs.foldr (insSorted lt) []

def natPairLt (a b : Nat × Nat) : Bool := a.1 < b.1 || (a.1 == b.1 && a.2 < b.2)

def showKVotes (vs : List (Nat × VoteKind)) : String :=
  if vs.isEmpty then "-" else "/".intercalate (vs.map fun p => s!"{p.1}.{showKind p.2}")

def showRecTxs (rs : List RecTx) : String :=
  let rs := sortBy (fun a b => a.tx < b.tx) rs
  "[" ++ ";".intercalate (rs.map fun r => s!"{r.tx}:{showParts r.parts}:{showKVotes r.votes}") ++ "]"

def showRecovery (r : Recovery) : String :=
  let orph := sortBy natPairLt r.orphaned
  let ints := sortBy (fun a b => a.1 < b.1) r.pendingAbortIntents
  s!"prepared={showRecTxs r.prepared} committing={showRecTxs r.committing} aborting={showRecTxs r.aborting}" ++
  " orphans=[" ++ ";".intercalate (orph.map fun p => s!"{p.1}.{p.2}") ++ "]" ++
  " intents=[" ++ ";".intercalate (ints.map fun p => s!"{p.1}:{p.2.1.replace " " "_"}:{showParts p.2.2}") ++ "]"

def showVotes (vs : List (Nat × Vote)) : String :=
  let vs := sortBy (fun a b => a.1 < b.1) vs
  if vs.isEmpty then "-" else "/".intercalate (vs.map fun p => s!"{p.1}.{showVote p.2}")

def showCoord (c : Coord) : String :=
  let ps := sortBy (fun a b => a.1 < b.1) c.pending
  let ls := sortBy natPairLt (c.locks.map fun p => (p.2, p.1))
  let pa := sortBy (fun a b => a.1 < b.1 || (a.1 == b.1 && a.2.1 < b.2.1)) c.pendingAborts
  "pending=[" ++ ";".intercalate (ps.map fun p =>
      s!"{p.1}:{phaseNum p.2.phase}:{showParts p.2.parts}:{showVotes p.2.votes}:{p.2.timeoutMs}") ++ "]" ++
  " locks=[" ++ ";".intercalate (ls.map fun p => s!"{p.1}.{p.2}") ++ "]" ++
  " aborts=[" ++ ";".intercalate (pa.map fun p => s!"{p.1}:{p.2.1.replace " " "_"}:{showParts p.2.2}") ++ "]"

def showRes : Res → String
  | .ok => "ok"
  | .phase none => "voted"
  | .phase (some p) => s!"phase{phaseNum p}"
  | .tooMany => "too_many"
  | .notFound => "not_found"
  | .wrongPhase p => s!"wrong_phase{phaseNum p}"
  | .duplicate => "duplicate"
  | .timedOut ids => "timed_out:" ++ showNats (sortBy (fun a b => decide (a < b)) ids)
  | .recovered a b c d => s!"recovered:{a}:{b}:{c}:{d}"
  | .flushed n => s!"flushed:{n}"
  | .walErr => "wal_err"
  | .recStats a b c d e => s!"recstats:{a}:{b}:{c}:{d}:{e}"
  | .decisions ds =>
      let ds := sortBy (fun a b => a.1 < b.1) ds
      "decisions:" ++ (if ds.isEmpty then "-" else ",".intercalate (ds.map fun p => s!"{p.1}.{phaseNum p.2}"))
  | .cannotCommit => "cannot_commit"

def deOf (d : List (List Nat × Entry)) (p : List Nat) : Option Entry :=
  (d.find? (fun q => q.1 == p)).map (·.2)

/-- size of the record of `e` in the file: the payload the harness announced for it (an entry
    never announced has no known size; `needs` makes the harness announce it first) -/
def szOf (d : List (Entry × Nat)) (e : Entry) : Nat :=
  match d.find? (fun q => q.1 == e) with
  | some q => q.2
  | none => 8

/-- answer of a coordinator call: result | records appended by the call | memory afterwards.
    When the size limit rotated the file the second field is `~` followed by the whole new log. -/
def coordAns (s : DState) (r : Coord × Res) : DState × String :=
  let old := s.coord.log
  let added :=
    if r.1.log.take old.length == old then showEntries (r.1.log.drop old.length)
    else "~ " ++ showEntries r.1.log
  ({ s with coord := r.1 }, s!"{showRes r.2} | {added} | {showCoord r.1}")

/-- a call that may write to a size-limited WAL: every record it could write must have a known
    size.  The records are the ones the same call writes on an unlimited WAL. -/
def sized (s : DState) (f : (Entry → Nat) → Coord → Coord × Res) : DState × String :=
  let sz := szOf s.sizes
  match s.coord.cfg.walCap with
  | none => coordAns s (f sz s.coord)
  | some _ =>
    let c0 := { s.coord with cfg := { s.coord.cfg with walCap := none } }
    let att := (f sz c0).1.log.drop c0.log.length
    let missing := (s.coord.log ++ att).filter (fun e => !(s.sizes.any (fun q => q.1 == e)))
    if missing.isEmpty then coordAns s (f sz s.coord)
    else (s, "need " ++ " ".intercalate (missing.map showEntry))

def txStep (s : DState) (line : String) : DState × String :=
  let bad := (s, "bad-op")
  let crc := Crc32.crc32
  match words line with
  | ["def", h, tok] => match unhexFast h, parseEntry tok with
      | some b, some e => ({ s with dict := (b, e) :: s.dict, sizes := (e, 8 + b.length) :: s.sizes }, "ok")
      | _, _ => bad
  | ["reset_dict"] => ({ s with dict := [], sizes := [] }, "ok")
  | ["crc", h] => match unhexFast h with
      | some b => (s, toString (crc b)) | none => bad
  | ["frame", h] => match unhexFast h with
      | some b => (s, hex (encodeRec crc b)) | none => bad
  | ["frame0", h] => match unhexFast h with       -- `enable_checksums = false`
      | some b => (s, hex (encodeRec (fun _ => 0) b)) | none => bad
  | ["valid_len", h] => match unhexFast h with
      | some b => (s, toString (validPrefixLen b)) | none => bad
  | ["replay", h] => match unhexFast h with
      | some b => (match replay crc (deOf s.dict) b with
          | some es => (s, "ok " ++ showEntries es) | none => (s, "err checksum"))
      | none => bad
  | ["recover", h] => match unhexFast h with
      | some b => (match replay crc (deOf s.dict) b with
          | some es => (s, showRecovery (fromEntries es)) | none => (s, "err checksum"))
      | none => bad
  | ["log"] => (s, showEntries s.coord.log)
  | ["new", t, mx, cap, rot] => match t.toNat?, mx.toNat?, cap.toNat?, rot.toNat? with
      | some t, some mx, some cap, some rot =>
          ({ s with sizes := [], coord := { cfg := { prepareTimeoutMs := t, maxConcurrent := mx, walCap := some cap,
                                                     autoRotate := rot != 0 } } }, "ok")
      | _, _, _, _ => bad
  | ["new", t, mx] => match t.toNat?, mx.toNat? with
      | some t, some mx =>
          ({ s with sizes := [], coord := { cfg := { prepareTimeoutMs := t, maxConcurrent := mx } } }, "ok")
      | _, _ => bad
  | ["restart", h, now] => match unhexFast h, now.toNat? with
      -- `restartBytes`, with the counter of the new process where `new` / `set_counter` left it
      -- (1 unless the harness said otherwise: then this is `restartBytes` itself)
      | some b, some now => (match (replay crc (deOf s.dict) (openRepair b)).map
            (fun es => (recoverFromWal { cfg := s.coord.cfg, log := es, nextHandle := s.coord.nextHandle } now).1) with
          | some c =>
              -- the records of the file keep the sizes they have in it
              let ps := (parse crc (fun p => (deOf s.dict p).isSome) (openRepair b)).1
              let szs := ps.filterMap (fun p => (deOf s.dict p).map (fun e => (e, 8 + p.length)))
              ({ s with coord := c, sizes := szs ++ s.sizes }, s!"ok | {showEntries c.log} | {showCoord c}")
          | none => ({ s with coord := { cfg := s.coord.cfg } }, "err checksum"))
      | _, _ => bad
  | ["lock", tx, h] => match tx.toNat?, h.toNat? with
      | some tx, some h => coordAns s (lockAcquire s.coord tx h) | _, _ => bad
  -- the handle counter (stream `coord.handles`: real handle numbers, no relabelling).  The harness
  -- restarts the coordinator inside one OS process, so it tells the model where the process-wide
  -- counter stands when the "new process" starts (`set_counter`; a real new process starts at 1).
  | ["set_counter", k] => match k.toNat? with
      | some k => ({ s with coord := { s.coord with nextHandle := k } }, "ok") | none => bad
  | ["counter"] => (s, toString s.coord.nextHandle)
  | ["trylock", tx] => match tx.toNat? with
      | some tx => ({ s with coord := (tryLock s.coord tx).1 }, toString s.coord.nextHandle) | none => bad
  | ["state"] => (s, s!"{showCoord s.coord} next={s.coord.nextHandle}")
  | ["begin", id, ps, now] => match id.toNat?, parseParts ps, now.toNat? with
      | some id, some ps, some now => sized s (fun sz c => begin sz c id ps now) | _, _, _ => bad
  | ["vote", id, sh, v, x] => match id.toNat?, sh.toNat?, parseVote v, x.toNat? with
      | some id, some sh, some v, some x => sized s (fun sz c => recordVote sz c id sh v (x != 0))
      | _, _, _, _ => bad
  | ["commit", id] => match id.toNat? with
      | some id => sized s (fun sz c => commit sz c id) | none => bad
  | ["abort", id] => match id.toNat? with
      | some id => sized s (fun sz c => abort sz c id) | none => bad
  | ["ccommit", id] => match id.toNat? with
      | some id => coordAns s (completeCommit s.coord id) | none => bad
  | ["cabort", id] => match id.toNat? with
      | some id => coordAns s (completeAbort s.coord id) | none => bad
  | ["cleanup", now] => match now.toNat? with
      | some now => coordAns s (cleanupTimeouts s.coord now) | none => bad
  | ["flush"] => sized s (fun sz c => flushAborts sz c)
  | ["recover_mem", now] => match now.toNat? with
      | some now => coordAns s (recoverMem s.coord now) | none => bad
  | ["decisions"] => coordAns s (s.coord, .decisions (pendingDecisions s.coord))
  | ["truncate"] => coordAns s ({ s.coord with log := [] }, .ok)
  | ["force", id, b] => match id.toNat?, b.toNat? with
      | some id, some b => coordAns s (forceResolve s.coord id (b != 0)) | _, _ => bad
  | ["recover_live", now] => match now.toNat? with
      | some now => coordAns s (recoverFromWal s.coord now) | none => bad
  | _ => bad

def main : IO Unit := run txStep {}
