import NeumannModel.TxWal.Props
import NeumannModel.TxWal.LemmasLive
/-
  C13 — "... and for every following sequence of recovery calls ... and further transactions":
  `recover_from_wal` called on a RUNNING coordinator (after the start-up call, with transactions
  of the current life pending).  ONLY property theorems and their non-vacuity examples; helpers
  are in `LemmasLive.lean`.

  The code inserts every restored transaction INTO the pending map (distributed_tx.rs:1206-1225:
  `pending.insert(prepared.tx_id, tx)`), so a recovery call never removes an entry: the map
  afterwards is the map a restart on the same log would build, laid over the map the coordinator
  held.  The variant `recoverFromWalRecoveryReplacesPending` (the restored set is published over
  the map) agrees with the code on a new process and drops every transaction the log does not
  restore on a running one — `recovery_replaces_pending_drops_live_transaction_witness`.
-/
namespace Neumann.TxWal.Props
open Neumann.TxWal Neumann.FramedLog Neumann.TxWal.Demo

variable (crc : List Nat → Nat) (ser : Entry → List Nat) (de : List Nat → Option Entry)

/-- **A recovery call on a running coordinator keeps every transaction of the current life**
    (pending map after = pending map before ∪ restored).  For every state `c` — any pending map,
    any lock table, any log — and every transaction id `x`: after `recover_from_wal` the entry of
    `x` is the one a restart on the same log would restore, and where a restart would restore
    nothing it is the entry the coordinator held before the call.  Hence (2) nothing that was
    pending stops being pending, and (3) a transaction the log does not show as Prepared /
    Committing / Aborting (one still collecting votes, one moved to Aborting in memory by a NO
    vote, one whose file was rotated or truncated away) is left exactly as it was: same phase,
    same votes, same clock. -/
theorem recovery_call_keeps_every_transaction_of_the_current_life (c : Coord) (now x : Nat) :
    mLookup x (recoverFromWal c now).1.pending
        = (mLookup x (restartLog c.cfg c.log now).pending).or (mLookup x c.pending)
    ∧ ((mLookup x c.pending).isSome → (mLookup x (recoverFromWal c now).1.pending).isSome)
    ∧ (¬ LogRestores c.log x → mLookup x (recoverFromWal c now).1.pending = mLookup x c.pending) :=
  ⟨recoverFromWal_pending c now x, recoverCalls_isSome c [now] x, recoverCalls_keeps c [now] x⟩

-- non-vacuity: transaction 1 restored from the log, transaction 2 of the current life still
-- collecting votes (one YES vote, lock 2): the call keeps 2 as it is and restores 1 again
example :
    let c1 := run Crc32.crc32 toySer toyDe { cfg := demoCfg } [.begin 1 [0] 100, .lock 1 1, .vote 1 0 (.yes 1) false]
    let c2 := run Crc32.crc32 toySer toyDe (restartLog demoCfg c1.log 200)
      [.begin 2 [0, 1] 300, .lock 2 2, .vote 2 0 (.yes 2) false]
    (mLookup 2 c2.pending).map (fun t => (t.phase, t.votes)) = some (.preparing, [(0, Vote.yes 2)])
    ∧ (mLookup 2 (recoverFromWal c2 400).1.pending).map (fun t => (t.phase, t.votes, t.startedAt))
        = some (.preparing, [(0, Vote.yes 2)], 300)
    ∧ (mLookup 1 (recoverFromWal c2 400).1.pending).map (fun t => (t.phase, t.votes, t.startedAt))
        = some (.prepared, [(0, Vote.yes 1)], 400)
    ∧ (mLookup 2 (restartLog c2.cfg c2.log 400).pending) = none := by decide

/-- **... and so does every following sequence of recovery calls.**  For every state and any
    number of `recover_from_wal` calls in a row (any clock values): the log is untouched, every
    pending transaction is still pending, every transaction the log does not restore is unchanged,
    and if every lock belonged to a pending transaction before, it does afterwards (recovery
    releases orphaned locks and nothing becomes unknown): no lock of a transaction the coordinator
    no longer knows. -/
theorem repeated_recovery_calls_keep_every_live_transaction (c : Coord) (nows : List Nat) :
    (recoverCalls c nows).log = c.log
    ∧ (∀ x, (mLookup x c.pending).isSome → (mLookup x (recoverCalls c nows).pending).isSome)
    ∧ (∀ x, ¬ LogRestores c.log x → mLookup x (recoverCalls c nows).pending = mLookup x c.pending)
    ∧ (LocksKnown c → LocksKnown (recoverCalls c nows)) :=
  ⟨recoverCalls_log c nows, fun x => recoverCalls_isSome c nows x, fun x => recoverCalls_keeps c nows x,
   LocksKnown_recoverCalls c nows⟩

example :
    let c1 := run Crc32.crc32 toySer toyDe { cfg := demoCfg } [.begin 1 [0] 100, .lock 1 1, .vote 1 0 (.yes 1) false]
    let c2 := run Crc32.crc32 toySer toyDe (restartLog demoCfg c1.log 200)
      [.begin 2 [0, 1] 300, .lock 2 2, .vote 2 0 (.yes 2) false]
    c2.locks = [(2, 2)] ∧ (mLookup 2 c2.pending).isSome
    ∧ (recoverCalls c2 [400, 500, 600]).locks = [(2, 2)]
    ∧ (mLookup 2 (recoverCalls c2 [400, 500, 600]).pending).map (fun t => (t.phase, t.votes))
        = some (.preparing, [(0, Vote.yes 2)]) := by decide

/-- **A transaction still collecting votes survives recovery calls on the running coordinator.**
    In the state any valid run reaches (any mix of operations, failing WAL writes, crashes at any
    byte, restarts; the file keeps its records), a pending transaction in phase Preparing is, after
    any number of `recover_from_wal` calls, still pending with the same participants, phase, votes
    and clock — so its remaining votes are accepted and it can be driven to completion. -/
theorem transaction_collecting_votes_survives_recovery_calls (cfg : Cfg) (steps : List Step) (hcfg : cfg.NoRotate)
    (hv : Valid crc ser de { cfg := cfg } steps) (hnr : KeepsRecords crc ser de { cfg := cfg } steps)
    (x : Nat) (tx : Tx) (hm : mLookup x (run crc ser de { cfg := cfg } steps).pending = some tx)
    (hp : tx.phase = .preparing) (nows : List Nat) :
    mLookup x (recoverCalls (run crc ser de { cfg := cfg } steps) nows).pending = some tx := by
  obtain ⟨ip, hip, _, h1, _⟩ := memory_never_ahead_of_log crc ser de cfg steps hcfg hv hnr x tx
    (mLookup_some_mem x tx _ hm)
  rw [recoverCalls_keeps _ nows x, hm]
  rintro ⟨ip', hip', hph⟩
  have e : some ip' = some ip := by
    rw [← (ipOf_iff_mem _ x ip').mpr hip', ← (ipOf_iff_mem _ x ip).mpr hip]
  cases e
  rw [h1 hp] at hph
  rcases hph with h | h | h <;> cases h

-- non-vacuity: the demo run after the first YES vote is valid and holds transaction 1 Preparing
example : Valid Crc32.crc32 toySer toyDe { cfg := demoCfg } (demoSteps.take 3)
    ∧ KeepsRecords Crc32.crc32 toySer toyDe { cfg := demoCfg } (demoSteps.take 3) ∧ demoCfg.NoRotate
    ∧ (mLookup 1 (run Crc32.crc32 toySer toyDe { cfg := demoCfg } (demoSteps.take 3)).pending).map
        (fun t => (t.phase, t.votes)) = some (.preparing, [(0, Vote.yes 7)]) := by decide

/-- **Variant RecoveryReplacesPending (NOT the code): the restored set is published over the
    pending map.**  Process 1 prepares transaction 1 and dies; process 2 restarts (transaction 1
    is back, Prepared), begins transaction 2, locks for it (handle 2) and records its first YES
    vote — still collecting votes.  A second recovery call with the variant: transaction 2 is gone
    from the coordinator while its lock (2, 2) is still in the lock table, its remaining vote is
    answered `not found`, commit and abort answer `not found` — and the same happens to a
    transaction that a NO vote had moved to Aborting in memory.  On a new process the variant and
    the code agree (same state).  With the code transaction 2 is untouched, its second vote makes
    it Prepared and it commits, releasing its locks. -/
theorem recovery_replaces_pending_drops_live_transaction_witness :
    let c1 := run Crc32.crc32 toySer toyDe { cfg := demoCfg } [.begin 1 [0] 100, .lock 1 1, .vote 1 0 (.yes 1) false]
    let c2 := run Crc32.crc32 toySer toyDe (restartLog demoCfg c1.log 200)
      [.begin 2 [0, 1] 300, .lock 2 2, .vote 2 0 (.yes 2) false]
    let c2n := run Crc32.crc32 toySer toyDe (restartLog demoCfg c1.log 200)
      [.begin 2 [0, 1] 300, .lock 2 2, .vote 2 0 (.yes 2) false, .vote 2 1 .no false]
    let bad := (recoverFromWalRecoveryReplacesPending c2 400).1
    let good := (recoverFromWal c2 400).1
    let finish : List Step := [.lock 2 3, .vote 2 1 (.yes 3) false, .commit 2]
    (recoverFromWalRecoveryReplacesPending { cfg := demoCfg, log := c1.log } 200).1.pending
        = (restartLog demoCfg c1.log 200).pending
    ∧ (mLookup 2 c2.pending).map (fun t => (t.phase, t.votes)) = some (.preparing, [(0, Vote.yes 2)])
    ∧ c2.locks = [(2, 2)]
    ∧ mLookup 2 bad.pending = none ∧ bad.locks = [(2, 2)]
    ∧ (mLookup 1 bad.pending).map (·.phase) = some .prepared
    ∧ (step Crc32.crc32 toySer toyDe bad (.vote 2 1 (.yes 3) false)).2 = Res.notFound
    ∧ (step Crc32.crc32 toySer toyDe bad (.commit 2)).2 = Res.notFound
    ∧ (step Crc32.crc32 toySer toyDe bad (.abort 2)).2 = Res.notFound
    ∧ (mLookup 2 c2n.pending).map (·.phase) = some .aborting
    ∧ mLookup 2 (recoverFromWalRecoveryReplacesPending c2n 400).1.pending = none
    ∧ (recoverFromWalRecoveryReplacesPending c2n 400).1.locks = [(2, 2)]
    ∧ (mLookup 2 (recoverFromWal c2n 400).1.pending).map (·.phase) = some .aborting
    ∧ mLookup 2 good.pending = mLookup 2 c2.pending
    ∧ (mLookup 1 good.pending).map (·.phase) = some .prepared
    ∧ (step Crc32.crc32 toySer toyDe (run Crc32.crc32 toySer toyDe good (finish.take 2)) (.commit 2)).2 = Res.ok
    ∧ (run Crc32.crc32 toySer toyDe good finish).locks = []
    ∧ mLookup 2 (run Crc32.crc32 toySer toyDe good finish).pending = none := by
  decide

end Neumann.TxWal.Props
